import Apko.Model.Accounts
import Apko.Model.AccountsSched
import Apko.Driver.FS
import Apko.Generated.TransAccounts
/-! line-protocol handlers for corr:accounts (C13)

All requests carry the node graph the real `tarfs` had *before* the call (`pre`, the canonical
dump of the `VerifDump` hook) and the one it had *after* (`post`); the driver parses both back into
`FS` values, runs the Impl model from `pre`, and evaluates the Spec post-conditions on `post`
(Go's observation).  Mode `verdict`: `impl \t pass|fail:<reasons> \t class`.

* `acc.mut   <pre> <goRes> <post> <mutation>`            one iteration of `mutatePaths`
* `acc.paths <pre> <goRes> <post> <mutation> …`          one call of `mutatePaths` with the whole list
* `acc.accounts <pre> <goRes> <post> <u|g|r token> …`    `mutateAccounts`
* `acc.e2e <sel> <token> …`                              a whole `apko build`: configuration tokens and
  the observation of the emitted layer / image configuration (oracle only); `sel` = `acc` or the
  index of the path mutation that is judged
-/
namespace Apko.Driver.Accounts
open Apko Apko.Path Apko.FS Apko.Formats Apko.Accounts
open Apko.Driver.FS (T natS intS parseNat parseInt ux parseKV dump errS sepJoin)

/-! ### parsing the canonical dump back into a node graph -/

def parseTe (s : String) : Option TarEntry :=
  if s = "-" then none else
  match s.splitOn "/" with
  | [sz, content, sum, pkg] =>
    some { content := ux content, size := parseNat sz, checksum := ux sum, pkgName := ux pkg,
           pkgOrigin := [], pkgReplaces := [] }
  | _ => none

def parseAttrs (s : String) : Option Inode :=
  match s.splitOn "," with
  | [d, mode, uid, gid, mtime, nlink, data, target, major, minor, xa, te, hl] =>
    some { dir := d = "D", mode := parseNat mode, uid := parseInt uid, gid := parseInt gid,
           mtime := parseInt mtime, nlink := parseNat nlink, data := ux data, target := ux target,
           major := parseNat major, minor := parseNat minor, xattrs := parseKV xa, te := parseTe te,
           hardlinks := parseKV hl }
  | _ => none

/-- `"/a/b"` ↦ (`"/a"`, `"b"`) -/
def splitLast (p : Text) : Text × Text :=
  let r := p.reverse
  ((r.dropWhile (· ≠ '/')).drop 1 |>.reverse, (r.takeWhile (· ≠ '/')).reverse)

structure PState where
  nodes : List Inode := []
  ids : List (Text × Nat) := []
  ok : Bool := true

def parseRec (st : PState) (rec : String) : PState :=
  match rec.splitOn ":" with
  | hp :: ks :: rest =>
    let p := ux hp
    let k := parseNat ks
    let st1 : PState := match rest with
      | [attrs] =>
        match parseAttrs attrs with
        | some n => { st with nodes := st.nodes ++ [n], ok := st.ok && k == st.nodes.length }
        | none => { st with ok := false }
      | [] => { st with ok := st.ok && k < st.nodes.length }
      | _ => { st with ok := false }
    if p = [] then { st1 with ids := (p, k) :: st1.ids } else
    let (pp, name) := splitLast p
    match st1.ids.lookup pp with
    | none => { st1 with ok := false }
    | some pid =>
      let pn := st1.nodes.getD pid default
      { st1 with nodes := st1.nodes.set pid { pn with children := pn.children ++ [(name, k)] },
                 ids := (p, k) :: st1.ids }
  | _ => { st with ok := false }

/-- the node graph of a dump; `none` when the text is not a dump or does not print back to itself -/
def parseDump (s : String) : Option FS :=
  let st := (s.splitOn ";").foldl parseRec {}
  let fs : FS := { nodes := st.nodes }
  if st.ok ∧ String.ofList (dump fs) = s then some fs else none

/-! ### requests -/

def parseMutation (tok : String) : Option Mutation :=
  match tok.splitOn "," with
  | [ty, p, uid, gid, perms, src, r] =>
    some { path := ux p, type := ux ty, uid := parseNat uid, gid := parseNat gid, perms := parseNat perms,
           source := ux src, recursive := r = "1" }
  | _ => none

def parseAcc (toks : List String) : AccCfg :=
  toks.foldl (fun (a : AccCfg) tok =>
    match tok.splitOn "," with
    | ["u", n, uid, gid, sh, home] =>
      { a with users := a.users ++ [{ name := ux n, uid := parseNat uid,
                                      gid := if gid = "-" then none else some (parseNat gid),
                                      shell := ux sh, home := ux home }] }
    | ["g", n, gid, mem] =>
      { a with groups := a.groups ++ [{ name := ux n, gid := parseNat gid,
                                        members := if mem.isEmpty then [] else (mem.splitOn "+").map ux }] }
    | ["r", r] => { a with runAs := ux r }
    | _ => a) {}

def aerrS : AErr → Text
  | .fs e => errS e
  | .parse => T "EPARSE"
  | .homeNotDir => T "EHOMENOTDIR"
  | .badType => T "EBADTYPE"

def resS : Option AErr → Text
  | none => T "ok"
  | some e => aerrS e

def cfgT : Cfg := Cfg.impl .tarfs

def str (t : Text) : String := String.ofList t

def hasSub (sub : String) (t : Text) : Bool := (str t).splitOn sub |>.length |> (· > 1)

/-! ### classes of the recorded findings (decidable predicates over request and failed demands) -/

/-- which recorded finding explains one failed demand of a path mutation, if any -/
def reasonClass (c : Cfg) (post : FS) (m : Mutation) (r : Text) : Option String :=
  let s := str r
  let setid := decide (m.perms &&& 0o7000 ≠ 0) || decide (m.perms ≥ 0o10000)
  if (s = "perm" ∨ s = "sub-perm") ∧ setid then some "F13b"
  else if s = "link-owner" ∧ m.type = tSymlink then some "F13a"
  else if s = "sub-link-owner" then some "F13a"
  else if s = "size" ∧ m.type = tEmptyFile ∧
      (match follow c post m.path with
       | some i => (post.node i).te.isSome
       | none => false) = true then some "F13d"
  else none

def dedup (l : List String) : List String := l.foldl (fun acc x => if acc.contains x then acc else acc ++ [x]) []

def sortS (l : List String) : List String := l.mergeSort (fun a b => decide (a ≤ b))

def classOf (cls : List (Option String)) : String :=
  if cls = [] then "-" else
  if cls.any (·.isNone) then "unlisted" else
  String.intercalate "+" (sortS (dedup (cls.filterMap id)))

def verdict (reasons : List Text) : String :=
  if reasons = [] then "pass" else "fail:" ++ String.intercalate "," (dedup (reasons.map str))

def reply (impl : String) (reasons : List Text) (cls : String) : String :=
  impl ++ "\t" ++ verdict reasons ++ "\t" ++ cls

/-- one `mutatePaths` call with the list `ms`; the oracle is evaluated for the last mutation that
was applied (the state after it is `post`) -/
def handlePaths (pre goRes post : String) (mtoks : List String) : String :=
  match parseDump pre, parseDump post, mtoks.mapM parseMutation with
  | some fs0, some fs1, some ms =>
    let (ifs, ie) := mutatePaths cfgT fs0 ms
    let impl := str (resS ie) ++ "#" ++ str (dump ifs)
    if goRes ≠ "ok" then reply impl [] "-" else
    match ms.getLast? with
    | none => reply impl [] "-"
    | some m =>
      let reasons := specMutation cfgT fs1 m
      reply impl reasons (classOf (reasons.map (reasonClass cfgT fs1 m)))
  | _, _, _ => "bad-request\tfail:bad-request\tunlisted"

/-- the result of a schedule of the two goroutines (`Model/AccountsSched.lean`), as `mutateAccounts` reports it -/
def schedResult (cfg : AccCfg) (fs0 : FS) (sched : List Bool) : Option (FS × Option AErr × Text) :=
  let s := runSched cfgT cfg sched ⟨fs0, .start, .start⟩
  if s.g.isDone ∧ s.u.isDone then some s.result else none

/-- three schedules that let both goroutines finish: group goroutine first, passwd goroutine first, strictly
alternating (`n` bounds the calls of the passwd goroutine: 4 per entry and 4 for the file) -/
def schedules (n : Nat) : List (List Bool) :=
  [List.replicate 4 true ++ List.replicate n false,
   List.replicate n false ++ List.replicate 4 true,
   (List.range n).flatMap (fun _ => [true, false])]

def accResS (r : FS × Option AErr × Text) : String :=
  (match r.2.1 with | none => "ok:" ++ str (hex r.2.2) | some _ => "err") ++ "#" ++ str (dump r.1)

/-- the entries `etc/group` and `etc/passwd` of the tree are one node (hard link), or one is a symbolic link
that leads to the other's node -/
def aliased (fs : FS) : Bool :=
  match follow cfgT fs groupPath, follow cfgT fs passwdPath with
  | some a, some b => a == b
  | _, _ => false

def handleAccounts (pre goRes post : String) (toks : List String) : String :=
  match parseDump pre, parseDump post with
  | some fs0, some fs1 =>
    let cfg := parseAcc toks
    let big := accResS (mutateAccounts cfgT fs0 cfg)
    -- every interleaving of the two goroutines ends like the sequential model (C13.interleavings_agree): three
    -- schedules of the small-step machines are run on the case and must agree with it
    let nU := 4 * (cfg.users.length + ((str (readText cfgT fs0 passwdPath)).splitOn "\n").length) + 8
    let outs := (schedules nU).map fun sc => (schedResult cfg fs0 sc).map accResS
    let impl := if outs.all (· == some big) then big else "sched-diverge:" ++ big
    match goRes.splitOn ":" with
    | ["ok", r] =>
      let reasons := specAccounts cfgT fs0 fs1 cfg (ux r)
      reply impl reasons (if reasons = [] then "-" else if aliased fs0 then "F13f" else "unlisted")
    | _ => reply impl [] "-"
  | _, _ => "bad-request\tfail:bad-request\tunlisted"

/-- `etc/group` and `etc/passwd` are one node: the goroutines race; no correspondence is demanded (oracle only):
a call that reports success must have realized the accounts -/
def handleAlias (pre goRes post : String) (toks : List String) : String :=
  match parseDump pre, parseDump post with
  | some fs0, some fs1 =>
    let cfg := parseAcc toks
    match goRes.splitOn ":" with
    | ["ok", r] =>
      let reasons := specAccounts cfgT fs0 fs1 cfg (ux r)
      "-\t" ++ verdict reasons ++ "\t" ++ (if reasons = [] then "-" else if aliased fs0 then "F13f" else "unlisted")
    | _ => "-\tpass\t-"
  | _, _ => "bad-request\tfail:bad-request\tunlisted"

/-! ### end to end: the emitted layer and image configuration -/

structure LEntry where
  name : Text
  typeflag : Nat
  mode : Nat
  uid : Nat
  gid : Nat
  size : Nat
  link : Text
  deriving Repr

structure E2E where
  acc : List String := []
  muts : List Mutation := []
  entries : List LEntry := []
  /-- paths shipped by the packages, with the tar type flag and whether the body is non-empty -/
  shipped : List (Text × Nat × Bool) := []
  configUser : Text := []
  passwd : Text := []
  group : Text := []
  oldPasswd : Text := []
  oldGroup : Text := []
  /-- `accounts.run-as` of the image's /etc/apko.json (the configuration as the build resolved it); `none` when the
  harness did not observe the file, `apkoBad` when it is there but unreadable -/
  apkoRunAs : Option Text := none
  apkoBad : Bool := false

def parseE2E (toks : List String) : E2E :=
  toks.foldl (fun (e : E2E) tok =>
    match tok.splitOn "," with
    | "m" :: rest =>
      (match parseMutation (String.intercalate "," rest) with
       | some m => { e with muts := e.muts ++ [m] }
       | none => e)
    | ["e", n, tf, md, ui, gi, sz, l] =>
      let le : LEntry := ⟨ux n, parseNat tf, parseNat md, parseNat ui, parseNat gi, parseNat sz, ux l⟩
      { e with entries := e.entries ++ [le] }
    | ["pre", n, tf, ne] => { e with shipped := e.shipped ++ [(ux n, parseNat tf, decide (ne = "1"))] }
    | ["cu", u] => { e with configUser := ux u }
    | ["pw", t] => { e with passwd := ux t }
    | ["gr", t] => { e with group := ux t }
    | ["opw", t] => { e with oldPasswd := ux t }
    | ["ogr", t] => { e with oldGroup := ux t }
    | ["aj", t] => { e with apkoRunAs := some (ux t) }
    | ["ajbad", _] => { e with apkoBad := true }
    | _ => { e with acc := e.acc ++ [tok] }) {}

/-- layer names are slash-separated relative paths -/
def relName (p : Text) : Text := joinNames (parts p)

def findEntry (es : List LEntry) (p : Text) : Option LEntry := es.find? fun e => relName e.name = relName p

def eAttr (e : LEntry) (perms uid gid : Nat) (tag : String) : List Text :=
  (if e.mode = wantPerm perms then [] else [tr (tag ++ "perm")]) ++
  (if e.uid = uid ∧ e.gid = gid then [] else [tr (tag ++ "owner")])

def e2eMutation (x : E2E) (m : Mutation) : List Text :=
  match findEntry x.entries m.path with
  | none => [tr "type"]
  | some e =>
    if m.type = tDirectory then
      (if e.typeflag = 53 then [] else [tr "type"]) ++ eAttr e m.perms m.uid m.gid "" ++
      (if m.recursive then
        (x.entries.filter fun k => (parts m.path).isPrefixOf (parts k.name) ∧ parts k.name ≠ parts m.path).flatMap fun k =>
          if k.typeflag = 50 then (if k.uid = m.uid ∧ k.gid = m.gid then [] else [tr "sub-link-owner"])
          else eAttr k m.perms m.uid m.gid "sub-"
       else [])
    else if m.type = tEmptyFile then
      (if e.typeflag = 48 then [] else [tr "type"]) ++ (if e.size = 0 then [] else [tr "size"]) ++
        eAttr e m.perms m.uid m.gid ""
    else if m.type = tPermissions then eAttr e m.perms m.uid m.gid ""
    else if m.type = tSymlink then
      if e.typeflag ≠ 50 then [tr "type"] else
      (if e.link = m.source then [] else [tr "target"]) ++
        (if e.uid = m.uid ∧ e.gid = m.gid then [] else [tr "link-owner"])
    else if m.type = tHardlink then
      -- a hard link pair is one body and one link entry naming it, in either direction
      let src := findEntry x.entries m.source
      let linked : Bool := decide (e.typeflag = 49 ∧ relName e.link = relName m.source) ||
        (match src with | some s => decide (s.typeflag = 49 ∧ relName s.link = relName m.path) | none => false)
      (if linked then [] else [tr "hardlink-copy"]) ++ eAttr e m.perms m.uid m.gid ""
    else [tr "unknown-type"]

def e2eReasonClass (x : E2E) (m : Mutation) (r : Text) : Option String :=
  let s := str r
  let setid := decide (m.perms &&& 0o7000 ≠ 0) || decide (m.perms ≥ 0o10000)
  if (s = "perm" ∨ s = "sub-perm") ∧ setid then some "F13b"
  else if s = "link-owner" ∧ m.type = tSymlink then some "F13a"
  else if s = "sub-link-owner" then some "F13a"
  else if s = "hardlink-copy" ∧ m.type = tHardlink then some "F13c"
  else if s = "size" ∧ m.type = tEmptyFile ∧
      (x.shipped.any fun p => relName p.1 = relName m.path ∧ p.2.1 = 48 ∧ p.2.2) then some "F13d"
  else none

def e2eHome (x : E2E) (earlier : List Text) (u : User) : List Text :=
  if u.home = devNull then [] else
  match findEntry x.entries u.home with
  | none => [tr "home-missing"]
  | some e =>
    if e.typeflag ≠ 53 then [tr "home-notdir"] else
    let existed := x.shipped.any (fun p => isAncestorOrSelf u.home p.1) || earlier.any (isAncestorOrSelf u.home)
    if existed then [] else
    (if e.mode = 0o700 then [] else [tr "home-mode"]) ++
    (if e.uid = u.uid ∧ e.gid = u.gid then [] else [tr "home-owner"])

def e2eHomes (x : E2E) : List Text → List User → List Text
  | _, [] => []
  | earlier, u :: rest =>
    e2eHome x earlier u ++ e2eHomes x (if u.home = devNull then earlier else earlier ++ [u.home]) rest

/-- `sel` = `acc` (accounts, homes, run-as) or the index of one path mutation -/
def handleE2E (sel : String) (toks : List String) : String :=
  let x := parseE2E toks
  let cfg := parseAcc x.acc
  if sel = "acc" then
    let accR : List Text :=
      match loadUsers x.oldPasswd, loadGroups x.oldGroup with
      | some ou, some og =>
        let wantU := ou ++ cfg.users.map specUser
        let wantG := og ++ cfg.groups.map specGroup
        (if loadUsers x.passwd = some wantU then [] else [tr "passwd"]) ++
        (if loadGroups x.group = some wantG then [] else [tr "group"]) ++
        e2eHomes x (ou.filterMap fun u => if u.home = devNull then none else some u.home) (cfg.users.map specUser) ++
        (let wantRunAs : Text := if cfg.runAs = [] then [] else
            match wantU.find? (fun u => u.name = cfg.runAs) with
            | some u => natToDec u.uid
            | none => cfg.runAs
         (if x.configUser = wantRunAs then [] else [tr "run-as"]) ++
         -- the same resolved value is what the image says about itself in /etc/apko.json
         (if x.apkoBad then [tr "apko-json-unreadable"] else
          match x.apkoRunAs with
          | some r => if r = wantRunAs then [] else [tr "apko-json-run-as"]
          | none => []))
      | _, _ => [tr "old-unparsable"]
    "-\t" ++ verdict accR ++ "\t" ++ (if accR = [] then "-" else "unlisted")
  else
    match x.muts[parseNat sel]? with
    | none => "-\tpass\t-"
    | some m =>
      let reasons := e2eMutation x m
      "-\t" ++ verdict reasons ++ "\t" ++ classOf (reasons.map (e2eReasonClass x m))

/-! ### end to end: the emitted layer against the FOLD of the whole declared list

`acc.fold <pre> <k> <token> …`: `pre` is the node graph of a tarfs holding what the packages ship (built by the harness
from the package description), the `m,` tokens are the declared path mutations in the order the configuration files
declare them (the first `k` in the `include:`d file, the rest in the including one) and the `e,` tokens are the entries
of the layer a whole `apko build` emitted.  The model applies `mutatePaths` to the list as the build receives it
(`buildPaths`: merged with the include, copied per architecture) and every name in the compared part of the tree must
be in the layer with the kind, permission bits, owner and link target the model's final state has — and no other. -/

def startsWith (pre : String) (n : Name) : Bool := pre.toList.isPrefixOf n

/-- the part of the tree the path mutations of the end-to-end cases work on (accounts, /etc/apko.json, os-release
and the home directories live elsewhere) -/
def foldScope (p : List Name) : Bool :=
  match p with
  | [] => false
  | h :: t =>
    h = "srv".toList || h = "usr".toList || h = "opt".toList || h = "sbin".toList || startsWith "made" h ||
    (h = "etc".toList && (match t with | [x] => startsWith "empty" x | _ => false))

def foldEntryFails (n : Inode) (e : LEntry) : List Text :=
  let kindOK : Bool :=
    if n.dir then e.typeflag = 53 else if n.isSymlink then e.typeflag = 50 else (e.typeflag = 48 || e.typeflag = 49)
  (if kindOK then [] else [tr "fold-type"]) ++
  (if n.isSymlink then (if e.link = n.target then [] else [tr "fold-target"])
   else if e.mode = unixPerm n.mode then [] else [tr "fold-perm"]) ++
  (if (e.uid : Int) = n.uid ∧ (e.gid : Int) = n.gid then [] else [tr "fold-owner"])

def foldFails (fs : FS) (entries : List LEntry) : List Text :=
  let model := (walk fs).filter fun e => foldScope e.1
  (model.flatMap fun e =>
    match entries.find? (fun k => parts k.name = e.1) with
    | none => [tr "fold-missing"]
    | some k => foldEntryFails (fs.node e.2) k) ++
  ((entries.filter fun k => foldScope (parts k.name)).flatMap fun k =>
    if model.any (fun e => e.1 = parts k.name) then [] else [tr "fold-extra"])

def handleFold (pre ks : String) (toks : List String) : String :=
  match parseDump pre with
  | none => "bad-request\tfail:bad-request\tunlisted"
  | some fs0 =>
    let x := parseE2E toks
    let k := parseNat ks
    let (ifs, ie) := mutatePaths cfgT fs0 (buildPaths (x.muts.take k) (x.muts.drop k))
    let reasons : List Text :=
      match ie with
      | some e => [tr "fold-error-" ++ aerrS e]
      | none => foldFails ifs x.entries
    "-\t" ++ verdict reasons ++ "\t" ++ (if reasons = [] then "-" else "unlisted")

/-- `acc.merge <k> <token> …`: what `MergeInto` makes of a list whose first `k` elements the included configuration
declares and the rest the including one (tokens are opaque: paths, users, groups, volumes alike) -/
def handleMerge (ks : String) (toks : List String) : String :=
  let k := parseNat ks
  let r := String.intercalate "|" (mergeLists (toks.take k) (toks.drop k))
  r ++ "\t" ++ r ++ "\tunlisted"

def handle (args : List String) : Option String :=
  match args with
  | "acc.fold" :: pre :: k :: toks => some (handleFold pre k toks)
  | "acc.merge" :: k :: toks => some (handleMerge k toks)
  | ["acc.mut", pre, goRes, post, m] => some (handlePaths pre goRes post [m])
  | "acc.paths" :: pre :: goRes :: post :: ms => some (handlePaths pre goRes post ms)
  | "acc.accounts" :: pre :: goRes :: post :: toks => some (handleAccounts pre goRes post toks)
  | "acc.alias" :: pre :: goRes :: post :: toks => some (handleAlias pre goRes post toks)
  | "acc.e2e" :: sel :: toks => some (handleE2E sel toks)
  | ["ta.user", name, uid, gid, shell, home] =>
    -- the check on the Go → Lean translator (extract/trans.go): impl = the regenerated translation of
    -- userToUserEntry, spec = the model (equal by Proofs/TransAccounts.lean)
    let u : UserCfg := { name := ux name, uid := parseNat uid, gid := if gid = "-" then none else some (parseNat gid),
                         shell := ux shell, home := ux home }
    let showU (e : User) : String := "|".intercalate
      [str (hex e.name), str (hex e.password), toString e.uid, toString e.gid, str (hex e.info), str (hex e.home), str (hex e.shell)]
    some (showU (Generated.Trans.userToUserEntry u) ++ "\t" ++ showU (userToUserEntry u) ++ "\tunlisted")
  | _ => none

end Apko.Driver.Accounts
