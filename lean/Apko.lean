import Apko.Model.Text
import Apko.Model.Version
