import Apko.Driver.Version
/-! Line-protocol driver: one tab-separated request per line on stdin, one response line on stdout. -/
open Apko

def dispatch (args : List String) : String :=
  match Driver.Version.handle args with
  | some r => r
  | none => "bad-op"

partial def loop (hin : IO.FS.Stream) (hout : IO.FS.Stream) : IO Unit := do
  let line ← hin.getLine
  if line.isEmpty then return ()
  let l := (line.dropEndWhile (· == '\n')).toString
  if l == "flush" then
    hout.putStrLn "flushed"
    hout.flush
  else
    hout.putStrLn (dispatch (l.splitOn "\t"))
  loop hin hout

def main : IO Unit := do
  let hin ← IO.getStdin
  let hout ← IO.getStdout
  loop hin hout
  hout.flush
