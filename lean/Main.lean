import Apko.Driver.Version
import Apko.Driver.Retry
import Apko.Driver.Formats
import Apko.Driver.Oci
import Apko.Driver.Layers
import Apko.Driver.FS
import Apko.Driver.Resolver
import Apko.Driver.IndexSig
import Apko.Driver.Authentic
import Apko.Driver.Cache
import Apko.Driver.Sbom
import Apko.Driver.Accounts
import Apko.Driver.Tar
import Apko.Driver.Conflict
import Apko.Driver.Confine
import Apko.Driver.Robust
import Apko.Driver.Repro
import Apko.Driver.Lock
import Apko.Driver.Fetch
import Apko.Driver.Split
/-!
Line-protocol driver: one tab-separated request per line on stdin, one response line on stdout.
Handlers are stateless: a request carries a whole case (e.g. a whole operation sequence).
A response is `impl \t spec \t class` (see harness/engine.go).  `flush` flushes stdout.
-/
open Apko

def handlers : List (List String → Option String) := [
  Driver.Version.handle, Driver.Retry.handle, Driver.Formats.handle, Driver.Oci.handle,
  Driver.Layers.handle, Driver.FS.handle, Driver.Resolver.handle, Driver.IndexSig.handle,
  Driver.Authentic.handle, Driver.Cache.handle, Driver.Sbom.handle, Driver.Accounts.handle,
  Driver.Tar.handle, Driver.Conflict.handle, Driver.Confine.handle, Driver.Robust.handle,
  Driver.Repro.handle, Driver.Lock.handle, Driver.Fetch.handle, Driver.Split.handle]

def dispatch (args : List String) : String :=
  match handlers.findSome? (fun h => h args) with
  | some r => r
  | none => "bad-op"

partial def loop (hin : IO.FS.Stream) (hout : IO.FS.Stream) : IO Unit := do
  let line ← hin.getLine
  if line.isEmpty then return ()
  let l := (line.dropEndWhile (· == '\n')).toString
  if l == "flush" then
    hout.putStrLn "flushed"
    hout.flush
  else
    hout.putStrLn (dispatch (l.splitOn "\t"))
  loop hin hout

def main : IO Unit := do
  let hin ← IO.getStdin
  let hout ← IO.getStdout
  loop hin hout
  hout.flush
