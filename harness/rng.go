package main

import "hash/fnv"

// Rng is splitmix64; case i of suite s under seed depends only on (seed, s, i).
type Rng struct{ s uint64 }

func NewRng(seed uint64, suite string, i uint64) *Rng {
	h := fnv.New64a()
	h.Write([]byte(suite))
	r := &Rng{seed ^ h.Sum64()*0x9e3779b97f4a7c15 ^ (i+1)*0xbf58476d1ce4e5b9}
	r.Next()
	r.Next()
	return r
}

func (r *Rng) Next() uint64 {
	r.s += 0x9e3779b97f4a7c15
	z := r.s
	z = (z ^ (z >> 30)) * 0xbf58476d1ce4e5b9
	z = (z ^ (z >> 27)) * 0x94d049bb133111eb
	return z ^ (z >> 31)
}

func (r *Rng) Intn(n int) int {
	if n <= 0 {
		return 0
	}
	return int(r.Next() % uint64(n))
}
func (r *Rng) Bool() bool         { return r.Next()&1 == 1 }
func (r *Rng) Chance(p int) bool  { return r.Intn(100) < p }
func (r *Rng) Range(a, b int) int { return a + r.Intn(b-a+1) }
func Pick[T any](r *Rng, xs []T) T { return xs[r.Intn(len(xs))] }
func (r *Rng) Shuffle(n int, swap func(i, j int)) {
	for i := n - 1; i > 0; i-- {
		j := r.Intn(i + 1)
		swap(i, j)
	}
}
