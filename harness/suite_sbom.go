package main

// corr:sbom — C11 "The SBOM describes the image that was built".
//
// Three kinds of cases (see sbom_gen.go for the generators, sbom_e2e.go for the end-to-end path):
//   direct  the real spdx.Generate / spdx.GenerateIndex on constructed options and an in-memory
//           /var/lib/db/sbom directory; plus unit steps on stringToIdentifier, replacePackage and
//           copySBOMElements derived from the same case;
//   e2e     a real `apko build` (pkg/verifapi) against a synthetic repository whose packages may ship an
//           embedded SBOM; the model input (image digest, layer digests, installed db, os-release, sbom
//           directory, index digest) is taken from the build outputs, not from the generator.
// Go's emitted JSON is canonicalised into the driver's document encoding and (a) compared with the Lean
// Impl model, (b) judged by the structural oracle evaluated in Lean on Go's document.

import (
	"encoding/hex"
	"encoding/json"
	"fmt"
	"os"
	"path"
	"path/filepath"
	"strings"
	"time"

	v1 "github.com/google/go-containerregistry/pkg/v1"

	"chainguard.dev/apko/pkg/apk/apk"
	apkfs "chainguard.dev/apko/pkg/apk/fs"
	"chainguard.dev/apko/pkg/build/types"
	"chainguard.dev/apko/pkg/sbom/generator/spdx"
	"chainguard.dev/apko/pkg/sbom/options"
)

type sbPkg struct {
	ID      string      `json:"id"`
	Name    string      `json:"name"`
	Version string      `json:"version,omitempty"`
	Sums    [][2]string `json:"sums,omitempty"`
}
type sbRel struct {
	E string `json:"e"`
	T string `json:"t"`
	R string `json:"r"`
}
type sbDoc struct {
	Describes []string    `json:"describes,omitempty"`
	Pkgs      []sbPkg     `json:"pkgs,omitempty"`
	Rels      []sbRel     `json:"rels,omitempty"`
	Lics      [][2]string `json:"lics,omitempty"`
}
type sbEntry struct {
	Stem string `json:"stem"`
	Kind string `json:"kind"` // doc | dir | junk
	Doc  *sbDoc `json:"doc,omitempty"`
}
type sbApk struct {
	Name     string `json:"name"`
	Version  string `json:"version"`
	Checksum string `json:"checksum"` // hex
}
type sbHash struct {
	Alg string `json:"alg"`
	Hex string `json:"hex"`
}
type sbIndex struct {
	Digest sbHash   `json:"digest"`
	Images []sbHash `json:"images"`
	VCS    string   `json:"vcs,omitempty"`
}
type sbRep struct {
	Doc sbDoc  `json:"doc"`
	A   string `json:"a"`
	B   string `json:"b"`
}
type sbCopy struct {
	Src  sbDoc    `json:"src"`
	Tgt  sbDoc    `json:"tgt"`
	Todo []string `json:"todo"`
}
type sbE2E struct {
	Pkgs   []SPkg   `json:"pkgs"`
	World  []string `json:"world"`
	Archs  []string `json:"archs"`
	Budget int      `json:"budget,omitempty"` // > 0: layering strategy "origin" with this budget
	VCS    string   `json:"vcs,omitempty"`
	// architectures come from the configuration's `archs:` list (one of them spelled twice through an alias), no --arch
	ConfigArchs bool `json:"config_archs,omitempty"`
	// `apko publish` to an in-process registry instead of `apko build` (sbom_publish.go)
	Publish bool `json:"publish,omitempty"`
	// non-empty: these packages (a repository of their own) are built into a base image first; the configuration is then
	// locked and built on top of it with contents.baseimage + --lockfile (sbom_base.go)
	Base []SPkg `json:"base,omitempty"`
}
type sbCase struct {
	Kind        string    `json:"kind"` // direct | e2e
	ImageDigest string    `json:"image_digest,omitempty"`
	Layers      []sbHash  `json:"layers,omitempty"`
	VCS         string    `json:"vcs,omitempty"`
	OSVersion   string    `json:"os_version,omitempty"`
	Apks        []sbApk   `json:"apks,omitempty"`
	FS          []sbEntry `json:"fs,omitempty"`
	Index       *sbIndex  `json:"index,omitempty"`
	IDsHex      []string  `json:"ids_hex,omitempty"` // inputs of stringToIdentifier, hex (may be invalid UTF-8)
	Reps        []sbRep   `json:"reps,omitempty"`
	Copies      []sbCopy  `json:"copies,omitempty"`
	E2E         *sbE2E    `json:"e2e,omitempty"`
}

type sbomSuite struct{}

func init() { register(sbomSuite{}) }

func (sbomSuite) Name() string { return "sbom" }

// ---- encoding shared with lean/Apko/Driver/Sbom.lean ----

func hxList(xs []string) string {
	ys := make([]string, len(xs))
	for i, x := range xs {
		ys[i] = "." + hx(x) // the dot keeps a list with one empty string apart from the empty list
	}
	return strings.Join(ys, ",")
}

func encPkg(p sbPkg) string {
	cs := make([]string, len(p.Sums))
	for i, c := range p.Sums {
		cs[i] = hx(c[0]) + "~" + hx(c[1])
	}
	return hx(p.ID) + "," + hx(p.Name) + "," + hx(p.Version) + "," + strings.Join(cs, "+")
}

func encDoc(d sbDoc) string {
	ps := make([]string, len(d.Pkgs))
	for i, p := range d.Pkgs {
		ps[i] = encPkg(p)
	}
	rs := make([]string, len(d.Rels))
	for i, r := range d.Rels {
		rs[i] = hx(r.E) + "," + hx(r.T) + "," + hx(r.R)
	}
	ls := make([]string, len(d.Lics))
	for i, l := range d.Lics {
		ls[i] = hx(l[0]) + "," + hx(l[1])
	}
	return hxList(d.Describes) + "|" + strings.Join(ps, ";") + "|" + strings.Join(rs, ";") + "|" + strings.Join(ls, ";")
}

func encFS(fs []sbEntry) string {
	es := make([]string, len(fs))
	for i, e := range fs {
		switch e.Kind {
		case "dir":
			es[i] = hx(e.Stem) + "=D"
		case "junk":
			es[i] = hx(e.Stem) + "=J"
		default:
			es[i] = hx(e.Stem) + "=S" + encDoc(*e.Doc)
		}
	}
	return strings.Join(es, "/")
}

func encApks(as []sbApk) string {
	xs := make([]string, len(as))
	for i, a := range as {
		xs[i] = hx(a.Name) + "," + hx(a.Version) + "," + hx(a.Checksum)
	}
	return strings.Join(xs, ";")
}

func (h sbHash) str() string {
	if h.Alg == "" && h.Hex == "" {
		return ""
	}
	return h.Alg + ":" + h.Hex
}

// ---- conversions between the abstract documents and the real spdx types ----

func toSpdx(d sbDoc) *spdx.Document {
	out := &spdx.Document{ID: "SPDXRef-DOCUMENT", Name: "embedded", Version: "SPDX-2.3", DataLicense: "CC0-1.0",
		Namespace: "https://spdx.org/spdxdocs/verif/", Packages: []spdx.Package{}, Relationships: []spdx.Relationship{}}
	out.DocumentDescribes = append(out.DocumentDescribes, d.Describes...)
	for _, p := range d.Pkgs {
		sp := spdx.Package{ID: p.ID, Name: p.Name, Version: p.Version, DownloadLocation: "NOASSERTION"}
		for _, c := range p.Sums {
			sp.Checksums = append(sp.Checksums, spdx.Checksum{Algorithm: c[0], Value: c[1]})
		}
		out.Packages = append(out.Packages, sp)
	}
	for _, r := range d.Rels {
		out.Relationships = append(out.Relationships, spdx.Relationship{Element: r.E, Type: r.T, Related: r.R})
	}
	for _, l := range d.Lics {
		out.LicensingInfos = append(out.LicensingInfos, spdx.LicensingInfo{LicenseID: l[0], ExtractedText: l[1]})
	}
	return out
}

func fromSpdx(d *spdx.Document) sbDoc {
	var out sbDoc
	out.Describes = append(out.Describes, d.DocumentDescribes...)
	for _, p := range d.Packages {
		sp := sbPkg{ID: p.ID, Name: p.Name, Version: p.Version}
		for _, c := range p.Checksums {
			sp.Sums = append(sp.Sums, [2]string{c.Algorithm, c.Value})
		}
		out.Pkgs = append(out.Pkgs, sp)
	}
	for _, r := range d.Relationships {
		out.Rels = append(out.Rels, sbRel{r.Element, r.Type, r.Related})
	}
	for _, l := range d.LicensingInfos {
		out.Lics = append(out.Lics, [2]string{l.LicenseID, l.ExtractedText})
	}
	return out
}

func sbErrKind(err error) string {
	s := err.Error()
	switch {
	case strings.Contains(s, "directory found at SBOM path"):
		return "sbom-is-dir"
	case strings.Contains(s, "elements in source document"):
		return "missing-elements"
	case strings.Contains(s, "differ in Text"):
		return "license-conflict"
	case strings.Contains(s, "no architecture images found"):
		return "no-images"
	}
	return "other"
}

func parseEmitted(b []byte) (string, *sbDoc) {
	var doc spdx.Document
	if err := json.Unmarshal(b, &doc); err != nil {
		return "err:emitted-json-unreadable", nil
	}
	if doc.ID != "SPDXRef-DOCUMENT" {
		return "err:document-id", nil
	}
	d := fromSpdx(&doc)
	return "ok:" + encDoc(d), &d
}

// ---- running the real generator on constructed options ----

func sbScratch() string {
	d, err := os.MkdirTemp("", "verif-sbom-")
	if err != nil {
		panic(err)
	}
	return d
}

func writeSbomDir(fsys apkfs.FullFS, entries []sbEntry) {
	dir := path.Join("var", "lib", "db", "sbom")
	if err := fsys.MkdirAll(dir, 0o755); err != nil {
		panic(err)
	}
	for _, e := range entries {
		p := path.Join(dir, e.Stem+".spdx.json")
		switch e.Kind {
		case "dir":
			if err := fsys.MkdirAll(p, 0o755); err != nil {
				panic(err)
			}
		case "junk":
			if err := fsys.WriteFile(p, []byte("{\"SPDXID\": [not json"), 0o644); err != nil {
				panic(err)
			}
		default:
			b, err := json.Marshal(toSpdx(*e.Doc))
			if err != nil {
				panic(err)
			}
			if err := fsys.WriteFile(p, b, 0o644); err != nil {
				panic(err)
			}
		}
	}
}

func goGenerate(c *sbCase) (string, *sbDoc) {
	fsys := apkfs.NewMemFS()
	writeSbomDir(fsys, c.FS)
	opts := &options.Options{
		OS:       options.OSInfo{Name: "synth", ID: "synth", Version: c.OSVersion},
		FileName: "sbom",
		ImageInfo: options.ImageInfo{
			ImageDigest:     c.ImageDigest,
			VCSUrl:          c.VCS,
			Arch:            types.ParseArchitecture("amd64"),
			SourceDateEpoch: time.Unix(1700000000, 0).UTC(),
		},
	}
	for _, l := range c.Layers {
		opts.ImageInfo.Layers = append(opts.ImageInfo.Layers, v1.Descriptor{Digest: v1.Hash{Algorithm: l.Alg, Hex: l.Hex}})
	}
	for _, a := range c.Apks {
		sum, _ := hex.DecodeString(a.Checksum)
		opts.Packages = append(opts.Packages, &apk.InstalledPackage{Package: apk.Package{Name: a.Name, Version: a.Version, Checksum: sum}})
	}
	dir := sbScratch()
	defer os.RemoveAll(dir)
	out := filepath.Join(dir, "sbom.spdx.json")
	sx := spdx.New(fsys)
	if err := sx.Generate(opts, out); err != nil {
		return "err:" + sbErrKind(err), nil
	}
	b, err := os.ReadFile(out)
	if err != nil {
		return "err:no-output", nil
	}
	return parseEmitted(b)
}

func goGenerateIndex(ix *sbIndex) string {
	opts := &options.Options{
		OS:       options.OSInfo{Name: "synth", ID: "synth", Version: "1"},
		FileName: "sbom",
		ImageInfo: options.ImageInfo{
			VCSUrl:          ix.VCS,
			IndexDigest:     v1.Hash{Algorithm: ix.Digest.Alg, Hex: ix.Digest.Hex},
			SourceDateEpoch: time.Unix(1700000000, 0).UTC(),
		},
	}
	archs := []string{"amd64", "arm64", "riscv64", "s390x", "ppc64le"}
	for i, h := range ix.Images {
		opts.ImageInfo.Images = append(opts.ImageInfo.Images, options.ArchImageInfo{
			Digest: v1.Hash{Algorithm: h.Alg, Hex: h.Hex}, Arch: types.ParseArchitecture(archs[i%len(archs)])})
	}
	dir := sbScratch()
	defer os.RemoveAll(dir)
	out := filepath.Join(dir, "sbom-index.spdx.json")
	sx := spdx.New(apkfs.NewMemFS())
	if err := sx.GenerateIndex(opts, out); err != nil {
		return "err:" + sbErrKind(err)
	}
	b, err := os.ReadFile(out)
	if err != nil {
		return "err:no-output"
	}
	s, _ := parseEmitted(b)
	return s
}

func genLine(c *sbCase, goRes string) string {
	ls := make([]string, len(c.Layers))
	for i, l := range c.Layers {
		ls[i] = l.str()
	}
	return strings.Join([]string{"s.gen", hx(c.ImageDigest), hxList(ls), hx(c.VCS), hx(c.OSVersion), encApks(c.Apks), encFS(c.FS), goRes}, "\t")
}

func idxLine(ix *sbIndex, goRes string) string {
	im := make([]string, len(ix.Images))
	for i, h := range ix.Images {
		im[i] = hx(h.Alg) + "," + hx(h.Hex)
	}
	return strings.Join([]string{"s.idx", hx(ix.Digest.Alg), hx(ix.Digest.Hex), strings.Join(im, ";"), hx(ix.VCS), goRes}, "\t")
}

func descApks(as []sbApk) string {
	xs := make([]string, len(as))
	for i, a := range as {
		xs[i] = fmt.Sprintf("%q %q", a.Name, a.Version)
	}
	return strings.Join(xs, ", ")
}

func genTags(c *sbCase, goRes string, d *sbDoc, pre string) []string {
	tags := []string{pre + "gen", fmt.Sprintf("%slayers:%d", pre, min(len(c.Layers), 4)), fmt.Sprintf("%sapks:%d", pre, min(len(c.Apks), 8))}
	nd := 0
	for _, e := range c.FS {
		if e.Kind == "doc" {
			nd++
		} else {
			tags = append(tags, pre+"fs:"+e.Kind)
		}
	}
	tags = append(tags, fmt.Sprintf("%sembedded:%d", pre, nd))
	if c.ImageDigest == "" {
		tags = append(tags, pre+"no-image-digest")
	}
	if c.VCS != "" {
		tags = append(tags, pre+"vcs")
	}
	if d == nil {
		tags = append(tags, pre+goRes)
	} else {
		tags = append(tags, fmt.Sprintf("%sout-elements:%d", pre, min(len(d.Pkgs)/4*4, 20)), fmt.Sprintf("%sout-rels:%d", pre, min(len(d.Rels)/4*4, 20)))
	}
	return tags
}

func (sbomSuite) Run(raw json.RawMessage) []Step {
	var c sbCase
	if err := json.Unmarshal(raw, &c); err != nil {
		panic(err)
	}
	if c.Kind == "e2e" {
		return runSbomE2E(&c)
	}
	var steps []Step
	for _, h := range c.IDsHex {
		b, _ := hex.DecodeString(h)
		out := spdx.VerifStringToIdentifier(string(b))
		tag := "id:clean"
		if out != string(b) {
			tag = "id:escaped"
		}
		steps = append(steps, Step{Line: "s.id\t" + h, Go: hx(out), Desc: fmt.Sprintf("stringToIdentifier(%q)", string(b)), Tags: []string{tag}})
	}
	for _, r := range c.Reps {
		d := toSpdx(r.Doc)
		spdx.VerifReplacePackage(d, r.A, r.B)
		tag := "rep:distinct"
		if r.A == r.B {
			tag = "rep:same-id"
		}
		steps = append(steps, Step{Line: "s.rep\t" + encDoc(r.Doc) + "\t" + hx(r.A) + "\t" + hx(r.B), Go: encDoc(fromSpdx(d)),
			Desc: fmt.Sprintf("replacePackage(doc with %d elements, %q, %q)", len(r.Doc.Pkgs), r.A, r.B), Tags: []string{tag}})
	}
	for _, cp := range c.Copies {
		src, tgt := toSpdx(cp.Src), toSpdx(cp.Tgt)
		todo := map[string]struct{}{}
		for _, t := range cp.Todo {
			todo[t] = struct{}{}
		}
		out := ""
		if err := spdx.VerifCopySBOMElements(src, tgt, todo); err != nil {
			out = "err:" + sbErrKind(err)
		} else {
			out = "ok:" + encDoc(fromSpdx(tgt))
		}
		// the model's todo is a duplicate-free list
		seen := map[string]bool{}
		var todoL []string
		for _, t := range cp.Todo {
			if !seen[t] {
				seen[t] = true
				todoL = append(todoL, t)
			}
		}
		steps = append(steps, Step{Line: "s.copy\t" + encDoc(cp.Src) + "\t" + encDoc(cp.Tgt) + "\t" + hxList(todoL), Go: out,
			Desc: fmt.Sprintf("copySBOMElements(source with %d elements / %d relationships, todo %q)", len(cp.Src.Pkgs), len(cp.Src.Rels), cp.Todo),
			Tags: []string{"copy:" + out[:3]}, Trivial: strings.HasPrefix(out, "err")})
	}
	if len(c.Layers) > 0 {
		goRes, d := goGenerate(&c)
		steps = append(steps, Step{Line: genLine(&c, goRes), Go: goRes, Mode: "verdict",
			Desc: fmt.Sprintf("spdx.Generate(image %q, %d layers, vcs %q, installed [%s], %d files in /var/lib/db/sbom)", c.ImageDigest, len(c.Layers), c.VCS, descApks(c.Apks), len(c.FS)),
			Tags: genTags(&c, goRes, d, ""), Trivial: d == nil})
	}
	if c.Index != nil {
		goRes := goGenerateIndex(c.Index)
		steps = append(steps, Step{Line: idxLine(c.Index, goRes), Go: goRes, Mode: "verdict",
			Desc: fmt.Sprintf("spdx.GenerateIndex(index %s:%s, %d images, vcs %q)", c.Index.Digest.Alg, c.Index.Digest.Hex, len(c.Index.Images), c.Index.VCS),
			Tags: []string{fmt.Sprintf("idx:images:%d", len(c.Index.Images))}, Trivial: strings.HasPrefix(goRes, "err")})
	}
	return steps
}
