package main

// corr:cache (C19): real `apko build` child processes share one on-disk cache directory; they are
// stopped at crash-point markers (internal/verifhook) or SIGKILLed while the transport stalls
// mid-body; the directory they leave behind is abstracted and compared with the Lean model after the
// same prefixes (Driver/Cache.lean executes Model/Cache.lean); recovery builds (online, offline,
// 2-4 concurrent) must reproduce the cache-less image of the revision that is served.

import (
	"encoding/hex"
	"encoding/json"
	"fmt"
	"os"
	"path/filepath"
	"regexp"
	"sort"
	"strings"
)

type cBuild struct {
	Rev      int    `json:"rev"`                // revision served by GET (and by HEAD unless HeadRev is set)
	HeadRev  int    `json:"head_rev"`           // -1: same as Rev
	Offline  bool   `json:"offline,omitempty"`  //
	Crash    int    `json:"crash,omitempty"`    // exit at the k-th marker
	Stall    string `json:"stall,omitempty"`    // "index" | "sig" | "ctl" | "dat": stall that body in its middle and SIGKILL ("sig" on an unsigned apk = "ctl")
	StallPkg int    `json:"stall_pkg,omitempty"` // which package of the revision (install order)
	// the repository's apk files are already those of revision Rev+1 while the index is still Rev's (a stale
	// index): a package that was rebuilt in Rev+1 (same URL, other content) is rejected by verifyExpanded
	FilesAhead bool `json:"files_ahead,omitempty"`
}

type cCase struct {
	Seed   uint64   `json:"seed"`
	NRev   int      `json:"nrev"`
	Bumps  [][]bool `json:"bumps"` // revision r>0: package i gets a new version + new content
	Builds []cBuild `json:"builds"`
	Conc   int      `json:"conc,omitempty"`  // concurrent recovery builds after the sequence
	ConcCrash int   `json:"conc_crash,omitempty"` // one of them is killed at this marker
	Plant  string   `json:"plant,omitempty"` // trunc-ctl | trunc-dat | empty-tar | cut-tar | foreign | trunc-index | stale-apk
	Signed []bool   `json:"signed,omitempty"` // package j (base, lib, app) is a signed apk (absent: all unsigned)
	Rebuild [][]bool `json:"rebuild,omitempty"` // revision r>0: package j is rebuilt: same version (same URL), new content
	Race   *cRace   `json:"race,omitempty"`
	Flight *cFlight `json:"flight,omitempty"`
	Glue   *cGlue   `json:"glue,omitempty"` // histories around the glue of the cache (cache_glue.go)
}

// cRace: build A (cold) is killed at marker Kill of package Pkg (install order); build B is paused inside
// cachedPackage of that package (marker hit.probe: between the two probes for the data and the signature
// section) if it gets there; build C runs to completion; B is released.  B and C must both produce the
// cache-less image.
type cRace struct {
	Pkg  int    `json:"pkg"`
	Kill string `json:"kill"` // pkg.begin | pkg.ctl | pkg.sig | pkg.dat | pkg.tar ("" with PauseK: there is no build A)
	// PauseK > 0: B is paused at its PauseK-th marker, whichever it is (any point of its own cache
	// population: the two writers B and C interleave at that point), not at hit.probe of package Pkg
	PauseK int `json:"pause_k,omitempty"`
	// Regen: A is killed right after it advertised `.dat.tar.gz` of package Pkg (marker pkg.dat: the entry has its
	// control and data sections but no `.dat.tar`); B hits that entry and is paused INSIDE PackageData's regeneration
	// of the tar (marker regen.created: the output file exists, nothing is written yet); C hits the same entry
	// meanwhile.  Whatever C finds under the final name must be the complete tar or nothing.
	Regen bool `json:"regen,omitempty"`
}

type cacheSuite struct{}

func init() { register(cacheSuite{}) }

func (cacheSuite) Name() string { return "cache" }

const cacheNPkg = 3

// markers of a cold build: 3 for the index, 9 per unsigned package, 11 per signed one (one more
// stream, one more advertise)
func cachePkgMarkers(signed bool) int {
	if signed {
		return 11
	}
	return 9
}

func (c *cCase) signed(j int) bool { return j < len(c.Signed) && c.Signed[j] }

func (c *cCase) coldMarkers() int {
	n := 3
	for j := 0; j < cacheNPkg; j++ {
		n += cachePkgMarkers(c.signed(j))
	}
	return n
}

// cacheMarkerAt: the number of the marker `name` of the j-th package (install order = base, lib, app) in a cold build
func cacheMarkerAt(signedAt func(int) bool, j int, name string) int {
	n := 3
	for i := 0; i < j; i++ {
		n += cachePkgMarkers(signedAt(i))
	}
	sg := signedAt(j)
	// expand.dir, expand.stream ×2|3, expand.tar, expand.done, pkg.begin, pkg.ctl, [pkg.sig], pkg.dat, pkg.tar
	base := 5
	if sg {
		base = 6
	}
	switch name {
	case "pkg.begin":
		return n + base + 1
	case "pkg.ctl":
		return n + base + 2
	case "pkg.sig":
		if sg {
			return n + base + 3
		}
		return n + base + 2
	case "pkg.dat":
		if sg {
			return n + base + 4
		}
		return n + base + 3
	default: // pkg.tar
		return n + cachePkgMarkers(sg)
	}
}

func (cacheSuite) Gen(r *Rng, i int, tier string) any {
	c := cCase{Seed: r.Next(), NRev: r.Range(1, 3)}
	if r.Chance(6) {
		// request coalescing in one process (no repository needed)
		c.NRev = 0
		c.Flight = &cFlight{N: r.Range(2, 4), Kind: Pick(r, []string{"index", "key"}), Size: Pick(r, []int{700, 5000, 70000, 300000}), Etag: r.Chance(70), Slow: r.Chance(50)}
		return c
	}
	if r.Chance(30) {
		// same-process / default-options builds over several index revisions, several http keys of one remote
		// directory, connection cuts on the etag path, offline builds after each
		gluecacheGen(r, &c, i, tier)
		return c
	}
	for j := 0; j < cacheNPkg; j++ {
		c.Signed = append(c.Signed, r.Chance(50))
	}
	for k := 0; k < c.NRev; k++ {
		b := make([]bool, cacheNPkg)
		for j := range b {
			b[j] = r.Chance(50)
		}
		if k > 0 && !b[0] && !b[1] && !b[2] {
			b[r.Intn(cacheNPkg)] = true
		}
		c.Bumps = append(c.Bumps, b)
	}
	if c.NRev > 1 && r.Chance(30) {
		// a rebuilt package: the same URL holds other content from revision rr on
		c.Rebuild = make([][]bool, c.NRev)
		for k := range c.Rebuild {
			c.Rebuild[k] = make([]bool, cacheNPkg)
		}
		rr := r.Range(1, c.NRev-1)
		j := r.Intn(cacheNPkg)
		c.Bumps[rr][j] = false
		c.Rebuild[rr][j] = true
		// (the synthetic signature member depends on name and version only: a rebuilt signed apk would carry
		// the very same signature bytes as its predecessor, two content ids for one content)
		c.Signed[j] = false
		if r.Chance(40) {
			// the shape "rejected download, then the index lists what was rejected": nothing else changes
			for jj := range c.Bumps[rr] {
				c.Bumps[rr][jj] = false
			}
		}
	}
	if r.Chance(12) {
		c.Rebuild = nil
		c.NRev = 1
		c.Bumps = c.Bumps[:1]
		c.Plant = Pick(r, []string{"trunc-ctl", "trunc-dat", "empty-tar", "cut-tar", "foreign", "trunc-index", "stale-apk"})
		return c
	}
	if r.Chance(8) {
		// a build paused inside cachedPackage while another one populates the cache
		c.Rebuild = nil
		c.NRev = 1
		c.Bumps = c.Bumps[:1]
		c.Race = &cRace{Pkg: r.Intn(cacheNPkg), Kill: Pick(r, []string{"pkg.begin", "pkg.ctl", "pkg.sig", "pkg.dat", "pkg.tar"})}
		if r.Chance(70) {
			c.Signed[c.Race.Pkg] = true
		}
		if r.Chance(45) {
			// two concurrent writers: B stands still at an arbitrary marker while C populates the cache
			c.Race.PauseK = r.Range(1, c.coldMarkers())
			if tier == "thorough" {
				c.Race.PauseK = 1 + (i % c.coldMarkers())
			}
			if r.Chance(60) {
				c.Race.Kill = ""
			}
		}
		if r.Chance(30) {
			c.Race.Regen, c.Race.Kill, c.Race.PauseK = true, "pkg.dat", 0
		}
		return c
	}
	crashK := func() int {
		if tier == "thorough" {
			return 1 + (i % c.coldMarkers()) // every marker is swept
		}
		if r.Chance(25) {
			// the advertise window of one package (for a signed one: around the signature link)
			return cacheMarkerAt(c.signed, r.Intn(cacheNPkg), Pick(r, []string{"pkg.begin", "pkg.ctl", "pkg.sig", "pkg.dat", "pkg.tar"}))
		}
		return r.Range(1, c.coldMarkers())
	}
	rev := 0
	nb := r.Range(2, 5)
	warm := false // a build at this revision has completed
	for k := 0; k < nb; k++ {
		b := cBuild{Rev: rev, HeadRev: -1}
		if rev+1 < c.NRev && r.Chance(40) {
			// the repository is updated; sometimes between this build's HEAD and its GET
			rev++
			b.Rev = rev
			warm = false
			if r.Chance(30) {
				b.HeadRev = rev - 1
			}
		}
		pc, ps := 55, 20
		if warm {
			pc, ps = 10, 5
		}
		if c.rebuiltAt(b.Rev+1) && r.Chance(60) {
			b.FilesAhead = true
			pc, ps = 20, 10
		}
		switch x := r.Intn(100); {
		case x < pc:
			b.Crash = crashK()
			if warm {
				b.Crash = r.Range(1, 4)
			}
		case x < pc+ps:
			b.Stall = Pick(r, []string{"index", "sig", "ctl", "dat"})
			b.StallPkg = r.Intn(cacheNPkg)
		case x < pc+ps+15 && b.Rev == rev && b.HeadRev < 0 && k > 0:
			b = cBuild{Offline: true}
		default:
			warm = true
		}
		c.Builds = append(c.Builds, b)
	}
	// A build in which a download is rejected is not killed: once a package has failed, the installer
	// goroutine of InstallPackages is gone and the errgroup limit (jobs+1) lets two packages be fetched at
	// the same time — the marker order of such a build is up to the Go scheduler.
	for k := range c.Builds {
		b := &c.Builds[k]
		if b.Offline || c.Rebuild == nil {
			continue
		}
		if (b.FilesAhead && c.rebuiltAt(b.Rev+1)) || (b.HeadRev >= 0 && b.HeadRev != b.Rev && c.rebuiltAt(b.Rev)) {
			b.Crash, b.Stall = 0, ""
		}
	}
	// F19a shape: killed right after `.dat.tar.gz` was advertised, the next build is killed inside the regeneration
	if r.Chance(10) {
		j := r.Intn(cacheNPkg)
		if r.Chance(50) {
			// on a cold cache for certain (after earlier complete builds both kills would come too late)
			c.Builds, rev = nil, 0
		}
		c.Builds = append(c.Builds, cBuild{Rev: rev, HeadRev: -1, Crash: cacheMarkerAt(c.signed, j, "pkg.dat")}, cBuild{Rev: rev, HeadRev: -1, Crash: 3 + j})
		// (with a cold cache; with a warm one the markers are beyond the build and nothing happens; the second
		// build passes one hit.probe marker per cached package, then regen.begin, regen.created)
	}
	if r.Chance(50) {
		c.Conc = r.Range(2, 4)
		if c.Conc >= 3 && r.Chance(50) {
			c.ConcCrash = r.Range(1, c.coldMarkers())
		}
		switch x := r.Intn(100); {
		case x < 15:
			// all builders start on an empty directory
			c.Builds = nil
			return c
		case x < 75:
			// the builders recover from whatever the killed builds left behind
			return c
		}
	}
	c.Builds = append(c.Builds, cBuild{Rev: rev, HeadRev: -1}, cBuild{Offline: true})
	return c
}

func (c *cCase) rebuiltAt(rev int) bool {
	if rev <= 0 || rev >= len(c.Rebuild) || rev >= c.NRev {
		return false
	}
	for _, x := range c.Rebuild[rev] {
		if x {
			return true
		}
	}
	return false
}

func cachePkgs(c *cCase, rev int) []SPkg {
	names := []string{"base", "lib", "app"}
	deps := [][]string{nil, {"base"}, {"lib"}}
	out := make([]SPkg, cacheNPkg)
	for j := 0; j < cacheNPkg; j++ {
		ver, rb := 0, 0
		for r := 1; r <= rev; r++ {
			if c.Bumps[r][j] {
				ver, rb = r, 0
			} else if r < len(c.Rebuild) && c.Rebuild[r][j] {
				rb++
			}
		}
		key := fmt.Sprintf("pkg-%d-%d", j, ver)
		if rb > 0 {
			key += fmt.Sprintf("-rebuild%d", rb)
		}
		rr := NewRng(c.Seed, key, 0)
		var sb strings.Builder
		n := rr.Range(1500, 4000) // the data section must span several reads (gzip reads 4 KiB at a time)
		for k := 0; k < n; k++ {
			fmt.Fprintf(&sb, "%016x", rr.Next())
		}
		p := SPkg{Name: names[j], Version: fmt.Sprintf("1.%d-r0", ver), Origin: names[j], Deps: deps[j], Signed: c.signed(j),
			Files: []SFile{
				{Path: "usr", Type: "dir", Mode: 0o755},
				{Path: "usr/share", Type: "dir", Mode: 0o755},
				{Path: "usr/share/" + names[j], Type: "dir", Mode: 0o755},
				{Path: "usr/share/" + names[j] + "/data", Type: "file", Mode: 0o644, Content: sb.String()},
				{Path: "usr/share/" + names[j] + "/version", Type: "file", Mode: 0o644, Content: fmt.Sprintf("%s %d\n", names[j], ver)},
			}}
		out[j] = p
	}
	return out
}

type cacheEnv struct {
	scratch string
	world   string
	key     string
	known   *cacheKnown
	repos   []*SRepo
	revCid  []int             // revision -> content id of its index
	apkK1   map[string]int    // apk path -> k1 (control; data k1+1, tar k1+2, signature k1+3)
	apkSigned map[string]bool // apk id -> has a signature section
	pathID  map[string]int    // apk path (URL) -> small number
	order   [][]string        // revision -> apk base names ("base-1.0-r0") in install order
	ref     map[string]string // digest -> "img<cid>"
	nchild  int
}

var expandDirRe = regexp.MustCompile(`^expand\.dir .*/([^/]+)/expand-apk[^/]*$`)

func (e *cacheEnv) child(o childOpts) childRes {
	e.nchild++
	o.World = e.world
	o.Key = e.key
	return startChild(e.scratch, e.nchild, o)()
}

// state: the abstracted cache directory plus whatever the builds left in their working directories
func (e *cacheEnv) state(cache string) string {
	toks := cacheCwdTokens(e.scratch)
	st := abstractCache(cache, e.known)
	if len(toks) == 0 {
		return st
	}
	if st != "" {
		toks = append(strings.Split(st, ","), toks...)
	}
	sort.Strings(toks)
	return strings.Join(toks, ",")
}

func (e *cacheEnv) outcome(r childRes) string {
	switch {
	case strings.HasPrefix(r.Status, "ok "):
		if img, ok := e.ref[strings.TrimPrefix(r.Status, "ok ")]; ok {
			return "ok:" + img
		}
		return "ok:img?"
	case strings.HasPrefix(r.Status, "err"):
		return "err"
	case r.Status == "crash" || r.Status == "killed":
		return "crash"
	}
	return "fail"
}

func setupCacheEnv(c *cCase) (*cacheEnv, string) {
	scratch, err := os.MkdirTemp("", "verif-cache-")
	if err != nil {
		return nil, err.Error()
	}
	e := &cacheEnv{scratch: scratch, world: filepath.Join(scratch, "world.gob"), known: newCacheKnown(), apkK1: map[string]int{}, apkSigned: map[string]bool{}, pathID: map[string]int{}, ref: map[string]string{}}
	w := &cacheWorld{World: []string{"app"}}
	for r := 0; r < c.NRev; r++ {
		repo := BuildSynthRepo(cachePkgs(c, r), []string{"x86_64"})
		e.repos = append(e.repos, repo)
		w.Revs = append(w.Revs, repo.Files)
		w.KeyPEM = repo.KeyPEM
		cid := r + 1
		e.revCid = append(e.revCid, cid)
		e.known.addIndex(repo.Files["x86_64/APKINDEX.tar.gz"], cid)
		for path, a := range repo.Apks {
			id := cacheApkID(path, a)
			if _, ok := e.apkK1[id]; !ok {
				k1 := 10*(len(e.apkK1)+1) + 1
				e.apkK1[id] = k1
				e.apkSigned[id] = len(cacheApkSig(a)) > 0
				e.known.addApk(a, k1)
			}
			if _, ok := e.pathID[path]; !ok {
				e.pathID[path] = len(e.pathID) + 1
			}
		}
	}
	if err := w.save(e.world); err != nil {
		return nil, err.Error()
	}
	// a fixed key path below $TMPDIR: the path is recorded in the image (/etc/apko.json)
	e.key = filepath.Join(os.TempDir(), "verif-cache-key", synthKeyName)
	os.MkdirAll(filepath.Dir(e.key), 0o755)
	if b, err := os.ReadFile(e.key); err != nil || string(b) != string(w.KeyPEM) {
		tmp := e.key + fmt.Sprintf(".%d", os.Getpid())
		os.WriteFile(tmp, w.KeyPEM, 0o644)
		os.Rename(tmp, e.key)
	}
	// reference: the cache-less image of every revision, and the install order (cold traced build)
	for r := 0; r < c.NRev; r++ {
		res := e.child(childOpts{Cache: "", HeadRev: r, GetRev: r})
		if !strings.HasPrefix(res.Status, "ok ") {
			return e, "reference build failed: " + res.Status
		}
		e.ref[strings.TrimPrefix(res.Status, "ok ")] = fmt.Sprintf("img%d", e.revCid[r])
		cold := filepath.Join(scratch, fmt.Sprintf("cold-%d", r))
		res2 := e.child(childOpts{Cache: cold, HeadRev: r, GetRev: r})
		if res2.Status != res.Status {
			return e, "COLD\t" + res.Status + "\t" + res2.Status
		}
		var ord []string
		for _, t := range res2.Trace {
			if m := expandDirRe.FindStringSubmatch(t); m != nil {
				ord = append(ord, m[1])
			}
		}
		if len(ord) != cacheNPkg {
			return e, fmt.Sprintf("unexpected trace (%d packages expanded): %v", len(ord), res2.Trace)
		}
		e.order = append(e.order, ord)
		os.RemoveAll(cold)
	}
	return e, ""
}

// cacheApkID: one apk = its URL path and its content (a rebuilt package keeps the path)
func cacheApkID(path string, a builtApk) string { return path + "#" + hex.EncodeToString(a.checksum) }

func (e *cacheEnv) apkID(rev int, name string) string {
	path := "x86_64/" + name + ".apk"
	return cacheApkID(path, e.repos[rev].Apks[path])
}

func (e *cacheEnv) revsField() string {
	var parts []string
	for r, ord := range e.order {
		var ps []string
		for _, name := range ord {
			id := e.apkID(r, name)
			k1 := e.apkK1[id]
			sg := "-"
			if e.apkSigned[id] {
				sg = fmt.Sprint(k1 + 3)
			}
			ps = append(ps, fmt.Sprintf("%d/%s.%d.%d.%d", e.pathID["x86_64/"+name+".apk"], sg, k1, k1+1, k1+2))
		}
		parts = append(parts, fmt.Sprintf("%d:%s", e.revCid[r], strings.Join(ps, "+")))
	}
	return strings.Join(parts, ";")
}

func failStep(desc, why string) []Step {
	return []Step{{Line: "cache-plant\tsetup\t" + hx(why), Go: "-", Desc: desc + ": " + why, Mode: "verdict", NoImpl: true}}
}

func (cacheSuite) Run(raw json.RawMessage) []Step {
	var c cCase
	if err := json.Unmarshal(raw, &c); err != nil {
		return nil
	}
	if c.Flight != nil {
		return runFlight(&c)
	}
	if c.Glue != nil {
		return runGlue(&c)
	}
	e, why := setupCacheEnv(&c)
	if e != nil {
		defer os.RemoveAll(e.scratch)
	}
	if strings.HasPrefix(why, "COLD\t") {
		p := strings.Split(why, "\t")
		short := func(x string) string { return strings.ReplaceAll(strings.ReplaceAll(tailStr(x, 200), "\t", " "), "\n", " ") }
		return []Step{{Line: "cache-cold\t" + short(p[1]) + "\t" + short(p[2]), Go: "-", Mode: "verdict", NoImpl: true,
			Desc: "build with an empty cache directory vs build without a cache: " + short(p[2]) + " vs " + short(p[1])}}
	}
	if why != "" {
		return failStep("setup", why)
	}
	if c.Plant != "" {
		return runPlant(&c, e)
	}
	if c.Race != nil {
		return runRace(&c, e)
	}
	cache := filepath.Join(e.scratch, "cache")
	var builds, outs, tags []string
	for _, b := range c.Builds {
		if b.Offline {
			res := e.child(childOpts{Cache: cache, Offline: true})
			builds = append(builds, "off")
			outs = append(outs, e.outcome(res))
			tags = append(tags, "offline:"+strings.SplitN(e.outcome(res), ":", 2)[0])
			continue
		}
		head := b.HeadRev
		if head < 0 {
			head = b.Rev
		}
		o := childOpts{Cache: cache, HeadRev: head, GetRev: b.Rev, Crash: b.Crash}
		filesRev := b.Rev
		if b.FilesAhead && b.Rev+1 < c.NRev {
			filesRev = b.Rev + 1
			o.FilesRev = filesRev + 1 // (0 = same as GetRev)
			tags = append(tags, "files-ahead-of-index")
		}
		if b.Stall != "" {
			switch b.Stall {
			case "index":
				o.Stall = fmt.Sprintf("APKINDEX.tar.gz:%d", len(e.repos[b.Rev].Files["x86_64/APKINDEX.tar.gz"])/2)
			default:
				name := e.order[b.Rev][b.StallPkg%cacheNPkg]
				a := e.repos[filesRev].Apks["x86_64/"+name+".apk"]
				if len(a.bytes) == 0 {
					a = e.repos[b.Rev].Apks["x86_64/"+name+".apk"]
				}
				nsig := len(cacheApkSig(a))
				off := nsig + len(a.control)/2
				if b.Stall == "dat" {
					off = nsig + len(a.control) + len(a.data)/2
				} else if b.Stall == "sig" && nsig > 0 {
					off = nsig / 2
				}
				o.Stall = fmt.Sprintf("%s.apk:%d", name, off)
			}
		}
		res := e.child(o)
		k, extra := "-", 0
		switch {
		case res.Status == "killed":
			k, extra = fmt.Sprint(len(res.Trace)), 1
			tags = append(tags, "killed-mid-body:"+b.Stall)
		case b.Crash > 0:
			k = fmt.Sprint(b.Crash)
			if res.Status == "crash" && len(res.Trace) > 0 {
				tags = append(tags, "crash-at:"+strings.SplitN(res.Trace[len(res.Trace)-1], " ", 2)[0])
			} else {
				tags = append(tags, "crash-beyond-build")
			}
		default:
			tags = append(tags, "online-full")
		}
		if head != b.Rev {
			tags = append(tags, "update-between-head-and-get")
		}
		if filesRev != b.Rev {
			builds = append(builds, fmt.Sprintf("on:%d:%d:%s:%d:%d", e.revCid[head], e.revCid[b.Rev], k, extra, e.revCid[filesRev]))
			if strings.HasPrefix(res.Status, "err") && strings.Contains(res.Status, "verifying") {
				tags = append(tags, "download-rejected-by-verifyExpanded")
			}
		} else {
			builds = append(builds, fmt.Sprintf("on:%d:%d:%s:%d", e.revCid[head], e.revCid[b.Rev], k, extra))
		}
		outs = append(outs, e.outcome(res))
	}
	state := e.state(cache)
	line := strings.Join([]string{"cache-seq", "1", e.revsField(), strings.Join(builds, ";"), state, strings.Join(outs, ",")}, "\t")
	interrupted := false
	for _, o := range outs {
		if o == "crash" {
			interrupted = true
		}
	}
	steps := []Step{{Line: line, Go: state + "|" + strings.Join(outs, ","), Mode: "verdict", Tags: tags, Trivial: !interrupted,
		Desc: fmt.Sprintf("revs=%s builds=%s", e.revsField(), strings.Join(builds, ";"))}}
	// concurrent recovery (not modelled as a schedule: the oracle is evaluated on what the real code did)
	if c.Conc > 0 && !strings.Contains(state, "=RP") && !strings.Contains(state, "=RX") {
		last := 0
		for _, b := range c.Builds {
			if !b.Offline {
				last = b.Rev
			}
		}
		var waits []func() childRes
		for i := 0; i < c.Conc; i++ {
			e.nchild++
			o := childOpts{World: e.world, Key: e.key, Cache: cache, HeadRev: last, GetRev: last, Procs: 4}
			if i == 0 {
				o.Crash = c.ConcCrash // one builder is killed while the others keep going
			}
			waits = append(waits, startChild(e.scratch, e.nchild, o))
		}
		var couts []string
		for i, w := range waits {
			o := e.outcome(w())
			if i == 0 && c.ConcCrash > 0 && o == "crash" {
				continue
			}
			couts = append(couts, o)
		}
		off := e.outcome(e.child(childOpts{Cache: cache, Offline: true}))
		cstate := e.state(cache)
		steps = append(steps, Step{Line: strings.Join([]string{"cache-conc", fmt.Sprintf("ok:img%d", e.revCid[last]), cstate, strings.Join(couts, ","), off, e.revsField()}, "\t"),
			Go: "-", Mode: "verdict", NoImpl: true, Tags: concTags(c, len(c.Builds)),
			Desc: fmt.Sprintf("%d concurrent recovery builds + offline after builds=%s", c.Conc, strings.Join(builds, ";"))})
	}
	return steps
}

// signedAt: is the j-th package in install order of revision rev a signed apk
func (e *cacheEnv) signedAt(rev int) func(int) bool {
	return func(j int) bool { return e.apkSigned[e.apkID(rev, e.order[rev][j])] }
}

// runRace: A (cold) is killed while it advertises package j; B starts and is paused inside cachedPackage of
// package j (between its probes for the data and the signature section) — if it gets that far; C builds to
// completion (advertising what A did not); B goes on.  Concurrent writers must be invisible: B and C both
// produce the cache-less image.
func runRace(c *cCase, e *cacheEnv) []Step {
	cache := filepath.Join(e.scratch, "cache")
	j := c.Race.Pkg % cacheNPkg
	tags := []string{"race", "race-kill:" + c.Race.Kill}
	if e.signedAt(0)(j) {
		tags = append(tags, "race-signed")
	}
	kill := 0
	if c.Race.Kill != "" {
		kill = cacheMarkerAt(e.signedAt(0), j, c.Race.Kill)
		a := e.child(childOpts{Cache: cache, Crash: kill})
		if a.Status != "crash" {
			return failStep("race", "build A was not killed at marker "+fmt.Sprint(kill)+": "+a.Status)
		}
	}
	pause := fmt.Sprintf("hit.probe:%d", j+1)
	if c.Race.PauseK > 0 {
		pause = fmt.Sprintf(":%d", c.Race.PauseK)
	}
	if c.Race.Regen {
		pause = "regen.created:1"
		tags = append(tags, "race-regeneration")
	}
	e.nchild++
	bid := e.nchild
	waitB := startChild(e.scratch, bid, childOpts{World: e.world, Key: e.key, Cache: cache, Pause: pause})
	paused := cacheWaitPaused(e.scratch, bid)
	switch {
	case paused && c.Race.PauseK > 0:
		tags = append(tags, "race-paused-at-marker")
		if b, err := os.ReadFile(filepath.Join(e.scratch, fmt.Sprintf("trace-%d", bid))); err == nil {
			tr := strings.Split(strings.TrimSpace(string(b)), "\n")
			tags = append(tags, "race-paused-at:"+strings.SplitN(tr[len(tr)-1], " ", 2)[0])
		}
	case paused && c.Race.Regen:
		tags = append(tags, "race-paused-in-tar-regeneration")
	case paused:
		tags = append(tags, "race-paused-in-cachedPackage")
	default:
		tags = append(tags, "race-not-reached")
	}
	cres := e.child(childOpts{Cache: cache})
	cacheRelease(e.scratch, bid)
	bres := waitB()
	outs := []string{e.outcome(cres), e.outcome(bres)}
	state := e.state(cache)
	return []Step{{Line: strings.Join([]string{"cache-race", "ok:img1", state, strings.Join(outs, ","), e.revsField()}, "\t"),
		Go: "-", Mode: "verdict", NoImpl: true, Tags: tags,
		Desc: fmt.Sprintf("A killed at %q of package %d (marker %d), B paused at marker %s (reached: %v), C full, B released → C %s, B %s", c.Race.Kill, j, kill, pause, paused, outs[0], outs[1])}}
}

// runPlant: entries that the protocol never produces are planted into a fully populated cache; the
// next online and offline builds must give the cache-less image or an error, never another image.
func runPlant(c *cCase, e *cacheEnv) []Step {
	cache := filepath.Join(e.scratch, "cache")
	if res := e.child(childOpts{Cache: cache}); e.outcome(res) != "ok:img1" {
		return failStep("plant", "populating build: "+res.Status)
	}
	archDir := ""
	filepath.WalkDir(cache, func(p string, d os.DirEntry, err error) error {
		if err == nil && d.IsDir() && d.Name() == "APKINDEX" {
			archDir = filepath.Dir(p)
		}
		return nil
	})
	victim := e.order[0][1] // "lib-…"
	other := e.order[0][0]
	a := e.repos[0].Apks["x86_64/"+victim+".apk"]
	vdir := filepath.Join(archDir, victim)
	glob1 := func(pat string) string {
		m, _ := filepath.Glob(pat)
		if len(m) == 0 {
			return ""
		}
		return m[0]
	}
	replace := func(path string, content []byte) {
		os.Remove(path)
		os.WriteFile(path, content, 0o644)
	}
	switch c.Plant {
	case "trunc-ctl":
		replace(glob1(filepath.Join(vdir, "*.ctl.tar.gz")), a.control[:len(a.control)/2])
	case "trunc-dat":
		os.Remove(glob1(filepath.Join(vdir, "*.dat.tar")))
		replace(glob1(filepath.Join(vdir, "*.dat.tar.gz")), a.data[:len(a.data)/2])
	case "empty-tar":
		replace(glob1(filepath.Join(vdir, "*.dat.tar")), nil)
	case "cut-tar":
		// cut at an entry boundary: the first three entries (directories) survive, the files are gone
		tar := gunzipAll(a.data)
		replace(glob1(filepath.Join(vdir, "*.dat.tar")), tar[:3*512])
	case "foreign":
		// the sections of another package, under that package's own names, in this package's directory
		m, _ := filepath.Glob(filepath.Join(archDir, other, "*.tar*"))
		for _, f := range m {
			if b, err := os.ReadFile(f); err == nil {
				os.WriteFile(filepath.Join(vdir, filepath.Base(f)), b, 0o644)
			}
		}
	case "trunc-index":
		idx := e.repos[0].Files["x86_64/APKINDEX.tar.gz"]
		replace(glob1(filepath.Join(archDir, "APKINDEX", "*.tar.gz")), idx[:len(idx)/2])
	case "stale-apk":
		// legacy layout: a whole (truncated) apk under <arch>/<name>.apk is picked up by FetchPackage on a miss
		os.RemoveAll(vdir)
		os.WriteFile(filepath.Join(archDir, victim+".apk"), a.bytes[:len(a.bytes)/2], 0o644)
	}
	on := e.outcome(e.child(childOpts{Cache: cache}))
	off := e.outcome(e.child(childOpts{Cache: cache, Offline: true}))
	return []Step{{Line: strings.Join([]string{"cache-plant", c.Plant, "ok:img1", on, off}, "\t"), Go: "-", Mode: "verdict", NoImpl: true,
		Tags: []string{"plant:" + c.Plant, "plant-online:" + on, "plant-offline:" + off}, Desc: "planted " + c.Plant + " → online " + on + ", offline " + off}}
}

func concTags(c cCase, nb int) []string {
	t := []string{fmt.Sprintf("concurrent:%d", c.Conc)}
	if c.ConcCrash > 0 {
		t = append(t, "concurrent-with-kill")
	}
	if nb == 0 {
		t = append(t, "concurrent-cold")
	}
	return t
}
