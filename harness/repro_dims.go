package main

// corr:repro (C01), two further dimensions of the declared inputs.
//
// Repository dimension: 2–3 configured repositories (file directories, or hosts of the in-process HTTP transport;
// some listed under build_repositories) in which some (name, version) is offered by two of them with DIFFERENT
// file contents (other checksum, other size).  The resolver breaks such a tie by the position of the index in the
// list GetRepositoryIndexes returns — which is the position of the repository line in /etc/apk/repositories (the
// sorted set of the configured lines), never the order in which the per-repository fetches complete.  The variant
// knob `slow_repo` makes the index of ONE repository answer late, so each repository in turn finishes last.
//
// Configuration dimension: `contents.baseimage` + lock file.  The parent builds the base image with apko itself,
// derives its installed database, locks the configuration once (base image location and lock file are declared
// inputs, the same for all variants); every variant builds from that lock under its own TMPDIR / cwd / temp dir.
//
// Oracle for every case (not only these): no emitted byte string — looked at raw, gunzipped, and inside the
// entries of bundle tarballs — contains the variant's TMPDIR, working directory, HOME, or cache directory.

import (
	"archive/tar"
	"bytes"
	"context"
	"fmt"
	"io"
	"net/http"
	"os"
	"path/filepath"
	"sort"
	"strings"
	"sync"
	"time"

	"chainguard.dev/apko/pkg/apk/apk"
	"chainguard.dev/apko/pkg/build"
	"chainguard.dev/apko/pkg/build/types"
	"chainguard.dev/apko/pkg/verifapi"
)

type reproMirror struct {
	Name  string `json:"name"`            // directory name next to the primary repository / host `<name>.test`
	Pkgs  []SPkg `json:"pkgs"`
	Build bool   `json:"build,omitempty"` // written under build_repositories instead of repositories
}

type reproBase struct {
	Pkgs []SPkg `json:"pkgs"` // packages of the base image
}

const reproPrimaryName = "repo"

// mirrorCopy: the same name and version with other file contents (and therefore another data hash, control
// checksum, and — when `grow` — another size and installed size).
func mirrorCopy(p SPkg, tag string, grow bool) SPkg {
	q := p
	q.Files = append([]SFile{}, p.Files...)
	done := false
	for i := range q.Files {
		f := &q.Files[i]
		if f.Type != "file" {
			continue
		}
		switch {
		case grow || len(f.Content) == 0:
			f.Content += "# rebuilt by " + tag + "\n"
		default:
			b := []byte(f.Content)
			b[len(b)/2] ^= 0x01
			f.Content = string(b)
		}
		done = true
		break
	}
	if !done {
		q.Files = append(q.Files, SFile{Path: "mirror-" + tag + "-" + p.Name, Type: "file", Mode: 0o644, Content: tag})
	}
	return q
}

// genReproMirrors: 1–2 further repositories.  Each re-offers 1–3 of the primary's (name, version) pairs with other
// contents (always including something the world pulls in), sometimes a newer build of another package and a
// package nobody asks for.
func genReproMirrors(r *Rng, img *ImgCase) []reproMirror {
	names := []string{"mirror-a", "zmirror"}
	if r.Bool() {
		names[0], names[1] = names[1], names[0]
	}
	n := 1
	if r.Chance(35) {
		n = 2
	}
	byName := func(name string) []SPkg {
		var out []SPkg
		for _, p := range img.Pkgs {
			if p.Name == name {
				out = append(out, p) // per-architecture builds of one name stay together
			}
		}
		return out
	}
	var pkgNames []string
	for _, p := range img.Pkgs {
		if !contains(pkgNames, p.Name) {
			pkgNames = append(pkgNames, p.Name)
		}
	}
	var ms []reproMirror
	for k := 0; k < n; k++ {
		m := reproMirror{Name: names[k], Build: r.Chance(30)}
		dup := []string{img.IC.Contents.Packages[0]}
		if k == 1 && r.Bool() {
			dup = []string{Pick(r, pkgNames)}
		}
		for j := r.Intn(3); j > 0; j-- {
			if nm := Pick(r, pkgNames); !contains(dup, nm) {
				dup = append(dup, nm)
			}
		}
		for _, nm := range dup {
			grow := r.Bool()
			for _, p := range byName(nm) {
				m.Pkgs = append(m.Pkgs, mirrorCopy(p, m.Name, grow))
			}
		}
		if r.Chance(30) {
			// a newer build of something else: the version decides, not the position
			if nm := Pick(r, pkgNames); !contains(dup, nm) {
				for _, p := range byName(nm) {
					q := mirrorCopy(p, m.Name+"-new", true)
					q.Version = "99.1-r0"
					q.Provides = nil
					m.Pkgs = append(m.Pkgs, q)
				}
			}
		}
		if r.Chance(30) {
			m.Pkgs = append(m.Pkgs, SPkg{Name: "only-" + m.Name, Version: "1.0-r0", Origin: "only", BuildTime: 1600000000,
				Files: []SFile{{Path: "opt", Type: "dir", Mode: 0o755}, {Path: "opt/only-" + m.Name, Type: "file", Mode: 0o644, Content: m.Name}}})
		}
		ms = append(ms, m)
	}
	return ms
}

func genReproBase(r *Rng) *reproBase {
	b := &reproBase{}
	n := r.Range(1, 3)
	for i := 0; i < n; i++ {
		name := fmt.Sprintf("base-%c", 'a'+i)
		b.Pkgs = append(b.Pkgs, SPkg{Name: name, Version: "1.0-r0", Origin: name, BuildTime: 1600000000, Files: []SFile{
			{Path: "usr", Type: "dir", Mode: 0o755}, {Path: "usr/share", Type: "dir", Mode: 0o755}, {Path: "usr/share/" + name, Type: "dir", Mode: 0o755},
			{Path: "usr/share/" + name + "/data", Type: "file", Mode: 0o644, Content: genContent(r, name, 200)}}})
	}
	return b
}

// multiTransport serves several hosts of the in-process transport; the index of one of them can answer late.
type multiTransport struct {
	hosts map[string]*SynthTransport
	slow  string
	delay time.Duration
}

func (t *multiTransport) RoundTrip(req *http.Request) (*http.Response, error) {
	st := t.hosts[req.URL.Host]
	if st == nil {
		b := []byte("no such host")
		return &http.Response{StatusCode: 404, Status: "404 Not Found", Proto: "HTTP/1.1", ProtoMajor: 1, ProtoMinor: 1,
			Header: http.Header{}, Body: io.NopCloser(bytes.NewReader(b)), ContentLength: int64(len(b)), Request: req}, nil
	}
	// every lookup of an index starts with a HEAD (also when the parsed index is remembered by its ETag)
	if t.slow != "" && req.URL.Host == t.slow && req.Method == http.MethodHead && strings.HasSuffix(req.URL.Path, "/APKINDEX.tar.gz") {
		time.Sleep(t.delay)
	}
	return st.RoundTrip(req)
}

// reproRepos: the repositories of a case as materialised under root (primary in root/repo).
type reproRepos struct {
	names []string // primary first
	dirs  map[string]string
	repos map[string]*SRepo
}

func (c *reproCase) repoNames() []string {
	out := []string{reproPrimaryName}
	for _, m := range c.Mirrors {
		out = append(out, m.Name)
	}
	return out
}

func reproWriteRepos(c *reproCase, repoDir string) {
	for _, m := range c.Mirrors {
		BuildSynthRepo(m.Pkgs, c.Img.Archs).WriteTo(filepath.Join(filepath.Dir(repoDir), m.Name))
	}
}

func reproLoadRepos(c *reproCase, repoDir string) *reproRepos {
	rr := &reproRepos{dirs: map[string]string{}, repos: map[string]*SRepo{}}
	for _, n := range c.repoNames() {
		d := repoDir
		if n != reproPrimaryName {
			d = filepath.Join(filepath.Dir(repoDir), n)
		}
		rr.names = append(rr.names, n)
		rr.dirs[n] = d
		rr.repos[n] = loadRepoDir(d)
	}
	return rr
}

// reproOpts: repositories, keyring, transport (and base image / lock file) of one variant.  Everything here is a
// declared input and the same for all variants but for the timing knobs of the transport.
func reproOpts(c *reproCase, v reproVariant, rr *reproRepos, o *E2EOpts) {
	var run, bld []string
	line := func(n string) string {
		if v.HTTP {
			return "https://" + n + ".test"
		}
		return rr.dirs[n]
	}
	run = append(run, line(reproPrimaryName))
	for _, m := range c.Mirrors {
		if m.Build {
			bld = append(bld, line(m.Name))
		} else {
			run = append(run, line(m.Name))
		}
	}
	o.RepoLines, o.BuildRepoLines = run, bld
	if v.HTTP {
		o.KeyLines = []string{"https://" + reproPrimaryName + ".test/keys/" + synthKeyName}
		mt := &multiTransport{hosts: map[string]*SynthTransport{}, delay: 150 * time.Millisecond}
		for _, n := range rr.names {
			st := &SynthTransport{Repo: rr.repos[n]}
			if v.SlowArch != "" {
				slow := v.SlowArch + "/"
				st.Hook = func(req *http.Request, body []byte) (*http.Response, bool) {
					if strings.HasPrefix(strings.TrimPrefix(req.URL.Path, "/"), slow) {
						time.Sleep(120 * time.Millisecond)
					}
					return nil, false
				}
			}
			mt.hosts[n+".test"] = st
		}
		if v.SlowRepo != "" {
			mt.slow = v.SlowRepo + ".test"
		}
		o.HTTP = mt.hosts[reproPrimaryName+".test"]
		o.RT = mt
	} else {
		o.KeyLines = []string{filepath.Join(rr.dirs[reproPrimaryName], synthKeyName)}
	}
}

func reproBasePaths(repoDir string) (baseDir, lockPath string) {
	root := filepath.Dir(repoDir)
	return filepath.Join(root, "base"), filepath.Join(root, "apko.lock.json")
}

func reproBaseIC(ic types.ImageConfiguration, repoDir string) types.ImageConfiguration {
	baseDir, _ := reproBasePaths(repoDir)
	ic.Contents.BaseImage = &types.BaseImageDescriptor{Image: baseDir, APKIndex: filepath.Join(baseDir, "metadata")}
	return ic
}

// reproPrepareBase (parent): base image built by apko, its installed database as the auxiliary index, and the lock
// of the configuration on top.  Returns "" or why the case cannot be built.
func reproPrepareBase(c *reproCase, repoDir string) string {
	archs := c.Img.Archs
	baseDir, lockPath := reproBasePaths(repoDir)
	var baseIC types.ImageConfiguration
	for _, p := range c.Base.Pkgs {
		baseIC.Contents.Packages = append(baseIC.Contents.Packages, p.Name)
	}
	baseOut := e2eBuild(baseIC, BuildSynthRepo(c.Base.Pkgs, archs), E2EOpts{Archs: archs})
	if baseOut.Err != nil {
		return "base-build-error: " + firstLine(baseOut.Err.Error())
	}
	for n, b := range baseOut.Files {
		if rel, ok := strings.CutPrefix(n, "layout/"); ok {
			p := filepath.Join(baseDir, rel)
			os.MkdirAll(filepath.Dir(p), 0o755)
			if err := os.WriteFile(p, b, 0o644); err != nil {
				panic(err)
			}
		}
	}
	imgs, probs := gluelayerReadIndex(baseOut.Files["layout/index.json"], gluelayerLayoutBlob(baseOut.Files))
	if len(probs) > 0 {
		return "base-image-unreadable: " + probs[0]
	}
	for _, a := range archs {
		im := gluelayerImageOf(imgs, a)
		if im == nil {
			return "base-image-lacks-" + a
		}
		fs, err := gluelayerFlatten(im)
		if err != nil {
			return "base-image-unreadable: " + err.Error()
		}
		db, _ := gluelayerFile(fs, "lib/apk/db/installed")
		p := filepath.Join(baseDir, "metadata", a, "APKINDEX")
		os.MkdirAll(filepath.Dir(p), 0o755)
		if err := os.WriteFile(p, []byte(db), 0o644); err != nil {
			panic(err)
		}
	}
	rr := reproLoadRepos(c, repoDir)
	var o E2EOpts
	v := c.Variants[0]
	v.SlowArch, v.SlowRepo = "", ""
	reproOpts(c, v, rr, &o)
	ic := reproBaseIC(c.Img.IC, repoDir)
	ic.Contents.RuntimeRepositories, ic.Contents.BuildRepositories, ic.Contents.Keyring = o.RepoLines, o.BuildRepoLines, o.KeyLines
	var as []types.Architecture
	for _, a := range archs {
		as = append(as, types.ParseArchitecture(a))
	}
	ltmp := filepath.Join(filepath.Dir(repoDir), "tmp-lock")
	os.MkdirAll(ltmp, 0o755)
	lopts := []build.Option{build.WithImageConfiguration(ic), build.WithTempDir(ltmp), build.WithSBOMFormats(nil)}
	if o.RT != nil {
		lopts = append(lopts, build.WithTransport(o.RT))
	}
	if err := verifapi.LockCmd(context.Background(), lockPath, as, lopts); err != nil {
		return "lock-error: " + firstLine(err.Error())
	}
	return ""
}

// ---- scratch paths must not reach the outputs ----

func isGzip(b []byte) bool { return len(b) > 2 && b[0] == 0x1f && b[1] == 0x8b }

func isTar(b []byte) bool { return len(b) >= 512 && string(b[257:262]) == "ustar" }

// scanLeak: first needle found in b — raw, gunzipped (all members), or in a gzip entry of a tar archive.
func scanLeak(name string, b []byte, needles []string, depth int) string {
	for _, n := range needles {
		if n != "" && bytes.Contains(b, []byte(n)) {
			at := bytes.Index(b, []byte(n))
			lo, hi := max(at-60, 0), min(at+len(n)+40, len(b))
			return fmt.Sprintf("%s contains %q: …%q…", name, n, b[lo:hi])
		}
	}
	if depth <= 0 {
		return ""
	}
	if isGzip(b) {
		return scanLeak(name+"#gunzip", gunzipAll(b), needles, depth-1) // every member
	}
	if isTar(b) {
		tr := tar.NewReader(bytes.NewReader(b))
		for {
			h, err := tr.Next()
			if err != nil {
				return ""
			}
			if h.Typeflag != tar.TypeReg {
				continue
			}
			c, _ := io.ReadAll(tr)
			if isGzip(c) {
				if l := scanLeak(name+"#"+h.Name, c, needles, depth-1); l != "" {
					return l
				}
			}
		}
	}
	return ""
}

// scratchNeedles: the process-private locations of this variant (none of them is a declared input).
func scratchNeedles(cacheDir string) []string {
	var out []string
	add := func(s string) {
		if len(s) > 3 && !contains(out, s) {
			out = append(out, s)
		}
	}
	add(os.Getenv("TMPDIR"))
	if wd, err := os.Getwd(); err == nil {
		add(wd)
	}
	add(os.Getenv("HOME"))
	add(os.Getenv("XDG_CACHE_HOME"))
	add(cacheDir)
	return out
}

func scanOutputs(o E2EOut, needles []string) string {
	names := make([]string, 0, len(o.Files))
	for k := range o.Files {
		names = append(names, k)
	}
	sort.Strings(names)
	for _, k := range names {
		if l := scanLeak(k, o.Files[k], needles, 3); l != "" {
			return l
		}
	}
	return ""
}

func variantNames(vs []reproVariant) []string {
	var out []string
	for _, v := range vs {
		out = append(out, v.Name)
	}
	return out
}

// reproDimsDesc: the repositories (which (name, version) pairs are offered twice) and the base image of a case
func reproDimsDesc(c *reproCase) string {
	var b strings.Builder
	if len(c.Mirrors) > 0 {
		kind := "file"
		if len(c.Variants) > 0 && c.Variants[0].HTTP {
			kind = "http"
		}
		fmt.Fprintf(&b, "%d %s repositories: %s", 1+len(c.Mirrors), kind, reproPrimaryName)
		have := map[string]bool{}
		for _, p := range c.Img.Pkgs {
			have[p.Name+"-"+p.Version] = true
		}
		for _, m := range c.Mirrors {
			var twice []string
			for _, p := range m.Pkgs {
				if id := p.Name + "-" + p.Version; have[id] && !contains(twice, id) {
					twice = append(twice, id)
				}
			}
			how := ""
			if m.Build {
				how = " (build_repositories)"
			}
			fmt.Fprintf(&b, ", %s%s re-offers %v with other contents", m.Name, how, twice)
		}
		b.WriteString("; ")
	}
	if c.Base != nil {
		fmt.Fprintf(&b, "contents.baseimage (%d packages) + lock file; ", len(c.Base.Pkgs))
	}
	return b.String()
}

// ---- x.collect: the real GetRepositoryIndexes under an imposed completion order ----

// collectCase: n repository lines as handed to GetRepositoryIndexes; Kinds[i] ∈ http | pinned (`@tag url`) | file |
// missing (a local directory without an index: logged and skipped); Rank[i] = completion rank among the remote
// lines (the i-th line's index answers after Rank[i]×collectStep), -1 for local lines (they finish at once).
type collectCase struct {
	Kinds []string `json:"kinds"`
	Rank  []int    `json:"rank"`
}

const collectStep = 30 * time.Millisecond

func genCollect(r *Rng) *collectCase {
	n := r.Range(2, 5)
	c := &collectCase{}
	var remote []int
	for i := 0; i < n; i++ {
		k := Pick(r, []string{"http", "http", "http", "pinned", "file", "missing"})
		if i < 2 {
			k = Pick(r, []string{"http", "http", "pinned"})
		}
		c.Kinds = append(c.Kinds, k)
		c.Rank = append(c.Rank, -1)
		if k == "http" || k == "pinned" {
			remote = append(remote, i)
		}
	}
	r.Shuffle(len(c.Kinds), func(i, j int) {
		c.Kinds[i], c.Kinds[j] = c.Kinds[j], c.Kinds[i]
	})
	remote = remote[:0]
	for i, k := range c.Kinds {
		if k == "http" || k == "pinned" {
			remote = append(remote, i)
		}
	}
	ranks := make([]int, len(remote))
	for i := range ranks {
		ranks[i] = i
	}
	switch r.Intn(4) {
	case 0: // the reverse of the line order
		for i := range ranks {
			ranks[i] = len(ranks) - 1 - i
		}
	case 1: // line order
	default:
		r.Shuffle(len(ranks), func(i, j int) { ranks[i], ranks[j] = ranks[j], ranks[i] })
	}
	for j, i := range remote {
		c.Rank[i] = ranks[j]
	}
	return c
}

var (
	collectRepoOnce sync.Once
	collectRepo     *SRepo
)

type collectTransport struct {
	repo  *SRepo
	delay map[string]time.Duration // host -> delay of the index download
}

func (t *collectTransport) RoundTrip(req *http.Request) (*http.Response, error) {
	if req.Method == http.MethodGet && strings.HasSuffix(req.URL.Path, "/APKINDEX.tar.gz") {
		time.Sleep(t.delay[req.URL.Host])
	}
	st := &SynthTransport{Repo: t.repo, NoTag: true} // no ETag: nothing is remembered between calls, every call downloads
	return st.RoundTrip(req)
}

// collectOnce: one call of the real function with the remote lines answering in the order of `rank`; returns the
// positions of the returned indexes and the completion order imposed.
func collectOnce(c *collectCase, rank []int, work string) (goOut string, bits []byte, sched []string, inLineOrder bool) {
	n := len(c.Kinds)
	lines := make([]string, n)
	src := make([]string, n)
	bits = make([]byte, n)
	tr := &collectTransport{repo: collectRepo, delay: map[string]time.Duration{}}
	type ev struct{ rank, pos int }
	var local, remote []ev
	for i, k := range c.Kinds {
		bits[i] = '1'
		switch k {
		case "http", "pinned":
			host := fmt.Sprintf("c%d.test", i)
			src[i] = "https://" + host
			lines[i] = src[i]
			if k == "pinned" {
				lines[i] = fmt.Sprintf("@tag%d %s", i, src[i])
			}
			tr.delay[host] = time.Duration(rank[i]) * collectStep
			remote = append(remote, ev{rank[i], i})
		case "file":
			src[i] = filepath.Join(work, fmt.Sprintf("f%d", i))
			lines[i] = src[i]
			collectRepo.WriteTo(src[i])
			local = append(local, ev{0, i})
		default:
			src[i] = filepath.Join(work, fmt.Sprintf("absent%d", i))
			lines[i] = src[i]
			bits[i] = '0'
			local = append(local, ev{0, i})
		}
	}
	sort.Slice(remote, func(a, b int) bool { return remote[a].rank < remote[b].rank })
	for _, e := range append(local, remote...) {
		sched = append(sched, fmt.Sprint(e.pos))
	}
	inLineOrder = sort.SliceIsSorted(remote, func(a, b int) bool { return remote[a].pos < remote[b].pos })
	keys := map[string][]byte{synthKeyName: collectRepo.KeyPEM}
	idx, err := apk.GetRepositoryIndexes(context.Background(), lines, keys, "x86_64", apk.WithHTTPClient(&http.Client{Transport: tr}))
	goOut = "-"
	if err != nil {
		goOut = "err:" + firstLine(err.Error())
	} else if len(idx) > 0 {
		var ps []string
		for _, ix := range idx {
			p := "?"
			if ix != nil {
				for i := range src {
					if ix.Source() == src[i]+"/x86_64/APKINDEX.tar.gz" {
						p = fmt.Sprint(i)
					}
				}
			} else {
				p = "nil"
			}
			ps = append(ps, p)
		}
		goOut = strings.Join(ps, ",")
	}
	return
}

// collectRun: the real GetRepositoryIndexes under the generated completion order and under its reverse.
// Correspondence: the answer under the first is the model's (`collectPositional` under that schedule); oracle (C01):
// both completion orders give one answer.
func collectRun(c *collectCase) Step {
	collectRepoOnce.Do(func() {
		collectRepo = BuildSynthRepo([]SPkg{{Name: "one", Version: "1.0-r0", Origin: "one", BuildTime: 1600000000,
			Files: []SFile{{Path: "opt", Type: "dir", Mode: 0o755}, {Path: "opt/one", Type: "file", Mode: 0o644, Content: "1"}}}}, []string{"x86_64"})
	})
	work, err := os.MkdirTemp("", "verif-collect-")
	if err != nil {
		panic(err)
	}
	defer os.RemoveAll(work)
	maxRank := 0
	for _, r := range c.Rank {
		maxRank = max(maxRank, r)
	}
	rev := make([]int, len(c.Rank))
	for i, r := range c.Rank {
		rev[i] = r
		if r >= 0 {
			rev[i] = maxRank - r
		}
	}
	go1, bits, sched1, lo1 := collectOnce(c, c.Rank, work)
	go2, _, sched2, lo2 := collectOnce(c, rev, work)
	verdict := "pass"
	if go1 != go2 {
		verdict = fmt.Sprintf("fail:indexes ready in the order %v gave positions %s, ready in the order %v gave positions %s", sched1, go1, sched2, go2)
	}
	return Step{Line: fmt.Sprintf("x.collect\t%d\t%s\t%s", len(c.Kinds), bits, strings.Join(sched1, ",")), Go: go1, Mode: "oracle-go", GoSpec: verdict,
		Desc: fmt.Sprintf("GetRepositoryIndexes over the lines %v, indexes ready in the order of positions %v and then %v", c.Kinds, sched1, sched2),
		Tags: []string{fmt.Sprintf("collect-lines:%d", len(c.Kinds)), fmt.Sprintf("collect-in-line-order:%v", lo1 || lo2)}}
}
