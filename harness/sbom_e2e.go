package main

// End-to-end half of corr:sbom (C11): a real `apko build` with SBOMs against a synthetic repository. The model's input is
// read back from the build outputs: image digest and layer digests from the OCI layout, the installed database,
// /etc/os-release and /var/lib/db/sbom from the (flattened) layer tarballs, the index digest from index.json.

import (
	"archive/tar"
	"bytes"
	"compress/gzip"
	"crypto/sha256"
	"encoding/base64"
	"encoding/hex"
	"encoding/json"
	"fmt"
	"io"
	"os"
	"path"
	"sort"
	"strings"

	"chainguard.dev/apko/pkg/build"
	"chainguard.dev/apko/pkg/build/types"
	"chainguard.dev/apko/pkg/sbom/generator/spdx"
)

var sbE2ENames = []string{"foo", "bar", "lib-x", "tool", "a+", "aC43", "libstdc++", "gtk+3.0", "foo.bar", "x_y", "zed", "q-1"}

func sbE2EFiles(name string) []SFile {
	return []SFile{{Path: "usr", Type: "dir", Mode: 0o755}, {Path: "usr/share", Type: "dir", Mode: 0o755},
		{Path: "usr/share/" + name + ".txt", Type: "file", Mode: 0o644, Content: "data of " + name + "\n"}}
}

func sbGenE2E(r *Rng, tier string) any {
	e := &sbE2E{Archs: []string{"x86_64"}}
	if r.Chance(40) {
		e.Archs = []string{"x86_64", "aarch64"}
	}
	if r.Chance(30) {
		// both 32-bit arm variants: one OCI architecture name, two images, two documents
		e.Archs = Pick(r, [][]string{{"armv7", "armhf"}, {"armhf", "armv7"}, {"x86_64", "armhf", "armv7"}, {"armv7", "aarch64", "armhf"}})
	}
	if r.Chance(30) {
		e.ConfigArchs = true
	}
	e.Publish = r.Chance(35)
	if r.Chance(40) {
		e.Budget = 1 + r.Intn(3)
	}
	if r.Chance(40) {
		e.VCS = Pick(r, []string{"git+ssh://github.com/org/repo.git@" + sbHex(r, 40), "https://example.com/x"})
	}
	base := SPkg{Name: "base", Version: "1.0-r0", Origin: "base", Files: []SFile{{Path: "etc", Type: "dir", Mode: 0o755}}}
	if r.Chance(70) {
		rel := "ID=synth\nNAME=\"Synth Linux\"\nVERSION_ID=" + Pick(r, []string{"1", "\"3.0\"", "20240101"}) + "\n"
		base.Files = append(base.Files, SFile{Path: "etc/os-release", Type: "file", Mode: 0o644, Content: rel})
	}
	pkgs := []SPkg{base}
	n := 1 + r.Intn(4)
	seen := map[string]bool{"base": true}
	var apks []sbApk
	for len(pkgs) < 1+n {
		nm := Pick(r, sbE2ENames)
		if r.Chance(8) {
			// collision partners on purpose
			if !seen["p+"] && !seen["pC43"] && len(pkgs)+1 < 1+n+1 {
				nm = "p+"
				seen["pC43"] = true
				v := fmt.Sprintf("%d.%d-r%d", r.Intn(3), r.Intn(10), r.Intn(5))
				pkgs = append(pkgs, SPkg{Name: "pC43", Version: v, Origin: "pC43", Files: sbE2EFiles("pC43")})
				apks = append(apks, sbApk{Name: "pC43", Version: v})
				seen[nm] = true
				pkgs = append(pkgs, SPkg{Name: nm, Version: v, Origin: nm, Files: sbE2EFiles("pplus")})
				apks = append(apks, sbApk{Name: nm, Version: v})
				continue
			}
		}
		if seen[nm] {
			continue
		}
		seen[nm] = true
		v := fmt.Sprintf("%d.%d.%d-r%d", r.Intn(3), r.Intn(10), r.Intn(10), r.Intn(5))
		if r.Chance(15) {
			v = fmt.Sprintf("%d.%d", r.Intn(3), r.Intn(10))
		}
		p := SPkg{Name: nm, Version: v, Origin: nm, Files: sbE2EFiles(nm), Deps: []string{"base"}}
		if r.Chance(30) {
			p.Origin = "shared-origin"
		}
		pkgs = append(pkgs, p)
		apks = append(apks, sbApk{Name: nm, Version: v, Checksum: sbHex(r, 40)})
	}
	// embedded SBOMs shipped by the packages themselves
	sbShipSBOMs(r, pkgs, 1, sbGenFS(r, apks, 3))
	sbDedupDirs(pkgs)
	e.Pkgs = pkgs
	for _, p := range pkgs[1:] {
		if r.Chance(85) {
			e.World = append(e.World, p.Name)
		}
	}
	if len(e.World) == 0 {
		e.World = []string{pkgs[1].Name}
	}
	if r.Chance(30) {
		sbGenBase(r, e)
	}
	return &sbCase{Kind: "e2e", E2E: e}
}

// sbShipSBOMs puts every generated /var/lib/db/sbom entry into one of pkgs[first:].
func sbShipSBOMs(r *Rng, pkgs []SPkg, first int, fs []sbEntry) {
	for _, ent := range fs {
		if ent.Kind == "dir" {
			continue // a directory at the SBOM path fails the build; covered by the direct cases
		}
		content := "{\"SPDXID\": [not json"
		if ent.Kind == "doc" {
			b, err := json.Marshal(toSpdx(*ent.Doc))
			if err != nil {
				panic(err)
			}
			content = string(b)
		}
		// the owner is the package whose name is the longest prefix of the stem (any installed package would do)
		owner := first + r.Intn(len(pkgs)-first)
		for i := first; i < len(pkgs); i++ {
			if strings.HasPrefix(ent.Stem, pkgs[i].Name) {
				owner = i
			}
		}
		pkgs[owner].Files = append(pkgs[owner].Files,
			SFile{Path: "var", Type: "dir", Mode: 0o755}, SFile{Path: "var/lib", Type: "dir", Mode: 0o755},
			SFile{Path: "var/lib/db", Type: "dir", Mode: 0o755}, SFile{Path: "var/lib/db/sbom", Type: "dir", Mode: 0o755},
			SFile{Path: "var/lib/db/sbom/" + ent.Stem + ".spdx.json", Type: "file", Mode: 0o644, Content: content})
	}
}

// sbDedupDirs drops repeated directory entries inside one package.
func sbDedupDirs(pkgs []SPkg) {
	for i := range pkgs {
		var fl []SFile
		have := map[string]bool{}
		for _, f := range pkgs[i].Files {
			if f.Type == "dir" && have[f.Path] {
				continue
			}
			have[f.Path] = true
			fl = append(fl, f)
		}
		pkgs[i].Files = fl
	}
}

// ---- reading the build outputs ----

type sbOCIDesc struct {
	Digest   string `json:"digest"`
	Platform *struct {
		Architecture string `json:"architecture"`
	} `json:"platform,omitempty"`
}
type sbOCIIndex struct {
	Manifests []sbOCIDesc `json:"manifests"`
}
type sbOCIManifest struct {
	Layers []sbOCIDesc `json:"layers"`
}

func sbBlob(files map[string][]byte, digest string) ([]byte, bool) {
	alg, hx, ok := strings.Cut(digest, ":")
	if !ok {
		return nil, false
	}
	b, ok := files["layout/blobs/"+alg+"/"+hx]
	return b, ok
}

type sbFlat struct {
	files map[string][]byte
	dirs  map[string]bool
}

func sbUntar(blob []byte, into *sbFlat) error {
	zr, err := gzip.NewReader(bytes.NewReader(blob))
	if err != nil {
		return err
	}
	tr := tar.NewReader(zr)
	for {
		h, err := tr.Next()
		if err == io.EOF {
			return nil
		}
		if err != nil {
			return err
		}
		name := path.Clean("/" + h.Name)[1:]
		switch h.Typeflag {
		case tar.TypeDir:
			into.dirs[name] = true
		case tar.TypeReg:
			b, err := io.ReadAll(tr)
			if err != nil {
				return err
			}
			into.files[name] = b
		}
	}
}

// sbParseInstalled reads name, version and checksum of every record of lib/apk/db/installed (independent of apko's parser).
func sbParseInstalled(b []byte) []sbApk {
	var out []sbApk
	var cur sbApk
	have := false
	flush := func() {
		if have {
			out = append(out, cur)
		}
		cur, have = sbApk{}, false
	}
	for _, line := range strings.Split(string(b), "\n") {
		if line == "" {
			flush()
			continue
		}
		if len(line) < 2 || line[1] != ':' {
			continue
		}
		val := line[2:]
		switch line[0] {
		case 'P':
			cur.Name, have = val, true
		case 'V':
			cur.Version = val
		case 'C':
			if strings.HasPrefix(val, "Q1") {
				if raw, err := base64.StdEncoding.DecodeString(val[2:]); err == nil {
					cur.Checksum = hex.EncodeToString(raw)
				}
			}
		}
	}
	flush()
	return out
}

func sbOSVersion(flat *sbFlat) string {
	b, ok := flat.files["etc/os-release"]
	if !ok {
		return "unknown"
	}
	v := ""
	for _, line := range strings.Split(string(b), "\n") {
		if k, val, ok := strings.Cut(line, "="); ok && k == "VERSION_ID" {
			v = strings.Trim(val, "\"")
		}
	}
	return v
}

func sbSbomDir(flat *sbFlat) []sbEntry {
	var out []sbEntry
	const dir = "var/lib/db/sbom/"
	var names []string
	for n := range flat.files {
		names = append(names, n)
	}
	for n := range flat.dirs {
		names = append(names, n)
	}
	sort.Strings(names)
	for _, n := range names {
		if !strings.HasPrefix(n, dir) || !strings.HasSuffix(n, ".spdx.json") || strings.Contains(n[len(dir):], "/") {
			continue
		}
		stem := strings.TrimSuffix(n[len(dir):], ".spdx.json")
		if flat.dirs[n] {
			out = append(out, sbEntry{Stem: stem, Kind: "dir"})
			continue
		}
		var doc spdx.Document
		if err := json.Unmarshal(flat.files[n], &doc); err != nil {
			out = append(out, sbEntry{Stem: stem, Kind: "junk"})
			continue
		}
		d := fromSpdx(&doc)
		out = append(out, sbEntry{Stem: stem, Kind: "doc", Doc: &d})
	}
	return out
}

// sbArtifacts is what one build or publication emitted, reduced to bytes: the index manifest, a blob getter, and where
// the SBOM of an image (by apk architecture and manifest digest) and of the index are to be found.
type sbArtifacts struct {
	Index     []byte
	Get       func(digest string) ([]byte, bool)
	ArchSBOM  func(apkArch, manifestDigest string) ([]byte, bool)
	IndexSBOM func(indexDigest string) ([]byte, bool)
	// built on top of a base image: apk architecture -> number of leading layers that are the base image's (nil = none)
	BaseLayers map[string]int
}

func sbFlatOf(fs map[string]*gluelayerEntry) *sbFlat {
	flat := &sbFlat{files: map[string][]byte{}, dirs: map[string]bool{}}
	for n, e := range fs {
		switch e.Type {
		case tar.TypeDir:
			flat.dirs[n] = true
		case tar.TypeReg:
			flat.files[n] = e.Body
		}
	}
	return flat
}

// sbJudgeArtifacts: every per-architecture document must describe the image published under that architecture's own
// platform (variant included: arm/v6 and arm/v7 are two images), the index document the index.  The model's input is
// read back from the artifacts; the verdicts are the Lean driver's (s.gen / s.idx).
func sbJudgeArtifacts(archs []string, vcs string, desc string, art sbArtifacts, pre string) []Step {
	fail := func(why string) []Step {
		return []Step{{Line: "s.e2e-error", Go: "err:" + why, Desc: desc, Mode: "oracle-go", GoSpec: "fail:" + why, NoImpl: true, Tags: []string{pre + "unreadable"}}}
	}
	if art.Index == nil {
		return fail("no index")
	}
	imgs, ip := gluelayerReadIndex(art.Index, art.Get)
	if p := gluelayerAllProblems(imgs, ip); len(p) > 0 {
		return fail(gluelayerFirst(p, 3))
	}
	if p := gluelayerCheckArchs(imgs, archs); len(p) > 0 {
		return fail(gluelayerFirst(p, 3))
	}
	var steps []Step
	type archImg struct {
		arch   types.Architecture
		digest string
	}
	var order []archImg
	for _, a := range archs {
		arch := types.ParseArchitecture(a)
		im := gluelayerImageOf(imgs, a)
		md := im.Desc.Digest
		order = append(order, archImg{arch, md})
		fs, err := gluelayerFlatten(im)
		if err != nil {
			return fail("layer unreadable: " + err.Error())
		}
		flat := sbFlatOf(fs)
		// what the build's own file system held: the layers this build produced (everything without a base image)
		own := flat
		if nb := art.BaseLayers[a]; nb > 0 {
			if nb >= len(im.Blobs) {
				steps = append(steps, fail(fmt.Sprintf("%s: the base image has %d layer(s), the image built on top of it %d", a, nb, len(im.Blobs)))...)
				continue
			}
			top := *im
			top.Blobs = im.Blobs[nb:]
			tfs, err := gluelayerFlatten(&top)
			if err != nil {
				return fail("layer unreadable: " + err.Error())
			}
			own = sbFlatOf(tfs)
		}
		dc := &sbCase{Kind: "direct", ImageDigest: md}
		for _, l := range im.Man.Layers {
			alg, hx, _ := strings.Cut(l.Digest, ":")
			dc.Layers = append(dc.Layers, sbHash{alg, hx})
		}
		dc.Apks = sbParseInstalled(flat.files["lib/apk/db/installed"])
		dc.OSVersion = sbOSVersion(own)
		dc.FS = sbSbomDir(own)
		sb, ok := art.ArchSBOM(a, md)
		if !ok {
			steps = append(steps, fail("no SBOM for "+a+" ("+md+")")...)
			continue
		}
		goRes, d := parseEmitted(sb)
		// build.LockImageConfiguration's "defensive copy" (ImageConfiguration.MergeInto) did not carry vcs-url until the
		// repair of F12d: the per-architecture document then had no source element while the index document had one. The
		// property does not speak about the source element; the model is given the URL iff the emitted document has a
		// GENERATED_FROM relationship (both trees judge the same way).
		if d != nil {
			for _, rel := range d.Rels {
				if rel.T == "GENERATED_FROM" && len(d.Describes) == 1 && rel.E == d.Describes[0] {
					dc.VCS = vcs
				}
			}
		}
		steps = append(steps, Step{Line: genLine(dc, goRes), Go: goRes, Mode: "verdict",
			Desc: desc + fmt.Sprintf(" arch=%s (%s): image %s, %d layers, installed [%s], %d files in /var/lib/db/sbom", a, im.Plat, md, len(dc.Layers), descApks(dc.Apks), len(dc.FS)),
			Tags: append(append(genTags(dc, goRes, d, pre), pre+"plat:"+im.Plat), sbBaseTags(art, a, pre, flat, own, dc)...), Trivial: d == nil})
	}
	// the index document: images in the order of GenerateIndexSBOM (sorted by architecture string)
	sort.Slice(order, func(i, j int) bool { return order[i].arch.String() < order[j].arch.String() })
	s := sha256.Sum256(art.Index)
	ix := &sbIndex{Digest: sbHash{"sha256", hex.EncodeToString(s[:])}, VCS: vcs}
	for _, im := range order {
		alg, hx, _ := strings.Cut(im.digest, ":")
		ix.Images = append(ix.Images, sbHash{alg, hx})
	}
	sb, ok := art.IndexSBOM(ix.Digest.str())
	if !ok {
		return append(steps, fail("no index SBOM")...)
	}
	goRes, _ := parseEmitted(sb)
	steps = append(steps, Step{Line: idxLine(ix, goRes), Go: goRes, Mode: "verdict", Desc: desc + fmt.Sprintf(": index %s, %d images", ix.Digest.str(), len(ix.Images)),
		Tags: []string{fmt.Sprintf("%sidx:images:%d", pre, len(ix.Images))}})
	return steps
}

func sbFileArtifacts(out E2EOut) sbArtifacts {
	return sbArtifacts{
		Index: out.Files["layout/index.json"],
		Get:   gluelayerLayoutBlob(out.Files),
		ArchSBOM: func(a, _ string) ([]byte, bool) {
			b, ok := out.Files["sbom/sbom-"+a+".spdx.json"]
			return b, ok
		},
		IndexSBOM: func(string) ([]byte, bool) {
			b, ok := out.Files["sbom/sbom-index.spdx.json"]
			return b, ok
		},
	}
}

func runSbomE2E(c *sbCase) []Step {
	e := c.E2E
	repo := BuildSynthRepo(e.Pkgs, e.Archs)
	ic := types.ImageConfiguration{}
	ic.Contents.Packages = e.World
	ic.VCSUrl = e.VCS
	if e.Budget > 0 {
		ic.Layering = &types.Layering{Strategy: "origin", Budget: e.Budget}
	}
	cliArchs := e.Archs
	if e.ConfigArchs {
		// `archs: [x86_64, amd64, …]`: the YAML loader normalises every entry but does not de-duplicate
		for _, a := range e.Archs {
			ic.Archs = append(ic.Archs, types.ParseArchitecture(a))
		}
		ic.Archs = append(ic.Archs, types.ParseArchitecture(e.Archs[0]))
		cliArchs = nil
	}
	desc := fmt.Sprintf("apko build world=%v archs=%v layering-budget=%d vcs=%q (%d packages in the repository)%s", e.World, e.Archs, e.Budget, e.VCS, len(e.Pkgs), sbBaseDesc(e))
	repoDir, lockPath := "", ""
	var baseLayers map[string]int
	var pubExtra []build.Option
	if len(e.Base) > 0 {
		prep, why := sbPrepareBase(e, ic, repo)
		defer os.RemoveAll(prep.Work)
		if why != "" {
			kind, _, _ := strings.Cut(why, ":")
			return []Step{{Line: "s.e2e-error", Go: "err:" + kind, Desc: desc + ": " + why, Mode: "oracle-go", GoSpec: "pass", NoImpl: true, Trivial: true, Tags: []string{"e2e:base:" + kind}}}
		}
		ic, repoDir, lockPath, baseLayers = prep.IC, prep.RepoDir, prep.LockPath, prep.Layers
		pubExtra = []build.Option{build.WithLockFile(lockPath)}
	}
	if e.Publish {
		desc = "apko publish" + strings.TrimPrefix(desc, "apko build")
		pub := gluelayerPublishAt(ic, repo, repoDir, cliArchs, pubExtra...)
		if pub.Err != nil {
			kind := sbErrKind(pub.Err)
			verdict := "pass"
			if kind == "other" {
				verdict = "fail:publish-error: " + pub.Err.Error()
			}
			return []Step{{Line: "s.e2e-error", Go: "err:" + kind, Desc: desc, Mode: "oracle-go", GoSpec: verdict, NoImpl: true, Trivial: true, Tags: []string{"publish:err:" + kind}}}
		}
		// what was attached in the registry, and the files left in --sbom-path
		att, fl := pub.attached(), pub.files()
		att.BaseLayers, fl.BaseLayers = baseLayers, baseLayers
		steps := sbJudgeArtifacts(e.Archs, e.VCS, desc+" [SBOM attached to the manifest in the registry]", att, "publish:")
		return append(steps, sbJudgeArtifacts(e.Archs, e.VCS, desc+" [SBOM file in --sbom-path]", fl, "publish-files:")...)
	}
	out := e2eBuildAt(ic, repo, repoDir, E2EOpts{Archs: cliArchs, SBOM: true, LockFile: lockPath})
	if out.Err != nil {
		kind := sbErrKind(out.Err)
		verdict := "pass"
		if kind == "other" {
			verdict = "fail:build-error: " + out.Err.Error()
		}
		return []Step{{Line: "s.e2e-error", Go: "err:" + kind, Desc: desc, Mode: "oracle-go", GoSpec: verdict, NoImpl: true, Trivial: true, Tags: []string{"e2e:err:" + kind}}}
	}
	art := sbFileArtifacts(out)
	art.BaseLayers = baseLayers
	return sbJudgeArtifacts(e.Archs, e.VCS, desc, art, "e2e:")
}

// sbBaseTags: which shapes of a base-image build a step exercised.
func sbBaseTags(art sbArtifacts, a, pre string, flat, own *sbFlat, dc *sbCase) []string {
	nb := art.BaseLayers[a]
	if nb == 0 {
		return nil
	}
	tags := []string{pre + "base-image", fmt.Sprintf("%sbase-image:db-records:%d", pre, min(len(dc.Apks), 8))}
	if len(sbSbomDir(flat)) > len(dc.FS) {
		tags = append(tags, pre+"base-image:sbom-shipped-by-base-package")
	}
	if _, in := flat.files["etc/os-release"]; in {
		if _, top := own.files["etc/os-release"]; !top {
			tags = append(tags, pre+"base-image:os-release-only-in-base")
		}
	}
	return tags
}
