package main

// base_image.go's use of the installed-db reader: baseimg.New reads <dir>/<arch>/APKINDEX with
// apk.ParseInstalled and republishes the same bytes as APKINDEX.tar.gz, which the resolver later reads
// with the index reader.

import (
	"os"
	"path/filepath"
	"sync"

	v1 "github.com/google/go-containerregistry/pkg/v1"
	"github.com/google/go-containerregistry/pkg/v1/empty"
	"github.com/google/go-containerregistry/pkg/v1/layout"
	"github.com/google/go-containerregistry/pkg/v1/mutate"

	"chainguard.dev/apko/pkg/apk/apk"
	"chainguard.dev/apko/pkg/baseimg"
	"chainguard.dev/apko/pkg/build/types"
)

var (
	baseOnce   sync.Once
	baseLayout string
	baseErr    error
)

func baseSetup() {
	dir, err := os.MkdirTemp("", "verif-base-layout-")
	if err != nil {
		baseErr = err
		return
	}
	img, err := mutate.ConfigFile(empty.Image, &v1.ConfigFile{Architecture: "amd64", OS: "linux"})
	if err != nil {
		baseErr = err
		return
	}
	l, err := layout.Write(dir, empty.Index)
	if err != nil {
		baseErr = err
		return
	}
	if err := l.AppendImage(img); err != nil {
		baseErr = err
		return
	}
	baseLayout = dir
}

func goBase(text string) string {
	baseOnce.Do(baseSetup)
	if baseErr != nil {
		panic(baseErr)
	}
	tmp, err := os.MkdirTemp("", "verif-base-")
	if err != nil {
		panic(err)
	}
	defer os.RemoveAll(tmp)
	arch := types.ParseArchitecture("amd64")
	if err := os.MkdirAll(filepath.Join(tmp, "idx", arch.ToAPK()), 0o755); err != nil {
		panic(err)
	}
	if err := os.WriteFile(filepath.Join(tmp, "idx", arch.ToAPK(), "APKINDEX"), []byte(text), 0o644); err != nil {
		panic(err)
	}
	b, err := baseimg.New(baseLayout, filepath.Join(tmp, "idx"), arch, filepath.Join(tmp, "mat"))
	if err != nil {
		return "err|" + goIdxR(text)
	}
	ips := b.InstalledPackages()
	ps := make([]*apk.Package, len(ips))
	for i, ip := range ips {
		ps[i] = &ip.Package
	}
	out := wPkgs(ps) + "|"
	f, err := os.Open(filepath.Join(b.APKIndexPath(), arch.ToAPK(), "APKINDEX.tar.gz"))
	if err != nil {
		return out + "err"
	}
	idx, err := apk.IndexFromArchive(f)
	if err != nil {
		return out + "err"
	}
	return out + wPkgs(idx.Packages)
}
