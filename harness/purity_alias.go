package main

import (
	"context"
	"fmt"
	"sort"
	"strings"
	"sync"

	"chainguard.dev/apko/pkg/apk/apk"
)

// Aliasing histories of corr:purity (C08).  The proof obligation (Proofs/Lemmas/AliasTable.lean) says: no
// write of the resolution path lands in anything reachable from a value published in a process-wide cache.
// These histories look for the concrete divergence when it breaks, field by field, without needing a race
// report: the PUBLISHED resolver / disqualification map is dumped (everything reachable: index list, every
// package with its dependency / provides / install_if lists, nameMap and installIfMap with their slices in
// order, selected) right after it was published, then one clone A is worked hard (every world of the family
// single and multi on the SAME clone, abandoned resolutions, ResolvePackage of every name — the in-place
// sort path), then
//   * the published value is dumped again            — must equal the first dump,
//   * a resolver built afresh from the same index objects is dumped — must equal it too (the shared
//     package / index objects were not touched),
//   * a second clone B is dumped                      — must equal it (nothing of A leaked into B),
//   * every (arch, world) is resolved on new clones   — must give the fresh-state answer,
//   * the same while goroutines keep resolving on their own clones and one goroutine keeps reading the
//     published value (a write would also be a race report under -race).
// p.alias.shape: what a clone shares with the prototype, field by field at run time (reflection over the
// struct), against what the model derives from the regenerated statement list of Clone().

func universeNames(a rArch) []string {
	seen := map[string]bool{}
	var out []string
	add := func(s string) {
		if !seen[s] {
			seen[s] = true
			out = append(out, s)
		}
	}
	for _, ix := range a.Indexes {
		for _, p := range ix.Pkgs {
			add(p.Name)
			for _, pr := range p.Provides {
				n := pr
				if i := strings.IndexAny(n, "=<>~"); i >= 0 {
					n = n[:i]
				}
				add(n)
			}
		}
	}
	sort.Strings(out)
	return out
}

// unordered: newPkgResolver appends the providers of a provided name in the iteration order of a Go map, so two
// constructions over the same index objects agree on every list as a multiset only (C01.nameMap_order_irrelevant
// is the theorem that the order cannot reach an answer); in-place reordering of a PUBLISHED list is caught by
// comparing the published value with itself, before and after
func unordered(dump string) string {
	lines := strings.Split(dump, "\n")
	for i, l := range lines {
		j := strings.Index(l, "\": [")
		if !strings.HasPrefix(l, " \"") || j < 0 {
			continue
		}
		if !strings.HasSuffix(l, "]") {
			continue
		}
		ents := strings.Split(l[j+4:len(l)-1], "] [")
		sort.Strings(ents)
		lines[i] = l[:j+4] + strings.Join(ents, "] [") + "]"
	}
	return strings.Join(lines, "\n")
}

func dqMembers(dump string) string {
	lines := strings.Split(dump, "\n")
	for i, l := range lines {
		if j := strings.Index(l, " => "); j >= 0 {
			lines[i] = l[:j]
		}
	}
	return strings.Join(lines, "\n")
}

func firstDiff(a, b string) string {
	la, lb := strings.Split(a, "\n"), strings.Split(b, "\n")
	for i := 0; i < len(la) || i < len(lb); i++ {
		x, y := "<end>", "<end>"
		if i < len(la) {
			x = la[i]
		}
		if i < len(lb) {
			y = lb[i]
		}
		if x != y {
			if len(x) > 160 {
				x = x[:160]
			}
			if len(y) > 160 {
				y = y[:160]
			}
			return fmt.Sprintf("line %d: %q vs %q", i, x, y)
		}
	}
	return "equal"
}

func aliasSteps(c pCase, baseline map[pKey]string, r *Rng) []Step {
	var steps []Step
	var diverged []string
	note := func(format string, a ...any) {
		if len(diverged) < 8 {
			diverged = append(diverged, fmt.Sprintf(format, a...))
		}
	}
	ctx := context.Background()
	resolutions := 0
	for f, fam := range c.Families {
		apk.VerifResetGlobalCaches()
		built := buildFamily(fam)
		allMulti := map[string][]apk.NamedIndex{}
		for _, b := range built {
			allMulti[b.arch] = b.indexes
		}
		var worlds []int
		for w := range c.Worlds {
			if w < len(c.WorldFam) && c.WorldFam[w] == f {
				worlds = append(worlds, w)
			}
		}
		for a := range fam {
			idx := built[a].indexes
			single := map[string][]apk.NamedIndex{built[a].arch: idx}
			A := apk.NewPkgResolver(ctx, idx) // fills the process-wide cache
			proto := apk.VerifPublishedResolver(idx)
			if proto == nil {
				note("family %d arch %d: nothing published for the index objects after NewPkgResolver", f, a)
				continue
			}
			d0 := apk.VerifResolverDump(proto)
			if df := apk.VerifResolverDump(apk.VerifFreshResolver(ctx, idx)); unordered(df) != unordered(d0) {
				note("family %d arch %d: published resolver differs from a fresh one before any resolution: %s", f, a, firstDiff(unordered(d0), unordered(df)))
			}
			shape := apk.VerifCloneShape(proto, A)
			var req []string
			for _, s := range shape {
				p := strings.SplitN(s, ":", 3)
				req = append(req, p[0]+":"+p[1])
			}
			steps = append(steps, Step{Line: "p.alias.shape\t" + strings.Join(req, ","), Go: strings.Join(shape, ","),
				Desc: fmt.Sprintf("family %d arch %s: what a clone shares with the cached prototype, field by field", f, fam[a].Arch), Tags: []string{"alias:shape"}})
			// the history on ONE clone
			// the published disqualification map is held by reference: the trie key of disqualifyCache.Get is the index list
			// sorted by name with an unstable sort over a map-ordered input, so a later lookup may land on another entry
			// (a cache miss, not an aliasing matter); the object published first must not change
			var dq0 string
			var dqObj map[*apk.RepositoryPackage]string
			for pass := 0; pass < 2; pass++ {
				for _, w := range worlds {
					if r.Chance(30) {
						_, _, _ = A.GetPackagesWithDependencies(newPCountCtx(Pick(r, []int{0, 1, 2, 3, 5, 8, 13, 21, 40})), c.Worlds[w], single)
					}
					_, _, _ = A.GetPackagesWithDependencies(ctx, c.Worlds[w], single)
					resolutions++
					if len(fam) > 1 {
						_, _, _ = A.GetPackagesWithDependencies(ctx, c.Worlds[w], allMulti)
						resolutions++
						if dqObj == nil {
							if dqObj = apk.VerifPublishedDisqualify(allMulti); dqObj != nil {
								dq0 = apk.VerifDisqualifyDump(dqObj)
							}
						}
					}
				}
				for _, n := range universeNames(fam[a]) {
					_, _ = A.ResolvePackage(n, map[*apk.RepositoryPackage]string{})
					for _, w := range worlds {
						for _, e := range c.Worlds[w] {
							_, _ = A.ResolvePackage(e, map[*apk.RepositoryPackage]string{})
						}
					}
				}
			}
			check := func(when string) {
				if d := apk.VerifResolverDump(apk.VerifPublishedResolver(idx)); d != d0 {
					note("family %d arch %d %s: the PUBLISHED resolver changed: %s", f, a, when, firstDiff(d0, d))
				}
				if d := apk.VerifResolverDump(apk.VerifFreshResolver(ctx, idx)); unordered(d) != unordered(d0) {
					note("family %d arch %d %s: a resolver built afresh from the same index objects differs (shared package/index objects were written): %s", f, a, when, firstDiff(unordered(d0), unordered(d)))
				}
				if d := apk.VerifResolverDump(apk.NewPkgResolver(ctx, idx)); d != d0 {
					note("family %d arch %d %s: a second clone differs from the published value: %s", f, a, when, firstDiff(d0, d))
				}
				if dq0 != "" {
					if d := apk.VerifDisqualifyDump(dqObj); d != dq0 {
						note("family %d arch %d %s: the PUBLISHED disqualification map changed: %s", f, a, when, firstDiff(dq0, d))
					}
					// the reason text of an entry names whichever other architecture was looked at last (map order): members only
					if d := dqMembers(apk.VerifDisqualifyDump(apk.VerifFreshDisqualify(ctx, allMulti))); d != dqMembers(dq0) {
						note("family %d arch %d %s: a freshly computed cross-architecture difference differs from the published one: %s", f, a, when, firstDiff(dqMembers(dq0), d))
					}
				}
				for _, w := range worlds {
					for _, multi := range []bool{false, true} {
						if multi && len(fam) == 1 {
							continue
						}
						k := pKey{f, a, w, multi}
						if got := resolveBuilt(built, a, c.Worlds[w], multi); got != baseline[k] {
							note("family %d arch %d %s %+v: fresh=%s after the history on another clone=%s", f, a, when, k, baseline[k], got)
						}
						resolutions++
					}
				}
			}
			check("after the sequential history on clone A")
			// concurrent: clones keep resolving, one reader keeps dumping the published value
			var wg sync.WaitGroup
			var mu sync.Mutex
			stop := make(chan struct{})
			wg.Add(1)
			go func() {
				defer wg.Done()
				for {
					select {
					case <-stop:
						return
					default:
					}
					if d := apk.VerifResolverDump(apk.VerifPublishedResolver(idx)); d != d0 {
						mu.Lock()
						note("family %d arch %d: a concurrent reader saw the PUBLISHED resolver change: %s", f, a, firstDiff(d0, d))
						mu.Unlock()
						return
					}
				}
			}()
			var wg2 sync.WaitGroup
			for g := 0; g < 3; g++ {
				wg2.Add(1)
				go func(g int) {
					defer wg2.Done()
					B := apk.NewPkgResolver(ctx, idx)
					for i, w := range worlds {
						if (i+g)%2 == 0 {
							_, _, _ = B.GetPackagesWithDependencies(ctx, c.Worlds[w], single)
						} else {
							_, _, _ = B.GetPackagesWithDependencies(ctx, c.Worlds[w], allMulti)
						}
						for _, e := range c.Worlds[w] {
							_, _ = B.ResolvePackage(e, map[*apk.RepositoryPackage]string{})
						}
					}
				}(g)
			}
			wg2.Wait()
			close(stop)
			wg.Wait()
			check("after concurrent clones")
		}
	}
	out := "consistent"
	if len(diverged) > 0 {
		out = "diverged: " + diverged[0]
	}
	steps = append(steps, Step{Line: "p.alias.frame", Go: out,
		Desc: fmt.Sprintf("%d families: published resolver / disqualification map dumped before and after histories on clones (%d resolutions), against fresh ones", len(c.Families), resolutions),
		Tags: []string{"alias:frame", fmt.Sprintf("alias-resolutions:%d", resolutions/20*20)}})
	return steps
}

// ---- permuted index orders over the same index objects (C08: the answer is a function of the ORDERED index list) ----
//
// Among candidates that compare equal (same name, version, priority carried by two repositories) the index listed
// first wins, so `[A,B]` and `[B,A]` are different inputs with different answers.  Every architecture gets a mirror of
// its first repository (twin packages: same name+version+priority, another URL); the same index OBJECTS are then
// handed to NewPkgResolver / GetPackagesWithDependencies in permuted orders within one process, and every answer —
// which identifies the chosen repository — is compared with the fresh-state answer for ITS order (all caches reset,
// new objects), which in turn is compared with Impl.resolve over the universe in that order.

func withMirror(a rArch) rArch {
	out := rArch{Arch: a.Arch, Indexes: append([]rIndex(nil), a.Indexes...)}
	if len(a.Indexes) == 0 {
		return out
	}
	m := rIndex{Pin: a.Indexes[0].Pin, URI: strings.Replace(a.Indexes[0].URI, "://", "://mirror-", 1), Pkgs: append([]rPkg(nil), a.Indexes[0].Pkgs...)}
	out.Indexes = append(out.Indexes, m)
	return out
}

func permArch(a rArch, perm []int) rArch {
	out := rArch{Arch: a.Arch}
	for _, j := range perm {
		out.Indexes = append(out.Indexes, a.Indexes[j])
	}
	return out
}

// identify: "ok 3,5|…" in the numbering of `a` -> "ok <uri>#k,<uri>#k|…"
func identify(a rArch, ans string) string {
	if !strings.HasPrefix(ans, "ok ") {
		return ans
	}
	body, rest, _ := strings.Cut(ans[3:], "|")
	var names []string
	id := 0
	for _, ix := range a.Indexes {
		for k := range ix.Pkgs {
			names = append(names, fmt.Sprintf("%s#%d", ix.URI, k))
			_ = k
			id++
		}
	}
	var out []string
	if body != "" {
		for _, s := range strings.Split(body, ",") {
			var n int
			fmt.Sscan(s, &n)
			if n >= 0 && n < len(names) {
				out = append(out, names[n])
			} else {
				out = append(out, "?"+s)
			}
		}
	}
	return "ok " + strings.Join(out, ",") + "|" + rest
}

func orderSteps(c pCase, r *Rng) []Step {
	var steps []Step
	var diverged []string
	total := 0
	for f, fam := range c.Families {
		var worlds []int
		for w := range c.Worlds {
			if w < len(c.WorldFam) && c.WorldFam[w] == f {
				worlds = append(worlds, w)
			}
		}
		for ai := range fam {
			a := withMirror(fam[ai])
			n := len(a.Indexes)
			if n < 2 {
				continue
			}
			ident := make([]int, n)
			rev := make([]int, n)
			rot := make([]int, n)
			for i := range ident {
				ident[i], rev[i], rot[i] = i, n-1-i, (i+1)%n
			}
			perms := [][]int{ident, rev}
			if n > 2 {
				perms = append(perms, rot)
			}
			// fresh-state answers, per order
			fresh := make([]map[int]string, len(perms))
			for pi, perm := range perms {
				fresh[pi] = map[int]string{}
				pa := permArch(a, perm)
				for _, w := range worlds {
					apk.VerifResetGlobalCaches()
					ans := resolveBuilt([]builtArch{buildArch(pa)}, 0, c.Worlds[w], false)
					fresh[pi][w] = identify(pa, ans)
					fields := append([]string{"r.corr", xl(c.Worlds[w]), xs(pa.Arch)}, encodeArchs([]rArch{pa})...)
					fields = append(fields, ans)
					steps = append(steps, Step{Line: strings.Join(fields, "\t"), Go: ans, Mode: "verdict", Trivial: ans == "err",
						Desc: fmt.Sprintf("index order %v with a mirror of the first repository: %s", perm, describeCase(rCase{Archs: []rArch{pa}, World: c.Worlds[w]}, 0)),
						Tags: []string{"order-fresh:" + strings.SplitN(ans, " ", 2)[0]}})
				}
			}
			// one process, the same index objects, permuted orders
			apk.VerifResetGlobalCaches()
			base := buildArch(a)
			seq := []int{0, 1, 0}
			if len(perms) > 2 {
				seq = []int{0, 2, 1, 0, 2}
			}
			if r.Bool() {
				seq[0], seq[1] = seq[1], seq[0]
			}
			for si, pi := range seq {
				idx := make([]apk.NamedIndex, n)
				for i, j := range perms[pi] {
					idx[i] = base.indexes[j]
				}
				for _, w := range worlds {
					b := builtArch{arch: base.arch, indexes: idx, ids: base.ids}
					got := identify(a, resolveBuilt([]builtArch{b}, 0, c.Worlds[w], false))
					total++
					if got != fresh[pi][w] && len(diverged) < 5 {
						diverged = append(diverged, fmt.Sprintf("family %d arch %s world %d: index order %v (call %d of the sequence %v over the same index objects): fresh=%s got=%s",
							f, a.Arch, w, perms[pi], si, seq, fresh[pi][w], got))
					}
				}
			}
		}
	}
	out := "consistent"
	if len(diverged) > 0 {
		out = "diverged: " + diverged[0]
	}
	steps = append(steps, Step{Line: "p.order", Go: out,
		Desc: fmt.Sprintf("%d resolutions over the same index objects in permuted orders (every architecture with a mirror of its first repository), each against the fresh-state answer for its order", total),
		Tags: []string{"order:" + strings.SplitN(out, ":", 2)[0]}})
	return steps
}
