package main

// corr:cache (C19) helpers: the child process that runs one real `apko build` against a shared
// on-disk cache (and can be stopped at the k-th crash-point marker or while the transport stalls
// mid-body), and the abstraction of a cache directory into the model's tokens.

import (
	"bytes"
	"context"
	"compress/gzip"
	"crypto/sha1"
	"crypto/sha256"
	"encoding/base32"
	"encoding/gob"
	"encoding/hex"
	"flag"
	"fmt"
	"io"
	"io/fs"
	"net/http"
	"os"
	"os/exec"
	"path/filepath"
	"runtime"
	"sort"
	"strings"
	"sync"
	"syscall"
	"time"

	"chainguard.dev/apko/pkg/apk/apk"
	"chainguard.dev/apko/pkg/build"
	"chainguard.dev/apko/pkg/build/types"
	"chainguard.dev/apko/pkg/verifapi"
)

// cacheWorld is what parent and children share: every revision of the repository (same key).
type cacheWorld struct {
	Revs   []map[string][]byte // revision -> repository files (index + apks)
	KeyPEM []byte
	World  []string
}

func (w *cacheWorld) save(path string) error {
	var b bytes.Buffer
	if err := gob.NewEncoder(&b).Encode(w); err != nil {
		return err
	}
	return os.WriteFile(path, b.Bytes(), 0o644)
}

func loadCacheWorld(path string) (*cacheWorld, error) {
	b, err := os.ReadFile(path)
	if err != nil {
		return nil, err
	}
	w := &cacheWorld{}
	return w, gob.NewDecoder(bytes.NewReader(b)).Decode(w)
}

func indexEtag(body []byte) string {
	s := sha1.Sum(body)
	return hex.EncodeToString(s[:8])
}

// stallBody serves data[:stallAt] and then blocks for ever (after raising the flag file).
type stallBody struct {
	data    []byte
	pos     int
	stallAt int
	onStall func()
}

func (s *stallBody) Read(p []byte) (int, error) {
	if s.pos >= s.stallAt {
		s.onStall()
		select {}
	}
	end := s.stallAt
	if end > len(s.data) {
		end = len(s.data)
	}
	n := copy(p, s.data[s.pos:end])
	s.pos += n
	return n, nil
}
func (s *stallBody) Close() error { return nil }

const (
	exitCrash = 77
)

func cacheChildMain(args []string) {
	fl := flag.NewFlagSet("cache-child", flag.ExitOnError)
	world := fl.String("world", "", "gob file with the repository revisions")
	cacheDir := fl.String("cache", "", "cache directory (empty: no cache)")
	out := fl.String("out", "", "outcome file")
	traceF := fl.String("trace", "", "trace file (markers hit)")
	offline := fl.Bool("offline", false, "offline build")
	crash := fl.Int("crash", 0, "exit at the k-th marker (0: never)")
	headRev := fl.Int("head-rev", 0, "revision announced by HEAD")
	getRev := fl.Int("get-rev", 0, "revision served by GET")
	stall := fl.String("stall", "", "<path suffix>:<offset> stall the GET body of that path at that offset")
	flagF := fl.String("flag", "", "file created when the stall is reached")
	archs := fl.String("archs", "x86_64", "comma separated")
	keyF := fl.String("key", "", "public key file (a fixed path: it ends up in /etc/apko.json)")
	procs := fl.Int("procs", 1, "GOMAXPROCS")
	filesRev := fl.Int("files-rev", -1, "the apk files are those of this revision (default: the GET revision)")
	pause := fl.String("pause", "", "<marker prefix>:<n> pause at the n-th marker with that prefix until the go file exists")
	pauseGo := fl.String("pause-go", "", "file whose existence releases the paused build")
	fl.Parse(args)
	runtime.GOMAXPROCS(*procs)
	if *cacheDir == "" {
		// a build without --cache-dir still uses os.UserCacheDir()/dev.chainguard.go-apk; only when that
		// cannot be determined is the cache really off — which is what the reference build must be
		os.Unsetenv("HOME")
		os.Unsetenv("XDG_CACHE_HOME")
	}
	w, err := loadCacheWorld(*world)
	if err != nil {
		fmt.Fprintln(os.Stderr, "cache-child:", err)
		os.Exit(2)
	}
	var mu sync.Mutex
	var trace []string
	writeTrace := func() {
		if *traceF != "" {
			os.WriteFile(*traceF, []byte(strings.Join(trace, "\n")), 0o644)
		}
	}
	pausePrefix, pauseN, pauseSeen := "", 0, 0 // an empty prefix matches every marker
	if *pause != "" {
		i := strings.LastIndex(*pause, ":")
		pausePrefix = (*pause)[:i]
		fmt.Sscan((*pause)[i+1:], &pauseN)
	}
	verifapi.SetPointHook(func(name string) {
		mu.Lock()
		trace = append(trace, name)
		if *crash > 0 && len(trace) == *crash {
			writeTrace()
			os.Exit(exitCrash)
		}
		wait := false
		if *pause != "" && strings.HasPrefix(name, pausePrefix) {
			pauseSeen++
			if pauseSeen == pauseN {
				writeTrace()
				wait = true
			}
		}
		mu.Unlock()
		if wait {
			// stand still exactly here (the parent runs another build meanwhile), for at most 10 s
			os.WriteFile(*flagF, []byte("paused"), 0o644)
			for i := 0; i < 10000; i++ {
				if _, err := os.Stat(*pauseGo); err == nil {
					break
				}
				time.Sleep(time.Millisecond)
			}
		}
	})
	// every apk of every revision stays downloadable (a real repository keeps old versions around);
	// the index is the revision's.
	// Where one path has different content in different revisions (a rebuilt package), the repository's
	// files are those of revision fr: the latest revision <= fr that has the path wins.
	fr := *filesRev
	if fr < 0 || fr >= len(w.Revs) {
		fr = *getRev
	}
	files := map[string][]byte{}
	addRev := func(i int) {
		for k, v := range w.Revs[i] {
			if !strings.HasSuffix(k, "APKINDEX.tar.gz") {
				files[k] = v
			}
		}
	}
	for i := len(w.Revs) - 1; i > fr; i-- {
		addRev(i)
	}
	for i := 0; i <= fr; i++ {
		addRev(i)
	}
	for k, v := range w.Revs[*getRev] {
		if strings.HasSuffix(k, "APKINDEX.tar.gz") {
			files[k] = v
		}
	}
	repo := &SRepo{Files: files, KeyPEM: w.KeyPEM}
	t := &SynthTransport{Repo: repo}
	stallSuffix, stallAt := "", 0
	if *stall != "" {
		i := strings.LastIndex(*stall, ":")
		stallSuffix = (*stall)[:i]
		fmt.Sscan((*stall)[i+1:], &stallAt)
	}
	t.Hook = func(req *http.Request, body []byte) (*http.Response, bool) {
		path := strings.TrimPrefix(req.URL.Path, "/")
		mk := func(b []byte, rc io.ReadCloser) *http.Response {
			return &http.Response{StatusCode: 200, Status: "200 OK", Proto: "HTTP/1.1", ProtoMajor: 1, ProtoMinor: 1,
				Header: http.Header{}, Body: rc, ContentLength: int64(len(b)), Request: req}
		}
		if strings.HasSuffix(path, "APKINDEX.tar.gz") {
			rev := *getRev
			if req.Method == http.MethodHead {
				rev = *headRev
			}
			b, ok := w.Revs[rev][path]
			if !ok {
				return nil, false
			}
			var rc io.ReadCloser = io.NopCloser(bytes.NewReader(b))
			if req.Method == http.MethodHead {
				rc = io.NopCloser(bytes.NewReader(nil))
			} else if stallSuffix != "" && strings.HasSuffix(path, stallSuffix) {
				rc = &stallBody{data: b, stallAt: stallAt, onStall: func() { mu.Lock(); writeTrace(); mu.Unlock(); os.WriteFile(*flagF, []byte("x"), 0o644) }}
			}
			resp := mk(b, rc)
			resp.Header.Set("ETag", `"`+indexEtag(b)+`"`)
			return resp, true
		}
		if req.Method == http.MethodGet && stallSuffix != "" && strings.HasSuffix(path, stallSuffix) && body != nil {
			resp := mk(body, &stallBody{data: body, stallAt: stallAt, onStall: func() { mu.Lock(); writeTrace(); mu.Unlock(); os.WriteFile(*flagF, []byte("x"), 0o644) }})
			return resp, true
		}
		return nil, false
	}
	ic := types.ImageConfiguration{}
	ic.Contents.Packages = w.World
	o := cacheBuild(ic, *keyF, strings.Split(*archs, ","), *cacheDir, *offline, t)
	mu.Lock()
	writeTrace()
	mu.Unlock()
	res := ""
	if o.Err != nil {
		res = "err " + o.Err.Error()
	} else {
		s := sha256.Sum256([]byte(o.Summary()))
		res = "ok " + hex.EncodeToString(s[:8])
		if os.Getenv("VERIF_CACHE_DEBUG") != "" {
			os.WriteFile(*out+".sum", []byte(strings.ReplaceAll(o.Summary(), ";", "\n")), 0o644)
		}
	}
	os.WriteFile(*out, []byte(res), 0o644)
}

// cacheBuild is e2eBuild with a caller-chosen key path (e2eBuild puts the key into its random scratch
// directory, and the keyring path is recorded in the image's /etc/apko.json — digests of two
// processes would never agree).
func cacheBuild(ic types.ImageConfiguration, keyPath string, archNames []string, cacheDir string, offline bool, t *SynthTransport) E2EOut {
	work, err := os.MkdirTemp("", "verif-cachebuild-")
	if err != nil {
		return E2EOut{Err: err}
	}
	defer os.RemoveAll(work)
	ic.Contents.RuntimeRepositories = []string{"https://repo.test"}
	ic.Contents.Keyring = []string{keyPath}
	var archs []types.Architecture
	for _, a := range archNames {
		archs = append(archs, types.ParseArchitecture(a))
	}
	os.MkdirAll(filepath.Join(work, "tmp"), 0o755)
	opts := []build.Option{build.WithImageConfiguration(ic), build.WithSourceDateEpoch(time.Unix(1700000000, 0)),
		build.WithTempDir(filepath.Join(work, "tmp")), build.WithSBOMFormats(nil), build.WithTransport(t)}
	if cacheDir != "" {
		opts = append(opts, build.WithCache(cacheDir, offline, apk.NewCache(true)))
	}
	out := filepath.Join(work, "out")
	sbomDir := filepath.Join(work, "sbom")
	os.MkdirAll(sbomDir, 0o755)
	os.MkdirAll(out, 0o755)
	if err := verifapi.BuildCmd(context.Background(), "verif.test/img:latest", out, archs, nil, false, sbomDir, opts...); err != nil {
		return E2EOut{Err: err}
	}
	files := map[string][]byte{}
	collectDir(out, "layout/", files)
	return E2EOut{Files: files}
}

func init() {
	prev := extraCommand
	extraCommand = func(name string, args []string) bool {
		if name != "cache-child" {
			return prev(name, args)
		}
		cacheChildMain(args)
		return true
	}
}

type childOpts struct {
	FilesRev int   // 1 + revision of the apk files (0: the GET revision)
	Pause   string // "<marker prefix>:<n>"
	World   string
	Key     string
	Cache   string
	Offline bool
	Crash   int
	HeadRev int
	GetRev  int
	Stall   string
	Archs   string
	Procs   int
}

type childRes struct {
	Status string // "ok <digest>" | "err <msg>" | "crash" | "killed" | "fail <what>"
	Trace  []string
}

// startChild launches the child; wait() collects the result (kills the child when it raises the stall flag).
func startChild(scratch string, id int, o childOpts) func() childRes {
	out := filepath.Join(scratch, fmt.Sprintf("out-%d", id))
	tr := filepath.Join(scratch, fmt.Sprintf("trace-%d", id))
	fg := filepath.Join(scratch, fmt.Sprintf("flag-%d", id))
	os.Remove(out)
	os.Remove(tr)
	os.Remove(fg)
	if o.Archs == "" {
		o.Archs = "x86_64"
	}
	if o.Procs == 0 {
		o.Procs = 1
	}
	args := []string{"cache-child", "--world", o.World, "--key", o.Key, "--cache", o.Cache, "--out", out, "--trace", tr, "--flag", fg,
		"--head-rev", fmt.Sprint(o.HeadRev), "--get-rev", fmt.Sprint(o.GetRev), "--archs", o.Archs, "--procs", fmt.Sprint(o.Procs)}
	if o.Offline {
		args = append(args, "--offline")
	}
	if o.Crash > 0 {
		args = append(args, "--crash", fmt.Sprint(o.Crash))
	}
	if o.Stall != "" {
		args = append(args, "--stall", o.Stall)
	}
	if o.FilesRev > 0 {
		args = append(args, "--files-rev", fmt.Sprint(o.FilesRev-1))
	}
	pg := filepath.Join(scratch, fmt.Sprintf("go-%d", id))
	os.Remove(pg)
	if o.Pause != "" {
		args = append(args, "--pause", o.Pause, "--pause-go", pg)
	}
	exe, _ := os.Executable()
	cmd := exec.Command(exe, args...)
	var stderr bytes.Buffer
	cmd.Stderr = &stderr
	cmd.Stdout = io.Discard
	// every build runs in a working directory of its own: the cache must never create anything relative to it
	cwd := filepath.Join(scratch, fmt.Sprintf("cwd-%d", id))
	os.MkdirAll(cwd, 0o755)
	cmd.Dir = cwd
	if err := cmd.Start(); err != nil {
		return func() childRes { return childRes{Status: "fail start: " + err.Error()} }
	}
	return startChildCollect(cmd, &stderr, o, out, tr, fg)
}

// cacheCwdTokens: `U=cwd:<name>` for everything the child processes of a case left in their working directories
func cacheCwdTokens(scratch string) []string {
	var toks []string
	dirs, _ := filepath.Glob(filepath.Join(scratch, "cwd-*"))
	sort.Strings(dirs)
	for _, d := range dirs {
		for _, f := range cacheListCwd(d) {
			toks = append(toks, "U=cwd:"+f)
		}
	}
	return toks
}

func startChildCollect(cmd *exec.Cmd, stderrp *bytes.Buffer, o childOpts, out, tr, fg string) func() childRes {
	stderr := stderrp
	done := make(chan error, 1)
	go func() { done <- cmd.Wait() }()
	deadline := time.After(12 * time.Second) // from the start of the child
	return func() childRes {
		readTrace := func() []string {
			b, err := os.ReadFile(tr)
			if err != nil || len(b) == 0 {
				return nil
			}
			return strings.Split(string(b), "\n")
		}
		tick := time.NewTicker(time.Millisecond)
		defer tick.Stop()
		for {
			select {
			case err := <-done:
				if ee, ok := err.(*exec.ExitError); ok {
					if ee.ExitCode() == exitCrash {
						return childRes{Status: "crash", Trace: readTrace()}
					}
					return childRes{Status: fmt.Sprintf("fail exit %d: %s", ee.ExitCode(), tailStr(stderr.String(), 300)), Trace: readTrace()}
				}
				b, rerr := os.ReadFile(out)
				if rerr != nil {
					return childRes{Status: "fail no outcome: " + tailStr(stderr.String(), 300), Trace: readTrace()}
				}
				return childRes{Status: string(b), Trace: readTrace()}
			case <-tick.C:
				if o.Stall != "" {
					if _, err := os.Stat(fg); err == nil {
						cmd.Process.Kill()
						<-done
						return childRes{Status: "killed", Trace: readTrace()}
					}
				}
			case <-deadline:
				// a build that does not finish: ask the Go runtime for the goroutine stacks, then kill
				cmd.Process.Signal(syscall.SIGQUIT)
				select {
				case <-done:
				case <-time.After(3 * time.Second):
					cmd.Process.Kill()
					<-done
				}
				dump := stderr.String()
				if f := os.Getenv("VERIF_CACHE_HANGDUMP"); f != "" {
					os.WriteFile(f, []byte(dump), 0o644)
				}
				if len(dump) > 4000 {
					dump = dump[:4000]
				}
				return childRes{Status: "fail timeout: " + dump, Trace: readTrace()}
			}
		}
	}
}

// cacheWaitPaused: true when child `id` stands at its pause marker, false when it finished without getting there
func cacheWaitPaused(scratch string, id int) bool {
	fg := filepath.Join(scratch, fmt.Sprintf("flag-%d", id))
	out := filepath.Join(scratch, fmt.Sprintf("out-%d", id))
	for i := 0; i < 12000; i++ {
		if _, err := os.Stat(fg); err == nil {
			return true
		}
		if _, err := os.Stat(out); err == nil {
			return false
		}
		time.Sleep(time.Millisecond)
	}
	return false
}

func cacheRelease(scratch string, id int) {
	os.WriteFile(filepath.Join(scratch, fmt.Sprintf("go-%d", id)), []byte("go"), 0o644)
}

func tailStr(s string, n int) string {
	if len(s) > n {
		return s[len(s)-n:]
	}
	return s
}

// ---- abstraction of a cache directory ----

type cacheKnown struct {
	nameCid    map[string]int    // advertised file name (base name) -> content id its name identifies
	contentCid map[[32]byte]int  // sha256(content) -> content id
	contents   map[int][]byte    // content id -> bytes (for prefix tests)
}

func newCacheKnown() *cacheKnown {
	return &cacheKnown{nameCid: map[string]int{}, contentCid: map[[32]byte]int{}, contents: map[int][]byte{}}
}

func (k *cacheKnown) addContent(cid int, b []byte) {
	k.contentCid[sha256.Sum256(b)] = cid
	k.contents[cid] = b
}

func gunzipAll(b []byte) []byte {
	zr, err := gzip.NewReader(bytes.NewReader(b))
	if err != nil {
		return nil
	}
	o, _ := io.ReadAll(zr)
	return o
}

// cacheApkSig: the signature member of a signed apk (what precedes the control member), nil for an unsigned one
func cacheApkSig(a builtApk) []byte {
	n := len(a.bytes) - len(a.control) - len(a.data)
	if n <= 0 {
		return nil
	}
	return a.bytes[:n]
}

// addApk registers the sections of one apk under content ids k1 (control), k1+1 (data), k1+2 (tar) and,
// for a signed apk, k1+3 (signature; advertised under the control section's hash).
func (k *cacheKnown) addApk(a builtApk, k1 int) {
	if sig := cacheApkSig(a); len(sig) > 0 {
		k.addContent(k1+3, sig)
		k.nameCid[hex.EncodeToString(a.checksum)+".sig.tar.gz"] = k1 + 3
	}
	k.addContent(k1, a.control)
	k.addContent(k1+1, a.data)
	k.addContent(k1+2, gunzipAll(a.data))
	k.nameCid[hex.EncodeToString(a.checksum)+".ctl.tar.gz"] = k1
	k.nameCid[hex.EncodeToString(a.dataHash)+".dat.tar.gz"] = k1 + 1
	k.nameCid[hex.EncodeToString(a.dataHash)+".dat.tar"] = k1 + 2
}

func (k *cacheKnown) addIndex(body []byte, cid int) {
	k.addContent(cid, body)
	k.nameCid[base32.StdEncoding.EncodeToString([]byte(indexEtag(body)))+".tar.gz"] = cid
}

func (k *cacheKnown) classify(b []byte) string {
	if cid, ok := k.contentCid[sha256.Sum256(b)]; ok {
		return fmt.Sprintf("F%d", cid)
	}
	for _, c := range k.contents {
		if len(b) < len(c) && bytes.Equal(c[:len(b)], b) {
			return "P"
		}
	}
	return "X"
}

// abstractCache: sorted tokens `A<cid>=<L|R><F<cid>|P|X|D>` for final names, `T=<F<cid>|P|X>` for temp
// files (APKINDEX/*.tmp, expand-apk*/stream-*, <pkg>/*.dat.tar.*.tmp), `U=<name>` for anything else.
func abstractCache(dir string, k *cacheKnown) string {
	var toks []string
	filepath.WalkDir(dir, func(p string, d fs.DirEntry, err error) error {
		if err != nil || d.IsDir() {
			return nil
		}
		base := filepath.Base(p)
		parent := filepath.Base(filepath.Dir(p))
		li, err := os.Lstat(p)
		if err != nil {
			return nil
		}
		isLink := li.Mode()&os.ModeSymlink != 0
		desc := ""
		if b, err := os.ReadFile(p); err != nil {
			desc = "D"
		} else {
			desc = k.classify(b)
		}
		switch {
		case strings.HasPrefix(parent, "expand-apk") || strings.HasSuffix(base, ".tmp"):
			if isLink {
				toks = append(toks, "U=link:"+base)
			} else {
				toks = append(toks, "T="+desc)
			}
		default:
			cid, ok := k.nameCid[base]
			kind := "R"
			if isLink {
				kind = "L"
			}
			if ok && desc != "D" {
				// the content this name identifies, when that is what the file holds (byte-identical sections
				// of two apks have two content ids)
				if b, err := os.ReadFile(p); err == nil && bytes.Equal(b, k.contents[cid]) {
					desc = fmt.Sprintf("F%d", cid)
				}
			}
			if ok {
				toks = append(toks, fmt.Sprintf("A%d=%s%s", cid, kind, desc))
			} else {
				toks = append(toks, "U="+base)
			}
		}
		return nil
	})
	sort.Strings(toks)
	return strings.Join(toks, ",")
}
