package main

// HISTORIES over ONE build.NewMultiArch value (C14, suite glue-avail): k rounds of resolution with repository
// updates between the rounds.  An update rewrites one architecture's index of one repository — a build withdrawn, a
// newer build published, a build the siblings already carry published here as well, the identical content published
// again, the original content restored.  File repositories are rewritten with a strictly later mtime; HTTP
// repositories answer with the ETag of the new body (the same ETag as before when the bytes are the same) or with no
// ETag at all.  A round resolves either architecture after architecture through `Contexts[arch].BuildPackageList`
// in a given order (every permutation is generated; the architecture whose repository did NOT change first is the
// interesting one; repeats and omissions occur) or through `BuildPackageLists` (one goroutine per architecture).
//
// Oracle per answer, as for a single invocation: op `g.avail` over the family AS PUBLISHED AT THAT ROUND — the
// driver resolves the current state from scratch (what a fresh process answers for that state; `round_history_free`
// in Proofs/Lemmas/GlueRounds.lean says the round model has no other answer) and the availability oracle is
// evaluated on Go's answer against the current state of every sibling.
//
// The HEAD memo of a shared `apk.Cache` (apk.NewCache(true)) freezes what an HTTP URL is taken to hold for the
// lifetime of the cache object — documented behaviour ("we usually don't want remote indexes to change while we're
// running") — so histories over HTTP repositories hand the build apk.NewCache(false).

import (
	"context"
	"fmt"
	"os"
	"path/filepath"
	"strings"
	"time"

	"chainguard.dev/apko/pkg/apk/apk"
	"chainguard.dev/apko/pkg/build"
	"chainguard.dev/apko/pkg/build/types"
)

type glueUpdate struct {
	Arch int    `json:"arch"`
	Repo int    `json:"repo"`
	Kind string `json:"kind"` // what the generator did (for the description only)
	Pkgs []rPkg `json:"pkgs"` // the index of that repository for that architecture from now on
}

type glueRound struct {
	Updates []glueUpdate `json:"updates,omitempty"` // published before the round
	// architecture positions resolved one after the other through Contexts[arch].BuildPackageList;
	// empty = MultiArch.BuildPackageLists
	Order []int `json:"order,omitempty"`
	Cold  bool  `json:"cold,omitempty"` // the process-wide caches are emptied before the round
}

func glueCopyArchs(in []rArch) []rArch {
	out := make([]rArch, len(in))
	for k, a := range in {
		out[k] = rArch{Arch: a.Arch, Indexes: append([]rIndex(nil), a.Indexes...)}
	}
	return out
}

// glueGenHistory turns a multi-architecture case into a history over one MultiArch value
func glueGenHistory(r *Rng, c *glueCase) {
	c.Mode = "hist"
	c.Big, c.BigArch, c.Cold = 0, 0, nil
	c.Cache = ""
	for _, rp := range c.Repos {
		if rp.HTTP {
			c.Cache = "noshare"
		}
	}
	n := len(c.Archs)
	world := append(append([]string(nil), c.Packages...), c.Extra...)
	order := func(updated map[int]bool) []int {
		if r.Chance(35) {
			return nil
		}
		perm := make([]int, n)
		for i := range perm {
			perm[i] = i
		}
		r.Shuffle(n, func(a, b int) { perm[a], perm[b] = perm[b], perm[a] })
		if len(updated) > 0 && r.Chance(65) {
			// the architectures whose repositories did not change go first
			var first, last []int
			for _, k := range perm {
				if updated[k] {
					last = append(last, k)
				} else {
					first = append(first, k)
				}
			}
			perm = append(first, last...)
		}
		switch {
		case r.Chance(12):
			perm = append(perm, perm[r.Intn(n)]) // one architecture asked twice
		case r.Chance(8) && n > 2:
			perm = perm[:n-1] // one architecture not asked in this round
		}
		return perm
	}
	cur := glueCopyArchs(c.Archs)
	c.Hist = []glueRound{{Order: order(nil)}}
	rounds := r.Range(1, 3)
	if r.Chance(6) {
		rounds = r.Range(4, 5)
	}
	for rd := 0; rd < rounds; rd++ {
		round := glueRound{Cold: r.Chance(15)}
		updated := map[int]bool{}
		nu := 1
		if r.Chance(25) {
			nu = 2
		}
		if r.Chance(10) {
			nu = 0 // nothing is published: same mtime, same ETag
		}
		for u := 0; u < nu; u++ {
			if up, ok := glueGenUpdate(r, c, cur, world); ok {
				cur[up.Arch].Indexes[up.Repo].Pkgs = up.Pkgs
				round.Updates = append(round.Updates, up)
				updated[up.Arch] = true
			}
		}
		round.Order = order(updated)
		c.Hist = append(c.Hist, round)
	}
}

// glueGenUpdate: one index rewritten
func glueGenUpdate(r *Rng, c *glueCase, cur []rArch, world []string) (glueUpdate, bool) {
	k := r.Intn(len(cur))
	names := map[string]bool{}
	for _, e := range world {
		names[glueConstraintName(e)] = true
	}
	elsewhere := func(p rPkg) bool {
		for j, a := range cur {
			if j == k {
				continue
			}
			for _, ix := range a.Indexes {
				for _, q := range ix.Pkgs {
					if q.Name == p.Name && q.Version == p.Version {
						return true
					}
				}
			}
		}
		return false
	}
	kind := Pick(r, []string{"withdraw", "withdraw", "withdraw", "withdraw", "publish-newer", "publish-sibling-build", "same-content", "restore"})
	switch kind {
	case "withdraw":
		// a build the siblings carry as well disappears here; preferably the newest build of a package the world names
		type at struct{ i, j int }
		var best, any []at
		for i, ix := range cur[k].Indexes {
			for j, p := range ix.Pkgs {
				if !elsewhere(p) {
					continue
				}
				any = append(any, at{i, j})
				if !names[p.Name] {
					continue
				}
				newest := true
				for _, ix2 := range cur[k].Indexes {
					for _, q := range ix2.Pkgs {
						if q.Name == p.Name && glueVerCmp(q.Version, p.Version) > 0 && elsewhere(q) {
							newest = false
						}
					}
				}
				if newest {
					best = append(best, at{i, j})
				}
			}
		}
		pool := any
		if len(best) > 0 && r.Chance(75) {
			pool = best
		}
		if len(pool) == 0 {
			return glueUpdate{}, false
		}
		a := Pick(r, pool)
		old := cur[k].Indexes[a.i].Pkgs
		pkgs := append(append([]rPkg(nil), old[:a.j]...), old[a.j+1:]...)
		return glueUpdate{Arch: k, Repo: a.i, Kind: kind + ":" + old[a.j].Name + "-" + old[a.j].Version, Pkgs: pkgs}, true
	case "publish-newer":
		// a build newer than everything, here only
		var cands [][2]int
		for i, ix := range cur[k].Indexes {
			for j, p := range ix.Pkgs {
				if names[p.Name] || r.Chance(10) {
					cands = append(cands, [2]int{i, j})
				}
			}
		}
		if len(cands) == 0 {
			return glueUpdate{}, false
		}
		a := Pick(r, cands)
		q := cur[k].Indexes[a[0]].Pkgs[a[1]]
		q.Version = "9.9-r" + fmt.Sprint(r.Intn(3))
		for _, p := range cur[k].Indexes[a[0]].Pkgs {
			if p.Name == q.Name && p.Version == q.Version {
				return glueUpdate{}, false
			}
		}
		pkgs := append(append([]rPkg(nil), cur[k].Indexes[a[0]].Pkgs...), q)
		return glueUpdate{Arch: k, Repo: a[0], Kind: kind + ":" + q.Name + "-" + q.Version, Pkgs: pkgs}, true
	case "publish-sibling-build":
		// a build a sibling carries and this architecture lacks is published here as well
		for _, j := range shuffled(r, len(cur)) {
			if j == k {
				continue
			}
			for i, ix := range cur[j].Indexes {
				if i >= len(cur[k].Indexes) {
					continue
				}
				for _, p := range ix.Pkgs {
					have := false
					for _, q := range cur[k].Indexes[i].Pkgs {
						if q.Name == p.Name && q.Version == p.Version {
							have = true
						}
					}
					if !have && (names[p.Name] || r.Chance(30)) {
						pkgs := append(append([]rPkg(nil), cur[k].Indexes[i].Pkgs...), p)
						return glueUpdate{Arch: k, Repo: i, Kind: kind + ":" + p.Name + "-" + p.Version, Pkgs: pkgs}, true
					}
				}
			}
		}
		return glueUpdate{}, false
	case "restore":
		i := r.Intn(len(cur[k].Indexes))
		return glueUpdate{Arch: k, Repo: i, Kind: kind, Pkgs: c.Archs[k].Indexes[i].Pkgs}, true
	default:
		i := r.Intn(len(cur[k].Indexes))
		return glueUpdate{Arch: k, Repo: i, Kind: kind, Pkgs: cur[k].Indexes[i].Pkgs}, true
	}
}

func shuffled(r *Rng, n int) []int {
	p := make([]int, n)
	for i := range p {
		p[i] = i
	}
	r.Shuffle(n, func(a, b int) { p[a], p[b] = p[b], p[a] })
	return p
}

// publish: the index of repository `repo` for architecture position k from now on
func (e *glueEnv) publish(c glueCase, k, repo int, pkgs []rPkg, mtime time.Time) error {
	a := c.Archs[k]
	b := glueIndexBytes(a.Arch, repo, pkgs, 0)
	if c.Repos[repo].HTTP {
		hn := fmt.Sprintf("r%02d.test", repo)
		e.tr.mu.Lock()
		h := e.tr.hosts[hn]
		e.tr.mu.Unlock()
		h.files["/repo/"+a.Arch+"/APKINDEX.tar.gz"] = b
		return nil
	}
	line := glueLine(c, e.work, repo)
	loc := line[strings.LastIndex(line, " ")+1:]
	f := filepath.Join(loc, a.Arch, "APKINDEX.tar.gz")
	// the way a repository is regenerated: a new file moved into place
	if err := os.WriteFile(f+".new", b, 0o644); err != nil {
		return err
	}
	if err := os.Chtimes(f+".new", mtime, mtime); err != nil {
		return err
	}
	return os.Rename(f+".new", f)
}

// glueRunHistory: the rounds of c.Hist on ONE MultiArch value; one step per answer
func (s glueSuite) runHistory(c glueCase, env *glueEnv) []Step {
	ctx := context.Background()
	op := map[string]string{"glue-resolve": "g.resolve", "glue-pure": "g.corr", "glue-avail": "g.avail"}[s.name]
	apk.VerifResetGlobalCaches()
	ic, archs := env.config(c)
	mc, err := build.NewMultiArch(ctx, archs, append([]build.Option{build.WithImageConfiguration(ic)}, env.options(c, false)...)...)
	if err != nil {
		return []Step{{Line: "x.robust\tglue-history", Go: "err*", Mode: "oracle-go", GoSpec: "pass", NoImpl: true, Trivial: true, Desc: "NewMultiArch failed: " + err.Error(), Tags: []string{"glue:history-setup-error"}}}
	}
	var lines []string
	for _, w := range env.written {
		lines = append(lines, w.norm)
	}
	cur := c
	cur.Archs = glueCopyArchs(c.Archs)
	base := time.Now().Add(time.Minute).Truncate(time.Second)
	tagsBase := append(glueTags(c), fmt.Sprintf("history:rounds-%d", len(c.Hist)))
	var steps []Step
	var told []string
	for rd, round := range c.Hist {
		for _, up := range round.Updates {
			if up.Arch >= len(cur.Archs) || up.Repo >= len(cur.Archs[up.Arch].Indexes) {
				continue
			}
			cur.Archs[up.Arch].Indexes[up.Repo].Pkgs = up.Pkgs
			if err := env.publish(cur, up.Arch, up.Repo, up.Pkgs, base.Add(time.Duration(rd)*time.Minute)); err != nil {
				return append(steps, Step{Line: "x.robust\tglue-history", Go: "setup-error: " + err.Error(), Mode: "oracle-go", GoSpec: "pass", NoImpl: true, Trivial: true, Desc: "publishing an update failed", Tags: []string{"glue:setup-error"}})
			}
			told = append(told, fmt.Sprintf("before round %d: %s repository #%d %s", rd, cur.Archs[up.Arch].Arch, up.Repo, up.Kind))
		}
		if round.Cold {
			apk.VerifResetGlobalCaches()
		}
		family := glueFamily(cur, env)
		famEnc := encodeArchs(family)
		answers := map[int][]string{} // architecture position -> the answers of this round (asked twice: two answers)
		var asked []int
		how := "BuildPackageLists"
		if len(round.Order) == 0 {
			lists, err := mc.BuildPackageLists(ctx)
			for k, arch := range archs {
				asked = append(asked, k)
				switch {
				case err != nil:
					answers[k] = []string{"err*"}
				case lists[arch] == nil && len(lists) < len(archs):
					answers[k] = []string{"missing-architecture"}
				default:
					answers[k] = []string{env.showList(cur, k, lists[arch], nil)}
				}
			}
		} else {
			how = fmt.Sprintf("Contexts[arch].BuildPackageList in the order %v", glueArchNames(cur, round.Order))
			for _, k := range round.Order {
				if k >= len(archs) {
					continue
				}
				if _, ok := answers[k]; !ok {
					asked = append(asked, k)
				}
				pkgs, conflicts, err := mc.Contexts[archs[k]].BuildPackageList(ctx)
				if err != nil {
					answers[k] = append(answers[k], "err")
				} else {
					answers[k] = append(answers[k], env.showList(cur, k, pkgs, conflicts))
				}
			}
		}
		for _, k := range asked {
			for _, out := range answers[k] {
				desc := fmt.Sprintf("HISTORY on one NewMultiArch value, round %d of %d via %s; updates so far: %s; state at this round: %s",
					rd, len(c.Hist)-1, how, strings.Join(told, "; "), glueDescribe(cur, env, k))
				if len(desc) > 3000 {
					desc = desc[:3000] + "…"
				}
				fields := append([]string{op, xl(c.Packages), xl(c.Extra), xl(lines), xs(cur.Archs[k].Arch)}, famEnc...)
				fields = append(fields, out)
				tags := append(append([]string(nil), tagsBase...), "glue:"+strings.SplitN(out, " ", 2)[0], fmt.Sprintf("history:round-%d", min(rd, 4)))
				if len(round.Order) == 0 {
					tags = append(tags, "history:goroutines")
				} else {
					tags = append(tags, "history:arch-after-arch")
				}
				for _, up := range round.Updates {
					tags = append(tags, "history:update-"+strings.SplitN(up.Kind, ":", 2)[0])
					if len(round.Order) > 0 && round.Order[0] != up.Arch {
						tags = append(tags, "history:unchanged-arch-first")
					}
				}
				if len(round.Updates) == 0 && rd > 0 {
					tags = append(tags, "history:no-update")
				}
				steps = append(steps, Step{Line: strings.Join(fields, "\t"), Go: out, Mode: "verdict", Trivial: strings.HasPrefix(out, "err"), Desc: desc, Tags: tags})
			}
		}
	}
	return steps
}

func glueArchNames(c glueCase, order []int) []string {
	out := make([]string, 0, len(order))
	for _, k := range order {
		if k < len(c.Archs) {
			out = append(out, c.Archs[k].Arch)
		}
	}
	return out
}

var _ = types.ParseArchitecture
