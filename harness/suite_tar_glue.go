package main

// End-to-end additions to corr:tar (C06) for what sits between the anchored functions and the command line:
//
//   * tarGlueReposStep — the layer is serialised from the file system as BuildLayer LEAVES it: the emitted
//     etc/apk/repositories equals the file of the built file system after BuildLayer has returned and lists exactly
//     the runtime repositories (a repository used at build time only must not show up);
//   * kind "multi" — a whole multi-architecture `apko build` (cli.BuildCmd, one temp dir shared by the per-architecture
//     build contexts, as the command line does), both 32-bit arm variants included: for every architecture every layer
//     blob of the emitted layout has the advertised size, hashes to the advertised digest, gunzips to the advertised
//     diff-id, and holds the file system built for that architecture.

import (
	"archive/tar"
	"bytes"
	"fmt"
	"io"
	"sort"
	"strings"

	apkfs "chainguard.dev/apko/pkg/apk/fs"
)

func tarGlueReposStep(rawLayer []byte, built apkfs.FullFS, runtimeRepos []string, desc string) Step {
	const name = "etc/apk/repositories"
	inLayer, found := "", false
	tr := tar.NewReader(bytes.NewReader(rawLayer))
	for {
		h, err := tr.Next()
		if err != nil {
			break
		}
		if strings.TrimPrefix(h.Name, "/") == name && h.Typeflag == tar.TypeReg {
			b, _ := io.ReadAll(tr)
			inLayer, found = string(b), true
		}
	}
	var probs []string
	if !found {
		probs = append(probs, name+" is not in the layer")
	}
	inFS, err := built.ReadFile(name)
	if err != nil {
		probs = append(probs, name+" cannot be read from the built file system: "+err.Error())
	} else if found && string(inFS) != inLayer {
		probs = append(probs, fmt.Sprintf("%s: the layer says %q, the file system left behind by BuildLayer says %q", name, inLayer, string(inFS)))
	}
	if found {
		want := map[string]bool{}
		for _, r := range runtimeRepos {
			want[r] = true
		}
		got := map[string]int{}
		for _, l := range strings.Split(inLayer, "\n") {
			if l != "" {
				got[l]++
			}
		}
		for l, n := range got {
			if !want[l] {
				probs = append(probs, fmt.Sprintf("%s in the layer lists %q, which is not a runtime repository", name, l))
			} else if n > 1 {
				probs = append(probs, fmt.Sprintf("%s in the layer lists %q %d times", name, l, n))
			}
		}
		for r := range want {
			if got[r] == 0 {
				probs = append(probs, fmt.Sprintf("%s in the layer does not list the runtime repository %q", name, r))
			}
		}
	}
	sort.Strings(probs)
	return Step{Line: "tar.digest\trepositories", Go: "-", Mode: "oracle-go", NoImpl: true, GoSpec: verdict(probs),
		Desc: "etc/apk/repositories of the layer = of the built file system = the runtime repositories; " + desc,
		Tags: []string{"e2e:repositories:" + strings.SplitN(verdict(probs), ":", 2)[0]}}
}

func genTarGlueMultiCase(r *Rng) tarCase {
	img := genImageCase(r)
	switch r.Intn(6) {
	case 0, 1, 2:
		gluelayerSetArchs(r, &img, []string{"armv7", "armhf"})
	case 3:
		gluelayerSetArchs(r, &img, []string{"x86_64", "armhf", "armv7"})
	case 4:
		gluelayerSetArchs(r, &img, []string{"aarch64", "x86_64"})
	default:
		gluelayerSetArchs(r, &img, []string{"armhf", "aarch64", "armv7", "riscv64"})
	}
	img.SBOM = false
	if r.Chance(70) {
		img.IC.Layering = nil
	}
	return tarCase{Kind: "multi", Img: &img}
}

func runTarGlueMultiCase(c tarCase) []Step {
	img := c.Img
	repo := BuildSynthRepo(img.Pkgs, img.Archs)
	desc := fmt.Sprintf("multi-architecture apko build archs=%v world=%v layering=%v (%d packages)", img.Archs, img.IC.Contents.Packages, img.IC.Layering != nil, len(img.Pkgs))
	out := e2eBuild(img.IC, repo, E2EOpts{Archs: img.Archs})
	tags := []string{"multi", fmt.Sprintf("multi:archs:%d", len(img.Archs))}
	if contains(img.Archs, "armv7") && contains(img.Archs, "armhf") {
		tags = append(tags, "multi:both-arm-variants")
	}
	if out.Err != nil {
		return []Step{{Line: "tar.digest\tmulti", Go: "build-error", Desc: desc + ": " + firstLine(out.Err.Error()), Mode: "oracle-go", GoSpec: "pass", NoImpl: true,
			Tags: append(tags, "multi:build-error"), Trivial: true}}
	}
	idx, ok := out.Files["layout/index.json"]
	if !ok {
		return []Step{{Line: "tar.digest\tmulti", Go: "-", Desc: desc, Mode: "oracle-go", GoSpec: "fail:no index.json in the layout", NoImpl: true, Tags: tags}}
	}
	imgs, ip := gluelayerReadIndex(idx, gluelayerLayoutBlob(out.Files))
	steps := []Step{}
	archProbs := append(ip, gluelayerCheckArchs(imgs, img.Archs)...)
	for _, a := range img.Archs {
		im := gluelayerImageOf(imgs, a)
		var probs []string
		if im == nil {
			probs = []string{"no image for " + a}
		} else {
			for _, p := range im.Problems {
				if strings.HasPrefix(p, "layer ") {
					probs = append(probs, p)
				}
			}
			for _, p := range archProbs {
				if strings.Contains(p, "published as "+im.Plat+" ") {
					probs = append(probs, p)
				}
			}
		}
		nl := 0
		if im != nil {
			nl = len(im.Blobs)
		}
		steps = append(steps, Step{Line: "tar.digest\tmulti-" + a, Go: "-", Mode: "oracle-go", NoImpl: true, GoSpec: verdict(probs),
			Desc: fmt.Sprintf("%s: the %d layer blob(s) of %s re-hashed against descriptor digest, size and config diff-id; etc/apk/arch", desc, nl, a),
			Tags: append(append([]string(nil), tags...), "multi:"+strings.SplitN(verdict(probs), ":", 2)[0])})
	}
	return steps
}
