package main

// corr:retry-e2e, kind "inst" (C20): the whole of APK.InstallPackages over a network with faults — the caller that apko
// build / publish use. A download that fails (retries used up, refused resumption) must make InstallPackages RETURN an
// error; a download that succeeds — at once or after resumptions — must install exactly the package's bytes. The
// operation never hangs (the engine's watchdog is the last resort; the step has its own, shorter one).

import (
	"context"
	"fmt"
	"io"
	"net/http"
	"strconv"
	"strings"
	"sync"
	"time"

	"chainguard.dev/apko/pkg/apk/apk"
	apkfs "chainguard.dev/apko/pkg/apk/fs"
)

type instFault struct {
	Kind string `json:"kind"` // cut | conn | status
	At   int    `json:"at,omitempty"`
	Code int    `json:"code,omitempty"`
}

type instPkg struct {
	Name    string      `json:"name"`
	Content string      `json:"content"`
	Faults  []instFault `json:"faults,omitempty"` // applied to the successive connections for this package's URL
}

type instNet struct {
	mu    sync.Mutex
	files map[string][]byte
	left  map[string][]instFault
	reqs  int
}

type instBody struct {
	data []byte
	err  error
}

func (b *instBody) Read(p []byte) (int, error) {
	if len(b.data) == 0 {
		if b.err != nil {
			return 0, b.err
		}
		return 0, io.EOF
	}
	n := copy(p, b.data)
	b.data = b.data[n:]
	return n, nil
}
func (b *instBody) Close() error { return nil }

func (t *instNet) RoundTrip(req *http.Request) (*http.Response, error) {
	t.mu.Lock()
	defer t.mu.Unlock()
	t.reqs++
	data, ok := t.files[req.URL.Path]
	if !ok {
		return &http.Response{StatusCode: 404, Status: "404 Not Found", Proto: "HTTP/1.1", ProtoMajor: 1, ProtoMinor: 1, Header: http.Header{}, Body: http.NoBody, Request: req}, nil
	}
	from := 0
	if r := req.Header.Get("Range"); strings.HasPrefix(r, "bytes=") && strings.HasSuffix(r, "-") {
		if n, err := strconv.Atoi(strings.TrimSuffix(strings.TrimPrefix(r, "bytes="), "-")); err == nil && n <= len(data) {
			from = n
		}
	}
	var f *instFault
	if l := t.left[req.URL.Path]; len(l) > 0 {
		f = &l[0]
		t.left[req.URL.Path] = l[1:]
	}
	code, status := 200, "200 OK"
	if from > 0 {
		code, status = 206, "206 Partial Content"
	}
	body := &instBody{data: data[from:]}
	if f != nil {
		switch f.Kind {
		case "conn":
			return nil, fmt.Errorf("connection reset by peer")
		case "status":
			return &http.Response{StatusCode: f.Code, Status: strconv.Itoa(f.Code) + " fault", Proto: "HTTP/1.1", ProtoMajor: 1, ProtoMinor: 1, Header: http.Header{}, Body: http.NoBody, Request: req}, nil
		case "cut":
			n := f.At
			if n > len(body.data) {
				n = len(body.data)
			}
			body = &instBody{data: body.data[:n], err: io.ErrUnexpectedEOF}
		}
	}
	h := http.Header{}
	h.Set("Content-Length", strconv.Itoa(len(data)-from))
	return &http.Response{StatusCode: code, Status: status, Proto: "HTTP/1.1", ProtoMajor: 1, ProtoMinor: 1, Header: h, Body: body, ContentLength: int64(len(data) - from), Request: req}, nil
}

func genInstCase(r *Rng) []instPkg {
	n := 2 + r.Intn(2)
	var out []instPkg
	for k := 0; k < n; k++ {
		p := instPkg{Name: fmt.Sprintf("ipkg%d", k), Content: strings.Repeat(fmt.Sprintf("content of package %d / ", k), 1+r.Intn(40))}
		if r.Chance(55) {
			for j := r.Intn(6); j > 0; j-- {
				switch r.Intn(4) {
				case 0:
					p.Faults = append(p.Faults, instFault{Kind: "conn"})
				case 1:
					p.Faults = append(p.Faults, instFault{Kind: "status", Code: Pick(r, []int{500, 503, 403, 404, 416})})
				default:
					p.Faults = append(p.Faults, instFault{Kind: "cut", At: Pick(r, []int{0, 0, 1, 7, 64, 300})})
				}
			}
		}
		out = append(out, p)
	}
	return out
}

func instRun(pkgs []instPkg) []Step {
	net := &instNet{files: map[string][]byte{}, left: map[string][]instFault{}}
	repo := apk.Repository{URI: "http://repo.test/os/x86_64"}
	var ips []apk.InstallablePackage
	faults := 0
	var descs []string
	for _, p := range pkgs {
		sp := SPkg{Name: p.Name, Version: "1.0-r0", Files: []SFile{{Path: "usr", Type: "dir", Mode: 0o755}, {Path: "usr/" + p.Name, Type: "file", Mode: 0o644, Content: p.Content}}}
		b := buildApk(sp, "x86_64")
		path := "/os/x86_64/" + p.Name + "-1.0-r0.apk"
		net.files[path] = b.bytes
		net.left[path] = append([]instFault(nil), p.Faults...)
		faults += len(p.Faults)
		ips = append(ips, apk.NewRepositoryPackage(&apk.Package{Name: p.Name, Version: "1.0-r0", Arch: "x86_64", Checksum: b.checksum}, repo.WithIndex(&apk.APKIndex{})))
		descs = append(descs, fmt.Sprintf("%s(%d bytes, faults %v)", p.Name, len(b.bytes), p.Faults))
	}
	fsys := apkfs.NewMemFS()
	a, err := apk.New(apk.WithFS(fsys), apk.WithArch("x86_64"), apk.WithIgnoreMknodErrors(true))
	if err != nil {
		panic(err)
	}
	a.SetClient(&http.Client{Transport: net})
	ctx := context.Background()
	if err := a.InitDB(ctx); err != nil {
		panic(err)
	}
	apk.VerifResetGlobalCaches()
	type res struct{ err error }
	ch := make(chan res, 1)
	go func() {
		now := time.Unix(0, 0)
		_, e := a.InstallPackages(ctx, &now, ips)
		ch <- res{e}
	}()
	out, verdict := "", "pass"
	select {
	case r := <-ch:
		if r.err != nil {
			out = "err"
			if faults == 0 {
				verdict = "fail:error-without-any-fault:" + r.err.Error()
			}
		} else {
			out = "ok"
			for _, p := range pkgs {
				got, e := fsys.ReadFile("usr/" + p.Name)
				if e != nil || string(got) != p.Content {
					verdict = "fail:installed-bytes-differ:" + p.Name
				}
			}
		}
	case <-time.After(8 * time.Second):
		out, verdict = "hang", "fail:InstallPackages-did-not-return"
	}
	return []Step{{Line: "x.robust\tretry-install", Go: out, Mode: "oracle-go", NoImpl: true, GoSpec: verdict,
		Desc: "InstallPackages over a faulty network: " + strings.Join(descs, ", "),
		Tags: []string{"inst:" + out, fmt.Sprintf("inst-faults:%d", min(faults, 6)), fmt.Sprintf("inst-requests:%d", min(net.reqs, 12))}}}
}
