package main

// corr:oci-e2e, base-image cases (C12): `contents.baseimage` names an OCI layout on disk plus the installed database
// of the image in it; `apko build --lockfile` puts ONE new layer on top of the base image's layers.  The image mirrors
// the configuration only if the base is really underneath: the emitted manifest lists the base image's layers
// (same descriptors, same order) followed by the new layer, the config's diff-ids likewise, and the flattened file
// system holds the base image's files next to the newly installed package's.

import (
	"context"
	"fmt"
	"os"
	"path/filepath"
	"strings"

	"chainguard.dev/apko/pkg/build"
	"chainguard.dev/apko/pkg/build/types"
	"chainguard.dev/apko/pkg/verifapi"
)

func gluelayerGenBase(r *Rng) gluelayerOciCase {
	c := gluelayerOciCase{Base: true}
	c.Img.Archs = Pick(r, [][]string{{"x86_64"}, {"x86_64", "aarch64"}, {"aarch64"}, {"riscv64", "x86_64"}})
	n := r.Range(1, 3)
	for i := 0; i < n; i++ {
		name := fmt.Sprintf("gl-base-%c", 'a'+i)
		c.Img.Pkgs = append(c.Img.Pkgs, SPkg{Name: name, Version: "1.0-r0", Origin: name, BuildTime: 1600000000, Files: []SFile{
			{Path: "usr", Type: "dir", Mode: 0o755}, {Path: "usr/share", Type: "dir", Mode: 0o755}, {Path: "usr/share/" + name, Type: "dir", Mode: 0o755},
			{Path: "usr/share/" + name + "/data", Type: "file", Mode: 0o644, Content: genContent(r, name, 200)}}})
	}
	top := SPkg{Name: "gl-top", Version: "2.0-r1", Origin: "gl-top", BuildTime: 1650000000, Files: []SFile{
		{Path: "opt", Type: "dir", Mode: 0o755}, {Path: "opt/top", Type: "file", Mode: 0o755, Content: "#!/bin/sh\necho top\n"}}}
	if r.Bool() {
		top.Deps = []string{"gl-base-a"} // satisfied by the base image only
	}
	c.Img.Pkgs = append(c.Img.Pkgs, top)
	c.Img.IC.Contents.Packages = []string{"gl-top"}
	c.How = "contents.baseimage"
	return c
}

func gluelayerRunBase(c gluelayerOciCase) []Step {
	archs := c.Img.Archs
	desc := fmt.Sprintf("apko build --lockfile on top of contents.baseimage, archs=%v, base packages %d, top package deps %v", archs, len(c.Img.Pkgs)-1, c.Img.Pkgs[len(c.Img.Pkgs)-1].Deps)
	tags := []string{"base-image", fmt.Sprintf("archs:%d", len(archs))}
	trivial := func(why string, err error) []Step {
		return []Step{{Line: "oci.e2e-wf\tbase", Mode: "oracle-go", NoImpl: true, GoSpec: "pass", Trivial: true, Desc: desc + ": " + why + ": " + firstLine(err.Error()), Tags: append(tags, "base:"+why)}}
	}
	work, err := os.MkdirTemp("", "gluelayer-base-")
	if err != nil {
		panic(err)
	}
	defer os.RemoveAll(work)
	npk := len(c.Img.Pkgs)
	basePkgs, topPkg := c.Img.Pkgs[:npk-1], c.Img.Pkgs[npk-1]
	// 1. the base image, built by apko itself
	var baseIC types.ImageConfiguration
	for _, p := range basePkgs {
		baseIC.Contents.Packages = append(baseIC.Contents.Packages, p.Name)
	}
	baseOut := e2eBuild(baseIC, BuildSynthRepo(basePkgs, archs), E2EOpts{Archs: archs})
	if baseOut.Err != nil {
		return trivial("base-build-error", baseOut.Err)
	}
	baseDir := filepath.Join(work, "base")
	for n, b := range baseOut.Files {
		if rel, ok := strings.CutPrefix(n, "layout/"); ok {
			p := filepath.Join(baseDir, rel)
			os.MkdirAll(filepath.Dir(p), 0o755)
			if err := os.WriteFile(p, b, 0o644); err != nil {
				panic(err)
			}
		}
	}
	baseImgs, bp := gluelayerReadIndex(baseOut.Files["layout/index.json"], gluelayerLayoutBlob(baseOut.Files))
	if p := gluelayerAllProblems(baseImgs, bp); len(p) > 0 {
		return []Step{{Line: "oci.e2e-wf\tbase", Mode: "oracle-go", NoImpl: true, GoSpec: verdict(p), Desc: desc + ": the base image itself", Tags: tags}}
	}
	for _, a := range archs {
		im := gluelayerImageOf(baseImgs, a)
		if im == nil {
			panic("no base image for " + a)
		}
		fs, err := gluelayerFlatten(im)
		if err != nil {
			panic(err)
		}
		db, _ := gluelayerFile(fs, "lib/apk/db/installed")
		p := filepath.Join(baseDir, "metadata", a, "APKINDEX")
		os.MkdirAll(filepath.Dir(p), 0o755)
		if err := os.WriteFile(p, []byte(db), 0o644); err != nil {
			panic(err)
		}
	}
	// 2. the configuration on top, locked, built from the lock
	topRepo := BuildSynthRepo([]SPkg{topPkg}, archs)
	repoDir := filepath.Join(work, "toprepo")
	kp := topRepo.WriteTo(repoDir)
	ic := c.Img.IC
	ic.Contents.BaseImage = &types.BaseImageDescriptor{Image: baseDir, APKIndex: filepath.Join(baseDir, "metadata")}
	ic.Contents.RuntimeRepositories = []string{repoDir}
	ic.Contents.Keyring = []string{kp}
	var as []types.Architecture
	for _, a := range archs {
		as = append(as, types.ParseArchitecture(a))
	}
	ltmp := filepath.Join(work, "tmp-lock")
	os.MkdirAll(ltmp, 0o755)
	lockPath := filepath.Join(work, "apko.lock.json")
	if err := verifapi.LockCmd(context.Background(), lockPath, as, []build.Option{build.WithImageConfiguration(ic), build.WithTempDir(ltmp), build.WithSBOMFormats(nil)}); err != nil {
		return trivial("lock-error", err)
	}
	out := e2eBuildAt(ic, topRepo, repoDir, E2EOpts{Archs: archs, LockFile: lockPath})
	if out.Err != nil {
		return []Step{{Line: "oci.e2e-wf\tbase", Mode: "oracle-go", NoImpl: true, GoSpec: "fail:the configuration locks but does not build: " + firstLine(out.Err.Error()), Desc: desc, Tags: append(tags, "base:build-error")}}
	}
	imgs, ip := gluelayerReadIndex(out.Files["layout/index.json"], gluelayerLayoutBlob(out.Files))
	probs := gluelayerAllProblems(imgs, ip)
	probs = append(probs, gluelayerCheckArchs(imgs, archs)...)
	for _, a := range archs {
		im, bim := gluelayerImageOf(imgs, a), gluelayerImageOf(baseImgs, a)
		if im == nil {
			continue
		}
		nb := len(bim.Man.Layers)
		if len(im.Man.Layers) != nb+1 {
			probs = append(probs, fmt.Sprintf("%s: the base image has %d layer(s), the image built on top of it has %d (wanted %d)", a, nb, len(im.Man.Layers), nb+1))
		} else {
			for i, l := range bim.Man.Layers {
				if im.Man.Layers[i].Digest != l.Digest || im.Man.Layers[i].Size != l.Size {
					probs = append(probs, fmt.Sprintf("%s: layer %d is %s, the base image's layer %d is %s", a, i, im.Man.Layers[i].Digest, i, l.Digest))
				}
			}
			for i, d := range bim.Cfg.RootFS.DiffIDs {
				if i >= len(im.Cfg.RootFS.DiffIDs) || im.Cfg.RootFS.DiffIDs[i] != d {
					probs = append(probs, fmt.Sprintf("%s: diff-id %d differs from the base image's", a, i))
				}
			}
		}
		fs, err := gluelayerFlatten(im)
		if err != nil {
			continue
		}
		for _, p := range basePkgs {
			f := "usr/share/" + p.Name + "/data"
			if _, ok := gluelayerFile(fs, f); !ok {
				probs = append(probs, fmt.Sprintf("%s: %s of the base image is not in the image", a, f))
			}
		}
		if _, ok := gluelayerFile(fs, "opt/top"); !ok {
			probs = append(probs, a+": opt/top of the package installed on top is not in the image")
		}
		db, _ := gluelayerFile(fs, "lib/apk/db/installed")
		have := map[string]bool{}
		for _, p := range gluelayerInstalled(db) {
			have[p.Name] = true
		}
		for _, p := range c.Img.Pkgs {
			if !have[p.Name] {
				probs = append(probs, fmt.Sprintf("%s: the installed database of the image does not list %s", a, p.Name))
			}
		}
	}
	return []Step{{Line: "oci.e2e-wf\tbase", Mode: "oracle-go", NoImpl: true, GoSpec: verdict(probs),
		Desc: desc + ": the image = the base image's layers + one layer, descriptors re-hashed, base files and packages present", Tags: append(tags, "base:"+strings.SplitN(verdict(probs), ":", 2)[0])}}
}
