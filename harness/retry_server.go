package main

import (
	"encoding/hex"
	"errors"
	"fmt"
	"io"
	"net/http"
	"regexp"
	"strconv"
	"strings"
)

// Scripted in-process server + network for corr:retry (C20).  No sockets: an http.RoundTripper that
// answers from `data` the way the Lean model's honest server does (Apko.Retry.serve) and hands out
// response bodies that follow the fault script (Apko.Retry.Body.read).  Every request and every body
// Read is appended to the shared event log.

type rConn struct {
	Fail   bool   `json:"fail,omitempty"`
	Status int    `json:"status,omitempty"` // 0 = what the server kind answers by itself
	Page   string `json:"page,omitempty"`   // hex, body of an error response
	NoBody bool   `json:"nobody,omitempty"`
	Cut    int    `json:"cut"`              // -1 = the whole body arrives
	End    string `json:"end"`              // c | w | f
	Eager  bool   `json:"eager,omitempty"`
	Chunks []int  `json:"chunks,omitempty"`
}

func (c rConn) proto() string {
	b := func(x bool) string {
		if x {
			return "1"
		}
		return "0"
	}
	opt := func(x int, none int) string {
		if x == none {
			return "-"
		}
		return strconv.Itoa(x)
	}
	ch := make([]string, len(c.Chunks))
	for i, k := range c.Chunks {
		ch[i] = strconv.Itoa(k)
	}
	return strings.Join([]string{b(c.Fail), opt(c.Status, 0), c.Page, b(c.NoBody), opt(c.Cut, -1), c.End, b(c.Eager), strings.Join(ch, ".")}, ",")
}

var (
	errRetryClosed  = errors.New("http: read on closed response body")
	errRetryReset   = errors.New("read tcp: connection reset by peer")
	errRetryWrapped = fmt.Errorf("transport: stream ended: %w", io.EOF)
	errRetryDial    = errors.New("dial tcp: connection refused")
	rangeRe         = regexp.MustCompile(`^bytes=(0|[1-9][0-9]*)-$`)
)

type retryNet struct {
	data   []byte
	kind   string // h | i | e
	script []rConn
	next   int
	events []string
	// which error value a faulting stream returns (both are non-EOF errors; not part of the model)
	altFault bool
	// suite retry-e2e: the buffer size of every body Read, in order (the consumers inside apko choose them)
	logSizes bool
	sizes    []int
	// suite retry-e2e: the ETag the server sends with every answer ("" = none)
	etag string
}

func (s *retryNet) log(e string) { s.events = append(s.events, e) }

type retryBody struct {
	net    *retryNet
	rest   []byte
	end    string
	chunks []int
	eager  bool
	closed bool
}

func (s *retryNet) endErr(end string) (string, error) {
	switch end {
	case "c":
		return "be", io.EOF
	case "w":
		return "bw", errRetryWrapped
	default:
		if s.altFault {
			return "bf", errRetryReset
		}
		return "bf", io.ErrUnexpectedEOF
	}
}

func (b *retryBody) Read(p []byte) (int, error) {
	if b.net.logSizes {
		b.net.sizes = append(b.net.sizes, len(p))
	}
	if b.closed {
		b.net.log("bf")
		return 0, errRetryClosed
	}
	if len(b.rest) == 0 {
		ev, err := b.net.endErr(b.end)
		b.net.log(ev)
		return 0, err
	}
	limit := len(p)
	if len(b.chunks) > 0 {
		if c := b.chunks[0] + 1; c < limit {
			limit = c
		}
		b.chunks = b.chunks[1:]
	}
	if limit > len(b.rest) {
		limit = len(b.rest)
	}
	n := copy(p, b.rest[:limit])
	b.rest = b.rest[n:]
	if len(b.rest) == 0 && b.eager && n > 0 {
		ev, err := b.net.endErr(b.end)
		b.net.log(ev)
		return n, err
	}
	b.net.log("bo")
	return n, nil
}

func (b *retryBody) Close() error {
	b.closed = true
	return nil
}

func (s *retryNet) RoundTrip(req *http.Request) (*http.Response, error) {
	// the Range header as the server parses it: a malformed value is ignored (RFC 9110 §14.2)
	rng := -1
	if vals := req.Header.Values("Range"); len(vals) > 0 {
		if len(vals) == 1 {
			if m := rangeRe.FindStringSubmatch(vals[0]); m != nil {
				if v, err := strconv.Atoi(m[1]); err == nil {
					rng = v
				}
			}
		}
		if rng < 0 {
			s.log("q?" + hex.EncodeToString([]byte(strings.Join(vals, "|"))))
		} else {
			s.log("q" + strconv.Itoa(rng))
		}
	} else {
		s.log("q-")
	}
	if s.next >= len(s.script) {
		return nil, errRetryDial
	}
	c := s.script[s.next]
	s.next++
	if c.Fail {
		if s.altFault {
			return nil, io.EOF // what net/http reports when the server closes before answering
		}
		return nil, errRetryDial
	}
	code := c.Status
	if code == 0 {
		switch {
		case rng < 0:
			code = 200
		case s.kind == "i":
			code = 200
		case s.kind == "h":
			if rng < len(s.data) {
				code = 206
			} else {
				code = 416
			}
		default:
			code = 503
		}
	}
	var content []byte
	switch {
	case code == 200:
		content = s.data
	case code == 206 && rng >= 0:
		if rng < len(s.data) {
			content = s.data[rng:]
		}
	case code == 206:
		code, content = 200, s.data
	default:
		content, _ = hex.DecodeString(c.Page)
	}
	resp := &http.Response{
		StatusCode:    code,
		Status:        fmt.Sprintf("%d %s", code, http.StatusText(code)),
		Proto:         "HTTP/1.1",
		ProtoMajor:    1,
		ProtoMinor:    1,
		Header:        http.Header{},
		ContentLength: int64(len(content)),
		Request:       req,
	}
	if code == 206 {
		resp.Header.Set("Content-Range", fmt.Sprintf("bytes %d-%d/%d", rng, len(s.data)-1, len(s.data)))
	}
	if len(content) == 0 && c.NoBody {
		resp.Body = http.NoBody
		return resp, nil
	}
	rest := content
	if c.Cut >= 0 && c.Cut < len(rest) {
		rest = rest[:c.Cut]
		if c.End == "c" {
			// a stream that stops early and still ends cleanly: a close-delimited body (no Content-Length)
			// whose connection went away, or — every second time — a server that by now holds a shorter
			// file and says so.  The reader under test looks at neither.
			if s.altFault {
				resp.ContentLength = -1
				resp.Close = true
			} else {
				resp.ContentLength = int64(len(rest))
			}
		}
	}
	resp.Body = &retryBody{net: s, rest: append([]byte(nil), rest...), end: c.End, chunks: append([]int(nil), c.Chunks...), eager: c.Eager}
	return resp, nil
}
