package main

// Fault dimension of corr:tar / corr:tar-concurrent (C06): the context of the build becomes done WHILE the layer is
// written (a timeout, SIGINT, a failing sibling of an errgroup.WithContext).  The file system the layer is written
// from is wrapped: its k-th call (Stat / ReadDir / Open / Readlink / Readnod / ListXattrs / Lstat / ReadFile, which is
// what fs.WalkDir, the walkFS callback, the passwd readers and the body copy use) makes the context done, with
// context.Canceled or context.DeadlineExceeded; alternatively the context becomes done at its k-th Err() call.  Paths:
// Context.ImageLayoutToLayer (single layer), writeTar alone, splitLayers (several layers).  The context counts the
// Err() calls that still returned nil: that number is the model's coordinate of the fault (Model/TarCancel.lean).
//
// Oracle (evaluated in Lean on what the real code returned): the call returns an error, OR the layer(s) hold exactly
// the paths of the file system (and, for entry lists, pass the whole faithfulness oracle of tar.layer).

import (
	"archive/tar"
	"bytes"
	"context"
	"encoding/hex"
	"errors"
	"fmt"
	"io"
	"io/fs"
	"os"
	"path/filepath"
	"sort"
	"strings"
	"sync"
	"time"

	"chainguard.dev/apko/pkg/apk/apk"
	apkfs "chainguard.dev/apko/pkg/apk/fs"
	"chainguard.dev/apko/pkg/build"
)

type tarCancel struct {
	Path string `json:"path"` // single | writetar | multi
	At   string `json:"at"`   // fscall | check
	K    int    `json:"k"`
	Err  string `json:"err"` // canceled | deadline
}

// faultCtx is a context that becomes done when told to (or at its n-th Err() call) and counts its Err() calls.
type faultCtx struct {
	parent  context.Context
	mu      sync.Mutex
	done    chan struct{}
	fired   bool
	err     error
	live    int // Err() calls that returned nil
	atCheck int // fire at this Err() call (0-based); -1: only through fire()
}

func newFaultCtx(parent context.Context, kind string, atCheck int) *faultCtx {
	c := &faultCtx{parent: parent, done: make(chan struct{}), err: context.Canceled, atCheck: atCheck}
	if kind == "deadline" {
		c.err = context.DeadlineExceeded
	}
	return c
}

func (c *faultCtx) fire() {
	c.mu.Lock()
	defer c.mu.Unlock()
	if !c.fired {
		c.fired = true
		close(c.done)
	}
}

func (c *faultCtx) Deadline() (time.Time, bool) { return c.parent.Deadline() }
func (c *faultCtx) Done() <-chan struct{}       { return c.done }
func (c *faultCtx) Value(k any) any             { return c.parent.Value(k) }
func (c *faultCtx) Err() error {
	c.mu.Lock()
	defer c.mu.Unlock()
	if !c.fired && c.atCheck >= 0 && c.live >= c.atCheck {
		c.fired = true
		close(c.done)
	}
	if c.fired {
		return c.err
	}
	c.live++
	return nil
}

// liveToken: the model's coordinate of the fault
func (c *faultCtx) liveToken() string {
	c.mu.Lock()
	defer c.mu.Unlock()
	if !c.fired {
		return "never"
	}
	return fmt.Sprint(c.live)
}

// faultFS counts the read calls of the layer writer; the k-th (0-based) one fires.
type faultFS struct {
	apkfs.FullFS
	mu    sync.Mutex
	calls int
	k     int
	fire  func()
	hit   string
}

func (f *faultFS) tick(op, name string) {
	f.mu.Lock()
	n := f.calls
	f.calls++
	f.mu.Unlock()
	if n == f.k && f.fire != nil {
		f.hit = op
		f.fire()
	}
}

func (f *faultFS) Stat(p string) (fs.FileInfo, error)  { f.tick("stat", p); return f.FullFS.Stat(p) }
func (f *faultFS) Lstat(p string) (fs.FileInfo, error) { f.tick("lstat", p); return f.FullFS.Lstat(p) }
func (f *faultFS) Open(p string) (fs.File, error)      { f.tick("open", p); return f.FullFS.Open(p) }
func (f *faultFS) ReadFile(p string) ([]byte, error)   { f.tick("readfile", p); return f.FullFS.ReadFile(p) }
func (f *faultFS) ReadDir(p string) ([]fs.DirEntry, error) {
	f.tick("readdir", p)
	return f.FullFS.ReadDir(p)
}
func (f *faultFS) Readlink(p string) (string, error) { f.tick("readlink", p); return f.FullFS.Readlink(p) }
func (f *faultFS) Readnod(p string) (int, error)     { f.tick("readnod", p); return f.FullFS.Readnod(p) }
func (f *faultFS) ListXattrs(p string) (map[string][]byte, error) {
	f.tick("listxattrs", p)
	return f.FullFS.ListXattrs(p)
}

func tarCtxErrKind(err error) string {
	switch {
	case errors.Is(err, context.Canceled):
		return "canceled"
	case errors.Is(err, context.DeadlineExceeded):
		return "deadline"
	}
	return "other"
}

// tarWalkOrder: the paths of the file system in fs.WalkDir order (taken without any fault)
func tarWalkOrder(fsys apkfs.FullFS) []string {
	var out []string
	_ = fs.WalkDir(fsys, ".", func(p string, d fs.DirEntry, err error) error {
		if err != nil {
			return nil
		}
		if p != "." {
			out = append(out, p)
		}
		return nil
	})
	return out
}

func genTarCancel(r *Rng, nops int) *tarCancel {
	c := &tarCancel{Path: Pick(r, []string{"single", "single", "single", "writetar", "multi", "multi"}), At: "fscall", Err: Pick(r, []string{"canceled", "canceled", "deadline"})}
	if r.Chance(30) {
		c.At = "check"
		c.K = r.Intn(nops + 3)
	} else {
		c.K = r.Intn(3*nops + 6)
	}
	return c
}

// runTarCancel runs the chosen path of the layer writer on fsys under the fault and reports what came out.
func runTarCancel(backend string, fsys apkfs.FullFS, ops []fsOp, toks []string, fc *tarCancel, desc string) Step {
	dir := tarScratch()
	defer os.RemoveAll(dir)
	atCheck := -1
	if fc.At == "check" {
		atCheck = fc.K
	}
	ctx := newFaultCtx(tarCtx(), fc.Err, atCheck)
	ffs := &faultFS{FullFS: fsys, k: -1}
	if fc.At != "check" {
		ffs.k, ffs.fire = fc.K, ctx.fire
	}
	goOut := ""
	tags := []string{"cancel", "cancel:path:" + fc.Path, "cancel:at:" + fc.At, "cancel:kind:" + fc.Err, "backend:" + backend}
	var callErr error
	switch fc.Path {
	case "multi":
		// every package that owns an entry needs a layer of its own group (splitLayers panics otherwise)
		seen := map[string]bool{}
		var names []string
		for _, o := range ops {
			if o.K == "wh" && o.Hdr != nil && o.Hdr.Pkg != "" && !seen[o.Hdr.Pkg] {
				seen[o.Hdr.Pkg] = true
				names = append(names, o.Hdr.Pkg)
			}
		}
		sort.Strings(names)
		var groups [][]*apk.Package
		for i, n := range names {
			p := &apk.Package{Name: n}
			if i%2 == 0 || len(groups) == 0 {
				groups = append(groups, []*apk.Package{p})
			} else {
				groups[len(groups)-1] = append(groups[len(groups)-1], p)
			}
		}
		layers, err := build.VerifSplitLayers(ctx, ffs, groups, dir)
		callErr = err
		if err == nil {
			got := map[string]bool{}
			for _, l := range layers {
				rc, err := l.Uncompressed()
				if err != nil {
					panic(err)
				}
				tr := tar.NewReader(rc)
				for {
					h, err := tr.Next()
					if err == io.EOF {
						break
					}
					if err != nil {
						panic(fmt.Errorf("reading a layer splitLayers returned without error: %w", err))
					}
					got[h.Name] = true
				}
				rc.Close()
			}
			var ordered []string
			for _, p := range tarWalkOrder(fsys) {
				if got[p] {
					ordered = append(ordered, hx(p))
					delete(got, p)
				}
			}
			var extra []string
			for p := range got {
				extra = append(extra, hx(p))
			}
			sort.Strings(extra)
			goOut = "P:" + strings.Join(append(ordered, extra...), ";")
			tags = append(tags, fmt.Sprintf("cancel:layers:%d", len(layers)))
		}
	case "writetar":
		var b bytes.Buffer
		callErr = build.VerifWriteTar(ctx, &b, ffs)
		if callErr == nil {
			entries, _, err := tarReadEntries(b.Bytes())
			if err != nil {
				entries = "UNREADABLE:" + hex.EncodeToString([]byte(err.Error()))
			}
			goOut = "E:" + entries
		}
	default:
		path, layer, err := build.VerifLayerFromFS(ctx, ffs, filepath.Join(dir, "layer.tar.gz"))
		callErr = err
		if err == nil {
			file, err := os.ReadFile(path)
			if err != nil {
				panic(err)
			}
			dv, raw := tarDigestVerdict(layer, file, nil)
			entries, _, err := tarReadEntries(raw)
			if err != nil {
				entries = "UNREADABLE:" + hex.EncodeToString([]byte(err.Error()))
			}
			goOut = "E:" + entries
			if dv != "pass" {
				goOut = "E:UNREADABLE:" + hex.EncodeToString([]byte("digest:"+dv))
			}
		}
	}
	live := ctx.liveToken()
	where := "the context is never done"
	if live != "never" {
		where = fmt.Sprintf("the context is done (%s) after %s of its Err() calls returned nil", fc.Err, live)
		if fc.At != "check" {
			where += fmt.Sprintf(", made so by file-system call %d (%s)", fc.K, ffs.hit)
		}
		tags = append(tags, "cancel:fired")
	} else {
		tags = append(tags, "cancel:not-reached")
	}
	if callErr != nil {
		goOut = "ERR:" + tarCtxErrKind(callErr)
		tags = append(tags, "cancel:outcome:error:"+tarCtxErrKind(callErr))
	} else if live != "never" {
		tags = append(tags, "cancel:outcome:layer-after-done")
	} else {
		tags = append(tags, "cancel:outcome:layer")
	}
	sort.Strings(tags)
	return Step{Line: "tar.cancel\t" + backend + "\t" + fc.Path + "\t" + live + "\t" + fc.Err + "\t" + goOut + "\t" + strings.Join(toks, "\t"),
		Go: goOut, Mode: "verdict", Tags: tags, Trivial: live == "never",
		Desc: fmt.Sprintf("%s layer writer, %s; %s", fc.Path, where, desc)}
}
