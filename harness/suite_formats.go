package main

// corr:formats — C16: apko's own text formats round-trip.  Generated package records, file lists,
// passwd and group entries go through the real writers and readers (ArchiveFromIndex /
// IndexFromArchive, AddInstalledPackage / GetInstalled, UserFile / GroupFile Write / Load,
// baseimg.New) and are compared with the Lean Impl and Spec models.  All strings travel hex-encoded.

import (
	"archive/tar"
	"bytes"
	"compress/gzip"
	"encoding/hex"
	"encoding/json"
	"fmt"
	"io"
	"path/filepath"
	"sort"
	"strconv"
	"strings"
	"time"

	"chainguard.dev/apko/pkg/apk/apk"
	apkfs "chainguard.dev/apko/pkg/apk/fs"
	"chainguard.dev/apko/pkg/passwd"
)

type fPkg struct {
	Name, Version, Arch, Desc, License, Origin, Maint, URL, Commit, Checksum string   // hex
	Deps, Provides, InstallIf, Replaces                                      []string // hex items
	Size, ISize, Prio                                                        uint64
	BuildTime                                                                int64
	ZeroTime                                                                 bool
}

type fFile struct {
	Name string // hex
	Dir  bool
	Mode int64
	Uid  int
	Gid  int
	Csum string // hex of the PAX record value
}

type fIPkg struct {
	Pkg   fPkg
	Files []fFile
}

type fUser struct {
	Name, Password, Info, Home, Shell string // hex
	UID, GID                          uint32
}

type fGroup struct {
	Name, Password string // hex
	GID            uint32
	Members        []string // hex
}

type fCase struct {
	Kind   string   `json:"kind"` // idx | idb | pw | gr | idxr | idbr | base | pwr | grr
	Pkgs   []fPkg   `json:"pkgs,omitempty"`
	Pkgs2  []fPkg   `json:"pkgs2,omitempty"` // idxseq: the second index, written before the first is read
	IPkgs  []fIPkg  `json:"ipkgs,omitempty"`
	Users  []fUser  `json:"users,omitempty"`
	Groups []fGroup `json:"groups,omitempty"`
	Text   string   `json:"text,omitempty"` // hex
}

type formatsSuite struct{}

func init() { register(formatsSuite{}) }

func (formatsSuite) Name() string { return "formats" }

func unhx(s string) string {
	b, err := hex.DecodeString(s)
	if err != nil {
		panic(err)
	}
	return string(b)
}

func hxs(ss []string) []string {
	out := make([]string, len(ss))
	for i, s := range ss {
		out[i] = hx(s)
	}
	return out
}

func unhxs(ss []string) []string {
	if ss == nil {
		return nil
	}
	out := make([]string, len(ss))
	for i, s := range ss {
		out[i] = unhx(s)
	}
	return out
}

// ---------- wire format (mirrors lean/Apko/Driver/Formats.lean) ----------

func wList(l []string) string {
	var b strings.Builder
	for _, s := range l {
		b.WriteByte('.')
		b.WriteString(hx(s))
	}
	return b.String()
}

func wPkg(p *apk.Package) string {
	return strings.Join([]string{hx(p.Name), hx(p.Version), hx(p.Arch), hx(p.Description), hx(p.License),
		hx(p.Origin), hx(p.Maintainer), hx(p.URL), hx(p.RepoCommit), hx(string(p.Checksum)), wList(p.Dependencies),
		wList(p.Provides), wList(p.InstallIf), wList(p.Replaces), strconv.FormatUint(p.Size, 10),
		strconv.FormatUint(p.InstalledSize, 10), strconv.FormatUint(p.ProviderPriority, 10),
		strconv.FormatInt(p.BuildTime.Unix(), 10)}, ",")
}

func wPkgs(ps []*apk.Package) string {
	ss := make([]string, len(ps))
	for i, p := range ps {
		ss[i] = wPkg(p)
	}
	return strings.Join(ss, ";")
}

func hdrCsum(h tar.Header) string {
	if h.PAXRecords == nil {
		return ""
	}
	return h.PAXRecords["APK-TOOLS.checksum.SHA1"]
}

func wFile(h tar.Header, withCsum bool) string {
	d := "0"
	if h.Typeflag == tar.TypeDir {
		d = "1"
	}
	c := ""
	if withCsum {
		c = hx(hdrCsum(h))
	}
	return strings.Join([]string{hx(h.Name), d, strconv.FormatInt(h.Mode, 10), strconv.Itoa(h.Uid), strconv.Itoa(h.Gid), c}, ",")
}

func wFiles(hs []tar.Header, withCsum bool) string {
	ss := make([]string, len(hs))
	for i, h := range hs {
		ss[i] = wFile(h, withCsum)
	}
	return strings.Join(ss, ";")
}

func sortedByName(hs []tar.Header) []tar.Header {
	out := append([]tar.Header(nil), hs...)
	sort.SliceStable(out, func(i, j int) bool { return out[i].Name < out[j].Name })
	return out
}

func wIPkgs(ips []*apk.InstalledPackage) string {
	ss := make([]string, len(ips))
	for i, ip := range ips {
		ss[i] = wPkg(&ip.Package) + "/" + wFiles(ip.Files, true)
	}
	return strings.Join(ss, "|")
}

func (p fPkg) wire() string { return wPkg(p.real()) }

func (p fPkg) real() *apk.Package {
	bt := time.Time{}
	if !p.ZeroTime {
		bt = time.Unix(p.BuildTime, 0).UTC()
	}
	return &apk.Package{Name: unhx(p.Name), Version: unhx(p.Version), Arch: unhx(p.Arch), Description: unhx(p.Desc),
		License: unhx(p.License), Origin: unhx(p.Origin), Maintainer: unhx(p.Maint), URL: unhx(p.URL),
		RepoCommit: unhx(p.Commit), Checksum: []byte(unhx(p.Checksum)), Dependencies: unhxs(p.Deps),
		Provides: unhxs(p.Provides), InstallIf: unhxs(p.InstallIf), Replaces: unhxs(p.Replaces), Size: p.Size,
		InstalledSize: p.ISize, ProviderPriority: p.Prio, BuildTime: bt, BuildDate: bt.Unix()}
}

func (f fFile) real() tar.Header {
	h := tar.Header{Name: unhx(f.Name), Mode: f.Mode, Uid: f.Uid, Gid: f.Gid, Typeflag: tar.TypeReg}
	if f.Dir {
		h.Typeflag = tar.TypeDir
	}
	if f.Csum != "" {
		h.PAXRecords = map[string]string{"APK-TOOLS.checksum.SHA1": unhx(f.Csum)}
	}
	return h
}

func wirePkgsIn(ps []fPkg) string {
	ss := make([]string, len(ps))
	for i, p := range ps {
		ss[i] = p.wire()
	}
	return strings.Join(ss, ";")
}

func wireIPkgsIn(ips []fIPkg) string {
	ss := make([]string, len(ips))
	for i, ip := range ips {
		hs := make([]tar.Header, len(ip.Files))
		for j, f := range ip.Files {
			hs[j] = f.real()
		}
		ss[i] = ip.Pkg.wire() + "/" + wFiles(hs, true)
	}
	return strings.Join(ss, "|")
}

func wUser(u passwd.UserEntry) string {
	return strings.Join([]string{hx(u.UserName), hx(u.Password), fmt.Sprint(u.UID), fmt.Sprint(u.GID), hx(u.Info), hx(u.HomeDir), hx(u.Shell)}, ",")
}
func wGroup(g passwd.GroupEntry) string {
	return strings.Join([]string{hx(g.GroupName), hx(g.Password), fmt.Sprint(g.GID), wList(g.Members)}, ",")
}
func wUsers(us []passwd.UserEntry) string {
	ss := make([]string, len(us))
	for i, u := range us {
		ss[i] = wUser(u)
	}
	return strings.Join(ss, ";")
}
func wGroups(gs []passwd.GroupEntry) string {
	ss := make([]string, len(gs))
	for i, g := range gs {
		ss[i] = wGroup(g)
	}
	return strings.Join(ss, ";")
}

// ---------- the real code ----------

// indexText runs ArchiveFromIndex and returns the APKINDEX member and the whole archive.
func indexText(ps []*apk.Package) (string, []byte, error) {
	r, err := apk.ArchiveFromIndex(&apk.APKIndex{Packages: ps, Description: "verif"})
	if err != nil {
		return "", nil, err
	}
	arch, err := io.ReadAll(r)
	if err != nil {
		return "", nil, err
	}
	zr, err := gzip.NewReader(bytes.NewReader(arch))
	if err != nil {
		return "", nil, err
	}
	tr := tar.NewReader(zr)
	for {
		h, err := tr.Next()
		if err != nil {
			return "", nil, err
		}
		if h.Name == "APKINDEX" {
			b, err := io.ReadAll(tr)
			return string(b), arch, err
		}
	}
}

func goIdxRW(ps []fPkg) string {
	real := make([]*apk.Package, len(ps))
	for i, p := range ps {
		real[i] = p.real()
	}
	text, arch, err := indexText(real)
	if err != nil {
		return "werr"
	}
	idx, err := apk.IndexFromArchive(io.NopCloser(bytes.NewReader(arch)))
	if err != nil {
		return hx(text) + "|err"
	}
	text2, _, err := indexText(idx.Packages)
	if err != nil {
		return hx(text) + "|" + wPkgs(idx.Packages) + "|werr"
	}
	return hx(text) + "|" + wPkgs(idx.Packages) + "|" + hx(text2)
}

// goIdxSeq: every index is written (ArchiveFromIndex) before any of the returned readers is read
func goIdxSeq(lists [][]fPkg) []string {
	readers := make([]io.Reader, len(lists))
	errs := make([]error, len(lists))
	for i, ps := range lists {
		real := make([]*apk.Package, len(ps))
		for j, p := range ps {
			real[j] = p.real()
		}
		readers[i], errs[i] = apk.ArchiveFromIndex(&apk.APKIndex{Packages: real, Description: "verif"})
	}
	outs := make([]string, len(lists))
	for i := range lists {
		if errs[i] != nil {
			outs[i] = "werr"
			continue
		}
		arch, err := io.ReadAll(readers[i])
		if err != nil {
			outs[i] = "werr"
			continue
		}
		text := ""
		if zr, err := gzip.NewReader(bytes.NewReader(arch)); err == nil {
			tr := tar.NewReader(zr)
			for {
				h, err := tr.Next()
				if err != nil {
					break
				}
				if h.Name == "APKINDEX" {
					b, _ := io.ReadAll(tr)
					text = string(b)
					break
				}
			}
		}
		idx, err := apk.IndexFromArchive(io.NopCloser(bytes.NewReader(arch)))
		if err != nil {
			outs[i] = hx(text) + "|err"
			continue
		}
		text2, _, err := indexText(idx.Packages)
		if err != nil {
			outs[i] = hx(text) + "|" + wPkgs(idx.Packages) + "|werr"
			continue
		}
		outs[i] = hx(text) + "|" + wPkgs(idx.Packages) + "|" + hx(text2)
	}
	return outs
}

func newAPK() (*apk.APK, apkfs.FullFS) {
	fsys := apkfs.NewMemFS()
	if err := fsys.MkdirAll("lib/apk/db", 0o755); err != nil {
		panic(err)
	}
	a, err := apk.New(apk.WithFS(fsys))
	if err != nil {
		panic(err)
	}
	return a, fsys
}

// writeInstalled appends every package through AddInstalledPackage; returns the db text.
func writeInstalled(pkgs []*apk.Package, files [][]tar.Header) (string, error) {
	a, fsys := newAPK()
	for i := range pkgs {
		if err := a.AddInstalledPackage(pkgs[i], files[i]); err != nil {
			return "", err
		}
	}
	if len(pkgs) == 0 {
		return "", nil
	}
	b, err := fsys.ReadFile("lib/apk/db/installed")
	return string(b), err
}

// sortSizeCap mirrors Formats.sortSizeCap: above this many predicted records the real sortTarHeaders is not run (F16i).
const sortSizeCap = 2000

// predictSortSize walks the header list the way sortTarHeaders / sortChildrenTarHeaders do (same maps, same
// start set, same order) but only counts the records that would be emitted, and gives up above limit.  It is
// a prediction only: the Lean driver computes the size again with the model's counting walk and answers
// `blowup` / `blowup2` itself, so a wrong prediction here shows up as a disagreement, not as a skipped case.
func predictSortSize(headers []tar.Header, limit int) int {
	children := map[string][]string{}
	all := map[string]tar.Header{}
	for _, h := range headers {
		c := filepath.Clean(h.Name)
		if c == "." {
			continue
		}
		d := filepath.Dir(c)
		children[d] = append(children[d], c)
		all[c] = h
	}
	var top []string
	for d := range children {
		if filepath.Dir(d) == "." {
			top = append(top, d)
		}
	}
	count := 0
	var walk func(cs []string, depth int)
	walk = func(cs []string, depth int) {
		if depth > len(headers)+2 {
			return
		}
		for _, c := range cs {
			if h, ok := all[c]; ok && h.Typeflag != tar.TypeDir {
				count++
			}
		}
		for _, c := range cs {
			if count > limit {
				return
			}
			if h, ok := all[c]; ok && h.Typeflag == tar.TypeDir {
				count++
				walk(children[c], depth+1)
			}
		}
	}
	walk(top, 0)
	return count
}

func anyOverCap(files [][]tar.Header) bool {
	for _, fs := range files {
		if predictSortSize(fs, sortSizeCap) > sortSizeCap {
			return true
		}
	}
	return false
}

type idbOut struct {
	blowup  bool // F16i: the first write was not run, the predicted size of sortTarHeaders' output is above sortSizeCap
	blowup2 bool // F16i: the re-write of what was read back was not run for the same reason
	werr    bool
	text    string
	rerr    bool
	parsed  []*apk.InstalledPackage
	text2   string
	werr2   bool
}

func goIdbRW(ips []fIPkg) idbOut {
	pkgs := make([]*apk.Package, len(ips))
	files := make([][]tar.Header, len(ips))
	for i, ip := range ips {
		pkgs[i] = ip.Pkg.real()
		for _, f := range ip.Files {
			files[i] = append(files[i], f.real())
		}
	}
	var o idbOut
	if anyOverCap(files) {
		o.blowup = true
		return o
	}
	text, err := writeInstalled(pkgs, files)
	if err != nil {
		o.werr = true
		return o
	}
	return idbOutOfText(text)
}

// idbOutOfText: read a db text back and write it again
func idbOutOfText(text string) idbOut {
	var o idbOut
	o.text = text
	parsed, err := apk.ParseInstalled(strings.NewReader(text))
	if err != nil {
		o.rerr = true
		return o
	}
	o.parsed = parsed
	p2 := make([]*apk.Package, len(parsed))
	f2 := make([][]tar.Header, len(parsed))
	for i, ip := range parsed {
		p2[i] = &ip.Package
		f2[i] = ip.Files
	}
	if anyOverCap(f2) {
		o.blowup2 = true
		return o
	}
	o.text2, err = writeInstalled(p2, f2)
	o.werr2 = err != nil
	return o
}

func (o idbOut) view(aspect string) string {
	if o.blowup {
		return "blowup"
	}
	if o.werr {
		return "werr"
	}
	if o.rerr {
		return "err"
	}
	var parts []string
	switch aspect {
	case "pkg":
		ps := make([]*apk.Package, len(o.parsed))
		for i, ip := range o.parsed {
			q := ip.Package
			q.InstallIf = nil
			ps[i] = &q
		}
		return hx(o.text) + "|" + wPkgs(ps)
	case "iif":
		for _, ip := range o.parsed {
			parts = append(parts, wList(ip.InstallIf))
		}
	case "files":
		for _, ip := range o.parsed {
			parts = append(parts, wFiles(sortedByName(ip.Files), false))
		}
	case "csum":
		for _, ip := range o.parsed {
			var ss []string
			for _, h := range sortedByName(ip.Files) {
				ss = append(ss, hx(h.Name)+","+hx(hdrCsum(h)))
			}
			parts = append(parts, strings.Join(ss, ";"))
		}
	default:
		if o.blowup2 {
			return "blowup2"
		}
		if o.werr2 {
			return "werr2"
		}
		return hx(o.text2)
	}
	return strings.Join(parts, "|")
}

func goIdxR(text string) string {
	ps, err := apk.ParsePackageIndex(strings.NewReader(text))
	if err != nil {
		return "err"
	}
	return wPkgs(ps)
}

func goIdbR(text string) string {
	ips, err := apk.ParseInstalled(strings.NewReader(text))
	if err != nil {
		return "err"
	}
	return wIPkgs(ips)
}

func goPwRW(us []fUser) string {
	uf := passwd.UserFile{}
	for _, u := range us {
		uf.Entries = append(uf.Entries, passwd.UserEntry{UserName: unhx(u.Name), Password: unhx(u.Password), UID: u.UID, GID: u.GID,
			Info: unhx(u.Info), HomeDir: unhx(u.Home), Shell: unhx(u.Shell)})
	}
	var b bytes.Buffer
	if err := uf.Write(&b); err != nil {
		return "werr"
	}
	text := b.String()
	var back passwd.UserFile
	if err := back.Load(strings.NewReader(text)); err != nil {
		return hx(text) + "|err"
	}
	var b2 bytes.Buffer
	_ = back.Write(&b2)
	// the same through a file system, the way the build does it: the file already exists with LONGER contents
	// (an earlier, larger account set), is rewritten with WriteFile and read back with ReadOrCreateUserFile
	if ftext, fback, ok := pwThroughFS(uf.Entries, text); !ok || ftext != text || wUsers(fback) != wUsers(back.Entries) {
		return hx(ftext) + "|file:" + wUsers(fback) + "|" + hx(b2.String())
	}
	return hx(text) + "|" + wUsers(back.Entries) + "|" + hx(b2.String())
}

const formatsOldTail = "old1:x:4001:4001:left over:/home/old1:/bin/sh\nold2:x:4002:4002::/:/sbin/nologin\n"

func pwThroughFS(entries []passwd.UserEntry, text string) (string, []passwd.UserEntry, bool) {
	fsys := apkfs.NewMemFS()
	_ = fsys.MkdirAll("etc", 0o755)
	if err := fsys.WriteFile("etc/passwd", []byte(text+formatsOldTail), 0o644); err != nil {
		return "", nil, false
	}
	uf, err := passwd.ReadOrCreateUserFile(fsys, "etc/passwd")
	if err != nil {
		// the longer previous contents do not parse (the entries themselves are unreadable): nothing to compare
		return text, nil, text != "" && false
	}
	uf.Entries = entries
	if err := uf.WriteFile("etc/passwd"); err != nil {
		return "", nil, false
	}
	b, err := fsys.ReadFile("etc/passwd")
	if err != nil {
		return "", nil, false
	}
	back, err := passwd.ReadOrCreateUserFile(fsys, "etc/passwd")
	if err != nil {
		return string(b), nil, false
	}
	return string(b), back.Entries, true
}

func grThroughFS(entries []passwd.GroupEntry, text string) (string, []passwd.GroupEntry, bool) {
	fsys := apkfs.NewMemFS()
	_ = fsys.MkdirAll("etc", 0o755)
	if err := fsys.WriteFile("etc/group", []byte(text+"oldgroup:x:4001:old1,old2\nnogroup2:x:65533:nobody\n"), 0o644); err != nil {
		return "", nil, false
	}
	gf, err := passwd.ReadOrCreateGroupFile(fsys, "etc/group")
	if err != nil {
		return text, nil, false
	}
	gf.Entries = entries
	if err := gf.WriteFile(fsys, "etc/group"); err != nil {
		return "", nil, false
	}
	b, err := fsys.ReadFile("etc/group")
	if err != nil {
		return "", nil, false
	}
	back, err := passwd.ReadOrCreateGroupFile(fsys, "etc/group")
	if err != nil {
		return string(b), nil, false
	}
	return string(b), back.Entries, true
}

func goGrRW(gs []fGroup) string {
	gf := passwd.GroupFile{}
	for _, g := range gs {
		gf.Entries = append(gf.Entries, passwd.GroupEntry{GroupName: unhx(g.Name), Password: unhx(g.Password), GID: g.GID, Members: unhxs(g.Members)})
	}
	var b bytes.Buffer
	if err := gf.Write(&b); err != nil {
		return "werr"
	}
	text := b.String()
	var back passwd.GroupFile
	if err := back.Load(strings.NewReader(text)); err != nil {
		return hx(text) + "|err"
	}
	var b2 bytes.Buffer
	_ = back.Write(&b2)
	if ftext, fback, ok := grThroughFS(gf.Entries, text); !ok || ftext != text || wGroups(fback) != wGroups(back.Entries) {
		return hx(ftext) + "|file:" + wGroups(fback) + "|" + hx(b2.String())
	}
	return hx(text) + "|" + wGroups(back.Entries) + "|" + hx(b2.String())
}

func goPwR(text string) string {
	var uf passwd.UserFile
	if err := uf.Load(strings.NewReader(text)); err != nil {
		return "err"
	}
	return wUsers(uf.Entries)
}

func goGrR(text string) string {
	var gf passwd.GroupFile
	if err := gf.Load(strings.NewReader(text)); err != nil {
		return "err"
	}
	return wGroups(gf.Entries)
}

// ---------- Run ----------

func short(s string) string {
	if len(s) > 300 {
		return s[:300] + fmt.Sprintf("…(%d bytes)", len(s))
	}
	return s
}

func (formatsSuite) Run(raw json.RawMessage) []Step {
	var c fCase
	if err := json.Unmarshal(raw, &c); err != nil {
		panic(err)
	}
	switch c.Kind {
	case "idx":
		out := goIdxRW(c.Pkgs)
		tags := []string{"idx.rw", fmt.Sprintf("idx.npkgs:%d", minInt(len(c.Pkgs), 4))}
		for _, p := range c.Pkgs {
			tags = append(tags, pkgTags("idx", p)...)
		}
		return []Step{{Line: "f.idx.rw\t" + wirePkgsIn(c.Pkgs), Go: out, Desc: "index write/read/write of " + short(descPkgs(c.Pkgs)), Tags: tags,
			Trivial: strings.HasSuffix(out, "err")}}
	case "idb":
		o := goIdbRW(c.IPkgs)
		wire := wireIPkgsIn(c.IPkgs)
		var steps []Step
		tags := []string{"idb.rw", fmt.Sprintf("idb.npkgs:%d", minInt(len(c.IPkgs), 4))}
		for _, ip := range c.IPkgs {
			tags = append(tags, pkgTags("idb", ip.Pkg)...)
			tags = append(tags, fileTags(ip.Files)...)
		}
		for i, asp := range []string{"pkg", "iif", "files", "csum", "text2"} {
			st := Step{Line: "f.idb.rw\t" + asp + "\t" + wire, Go: o.view(asp), Desc: "installed-db write/read (" + asp + ") of " + short(descIPkgs(c.IPkgs)),
				Trivial: o.werr || o.rerr}
			if i == 0 {
				st.Tags = tags
				if o.blowup {
					st.Tags = append(st.Tags, "idb.sort:blowup")
				} else if o.blowup2 {
					st.Tags = append(st.Tags, "idb.sort:blowup2")
				}
			}
			steps = append(steps, st)
		}
		return steps
	case "idxseq":
		// write index A, write index B, and only then read A (and B) back: a writer must not hand out
		// a reader over storage that a later write reuses
		outs := goIdxSeq([][]fPkg{c.Pkgs, c.Pkgs2})
		var steps []Step
		for i, ps := range [][]fPkg{c.Pkgs, c.Pkgs2} {
			steps = append(steps, Step{Line: "f.idx.rw\t" + wirePkgsIn(ps), Go: outs[i], Desc: fmt.Sprintf("index %d of a write-write-read sequence: %s", i, short(descPkgs(ps))),
				Tags: []string{"idx.seq"}, Trivial: strings.HasSuffix(outs[i], "err")})
		}
		return steps
	case "idbseq":
		// AddInstalledPackage for every package in turn, carrying on after a failed add: a failed add must leave
		// the db as it was; the db read back must be exactly the successfully added packages
		var allFiles [][]tar.Header
		for _, ip := range c.IPkgs {
			var hs []tar.Header
			for _, f := range ip.Files {
				hs = append(hs, f.real())
			}
			allFiles = append(allFiles, hs)
		}
		if anyOverCap(allFiles) {
			// F16i: no add is run; the driver predicts the same from the whole sequence
			wire := wireIPkgsIn(c.IPkgs)
			var steps []Step
			for _, asp := range []string{"pkg", "files", "text2"} {
				steps = append(steps, Step{Line: "f.idb.rw\t" + asp + "\t" + wire, Go: "blowup", Desc: "installed-db sequence of adds (" + asp + ") of " + short(descIPkgs(c.IPkgs)),
					Tags: []string{"idb.seq:blowup"}})
			}
			return steps
		}
		a, fsys := newAPK()
		var okPkgs []fIPkg
		failed := 0
		for _, ip := range c.IPkgs {
			var hs []tar.Header
			for _, f := range ip.Files {
				hs = append(hs, f.real())
			}
			if err := a.AddInstalledPackage(ip.Pkg.real(), hs); err != nil {
				failed++
				continue
			}
			okPkgs = append(okPkgs, ip)
		}
		text := ""
		if b, err := fsys.ReadFile("lib/apk/db/installed"); err == nil {
			text = string(b)
		}
		o := idbOutOfText(text)
		if len(okPkgs) == 0 && text == "" {
			return []Step{{Line: "f.idb.rw\tpkg\t", Go: o.view("pkg"), Desc: "installed-db sequence in which every add failed", Tags: []string{"idb.seq:all-failed"}, Trivial: true}}
		}
		wire := wireIPkgsIn(okPkgs)
		var steps []Step
		for _, asp := range []string{"pkg", "files", "text2"} {
			steps = append(steps, Step{Line: "f.idb.rw\t" + asp + "\t" + wire, Go: o.view(asp), Desc: fmt.Sprintf("installed-db after a sequence of adds (%d failed) (%s) of %s", failed, asp, short(descIPkgs(okPkgs))),
				Tags: []string{fmt.Sprintf("idb.seq:failed%d", minInt(failed, 2))}, Trivial: o.rerr})
		}
		return steps
	case "pw":
		out := goPwRW(c.Users)
		return []Step{{Line: "f.pw.rw\t" + wireUsersIn(c.Users), Go: out, Desc: "passwd write/read of " + short(descUsers(c.Users)),
			Tags: []string{"pw.rw", fmt.Sprintf("pw.n:%d", minInt(len(c.Users), 4))}, Trivial: strings.HasSuffix(out, "err")}}
	case "gr":
		out := goGrRW(c.Groups)
		tags := []string{"gr.rw"}
		for _, g := range c.Groups {
			tags = append(tags, fmt.Sprintf("gr.members:%d", minInt(len(g.Members), 3)))
		}
		return []Step{{Line: "f.gr.rw\t" + wireGroupsIn(c.Groups), Go: out, Desc: "group write/read of " + short(descGroups(c.Groups)),
			Tags: tags, Trivial: strings.HasSuffix(out, "err")}}
	case "idxr":
		t := unhx(c.Text)
		out := goIdxR(t)
		return []Step{{Line: "f.idx.r\t" + c.Text, Go: out, Desc: fmt.Sprintf("ParsePackageIndex(%q)", short(t)), Tags: []string{"idx.r:" + okErr(out)}, Trivial: out == "err"}}
	case "idbr":
		t := unhx(c.Text)
		out := goIdbR(t)
		return []Step{{Line: "f.idb.r\t" + c.Text, Go: out, Desc: fmt.Sprintf("ParseInstalled(%q)", short(t)), Tags: []string{"idb.r:" + okErr(out)}, Trivial: out == "err"}}
	case "base":
		t := unhx(c.Text)
		if c.Text == "" && len(c.IPkgs) > 0 {
			t = goIdbRW(c.IPkgs).text
		}
		out := goBase(t)
		return []Step{{Line: "f.base\t" + hx(t), Go: out, Desc: fmt.Sprintf("baseimg.New over installed db %q", short(t)), Tags: []string{"base:" + okErr(out)}, Trivial: strings.Contains(out, "err")}}
	case "pwr":
		t := unhx(c.Text)
		out := goPwR(t)
		return []Step{{Line: "f.pw.r\t" + c.Text, Go: out, Desc: fmt.Sprintf("UserFile.Load(%q)", short(t)), Tags: []string{"pw.r:" + okErr(out)}, Trivial: out == "err"}}
	case "grr":
		t := unhx(c.Text)
		out := goGrR(t)
		return []Step{{Line: "f.gr.r\t" + c.Text, Go: out, Desc: fmt.Sprintf("GroupFile.Load(%q)", short(t)), Tags: []string{"gr.r:" + okErr(out)}, Trivial: out == "err"}}
	}
	panic("unknown kind " + c.Kind)
}

func okErr(s string) string {
	if s == "err" || strings.HasPrefix(s, "err") {
		return "err"
	}
	return "ok"
}

func minInt(a, b int) int {
	if a < b {
		return a
	}
	return b
}

func pkgTags(pre string, p fPkg) []string {
	var t []string
	if len(p.Deps) == 0 {
		t = append(t, pre+".deps:empty")
	}
	if len(p.InstallIf) > 0 {
		t = append(t, pre+".installif:nonempty")
	}
	if len(p.Replaces) > 0 {
		t = append(t, pre+".replaces:nonempty")
	}
	if p.ZeroTime {
		t = append(t, pre+".time:zero")
	}
	if p.Size == 0 {
		t = append(t, pre+".size:0")
	}
	if p.Size == ^uint64(0) || p.ISize == ^uint64(0) || p.Prio == ^uint64(0) {
		t = append(t, pre+".uint:max")
	}
	if p.Checksum == "" {
		t = append(t, pre+".checksum:empty")
	}
	return t
}

func fileTags(fs []fFile) []string {
	t := []string{fmt.Sprintf("idb.nfiles:%d", minInt(len(fs)/4*4, 24))}
	depth := 0
	for _, f := range fs {
		if d := strings.Count(unhx(f.Name), "/"); d > depth {
			depth = d
		}
		if f.Mode >= 512 {
			t = append(t, "idb.mode:special")
		}
		if f.Csum != "" {
			t = append(t, "idb.csum")
		}
	}
	return append(t, fmt.Sprintf("idb.depth:%d", minInt(depth, 8)))
}

func descPkgs(ps []fPkg) string {
	var ss []string
	for _, p := range ps {
		r := p.real()
		ss = append(ss, fmt.Sprintf("{%q %q arch=%q deps=%q prov=%q iif=%q repl=%q S=%d I=%d k=%d t=%d C=%x}", r.Name, r.Version, r.Arch, r.Dependencies,
			r.Provides, r.InstallIf, r.Replaces, r.Size, r.InstalledSize, r.ProviderPriority, r.BuildTime.Unix(), r.Checksum))
	}
	return strings.Join(ss, " ")
}

func descIPkgs(ips []fIPkg) string {
	var ss []string
	for _, ip := range ips {
		var fs []string
		for _, f := range ip.Files {
			fs = append(fs, fmt.Sprintf("%q dir=%v %o %d:%d %q", unhx(f.Name), f.Dir, f.Mode, f.Uid, f.Gid, unhx(f.Csum)))
		}
		ss = append(ss, descPkgs([]fPkg{ip.Pkg})+" files["+strings.Join(fs, "; ")+"]")
	}
	return strings.Join(ss, " ")
}

func descUsers(us []fUser) string {
	var ss []string
	for _, u := range us {
		ss = append(ss, fmt.Sprintf("%q:%q:%d:%d:%q:%q:%q", unhx(u.Name), unhx(u.Password), u.UID, u.GID, unhx(u.Info), unhx(u.Home), unhx(u.Shell)))
	}
	return strings.Join(ss, " ")
}

func descGroups(gs []fGroup) string {
	var ss []string
	for _, g := range gs {
		ss = append(ss, fmt.Sprintf("%q:%q:%d:%q", unhx(g.Name), unhx(g.Password), g.GID, unhxs(g.Members)))
	}
	return strings.Join(ss, " ")
}

func wireUsersIn(us []fUser) string {
	ss := make([]string, len(us))
	for i, u := range us {
		ss[i] = strings.Join([]string{u.Name, u.Password, fmt.Sprint(u.UID), fmt.Sprint(u.GID), u.Info, u.Home, u.Shell}, ",")
	}
	return strings.Join(ss, ";")
}

func wireGroupsIn(gs []fGroup) string {
	ss := make([]string, len(gs))
	for i, g := range gs {
		var b strings.Builder
		for _, m := range g.Members {
			b.WriteByte('.')
			b.WriteString(m)
		}
		ss[i] = strings.Join([]string{g.Name, g.Password, fmt.Sprint(g.GID), b.String()}, ",")
	}
	return strings.Join(ss, ";")
}
