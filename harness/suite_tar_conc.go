package main

// corr:tar-concurrent (C06, run from the -race build): several file systems are serialised at the same
// time (what a multi-architecture build does); every layer must be byte-for-byte the layer the same
// file system gives when serialised alone.  Shared mutable state in the writer (pooled buffers,
// package-level scratch) shows up either as a wrong byte or as a race report.

import (
	"bytes"
	"encoding/json"
	"fmt"
	"sync"

	"chainguard.dev/apko/pkg/build"
)

type tarConcCase struct {
	Cases []tarCase `json:"cases"`
	Reps  int       `json:"reps"`
}

type tarConcSuite struct{}

func init() { register(tarConcSuite{}) }

func (tarConcSuite) Name() string { return "tar-concurrent" }

func (tarConcSuite) Gen(r *Rng, i int, tier string) any {
	c := tarConcCase{Reps: r.Range(2, 4)}
	n := r.Range(2, 4)
	for k := 0; k < n; k++ {
		// same shapes, different contents: a mixed-up buffer then changes bytes, not sizes
		c.Cases = append(c.Cases, genTarFsCase(r, k == 0 && r.Chance(30)))
	}
	return c
}

func (tarConcSuite) Run(raw json.RawMessage) []Step {
	var c tarConcCase
	if err := json.Unmarshal(raw, &c); err != nil {
		panic(err)
	}
	ctx := tarCtx()
	worlds := make([]*fsWorld, len(c.Cases))
	alone := make([][]byte, len(c.Cases))
	for i, tc := range c.Cases {
		w := newWorld(tc.Backend)
		for _, o := range tc.Ops {
			tarApply(w, o)
		}
		worlds[i] = w
		var b bytes.Buffer
		if err := build.VerifWriteTar(ctx, &b, w.base); err != nil {
			alone[i] = []byte("ERR:" + tarErrClass(err))
		} else {
			alone[i] = b.Bytes()
		}
	}
	var mu sync.Mutex
	var diverged []string
	var wg sync.WaitGroup
	for rep := 0; rep < c.Reps; rep++ {
		for i := range worlds {
			wg.Add(1)
			go func(i, rep int) {
				defer wg.Done()
				var b bytes.Buffer
				got := []byte(nil)
				if err := build.VerifWriteTar(ctx, &b, worlds[i].base); err != nil {
					got = []byte("ERR:" + tarErrClass(err))
				} else {
					got = b.Bytes()
				}
				if !bytes.Equal(got, alone[i]) {
					mu.Lock()
					diverged = append(diverged, fmt.Sprintf("file system %d, repetition %d: %d bytes differ from the layer serialised alone (%d bytes)", i, rep, len(got), len(alone[i])))
					mu.Unlock()
				}
			}(i, rep)
		}
	}
	wg.Wait()
	verdict, out := "pass", "identical"
	if len(diverged) > 0 {
		out = "diverged: " + diverged[0]
		verdict = "fail:" + out
	}
	return []Step{{Line: "x.robust\ttar-conc-" + hx(string(raw[:min(len(raw), 24)])), Go: out, Mode: "oracle-go", GoSpec: verdict, NoImpl: true,
		Desc: fmt.Sprintf("%d file systems serialised concurrently, %d repetitions each", len(c.Cases), c.Reps), Tags: []string{fmt.Sprintf("concurrent:%d", len(c.Cases)*c.Reps)}}}
}
