package main

// corr:tar-concurrent (C06, run from the -race build): several file systems are serialised at the same
// time (what a multi-architecture build does); every layer must be byte-for-byte the layer the same
// file system gives when serialised alone.  Shared mutable state in the writer (pooled buffers,
// package-level scratch) shows up either as a wrong byte or as a race report.

import (
	"bytes"
	"context"
	"encoding/json"
	"fmt"
	"sync"

	apkfs "chainguard.dev/apko/pkg/apk/fs"
	"chainguard.dev/apko/pkg/build"
)

func concCancelDesc(fc *tarCancel, nerr int) string {
	if fc == nil {
		return ""
	}
	return fmt.Sprintf("; shared context made done (%s) by file-system call %d on the first file system: %d calls returned the context's error, every other result must be the complete layer", fc.Err, fc.K, nerr)
}

func concCancelTags(fc *tarCancel, fctx *faultCtx, nerr int, base string) []string {
	tags := []string{base}
	if fc == nil {
		return tags
	}
	tags = append(tags, "cancel:shared", "cancel:kind:"+fc.Err)
	if fctx.liveToken() == "never" {
		return append(tags, "cancel:not-reached")
	}
	if nerr > 0 {
		return append(tags, "cancel:fired", "cancel:some-calls-failed")
	}
	return append(tags, "cancel:fired", "cancel:no-call-failed")
}

type tarConcCase struct {
	Cases []tarCase `json:"cases"`
	Reps  int       `json:"reps"`
	// the goroutines share one context (errgroup.WithContext) which becomes done at the k-th file-system call made on
	// the first file system: every result must be an error or the layer serialised alone
	Cancel *tarCancel `json:"cancel,omitempty"`
}

type tarConcSuite struct{}

func init() { register(tarConcSuite{}) }

func (tarConcSuite) Name() string { return "tar-concurrent" }

func (tarConcSuite) Gen(r *Rng, i int, tier string) any {
	c := tarConcCase{Reps: r.Range(2, 4)}
	n := r.Range(2, 4)
	for k := 0; k < n; k++ {
		// same shapes, different contents: a mixed-up buffer then changes bytes, not sizes
		c.Cases = append(c.Cases, genTarFsCase(r, k == 0 && r.Chance(30)))
	}
	if r.Chance(50) {
		c.Cancel = genTarCancel(r, len(c.Cases[0].Ops))
		c.Cancel.Path, c.Cancel.At = "writetar", "fscall"
		c.Cancel.K = r.Intn(c.Reps * (2*len(c.Cases[0].Ops) + 4))
	}
	return c
}

func (tarConcSuite) Run(raw json.RawMessage) []Step {
	var c tarConcCase
	if err := json.Unmarshal(raw, &c); err != nil {
		panic(err)
	}
	ctx := tarCtx()
	worlds := make([]*fsWorld, len(c.Cases))
	alone := make([][]byte, len(c.Cases))
	for i, tc := range c.Cases {
		w := newWorld(tc.Backend)
		for _, o := range tc.Ops {
			tarApply(w, o)
		}
		worlds[i] = w
		var b bytes.Buffer
		if err := build.VerifWriteTar(ctx, &b, w.base); err != nil {
			alone[i] = []byte("ERR:" + tarErrClass(err))
		} else {
			alone[i] = b.Bytes()
		}
	}
	var mu sync.Mutex
	var diverged []string
	var wg sync.WaitGroup
	shared := context.Context(ctx)
	var fctx *faultCtx
	bases := make([]apkfs.FullFS, len(worlds))
	for i := range worlds {
		bases[i] = worlds[i].base
	}
	nerr := 0
	if c.Cancel != nil {
		fctx = newFaultCtx(ctx, c.Cancel.Err, -1)
		shared = fctx
		bases[0] = &faultFS{FullFS: worlds[0].base, k: c.Cancel.K, fire: fctx.fire}
	}
	for rep := 0; rep < c.Reps; rep++ {
		for i := range worlds {
			wg.Add(1)
			go func(i, rep int) {
				defer wg.Done()
				var b bytes.Buffer
				got := []byte(nil)
				if err := build.VerifWriteTar(shared, &b, bases[i]); err != nil {
					got = []byte("ERR:" + tarErrClass(err))
					if fctx != nil && shared.Err() != nil && tarCtxErrKind(err) == c.Cancel.Err {
						// the shared context is done and the call says so: no layer was emitted
						mu.Lock()
						nerr++
						mu.Unlock()
						return
					}
				} else {
					got = b.Bytes()
				}
				if !bytes.Equal(got, alone[i]) {
					mu.Lock()
					diverged = append(diverged, fmt.Sprintf("file system %d, repetition %d: %d bytes differ from the layer serialised alone (%d bytes)", i, rep, len(got), len(alone[i])))
					mu.Unlock()
				}
			}(i, rep)
		}
	}
	wg.Wait()
	verdict, out := "pass", "identical"
	if len(diverged) > 0 {
		out = "diverged: " + diverged[0]
		verdict = "fail:" + out
	}
	return []Step{{Line: "x.robust\ttar-conc-" + hx(string(raw[:min(len(raw), 24)])), Go: out, Mode: "oracle-go", GoSpec: verdict, NoImpl: true,
		Desc: fmt.Sprintf("%d file systems serialised concurrently, %d repetitions each%s", len(c.Cases), c.Reps, concCancelDesc(c.Cancel, nerr)), Tags: concCancelTags(c.Cancel, fctx, nerr, fmt.Sprintf("concurrent:%d", len(c.Cases)*c.Reps))}}
}
