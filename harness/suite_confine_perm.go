package main

// corr:confine-perm (C18): dirFS's "repair the permissions, read, restore on Close" path.  It is only taken
// when the process may not read a file of the root, i.e. never as root — so the scenario runs in a CHILD
// process that drops to an unprivileged uid first.  Observation point = the property's own: a canary
// file in the child's working directory (outside the root) that shares its base name with the file
// that is read must keep its mode, and the file inside the root must get its own mode back.

import (
	"bytes"
	"encoding/json"
	"fmt"
	"io"
	"os"
	"os/exec"
	"path/filepath"
	"strings"
	"syscall"

	apkfs "chainguard.dev/apko/pkg/apk/fs"
)

type confinePermCase struct {
	Name     string `json:"name"`      // file name inside the root (may be nested)
	FileMode uint32 `json:"file_mode"` // its mode before (unreadable: 0, 0200, …)
	Canary   uint32 `json:"canary_mode"`
}

type confinePermSuite struct{}

func init() {
	register(confinePermSuite{})
	prev := extraCommand
	extraCommand = func(name string, args []string) bool {
		if name != "confine-perm-child" {
			return prev(name, args)
		}
		confinePermChild(args)
		return true
	}
}

func (confinePermSuite) Name() string { return "confine-perm" }

func (confinePermSuite) Gen(r *Rng, i int, tier string) any {
	return confinePermCase{Name: Pick(r, []string{"secret", "etc/shadow", "a/b/key.pem", "data"}), FileMode: Pick(r, []uint32{0, 0o200, 0o300, 0o044 &^ 0o044}),
		Canary: Pick(r, []uint32{0o644, 0o600, 0o755, 0o444})}
}

func (confinePermSuite) Run(raw json.RawMessage) []Step {
	var c confinePermCase
	if err := json.Unmarshal(raw, &c); err != nil {
		panic(err)
	}
	top, err := os.MkdirTemp("", "verif-confine-perm-")
	if err != nil {
		panic(err)
	}
	defer func() {
		// the child's files belong to the unprivileged uid; we are root and may remove them
		filepath.Walk(top, func(p string, info os.FileInfo, err error) error {
			if err == nil {
				os.Chmod(p, 0o700)
			}
			return nil
		})
		os.RemoveAll(top)
	}()
	// every ancestor of the scratch tree must be traversable by the unprivileged child
	for d := top; d != "/" && d != "."; d = filepath.Dir(d) {
		if fi, err := os.Stat(d); err == nil && fi.Mode().Perm()&0o011 != 0o011 {
			os.Chmod(d, fi.Mode().Perm()|0o711)
		}
	}
	os.Chmod(top, 0o777)
	self, _ := os.Executable()
	cmd := exec.Command(self, "confine-perm-child", top, c.Name, fmt.Sprint(c.FileMode), fmt.Sprint(c.Canary))
	var out, eb bytes.Buffer
	cmd.Stdout, cmd.Stderr = &out, &eb
	err = cmd.Run()
	ans := strings.TrimSpace(out.String())
	desc := fmt.Sprintf("as uid 65534: DirFS(root).Open(%q) on a file of mode %04o, read, Close; canary %q of mode %04o in the working directory", c.Name, c.FileMode, filepath.Base(c.Name), c.Canary)
	if err != nil || !strings.HasPrefix(ans, "obs ") {
		// cannot drop privileges here (not root, or the sandbox forbids it): nothing was observed
		return []Step{{Line: "x.robust\tconfine-perm-skip", Go: "skipped: " + firstLine(ans+" "+eb.String()), Mode: "oracle-go", GoSpec: "pass", NoImpl: true, Trivial: true, Desc: desc, Tags: []string{"confine-perm:skipped"}}}
	}
	want := fmt.Sprintf("obs read=ok file=%04o canary=%04o", c.FileMode, c.Canary)
	verdict := "pass"
	if ans != want {
		verdict = "fail:" + ans + " (want " + want + ")"
	}
	return []Step{{Line: "x.robust\tconfine-perm-" + hx(string(raw))[:16], Go: ans, Mode: "oracle-go", GoSpec: verdict, NoImpl: true, Desc: desc, Tags: []string{"confine-perm:" + strings.SplitN(ans, " ", 3)[1]}}}
}

func confinePermChild(args []string) {
	top, name := args[0], args[1]
	var fileMode, canaryMode uint32
	fmt.Sscan(args[2], &fileMode)
	fmt.Sscan(args[3], &canaryMode)
	if err := syscall.Setgroups(nil); err != nil {
		fmt.Println("cannot drop groups:", err)
		os.Exit(3)
	}
	if err := syscall.Setgid(65534); err != nil {
		fmt.Println("cannot setgid:", err)
		os.Exit(3)
	}
	if err := syscall.Setuid(65534); err != nil {
		fmt.Println("cannot setuid:", err)
		os.Exit(3)
	}
	root := filepath.Join(top, "root")
	cwd := filepath.Join(top, "cwd")
	must := func(err error) {
		if err != nil {
			fmt.Println("setup:", err)
			os.Exit(3)
		}
	}
	must(os.MkdirAll(filepath.Dir(filepath.Join(root, name)), 0o755))
	must(os.MkdirAll(cwd, 0o755))
	must(os.WriteFile(filepath.Join(root, name), []byte("inside"), 0o600))
	must(os.WriteFile(filepath.Join(cwd, filepath.Base(name)), []byte("canary"), 0o600))
	must(os.Chmod(filepath.Join(cwd, filepath.Base(name)), os.FileMode(canaryMode)))
	must(os.Chdir(cwd))
	fsys := apkfs.DirFS(root)
	// the file becomes unreadable only after the overlay was built
	must(os.Chmod(filepath.Join(root, name), os.FileMode(fileMode)))
	read := "ok"
	f, err := fsys.Open(name)
	if err != nil {
		read = "open-error"
	} else {
		if b, err := io.ReadAll(f); err != nil || string(b) != "inside" {
			read = "read-error"
		}
		if err := f.Close(); err != nil {
			read += "+close-error"
		}
	}
	fi, err1 := os.Stat(filepath.Join(root, name))
	ci, err2 := os.Stat(filepath.Join(cwd, filepath.Base(name)))
	if err1 != nil || err2 != nil {
		fmt.Println("obs stat-error")
		return
	}
	fmt.Printf("obs read=%s file=%04o canary=%04o\n", read, fi.Mode().Perm(), ci.Mode().Perm())
}
