package main

// corr:authentic (C05): installed package bytes are authenticated end to end.
//
// A case is a small set of synthetic packages (each with alternative builds), a list of repository
// variants (variant 0 serves what the index records; the others serve a swapped control member, a swapped
// data member, a modified body, modified / missing / undecodable per-file records, another package under the
// expected URL, an index whose checksum is twenty zero bytes, …) and a sequence of 1-3 operations sharing one
// cache directory (or none): `apko build` (index-driven), `apko lock`, `apko build --lockfile` (lock-driven,
// the lock taken from variant 0 by the real `apko lock`, optionally edited).  Everything runs through the real
// CLI entry points in-process (pkg/verifapi), over the in-process HTTP transport.
//
// Steps per operation:
//   auth.verdict  value      Go ok|fail = Impl (model of expandPackage/cachedPackage/cachePackage/ExpandApk/
//                            tarfs.WriteHeader run over the whole sequence) = Spec (ok iff the bytes that would be
//                            used are authentic: three hash relations + every installable file has a record)
//   auth.cache    value      the advertised cache names after the operation = the model's cache
//   auth.class    oracle-go  on a successful build, computed by the harness from the image and the bytes it built:
//                            the installed db records the expected control checksum, an authentic build of the
//                            package exists for it (all three relations recomputed here), and every file of the
//                            package in the image has the authentic content
// plus auth.datahash (value): (*APK).datahash on generated .PKGINFO texts = Impl.datahash.

import (
	"archive/tar"
	"bytes"
	"encoding/base64"
	"encoding/hex"
	"encoding/json"
	"fmt"
	"io"
	"log/slog"
	"net/http"
	"os"
	"path/filepath"
	"sort"
	"strings"
	"sync"

	"chainguard.dev/apko/pkg/apk/apk"
)

type aOp struct {
	Kind       string `json:"kind"` // build | lock | lbuild
	Variant    int    `json:"variant"`
	Plant      bool   `json:"plant,omitempty"`       // the variant's apks are planted as raw .apk files in the cache; HTTP (index included) serves variant 0
	// lbuild: zero | swap | malformed | bare (right checksum, no Q1 prefix) | caseflip (one base64 letter in the other
	// case: another digest) | bitflip (one bit of the digest) | noncanon (another text for the SAME digest: must be accepted)
	LockTamper string `json:"lock_tamper,omitempty"`
	LockTarget int    `json:"lock_target,omitempty"`
	// Same: the operation runs in the process of the previous one (no reset of the process-wide caches of
	// pkg/apk/apk: globalApkCache, the memo of expanded packages keyed by URL, survives). Default: a fresh process.
	Same bool `json:"same,omitempty"`
	// Flaky (round 5): what the repository serves for a package URL CHANGES between the requests of one operation:
	// the k-th GET of the URL gets Resp[min(k, len-1)].  Packages without an entry are served as the variant says.
	Flaky []aFlaky `json:"flaky,omitempty"`
}

// aResp is one response of a scripted URL: the package served (Sub, default: what the variant serves) and what
// happens to its bytes on the way (Fault; the Content-Length is honest about what is sent, so no read fails and
// the range-retry transport has nothing to repeat).
type aResp struct {
	// "" intact | cut-sig / cut-ctl (the body ends at a member boundary: after the signature / the control member) |
	// cut-mid-ctl / cut-mid-dat (in the middle of a member) | cut-tail (the last gzip trailer is short) |
	// garble-crc (one bit of the last CRC-32) | garble-mid (one byte inside the data member) | garble-hdr (gzip magic of the control member)
	Fault string  `json:"fault,omitempty"`
	Sub   *aServe `json:"sub,omitempty"`
	Kind  string  `json:"kind,omitempty"` // label of Sub (tags)
}

type aFlaky struct {
	Pkg  int     `json:"pkg"`
	Resp []aResp `json:"resp"`
}

var aFaults = []string{"cut-mid-dat", "cut-ctl", "cut-sig", "cut-mid-ctl", "cut-tail", "garble-crc", "garble-mid", "garble-hdr"}

// aSubKinds: what a later (or the first) response may carry instead of the variant's package: the tamper kinds that
// only change what is SERVED (the index keeps recording what the variant records), `v0` = the genuine package
var aSubKinds = []string{"other-apk", "newer-apk", "v0", "ctl-desc", "dat-other", "dat-body-resummed", "missing", ""}

// genFlaky draws the script of one package URL for one operation.
func genFlaky(r *Rng, c *aCase, variant int, k int) aFlaky {
	np := len(c.Pkgs)
	fl := aFlaky{Pkg: r.Intn(np)}
	sub := func(kind string) aResp {
		switch kind {
		case "":
			return aResp{}
		case "v0":
			s := c.Variants[0][fl.Pkg]
			return aResp{Sub: &s, Kind: kind}
		}
		v := append([]aServe(nil), c.Variants[variant]...)
		applyTamper(r, c, v, fl.Pkg, kind)
		s := v[fl.Pkg]
		return aResp{Sub: &s, Kind: kind}
	}
	n := r.Range(2, 3)
	for j := 0; j < n; j++ {
		var rs aResp
		switch {
		case j == 0 && r.Chance(80):
			// the first response is damaged on the way (round-robin over the faults so that every kind is covered evenly)
			rs = sub(Pick(r, []string{"", "", "v0"}))
			rs.Fault = aFaults[(k+r.Intn(2))%len(aFaults)]
		case j == 0:
			// the first response is another package, the genuine one comes later: only the first counts
			rs = sub(Pick(r, []string{"other-apk", "newer-apk", "ctl-desc", "missing"}))
		case r.Chance(25):
			rs = sub(Pick(r, []string{"", "v0"}))
			rs.Fault = Pick(r, aFaults)
		default:
			rs = sub(aSubKinds[(k+j+r.Intn(3))%len(aSubKinds)])
		}
		fl.Resp = append(fl.Resp, rs)
	}
	return fl
}

type aCase struct {
	Pkgs     []aPkg     `json:"pkgs"`
	Variants [][]aServe `json:"variants"`
	Ops      []aOp      `json:"ops"`
	Cache    bool       `json:"cache"`
	Infos    []string   `json:"infos,omitempty"` // .PKGINFO texts for auth.datahash
}

type authSuite struct{}

func init() { register(authSuite{}) }

func (authSuite) Name() string { return "authentic" }

var aWords = []string{"alpha", "bravo", "carol", "delta", "echo", "fox", "golf", "hotel"}

func genAlt0(r *Rng, name string) aAlt {
	a := aAlt{Desc: "package " + name}
	base := "opt/" + name
	a.Files = append(a.Files, aFile{Path: "opt", Type: "dir", Mode: 0o755}, aFile{Path: base, Type: "dir", Mode: 0o755})
	n := r.Range(1, 4)
	rec := ""
	if r.Chance(12) {
		rec = "q1"
	}
	for i := 0; i < n; i++ {
		body := fmt.Sprintf("%s file %d %x\n", name, i, r.Next())
		if r.Chance(10) {
			body = ""
		}
		if r.Chance(10) {
			body = strings.Repeat(body, 200)
		}
		a.Files = append(a.Files, aFile{Path: fmt.Sprintf("%s/f%d", base, i), Type: "file", Mode: 0o644, Content: body, Rec: rec})
	}
	if r.Chance(40) {
		a.Files = append(a.Files, aFile{Path: base + "/link", Type: "symlink", Mode: 0o777, Link: "f0", Rec: rec})
	}
	if r.Chance(20) {
		a.Files = append(a.Files, aFile{Path: base + "/hard", Type: "hardlink", Mode: 0o644, Link: base + "/f0"})
	}
	switch {
	case r.Chance(8):
		a.Datahash = "empty"
	case r.Chance(6):
		a.Datahash = "upper"
	case r.Chance(6):
		a.Datahash = "spaced"
	}
	return a
}

func cloneAlt(a aAlt) aAlt {
	b := a
	b.Files = append([]aFile(nil), a.Files...)
	return b
}

func regIdx(a aAlt) []int {
	var out []int
	for i, f := range a.Files {
		if f.Type == "file" {
			out = append(out, i)
		}
	}
	return out
}

var aTampers = []string{"ctl-desc", "ctl-other", "dat-other", "dat-body-resummed", "dat-body-stale", "dat-nosum", "consistent-badsum",
	"consistent-nosum", "consistent-nosum-link", "consistent-malformed", "consistent-nodatahash", "consistent-dupdatahash", "other-apk", "newer-apk",
	"zero-index", "missing", "sig-flip", "consistent-q1", "consistent-blanksum",
	// round 2: a republished package (new content AND new index checksum under the same URL), near-miss index checksums,
	// entries of unsupported tar types, same-name entries in one data section
	"republished", "caseflip-index", "bitflip-index", "none-index", "q2-index",
	"consistent-cont", "consistent-dev", "consistent-fifo", "consistent-hidden-cont",
	"consistent-dup-regreg", "consistent-dup-symcopy", "consistent-dup-symown", "consistent-dup-hard", "consistent-dup-cont",
	"consistent-dup-hidden", "consistent-dup-alias", "consistent-dup-dir", "consistent-dup-dirdir"}

// sameLen returns a text of the same length as s that differs from it everywhere.
func sameLen(s string, c byte) string {
	b := []byte(s)
	for i := range b {
		if b[i] == c {
			b[i] = c + 1
		} else {
			b[i] = c
		}
	}
	return string(b)
}

// applyTamper edits the serve entry of package i (adding an alternative build when needed).
func applyTamper(r *Rng, c *aCase, v []aServe, i int, kind string) {
	p := &c.Pkgs[i]
	addAlt := func(f func(a *aAlt)) int {
		a := cloneAlt(p.Alts[0])
		f(&a)
		p.Alts = append(p.Alts, a)
		return len(p.Alts) - 1
	}
	other := func() int {
		if len(c.Pkgs) < 2 {
			return -1
		}
		j := r.Intn(len(c.Pkgs) - 1)
		if j >= i {
			j++
		}
		return j
	}
	s := &v[i]
	s.Tamper = kind
	if !strings.HasPrefix(kind, "consistent-") && kind != "sig-flip" && kind != "missing" {
		// the index keeps recording alternative 0 (a second tamper on the same package must not inherit "served":
		// the same package installed under two names is a file-conflict matter, not C05's)
		s.Index = ""
	}
	someReg := func(a *aAlt) int { ix := regIdx(*a); return ix[r.Intn(len(ix))] }
	switch kind {
	case "ctl-desc":
		k := addAlt(func(a *aAlt) { a.Desc += " (rebuilt)" })
		s.Ctl = aRef{i, k}
	case "ctl-other":
		if j := other(); j >= 0 {
			s.Ctl = aRef{j, 0}
		} else {
			s.Tamper = "none"
		}
	case "dat-other":
		if j := other(); j >= 0 {
			s.Dat = aRef{j, 0}
		} else {
			s.Tamper = "none"
		}
	case "dat-body-resummed":
		k := addAlt(func(a *aAlt) { x := someReg(a); a.Files[x].Content += "tampered\n" })
		s.Dat = aRef{i, k}
	case "dat-body-stale":
		k := addAlt(func(a *aAlt) { x := someReg(a); a.Files[x].Content += "tampered\n"; a.Files[x].Rec = "bad" })
		s.Dat = aRef{i, k}
	case "dat-nosum":
		k := addAlt(func(a *aAlt) { x := someReg(a); a.Files[x].Rec = "none" })
		s.Dat = aRef{i, k}
	case "consistent-badsum", "consistent-nosum", "consistent-malformed", "consistent-q1", "consistent-blanksum":
		rec := map[string]string{"consistent-badsum": "bad", "consistent-nosum": "none", "consistent-malformed": "malformed", "consistent-q1": "q1", "consistent-blanksum": "blankq1"}[kind]
		k := addAlt(func(a *aAlt) { x := someReg(a); a.Files[x].Rec = rec })
		s.Ctl, s.Dat, s.Index = aRef{i, k}, aRef{i, k}, "served"
	case "consistent-nosum-link":
		k := addAlt(func(a *aAlt) {
			a.Files = append(a.Files, aFile{Path: "opt/" + p.Name + "/l2", Type: "symlink", Mode: 0o777, Link: "f0", Rec: "none"})
		})
		s.Ctl, s.Dat, s.Index = aRef{i, k}, aRef{i, k}, "served"
	case "consistent-nodatahash", "consistent-dupdatahash":
		k := addAlt(func(a *aAlt) { a.Datahash = map[string]string{"consistent-nodatahash": "absent", "consistent-dupdatahash": "dup"}[kind] })
		s.Ctl, s.Dat, s.Index = aRef{i, k}, aRef{i, k}, "served"
	case "other-apk":
		if j := other(); j >= 0 {
			s.Ctl, s.Dat = aRef{j, 0}, aRef{j, 0}
		} else {
			s.Tamper = "none"
		}
	case "newer-apk":
		k := addAlt(func(a *aAlt) { a.Desc += " (newer)"; x := someReg(a); a.Files[x].Content += "newer\n" })
		s.Ctl, s.Dat = aRef{i, k}, aRef{i, k}
	case "zero-index":
		s.Index = "zero"
	case "caseflip-index", "bitflip-index", "none-index", "q2-index":
		s.Index = strings.TrimSuffix(kind, "-index")
	case "republished":
		// the repository publishes new content under the same name-version and records ITS checksum: authentic by
		// itself; a process that still holds the first publication must not install it for the new checksum
		k := addAlt(func(a *aAlt) { a.Desc += " (republished)"; x := someReg(a); a.Files[x].Content += "second publication\n" })
		s.Ctl, s.Dat, s.Index = aRef{i, k}, aRef{i, k}, "served"
	case "consistent-cont", "consistent-dev", "consistent-fifo":
		// an entry of a tar type the installer cannot lay out (the '7' one carries bytes nobody hashes): the build must abort
		k := addAlt(func(a *aAlt) {
			base := "opt/" + p.Name + "/"
			switch kind {
			case "consistent-cont":
				a.Files = append(a.Files, aFile{Path: base + "contig", Type: "cont", Mode: 0o644, Content: "contiguous bytes\n", Rec: Pick(r, []string{"", "none"})})
			case "consistent-dev":
				a.Files = append(a.Files, aFile{Path: base + "dev", Type: Pick(r, []string{"char", "block"}), Mode: 0o600})
			default:
				a.Files = append(a.Files, aFile{Path: base + "fifo", Type: "fifo", Mode: 0o600})
			}
		})
		s.Ctl, s.Dat, s.Index = aRef{i, k}, aRef{i, k}, "served"
	case "consistent-hidden-cont":
		// a hidden leading entry (skipped by the installer) of a data-bearing unsupported type, referenced by nothing
		k := addAlt(func(a *aAlt) {
			a.Files = append([]aFile{{Path: ".hid-" + p.Name, Type: "cont", Mode: 0o644, Content: "hidden bytes\n", Rec: "none"}}, a.Files...)
		})
		s.Ctl, s.Dat, s.Index = aRef{i, k}, aRef{i, k}, "served"
	case "consistent-dup-dirdir":
		// a directory listed twice (with another mode): carries no content, fine
		k := addAlt(func(a *aAlt) {
			a.Files = append(a.Files, aFile{Path: "opt/" + p.Name, Type: "dir", Mode: 0o750}, aFile{Path: "opt/" + p.Name + "/sub", Type: "rawdir", Mode: 0o755},
				aFile{Path: "opt/" + p.Name + "/sub", Type: "rawdir", Mode: 0o700})
		})
		s.Ctl, s.Dat, s.Index = aRef{i, k}, aRef{i, k}, "served"
	case "consistent-dup-regreg", "consistent-dup-symcopy", "consistent-dup-symown", "consistent-dup-hard", "consistent-dup-cont",
		"consistent-dup-hidden", "consistent-dup-alias", "consistent-dup-dir":
		// one data section names an entry twice; control checksum, datahash and every per-file record are right
		k := addAlt(func(a *aAlt) {
			x := someReg(a)
			if a.Files[x].Content == "" {
				a.Files[x].Content = "shadowed " + p.Name + "\n"
			}
			a.Files[x].Rec = ""
			own := a.Files[x].Content
			name := a.Files[x].Path
			base := "opt/" + p.Name + "/"
			switch kind {
			case "consistent-dup-regreg":
				c := own + "second entry of the same name\n"
				if r.Chance(50) {
					c = sameLen(own, 'B')
				}
				a.Files = append(a.Files, aFile{Path: name, Type: "file", Mode: 0o644, Content: c})
			case "consistent-dup-symcopy":
				// a symlink of the same name that copies the record of the file it follows, pointing at a sibling of equal length
				a.Files = append(a.Files, aFile{Path: base + "tw", Type: "file", Mode: 0o644, Content: sameLen(own, 'B')},
					aFile{Path: name, Type: "symlink", Mode: 0o777, Link: "tw", RecOf: &own})
			case "consistent-dup-symown":
				a.Files = append(a.Files, aFile{Path: name, Type: "symlink", Mode: 0o777, Link: "nowhere"})
			case "consistent-dup-hard":
				a.Files = append(a.Files, aFile{Path: base + "tw", Type: "file", Mode: 0o644, Content: sameLen(own, 'B')},
					aFile{Path: name, Type: "hardlink", Mode: 0o644, Link: base + "tw"})
			case "consistent-dup-cont":
				f := aFile{Path: name, Type: "cont", Mode: 0o644, Content: sameLen(own, 'C'), Rec: "none"}
				if r.Chance(50) {
					f.Rec, f.RecOf = "", &own
				}
				a.Files = append(a.Files, f)
			case "consistent-dup-hidden":
				// … pointing at a hidden leading entry of a type that nobody hashes
				a.Files = append([]aFile{{Path: ".hid-" + p.Name, Type: "cont", Mode: 0o644, Content: sameLen(own, 'E'), Rec: "none"}}, a.Files...)
				a.Files = append(a.Files, aFile{Path: name, Type: "symlink", Mode: 0o777, Link: "../../.hid-" + p.Name, RecOf: &own})
			case "consistent-dup-dir":
				// a directory entry that takes the very name of the file (the index would then serve no bytes for it)
				a.Files = append(a.Files, aFile{Path: name, Type: "rawdir", Mode: 0o755})
			case "consistent-dup-alias":
				// a second name (hard link) for the file, then a new regular entry under the first name
				a.Files = append(a.Files, aFile{Path: base + "zalias", Type: "hardlink", Mode: 0o644, Link: name},
					aFile{Path: name, Type: "file", Mode: 0o644, Content: sameLen(own, 'B')})
			}
		})
		s.Ctl, s.Dat, s.Index = aRef{i, k}, aRef{i, k}, "served"
	case "missing":
		s.Missing = true
	case "sig-flip":
		s.Signed = !s.Signed
	}
}

func (authSuite) Gen(r *Rng, i int, tier string) any {
	c := &aCase{Cache: r.Chance(70)}
	np := r.Range(1, 3)
	names := append([]string(nil), aWords...)
	r.Shuffle(len(names), func(a, b int) { names[a], names[b] = names[b], names[a] })
	for k := 0; k < np; k++ {
		c.Pkgs = append(c.Pkgs, aPkg{Name: names[k], Version: fmt.Sprintf("%d.%d-r%d", r.Range(0, 3), r.Range(0, 9), r.Range(0, 2)), Alts: []aAlt{genAlt0(r, names[k])}})
	}
	v0 := make([]aServe, np)
	for k := range v0 {
		v0[k] = aServe{Ctl: aRef{k, 0}, Dat: aRef{k, 0}, Signed: r.Chance(40)}
	}
	c.Variants = append(c.Variants, v0)
	nv := r.Range(1, 2)
	for k := 0; k < nv; k++ {
		v := append([]aServe(nil), v0...)
		nt := 1
		if r.Chance(20) {
			nt = 2
		}
		for t := 0; t < nt; t++ {
			// the tamper kind is selected round-robin from the case index so that every kind is covered evenly
			kind := aTampers[(i+k*7+t*3+r.Intn(2))%len(aTampers)]
			applyTamper(r, c, v, r.Intn(np), kind)
		}
		c.Variants = append(c.Variants, v)
	}
	nops := r.Range(1, 4)
	for k := 0; k < nops; k++ {
		op := aOp{Kind: "build"}
		switch x := r.Intn(100); {
		case x < 22:
			op.Kind = "lbuild"
		case x < 34:
			op.Kind = "lock"
		}
		if k == 0 && r.Chance(45) {
			op.Variant = 0
		} else if r.Chance(80) {
			op.Variant = r.Range(1, len(c.Variants)-1)
		}
		if c.Cache && op.Variant != 0 && r.Chance(15) {
			op.Plant = true
		}
		if op.Kind == "lbuild" && r.Chance(40) {
			op.LockTamper = Pick(r, []string{"zero", "swap", "malformed", "bare", "caseflip", "bitflip", "noncanon"})
			op.LockTarget = r.Intn(np)
		}
		// round 2: histories inside ONE process (the memo of expanded packages is only used with a cache directory,
		// but the flag is drawn for every case: without one it must make no difference)
		if k > 0 && r.Chance(55) {
			op.Same = true
		}
		// round 5: the answer to a package URL changes between the requests of this operation
		if !op.Plant && r.Chance(35) {
			op.Flaky = append(op.Flaky, genFlaky(r, c, op.Variant, i+k))
			if len(c.Pkgs) > 1 && r.Chance(20) {
				if f2 := genFlaky(r, c, op.Variant, i+k+3); f2.Pkg != op.Flaky[0].Pkg {
					op.Flaky = append(op.Flaky, f2)
				}
			}
		}
		c.Ops = append(c.Ops, op)
	}
	// .PKGINFO texts for the datahash parser
	vals := []string{"abc123", "", "ABC", "0f 0f", "x=y", "deadbeef"}
	for k := 0; k < 4; k++ {
		var b strings.Builder
		nl := r.Range(0, 5)
		for l := 0; l < nl; l++ {
			key := Pick(r, []string{"datahash", "datahash", "pkgname", "Datahash", "datahash2", " datahash", "datahash\t", "size"})
			sep := Pick(r, []string{" = ", "=", " =", "= ", "==", " ", "\t=\t"})
			end := Pick(r, []string{"\n", "\n", "\r\n", "\n\n", ""})
			b.WriteString(key + sep + Pick(r, vals) + Pick(r, []string{"", " ", "\v", "\f"}) + end)
		}
		c.Infos = append(c.Infos, b.String())
	}
	return c
}

func (op aOp) flakyOf(i int) *aFlaky {
	for k := range op.Flaky {
		if op.Flaky[k].Pkg == i {
			return &op.Flaky[k]
		}
	}
	return nil
}

// serve: the package a response carries (the variant's own unless the response names a substitute)
func (rs aResp) serve(own aServe) aServe {
	if rs.Sub != nil {
		return *rs.Sub
	}
	return own
}

// damaged applies a transport fault to the bytes of a package (signature?, control, data members).
func (w *aWorld) damaged(s aServe, fault string) []byte {
	var sig []byte
	if s.Signed {
		sig = w.Sig
	}
	ctl, dat := w.Ctl[s.Ctl.Pkg][s.Ctl.Alt].Bytes, w.Dat[s.Dat.Pkg][s.Dat.Alt].Bytes
	cat := func(parts ...[]byte) []byte {
		var out []byte
		for _, p := range parts {
			out = append(out, p...)
		}
		return out
	}
	all := cat(sig, ctl, dat)
	switch fault {
	case "cut-sig":
		if s.Signed {
			return cat(sig)
		}
		return cat(ctl)
	case "cut-ctl":
		return cat(sig, ctl)
	case "cut-mid-ctl":
		return cat(sig, ctl[:len(ctl)/2])
	case "cut-mid-dat":
		return cat(sig, ctl, dat[:len(dat)/2])
	case "cut-tail":
		return all[:len(all)-5]
	case "garble-crc":
		all[len(all)-8] ^= 0x01
	case "garble-mid":
		all[len(sig)+len(ctl)+len(dat)/2] ^= 0x20
	case "garble-hdr":
		all[len(sig)] ^= 0x40
	}
	return all
}

// flakyHook answers the GETs of the scripted package URLs of one operation: the k-th GET of a URL gets the k-th
// response of its script (the last one from then on); everything else is served by the transport as usual.
func (w *aWorld) flakyHook(pkgs []aPkg, v []aServe, op aOp) func(req *http.Request, body []byte) (*http.Response, bool) {
	var mu sync.Mutex
	count := map[int]int{}
	return func(req *http.Request, _ []byte) (*http.Response, bool) {
		if req.Method != http.MethodGet || !strings.HasSuffix(req.URL.Path, ".apk") {
			return nil, false
		}
		i := -1
		for k, p := range pkgs {
			if strings.HasSuffix(req.URL.Path, "/"+p.Name+"-"+p.Version+".apk") {
				i = k
			}
		}
		fl := op.flakyOf(i)
		if i < 0 || fl == nil {
			return nil, false
		}
		mu.Lock()
		k := count[i]
		count[i]++
		mu.Unlock()
		if k >= len(fl.Resp) {
			k = len(fl.Resp) - 1
		}
		rs := fl.Resp[k]
		s := rs.serve(v[i])
		code, b := 200, []byte(nil)
		if s.Missing {
			code, b = 404, []byte("not found")
		} else {
			b = w.damaged(s, rs.Fault)
		}
		return &http.Response{StatusCode: code, Status: fmt.Sprintf("%d %s", code, http.StatusText(code)), Proto: "HTTP/1.1", ProtoMajor: 1, ProtoMinor: 1,
			Header: http.Header{}, Body: io.NopCloser(bytes.NewReader(b)), ContentLength: int64(len(b)), Request: req}, true
	}
}

func pkgIndexOfPath(pkgs []aPkg, path string) int {
	for i, p := range pkgs {
		if strings.HasSuffix(path, "/"+p.Name+"-"+p.Version+".apk") {
			return i
		}
	}
	return 0
}

// q1ToHex: what a checksum string denotes, in the driver's notation: the digest, `~digest` when the `Q1`
// prefix is missing (bare base64), `!` when the payload is not base64.
func q1ToHex(s string) string {
	b, err := base64.StdEncoding.DecodeString(strings.TrimPrefix(s, "Q1"))
	if err != nil {
		return "!"
	}
	if !strings.HasPrefix(s, "Q1") {
		return "~" + hex.EncodeToString(b)
	}
	return hex.EncodeToString(b)
}

func errTag(err error) string {
	if err == nil {
		return "ok"
	}
	m := err.Error()
	for _, kv := range [][2]string{{"control section checksum mismatch", "err:control"}, {"decoding checksum", "err:control"}, {"data section hash mismatch", "err:data"},
		{"datahash", "err:datahash"}, {"checksum mismatch:", "err:filesum"}, {"checksum is nil", "err:norecord"}, {"decoding hex checksum", "err:badrecord"},
		{"404", "err:404"}} {
		if strings.Contains(m, kv[0]) {
			return kv[1]
		}
	}
	return "err:other"
}

// genuine re-checks, from the bytes the harness built, that alternative (j,k) is an authentic package:
// datahash of its .PKGINFO = sha256 of its data member, every regular file / symlink carries a matching record.
func (w *aWorld) genuine(j, k int) (bool, string) {
	dh, n := "", 0
	for _, l := range strings.Split(w.Ctl[j][k].Info, "\n") {
		kv := strings.SplitN(l, "=", 2)
		if len(kv) == 2 && strings.TrimSpace(kv[0]) == "datahash" {
			dh = strings.TrimSpace(kv[1])
			n++
		}
	}
	if n != 1 || !strings.EqualFold(dh, sha256hex(w.Dat[j][k].Bytes)) {
		return false, "data section does not match a recorded datahash"
	}
	for _, e := range w.Dat[j][k].Entries {
		if e.Kind == "r" && e.Rec != sha1hex(e.Body) {
			return false, "file " + e.Name + " does not match a per-file record"
		}
		if e.Kind == "s" && (e.Rec == "-" || e.Rec == "!") {
			return false, "symlink " + e.Name + " has no per-file record"
		}
	}
	return true, ""
}

func (w *aWorld) oracle(layout map[string][]byte, expected []string) string {
	img := imageFiles(layout)
	cs := installedChecksums(img["lib/apk/db/installed"])
	verified := map[string][][]byte{}
	for i, p := range w.Pkgs {
		// the installed db must record the expected control checksum (under whatever name the control section
		// carries: authentication is relative to the index / lock entry, C05 says nothing about names)
		found := false
		for _, got := range cs {
			found = found || got == strings.TrimPrefix(expected[i], "~")
		}
		if !found {
			return fmt.Sprintf("fail:%s installed with control checksum %s, index/lock records %s", p.Name, cs[p.Name], expected[i])
		}
		fj, fk := -1, -1
		for j := range w.Pkgs {
			for k := range w.Pkgs[j].Alts {
				if sha1hex(w.Ctl[j][k].Bytes) == strings.TrimPrefix(expected[i], "~") {
					fj, fk = j, k
				}
			}
		}
		if fj < 0 {
			return "fail:" + p.Name + " installed although no control section with the recorded checksum exists"
		}
		if ok, why := w.genuine(fj, fk); !ok {
			return "fail:" + p.Name + " installed: " + why
		}
		named := map[string]int{}
		for _, f := range w.Pkgs[fj].Alts[fk].Files {
			named[f.Path]++
		}
		for _, f := range w.Pkgs[fj].Alts[fk].Files {
			// a name that occurs once must be there with its content; for a repeated name the check below decides
			if f.Type != "file" || named[f.Path] > 1 {
				continue
			}
			if c, ok := img[f.Path]; !ok || !bytes.Equal(c, []byte(f.Content)) {
				return "fail:" + f.Path + " in the image differs from the authentic content"
			}
		}
		for _, e := range w.Dat[fj][fk].Entries {
			if e.Kind == "r" {
				verified[e.Name] = append(verified[e.Name], e.Body)
			}
		}
	}
	// every regular file below opt/ holds the bytes of a regular entry OF THAT NAME whose per-file record was
	// verified (genuine() above: every regular entry of the authentic builds matches its record)
	for path, c := range img {
		if !strings.HasPrefix(path, "opt/") {
			continue
		}
		ok := false
		for _, b := range verified[path] {
			ok = ok || bytes.Equal(b, c)
		}
		if !ok {
			return fmt.Sprintf("fail:%s in the image holds %q, which matches no verified per-file record of an entry of that name", path, truncate(string(c), 40))
		}
	}
	return "pass"
}

func truncate(s string, n int) string {
	if len(s) > n {
		return s[:n] + "…"
	}
	return s
}

// authInstalledLine: the control checksums recorded by the installed db, sorted, without repetitions.
func authInstalledLine(img map[string][]byte) string {
	var out []string
	for _, c := range installedChecksums(img["lib/apk/db/installed"]) {
		out = append(out, c)
	}
	sort.Strings(out)
	return strings.Join(dedup(out), ",")
}

// servedLine: `<hex path>=<token of the content>` of every regular file below opt/ in the image (`?`: bytes that
// occur nowhere in the packages the harness built).
func (w *aWorld) servedLine(img map[string][]byte) string {
	var out []string
	for path, c := range img {
		if !strings.HasPrefix(path, "opt/") {
			continue
		}
		t := "?"
		if id, ok := w.ids[string(c)]; ok {
			t = fmt.Sprint(id)
		}
		out = append(out, hx(path)+"="+t)
	}
	sort.Strings(out)
	return strings.Join(out, ",")
}

func tamperLock(lock []byte, target string, mode string, swapWith string) ([]byte, error) {
	var m map[string]any
	if err := json.Unmarshal(lock, &m); err != nil {
		return nil, err
	}
	pk := m["contents"].(map[string]any)["packages"].([]any)
	find := func(name string) map[string]any {
		for _, x := range pk {
			if e := x.(map[string]any); e["name"] == name {
				return e
			}
		}
		return nil
	}
	e := find(target)
	if e == nil {
		return nil, fmt.Errorf("lock has no package %s", target)
	}
	switch mode {
	case "zero":
		e["checksum"] = "Q1" + base64.StdEncoding.EncodeToString(make([]byte, 20))
	case "malformed":
		e["checksum"] = "Q1!!not-base64!!"
	case "bare":
		e["checksum"] = strings.TrimPrefix(e["checksum"].(string), "Q1")
	case "caseflip", "bitflip":
		if d, err := base64.StdEncoding.DecodeString(strings.TrimPrefix(e["checksum"].(string), "Q1")); err == nil && len(d) == 20 {
			e["checksum"] = "Q1" + base64.StdEncoding.EncodeToString(authNearMiss(d, mode))
		}
	case "noncanon":
		e["checksum"] = authNonCanonical(e["checksum"].(string))
	case "swap":
		if o := find(swapWith); o != nil && swapWith != target {
			e["checksum"] = o["checksum"]
		} else {
			e["checksum"] = "Q1" + base64.StdEncoding.EncodeToString(bytes.Repeat([]byte{7}, 20))
		}
	}
	return json.Marshal(m)
}

func lockChecksums(lock []byte) map[string]string {
	var l struct {
		Contents struct {
			Packages []struct {
				Name     string `json:"name"`
				Checksum string `json:"checksum"`
			} `json:"packages"`
		} `json:"contents"`
	}
	json.Unmarshal(lock, &l)
	out := map[string]string{}
	for _, p := range l.Contents.Packages {
		out[p.Name] = p.Checksum
	}
	return out
}

func (authSuite) Run(raw json.RawMessage) []Step {
	var c aCase
	if err := json.Unmarshal(raw, &c); err != nil {
		return []Step{{Line: "auth.bad", Go: "bad-case", Trivial: true}}
	}
	// apko falls back to the user cache directory when none is configured: "cache disabled" needs both unset
	os.Unsetenv("HOME")
	os.Unsetenv("XDG_CACHE_HOME")
	slog.SetDefault(slog.New(slog.NewTextHandler(io.Discard, nil))) // apko logs every installed package
	w := newAWorld(c.Pkgs)
	H, C, D := w.tables()
	var world []string
	for _, p := range c.Pkgs {
		world = append(world, p.Name)
	}
	cacheRoot := ""
	if c.Cache {
		d, err := os.MkdirTemp("", "verif-auth-cache-")
		if err != nil {
			panic(err)
		}
		defer os.RemoveAll(d)
		cacheRoot = d
	}
	repos := make([]*SRepo, len(c.Variants))
	for i, v := range c.Variants {
		repos[i] = w.repo(v)
	}
	var steps []Step
	var modelOps []string
	// the lock file of variant 0, taken by the real `apko lock` in a process of its own (not part of the history)
	var v0lock []byte
	v0lockErr := ""
	for _, op := range c.Ops {
		if op.Kind == "lbuild" && v0lock == nil && v0lockErr == "" {
			l, err := authLock(world, &SynthTransport{Repo: repos[0]}, "", true)
			if err != nil {
				v0lockErr = "lock of variant 0 failed: " + errTag(err)
			}
			v0lock = l
			apk.VerifResetGlobalCaches()
		}
	}
	coldWarm := "off"
	if c.Cache {
		coldWarm = "cold"
	}
	for k, op := range c.Ops {
		fresh := k == 0 || !op.Same
		v := c.Variants[op.Variant]
		httpRepo := repos[op.Variant]
		indexVariant := v
		if op.Plant {
			httpRepo, indexVariant = repos[0], c.Variants[0]
		}
		// expected checksums: what they denote (driver notation) and the checksum strings themselves
		expected := make([]string, len(c.Pkgs))
		rawSum := make([]string, len(c.Pkgs))
		for i := range c.Pkgs {
			ic := w.indexChecksum(i, indexVariant[i])
			expected[i] = hex.EncodeToString(ic)
			rawSum[i] = "Q1" + base64.StdEncoding.EncodeToString(ic)
		}
		var lock []byte
		setupErr := ""
		if op.Kind == "lbuild" {
			setupErr = v0lockErr
			lock = v0lock
			if lock != nil && op.LockTamper != "" {
				l, err := tamperLock(lock, c.Pkgs[op.LockTarget].Name, op.LockTamper, c.Pkgs[(op.LockTarget+1)%len(c.Pkgs)].Name)
				if err != nil {
					setupErr = "lock edit failed"
				}
				lock = l
			}
			if lock != nil {
				lc := lockChecksums(lock)
				for i, p := range c.Pkgs {
					expected[i], rawSum[i] = q1ToHex(lc[p.Name]), lc[p.Name]
				}
			}
		}
		// model description of the operation
		var pk []string
		for i, p := range c.Pkgs {
			s := v[i]
			if op.Plant && s.Missing {
				s = c.Variants[0][i] // nothing planted for it: the request goes to HTTP, which serves variant 0
			}
			// what a response means to the model: `-` when nothing that splits into members arrives (404, a body cut
			// short or garbled), else the tokens of the members served
			apkTok := func(s aServe, fault string) string {
				if s.Missing || fault != "" {
					return "-"
				}
				sg := "-"
				if s.Signed {
					sg = fmt.Sprint(w.tok(w.Sig))
				}
				return fmt.Sprintf("%s:%d:%d", sg, w.tok(w.Ctl[s.Ctl.Pkg][s.Ctl.Alt].Bytes), w.tok(w.Dat[s.Dat.Pkg][s.Dat.Alt].Bytes))
			}
			f := apkTok(s, "")
			later := ""
			if fl := op.flakyOf(i); fl != nil {
				var ls []string
				for j, rs := range fl.Resp {
					t := apkTok(rs.serve(s), rs.Fault)
					if j == 0 {
						f = t
					} else {
						if rs.Fault != "" && !rs.serve(s).Missing {
							t = "~" // a 200 whose body does not split into members (the first answer has one notation for both)
						}
						ls = append(ls, t)
					}
				}
				later = "." + strings.Join(ls, "/")
			}
			pk = append(pk, fmt.Sprintf("%s.%s.%s.%s%s", hx(p.Name+"-"+p.Version), expected[i], f, hx(rawSum[i]), later))
		}
		kindCh, cacheCh := "b", "0"
		if op.Kind == "lock" {
			kindCh = "l"
		}
		if c.Cache {
			cacheCh = "1"
		}
		procCh := "s"
		if fresh {
			procCh = "f"
		}
		modelOps = append(modelOps, kindCh+"@"+cacheCh+"@"+strings.Join(pk, "+")+"@"+procCh)
		args := strings.Join([]string{H, C, D, strings.Join(modelOps, ";"), fmt.Sprint(k)}, "\t")

		// run the real command
		var planted []string
		if op.Plant {
			for i, p := range c.Pkgs {
				if v[i].Missing {
					continue
				}
				f := filepath.Join(cacheRoot, "https%3A%2F%2Frepo.test%2F", "x86_64", p.Name+"-"+p.Version+".apk")
				os.MkdirAll(filepath.Dir(f), 0o755)
				os.WriteFile(f, w.apkBytes(v[i]), 0o644)
				planted = append(planted, f)
			}
		}
		var err error
		var layout map[string][]byte
		tr := &SynthTransport{Repo: httpRepo}
		if len(op.Flaky) > 0 {
			tr.Hook = w.flakyHook(c.Pkgs, v, op)
		}
		switch {
		case setupErr != "":
			err = fmt.Errorf("%s", setupErr)
		case op.Kind == "lock":
			_, err = authLock(world, tr, cacheRoot, fresh)
		default:
			layout, err = authBuild(world, tr, cacheRoot, lock, fresh)
		}
		for _, f := range planted {
			os.Remove(f)
		}
		if op.Plant {
			// a planted .apk must be read from the cache directory, never requested
			for _, rq := range tr.Log {
				if strings.HasSuffix(rq.Path, ".apk") && !v[pkgIndexOfPath(c.Pkgs, rq.Path)].Missing {
					setupErr = "planted apk was fetched over HTTP: " + rq.Path
				}
			}
		}
		goV := "ok"
		if err != nil {
			goV = "fail"
		}
		if setupErr != "" {
			goV = "setup:" + setupErr
		}
		var tampers []string
		for _, s := range v {
			if s.Tamper != "" && s.Tamper != "none" {
				tampers = append(tampers, s.Tamper)
			}
		}
		sort.Strings(tampers)
		proc := "same"
		if fresh {
			proc = "fresh"
		}
		desc := fmt.Sprintf("op %d %s variant=%d tampers=%v cache=%s process=%s plant=%v locktamper=%s", k, op.Kind, op.Variant, tampers, coldWarm, proc, op.Plant, op.LockTamper)
		tags := []string{"op:" + op.Kind, "cache:" + coldWarm, "go:" + errTag(err), "process:" + proc}
		if !fresh && c.Cache {
			tags = append(tags, "memo-live")
		}
		if len(tampers) == 0 {
			tags = append(tags, "tamper:none")
		}
		for _, t := range tampers {
			tags = append(tags, "tamper:"+t)
		}
		if op.LockTamper != "" {
			tags = append(tags, "locktamper:"+op.LockTamper)
		}
		if op.Plant {
			tags = append(tags, "planted-apk")
		}
		for _, fl := range op.Flaky {
			var ds []string
			for _, rs := range fl.Resp {
				ds = append(ds, rs.Fault+"/"+rs.Kind)
				tags = append(tags, "resp:"+rs.Fault+"/"+rs.Kind)
			}
			gets := 0
			for _, rq := range tr.Log {
				if rq.Method == "GET" && pkgIndexOfPath(c.Pkgs, rq.Path) == fl.Pkg && strings.HasSuffix(rq.Path, ".apk") {
					gets++
				}
			}
			desc += fmt.Sprintf(" flaky[%s: %s; %d GET]", c.Pkgs[fl.Pkg].Name, strings.Join(ds, " then "), gets)
			tags = append(tags, fmt.Sprintf("flaky-gets:%d", gets))
		}
		steps = append(steps, Step{Line: "auth.verdict\t" + args, Go: goV, Desc: desc + " -> " + errTag(err), Tags: tags})
		if c.Cache {
			steps = append(steps, Step{Line: "auth.cache\t" + args, Go: cacheListing(cacheRoot), Desc: desc + " (cache names)"})
			coldWarm = "warm"
		}
		if err == nil && layout != nil {
			img := imageFiles(layout)
			steps = append(steps, Step{Line: "auth.installed\t" + args, Go: authInstalledLine(img), Desc: desc + " (control checksums in the installed db)"})
			steps = append(steps, Step{Line: "auth.files\t" + args, Go: w.servedLine(img), Desc: desc + " (bytes of the regular files laid out)"})
			steps = append(steps, Step{Line: "auth.class\t" + args, Mode: "oracle-go", NoImpl: true, GoSpec: w.oracle(layout, expected), Go: "installed",
				Desc: desc + " (image oracle)", Tags: []string{"oracle:image"}})
		}
	}
	for _, info := range c.Infos {
		raw := gz(tarBytes(false, func(tw *tar.Writer) {
			tw.WriteHeader(&tar.Header{Name: ".PKGINFO", Mode: 0o644, Size: int64(len(info)), Typeflag: tar.TypeReg})
			tw.Write([]byte(info))
		}))
		g := "err"
		if v, err := apk.VerifDatahash(bytes.NewReader(raw)); err == nil {
			g = "ok " + hx(v)
		}
		steps = append(steps, Step{Line: "auth.datahash\t" + hx(info), Go: g, Desc: fmt.Sprintf("datahash(%q)", info), Tags: []string{"datahash:" + g[:2]}, Trivial: g == "err"})
	}
	return steps
}
