package main

// corr:split — C05, the split-and-hash plumbing: expandapk.ExpandApk (member loop, expandApkWriter, the tee / hash
// wiring, sizes, the .tar), APKExpanded.PackageData without the .tar, expandapk.Split via apk.ResolveApk — on streams
// built member by member by this file, read through a source that returns reads of scripted sizes.  The Lean model
// (Model/ExpandSplit.lean) predicts accept / reject, every recorded hash, size and file; the oracle (evaluated in Lean,
// with SHA-1 / SHA-256 computed in Lean on the real bytes) says that an accepted stream was hashed and written along
// exactly the byte ranges the format defines.  gzip / tar tables come from this file's own compress/gzip and
// archive/tar passes, never from apko.

import (
	"archive/tar"
	"bytes"
	"compress/flate"
	"compress/gzip"
	"context"
	"crypto/sha1" //nolint:gosec
	"crypto/sha256"
	"encoding/base64"
	"encoding/hex"
	"encoding/json"
	"errors"
	"fmt"
	"io"
	"os"
	"strings"
	"time"

	"chainguard.dev/apko/pkg/apk/apk"
	"chainguard.dev/apko/pkg/apk/expandapk"
)

type spFile struct {
	Name string `json:"name"`
	Type string `json:"type"` // reg symlink dir
	Body []byte `json:"body,omitempty"`
	Link string `json:"link,omitempty"`
	Rec  string `json:"rec"` // good bad none malformed q1
}

type spSeg struct {
	Kind    string   `json:"kind"` // m = gzip member, g = bytes that are no member
	Files   []spFile `json:"files,omitempty"`
	Term    bool     `json:"term,omitempty"`   // end-of-archive blocks written
	Raw     []byte   `json:"raw,omitempty"`    // decompressed bytes given directly (not a tar) when NoTar
	NoTar   bool     `json:"notar,omitempty"`  //
	Level   int      `json:"level"`            // compress/flate level
	FName   string   `json:"fname,omitempty"`  // gzip FNAME
	Extra   []byte   `json:"extra,omitempty"`  // gzip FEXTRA
	Comment string   `json:"comment,omitempty"`
	MTime   int64    `json:"mtime,omitempty"`
	Flushes int      `json:"flushes,omitempty"` // deflate blocks forced by Flush()
	Garbage []byte   `json:"garbage,omitempty"`
	Damage  string   `json:"damage,omitempty"` // a member turned into garbage: crc | trunc | magic
	Note    string   `json:"note,omitempty"`
}

type spCase struct {
	Segs   []spSeg `json:"segs"`
	Reads  []int   `json:"reads"`   // sizes of the reads the source answers, cycled
	EOFNow bool    `json:"eof_now"` // the last read returns its bytes together with io.EOF
	Sha    []byte  `json:"sha"`
}

type splitSuite struct{}

func init() { register(splitSuite{}) }

func (splitSuite) Name() string { return "split" }

func spBytes(r *Rng, n int) []byte {
	b := make([]byte, n)
	for i := range b {
		b[i] = byte(r.Intn(256))
	}
	return b
}

var spLevels = []int{flate.NoCompression, flate.BestSpeed, flate.DefaultCompression, flate.BestCompression, flate.HuffmanOnly}

func spDress(r *Rng, s *spSeg) {
	s.Level = Pick(r, spLevels)
	if r.Chance(30) {
		s.FName = Pick(r, []string{"control.tar", "data.tar", "x", ".SIGN.RSA.k.rsa.pub"})
	}
	if r.Chance(20) {
		s.Extra = spBytes(r, r.Range(1, 40))
	}
	if r.Chance(15) {
		s.Comment = "made by the harness"
	}
	if r.Chance(40) {
		s.MTime = int64(r.Range(1, 2000000000))
	}
	if r.Chance(30) {
		s.Flushes = r.Range(1, 4)
	}
}

func spSig(r *Rng, big bool) spSeg {
	n := r.Range(20, 300)
	if big {
		n = r.Range(5000, 12000) // more compressed bytes than the 4096-byte buffer of the gzip reader
	}
	s := spSeg{Kind: "m", Files: []spFile{{Name: ".SIGN.RSA." + Pick(r, []string{"k.rsa.pub", "harness@test.rsa.pub"}), Type: "reg", Body: spBytes(r, n), Rec: "none"}}}
	spDress(r, &s)
	return s
}

func spControl(r *Rng, first string) spSeg {
	info := fmt.Sprintf("pkgname = p%d\npkgver = 1.%d-r0\narch = x86_64\ndatahash = %s\n", r.Intn(50), r.Intn(9), hex.EncodeToString(spBytes(r, 32)))
	s := spSeg{Kind: "m"}
	if first != "" {
		s.Files = append(s.Files, spFile{Name: first, Type: "reg", Body: spBytes(r, r.Range(0, 40)), Rec: "none"})
	}
	s.Files = append(s.Files, spFile{Name: ".PKGINFO", Type: "reg", Body: []byte(info), Rec: "none"})
	if r.Chance(30) {
		s.Files = append(s.Files, spFile{Name: ".pre-install", Type: "reg", Body: []byte("#!/bin/sh\nexit 0\n"), Rec: "none"})
	}
	spDress(r, &s)
	return s
}

func spData(r *Rng, term bool, badChance int) spSeg {
	s := spSeg{Kind: "m", Term: term}
	n := r.Range(0, 4)
	big := r.Chance(12) // more compressed bytes than the buffers between the source and the hashes hold (4096)
	for i := 0; i < n; i++ {
		f := spFile{Name: fmt.Sprintf("opt/f%d-%d", i, r.Intn(100)), Type: "reg", Body: spBytes(r, r.Range(0, 700)), Rec: "good"}
		if big && i == 0 {
			f.Body = spBytes(r, r.Range(4500, 9000))
		}
		switch {
		case r.Chance(badChance):
			f.Rec = Pick(r, []string{"bad", "malformed"})
		case r.Chance(15):
			f.Rec = "none"
		case r.Chance(20):
			f.Rec = "q1"
		}
		if r.Chance(12) {
			f = spFile{Name: f.Name, Type: "symlink", Link: "f0", Rec: "good"}
		}
		if r.Chance(10) {
			f = spFile{Name: fmt.Sprintf("opt/d%d", i), Type: "dir"}
		}
		s.Files = append(s.Files, f)
	}
	spDress(r, &s)
	return s
}

func spGarbage(r *Rng) spSeg {
	switch r.Intn(6) {
	case 0:
		return spSeg{Kind: "g", Garbage: spBytes(r, r.Range(1, 30)), Note: "random"}
	case 1:
		return spSeg{Kind: "g", Garbage: make([]byte, r.Range(1, 1024)), Note: "zeros"}
	case 2:
		return spSeg{Kind: "g", Garbage: []byte{0x1f, 0x8b, 8}, Note: "header-start"}
	case 3:
		d := spData(r, true, 0)
		d.Kind, d.Damage = "g", "crc"
		return d
	case 4:
		d := spData(r, true, 0)
		d.Kind, d.Damage = "g", "trunc"
		return d
	default:
		return spSeg{Kind: "g", Garbage: []byte{0}, Note: "one-zero"}
	}
}

func (splitSuite) Gen(r *Rng, i int, tier string) any {
	var c spCase
	signed := r.Chance(50)
	if signed {
		c.Segs = append(c.Segs, spSig(r, r.Chance(15)))
	}
	first := ""
	if !signed && r.Chance(12) {
		// near misses of the signature test, and a control section that itself starts with a .SIGN. entry
		first = Pick(r, []string{".SIGN", "x.SIGN.RSA.k", ".sign.RSA.k", ".SIGN.RSA.k"})
	}
	c.Segs = append(c.Segs, spControl(r, first))
	bad := 0
	if r.Chance(12) {
		bad = 50
	}
	switch r.Intn(10) {
	case 0, 1: // the data section is two gzip members (one tar cut in two: the first half has no end blocks)
		c.Segs = append(c.Segs, spData(r, false, bad), spData(r, true, bad))
	case 2: // … or two complete tars, or a further member
		c.Segs = append(c.Segs, spData(r, true, bad), spData(r, true, 0))
		if r.Bool() {
			c.Segs = append(c.Segs, spControl(r, ""))
		}
	default:
		c.Segs = append(c.Segs, spData(r, true, bad))
	}
	// shape changes at member level
	switch r.Intn(14) {
	case 0: // the source ends early
		c.Segs = c.Segs[:r.Intn(len(c.Segs))]
	case 1: // only signature and control — or only control and nothing
		if signed {
			c.Segs = c.Segs[:2]
		} else {
			c.Segs = c.Segs[:1]
		}
	case 2, 3: // bytes that are no member, between two members or at either end
		k := r.Intn(len(c.Segs) + 1)
		g := spGarbage(r)
		c.Segs = append(c.Segs[:k], append([]spSeg{g}, c.Segs[k:]...)...)
	case 4: // bytes that are no member after the last one
		c.Segs = append(c.Segs, spGarbage(r))
	case 5: // an empty member (gzip of nothing) somewhere
		k := r.Intn(len(c.Segs) + 1)
		e := spSeg{Kind: "m", NoTar: true, Raw: nil, Note: "empty"}
		spDress(r, &e)
		c.Segs = append(c.Segs[:k], append([]spSeg{e}, c.Segs[k:]...)...)
	case 6: // a member that is not a tar
		k := r.Intn(len(c.Segs))
		e := spSeg{Kind: "m", NoTar: true, Raw: spBytes(r, r.Range(1, 1200)), Note: "notar"}
		spDress(r, &e)
		c.Segs[k] = e
	case 7: // a second signature in front
		c.Segs = append([]spSeg{spSig(r, false)}, c.Segs...)
	case 8: // the same member twice
		k := r.Intn(len(c.Segs))
		dup := c.Segs[k]
		c.Segs = append(c.Segs[:k+1], append([]spSeg{dup}, c.Segs[k+1:]...)...)
	}
	// how the source answers reads
	switch r.Intn(5) {
	case 0:
		c.Reads = []int{1}
	case 1:
		c.Reads = []int{1 << 20}
	case 2:
		c.Reads = []int{r.Range(2, 9), r.Range(1, 3)}
	default:
		n := r.Range(1, 5)
		for j := 0; j < n; j++ {
			c.Reads = append(c.Reads, Pick(r, []int{1, 2, 3, 7, 10, 18, 64, 511, 512, 4095, 4096, 4097, 65536}))
		}
	}
	c.EOFNow = r.Chance(30)
	c.Sha = spBytes(r, Pick(r, []int{0, 1, 3, 54, 55, 56, 57, 63, 64, 65, 119, 120, 128, 200, 1000})+r.Intn(2))
	return c
}

// ---- building the bytes ----

func spRecord(h *tar.Header, mode string, over []byte) {
	s := sha1.Sum(over) //nolint:gosec
	switch mode {
	case "none", "":
	case "bad":
		s[5] ^= 0x40
		h.PAXRecords = map[string]string{"APK-TOOLS.checksum.SHA1": hex.EncodeToString(s[:])}
	case "malformed":
		h.PAXRecords = map[string]string{"APK-TOOLS.checksum.SHA1": "zz-not-hex"}
	case "q1":
		h.PAXRecords = map[string]string{"APK-TOOLS.checksum.SHA1": "Q1" + base64.StdEncoding.EncodeToString(s[:])}
	default:
		h.PAXRecords = map[string]string{"APK-TOOLS.checksum.SHA1": hex.EncodeToString(s[:])}
	}
}

func (s spSeg) dec() []byte {
	if s.NoTar {
		return s.Raw
	}
	return tarBytes(s.Term, func(tw *tar.Writer) {
		for _, f := range s.Files {
			h := &tar.Header{Name: f.Name, Mode: 0o644, ModTime: time.Unix(1600000000, 0), Format: tar.FormatPAX}
			switch f.Type {
			case "dir":
				h.Typeflag, h.Mode = tar.TypeDir, 0o755
				h.Name += "/"
			case "symlink":
				h.Typeflag, h.Linkname = tar.TypeSymlink, f.Link
				spRecord(h, f.Rec, []byte(f.Link))
			default:
				h.Typeflag, h.Size = tar.TypeReg, int64(len(f.Body))
				spRecord(h, f.Rec, f.Body)
			}
			if err := tw.WriteHeader(h); err != nil {
				panic(fmt.Sprintf("split: tar header %q: %v", f.Name, err))
			}
			if h.Typeflag == tar.TypeReg {
				tw.Write(f.Body)
			}
		}
	})
}

func (s spSeg) comp(dec []byte) []byte {
	var o bytes.Buffer
	zw, err := gzip.NewWriterLevel(&o, s.Level)
	if err != nil {
		panic(err)
	}
	zw.Name, zw.Extra, zw.Comment = s.FName, s.Extra, s.Comment
	if s.MTime != 0 {
		zw.ModTime = time.Unix(s.MTime, 0)
	}
	n := s.Flushes + 1
	for k := 0; k < n; k++ {
		zw.Write(dec[len(dec)*k/n : len(dec)*(k+1)/n])
		if k+1 < n {
			zw.Flush()
		}
	}
	zw.Close()
	return o.Bytes()
}

// bytes of a segment; for a member also what it decompresses to
func (s spSeg) build() (raw, dec []byte, member bool) {
	if s.Kind == "g" && s.Damage == "" {
		return s.Garbage, nil, false
	}
	dec = s.dec()
	raw = s.comp(dec)
	switch s.Damage {
	case "crc":
		raw[len(raw)-6] ^= 0x10
		return raw, nil, false
	case "trunc":
		return raw[:len(raw)-5], nil, false
	case "magic":
		raw[1] = 0x8c
		return raw, nil, false
	}
	return raw, dec, true
}

// the harness's own tar walk: what archive/tar lists, with the per-file record decoded the way apk-tools writes it
func spWalk(b []byte) string {
	tr := tar.NewReader(bytes.NewReader(b))
	var out []string
	for {
		h, err := tr.Next()
		if errors.Is(err, io.EOF) {
			break
		}
		if err != nil {
			return "!"
		}
		kind, body := "o", []byte(nil)
		switch h.Typeflag {
		case tar.TypeReg:
			kind = "r"
			body, err = io.ReadAll(tr)
			if err != nil {
				return "!"
			}
		case tar.TypeSymlink:
			kind = "s"
		case tar.TypeDir:
			kind = "d"
		case tar.TypeLink:
			kind = "h"
		}
		rec := "-"
		if v, ok := h.PAXRecords["APK-TOOLS.checksum.SHA1"]; ok {
			var d []byte
			var err error
			if strings.HasPrefix(v, "Q1") {
				d, err = base64.StdEncoding.DecodeString(v[2:])
			} else {
				d, err = hex.DecodeString(v)
			}
			if err != nil {
				rec = "!"
			} else {
				rec = hex.EncodeToString(d)
			}
		}
		out = append(out, hx(h.Name)+"."+kind+"."+hex.EncodeToString(body)+"."+rec)
	}
	return strings.Join(out, "|")
}

func spFirstName(dec []byte) string {
	h, err := tar.NewReader(bytes.NewReader(dec)).Next()
	if err != nil {
		return "!"
	}
	return hx(h.Name)
}

// scripted source: read k answers at most Reads[k mod len] bytes; optionally the last bytes come with io.EOF
type spReader struct {
	b      []byte
	reads  []int
	k      int
	eofNow bool
}

func (s *spReader) Read(p []byte) (int, error) {
	if len(s.b) == 0 {
		return 0, io.EOF
	}
	n := s.reads[s.k%len(s.reads)]
	s.k++
	if n > len(p) {
		n = len(p)
	}
	if n > len(s.b) {
		n = len(s.b)
	}
	copy(p, s.b[:n])
	s.b = s.b[n:]
	if len(s.b) == 0 && s.eofNow {
		return n, io.EOF
	}
	return n, nil
}

func spErrClass(err error) string {
	s := err.Error()
	switch {
	case strings.HasPrefix(s, "expandApk error 5"):
		return "sign"
	case strings.HasPrefix(s, "invalid number of tar streams"):
		return "count"
	case strings.HasPrefix(s, "apk has no data section"):
		return "nodata"
	case strings.HasPrefix(s, "creating gzip reader"), strings.HasPrefix(s, "expandApk error 3"), strings.HasPrefix(s, "checking sums"):
		return "stream"
	}
	return "index"
}

func spPart(hash []byte, size int64, file string) string {
	b, err := os.ReadFile(file)
	if err != nil {
		return hex.EncodeToString(hash) + "/" + fmt.Sprint(size) + "/unreadable"
	}
	return hex.EncodeToString(hash) + "/" + fmt.Sprint(size) + "/" + sha256hex(b)
}

func spExpand(src []byte, c spCase) string {
	dir, err := os.MkdirTemp("", "verif-split")
	if err != nil {
		panic(err)
	}
	defer os.RemoveAll(dir)
	e, err := expandapk.ExpandApk(context.Background(), &spReader{b: src, reads: c.Reads, eofNow: c.EOFNow}, dir)
	if err != nil {
		return "err " + spErrClass(err)
	}
	defer e.Close()
	sig := "-"
	if e.SignatureFile != "" {
		sig = spPart(e.SignatureHash, e.SignatureSize, e.SignatureFile)
	}
	signed := "0"
	if e.Signed {
		signed = "1"
	}
	tarB, err := os.ReadFile(e.TarFile)
	tarS := "unreadable"
	if err == nil {
		tarS = sha256hex(tarB) + "/" + fmt.Sprint(len(tarB))
	}
	nfiles := len(e.TarFS.Entries())
	// PackageData() of a cache entry that has no .tar: remove it and ask again
	regen := "!"
	e.TarFS.Close()
	if os.Remove(e.TarFile) == nil {
		if f, err := e.PackageData(); err == nil {
			b, _ := io.ReadAll(f)
			f.Close()
			onDisk, _ := os.ReadFile(e.TarFile)
			if bytes.Equal(b, onDisk) {
				regen = sha256hex(b)
			} else {
				regen = "differs-from-file"
			}
		}
	}
	return "ok signed=" + signed + " sig=" + sig +
		" ctl=" + spPart(e.ControlHash, e.ControlSize, e.ControlFile) +
		" dat=" + spPart(e.PackageHash, e.PackageSize, e.PackageFile) +
		" size=" + fmt.Sprint(e.Size) + " tar=" + tarS + " regen=" + regen + " files=" + fmt.Sprint(nfiles)
}

func spResolve(src []byte, c spCase) string {
	r, err := apk.ResolveApk(context.Background(), &spReader{b: src, reads: c.Reads, eofNow: c.EOFNow})
	if err != nil {
		return "err"
	}
	sig := "-"
	if r.SignatureHash != nil {
		sig = hex.EncodeToString(r.SignatureHash) + "/" + fmt.Sprint(r.SignatureSize)
	}
	return "ok sig=" + sig + " ctl=" + hex.EncodeToString(r.ControlHash) + "/" + fmt.Sprint(r.ControlSize) +
		" dat=" + hex.EncodeToString(r.DataHash) + "/" + fmt.Sprint(r.DataSize)
}

func (splitSuite) Run(raw json.RawMessage) []Step {
	var c spCase
	if err := json.Unmarshal(raw, &c); err != nil {
		panic(err)
	}
	if len(c.Reads) == 0 {
		c.Reads = []int{1 << 20}
	}
	var src []byte
	var segs []string
	var decs [][]byte
	var shape []string
	for _, s := range c.Segs {
		b, dec, member := s.build()
		src = append(src, b...)
		if member {
			segs = append(segs, "m:"+hex.EncodeToString(b)+":"+hex.EncodeToString(dec)+":"+spFirstName(dec))
			decs = append(decs, dec)
			shape = append(shape, "m")
		} else {
			segs = append(segs, "g:"+hex.EncodeToString(b))
			decs = append(decs, nil)
			shape = append(shape, "g")
		}
	}
	var tars []string
	for i := range c.Segs {
		if shape[i] == "m" {
			tars = append(tars, fmt.Sprintf("s%d=%s", i, spWalk(decs[i])))
		}
		if i == 0 {
			continue
		}
		all := true
		var cat []byte
		for j := i; j < len(c.Segs); j++ {
			if shape[j] != "m" {
				all = false
				break
			}
			cat = append(cat, decs[j]...)
		}
		if all {
			tars = append(tars, fmt.Sprintf("r%d=%s", i, spWalk(cat)))
		}
	}
	segL, tarL := strings.Join(segs, ";"), strings.Join(tars, ",")
	tags := []string{"shape:" + strings.Join(shape, "")}
	for _, s := range c.Segs {
		if s.Note != "" {
			tags = append(tags, "seg:"+s.Note)
		}
		if s.Damage != "" {
			tags = append(tags, "seg:"+s.Damage)
		}
		if len(s.Extra) > 0 || s.FName != "" || s.Comment != "" {
			tags = append(tags, "gzip:header-fields")
		}
		if s.Flushes > 0 {
			tags = append(tags, "gzip:multi-block")
		}
	}
	if len(c.Reads) == 1 && c.Reads[0] == 1 {
		tags = append(tags, "reads:one-byte")
	} else if len(c.Reads) == 1 {
		tags = append(tags, "reads:whole")
	} else {
		tags = append(tags, "reads:scripted")
	}
	if len(src) > 4096 && len(c.Segs) > 0 {
		if b, _, _ := c.Segs[0].build(); len(b) > 4096 {
			tags = append(tags, "first-member>4096")
		}
	}

	goX := spExpand(src, c)
	goR := spResolve(src, c)
	xt := append([]string{"expand:" + strings.SplitN(goX+" ", " ", 3)[0] + ":" + func() string {
		if strings.HasPrefix(goX, "err ") {
			return goX[4:]
		}
		return strings.SplitN(goX, " ", 3)[1]
	}()}, tags...)
	desc := fmt.Sprintf("%d segments %s, %d bytes, reads %v eofNow=%v", len(c.Segs), strings.Join(shape, ""), len(src), c.Reads, c.EOFNow)
	d := sha1.Sum(c.Sha) //nolint:gosec
	d2 := sha256.Sum256(c.Sha)
	return []Step{
		{Line: "split.expand\t" + segL + "\t" + tarL + "\t" + goX, Go: goX, Mode: "verdict", Desc: desc, Tags: xt,
			Trivial: len(c.Segs) == 0},
		{Line: "split.resolve\t" + segL + "\t" + goR, Go: goR, Mode: "verdict", Desc: desc,
			Tags: []string{"resolve:" + strings.SplitN(goR, " ", 2)[0]}, Trivial: len(c.Segs) == 0},
		{Line: "split.sha\t" + hex.EncodeToString(c.Sha), Go: hex.EncodeToString(d[:]) + "," + hex.EncodeToString(d2[:]),
			Desc: fmt.Sprintf("sha of %d bytes", len(c.Sha)), Tags: []string{fmt.Sprintf("sha:len%%64=%d", len(c.Sha)%64)}},
	}
}
