package main

import (
	"encoding/base64"
	"encoding/json"
	"fmt"
	"io/fs"
	"math/big"
	"os"
	"path/filepath"
	"sort"
	"strings"
	"syscall"
	"time"
)

// The canary tree of corr:confine (C18).  Every case runs inside a fresh scratch tree under
// os.TempDir() with the same layout as `Apko.Confine.canaryHost`:
//
//	<top>/w/r/root/            the target root handed to DirFS (designated)
//	<top>/w/r/root2/secret     sibling whose name has the root's name as a prefix
//	<top>/w/r/canary/sentinel  sibling
//	<top>/w/canary2/s2         one level up
//	<top>/top-sentinel         three levels up
//	<top>/cache/ tmp/ out/ repo/   designated (cache directory, TMPDIR, output paths, harness-written inputs)
//
// Everything outside the designated directories is snapshotted before and after: any entry that is
// created, deleted or modified (type, content, permission bits, owner, mtime of files, link target)
// is a violation of the property — this is its own observation point.

const confineSentinelTime = 1000000000

type confineTree struct {
	top, root, cache, tmp, out, repo string
}

func confineMust(err error) {
	if err != nil {
		panic("confine: " + err.Error())
	}
}

func confineNewTree() *confineTree {
	top, err := os.MkdirTemp("", "confine-")
	confineMust(err)
	if rp, err := filepath.EvalSymlinks(top); err == nil {
		top = rp
	}
	confineMust(os.Chmod(top, 0o755))
	t := &confineTree{top: top, root: filepath.Join(top, "w/r/root"), cache: filepath.Join(top, "cache"), tmp: filepath.Join(top, "tmp"),
		out: filepath.Join(top, "out"), repo: filepath.Join(top, "repo")}
	for _, d := range []string{"w", "w/r", "w/r/root", "w/r/root2", "w/r/canary", "w/canary2", "cache", "tmp", "out", "repo"} {
		confineMust(os.Mkdir(filepath.Join(top, d), 0o755))
		confineMust(os.Chmod(filepath.Join(top, d), 0o755))
	}
	for _, f := range [][2]string{{"w/r/root2/secret", "secret"}, {"w/r/canary/sentinel", "sentinel"}, {"w/canary2/s2", "s2"}, {"top-sentinel", "top"}} {
		p := filepath.Join(top, f[0])
		confineMust(os.WriteFile(p, []byte(f[1]), 0o640))
		confineMust(os.Chmod(p, 0o640))
		confineMust(os.Chtimes(p, time.Unix(confineSentinelTime, 0), time.Unix(confineSentinelTime, 0)))
	}
	return t
}

func (t *confineTree) remove() {
	// a case may have left unreadable directories behind
	filepath.WalkDir(t.top, func(p string, d fs.DirEntry, err error) error {
		if err == nil && d.IsDir() {
			os.Chmod(p, 0o755)
		}
		return nil
	})
	os.RemoveAll(t.top)
}

func (t *confineTree) designated(extra ...string) []string {
	return append([]string{t.root, t.cache, t.tmp, t.out, t.repo}, extra...)
}

// subst replaces the placeholder {T} by the tree's top directory without the leading slash
func (t *confineTree) subst(s string) string {
	return strings.ReplaceAll(s, "{T}", strings.TrimPrefix(t.top, "/"))
}

// confineModelStr is what the model sees instead: its canary tree lives under /T
func confineModelStr(s string) string { return strings.ReplaceAll(s, "{T}", "T") }

// snapshot of everything under top that is not inside a designated directory: rel path -> observation
func (t *confineTree) snapshot(designated []string) map[string]string {
	out := map[string]string{}
	filepath.WalkDir(t.top, func(p string, d fs.DirEntry, err error) error {
		for _, r := range designated {
			if p == r || strings.HasPrefix(p, r+"/") {
				if d != nil && d.IsDir() {
					return filepath.SkipDir
				}
				return nil
			}
		}
		rel, _ := filepath.Rel(t.top, p) // the top directory itself is "."
		if err != nil {
			out[rel] = "?:" + err.Error()
			return nil
		}
		fi, err := os.Lstat(p)
		if err != nil {
			out[rel] = "?:" + err.Error()
			return nil
		}
		uid, gid := 0, 0
		if st, ok := fi.Sys().(*syscall.Stat_t); ok {
			uid, gid = int(st.Uid), int(st.Gid)
		}
		perm := fi.Mode().Perm() | fi.Mode()&(fs.ModeSetuid|fs.ModeSetgid|fs.ModeSticky)
		switch {
		case fi.IsDir():
			out[rel] = fmt.Sprintf("d:%o:%d:%d", perm, uid, gid)
		case fi.Mode()&fs.ModeSymlink != 0:
			tg, _ := os.Readlink(p)
			out[rel] = "l:" + tg
		default:
			var b []byte
			if fi.Mode().IsRegular() {
				b, _ = os.ReadFile(p)
			}
			out[rel] = fmt.Sprintf("f:%x:%o:%d:%d:%d", b, perm, fi.ModTime().UnixNano(), uid, gid)
		}
		return nil
	})
	return out
}

// confineDiff lists created / deleted / modified entries, sorted (same text as Apko.Confine.diffOutside)
func confineDiff(before, after map[string]string) []string {
	var out []string
	for p, a := range after {
		b, ok := before[p]
		switch {
		case !ok:
			out = append(out, "C:"+p+":"+a[:1])
		case a != b:
			out = append(out, "M:"+p)
		}
	}
	for p := range before {
		if _, ok := after[p]; !ok {
			out = append(out, "D:"+p)
		}
	}
	sort.Strings(out)
	return out
}

// confineJWKS is a JWKS document with the harness' RSA key under the given (hostile) key id
func confineJWKS(kid string) string {
	k := synthRSAKey()
	enc := base64.RawURLEncoding.EncodeToString
	b, err := json.Marshal(map[string]any{"keys": []map[string]string{{"kty": "RSA", "kid": kid, "alg": "RS256", "use": "sig",
		"n": enc(k.PublicKey.N.Bytes()), "e": enc(big.NewInt(int64(k.PublicKey.E)).Bytes())}}})
	confineMust(err)
	return string(b)
}
