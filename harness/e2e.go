package main

// End-to-end helper: run the real `apko build` / `apko lock` (through pkg/verifapi) in-process against a
// synthetic repository and collect every output file.

import (
	"context"
	"crypto/sha256"
	"encoding/hex"
	"fmt"
	"io/fs"
	"net/http"
	"os"
	"path/filepath"
	"sort"
	"strings"
	"time"

	"chainguard.dev/apko/pkg/apk/apk"
	"chainguard.dev/apko/pkg/build"
	"chainguard.dev/apko/pkg/build/types"
	"chainguard.dev/apko/pkg/verifapi"
)

type E2EOpts struct {
	Archs     []string
	SBOM      bool
	Tarball   bool   // output a bundle tarball instead of an OCI layout directory
	CacheDir  string // "" = no cache
	Offline   bool
	HTTP      *SynthTransport // serve the repository over the in-process transport instead of the file system
	LockFile  string
	BuildDate string // RFC3339, as the CLI flag --build-date ("" = the CLI default)
	ExtraKeys int    // further keyring entries (copies of the repository key under other names): the keyring is a list of several entries
	Tags      []string
	ExtraOpts []build.Option
	// several repositories (C01 repository dimension): when set these replace the single repository line /
	// keyring entry / transport chosen above (the lines are declared inputs; RT serves every host)
	RepoLines      []string
	BuildRepoLines []string
	KeyLines       []string
	RT             http.RoundTripper
}

type E2EOut struct {
	Files map[string][]byte // relative path -> content (layout / tarball / sboms / lock)
	Err   error
}

func (o E2EOut) Digests() map[string]string {
	m := map[string]string{}
	for k, v := range o.Files {
		s := sha256.Sum256(v)
		m[k] = hex.EncodeToString(s[:])
	}
	return m
}

func (o E2EOut) Summary() string {
	if o.Err != nil {
		return "err"
	}
	d := o.Digests()
	keys := make([]string, 0, len(d))
	for k := range d {
		keys = append(keys, k)
	}
	sort.Strings(keys)
	var b strings.Builder
	for _, k := range keys {
		fmt.Fprintf(&b, "%s=%s;", k, d[k][:16])
	}
	return b.String()
}

func collectDir(dir string, prefix string, out map[string][]byte) {
	filepath.WalkDir(dir, func(p string, d fs.DirEntry, err error) error {
		if err != nil || d.IsDir() {
			return nil
		}
		b, err := os.ReadFile(p)
		if err == nil {
			rel, _ := filepath.Rel(dir, p)
			out[prefix+rel] = b
		}
		return nil
	})
}

// e2eBuild runs one build in a scratch directory under $TMPDIR; everything is removed afterwards.
func e2eBuild(ic types.ImageConfiguration, repo *SRepo, o E2EOpts) E2EOut {
	return e2eBuildAt(ic, repo, "", o)
}

// e2eBuildAt: like e2eBuild, but a file repository already materialised at repoDir is used as is
// (the repository and key paths are written into the image, so they are part of the declared inputs).
func e2eBuildAt(ic types.ImageConfiguration, repo *SRepo, repoDir string, o E2EOpts) E2EOut {
	work, err := os.MkdirTemp("", "verif-e2e-")
	if err != nil {
		return E2EOut{Err: err}
	}
	defer os.RemoveAll(work)
	ctx := context.Background()
	if o.HTTP != nil {
		ic.Contents.RuntimeRepositories = []string{"https://repo.test"}
		ic.Contents.Keyring = []string{"https://repo.test/keys/" + synthKeyName}
	} else if repoDir != "" {
		ic.Contents.RuntimeRepositories = []string{repoDir}
		ic.Contents.Keyring = []string{filepath.Join(repoDir, synthKeyName)}
	} else {
		rd := filepath.Join(work, "repo")
		kp := repo.WriteTo(rd)
		ic.Contents.RuntimeRepositories = []string{rd}
		ic.Contents.Keyring = []string{kp}
	}
	if o.RepoLines != nil {
		ic.Contents.RuntimeRepositories = append([]string{}, o.RepoLines...)
	}
	if o.BuildRepoLines != nil {
		ic.Contents.BuildRepositories = append([]string{}, o.BuildRepoLines...)
	}
	if o.KeyLines != nil {
		ic.Contents.Keyring = append([]string{}, o.KeyLines...)
	}
	for k := 0; k < o.ExtraKeys; k++ {
		name := fmt.Sprintf("extra-%d.rsa.pub", (k*5+3)%11)
		switch {
		case o.HTTP != nil:
			ic.Contents.Keyring = append(ic.Contents.Keyring, "https://repo.test/keys/"+name)
		default:
			kp := filepath.Join(filepath.Dir(ic.Contents.Keyring[0]), name)
			_ = os.WriteFile(kp, repo.KeyPEM, 0o644)
			ic.Contents.Keyring = append(ic.Contents.Keyring, kp)
		}
	}
	var archs []types.Architecture
	for _, a := range o.Archs {
		archs = append(archs, types.ParseArchitecture(a))
	}
	// exactly what the CLI does with its --build-date flag
	opts := []build.Option{build.WithImageConfiguration(ic), build.WithBuildDate(o.BuildDate), build.WithTempDir(filepath.Join(work, "tmp"))}
	os.MkdirAll(filepath.Join(work, "tmp"), 0o755)
	if o.SBOM {
		opts = append(opts, build.WithSBOMFormats([]string{"spdx"}))
	} else {
		opts = append(opts, build.WithSBOMFormats(nil))
	}
	if o.RT != nil {
		opts = append(opts, build.WithTransport(o.RT))
	} else if o.HTTP != nil {
		opts = append(opts, build.WithTransport(o.HTTP))
	}
	if o.CacheDir != "" {
		opts = append(opts, build.WithCache(o.CacheDir, o.Offline, apk.NewCache(true)))
	}
	if o.LockFile != "" {
		opts = append(opts, build.WithLockFile(o.LockFile))
	}
	opts = append(opts, o.ExtraOpts...)
	out := filepath.Join(work, "out")
	sbomDir := filepath.Join(work, "sbom")
	os.MkdirAll(sbomDir, 0o755)
	if o.Tarball {
		out = filepath.Join(work, "out.tar")
	} else {
		os.MkdirAll(out, 0o755)
	}
	tags := o.Tags
	ref := "verif.test/img:latest"
	if err := verifapi.BuildCmd(ctx, ref, out, archs, tags, o.SBOM, sbomDir, opts...); err != nil {
		return E2EOut{Err: err}
	}
	files := map[string][]byte{}
	if o.Tarball {
		b, err := os.ReadFile(out)
		if err != nil {
			return E2EOut{Err: err}
		}
		files["out.tar"] = b
	} else {
		collectDir(out, "layout/", files)
	}
	collectDir(sbomDir, "sbom/", files)
	return E2EOut{Files: files}
}

func init() {
	prev := extraCommand
	extraCommand = func(name string, args []string) bool {
		if name != "e2e-smoke" {
			return prev(name, args)
		}
		pkgs := []SPkg{
			{Name: "base", Version: "1.0-r0", Origin: "base", Files: []SFile{{Path: "etc", Type: "dir", Mode: 0o755}, {Path: "etc/os-release", Type: "file", Mode: 0o644, Content: "ID=synth\nVERSION_ID=1\n"}, {Path: "usr", Type: "dir", Mode: 0o755}, {Path: "usr/bin", Type: "dir", Mode: 0o755}, {Path: "usr/bin/tool", Type: "file", Mode: 0o755, Content: "#!/bin/sh\n"}}},
			{Name: "lib", Version: "2.0-r1", Origin: "lib", Deps: []string{"base"}, Files: []SFile{{Path: "usr", Type: "dir", Mode: 0o755}, {Path: "usr/lib", Type: "dir", Mode: 0o755}, {Path: "usr/lib/libx.so.1", Type: "file", Mode: 0o644, Content: "ELF"}, {Path: "usr/lib/libx.so", Type: "symlink", Mode: 0o777, Link: "libx.so.1"}}},
		}
		repo := BuildSynthRepo(pkgs, []string{"x86_64", "aarch64"})
		ic := types.ImageConfiguration{}
		ic.Contents.Packages = []string{"lib"}
		t0 := time.Now()
		o := e2eBuild(ic, repo, E2EOpts{Archs: []string{"x86_64", "aarch64"}, SBOM: true})
		fmt.Println("err:", o.Err, "files:", len(o.Files), "took", time.Since(t0))
		fmt.Println(o.Summary())
		t := &SynthTransport{Repo: repo}
		o2 := e2eBuild(ic, repo, E2EOpts{Archs: []string{"x86_64", "aarch64"}, SBOM: true, HTTP: t})
		fmt.Println("http err:", o2.Err, "same:", o2.Summary() == o.Summary(), "requests:", len(t.Log))
		return true
	}
}
