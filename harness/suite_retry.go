package main

import (
	"bytes"
	"context"
	"encoding/hex"
	"encoding/json"
	"fmt"
	"io"
	"net/http"
	"strconv"
	"strings"

	"chainguard.dev/apko/pkg/apk/apk"
	apkfs "chainguard.dev/apko/pkg/apk/fs"
)

// corr:retry — C20.  Drives the REAL rangeRetryTransport / rangeRetryReader (pkg/apk/apk/transport.go)
// through a scripted http.RoundTripper and compares the observable trace (requests with their Range
// header, every body Read, every result handed to the consumer) with the Lean Impl model; the Lean
// Spec checker is evaluated on the trace of the real code (mode verdict).  Two more steps run the
// callers FetchPackage and fetchRepositoryIndex end to end on the same fault script (mode oracle-go).

type rOp struct {
	M     int  `json:"m"`
	Close bool `json:"close,omitempty"`
}

type retryCase struct {
	Kind   string  `json:"kind"`
	Data   string  `json:"data"` // hex
	Script []rConn `json:"script"`
	Ops    []rOp   `json:"ops"`
	Alt    bool    `json:"alt,omitempty"`
	// SelfTest (corpus only): feed hand-written traces to the Lean Spec checker and require its verdicts,
	// so that the oracle is known to reject duplicated / skipped bytes, a wrong Range, a short EOF and a
	// swallowed error on every run.
	SelfTest bool `json:"selftest,omitempty"`
}

// retrySelfTest: data "abcdef".  `Go` holds the verdict the checker must give; the driver answers with the
// verdict it computes in both columns, so a wrong verdict of the checker is a violation.
func retrySelfTest() []Step {
	data := hex.EncodeToString([]byte("abcdef"))
	var steps []Step
	for _, t := range [][3]string{
		{"good trace", "I200;q- bo r616263:o bf q3 bo r646566:o be r:e", "pass"},
		{"wrong Range offset", "I200;q- bo r616263:o bf q2 bo r646566:o", "fail:event-4-q2"},
		{"missing Range", "I200;q- bo r616263:o bf q- bo r646566:o", "fail:event-4-q-"},
		{"duplicated byte", "I200;q- bo r616263:o bf q3 bo r636465:o", "fail:event-6-r636465:o"},
		{"skipped byte", "I200;q- bo r616263:o bf q3 bo r6566:o", "fail:event-6-r6566:o"},
		{"short clean EOF", "I200;q- bo r616263:o be r:e", "fail:event-4-r:e"},
		{"swallowed error", "I200;q- bf q- bf q- bf r:o", "fail:event-6-r:o"},
		{"200 without a body for a non-empty file", "P200;q-", "fail:200-without-body-for-nonempty-file"},
	} {
		steps = append(steps, Step{Line: "retry.selftest\t" + data + "\t" + t[1], Go: t[2], Desc: "oracle self-test: " + t[0], Tags: []string{"selftest"}, Trivial: true})
	}
	// the per-connection waiver of the eof_complete clause: the k-th request is answered by the k-th
	// connection; a clean EOF short of the file is tolerated only while the current connection has a clean
	// early end that the reader cannot see.
	drop3 := rConn{Cut: 3, End: "f"}
	clean := func(cut, status int) rConn { return rConn{Cut: cut, End: "c", Status: status} }
	whole := rConn{Cut: -1, End: "c"}
	for _, t := range []struct {
		name, kind string
		script     []rConn
		trace, want string
	}{
		{"restart on 200 ends cleanly before the resume offset (evident), reported as clean EOF", "i", []rConn{drop3, clean(2, 0)},
			"I200;q- bo r616263:o bf q3 bo be r:e", "fail:event-7-r:e"},
		{"restart on 200 ends cleanly before the resume offset (evident), reported as an error", "i", []rConn{drop3, clean(2, 0)},
			"I200;q- bo r616263:o bf q3 bo be r:x", "pass"},
		{"forced 200 from a server that honours Range, empty clean body (evident), reported as clean EOF", "h", []rConn{drop3, clean(0, 200)},
			"I200;q- bo r616263:o bf q3 be r:e", "fail:event-6-r:e"},
		{"restart on 200 ends cleanly exactly at the resume offset (invisible): waived", "i", []rConn{drop3, clean(3, 0)},
			"I200;q- bo r616263:o bf q3 bo be r:e", "pass"},
		{"206 ends cleanly after one byte (invisible): waived", "h", []rConn{drop3, clean(1, 0)},
			"I200;q- bo r616263:o bf q3 bo r64:o be r:e", "pass"},
		{"first response ends cleanly after two bytes (invisible): waived", "h", []rConn{clean(2, 0)},
			"I200;q- bo r6162:o be r:e", "pass"},
		{"the waiver ends with its connection: short clean EOF on the complete connection that replaced it", "h", []rConn{clean(2, 0), whole},
			"I200;q- bo r6162:o c bf q2 bo r6364:o be r:e", "fail:event-9-r:e"},
		{"a waived connection still may not duplicate bytes", "h", []rConn{clean(2, 0)},
			"I200;q- bo r6162:o bo r6263:o be r:e", "fail:event-4-r6263:o"},
		{"an evident early end behind a later complete connection does not matter", "i", []rConn{drop3, clean(2, 0), whole},
			"I200;q- bo r616263:o bf q3 bo be r:x bf q3 bo bo r646566:o be r:e", "pass"},
	} {
		steps = append(steps, Step{Line: "retry.selftest\t" + t.kind + "\t" + data + "\t" + retryScriptProto(t.script) + "\t" + t.trace, Go: t.want,
			Desc: "oracle self-test: " + t.name, Tags: []string{"selftest"}, Trivial: true})
	}
	return steps
}

type retrySuite struct{}

func init() { register(retrySuite{}) }

func (retrySuite) Name() string { return "retry" }

func genData(r *Rng, tier string) []byte {
	var n int
	switch r.Intn(40) {
	case 0:
		n = 0
	case 1:
		n = 1
	case 2:
		n = 2
	case 3:
		n = 8192 + r.Intn(3) - 1
	case 4:
		n = 9000 + r.Intn(9000)
	case 5, 6, 7:
		n = 200 + r.Intn(800)
	default:
		n = 3 + r.Intn(120)
	}
	b := make([]byte, n)
	// position-dependent content with few repeats so that a shifted or duplicated range is visible
	x := r.Next()
	for i := range b {
		x = x*6364136223846793005 + 1442695040888963407
		b[i] = byte(x >> 56)
	}
	return b
}

func genChunks(r *Rng) []int {
	if r.Chance(35) {
		return nil
	}
	k := r.Intn(9)
	out := make([]int, k)
	for i := range out {
		if r.Chance(70) {
			out[i] = r.Intn(6)
		} else {
			out[i] = r.Intn(64)
		}
	}
	return out
}

var errStatuses = []int{500, 502, 503, 504, 404, 403, 416, 429, 400, 201, 204}

// genCut picks how many bytes of a response body arrive; dataLen is the size of the file, `at` a
// likely consumer position (so that cuts land at offset 0 of a resumed body, mid-read, on the last
// byte, exactly at the end).
func genCut(r *Rng, dataLen int) int {
	switch r.Intn(12) {
	case 0, 1:
		return 0
	case 2:
		return 1
	case 3:
		if dataLen > 0 {
			return dataLen - 1
		}
		return 0
	case 4:
		return dataLen
	case 5:
		return dataLen + 1 + r.Intn(5)
	case 6, 7:
		return r.Intn(8)
	default:
		return r.Intn(dataLen + 1)
	}
}

func genFaultyConn(r *Rng, dataLen int) rConn {
	c := rConn{Cut: -1, End: "f", Chunks: genChunks(r), Eager: r.Chance(30)}
	switch r.Intn(20) {
	case 0, 1:
		c.Fail = true
	case 2, 3:
		c.Status = Pick(r, errStatuses)
		if r.Chance(60) {
			c.Page = hex.EncodeToString([]byte("<html>error page</html>")[:r.Intn(24)])
		}
		c.NoBody = r.Chance(50)
		c.End = "c"
	case 4:
		// a server that switches behaviour: forced 200 (range ignored) or forced 206
		c.Status = Pick(r, []int{200, 206})
		c.Cut = genCut(r, dataLen)
	case 5:
		// the whole body arrives and then the stream faults instead of ending (drop "after the final byte")
		c.Cut = -1
		c.NoBody = r.Chance(50)
	case 6:
		c.Cut = genCut(r, dataLen)
		c.End = "w"
	case 7:
		// the stream stops early and looks like a clean end (close-delimited body whose connection went
		// away, or a server that now holds a shorter file), on a successful status
		c.Cut = genCut(r, dataLen)
		c.End = "c"
		c.Status = Pick(r, []int{0, 0, 200, 206})
	default:
		c.Cut = genCut(r, dataLen)
		c.NoBody = r.Chance(20)
	}
	return c
}

func genCleanConn(r *Rng) rConn {
	return rConn{Cut: -1, End: "c", Chunks: genChunks(r), Eager: r.Chance(30), NoBody: r.Chance(50)}
}

func (retrySuite) Gen(r *Rng, i int, tier string) any {
	data := genData(r, tier)
	c := retryCase{Kind: Pick(r, []string{"h", "h", "i", "i", "e"}), Data: hex.EncodeToString(data), Alt: r.Bool()}
	// the script: some faulty connections, usually followed by clean ones
	nFaulty := 0
	switch r.Intn(10) {
	case 0:
		nFaulty = 0
	case 1, 2, 3:
		nFaulty = 1
	case 4, 5:
		nFaulty = 2
	case 6:
		nFaulty = 3
	default:
		nFaulty = 2 + r.Intn(7)
	}
	for k := 0; k < nFaulty; k++ {
		if r.Chance(12) {
			c.Script = append(c.Script, genCleanConn(r))
		} else {
			c.Script = append(c.Script, genFaultyConn(r, len(data)))
		}
	}
	if r.Chance(85) {
		for k := r.Range(1, 2); k > 0; k-- {
			c.Script = append(c.Script, genCleanConn(r))
		}
	}
	// an easy first connection most of the time, so that the body is actually installed
	if len(c.Script) > 0 && r.Chance(70) {
		c.Script[0].Fail = false
		if c.Script[0].Status != 0 {
			c.Script[0].Status = 0
			c.Script[0].End = "f"
		}
	}
	// a restart after progress whose body ends CLEANLY after Cut bytes — below / at / above the offset the
	// reader has reached by then (estimated from the cuts before it): on a 200 answer to a ranged request
	// a clean end below the offset is evident to the reader (the prefix discard comes up short) and must be
	// reported as an error; everywhere else the reader cannot tell.
	if len(c.Script) >= 2 && r.Chance(14) {
		j := 1 + r.Intn(len(c.Script)-1)
		if r.Chance(70) {
			j = 1 + r.Intn(min(2, len(c.Script)-1))
		}
		if r.Chance(60) {
			// make sure there is progress to resume from: a successful first response dropped mid-body
			f := &c.Script[0]
			f.Fail, f.Status, f.NoBody, f.End = false, 0, false, "f"
			if len(data) > 1 {
				f.Cut = 1 + r.Intn(len(data)-1)
			}
		}
		est := retryEstimateProgress(c.Kind, len(data), c.Script[:j])
		sc := rConn{End: "c", Chunks: genChunks(r), Eager: r.Chance(30), Status: Pick(r, []int{0, 0, 0, 200, 200, 206})}
		switch r.Intn(10) {
		case 0:
			sc.Cut = 0
		case 1:
			sc.Cut = est - 1
		case 2, 3:
			sc.Cut = est
		case 4:
			sc.Cut = est + 1
		case 5, 6, 7:
			sc.Cut = r.Intn(est + 1) // below (or at) the offset
		default:
			sc.Cut = est + r.Intn(len(data)-min(est, len(data))+2) // at or above
		}
		if sc.Cut < 0 {
			sc.Cut = 0
		}
		c.Script[j] = sc
	}
	// the consumer: enough operations to get through the file although every body Read may be capped by
	// the chunk script and every fault costs a Read, plus a few after the end
	style := r.Intn(5)
	typ := []int{2, 16, 512, len(data) + 1, 16}[style]
	nOps := len(data)/typ + 10*len(c.Script) + 4 + r.Intn(8)
	if nOps > 400 {
		nOps = 400
	}
	for n := 0; n < nOps; n++ {
		var m int
		switch style {
		case 0:
			m = 1 + r.Intn(4)
		case 1:
			m = 1 + r.Intn(32)
		case 2:
			m = 512
		case 3:
			m = len(data) + r.Intn(3)
		default:
			m = Pick(r, []int{1, 2, 3, 7, 16, 64, 100, 4096, 32768})
		}
		if len(data) > 2000 && m < 64 {
			m += 500
		}
		if r.Chance(2) {
			m = 0
		}
		if r.Chance(1) {
			c.Ops = append(c.Ops, rOp{Close: true})
		}
		c.Ops = append(c.Ops, rOp{M: m})
	}
	return c
}

// retryEstimateProgress: the offset a consumer that reads everything has reached after the given
// connections (only used to aim the cuts of the generator; eager ends make it approximate).
func retryEstimateProgress(kind string, dataLen int, script []rConn) int {
	est := 0
	for _, k := range script {
		if k.Fail {
			continue
		}
		code := k.Status
		if code == 0 {
			switch {
			case est == 0 || kind == "i":
				code = 200
			case kind == "h" && est < dataLen:
				code = 206
			default:
				code = 503
			}
		}
		if code == 206 && est == 0 {
			code = 200
		}
		got := k.Cut
		switch code {
		case 200:
			if got < 0 || got > dataLen {
				got = dataLen
			}
			est = max(est, got)
		case 206:
			if got < 0 || est+got > dataLen {
				got = dataLen - est
			}
			est += got
		}
	}
	return min(est, dataLen)
}

// retryEarlyEnd mirrors Apko.Retry.Conn.cleanEarlyEnd / invisibleEnd for the connection that answered
// the request with Range offset rng (-1 = no Range): "" = no clean early end on a successful response,
// "evident" = the reader can tell (asked for offset p, answered 200, fewer than p bytes arrived),
// "invisible" = it cannot.
func retryEarlyEnd(kind string, dataLen int, c rConn, rng int) string {
	if c.Fail || c.End != "c" || c.Cut < 0 {
		return ""
	}
	code := c.Status
	if code == 0 {
		switch {
		case rng < 0 || kind == "i":
			code = 200
		case kind == "h" && rng < dataLen:
			code = 206
		case kind == "h":
			code = 416
		default:
			code = 503
		}
	}
	if code == 206 && rng < 0 {
		code = 200
	}
	var contentLen int
	switch code {
	case 200:
		contentLen = dataLen
	case 206:
		contentLen = max(dataLen-rng, 0)
	default:
		return ""
	}
	if c.Cut >= contentLen {
		return ""
	}
	if code == 200 && rng >= 0 && c.Cut < rng {
		return "evident"
	}
	return "invisible"
}

// retryCurrentEnd: the k-th request of the event log is answered by the k-th connection of the script;
// returns retryEarlyEnd of the connection that answered the most recent request, and the set of
// early-end classes met on the way.
func retryCurrentEnd(kind string, dataLen int, script []rConn, events []string) (current string, seen map[string]bool) {
	seen = map[string]bool{}
	k := 0
	for _, e := range events {
		if !strings.HasPrefix(e, "q") {
			continue
		}
		current = ""
		if k < len(script) && !strings.HasPrefix(e, "q?") {
			rng := -1
			if e != "q-" {
				rng, _ = strconv.Atoi(e[1:])
			}
			current = retryEarlyEnd(kind, dataLen, script[k], rng)
			if current != "" {
				seen[current] = true
			}
		}
		k++
	}
	return current, seen
}

func retryOpsProto(ops []rOp) string {
	parts := make([]string, len(ops))
	for i, o := range ops {
		if o.Close {
			parts[i] = "c"
		} else {
			parts[i] = "r" + strconv.Itoa(o.M)
		}
	}
	return strings.Join(parts, ",")
}

func retryScriptProto(sc []rConn) string {
	parts := make([]string, len(sc))
	for i, c := range sc {
		parts[i] = c.proto()
	}
	return strings.Join(parts, ";")
}

func resultClass(err error) string {
	switch {
	case err == nil:
		return "o"
	case err == io.EOF: //nolint:errorlint // exactly what io.ReadAll / io.Copy / bufio / gzip test
		return "e"
	default:
		return "x"
	}
}

// consume performs the consumer's operations on the body and logs the results.
func consume(net *retryNet, body io.ReadCloser, ops []rOp) {
	for _, o := range ops {
		if o.Close {
			_ = body.Close()
			net.log("c")
			continue
		}
		p := bytes.Repeat([]byte{0xAA}, o.M)
		n, err := body.Read(p)
		if n < 0 || n > len(p) {
			net.log(fmt.Sprintf("r!badn%d", n))
			return
		}
		net.log("r" + hex.EncodeToString(p[:n]) + ":" + resultClass(err))
	}
}

func (c retryCase) net() (*retryNet, []byte) {
	data, _ := hex.DecodeString(c.Data)
	return &retryNet{data: data, kind: c.Kind, script: c.Script, altFault: c.Alt}, data
}

// faultFree: every connection the download can use is a clean, complete, successful one.
func (c retryCase) faultFree() bool {
	if len(c.Script) == 0 {
		return false
	}
	for _, k := range c.Script {
		if k.Fail || k.Status != 0 || k.Cut >= 0 || k.End != "c" {
			return false
		}
	}
	return true
}

var retryAPK *apk.APK

func (retrySuite) Run(raw json.RawMessage) []Step {
	var c retryCase
	if err := json.Unmarshal(raw, &c); err != nil {
		return nil
	}
	if c.SelfTest {
		return retrySelfTest()
	}
	ctx := context.Background()
	var steps []Step

	// ---- step 1: the transport / reader directly, arbitrary consumer operations ----
	net, data := c.net()
	rt := apk.VerifNewRangeRetryTransport(ctx, &http.Client{Transport: net})
	req, _ := http.NewRequestWithContext(ctx, http.MethodGet, "http://repo.test/x86_64/pkg-1.0-r0.apk", nil)
	resp, err := rt.RoundTrip(req) //nolint:bodyclose
	var open string
	switch {
	case err != nil:
		open = "E"
		if resp != nil && resp.Body != nil {
			_ = resp.Body.Close()
		}
	case resp.Body == http.NoBody:
		open = "P" + strconv.Itoa(resp.StatusCode)
	default:
		open = "I" + strconv.Itoa(resp.StatusCode)
		consume(net, resp.Body, c.Ops)
	}
	trace := open + ";" + strings.Join(net.events, " ")
	tags := []string{"kind:" + c.Kind, "open:" + open[:1]}
	nreq, nerr, neof, nbf := 0, 0, 0, 0
	for _, e := range net.events {
		switch {
		case strings.HasPrefix(e, "q"):
			nreq++
		case strings.HasPrefix(e, "r") && strings.HasSuffix(e, ":x"):
			nerr++
		case strings.HasPrefix(e, "r") && strings.HasSuffix(e, ":e"):
			neof++
		case e == "bf" || e == "bw":
			nbf++
		}
	}
	tags = append(tags, fmt.Sprintf("requests:%d", min(nreq, 6)), fmt.Sprintf("bodyfaults:%d", min(nbf, 6)))
	if nerr > 0 {
		tags = append(tags, "consumer-saw-error")
	}
	if neof > 0 {
		tags = append(tags, "consumer-saw-eof")
	}
	if nreq > 1 && c.Kind == "i" {
		tags = append(tags, "resume-on-200")
	}
	if nreq > 1 && c.Kind == "h" {
		tags = append(tags, "resume-on-206")
	}
	if len(data) >= 8192 {
		tags = append(tags, "big")
	}
	_, seenEnds := retryCurrentEnd(c.Kind, len(data), c.Script, net.events)
	for _, cls := range []string{"evident", "invisible"} {
		if seenEnds[cls] {
			tags = append(tags, "clean-early-end:"+cls)
		}
	}
	line := strings.Join([]string{"retry.run", c.Kind, c.Data, retryScriptProto(c.Script), retryOpsProto(c.Ops), trace}, "\t")
	desc := fmt.Sprintf("kind=%s len=%d script=%s ops=%s", c.Kind, len(data), retryScriptProto(c.Script), truncStr(retryOpsProto(c.Ops), 120))
	steps = append(steps, Step{Line: line, Go: trace, Desc: desc, Tags: tags, Mode: "verdict", Trivial: open == "E" || nreq < 2})

	// ---- step 2: FetchPackage end to end, a consumer that stops at the first EOF / error ----
	{
		net, data := c.net()
		if retryAPK == nil {
			a, err := apk.New(apk.WithFS(apkfs.NewMemFS()), apk.WithArch("x86_64"))
			if err != nil {
				panic(err)
			}
			retryAPK = a
		}
		retryAPK.SetClient(&http.Client{Transport: net})
		rc, err := retryAPK.FetchPackage(ctx, apk.NewFetchablePackage("pkg", "http://repo.test/x86_64/pkg-1.0-r0.apk"))
		verdict, tag := "pass", "fetchpackage:error"
		if err == nil {
			var got []byte
			var rerr error
			sizes := c.Ops
			if len(sizes) == 0 {
				sizes = []rOp{{M: 512}}
			}
			for i := 0; i < 100000; i++ {
				m := sizes[i%len(sizes)].M
				if m == 0 || sizes[i%len(sizes)].Close {
					m = 13
				}
				p := make([]byte, m)
				n, e := rc.Read(p)
				got = append(got, p[:n]...)
				if e != nil {
					rerr = e
					break
				}
			}
			_ = rc.Close()
			switch {
			case rerr == io.EOF && bytes.Equal(got, data): //nolint:errorlint
				tag = "fetchpackage:complete"
			case rerr == io.EOF && bytes.HasPrefix(data, got) && retryWaived(c, net): //nolint:errorlint
				// the current connection ended early and cleanly where the reader cannot see it (outside the
				// recorded assumption): a short but otherwise correct download is all that can be asked
				tag = "fetchpackage:short-invisible-end"
			case rerr == io.EOF: //nolint:errorlint
				verdict = fmt.Sprintf("fail:FetchPackage body ended cleanly with %d bytes that differ from the %d server bytes", len(got), len(data))
			case rerr == nil:
				verdict = "fail:FetchPackage body never ended"
			case !bytes.HasPrefix(data, got):
				verdict = "fail:FetchPackage body delivered bytes that are not a prefix of the server bytes before failing"
			}
		}
		if tag == "fetchpackage:error" && verdict == "pass" && c.faultFree() {
			verdict = "fail:FetchPackage failed on a fault-free script"
		}
		steps = append(steps, Step{Line: "retry.e2e\tfetchpackage", Go: verdict, Desc: "FetchPackage " + desc, Tags: []string{tag}, Mode: "oracle-go", GoSpec: verdict, NoImpl: true, Trivial: true})
	}

	// ---- step 3: fetchRepositoryIndex end to end (io.ReadAll inside) ----
	{
		net, data := c.net()
		b, err := apk.VerifFetchRepositoryIndex(ctx, "http://repo.test/x86_64/APKINDEX.tar.gz", "", &http.Client{Transport: net})
		verdict, tag := "pass", "fetchindex:error"
		switch {
		case err == nil && bytes.Equal(b, data):
			tag = "fetchindex:complete"
		case err == nil && bytes.HasPrefix(data, b) && retryWaived(c, net):
			tag = "fetchindex:short-invisible-end"
		case err == nil:
			verdict = fmt.Sprintf("fail:fetchRepositoryIndex returned %d bytes that differ from the %d server bytes", len(b), len(data))
		case c.faultFree():
			verdict = "fail:fetchRepositoryIndex failed on a fault-free script"
		}
		steps = append(steps, Step{Line: "retry.e2e\tfetchindex", Go: verdict, Desc: "fetchRepositoryIndex " + desc, Tags: []string{tag}, Mode: "oracle-go", GoSpec: verdict, NoImpl: true, Trivial: true})
	}
	return steps
}

// retryWaived: the connection that answered the most recent request of this download has a clean early
// end that the reader cannot see (Apko.Retry.Spec.St.waive at the end of the trace).
func retryWaived(c retryCase, net *retryNet) bool {
	cur, _ := retryCurrentEnd(c.Kind, len(net.data), c.Script, net.events)
	return cur == "invisible"
}

func truncStr(s string, n int) string {
	if len(s) <= n {
		return s
	}
	return s[:n] + "…"
}
