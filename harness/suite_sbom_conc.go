package main

// corr:sbom-concurrent (C11, run from the -race build): whole multi-architecture `apko build` runs with SBOMs; the
// per-architecture documents are generated concurrently by internal/cli (one goroutine per architecture).  Shared
// state of the generators (a pooled render buffer, a cached document) shows as a race report or, on the output, as a
// document that describes another architecture's image.  Oracle: the one of corr:sbom's end-to-end cases, per
// architecture (every sbom-<arch>.spdx.json describes the image published under that architecture's platform), judged
// by the Lean driver.

import (
	"encoding/json"
	"fmt"
	"strings"
)

type gluelayerSbomConcSuite struct{}

func init() { register(gluelayerSbomConcSuite{}) }

func (gluelayerSbomConcSuite) Name() string { return "sbom-concurrent" }

func (gluelayerSbomConcSuite) Gen(r *Rng, i int, tier string) any {
	c := genImageCase(r)
	archs := Pick(r, [][]string{{"x86_64", "aarch64", "riscv64", "ppc64le"}, {"x86_64", "armv7", "armhf"}, {"armhf", "aarch64", "armv7", "x86_64"}, {"x86_64", "aarch64", "riscv64"}})
	gluelayerSetArchs(r, &c, archs)
	// the documents of the architectures differ in more than the digest when the newest package differs per architecture
	c.SBOM = true
	// paths shipped under /var/lib/db/sbom are the business of corr:sbom; plain packages here
	return c
}

func (gluelayerSbomConcSuite) Run(raw json.RawMessage) []Step {
	var c ImgCase
	if err := json.Unmarshal(raw, &c); err != nil {
		panic(err)
	}
	repo := BuildSynthRepo(c.Pkgs, c.Archs)
	desc := fmt.Sprintf("multi-architecture apko build with SBOMs for %v, world=%v (%d packages in the repository)", c.Archs, c.IC.Contents.Packages, len(c.Pkgs))
	out := e2eBuild(c.IC, repo, E2EOpts{Archs: c.Archs, SBOM: true})
	if out.Err != nil {
		return []Step{{Line: "s.e2e-error", Go: "err", Desc: desc + ": " + firstLine(out.Err.Error()), Mode: "oracle-go", GoSpec: "pass", NoImpl: true, Trivial: true, Tags: []string{"conc:build-error"}}}
	}
	steps := sbJudgeArtifacts(c.Archs, c.IC.VCSUrl, desc, sbFileArtifacts(out), "conc:")
	// and directly on the bytes: the document of an architecture names the digest of that architecture's manifest
	imgs, _ := gluelayerReadIndex(out.Files["layout/index.json"], gluelayerLayoutBlob(out.Files))
	var probs []string
	for _, a := range c.Archs {
		im := gluelayerImageOf(imgs, a)
		sb, ok := out.Files["sbom/sbom-"+a+".spdx.json"]
		if im == nil || !ok {
			probs = append(probs, "no image or no document for "+a)
			continue
		}
		var doc map[string]any
		if err := json.Unmarshal(sb, &doc); err != nil {
			probs = append(probs, fmt.Sprintf("sbom-%s.spdx.json is not JSON: %v", a, err))
			continue
		}
		if !strings.Contains(string(sb), strings.TrimPrefix(im.Desc.Digest, "sha256:")) {
			probs = append(probs, fmt.Sprintf("sbom-%s.spdx.json does not mention the digest %s of the %s image", a, im.Desc.Digest, im.Plat))
		}
		for _, b := range c.Archs {
			if o := gluelayerImageOf(imgs, b); b != a && o != nil && o.Desc.Digest != im.Desc.Digest && strings.Contains(string(sb), strings.TrimPrefix(o.Desc.Digest, "sha256:")) {
				probs = append(probs, fmt.Sprintf("sbom-%s.spdx.json mentions the digest of the %s image", a, o.Plat))
			}
		}
	}
	return append(steps, Step{Line: "s.e2e-error\tconc", Go: "-", Mode: "oracle-go", NoImpl: true, GoSpec: verdict(probs),
		Desc: desc + ": every per-architecture document names its own image's digest and no other's", Tags: []string{fmt.Sprintf("conc:archs:%d", len(c.Archs))}})
}
