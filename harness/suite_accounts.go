package main

import (
	"encoding/json"
	"fmt"
	"path"
	"sort"
	"strings"

	"chainguard.dev/apko/pkg/build"
	"chainguard.dev/apko/pkg/build/types"
)

// corr:accounts — C13: the real mutateAccounts / mutatePaths (export_verif_accounts.go) on a real tarfs
// holding a generated tree, compared with the Lean model on the whole node graph, and the property's
// post-conditions evaluated by the Lean driver on the graph the real code produced; plus whole
// `apko build` runs whose emitted layer / image configuration are judged by the same demands.

type accountsMut struct {
	Path      string `json:"path"`
	Type      string `json:"type"`
	UID       uint32 `json:"uid,omitempty"`
	GID       uint32 `json:"gid,omitempty"`
	Perms     uint32 `json:"perms"`
	Source    string `json:"source,omitempty"`
	Recursive bool   `json:"recursive,omitempty"`
}

type accountsUser struct {
	Name   string  `json:"name"`
	UID    uint32  `json:"uid"`
	GID    *uint32 `json:"gid,omitempty"`
	Shell  string  `json:"shell,omitempty"`
	Home   string  `json:"home,omitempty"`
}

type accountsGroup struct {
	Name    string   `json:"name"`
	GID     uint32   `json:"gid"`
	Members []string `json:"members,omitempty"`
}

type accountsCase struct {
	Kind   string          `json:"kind"` // paths | accounts | e2e
	Setup  []fsOp          `json:"setup,omitempty"`
	Muts   []accountsMut   `json:"muts,omitempty"`
	Users  []accountsUser  `json:"users,omitempty"`
	Groups []accountsGroup `json:"groups,omitempty"`
	RunAs  string          `json:"runas,omitempty"`
	Pkgs   []SPkg          `json:"pkgs,omitempty"` // e2e
	// e2e: the accounts are declared in an include:d configuration file (accounts_glue.go)
	Include bool `json:"include,omitempty"`
	// how many of Muts (and, for the merge steps, of Users / Groups) the include:d configuration declares; the rest is
	// declared by the including one.  The build must see included ++ own, repetitions and all (MergeInto).
	IncMuts int `json:"inc_muts,omitempty"`
	// e2e: the path list was generated as an interfering sequence with a repeated mutation (A, B, A): the layer is
	// judged against the fold of the whole list only
	Repeat string `json:"repeat,omitempty"`
}

type accountsSuite struct{}

func init() { register(accountsSuite{}) }

func (accountsSuite) Name() string { return "accounts" }

func (m accountsMut) token() string {
	r := 0
	if m.Recursive {
		r = 1
	}
	return fmt.Sprintf("%s,%s,%d,%d,%d,%s,%d", hx(m.Type), hx(m.Path), m.UID, m.GID, m.Perms, hx(m.Source), r)
}

func (m accountsMut) desc() string {
	s := fmt.Sprintf("%s %q perms=%#o uid=%d gid=%d", m.Type, m.Path, m.Perms, m.UID, m.GID)
	if m.Source != "" {
		s += fmt.Sprintf(" source=%q", m.Source)
	}
	if m.Recursive {
		s += " recursive"
	}
	return s
}

func (m accountsMut) real() types.PathMutation {
	return types.PathMutation{Path: m.Path, Type: m.Type, UID: m.UID, GID: m.GID, Permissions: m.Perms, Source: m.Source, Recursive: m.Recursive}
}

func (u accountsUser) token() string {
	g := "-"
	if u.GID != nil {
		g = fmt.Sprint(*u.GID)
	}
	return fmt.Sprintf("u,%s,%d,%s,%s,%s", hx(u.Name), u.UID, g, hx(u.Shell), hx(u.Home))
}

func (g accountsGroup) token() string {
	var ms []string
	for _, m := range g.Members {
		ms = append(ms, hx(m))
	}
	return fmt.Sprintf("g,%s,%d,%s", hx(g.Name), g.GID, strings.Join(ms, "+"))
}

func accountsTokens(c accountsCase) []string {
	var t []string
	for _, u := range c.Users {
		t = append(t, u.token())
	}
	for _, g := range c.Groups {
		t = append(t, g.token())
	}
	t = append(t, "r,"+hx(c.RunAs))
	return t
}

// accountsMergeSteps: the REAL ImageConfiguration.MergeInto on the lists of the case — the first k elements of each list
// declared by the included configuration, the rest by the including one — against the model (mergeLists: included ++
// own, nothing dropped, nothing reordered, repetitions kept).  The lists are read back from the merged configuration.
func accountsMergeSteps(c accountsCase) []Step {
	cut := func(n int) int {
		if c.IncMuts < n {
			return c.IncMuts
		}
		return n
	}
	full := accountsIC(c)
	km, ku, kg := cut(len(full.Paths)), cut(len(full.Accounts.Users)), cut(len(full.Accounts.Groups))
	var vols []string
	for i := range c.Muts {
		vols = append(vols, "/vol/"+path.Base(c.Muts[i].Path))
	}
	inc := types.ImageConfiguration{Paths: append([]types.PathMutation{}, full.Paths[:km]...), Volumes: append([]string{}, vols[:km]...)}
	inc.Accounts.Users = append([]types.User{}, full.Accounts.Users[:ku]...)
	inc.Accounts.Groups = append([]types.Group{}, full.Accounts.Groups[:kg]...)
	own := types.ImageConfiguration{Paths: append([]types.PathMutation{}, full.Paths[km:]...), Volumes: append([]string{}, vols[km:]...)}
	own.Accounts.Users = append([]types.User{}, full.Accounts.Users[ku:]...)
	own.Accounts.Groups = append([]types.Group{}, full.Accounts.Groups[kg:]...)
	err := inc.MergeInto(&own)
	var steps []Step
	mk := func(what string, k int, declared, got, human []string) {
		g := strings.Join(got, "|")
		if err != nil {
			g = "err"
		}
		rep := "no-repeat"
		seen := map[string]bool{}
		for _, t := range declared {
			if seen[t] {
				rep = "repeat"
			}
			seen[t] = true
		}
		steps = append(steps, Step{
			Line:    "acc.merge\t" + fmt.Sprint(k) + "\t" + strings.Join(declared, "\t"),
			Go:      g,
			Desc:    fmt.Sprintf("ImageConfiguration.MergeInto: %s, the first %d of %d declared by the included configuration: %s", what, k, len(declared), strings.Join(human, "; ")),
			Tags:    []string{"merge:" + what + ":" + rep},
			Trivial: len(declared) == 0,
		})
	}
	var dm, gm, du, gu, dg, gg, dv, gv, hm, hu, hg []string
	for _, m := range c.Muts {
		dm = append(dm, m.token())
		hm = append(hm, m.desc())
	}
	for _, m := range own.Paths {
		gm = append(gm, accountsMut{Path: m.Path, Type: m.Type, UID: m.UID, GID: m.GID, Perms: m.Permissions, Source: m.Source, Recursive: m.Recursive}.token())
	}
	for _, u := range c.Users {
		du = append(du, u.token())
		hu = append(hu, fmt.Sprintf("user %s uid=%d", u.Name, u.UID))
	}
	for _, u := range own.Accounts.Users {
		gu = append(gu, accountsUser{Name: u.UserName, UID: u.UID, GID: u.GID, Shell: u.Shell, Home: u.HomeDir}.token())
	}
	for _, g := range c.Groups {
		dg = append(dg, g.token())
		hg = append(hg, fmt.Sprintf("group %s gid=%d members=%v", g.Name, g.GID, g.Members))
	}
	for _, g := range own.Accounts.Groups {
		gg = append(gg, accountsGroup{Name: g.GroupName, GID: g.GID, Members: g.Members}.token())
	}
	for _, v := range vols {
		dv = append(dv, hx(v))
	}
	for _, v := range own.Volumes {
		gv = append(gv, hx(v))
	}
	mk("paths", km, dm, gm, hm)
	mk("users", ku, du, gu, hu)
	mk("groups", kg, dg, gg, hg)
	mk("volumes", km, dv, gv, vols)
	return steps
}

func accountsIC(c accountsCase) types.ImageConfiguration {
	var ic types.ImageConfiguration
	for _, u := range c.Users {
		ic.Accounts.Users = append(ic.Accounts.Users, types.User{UserName: u.Name, UID: u.UID, GID: u.GID, Shell: u.Shell, HomeDir: u.Home})
	}
	for _, g := range c.Groups {
		ic.Accounts.Groups = append(ic.Accounts.Groups, types.Group{GroupName: g.Name, GID: g.GID, Members: g.Members})
	}
	ic.Accounts.RunAs = c.RunAs
	for _, m := range c.Muts {
		ic.Paths = append(ic.Paths, m.real())
	}
	return ic
}

// accountsEdgeFields: an account file with an entry whose password field is empty, `*` or `!`
func accountsEdgeFields(txt string) bool {
	for _, l := range strings.Split(txt, "\n") {
		f := strings.Split(l, ":")
		if len(f) >= 4 && (f[1] == "" || f[1] == "*" || f[1] == "!") {
			return true
		}
	}
	return false
}

// error classes (no messages, no paths)
func accountsPathErr(err error) string {
	if err == nil {
		return "ok"
	}
	if strings.Contains(err.Error(), "unsupported path mutation type") {
		return "EBADTYPE"
	}
	return fsErr(err)
}

func accountsWorld(setup []fsOp) *fsWorld {
	w := newWorld("tarfs")
	for _, o := range setup {
		w.apply(o)
	}
	for _, h := range w.handles {
		if h != nil {
			h.Close()
		}
	}
	return w
}

func accountsTags(m map[string]struct{}) []string {
	var tl []string
	for t := range m {
		tl = append(tl, t)
	}
	sort.Strings(tl)
	return tl
}

func (accountsSuite) Run(raw json.RawMessage) []Step {
	var c accountsCase
	if err := json.Unmarshal(raw, &c); err != nil {
		panic(err)
	}
	switch c.Kind {
	case "paths":
		return accountsRunPaths(c)
	case "accounts":
		return accountsRunAccounts(c)
	case "alias":
		return accountsRunAlias(c)
	case "e2e":
		return accountsRunE2E(c)
	}
	return nil
}

func accountsRunPaths(c accountsCase) []Step {
	var steps []Step
	w := accountsWorld(c.Setup)
	pre := w.dump()
	pre0 := pre
	for _, m := range c.Muts {
		ic := types.ImageConfiguration{Paths: []types.PathMutation{m.real()}}
		err := build.VerifMutatePaths(w.tfs, &ic)
		res := accountsPathErr(err)
		post := w.dump()
		tags := map[string]struct{}{"kind:paths": {}, "mut:" + m.Type + ":" + res: {}}
		if m.Recursive {
			tags["recursive:"+res] = struct{}{}
		}
		if m.Perms&0o7000 != 0 {
			tags["perms:setid"] = struct{}{}
		}
		steps = append(steps, Step{
			Line:    "acc.mut\t" + pre + "\t" + res + "\t" + post + "\t" + m.token(),
			Go:      res + "#" + post,
			Desc:    m.desc() + " = " + res,
			Tags:    accountsTags(tags),
			Mode:    "verdict",
			Trivial: err != nil,
		})
		if err != nil {
			break
		}
		pre = post
	}
	// the same list in one call on a fresh copy of the tree
	w2 := accountsWorld(c.Setup)
	ic := types.ImageConfiguration{}
	var toks, descs []string
	for _, m := range c.Muts {
		ic.Paths = append(ic.Paths, m.real())
		toks = append(toks, m.token())
		descs = append(descs, m.desc())
	}
	err := build.VerifMutatePaths(w2.tfs, &ic)
	res := accountsPathErr(err)
	post := w2.dump()
	steps = append(steps, Step{
		Line:    "acc.paths\t" + pre0 + "\t" + res + "\t" + post + "\t" + strings.Join(toks, "\t"),
		Go:      res + "#" + post,
		Desc:    "mutatePaths[" + strings.Join(descs, "; ") + "] = " + res,
		Tags:    []string{fmt.Sprintf("paths:len:%d", len(c.Muts)), "paths:" + res},
		Mode:    "verdict",
		Trivial: err != nil || len(c.Muts) == 0,
	})
	return append(steps, accountsMergeSteps(c)...)
}

// accountsRunAlias: the real mutateAccounts on a tree in which etc/group and etc/passwd are one node.  The goroutines
// race on that node, so no particular outcome is demanded of the model (NoImpl); a call that reports success must
// have realized the declared accounts (the Lean driver judges the graph the real code left).
func accountsRunAlias(c accountsCase) []Step {
	w := accountsWorld(c.Setup)
	pre := w.dump()
	ic := accountsIC(c)
	err := build.VerifMutateAccounts(w.tfs, &ic)
	res := "err"
	if err == nil {
		res = "ok:" + hx(ic.Accounts.RunAs)
	}
	post := w.dump()
	tag := "alias:err"
	if err == nil {
		tag = "alias:ok"
	}
	return []Step{{
		Line:    "acc.alias\t" + pre + "\t" + res + "\t" + post + "\t" + strings.Join(accountsTokens(c), "\t"),
		Go:      "-",
		Desc:    fmt.Sprintf("etc/group and etc/passwd are one node (setup %v); %d users, %d groups => %s", c.Setup[len(c.Setup)-1], len(c.Users), len(c.Groups), res),
		Tags:    []string{"kind:alias", tag},
		Mode:    "verdict",
		NoImpl:  true,
		Trivial: err != nil,
	}}
}

func accountsRunAccounts(c accountsCase) []Step {
	w := accountsWorld(c.Setup)
	pre := w.dump()
	ic := accountsIC(c)
	err := build.VerifMutateAccounts(w.tfs, &ic)
	res := "err"
	if err == nil {
		res = "ok:" + hx(ic.Accounts.RunAs)
	}
	post := w.dump()
	tags := map[string]struct{}{"kind:accounts": {}, fmt.Sprintf("users:%d", len(c.Users)): {}, fmt.Sprintf("groups:%d", len(c.Groups)): {}}
	if len(c.Users) >= 8 {
		tags["accounts:large-list"] = struct{}{}
	}
	for _, o := range c.Setup {
		txt := o.D
		if o.Hdr != nil {
			txt = o.Hdr.Content
		}
		if (o.P == "etc/passwd" || o.P == "etc/group" || (o.Hdr != nil && strings.HasPrefix(o.Hdr.Name, "etc/"))) && accountsEdgeFields(txt) {
			tags["accounts:shipped-edge-fields"] = struct{}{}
		}
	}
	if err != nil {
		cls := "other"
		for _, kv := range [][2]string{{"unable to parse", "parse"}, {"is not a directory", "home-notdir"}, {"failed to open", "open"}, {"creating homedir", "mkdir"}, {"chowning homedir", "chown"}, {"creating parent", "parent"}, {"checking homedir", "stat"}} {
			if strings.Contains(err.Error(), kv[0]) {
				cls = kv[1]
				break
			}
		}
		tags["accounts:err:"+cls] = struct{}{}
	} else {
		tags["accounts:ok"] = struct{}{}
		if c.RunAs != "" {
			if ic.Accounts.RunAs != c.RunAs {
				tags["runas:resolved"] = struct{}{}
			} else {
				tags["runas:kept"] = struct{}{}
			}
		}
	}
	var ds []string
	for _, u := range c.Users {
		g := "-"
		if u.GID != nil {
			g = fmt.Sprint(*u.GID)
		}
		ds = append(ds, fmt.Sprintf("user %s uid=%d gid=%s shell=%q home=%q", u.Name, u.UID, g, u.Shell, u.Home))
	}
	for _, g := range c.Groups {
		ds = append(ds, fmt.Sprintf("group %s gid=%d members=%v", g.Name, g.GID, g.Members))
	}
	steps := []Step{{
		Line:    "acc.accounts\t" + pre + "\t" + res + "\t" + post + "\t" + strings.Join(accountsTokens(c), "\t"),
		Go:      res + "#" + post,
		Desc:    strings.Join(ds, "; ") + fmt.Sprintf("; run-as=%q => %s", c.RunAs, res),
		Tags:    accountsTags(tags),
		Mode:    "verdict",
		Trivial: err != nil,
	}}
	// ta.user: userToUserEntry against its regenerated translation (the check on extract/trans.go)
	for i, u := range c.Users {
		if i >= 4 {
			break
		}
		e := build.VerifUserToUserEntry(types.User{UserName: u.Name, UID: u.UID, GID: u.GID, Shell: u.Shell, HomeDir: u.Home})
		g := "-"
		if u.GID != nil {
			g = fmt.Sprint(*u.GID)
		}
		out := strings.Join([]string{hx(e.UserName), hx(e.Password), fmt.Sprint(e.UID), fmt.Sprint(e.GID), hx(e.Info), hx(e.HomeDir), hx(e.Shell)}, "|")
		steps = append(steps, Step{Line: strings.Join([]string{"ta.user", hx(u.Name), fmt.Sprint(u.UID), g, hx(u.Shell), hx(u.Home)}, "\t"), Go: out,
			Desc: fmt.Sprintf("userToUserEntry(%s uid=%d gid=%s shell=%q home=%q)", u.Name, u.UID, g, u.Shell, u.Home), Tags: []string{"ta.user"}})
	}
	return steps
}
