package main

import (
	"context"
	"encoding/base32"
	"encoding/hex"
	"encoding/json"
	"fmt"
	"io"
	"io/fs"
	"net/http"
	"os"
	"path/filepath"
	"sort"
	"strconv"
	"strings"

	"chainguard.dev/apko/pkg/apk/apk"
	apkfs "chainguard.dev/apko/pkg/apk/fs"
	"golang.org/x/sys/unix"
)

// corr:retry-e2e — C20 end to end.  The callers of the retry transport and the byte path of the cache
// transport run on fault scripts, and the Lean model (Model/Fetch.lean) predicts, per operation, the result
// class with its bytes, the state of the cache directory afterwards (advertised entries and orphaned temp
// files with their contents) and the trace of requests and body reads; the oracle (every accepted download
// is a complete body the server answered with, an error advertises nothing, …) is evaluated in Lean on the
// output of the real code.
//
//   hist: a history over ONE url and one cache directory — the index (HEAD as indexCache.get does it, then
//         the real fetchRepositoryIndex) or a key (the real InitKeyring): repository updates with changed
//         ETags, new processes, online operations through the cache transport / without a cache / offline,
//         each with its own fault script (faults during the HEAD, during the GET, missing ETags, statuses).
//   pkgs: two or three packages through the real FetchPackage over one network (faults on the second
//         package), with and without the disk cache, offline.
//
// The buffer sizes of the consumers inside apko (io.ReadAll, io.Copy) are observed at the scripted bodies
// and handed to the model, whose theorems hold for all sizes.

type xConn struct {
	rConn
	NoEtag bool `json:"noetag,omitempty"`
}

func (c xConn) proto() string {
	if c.NoEtag {
		return c.rConn.proto() + ",1"
	}
	return c.rConn.proto() + ",0"
}

type e2eOp struct {
	Op     string  `json:"op"` // publish | exit | fetch
	Etag   int     `json:"etag,omitempty"`
	Data   string  `json:"data,omitempty"` // hex
	Mode   string  `json:"mode,omitempty"` // d | c | o
	Script []xConn `json:"script,omitempty"`
}

type e2eCase struct {
	Kind    string `json:"kind"`    // hist | pkgs
	SrvKind string `json:"srvkind"` // h | i | e
	Alt     bool   `json:"alt,omitempty"`
	// hist
	Target string  `json:"target,omitempty"` // index | key
	Memo   bool    `json:"memo,omitempty"`
	Etag   int     `json:"etag,omitempty"` // 0 = the server sends no ETag
	Data   string  `json:"data,omitempty"`
	Ops    []e2eOp `json:"ops,omitempty"`
	// inst (retry_install.go)
	Inst []instPkg `json:"inst,omitempty"`
	// pkgs
	Datas     []string `json:"datas,omitempty"`
	Script    []rConn  `json:"script,omitempty"`
	CacheMode string   `json:"cachemode,omitempty"` // n | c | o
	Sizes     []int    `json:"sizes,omitempty"`
}

type e2eNet struct {
	inner *retryNet
	xs    []xConn
}

func e2eEtagHeader(e int) string { return `"e` + strconv.Itoa(e) + `"` }

func (n *e2eNet) RoundTrip(req *http.Request) (*http.Response, error) {
	idx := n.inner.next
	if req.Method == http.MethodHead {
		n.inner.log("h")
		if idx >= len(n.xs) {
			return nil, errRetryDial
		}
		c := n.xs[idx]
		n.inner.next++
		if c.Fail {
			return nil, errRetryDial
		}
		code := c.Status
		if code == 0 {
			code = 200
		}
		resp := &http.Response{StatusCode: code, Status: fmt.Sprintf("%d %s", code, http.StatusText(code)),
			Proto: "HTTP/1.1", ProtoMajor: 1, ProtoMinor: 1, Header: http.Header{}, Body: http.NoBody, Request: req}
		if n.inner.etag != "" && !c.NoEtag {
			resp.Header.Set("ETag", n.inner.etag)
		}
		return resp, nil
	}
	resp, err := n.inner.RoundTrip(req)
	if err == nil && resp != nil && idx < len(n.xs) && n.inner.etag != "" && !n.xs[idx].NoEtag {
		resp.Header.Set("ETag", n.inner.etag)
	}
	return resp, err
}

type retryE2ESuite struct{}

func init() { register(retryE2ESuite{}) }

func (retryE2ESuite) Name() string { return "retry-e2e" }

func genXScriptTail(r *Rng, dataLen int) []xConn {
	var out []xConn
	n := 0
	switch r.Intn(6) {
	case 0:
		n = 0
	case 1, 2, 3:
		n = 1
	default:
		n = 2 + r.Intn(3)
	}
	for k := 0; k < n; k++ {
		if r.Chance(45) {
			out = append(out, xConn{rConn: genCleanConn(r)})
		} else {
			out = append(out, xConn{rConn: genFaultyConn(r, dataLen)})
		}
	}
	if r.Chance(60) {
		out = append(out, xConn{rConn: genCleanConn(r)})
	}
	for i := range out {
		if r.Chance(5) {
			out[i].NoEtag = true
		}
	}
	return out
}

func genHeadConn(r *Rng) xConn {
	c := xConn{rConn: rConn{Cut: -1, End: "c"}}
	switch r.Intn(20) {
	case 0:
		c.Fail = true
	case 1:
		c.Status = Pick(r, []int{503, 404, 500, 429, 204})
	case 2:
		c.NoEtag = true
	case 3:
		c.Status = Pick(r, []int{503, 404})
		c.NoEtag = true
	}
	return c
}

func (retryE2ESuite) Gen(r *Rng, i int, tier string) any {
	c := e2eCase{SrvKind: Pick(r, []string{"h", "h", "i", "i", "e"}), Alt: r.Bool()}
	small := func() []byte {
		d := genData(r, tier)
		if len(d) > 4000 && r.Chance(70) {
			d = d[:200+r.Intn(300)]
		}
		return d
	}
	if i%8 == 5 {
		// the whole of InstallPackages over a faulty network (drawn from its own stream: the other kinds keep theirs)
		c.Kind = "inst"
		c.Inst = genInstCase(&Rng{s: r.s ^ 0x1f83d9abfb41bd6b})
		return c
	}
	if r.Chance(35) {
		c.Kind = "pkgs"
		n := 2 + r.Intn(2)
		total := 0
		for k := 0; k < n; k++ {
			d := small()
			total += len(d)
			c.Datas = append(c.Datas, hex.EncodeToString(d))
		}
		// connections for all the packages: faulty ones anywhere, enough clean ones
		nconn := n + r.Intn(6)
		for k := 0; k < nconn; k++ {
			if r.Chance(40) {
				c.Script = append(c.Script, genFaultyConn(r, total/n+1))
			} else {
				c.Script = append(c.Script, genCleanConn(r))
			}
		}
		if r.Chance(50) {
			// a healthy first package, faults afterwards
			c.Script[0] = genCleanConn(r)
		}
		c.CacheMode = Pick(r, []string{"n", "n", "c", "c", "c", "o"})
		c.Sizes = []int{Pick(r, []int{1, 3, 16, 512, 4096, 32768})}
		for k := r.Intn(4); k > 0; k-- {
			c.Sizes = append(c.Sizes, 1+r.Intn(700))
		}
		return c
	}
	c.Kind = "hist"
	c.Target = Pick(r, []string{"index", "index", "key"})
	c.Memo = r.Chance(60)
	needEtag := c.Target == "index" && !c.Memo
	nextEtag := 1
	c.Etag = nextEtag
	nextEtag++
	if !needEtag && r.Chance(10) {
		c.Etag = 0
	}
	data := small()
	c.Data = hex.EncodeToString(data)
	nops := 2 + r.Intn(5)
	for k := 0; k < nops; k++ {
		switch x := r.Intn(20); {
		case x < 2:
			d := small()
			data = d
			op := e2eOp{Op: "publish", Etag: nextEtag, Data: hex.EncodeToString(d)}
			nextEtag++
			if !needEtag && r.Chance(6) {
				op.Etag = 0
			}
			c.Ops = append(c.Ops, op)
		case x < 4:
			c.Ops = append(c.Ops, e2eOp{Op: "exit"})
		default:
			op := e2eOp{Op: "fetch"}
			switch y := r.Intn(20); {
			case y < 3:
				op.Mode = "o"
			case y < 6:
				op.Mode = "d"
			default:
				op.Mode = "c"
			}
			switch {
			case op.Mode == "o":
			case op.Mode == "d" && c.Target == "key":
				op.Script = genXScriptTail(r, len(data))
			default:
				op.Script = append([]xConn{genHeadConn(r)}, genXScriptTail(r, len(data))...)
			}
			if needEtag && op.Mode == "c" && len(op.Script) > 0 {
				op.Script[0].NoEtag = false
			}
			c.Ops = append(c.Ops, op)
		}
	}
	// most histories end with an offline look at what the faults left behind
	if r.Chance(55) {
		c.Ops = append(c.Ops, e2eOp{Op: "fetch", Mode: "o"})
	}
	return c
}

const (
	e2eIndexURL = "http://repo.test/os/x86_64/APKINDEX.tar.gz"
	e2eKeyURL   = "http://keys.test/kd/x86_64/verif.rsa.pub"
)

// e2eDirState: the advertised entries (links, named by the ETag, with the content they lead to) and the
// temp files no entry leads to, sorted.
func e2eDirState(root string) []string {
	var out []string
	referenced := map[string]bool{}
	var regular []string
	_ = filepath.WalkDir(root, func(p string, d fs.DirEntry, err error) error {
		if err != nil || d.IsDir() {
			return nil
		}
		if d.Type()&fs.ModeSymlink != 0 {
			if tgt, err := filepath.EvalSymlinks(p); err == nil {
				referenced[tgt] = true
			}
			name := filepath.Base(p)
			name = strings.TrimSuffix(strings.TrimSuffix(name, ".tar.gz"), ".etag")
			id := "?" + name
			if raw, err := base32.StdEncoding.DecodeString(name); err == nil && strings.HasPrefix(string(raw), "e") {
				id = string(raw)[1:]
			}
			b, err := os.ReadFile(p)
			if err != nil {
				out = append(out, "A"+id+"=!dangling")
			} else {
				out = append(out, "A"+id+"="+hex.EncodeToString(b))
			}
			return nil
		}
		regular = append(regular, p)
		return nil
	})
	for _, p := range regular {
		rp, err := filepath.EvalSymlinks(p)
		if err != nil {
			rp = p
		}
		if referenced[rp] || referenced[p] {
			continue
		}
		b, _ := os.ReadFile(p)
		if strings.HasSuffix(p, ".tmp") {
			out = append(out, "T="+hex.EncodeToString(b))
		} else {
			out = append(out, "U"+filepath.Base(p)+"="+hex.EncodeToString(b))
		}
	}
	sort.Strings(out)
	return out
}

// e2eAgeEntries: time passes between the operations of a history.  Every advertised entry (link) that was
// not there before gets a modification time of its own, later than all earlier ones (file systems stamp
// new inodes with a coarse clock: two operations of one case may fall into the same tick, and fetchOffline
// orders by modification time).
func e2eAgeEntries(root string, seen map[string]bool, tick *int64) {
	_ = filepath.WalkDir(root, func(p string, d fs.DirEntry, err error) error {
		if err != nil || d.IsDir() || d.Type()&fs.ModeSymlink == 0 || seen[p] {
			return nil
		}
		seen[p] = true
		*tick++
		ts := unix.Timespec{Sec: 1_600_000_000 + *tick}
		_ = unix.UtimesNanoAt(unix.AT_FDCWD, p, []unix.Timespec{ts, ts}, unix.AT_SYMLINK_NOFOLLOW)
		return nil
	})
}

func e2eSizes(xs []int) string {
	parts := make([]string, len(xs))
	for i, x := range xs {
		parts[i] = strconv.Itoa(x)
	}
	return strings.Join(parts, ".")
}

func e2eXScript(sc []xConn) string {
	parts := make([]string, len(sc))
	for i, c := range sc {
		parts[i] = c.proto()
	}
	return strings.Join(parts, ";")
}

func e2eAnswer(res string, dir []string, events []string) string {
	toks := []string{res}
	toks = append(toks, dir...)
	toks = append(toks, events...)
	return strings.Join(toks, " ")
}

func (retryE2ESuite) Run(raw json.RawMessage) []Step {
	var c e2eCase
	if err := json.Unmarshal(raw, &c); err != nil {
		return nil
	}
	ctx := context.Background()
	dir, err := os.MkdirTemp("", "retry-e2e-")
	if err != nil {
		panic(err)
	}
	defer os.RemoveAll(dir)
	if c.Kind == "pkgs" {
		return e2eRunPkgs(ctx, c, dir)
	}
	if c.Kind == "inst" {
		return instRun(c.Inst)
	}
	return e2eRunHist(ctx, c, dir)
}

func e2eRunHist(ctx context.Context, c e2eCase, dir string) []Step {
	shared := apk.NewCache(c.Memo)
	data, _ := hex.DecodeString(c.Data)
	etag := c.Etag
	var opsProto, answers []string
	tags := map[string]bool{"target:" + c.Target: true, fmt.Sprintf("memo:%v", c.Memo): true, "kind:" + c.SrvKind: true}
	sawErr, published, anyOK, anyFault := false, false, false, false
	seenEntries := map[string]bool{}
	var tick int64
	for _, op := range c.Ops {
		switch op.Op {
		case "publish":
			data, _ = hex.DecodeString(op.Data)
			etag = op.Etag
			published = true
			opsProto = append(opsProto, "P"+strconv.Itoa(op.Etag)+":"+op.Data)
			continue
		case "exit":
			shared = apk.NewCache(c.Memo)
			apk.VerifResetGlobalCaches()
			opsProto = append(opsProto, "X")
			continue
		}
		inner := &retryNet{data: data, kind: c.SrvKind, altFault: c.Alt, logSizes: true}
		for _, x := range op.Script {
			inner.script = append(inner.script, x.rConn)
		}
		if etag != 0 {
			inner.etag = e2eEtagHeader(etag)
		}
		net := &e2eNet{inner: inner, xs: op.Script}
		plain := &http.Client{Transport: net}
		var got []byte
		var gerr error
		if c.Target == "index" {
			client := plain
			if op.Mode != "d" {
				client = apk.VerifCacheClient(dir, op.Mode == "o", shared, plain, true)
			}
			got, gerr = e2eIndex(ctx, client)
		} else {
			got, gerr = e2eKey(ctx, plain, dir, op.Mode, shared)
		}
		res := "R:err"
		if gerr == nil {
			res = "R:ok:" + hex.EncodeToString(got)
			anyOK = true
		}
		e2eAgeEntries(dir, seenEntries, &tick)
		st := e2eDirState(dir)
		answers = append(answers, e2eAnswer(res, st, inner.events))
		opsProto = append(opsProto, "O"+op.Mode+":"+e2eXScript(op.Script)+":"+e2eSizes(inner.sizes))
		// tags
		tags["op:"+op.Mode] = true
		if gerr != nil {
			tags["res:err:"+op.Mode] = true
		} else {
			tags["res:ok:"+op.Mode] = true
		}
		for _, e := range inner.events {
			if e == "bf" || e == "bw" {
				anyFault = true
				tags["body-fault"] = true
			}
		}
		if len(inner.events) > 0 && inner.events[0] == "h" && gerr != nil && len(inner.events) == 1 {
			tags["head-fault"] = true
			anyFault = true
		}
		for _, s := range st {
			if strings.HasPrefix(s, "T=") {
				tags["tmp-left"] = true
			}
		}
		if published && op.Mode == "c" && len(st) > 0 {
			tags["warm-entry-changed-etag"] = true
		}
		if op.Mode == "o" && sawErr {
			tags["offline-after-faulted-run"] = true
		}
		if op.Mode == "c" && gerr == nil && len(inner.events) == 0 {
			tags["served-without-request"] = true
		}
		if gerr != nil && op.Mode != "o" {
			sawErr = true
		}
	}
	memo := "0"
	if c.Memo {
		memo = "1"
	}
	goOut := strings.Join(answers, "|")
	line := strings.Join([]string{"fetch.hist", c.Target, memo, c.SrvKind, strconv.Itoa(c.Etag), c.Data, strings.Join(opsProto, "|"), goOut}, "\t")
	var tl []string
	for t := range tags {
		tl = append(tl, t)
	}
	sort.Strings(tl)
	desc := fmt.Sprintf("hist target=%s memo=%v kind=%s etag=%d len=%d ops=%s", c.Target, c.Memo, c.SrvKind, c.Etag, len(c.Data)/2, truncStr(strings.Join(opsProto, "|"), 300))
	return []Step{{Line: line, Go: goOut, Desc: desc, Tags: tl, Mode: "verdict", Trivial: !(anyOK && anyFault)}}
}

// e2eIndex: the HEAD of indexCache.get (statement list tied: fetch_stmts_indexRemote) and the real
// fetchRepositoryIndex with the ETag of the answer.
func e2eIndex(ctx context.Context, client *http.Client) ([]byte, error) {
	head, err := http.NewRequestWithContext(ctx, http.MethodHead, e2eIndexURL, nil)
	if err != nil {
		return nil, err
	}
	resp, err := client.Do(head)
	if err != nil {
		return nil, err
	}
	if resp.Body != nil {
		defer resp.Body.Close()
	}
	if resp.StatusCode != http.StatusOK {
		return nil, fmt.Errorf("unexpected status code %d", resp.StatusCode)
	}
	etag, _ := apk.VerifEtagFromResponse(resp)
	return apk.VerifFetchRepositoryIndex(ctx, e2eIndexURL, etag, client)
}

// e2eKey: the real InitKeyring for one remote key, into a fresh memory file system.
func e2eKey(ctx context.Context, plain *http.Client, dir, mode string, shared *apk.Cache) ([]byte, error) {
	mfs := apkfs.NewMemFS()
	opts := []apk.Option{apk.WithFS(mfs), apk.WithArch("x86_64")}
	if mode != "d" {
		opts = append(opts, apk.WithCache(dir, mode == "o", shared))
	}
	a, err := apk.New(opts...)
	if err != nil {
		panic(err)
	}
	a.SetClient(plain)
	if err := a.InitKeyring(ctx, []string{e2eKeyURL}, nil); err != nil {
		// nothing may have been written to the keyring
		if b, rerr := mfs.ReadFile("etc/apk/keys/verif.rsa.pub"); rerr == nil {
			return b, fmt.Errorf("InitKeyring failed (%w) but wrote %d bytes to the keyring", err, len(b))
		}
		return nil, err
	}
	return mfs.ReadFile("etc/apk/keys/verif.rsa.pub")
}

func e2eRunPkgs(ctx context.Context, c e2eCase, dir string) []Step {
	opts := []apk.Option{apk.WithFS(apkfs.NewMemFS()), apk.WithArch("x86_64")}
	if c.CacheMode != "n" {
		opts = append(opts, apk.WithCache(dir, c.CacheMode == "o", apk.NewCache(true)))
	}
	a, err := apk.New(opts...)
	if err != nil {
		panic(err)
	}
	net := &retryNet{kind: c.SrvKind, script: c.Script, altFault: c.Alt, logSizes: true}
	a.SetClient(&http.Client{Transport: net})
	var answers, sizes []string
	tags := map[string]bool{"cache:" + c.CacheMode: true, "kind:" + c.SrvKind: true, fmt.Sprintf("packages:%d", len(c.Datas)): true}
	anyOK, anyFault := false, false
	for i, dh := range c.Datas {
		data, _ := hex.DecodeString(dh)
		net.data = data
		net.events = nil
		net.sizes = nil
		rc, err := a.FetchPackage(ctx, apk.NewFetchablePackage("pkg"+strconv.Itoa(i), fmt.Sprintf("http://repo.test/os/x86_64/pkg%d-1.0-r0.apk", i)))
		res := "R:err"
		if err == nil {
			var got []byte
			var rerr error
			for k := 0; k < 200000; k++ {
				m := c.Sizes[k%len(c.Sizes)]
				if m <= 0 {
					m = 1
				}
				p := make([]byte, m)
				n, e := rc.Read(p)
				got = append(got, p[:n]...)
				if e != nil {
					rerr = e
					break
				}
			}
			_ = rc.Close()
			if rerr == io.EOF { //nolint:errorlint // what the consumers test
				res = "R:ok:" + hex.EncodeToString(got)
				anyOK = true
			}
		}
		nreq := 0
		for _, e := range net.events {
			if strings.HasPrefix(e, "q") {
				nreq++
			}
			if e == "bf" || e == "bw" {
				anyFault = true
			}
		}
		if nreq > 1 {
			tags[fmt.Sprintf("resumed:pkg%d", min(i, 2))] = true
		}
		tags[fmt.Sprintf("pkg%d:%s", min(i, 2), res[:5])] = true
		answers = append(answers, e2eAnswer(res, e2eDirState(dir), net.events))
		sizes = append(sizes, e2eSizes(net.sizes))
	}
	goOut := strings.Join(answers, "|")
	line := strings.Join([]string{"fetch.pkgs", c.SrvKind, c.CacheMode, strings.Join(c.Datas, ";"), retryScriptProto(c.Script), strings.Join(sizes, ";"), goOut}, "\t")
	var tl []string
	for t := range tags {
		tl = append(tl, t)
	}
	sort.Strings(tl)
	desc := fmt.Sprintf("pkgs n=%d cache=%s kind=%s script=%s", len(c.Datas), c.CacheMode, c.SrvKind, truncStr(retryScriptProto(c.Script), 300))
	return []Step{{Line: line, Go: goOut, Desc: desc, Tags: tl, Mode: "verdict", Trivial: !(anyOK && anyFault)}}
}
