package main

// Generators for corr:formats.  Everything is derived from the *Rng only.

import (
	"crypto/sha1"
	"encoding/base64"
	"fmt"
	"path/filepath"
	"strings"
)

var fmtWords = []string{"busybox", "musl", "so:libc.musl-x86_64.so.1", "cmd:sh=1.36.1-r2", "lib-x", "a", "pc:zlib>=1.2", "ca-certificates-bundle",
	"/bin/sh", "x86_64", "aarch64", "MIT", "GPL-2.0-only", "Apache-2.0 AND MIT", "a.b+c", "libssl3~3.1", "!conflict", "foo<2", "[x", "y]", "[]", "wolfi-base",
	"https://example.org/p?a=1&b=2", "J. Doe <jd@example.org>", "0", "-", "é", "日本", "tab\there", "Q1abc=", "C:evil", "=", "%s", "{{.Name}}"}

const fmtSafeBytes = "abcdefghijklmnopqrstuvwxyzABCXYZ0123456789-_.+=<>~@/!#$%&*()[]{}|;'\"?,^`\\"

// genField: a field value free of line terminators (may contain spaces and ':').
func genField(r *Rng) string {
	switch r.Intn(12) {
	case 0:
		return ""
	case 1, 2, 3, 4:
		return Pick(r, fmtWords)
	case 5:
		// unusual but separator-free bytes (high bytes, controls other than LF/CR)
		n := 1 + r.Intn(6)
		b := make([]byte, n)
		for i := range b {
			c := byte(r.Intn(256))
			if c == '\n' || c == '\r' {
				c = 0x7f
			}
			b[i] = c
		}
		return string(b)
	case 6:
		return Pick(r, fmtWords) + " " + Pick(r, fmtWords)
	default:
		n := 1 + r.Intn(10)
		b := make([]byte, n)
		for i := range b {
			b[i] = fmtSafeBytes[r.Intn(len(fmtSafeBytes))]
		}
		return string(b)
	}
}

// genItem: a list item (no space, non-empty) — unless hostile.
func genItem(r *Rng, hostile bool) string {
	if hostile && r.Chance(30) {
		return Pick(r, []string{"", "a b", " x", "y ", "a\nb", "c\r"})
	}
	for {
		s := genField(r)
		s = strings.ReplaceAll(s, " ", "_")
		if s != "" {
			return s
		}
	}
}

func genList(r *Rng, hostile bool) []string {
	n := 0
	switch r.Intn(8) {
	case 0, 1, 2:
		n = 0
	case 3, 4:
		n = 1
	case 5, 6:
		n = 2 + r.Intn(3)
	default:
		n = 5 + r.Intn(12)
	}
	var out []string
	for i := 0; i < n; i++ {
		out = append(out, genItem(r, hostile))
	}
	return out
}

var fmtU64 = []uint64{0, 0, 1, 2, 9, 10, 4096, 1<<31 - 1, 1 << 31, 1<<32 - 1, 1 << 32, 1<<63 - 1, 1 << 63, ^uint64(0), ^uint64(0) - 1, 123456789}

func genU64(r *Rng) uint64 {
	if r.Chance(50) {
		return Pick(r, fmtU64)
	}
	return r.Next() >> uint(r.Intn(64))
}

var fmtI64 = []int64{0, 1, -1, 1700000000, 1<<31 - 1, 1 << 31, 1<<63 - 1, -1 << 63, -62135596800, -62135596801, -62135596799, 253402300799, 1 << 62}

func genI64(r *Rng) int64 {
	if r.Chance(55) {
		return Pick(r, fmtI64)
	}
	return int64(r.Next() >> uint(r.Intn(64)))
}

func genChecksum(r *Rng) string {
	switch r.Intn(8) {
	case 0:
		return ""
	case 1:
		b := make([]byte, 1+r.Intn(5))
		for i := range b {
			b[i] = byte(r.Next())
		}
		return string(b)
	default:
		h := sha1.Sum([]byte(fmt.Sprint(r.Next())))
		return string(h[:])
	}
}

func genPkg(r *Rng, hostile bool) fPkg {
	var p fPkg
	name := genItem(r, false)
	if hostile && r.Chance(15) {
		name = Pick(r, []string{"", "a\nb", "x\r", "P:y", " lead"})
	}
	f := func() string {
		s := genField(r)
		if hostile && r.Chance(6) {
			s += Pick(r, []string{"\n", "\r", "\nP:injected", "\r\n", "a\rb"})
		}
		return hx(s)
	}
	p.Name = hx(name)
	p.Version, p.Arch, p.Desc, p.License, p.Origin, p.Maint, p.URL, p.Commit = f(), f(), f(), f(), f(), f(), f(), f()
	if r.Chance(60) {
		p.Version = hx(genVersion(r).String())
	}
	p.Checksum = hx(genChecksum(r))
	p.Deps, p.Provides, p.InstallIf, p.Replaces = hxs(genList(r, hostile)), hxs(genList(r, hostile)), hxs(genList(r, hostile)), hxs(genList(r, hostile))
	if r.Chance(55) {
		p.InstallIf = nil
	}
	p.Size, p.ISize, p.Prio = genU64(r), genU64(r), genU64(r)
	if r.Chance(20) {
		p.ZeroTime = true
		p.BuildTime = -62135596800
	} else {
		p.BuildTime = genI64(r)
		// time.Unix(sec, 0) wraps outside the representable range; keep the wire value what Unix() reports
		p.BuildTime = p.real().BuildTime.Unix()
	}
	return p
}

// a long list whose joined form exceeds the scanner's token limit
func longList(r *Rng, total int) []string {
	var out []string
	n := 0
	for n < total {
		s := fmt.Sprintf("so:lib%d.so.%d", r.Intn(100000), r.Intn(10))
		out = append(out, s)
		n += len(s) + 1
	}
	return out
}

var fmtModes = []int64{0o644, 0o755, 0o644, 0o755, 0o600, 0o700, 0, 0o777, 0o444, 0o4755, 0o2755, 0o1777, 0o7777, 0o4711, 0o100644, 0o40755}
var fmtIDs = []int{0, 0, 0, 1, 2, 100, 1000, 65534, 65535, 1<<31 - 1, 1 << 31, 1<<63 - 1, -1}

func genMeta(r *Rng, f *fFile) {
	switch r.Intn(4) {
	case 0:
		if f.Dir {
			f.Mode = 0o755
		} else {
			f.Mode = 0o644
		}
	default:
		f.Mode = Pick(r, fmtModes)
		if f.Mode > 0o7777 && !r.Chance(15) {
			f.Mode &= 0o777
		}
		if f.Mode >= 512 && !r.Chance(35) {
			f.Mode &= 0o777
		}
	}
	if r.Chance(40) {
		f.Uid = Pick(r, fmtIDs)
		if f.Uid < 0 && !r.Chance(10) {
			f.Uid = 0
		}
	}
	if r.Chance(40) {
		f.Gid = Pick(r, fmtIDs)
		if f.Gid < 0 && !r.Chance(10) {
			f.Gid = 0
		}
	}
	if !f.Dir && r.Chance(35) {
		h := sha1.Sum([]byte(fmt.Sprint(r.Next())))
		switch r.Intn(6) {
		case 0:
			f.Csum = hx("Q1" + base64.StdEncoding.EncodeToString(h[:]))
		case 1:
			f.Csum = hx(strings.ToUpper(fmt.Sprintf("%x", h[:])))
		case 2:
			f.Csum = hx(fmt.Sprintf("%x", h[:r.Intn(20)]))
		default:
			f.Csum = hx(fmt.Sprintf("%x", h[:]))
		}
	}
}

var fmtComps = []string{"usr", "bin", "lib", "etc", "share", "a", "b", "x-1", "lib64", "apk", "db", "ssl", "certs", "man1", "é", "with space", "a:b", "..x", "x.", "[d]", "Z:", "0"}

// genTree builds a parent-closed tree of headers (in shuffled order).
func genTree(r *Rng, hostile bool) []fFile {
	type node struct {
		path string
		dir  bool
	}
	var nodes []node
	dirs := []string{""}
	n := r.Intn(14)
	if r.Chance(10) {
		n = 14 + r.Intn(30)
	}
	deep := r.Chance(12)
	seen := map[string]bool{}
	for i := 0; i < n; i++ {
		parent := Pick(r, dirs)
		if deep {
			parent = dirs[len(dirs)-1]
		}
		if parent == "" && r.Chance(80) && len(dirs) > 1 {
			parent = dirs[1+r.Intn(len(dirs)-1)]
		}
		comp := Pick(r, fmtComps)
		if r.Chance(25) {
			comp = genItem(r, false)
			comp = strings.ReplaceAll(comp, "/", "_")
			if comp == "." || comp == ".." {
				comp = "d"
			}
		}
		p := comp
		if parent != "" {
			p = parent + "/" + comp
		}
		if seen[p] {
			continue
		}
		seen[p] = true
		isDir := r.Chance(45) || (deep && i < n-2)
		nodes = append(nodes, node{p, isDir})
		if isDir {
			dirs = append(dirs, p)
		}
	}
	var out []fFile
	for _, nd := range nodes {
		f := fFile{Name: hx(nd.path), Dir: nd.dir}
		genMeta(r, &f)
		out = append(out, f)
	}
	r.Shuffle(len(out), func(i, j int) { out[i], out[j] = out[j], out[i] })
	if hostile && len(out) > 0 {
		// outside the quantifier: duplicates, missing parents, unclean names, trailing slashes
		for k := 0; k < 1+r.Intn(2); k++ {
			if len(out) == 0 {
				break
			}
			i := r.Intn(len(out))
			name := unhx(out[i].Name)
			switch r.Intn(7) {
			case 0:
				out = append(out, out[i])
			case 1:
				out = append(out[:i], out[i+1:]...)
			case 2:
				name = "./" + name
			case 3:
				if out[i].Dir {
					name += "/"
				}
			case 4:
				name = "/" + name
			case 5:
				name = strings.Replace(name, "/", "//", 1)
			case 6:
				name = name + "/../" + Pick(r, fmtComps)
			}
			if i < len(out) {
				// never produce a header that cleans to "." : sortTarHeaders recurses forever on it (reported separately)
				if c := filepath.Clean(name); c != "." && c != "" && name != "" {
					out[i].Name = hx(name)
				}
			}
		}
	}
	return out
}

func genIPkg(r *Rng, hostile bool) fIPkg {
	ip := fIPkg{Pkg: genPkg(r, hostile)}
	ip.Files = genTree(r, hostile && r.Chance(50))
	return ip
}

var fmtSpaces = []string{" ", "\t", "\v", "\f", "\u0085", " ", " ", "　", " ", " ", " ", "\xc2", "\x85", "\xa0", "\xe2\x80"}

func genPwField(r *Rng, hostile bool) string {
	s := genField(r)
	s = strings.ReplaceAll(s, ":", "_")
	if hostile && r.Chance(20) {
		s += Pick(r, []string{":", "\n", "\r", ":x:"})
	}
	return s
}

func genUser(r *Rng, hostile bool) fUser {
	u := fUser{}
	name := genPwField(r, hostile)
	shell := Pick(r, []string{"/bin/sh", "/sbin/nologin", "", "/bin/ash", genPwField(r, hostile)})
	if r.Chance(12) {
		name = Pick(r, fmtSpaces) + name
	}
	if r.Chance(12) {
		shell += Pick(r, fmtSpaces)
	}
	if r.Chance(4) {
		name = Pick(r, fmtSpaces)
	}
	if r.Chance(2) {
		// long gecos / home fields (line longer than 4096 bytes)
		shell = "/bin/" + strings.Repeat("s", Pick(r, []int{4000, 4090, 4096, 5000, 9000}))
	}
	u.Name, u.Password, u.Info, u.Home, u.Shell = hx(name), hx(Pick(r, []string{"x", "", "*", "!", genPwField(r, hostile)})), hx(genPwField(r, hostile)), hx(genPwField(r, hostile)), hx(shell)
	ids := []uint32{0, 1, 100, 1000, 65534, 65535, 1<<31 - 1, 1 << 31, 1<<32 - 1}
	u.UID, u.GID = Pick(r, ids), Pick(r, ids)
	if r.Chance(30) {
		u.UID = uint32(r.Next())
	}
	return u
}

func genGroup(r *Rng, hostile bool) fGroup {
	g := fGroup{}
	name := genPwField(r, hostile)
	if r.Chance(10) {
		name = Pick(r, fmtSpaces) + name
	}
	g.Name, g.Password = hx(name), hx(Pick(r, []string{"x", "", "*", genPwField(r, hostile)}))
	g.GID = Pick(r, []uint32{0, 1, 100, 65534, 1<<31 - 1, 1 << 31, 1<<32 - 1, uint32(r.Next())})
	n := Pick(r, []int{0, 0, 1, 1, 2, 3, 6})
	if r.Chance(3) {
		// a long line: around and beyond the buffer sizes of line readers (4096 for bufio.Reader; the 64 KiB token limit of
		// bufio.Scanner is the recorded bound of the readers and is not crossed)
		n = Pick(r, []int{440, 453, 454, 455, 470, 700, 2000})
	}
	for i := 0; i < n; i++ {
		m := strings.ReplaceAll(genPwField(r, false), ",", "_")
		if n > 100 {
			m = fmt.Sprintf("user%04d", i)
		}
		if m == "" {
			m = "m"
		}
		if hostile && r.Chance(15) {
			m = Pick(r, []string{"", "a,b", "x:y", "m\n"})
		}
		if i == n-1 && r.Chance(10) {
			m += Pick(r, fmtSpaces)
		}
		g.Members = append(g.Members, hx(m))
	}
	return g
}

// ---------- texts for the readers (malformed stream, and well-formed files written by hand) ----------

var fmtIdxLines = []string{"P:pkg", "V:1.0-r0", "A:x86_64", "S:10", "I:20", "T:desc", "U:u", "L:MIT", "o:orig", "m:me", "t:1700000000", "c:abc", "D:a b", "D:", "p:x=1", "p:",
	"i:a b", "i:[a b]", "i:[]", "k:5", "C:Q1AAAA", "C:Q1QUJD", "C:Q1QR==", "C:Q1Q!==", "C:abc", "C:Q1", "r:old", "r:", "F:usr", "F:usr/bin", "M:0:0:0700", "M:1:2:755", "R:sh", "a:0:0:0755",
	"a:0:0:4755", "Z:Q1abc=", "F:", "R:../x", "R:a/b", "R:", "M:0:0", "M:x:0:0755", "a:0:0:8", "a:-1:+2:-7", "q:1", "X", "P", ":", "P:", "PP:x", "t:abc", "t:-5", "t:+5", "S:-1", "S:18446744073709551616",
	"S:18446744073709551615", "t:9223372036854775808", "t:-9223372036854775808", "S:007", "k:", "", "", "", "P:a\r", "\r", "V: 1", "  ", "P:q"}

func genDbText(r *Rng) string {
	var b strings.Builder
	n := 1 + r.Intn(14)
	for i := 0; i < n; i++ {
		b.WriteString(Pick(r, fmtIdxLines))
		if i < n-1 || r.Chance(85) {
			b.WriteString("\n")
		}
	}
	if r.Chance(70) {
		b.WriteString("\n")
	}
	s := b.String()
	if r.Chance(10) {
		s = mutateBytes(r, s)
	}
	return s
}

var fmtPwLines = []string{"root:x:0:0:root:/root:/bin/ash", "nobody:x:65534:65534:nobody:/:/sbin/nologin", "a:b:1:2:c:d:e", "a:b:1:2:c:d", "a:b:1:2:c:d:e:f", "a:b:x:2:c:d:e",
	"a:b:-1:4294967296:c:d:e", "a:b:+7:08:c:d:e", " a:b:1:2:c:d:e ", "\ta:b:1:2:c:d:e\r", "::0:0:::", "", " ", "a:b:9223372036854775808:2:c:d:e", "a:b:1:2:c:d:e ", " a:b:1:2:c:d:e",
	"a:b:1_0:2:c:d:e", "a:b:0x10:2:c:d:e"}
var fmtGrLines = []string{"root:x:0:root", "wheel:x:10:root,admin", "nogroup:x:65533:", "a:b:1", "a:b:1:c:d", "a:b:x:c", "a:b:-1:c", " a:b:1:c,d ", "a:b:4294967296:c,,d", ":::", "", "a:b:1:c\r", "a:b:1:c\u0085"}

func genLinesText(r *Rng, pool []string) string {
	var b strings.Builder
	n := r.Intn(6)
	for i := 0; i < n; i++ {
		b.WriteString(Pick(r, pool))
		if i < n-1 || r.Chance(85) {
			b.WriteString("\n")
		}
	}
	s := b.String()
	if r.Chance(10) {
		s = mutateBytes(r, s)
	}
	return s
}

func (formatsSuite) Gen(r *Rng, i int, tier string) any {
	k := r.Intn(100)
	hostile := r.Chance(12)
	if r.Chance(4) {
		c := fCase{Kind: "idxseq"}
		for j := 0; j < r.Range(1, 3); j++ {
			c.Pkgs = append(c.Pkgs, genPkg(r, false))
		}
		for j := 0; j < r.Range(1, 4); j++ {
			c.Pkgs2 = append(c.Pkgs2, genPkg(r, false))
		}
		return c
	}
	if r.Chance(4) {
		// a sequence of adds in which some fail after part of the record was produced (a checksum record that is not hex)
		c := fCase{Kind: "idbseq"}
		n := r.Range(2, 4)
		for j := 0; j < n; j++ {
			ip := genIPkg(r, false)
			if j < n-1 && r.Chance(60) {
				ip.Files = append([]fFile{{Name: hx("usr"), Dir: true, Mode: 0o755}, {Name: hx("usr/lib"), Dir: true, Mode: 0o755}, {Name: hx("usr/lib/a-good"), Mode: 0o644, Csum: hx("da39a3ee5e6b4b0d3255bfef95601890afd80709")}},
					append(ip.Files, fFile{Name: hx("usr/lib/zz-poison"), Mode: 0o644, Csum: hx("zz-not-hex")})...)
			}
			c.IPkgs = append(c.IPkgs, ip)
		}
		return c
	}
	switch {
	case k < 28:
		c := fCase{Kind: "idx"}
		n := Pick(r, []int{1, 1, 2, 3, 0, 5})
		for j := 0; j < n; j++ {
			c.Pkgs = append(c.Pkgs, genPkg(r, hostile))
		}
		if r.Chance(1) && len(c.Pkgs) > 0 {
			c.Pkgs[0].Provides = hxs(longList(r, 70000)) // fine for the index reader (1 MiB limit)
		}
		return c
	case k < 58:
		c := fCase{Kind: "idb"}
		n := Pick(r, []int{1, 1, 1, 2, 3, 0})
		for j := 0; j < n; j++ {
			c.IPkgs = append(c.IPkgs, genIPkg(r, hostile))
		}
		if r.Chance(1) && len(c.IPkgs) > 0 {
			c.IPkgs[0].Pkg.Provides = hxs(longList(r, 65500+r.Intn(80))) // around the 64 KiB token limit
		}
		return c
	case k < 68:
		c := fCase{Kind: "pw"}
		n := Pick(r, []int{1, 1, 2, 4, 0})
		for j := 0; j < n; j++ {
			c.Users = append(c.Users, genUser(r, hostile))
		}
		return c
	case k < 78:
		c := fCase{Kind: "gr"}
		n := Pick(r, []int{1, 1, 2, 4, 0})
		for j := 0; j < n; j++ {
			c.Groups = append(c.Groups, genGroup(r, hostile))
		}
		return c
	case k < 83:
		return fCase{Kind: "idxr", Text: hx(genDbText(r))}
	case k < 90:
		return fCase{Kind: "idbr", Text: hx(genDbText(r))}
	case k < 93:
		// the db of a base image: what AddInstalledPackage writes for generated packages, or a hand-written text
		if r.Chance(30) {
			return fCase{Kind: "base", Text: hx(genDbText(r))}
		}
		return fCase{Kind: "base", IPkgs: []fIPkg{genIPkg(r, false)}}
	case k < 97:
		return fCase{Kind: "pwr", Text: hx(genLinesText(r, fmtPwLines))}
	default:
		return fCase{Kind: "grr", Text: hx(genLinesText(r, fmtGrLines))}
	}
}
