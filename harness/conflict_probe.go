package main

import (
	"encoding/json"
	"fmt"
	"os"
)

func conflictProbe(args []string) {
	d := func(p string) conflictFile { return conflictFile{Path: p, Type: "dir", Mode: 0o755} }
	f := func(p, c string) conflictFile { return conflictFile{Path: p, Type: "file", Mode: 0o644, Content: c} }
	l := func(p, t string) conflictFile { return conflictFile{Path: p, Type: "symlink", Mode: 0o777, Link: t} }
	cases := map[string]conflictCase{
		"identical":   {Pkgs: []conflictPkg{{Name: "a", Version: "1-r0", Origin: "oa", Files: []conflictFile{d("usr"), f("usr/x", "1")}}, {Name: "b", Version: "1-r0", Origin: "ob", Files: []conflictFile{d("usr"), f("usr/x", "1")}}}},
		"sameorigin":  {Pkgs: []conflictPkg{{Name: "a", Version: "1-r0", Origin: "o", Files: []conflictFile{d("usr"), f("usr/x", "1")}}, {Name: "b", Version: "1-r0", Origin: "o", Files: []conflictFile{d("usr"), f("usr/x", "2")}}}},
		"conflict":    {Pkgs: []conflictPkg{{Name: "a", Version: "1-r0", Origin: "oa", Files: []conflictFile{d("usr"), f("usr/x", "1")}}, {Name: "b", Version: "1-r0", Origin: "ob", Files: []conflictFile{d("usr"), f("usr/x", "2")}}}},
		"emptyorigin": {Pkgs: []conflictPkg{{Name: "a", Version: "1-r0", Files: []conflictFile{d("usr"), f("usr/x", "1")}}, {Name: "b", Version: "1-r0", Files: []conflictFile{d("usr"), f("usr/x", "2")}}}},
		"emptyident":  {Pkgs: []conflictPkg{{Name: "a", Version: "1-r0", Files: []conflictFile{d("usr"), f("usr/x", "1")}}, {Name: "b", Version: "1-r0", Files: []conflictFile{d("usr"), f("usr/x", "1")}}}},
		"replaces":    {Pkgs: []conflictPkg{{Name: "a", Version: "1-r0", Origin: "oa", Files: []conflictFile{d("usr"), f("usr/x", "1")}}, {Name: "b", Version: "1-r0", Origin: "ob", Replaces: []string{"a"}, Files: []conflictFile{d("usr"), f("usr/x", "2")}}}},
		"replacesver": {Pkgs: []conflictPkg{{Name: "a", Version: "1-r0", Origin: "oa", Files: []conflictFile{d("usr"), f("usr/x", "1")}}, {Name: "b", Version: "1-r0", Origin: "ob", Replaces: []string{"a<2"}, Files: []conflictFile{d("usr"), f("usr/x", "2")}}}},
		"toplevel":    {Pkgs: []conflictPkg{{Name: "a", Version: "1-r0", Origin: "oa", Files: []conflictFile{f("top", "1"), d("empty"), d("usr"), f("usr/x", "1")}}}},
		"owner":       {Pkgs: []conflictPkg{{Name: "a", Version: "1-r0", Origin: "oa", Files: []conflictFile{{Path: "var", Type: "dir", Mode: 0o750, UID: 100, GID: 101}, {Path: "var/x", Type: "file", Mode: 0o4755, UID: 100, GID: 101, Content: "1"}}}}},
		"dirmode":     {Pkgs: []conflictPkg{{Name: "a", Version: "1-r0", Origin: "oa", Files: []conflictFile{d("var"), f("var/x", "1")}}, {Name: "b", Version: "1-r0", Origin: "ob", Files: []conflictFile{{Path: "var", Type: "dir", Mode: 0o700}, f("var/y", "1")}}}},
		"filethenlink": {Pkgs: []conflictPkg{{Name: "a", Version: "1-r0", Origin: "o", Files: []conflictFile{d("s"), f("s/f", "1")}}, {Name: "b", Version: "1-r0", Origin: "o", Files: []conflictFile{d("s"), l("s/f", "g")}}}},
		"linkthenfile": {Pkgs: []conflictPkg{{Name: "a", Version: "1-r0", Origin: "o", Files: []conflictFile{d("s"), l("s/f", "g")}}, {Name: "b", Version: "1-r0", Origin: "o", Files: []conflictFile{d("s"), f("s/f", "2")}}}},
		"basefile":    {Base: []conflictFile{d("etc"), f("etc/k", "1")}, Pkgs: []conflictPkg{{Name: "a", Version: "1-r0", Origin: "o", Files: []conflictFile{d("etc"), f("etc/k", "1")}}}},
		"basediff":    {Base: []conflictFile{d("etc"), f("etc/k", "1")}, Pkgs: []conflictPkg{{Name: "a", Version: "1-r0", Origin: "o", Files: []conflictFile{d("etc"), f("etc/k", "2")}}}},
		"dirlink":     {Pkgs: []conflictPkg{{Name: "a", Version: "1-r0", Origin: "o", Files: []conflictFile{d("usr"), d("usr/lib"), l("lib", "usr/lib"), f("usr/lib/x", "1")}}, {Name: "b", Version: "1-r0", Origin: "o", Files: []conflictFile{d("lib"), f("lib/x", "2")}}}},
		"samename":    {Pkgs: []conflictPkg{{Name: "a", Version: "1-r0", Origin: "o", Files: []conflictFile{d("usr"), f("usr/x", "1")}}, {Name: "a", Version: "2-r0", Origin: "o", Files: []conflictFile{d("usr"), f("usr/x", "2")}}}},
		"fileoverdir": {Pkgs: []conflictPkg{{Name: "a", Version: "1-r0", Origin: "o", Files: []conflictFile{d("usr"), d("usr/x")}}, {Name: "b", Version: "1-r0", Origin: "o", Files: []conflictFile{d("usr"), f("usr/x", "2")}}}},
		"diroverfile": {Pkgs: []conflictPkg{{Name: "a", Version: "1-r0", Origin: "o", Files: []conflictFile{d("usr"), f("usr/x", "2")}}, {Name: "b", Version: "1-r0", Origin: "o", Files: []conflictFile{d("usr"), d("usr/x")}}}},
		"noparent":    {Pkgs: []conflictPkg{{Name: "a", Version: "1-r0", Origin: "o", Files: []conflictFile{f("usr/x", "2")}}}},
		"dupinpkg":    {Pkgs: []conflictPkg{{Name: "a", Version: "1-r0", Origin: "o", Files: []conflictFile{d("usr"), f("usr/x", "1"), f("usr/x", "2")}}}},
		"linklink":    {Pkgs: []conflictPkg{{Name: "a", Version: "1-r0", Origin: "oa", Files: []conflictFile{d("s"), l("s/f", "g")}}, {Name: "b", Version: "1-r0", Origin: "ob", Files: []conflictFile{d("s"), l("s/f", "h")}}}},
		"linksame":    {Pkgs: []conflictPkg{{Name: "a", Version: "1-r0", Origin: "oa", Files: []conflictFile{d("s"), l("s/f", "g")}}, {Name: "b", Version: "1-r0", Origin: "ob", Files: []conflictFile{d("s"), l("s/f", "g")}}}},
	}
	if len(args) > 1 && args[0] == "-case" {
		b, err := os.ReadFile(args[1])
		if err != nil {
			panic(err)
		}
		var wrap struct {
			Case json.RawMessage `json:"case"`
		}
		if json.Unmarshal(b, &wrap) == nil && wrap.Case != nil {
			b = wrap.Case
		}
		var c conflictCase
		if err := json.Unmarshal(b, &c); err != nil {
			panic(err)
		}
		for _, be := range conflictBackends {
			o := conflictInstall(c, be)
			fmt.Printf("=== %s: %s %s\n%s--- db\n%s\n", be, o.Outcome, o.ErrText, o.treeText(), conflictDBProj(o.DBText))
		}
		return
	}
	if len(args) > 0 && args[0] == "-json" {
		b, _ := json.MarshalIndent(cases, "", " ")
		os.Stdout.Write(b)
		return
	}
	for name, c := range cases {
		if len(args) > 0 && args[0] != name {
			continue
		}
		for _, be := range []string{"tarfs", "memfs", "dirfs"} {
			o := conflictInstall(c, be)
			fmt.Printf("=== %s / %s: %s %s\n%s--- db\n%s\n", name, be, o.Outcome, o.ErrText, o.treeText(), conflictDBProj(o.DBText))
		}
	}
}
