package main

// corr:conflict — C07: ordered lists of 2–4 generated packages with overlapping regular files,
// symlinks and directories, every origin / replaces combination, installed through the REAL
// apk.InstallPackages on tarfs (lazy WriteHeader path), memfs and DirFS (streaming path).
// Observed: error kind (FileConflictError / FileExistsError / other), final tree through the public
// FullFS API, lib/apk/db/installed (as text and through the real ParseInstalled).
// The Lean driver answers with the Impl model's prediction (must equal the observation) and with the
// verdict of the property's oracle (Spec.installAll + idb_truth) evaluated on the observation.

import (
	"archive/tar"
	"encoding/json"
	"fmt"
	"sort"
	"strings"
)

type conflictSuite struct{}

func init() { register(conflictSuite{}) }

func (conflictSuite) Name() string { return "conflict" }

var conflictBackends = []string{"tarfs", "memfs", "dirfs"}

// ---- generator ----

var conflictContents = []string{"1", "2", "3", "", "#!/bin/sh\necho hi\n", "22"}
var conflictOrigins = []string{"o1", "o2", "o1", "o2", "o3", ""}
var conflictVersions = []string{"1.0-r0", "2.0-r1", "1.5-r0", "0.9", "3"}
var conflictLeafDirs = []string{"usr/bin", "usr/lib", "etc", "var/lib", "s"}
var conflictLeafNames = []string{"a", "b", "x", "f", "g"}
var conflictDirModes = []int64{0o755, 0o755, 0o755, 0o755, 0o700, 0o750, 0o1777}
var conflictFileModes = []int64{0o644, 0o644, 0o644, 0o755, 0o600, 0o4755}

// the mode FIELD of a tar header may carry more than permission bits: the S_IF* file-type bits (c_ISREG …
// c_ISSOCK of archive/tar, which tar.Header.FileInfo().Mode() decodes besides the typeflag) and the set-id /
// sticky bits. Such headers are legal tar (GNU tar and libarchive write S_IFREG / S_IFDIR / S_IFLNK into the
// field); what an entry IS is decided by its typeflag alone.
var conflictModeTypeBits = []int64{0o100000, 0o40000, 0o120000, 0o20000, 0o60000, 0o10000, 0o140000, 0o40000, 0o100000, 0o120000}
var conflictModeSetBits = []int64{0o4000, 0o2000, 0o1000, 0o6000}

// modeFields rewrites the mode fields of a finished case: every entry keeps its typeflag, its permission bits
// and its place; some get type bits (matching the typeflag or not) and / or set-id bits in the field.
func (g *conflictGen) modeFields(c *conflictCase) {
	r := g.r
	pct := Pick(r, []int{25, 50, 100})
	for pi := range c.Pkgs {
		fs := c.Pkgs[pi].Files
		for fi := range fs {
			if !r.Chance(pct) {
				continue
			}
			switch r.Intn(10) {
			case 0, 1:
				fs[fi].Mode |= Pick(r, conflictModeSetBits)
			case 2:
				fs[fi].Mode |= Pick(r, conflictModeSetBits) | Pick(r, conflictModeTypeBits)
			default:
				fs[fi].Mode |= Pick(r, conflictModeTypeBits)
			}
		}
	}
}

func conflictAncestors(p string) []string {
	var out []string
	parts := strings.Split(p, "/")
	for i := 1; i < len(parts); i++ {
		if parts[i-1] == "" {
			continue // `usr/lib//x`: the ancestors of an unclean spelling are the clean ones
		}
		out = append(out, strings.Join(parts[:i], "/"))
	}
	return out
}

type conflictGen struct {
	r     *Rng
	focus []string // leaf paths most packages draw from
	names []string
}

func (g *conflictGen) owner() (int, int) {
	if g.r.Chance(88) {
		return 0, 0
	}
	return Pick(g.r, []int{100, 0, 65534}), Pick(g.r, []int{101, 0, 5})
}

func (g *conflictGen) dirEntry(p string) conflictFile {
	u, gid := g.owner()
	return conflictFile{Path: p, Type: "dir", Mode: Pick(g.r, conflictDirModes), UID: u, GID: gid}
}

func (g *conflictGen) leaf(p string, linkPct, dirPct int) conflictFile {
	r := g.r
	u, gid := g.owner()
	k := r.Intn(100)
	switch {
	case k < linkPct:
		dir := p[:strings.LastIndex(p, "/")+1]
		_ = dir
		t := Pick(r, []string{"g", "a", "missing", "x", "../lib/a", "b", "../../etc/a"})
		return conflictFile{Path: p, Type: "symlink", Mode: Pick(r, []int64{0o777, 0o777, 0o755}), Link: t, UID: u, GID: gid}
	case k < linkPct+dirPct:
		return g.dirEntry(p)
	default:
		return conflictFile{Path: p, Type: "file", Mode: Pick(r, conflictFileModes), Content: Pick(r, conflictContents), UID: u, GID: gid}
	}
}

// add the ancestors of every entry (unless dropped on purpose) in tar order: parents first
func (g *conflictGen) withParents(leaves []conflictFile, dropPct int) []conflictFile {
	var out []conflictFile
	seen := map[string]bool{}
	for _, l := range leaves {
		for _, a := range conflictAncestors(l.Path) {
			if seen[a] {
				continue
			}
			seen[a] = true
			if g.r.Chance(dropPct) {
				continue
			}
			out = append(out, g.dirEntry(a))
		}
		if l.Type == "dir" {
			if seen[l.Path] {
				continue
			}
			seen[l.Path] = true
		}
		out = append(out, l)
	}
	return out
}

func (g *conflictGen) replaces(self int, pkgs int) []string {
	r := g.r
	if r.Chance(50) {
		return nil
	}
	var out []string
	n := 1
	if r.Chance(20) {
		n = 2
	}
	for k := 0; k < n; k++ {
		o := r.Intn(pkgs)
		if o == self && r.Chance(80) {
			o = (o + 1) % pkgs
		}
		name := g.names[o]
		switch r.Intn(10) {
		case 0, 1:
			out = append(out, name+Pick(r, []string{"<", "<=", ">", ">=", "=", "~"})+Pick(r, conflictVersions))
		case 2:
			out = append(out, Pick(r, []string{"zzz", name + "x", "so:" + name, name + "@edge"}))
		default:
			out = append(out, name)
		}
	}
	return out
}

func (g *conflictGen) pkg(i, n int, linkPct, dirPct, dropPct, topPct int) conflictPkg {
	r := g.r
	p := conflictPkg{Name: g.names[i], Version: Pick(r, conflictVersions), Origin: Pick(r, conflictOrigins)}
	p.Replaces = g.replaces(i, n)
	var leaves []conflictFile
	used := map[string]bool{}
	k := r.Range(1, 4)
	for len(leaves) < k {
		var path string
		if r.Chance(70) {
			path = Pick(r, g.focus)
		} else {
			path = Pick(r, conflictLeafDirs) + "/" + Pick(r, conflictLeafNames)
		}
		if used[path] {
			// one package never ships a path twice (a malformed archive: on tarfs the body of the
			// first header would be read from the last entry of that name)
			k--
			continue
		}
		used[path] = true
		leaves = append(leaves, g.leaf(path, linkPct, dirPct))
	}
	sort.SliceStable(leaves, func(a, b int) bool { return leaves[a].Path < leaves[b].Path })
	if r.Chance(topPct) {
		switch r.Intn(3) {
		case 0:
			leaves = append(leaves, g.leaf("top", 10, 0))
		case 1:
			leaves = append(leaves, g.dirEntry("opt"))
		default:
			leaves = append(leaves, g.dirEntry("srv"), g.leaf("top", 0, 0))
		}
	}
	p.Files = g.withParents(leaves, dropPct)
	return p
}

func (conflictSuite) Gen(r *Rng, i int, tier string) any {
	g := &conflictGen{r: r}
	n := r.Range(2, 4)
	g.names = []string{"a", "b", "c", "d"}[:n]
	if r.Chance(4) {
		g.names[n-1] = g.names[0] // two packages of one name
	}
	for len(g.focus) < r.Range(1, 3) {
		g.focus = append(g.focus, Pick(r, conflictLeafDirs)+"/"+Pick(r, conflictLeafNames))
	}
	c := conflictCase{}
	kind := r.Intn(100)
	switch {
	case kind < 34:
		// the rule table: regular files only, complete parents, no top-level entries
		c.Kind = "table"
		for k := 0; k < n; k++ {
			c.Pkgs = append(c.Pkgs, g.pkg(k, n, 0, 0, 0, 0))
		}
	case kind < 44:
		// three (or four) packages that all ship ONE path: chains of replaces in both directions, one
		// origin with differing content, differing origins with identical content, one of them possibly a
		// symlink — the territory of impl_refines_spec / owner_invariant_flags / recorded_file_truth
		n = r.Range(3, 4)
		g.names = []string{"a", "b", "c", "d"}[:n]
		path := Pick(r, g.focus)
		mode := Pick(r, []string{"fwd", "rev", "origin", "ident", "mixed"})
		c.Kind = "chain-" + mode
		for k := 0; k < n; k++ {
			p := conflictPkg{Name: g.names[k], Version: Pick(r, conflictVersions), Origin: fmt.Sprintf("o%d", k+1)}
			content := fmt.Sprintf("%d", k+1)
			switch mode {
			case "fwd": // every package replaces its predecessor: the last one wins
				if k > 0 {
					p.Replaces = []string{g.names[k-1]}
					if r.Chance(15) {
						p.Replaces = []string{g.names[k-1] + Pick(r, []string{"<", ">=", "="}) + Pick(r, conflictVersions)}
					}
				}
			case "rev": // every package replaces its successor: the first one stays
				if k+1 < n {
					p.Replaces = []string{g.names[k+1]}
				}
			case "origin": // one origin (sometimes the empty one), differing content: the last one wins
				p.Origin = "o1"
				if r.Chance(6) {
					p.Origin = ""
				}
			case "ident": // differing origins, identical content: the first one keeps it
				content = "same"
			default:
				p.Origin = Pick(r, conflictOrigins)
				p.Replaces = g.replaces(k, n)
				content = Pick(r, conflictContents)
			}
			leaf := conflictFile{Path: path, Type: "file", Mode: Pick(r, conflictFileModes), Content: content}
			if r.Chance(10) {
				leaf = conflictFile{Path: path, Type: "symlink", Mode: 0o777, Link: Pick(r, []string{"g", "missing", "b"})}
			}
			if r.Chance(12) {
				leaf.UID, leaf.GID = 100, 101
			}
			leaves := []conflictFile{leaf}
			if r.Chance(40) {
				other := Pick(r, conflictLeafDirs) + "/" + Pick(r, conflictLeafNames)
				if other != path {
					leaves = append(leaves, g.leaf(other, 5, 0))
				}
			}
			sort.SliceStable(leaves, func(a, b int) bool { return leaves[a].Path < leaves[b].Path })
			p.Files = g.withParents(leaves, 0)
			c.Pkgs = append(c.Pkgs, p)
		}
	case kind < 60:
		c.Kind = "mixed"
		for k := 0; k < n; k++ {
			c.Pkgs = append(c.Pkgs, g.pkg(k, n, 18, 8, 4, 12))
		}
	case kind < 72:
		c.Kind = "links"
		for k := 0; k < n; k++ {
			c.Pkgs = append(c.Pkgs, g.pkg(k, n, 45, 0, 0, 0))
		}
	case kind < 82:
		c.Kind = "toplevel"
		for k := 0; k < n; k++ {
			c.Pkgs = append(c.Pkgs, g.pkg(k, n, 5, 5, 0, 60))
		}
	case kind < 92:
		// files that no package installed (InitDB writes such files through the FS API)
		c.Kind = "base"
		for k := 0; k < n; k++ {
			c.Pkgs = append(c.Pkgs, g.pkg(k, n, 8, 0, 0, 0))
		}
		seenBase := map[string]bool{}
		for _, f := range g.focus {
			if seenBase[f] {
				continue
			}
			seenBase[f] = true
			if r.Chance(70) {
				for _, a := range conflictAncestors(f) {
					if !seenBase[a] {
						seenBase[a] = true
						c.Base = append(c.Base, conflictFile{Path: a, Type: "dir", Mode: Pick(r, []int64{0o755, 0o755, 0o700})})
					}
				}
				switch r.Intn(6) {
				case 0:
					c.Base = append(c.Base, conflictFile{Path: f, Type: "symlink", Link: Pick(r, []string{"g", "missing"})})
				default:
					c.Base = append(c.Base, conflictFile{Path: f, Type: "file", Mode: 0o644, Content: Pick(r, conflictContents)})
				}
			}
		}
	default:
		// a directory symlink (usr-merge style) through which other packages reach the same files
		c.Kind = "alias"
		dir := Pick(r, []string{"usr/lib", "usr/bin", "etc"})
		linkName := Pick(r, []string{"l64", "usr/l", "m"})
		target := dir
		if strings.Contains(linkName, "/") {
			target = strings.TrimPrefix(dir, "usr/")
			if !strings.HasPrefix(dir, "usr/") {
				target = "../" + dir
			}
		}
		g.focus = []string{dir + "/" + Pick(r, conflictLeafNames), dir + "/" + Pick(r, conflictLeafNames)}
		first := g.pkg(0, n, 0, 0, 0, 0)
		first.Files = append(first.Files, g.withParents([]conflictFile{{Path: linkName, Type: "symlink", Mode: 0o777, Link: target}}, 0)...)
		if r.Chance(50) {
			first.Files = append(g.withParents([]conflictFile{g.dirEntry(dir)}, 0), first.Files...)
		}
		c.Pkgs = append(c.Pkgs, first)
		unclean := r.Chance(30)
		if unclean {
			c.Kind = "alias-unclean"
		}
		for k := 1; k < n; k++ {
			p := g.pkg(k, n, 5, 0, 0, 0)
			if unclean {
				// the same node under another spelling of its path (`usr/lib//x`): installedFiles is keyed by
				// the raw header name
				f := Pick(r, g.focus)
				i := strings.LastIndex(f, "/")
				p.Files = append(p.Files, g.withParents([]conflictFile{{Path: f[:i] + "/" + f[i:], Type: "file", Mode: 0o644, Content: Pick(r, conflictContents)}}, 0)...)
				c.Pkgs = append(c.Pkgs, p)
				continue
			}
			if r.Chance(75) {
				var leaves []conflictFile
				if r.Chance(50) {
					leaves = append(leaves, g.dirEntry(linkName))
				}
				leaves = append(leaves, g.leaf(linkName+"/"+strings.TrimPrefix(Pick(r, g.focus), dir+"/"), 5, 0))
				p.Files = append(p.Files, g.withParents(leaves, 0)...)
			}
			c.Pkgs = append(c.Pkgs, p)
		}
	}
	if tier == "thorough" || r.Chance(100) {
		c.Backends = nil
	}
	// the mode-field dimension (drawn last: the shape of a case does not depend on it)
	if r.Chance(30) {
		g.modeFields(&c)
	}
	return c
}

// ---- wire format (see lean/Apko/Driver/Conflict.lean) ----

func conflictKind(t string) string {
	switch t {
	case "dir":
		return "d"
	case "symlink":
		return "l"
	}
	return "f"
}

func conflictWEntry(f conflictFile, slash bool) string {
	name := f.Path
	if slash && f.Type == "dir" && !strings.HasSuffix(name, "/") {
		name += "/" // buildApk appends the slash to directory headers
	}
	sum := ""
	switch f.Type {
	case "symlink":
		sum = conflictSha1Hex(f.Link)
	case "dir":
	default:
		sum = conflictSha1Hex(f.Content)
	}
	return fmt.Sprintf("%s:%s:%d:%d:%d:%s:%s:%d", hx(name), conflictKind(f.Type), f.Mode, f.UID, f.GID, sum, hx(f.Link), len(f.Content))
}

// base entries are written through the FS API (names as given), package entries through tar headers
func conflictWEntries(fs []conflictFile, base bool) string {
	out := make([]string, len(fs))
	for i, f := range fs {
		out[i] = conflictWEntry(f, !base)
	}
	return strings.Join(out, ";")
}

func conflictWList(l []string) string {
	var b strings.Builder
	for _, s := range l {
		b.WriteString("." + hx(s))
	}
	return b.String()
}

func conflictWPkgs(ps []conflictPkg) string {
	out := make([]string, len(ps))
	for i, p := range ps {
		out[i] = strings.Join([]string{hx(p.Name), hx(p.Version), hx(p.Origin), conflictWList(p.Replaces), conflictWEntries(p.Files, false)}, ",")
	}
	return strings.Join(out, "|")
}

func (o conflictObs) treeWire() string {
	out := make([]string, len(o.Tree))
	for i, n := range o.Tree {
		out[i] = fmt.Sprintf("%s:%s:%d:%d:%d:%s", hx(n.Path), n.Kind, n.Perm, n.UID, n.GID, n.Sum)
	}
	return strings.Join(out, ";")
}

func (o conflictObs) dbWire() string {
	if !o.ParseOK {
		return "parse-error"
	}
	out := make([]string, len(o.Parsed))
	for i, p := range o.Parsed {
		recs := make([]string, len(p.Files))
		for j, f := range p.Files {
			d := "0"
			if f.Typeflag == tar.TypeDir {
				d = "1"
			}
			recs[j] = fmt.Sprintf("%s:%s:%d:%d:%d", hx(f.Name), d, f.Mode, f.Uid, f.Gid)
		}
		out[i] = "p" + strings.Join(recs, ";")
	}
	return strings.Join(out, "|")
}

func (o conflictObs) canon() string {
	if o.Outcome != "ok" {
		return o.Outcome + "||"
	}
	return "ok|" + o.treeWire() + "|" + hx(conflictDBProj(o.DBText))
}

func conflictDesc(c conflictCase, backend string) string {
	var b strings.Builder
	fmt.Fprintf(&b, "%s[%s]", backend, c.Kind)
	fe := func(f conflictFile) string {
		switch f.Type {
		case "dir":
			return fmt.Sprintf("%s/ %o %d:%d", f.Path, f.Mode, f.UID, f.GID)
		case "symlink":
			if f.Mode&^0o777 != 0 {
				return fmt.Sprintf("%s->%s %o", f.Path, f.Link, f.Mode)
			}
			return fmt.Sprintf("%s->%s", f.Path, f.Link)
		}
		return fmt.Sprintf("%s=%q %o %d:%d", f.Path, f.Content, f.Mode, f.UID, f.GID)
	}
	if len(c.Base) > 0 {
		b.WriteString(" base{")
		for _, f := range c.Base {
			b.WriteString(fe(f) + "; ")
		}
		b.WriteString("}")
	}
	for _, p := range c.Pkgs {
		fmt.Fprintf(&b, " %s-%s(o=%q r=%v){", p.Name, p.Version, p.Origin, p.Replaces)
		for _, f := range p.Files {
			b.WriteString(fe(f) + "; ")
		}
		b.WriteString("}")
	}
	return b.String()
}

func conflictTags(c conflictCase, backend string, o conflictObs) (tags []string) {
	out := o.Outcome
	if strings.HasPrefix(out, "conflict:") {
		out = "conflict"
	}
	tags = []string{"be:" + backend, "out:" + out, "kind:" + c.Kind, backend + ":" + out, fmt.Sprintf("pkgs:%d", len(c.Pkgs))}
	// shapes of overlap present in the input
	type seen struct{ file, link, dir int }
	m := map[string]*seen{}
	for _, p := range c.Pkgs {
		for _, f := range p.Files {
			s := m[f.Path]
			if s == nil {
				s = &seen{}
				m[f.Path] = s
			}
			switch f.Type {
			case "dir":
				s.dir++
			case "symlink":
				s.link++
			default:
				s.file++
			}
		}
	}
	shape := map[string]bool{}
	for _, s := range m {
		if s.file > 1 {
			shape["overlap:file-file"] = true
		}
		if s.file > 0 && s.link > 0 {
			shape["overlap:file-link"] = true
		}
		if s.link > 1 {
			shape["overlap:link-link"] = true
		}
		if s.file+s.link > 2 {
			shape["overlap:three+"] = true
		}
		if s.dir > 0 && (s.file > 0 || s.link > 0) {
			shape["overlap:dir-nondir"] = true
		}
	}
	for k := range shape {
		tags = append(tags, k)
	}
	for _, p := range c.Pkgs {
		if p.Origin == "" {
			tags = append(tags, "origin:empty")
			break
		}
	}
unclean:
	for _, p := range c.Pkgs {
		for _, f := range p.Files {
			if strings.Contains(f.Path, "//") {
				tags = append(tags, "name:unclean")
				break unclean
			}
		}
	}
	// mode fields: type bits that agree / disagree with the typeflag, set-id bits; on an overlapping path?
	mf := map[string]bool{}
	defer func() {
		for k := range mf {
			tags = append(tags, k)
		}
	}()
	for _, p := range c.Pkgs {
		for _, f := range p.Files {
			tb := f.Mode &^ 0o7777
			if tb == 0 {
				if f.Mode&0o7000 != 0 && f.Type != "dir" {
					mf["modefield:setid"] = true
				}
				continue
			}
			agree := (f.Type == "file" && tb == 0o100000) || (f.Type == "dir" && tb == 0o40000) || (f.Type == "symlink" && tb == 0o120000)
			t := "modefield:typebits-" + f.Type
			if agree {
				t += "-agree"
			}
			mf[t] = true
			if s := m[f.Path]; s != nil && s.file+s.link > 1 && f.Type != "dir" && !agree {
				mf["modefield:typebits-on-overlap"] = true
			}
		}
	}
	for _, p := range c.Pkgs {
		for _, r := range p.Replaces {
			if strings.ContainsAny(r, "<>=~") {
				tags = append(tags, "replaces:versioned")
			} else {
				tags = append(tags, "replaces:plain")
			}
		}
	}
	return tags
}

func (conflictSuite) Run(raw json.RawMessage) []Step {
	var c conflictCase
	if err := json.Unmarshal(raw, &c); err != nil {
		return []Step{{Line: "c.bad", Go: "bad-case", Desc: err.Error()}}
	}
	backends := c.Backends
	if len(backends) == 0 {
		backends = conflictBackends
	}
	var steps []Step
	for _, be := range backends {
		o := conflictInstall(c, be)
		line := strings.Join([]string{"c.inst", be, conflictWEntries(c.Base, true), conflictWPkgs(c.Pkgs), o.Outcome, o.treeWire(), o.dbWire()}, "\t")
		steps = append(steps, Step{
			Line:    line,
			Go:      o.canon(),
			Desc:    conflictDesc(c, be),
			Tags:    conflictTags(c, be, o),
			Mode:    "verdict",
			Trivial: o.Outcome == "error",
		})
	}
	return steps
}
