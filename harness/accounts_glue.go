package main

// End-to-end additions to corr:accounts (C13) for the ways a configuration reaches the build:
//   * through an `include:`d file that declares the accounts (ImageConfiguration.MergeInto, which is also the
//     per-architecture copy build.LockImageConfiguration makes on every `apko build`);
//   * /etc/apko.json (the configuration as the build resolved it) is observed next to the image config.

import (
	"encoding/json"
	"os"
	"path/filepath"

	"chainguard.dev/apko/pkg/build"
	"chainguard.dev/apko/pkg/build/types"
)

// accountsGlueBuildIncluded builds from configuration FILES: main.yaml (contents, paths, include:) and accounts.yaml
// (users, groups, run-as, the first path mutations).  The files are JSON, which is YAML; the keys are those of the configuration schema.
func accountsGlueBuildIncluded(ic types.ImageConfiguration, repo *SRepo, incPaths int) E2EOut {
	dir, err := os.MkdirTemp("", "accounts-glue-")
	if err != nil {
		return E2EOut{Err: err}
	}
	defer os.RemoveAll(dir)
	repoDir := filepath.Join(dir, "repo")
	kp := repo.WriteTo(repoDir)
	if incPaths > len(ic.Paths) {
		incPaths = len(ic.Paths)
	}
	// the first incPaths path mutations are declared by the included file, the rest by the including one
	inc := types.ImageConfiguration{Accounts: ic.Accounts, Paths: ic.Paths[:incPaths]}
	incPath := filepath.Join(dir, "accounts.yaml")
	main := ic
	main.Accounts = types.ImageAccounts{}
	main.Paths = ic.Paths[incPaths:]
	main.Include = incPath
	main.Contents.RuntimeRepositories = []string{repoDir}
	main.Contents.Keyring = []string{kp}
	mainPath := filepath.Join(dir, "main.yaml")
	for p, v := range map[string]types.ImageConfiguration{incPath: inc, mainPath: main} {
		b, err := json.Marshal(v)
		if err != nil {
			return E2EOut{Err: err}
		}
		if err := os.WriteFile(p, b, 0o644); err != nil {
			return E2EOut{Err: err}
		}
	}
	return e2eBuildAt(ic, repo, repoDir, E2EOpts{Archs: []string{"x86_64"}, ExtraOpts: []build.Option{build.WithConfig(mainPath, []string{dir})}})
}

// accountsGlueApkoJSONRunAs: accounts.run-as of the layer's /etc/apko.json.
func accountsGlueApkoJSONRunAs(body []byte) (string, bool) {
	var v struct {
		Accounts struct {
			RunAs string `json:"run-as"`
		} `json:"accounts"`
	}
	if err := json.Unmarshal(body, &v); err != nil {
		return "", false
	}
	return v.Accounts.RunAs, true
}
