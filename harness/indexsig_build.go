package main

// Helpers of corr:indexsig (C04): deterministic RSA keys, signed index archives built from a structural
// description, the abstract description of an archive that the Lean model is parametric in (first gzip
// member's tar entries, how reading them ended, the unread remainder, which signatures verify over the
// remainder — computed with crypto/rsa directly), and an independent APKINDEX reader (no apko code).

import (
	"archive/tar"
	"bufio"
	"bytes"
	stdgzip "compress/gzip"
	"crypto"
	"crypto/rsa"
	"crypto/sha1"
	"crypto/sha256"
	"crypto/x509"
	"encoding/base64"
	"encoding/hex"
	"encoding/pem"
	"errors"
	"fmt"
	"io"
	"math/big"
	"sort"
	"strconv"
	"strings"
	"sync"
	"time"

	kgzip "github.com/klauspost/compress/gzip"
)

// ---- keys: generated once per process, deterministically (so that a replay sees the same bytes) ----

type isKey struct {
	priv *rsa.PrivateKey
	pem  []byte
}

var (
	isKeysOnce sync.Once
	isKeys     []isKey
)

var isKeyNames = []string{"verif-a.rsa.pub", "verif-b.rsa.pub", "verif-c.rsa.pub"}

func isDetPrime(r *Rng, bits int) *big.Int {
	for {
		b := make([]byte, bits/8)
		for i := range b {
			b[i] = byte(r.Next())
		}
		b[0] |= 0xc0
		b[len(b)-1] |= 1
		p := new(big.Int).SetBytes(b)
		if !p.ProbablyPrime(20) {
			continue
		}
		pm1 := new(big.Int).Sub(p, big.NewInt(1))
		if new(big.Int).GCD(nil, nil, pm1, big.NewInt(65537)).Cmp(big.NewInt(1)) != 0 {
			continue
		}
		return p
	}
}

func isGetKeys() []isKey {
	isKeysOnce.Do(func() {
		for i := 0; i < 3; i++ {
			r := NewRng(0xC04, "indexsig-key", uint64(i))
			p, q := isDetPrime(r, 512), isDetPrime(r, 512)
			for p.Cmp(q) == 0 {
				q = isDetPrime(r, 512)
			}
			n := new(big.Int).Mul(p, q)
			phi := new(big.Int).Mul(new(big.Int).Sub(p, big.NewInt(1)), new(big.Int).Sub(q, big.NewInt(1)))
			d := new(big.Int).ModInverse(big.NewInt(65537), phi)
			k := &rsa.PrivateKey{PublicKey: rsa.PublicKey{N: n, E: 65537}, D: d, Primes: []*big.Int{p, q}}
			k.Precompute()
			if err := k.Validate(); err != nil {
				panic(err)
			}
			isKeys = append(isKeys, isKey{k, pubKeyPEM(k)})
		}
	})
	return isKeys
}

func isSign(k *rsa.PrivateKey, alg string, data []byte) []byte {
	var sig []byte
	var err error
	if alg == "1" {
		d := sha1.Sum(data)
		sig, err = rsa.SignPKCS1v15(nil, k, crypto.SHA1, d[:])
	} else {
		d := sha256.Sum256(data)
		sig, err = rsa.SignPKCS1v15(nil, k, crypto.SHA256, d[:])
	}
	if err != nil {
		panic(err)
	}
	return sig
}

// isVerify: crypto/rsa directly (not apko's wrapper)
func isVerify(pemBytes []byte, alg string, data, sig []byte) bool {
	blk, _ := pem.Decode(pemBytes)
	if blk == nil {
		return false
	}
	pk, err := x509.ParsePKIXPublicKey(blk.Bytes)
	if err != nil {
		return false
	}
	pub, ok := pk.(*rsa.PublicKey)
	if !ok {
		return false
	}
	if alg == "1" {
		d := sha1.Sum(data)
		return rsa.VerifyPKCS1v15(pub, crypto.SHA1, d[:], sig) == nil
	}
	d := sha256.Sum256(data)
	return rsa.VerifyPKCS1v15(pub, crypto.SHA256, d[:], sig) == nil
}

// ---- structural description of an archive ----

type isPkg struct {
	Name     string   `json:"n"`
	Version  string   `json:"v"`
	Deps     []string `json:"d,omitempty"`
	Provides []string `json:"p,omitempty"`
}

type isSig struct {
	// entry name = ".SIGN." + Type + "." + KeyName   (or Raw when set)
	Type    string `json:"type"`              // RSA | RSA256 | DSA | RSA512 | anything
	KeyName string `json:"key_name"`          // key file name used in the entry name
	Raw     string `json:"raw,omitempty"`     // whole entry name, overrides Type/KeyName
	SignKey int    `json:"sign_key"`          // which private key signs (0..2), -1 = random bytes
	SignAlg string `json:"sign_alg"`          // "1" | "256": digest actually used for signing
	Over    string `json:"over"`              // which bytes are signed: rest | plain | second | tail1 | other | whole
	Corrupt bool   `json:"corrupt,omitempty"` // flip one bit of the signature
}

type isMut struct {
	Op  string `json:"op"` // flip | set | trunc | append | insert
	Off int    `json:"off"`
	Val int    `json:"val,omitempty"`
}

type isArchive struct {
	Sigs        []isSig           `json:"sigs"`
	NoSigMember bool              `json:"no_sig_member,omitempty"`
	Terminate   bool              `json:"terminate,omitempty"`  // signature tar ends with the end-of-archive marker
	PaxEnd      map[string]string `json:"pax_end,omitempty"`    // PAX extended header (type x) at the end of the signature member
	PaxGlobal   map[string]string `json:"pax_global,omitempty"` // PAX global header (type g) at the end of the signature member
	ExtraEntry  string            `json:"extra_entry,omitempty"`
	ExtraAt     int               `json:"extra_at,omitempty"` // position among the signature entries
	Level       int               `json:"level"`              // gzip level of both members (0 = stored)
	Pkgs        []isPkg           `json:"pkgs"`
	RawIndex    string            `json:"raw_index,omitempty"` // APKINDEX text override
	Desc        string            `json:"desc"`
	InnerExtra  string            `json:"inner_extra,omitempty"` // extra tar entry inside the signed member
	Third       []isPkg           `json:"third,omitempty"`       // a third gzip member (another APKINDEX)
	ThirdSigned bool              `json:"third_signed,omitempty"`
	SpliceOther []isPkg           `json:"splice_other,omitempty"` // signatures are made over an archive with this content instead
	Muts        []isMut           `json:"muts,omitempty"`
}

func isIndexText(pkgs []isPkg) string {
	var b strings.Builder
	for i, p := range pkgs {
		fmt.Fprintf(&b, "C:Q1%s\nP:%s\nV:%s\nA:x86_64\nS:%d\nI:4096\nT:pkg\n", base64.StdEncoding.EncodeToString(bytes.Repeat([]byte{byte(i + 1)}, 20)), p.Name, p.Version, 1000+i)
		if len(p.Deps) > 0 {
			fmt.Fprintf(&b, "D:%s\n", strings.Join(p.Deps, " "))
		}
		if len(p.Provides) > 0 {
			fmt.Fprintf(&b, "p:%s\n", strings.Join(p.Provides, " "))
		}
		b.WriteString("\n")
	}
	return b.String()
}

func isGz(level int, b []byte) []byte {
	var o bytes.Buffer
	w, err := stdgzip.NewWriterLevel(&o, level)
	if err != nil {
		panic(err)
	}
	w.Write(b)
	w.Close()
	return o.Bytes()
}

func isRegHeader(name string, size int) *tar.Header {
	return &tar.Header{Name: name, Mode: 0o644, Size: int64(size), Typeflag: tar.TypeReg, ModTime: time.Unix(0, 0)}
}

func isIndexMember(level int, text, desc, innerExtra string) (gzBytes, plain []byte) {
	plain = tarBytes(true, func(tw *tar.Writer) {
		tw.WriteHeader(isRegHeader("APKINDEX", len(text)))
		tw.Write([]byte(text))
		tw.WriteHeader(isRegHeader("DESCRIPTION", len(desc)))
		tw.Write([]byte(desc))
		if innerExtra != "" {
			tw.WriteHeader(isRegHeader(innerExtra, 3))
			tw.Write([]byte("xyz"))
		}
	})
	return isGz(level, plain), plain
}

func isPaxBlock(typeflag byte, recs map[string]string) []byte {
	// hand-written PAX header entry (archive/tar's writer refuses to emit a free-standing one)
	keys := make([]string, 0, len(recs))
	for k := range recs {
		keys = append(keys, k)
	}
	sort.Strings(keys)
	var body bytes.Buffer
	for _, k := range keys {
		rec := fmt.Sprintf(" %s=%s\n", k, recs[k])
		n := len(rec) + 1
		for len(strconv.Itoa(n))+len(rec) != n {
			n = len(strconv.Itoa(n)) + len(rec)
		}
		body.WriteString(strconv.Itoa(n) + rec)
	}
	h := make([]byte, 512)
	copy(h[0:], "PaxHeaders.0/x")
	copy(h[100:], "0000644\x00")
	copy(h[108:], "0000000\x00")
	copy(h[116:], "0000000\x00")
	copy(h[124:], fmt.Sprintf("%011o\x00", body.Len()))
	copy(h[136:], "00000000000\x00")
	copy(h[148:], "        ")
	h[156] = typeflag
	copy(h[257:], "ustar\x0000")
	sum := 0
	for _, c := range h {
		sum += int(c)
	}
	copy(h[148:], fmt.Sprintf("%06o\x00 ", sum))
	out := append(h, body.Bytes()...)
	if pad := (512 - body.Len()%512) % 512; pad > 0 {
		out = append(out, make([]byte, pad)...)
	}
	return out
}

// isBuild builds the archive bytes. Deterministic for a given description.
func isBuild(a isArchive) []byte {
	keys := isGetKeys()
	text := a.RawIndex
	if text == "" {
		text = isIndexText(a.Pkgs)
	}
	second, plain := isIndexMember(a.Level, text, a.Desc, a.InnerExtra)
	rest := append([]byte{}, second...)
	var third []byte
	if a.Third != nil {
		third, _ = isIndexMember(a.Level, isIndexText(a.Third), "third", "")
		if a.ThirdSigned {
			rest = append(rest, third...)
		}
	}
	signedRest := rest
	if a.SpliceOther != nil {
		signedRest, _ = isIndexMember(a.Level, isIndexText(a.SpliceOther), a.Desc, "")
	}
	if a.NoSigMember {
		out := append([]byte{}, rest...)
		if a.Third != nil && !a.ThirdSigned {
			out = append(out, third...)
		}
		return isApplyMuts(out, a.Muts)
	}
	bodyOf := func(s isSig) []byte {
		var data []byte
		switch s.Over {
		case "plain":
			data = plain
		case "second":
			data = second
		case "tail1":
			data = signedRest[1:]
		case "other":
			data = []byte("something else entirely")
		case "whole":
			data = append(append([]byte{}, isGz(a.Level, nil)...), signedRest...)
		default:
			data = signedRest
		}
		var sig []byte
		if s.SignKey < 0 || s.SignKey >= len(keys) {
			sig = bytes.Repeat([]byte{0x5a}, 128)
		} else {
			sig = isSign(keys[s.SignKey].priv, s.SignAlg, data)
		}
		if s.Corrupt {
			sig[len(sig)/2] ^= 0x10
		}
		return sig
	}
	sigTar := tarBytes(a.Terminate && a.PaxEnd == nil && a.PaxGlobal == nil, func(tw *tar.Writer) {
		extra := func() {
			tw.WriteHeader(isRegHeader(a.ExtraEntry, 5))
			tw.Write([]byte("extra"))
		}
		for i, s := range a.Sigs {
			if a.ExtraEntry != "" && a.ExtraAt == i {
				extra()
			}
			name := s.Raw
			if name == "" {
				name = ".SIGN." + s.Type + "." + s.KeyName
			}
			body := bodyOf(s)
			if err := tw.WriteHeader(isRegHeader(name, len(body))); err != nil {
				panic(err)
			}
			tw.Write(body)
		}
		if a.ExtraEntry != "" && a.ExtraAt >= len(a.Sigs) {
			extra()
		}
	})
	if a.PaxGlobal != nil {
		sigTar = append(sigTar, isPaxBlock('g', a.PaxGlobal)...)
	}
	if a.PaxEnd != nil {
		sigTar = append(sigTar, isPaxBlock('x', a.PaxEnd)...)
	}
	if a.Terminate && (a.PaxEnd != nil || a.PaxGlobal != nil) {
		sigTar = append(sigTar, make([]byte, 1024)...)
	}
	out := append(isGz(a.Level, sigTar), rest...)
	if a.Third != nil && !a.ThirdSigned {
		out = append(out, third...)
	}
	return isApplyMuts(out, a.Muts)
}

func isApplyMuts(b []byte, muts []isMut) []byte {
	b = append([]byte{}, b...)
	for _, m := range muts {
		switch m.Op {
		case "flip":
			if m.Off >= 0 && m.Off < len(b) {
				b[m.Off] ^= 1 << uint(m.Val&7)
			}
		case "set":
			if m.Off >= 0 && m.Off < len(b) {
				b[m.Off] = byte(m.Val)
			}
		case "trunc":
			if m.Off >= 0 && m.Off <= len(b) {
				b = b[:m.Off]
			}
		case "append":
			for i := 0; i < m.Off; i++ {
				b = append(b, byte(m.Val+i))
			}
		case "insert":
			if m.Off >= 0 && m.Off <= len(b) {
				b = append(b[:m.Off], append([]byte{byte(m.Val)}, b[m.Off:]...)...)
			}
		}
	}
	return b
}

// ---- abstraction of an archive (what the Lean model is parametric in) ----

type isEntry struct {
	name string
	body []byte
}

type isFirst struct {
	ok      bool // gzip header readable
	entries []isEntry
	ending  string // eof | errnext | errbody:<name>
	rest    []byte
}

func isBodyID(b []byte) string {
	s := sha256.Sum256(b)
	return hex.EncodeToString(s[:6])
}

// isReadFirst: first gzip member alone (Multistream(false)) through archive/tar until Next() stops; rest = unread bytes.
// gzip and tar are the libraries apko itself uses (trusted parameters of the model).
func isReadFirst(b []byte) isFirst {
	buf := bytes.NewReader(b)
	zr, err := kgzip.NewReader(buf)
	if err != nil {
		return isFirst{}
	}
	zr.Multistream(false)
	defer zr.Close()
	tr := tar.NewReader(zr)
	f := isFirst{ok: true}
	for {
		h, err := tr.Next()
		if errors.Is(err, io.EOF) {
			f.ending = "eof"
			break
		}
		if err != nil {
			f.ending = "errnext"
			break
		}
		body, err := io.ReadAll(tr)
		if err != nil {
			f.ending = "errbody:x" + hx(h.Name)
			break
		}
		f.entries = append(f.entries, isEntry{h.Name, body})
	}
	f.rest = b[len(b)-buf.Len():]
	return f
}

func (f isFirst) encode() string {
	if !f.ok {
		return "none"
	}
	es := make([]string, len(f.entries))
	for i, e := range f.entries {
		es[i] = "x" + hx(e.name) + ":" + isBodyID(e.body)
	}
	return f.ending + "|" + strings.Join(es, ",")
}

// ---- independent reader of an index archive (gunzip all members, untar, APKINDEX text) ----

func isPkgRec(name, version string, deps, provides []string) string {
	return hx(name + "|" + version + "|" + strings.Join(deps, " ") + "|" + strings.Join(provides, " "))
}

func isSplitField(v string) []string {
	if v == "" {
		return nil
	}
	return strings.Split(v, " ")
}

func isParseIndexText(r io.Reader) ([]string, error) {
	sc := bufio.NewScanner(r)
	sc.Buffer(make([]byte, 16*1024), 1024*1024)
	var recs []string
	var name, version string
	var deps, provides []string
	reset := func() { name, version, deps, provides = "", "", nil, nil }
	for sc.Scan() {
		line := sc.Text()
		if line == "" {
			if name != "" {
				recs = append(recs, isPkgRec(name, version, deps, provides))
			}
			reset()
			continue
		}
		if len(line) < 2 || line[1] != ':' {
			return nil, errors.New("bad line")
		}
		val := line[2:]
		switch line[0] {
		case 'P':
			name = val
		case 'V':
			version = val
		case 'D':
			deps = isSplitField(val)
		case 'p':
			provides = isSplitField(val)
		case 't':
			if _, err := strconv.ParseInt(val, 10, 64); err != nil {
				return nil, err
			}
		case 'S', 'I', 'k':
			if _, err := strconv.ParseUint(val, 10, 64); err != nil {
				return nil, err
			}
		case 'C':
			if strings.HasPrefix(val, "Q1") {
				if _, err := base64.StdEncoding.DecodeString(val[2:]); err != nil {
					return nil, err
				}
			}
		}
	}
	return recs, sc.Err()
}

// isIndepParse returns the parse-result token `p<recs>;d<hexdesc>;s<bodyid>` or "err".
func isIndepParse(b []byte) string {
	zr, err := stdgzip.NewReader(bytes.NewReader(b))
	if err != nil {
		return "err"
	}
	tr := tar.NewReader(zr)
	var recs []string
	var desc, sig []byte
	for {
		h, err := tr.Next()
		if errors.Is(err, io.EOF) {
			break
		}
		if err != nil {
			return "err"
		}
		switch {
		case h.Name == "APKINDEX":
			recs, err = isParseIndexText(tr)
			if err != nil {
				return "err"
			}
		case h.Name == "DESCRIPTION":
			desc, err = io.ReadAll(tr)
			if err != nil {
				return "err"
			}
		case strings.HasPrefix(h.Name, ".SIGN."):
			sig, err = io.ReadAll(tr)
			if err != nil {
				return "err"
			}
		default:
			return "err"
		}
	}
	return "p" + strings.Join(recs, ",") + ";d" + hx(string(desc)) + ";s" + isBodyID(sig)
}
