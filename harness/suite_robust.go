package main

// corr:robust (C15): every reader of externally supplied data terminates promptly on arbitrary bytes
// with a result or an error — never a panic, never a hang.  Inputs are processed by a CHILD process
// of this binary (`robust-child`): a Go stack overflow or runtime fatal error cannot be recovered
// in-process, and a hang must be killable.  The child announces each input before touching it, so
// the parent attributes a crash / time-out to exactly one input and restarts the child for the rest.
// For the readers that have a Lean model (version, constraint, APKINDEX text, installed db, passwd,
// group) the ok/err outcome and the parsed value are also compared with the model.

import (
	"archive/tar"
	"bufio"
	"bytes"
	"compress/gzip"
	"context"
	"crypto/sha256"
	"encoding/hex"
	"encoding/json"
	"fmt"
	"io"
	"io/fs"
	"os"
	"os/exec"
	"path/filepath"
	"strings"
	"syscall"
	"testing/fstest"
	"time"

	"chainguard.dev/apko/pkg/apk/apk"
	"chainguard.dev/apko/pkg/apk/expandapk"
	"chainguard.dev/apko/pkg/build"
	"chainguard.dev/apko/pkg/build/types"
	"chainguard.dev/apko/pkg/lock"
	"chainguard.dev/apko/pkg/tarfs"
)

type robustInput struct {
	Reader string `json:"reader"`
	Data   string `json:"data"` // hex
}
type robustCase struct {
	Inputs []robustInput `json:"inputs"`
}

type robustSuite struct{}

func init() {
	register(robustSuite{})
	prev := extraCommand
	extraCommand = func(name string, args []string) bool {
		if name != "robust-child" {
			return prev(name, args)
		}
		robustChild()
		return true
	}
}

func (robustSuite) Name() string { return "robust" }

// ---------- well-formed seeds ----------

const robustIndexSeed = "C:Q1p78yvTLG094tHE1+dToJGbmYzQE=\nP:libfoo\nV:1.2.3-r4\nA:x86_64\nS:1234\nI:5678\nT:a library\nU:https://example.test\nL:MIT\no:foo\nm:someone\nt:1700000000\nc:abcdef\nD:so:libc.musl-x86_64.so.1 bar>=1.0\np:so:libfoo.so.1=1.2.3 cmd:foo=1.2.3-r4\ni:a b=1\nk:10\n\nC:Q1p78yvTLG094tHE1+dToJGbmYzQE=\nP:bar\nV:1.0-r0\nA:x86_64\nS:1\nI:2\nT:\nU:\nL:\n\n"
const robustInstalledSeed = "C:Q1p78yvTLG094tHE1+dToJGbmYzQE=\nP:libfoo\nV:1.2.3-r4\nA:x86_64\nS:1234\nI:5678\nT:a library\nU:https://example.test\nL:MIT\no:foo\nm:someone\nt:1700000000\nc:abcdef\nD:bar\np:cmd:foo=1\nF:usr\nM:0:0:755\nF:usr/lib\nR:libfoo.so.1\na:0:0:644\nZ:Q1p78yvTLG094tHE1+dToJGbmYzQE=\nR:libfoo.so\na:0:0:777\n\n"
const robustPasswdSeed = "root:x:0:0:root:/root:/bin/sh\nnobody:x:65534:65534:nobody:/nonexistent:/sbin/nologin\nuser:x:1000:1000::/home/user:/bin/ash\n"
const robustGroupSeed = "root:x:0:root\nwheel:x:10:root,user\nnogroup:x:65533:\n"
const robustOsReleaseSeed = "ID=wolfi\nNAME=\"Wolfi\"\nPRETTY_NAME=\"Wolfi\"\nVERSION_ID=\"20230201\"\nHOME_URL=\"https://wolfi.dev\"\n# comment\n\n"
const robustLockSeed = `{"version":"v1","config":{"name":"x.yaml","checksum":"sha256-abc"},"contents":{"keyring":[{"name":"k","url":"https://k"}],"build_repositories":[],"runtime_repositories":[],"repositories":[{"name":"r","url":"https://r/APKINDEX.tar.gz","architecture":"x86_64"}],"packages":[{"name":"a","url":"https://r/a-1.apk","version":"1","architecture":"x86_64","signature":{"range":"bytes=0-9","checksum":"sha1-aa"},"control":{"range":"bytes=10-19","checksum":"sha1-bb"},"data":{"range":"bytes=20-29","checksum":"sha256-cc"},"checksum":"Q1abc="}]}}`
const robustYamlSeed = "contents:\n  repositories:\n    - https://r.test/main\n  keyring:\n    - /k.rsa.pub\n  packages:\n    - a\n    - b=1.0\nentrypoint:\n  command: /bin/sh -c 'x'\ncmd: --help\naccounts:\n  users:\n    - username: u\n      uid: 1000\n      gid: 1000\n  groups:\n    - groupname: g\n      gid: 1000\n      members: [u]\n  run-as: u\nenvironment:\n  A: b\npaths:\n  - path: /x\n    type: directory\n    uid: 1000\n    gid: 1000\n    permissions: 0o755\narchs:\n  - x86_64\n  - arm64\nlayering:\n  strategy: origin\n  budget: 3\n"

func robustApkSeed() []byte {
	p := SPkg{Name: "a", Version: "1.0-r0", Origin: "a", Deps: []string{"b"}, Files: []SFile{{Path: "usr", Type: "dir", Mode: 0o755}, {Path: "usr/f", Type: "file", Mode: 0o644, Content: "hello"}, {Path: "usr/l", Type: "symlink", Mode: 0o777, Link: "f"}}}
	return buildApk(p, "x86_64").bytes
}

// member-level compositions of an .apk stream: s = signature member (first entry .SIGN.*), c = control member, d = data
// member, e = a gzip member with an empty payload, g = garbage bytes, t = a truncated copy of the control member
var robustApkCompositions = []string{"", "s", "c", "d", "sc", "scd", "cd", "sd", "ss", "ssc", "sscd", "scdd", "cdd", "cdc", "dc", "dcs", "csd", "sdc", "cs", "scs",
	"e", "se", "sce", "ce", "ec", "esc", "sg", "scg", "scdg", "cg", "cdg", "st", "sct", "ct", "scc", "cc", "ccd", "sccd", "cdcd", "scdscd"}

func robustComposeApk(comp string) []byte {
	ms := robustGunzipMembers(robustApkSeed())
	if len(ms) < 2 {
		return nil
	}
	ctl, data := gz(ms[len(ms)-2]), gz(ms[len(ms)-1])
	sig := gz(tarBytes(false, func(tw *tar.Writer) {
		tw.WriteHeader(&tar.Header{Name: ".SIGN.RSA.verif.rsa.pub", Mode: 0o644, Size: 4, Typeflag: tar.TypeReg})
		tw.Write([]byte("sig!"))
	}))
	var out []byte
	for _, c := range comp {
		switch c {
		case 's':
			out = append(out, sig...)
		case 'c':
			out = append(out, ctl...)
		case 'd':
			out = append(out, data...)
		case 'e':
			out = append(out, gz(nil)...)
		case 'g':
			out = append(out, []byte("garbage after the member")...)
		case 't':
			out = append(out, ctl[:len(ctl)/2]...)
		}
	}
	return out
}

func robustIndexArchiveSeed() []byte {
	return gz(tarBytes(true, func(tw *tar.Writer) {
		tw.WriteHeader(&tar.Header{Name: "DESCRIPTION", Mode: 0o644, Size: 1, Typeflag: tar.TypeReg})
		tw.Write([]byte("d"))
		tw.WriteHeader(&tar.Header{Name: "APKINDEX", Mode: 0o644, Size: int64(len(robustIndexSeed)), Typeflag: tar.TypeReg})
		tw.Write([]byte(robustIndexSeed))
	}))
}

// ---------- mutation ----------

func robustMutate(r *Rng, seed []byte, textual bool) []byte {
	b := append([]byte(nil), seed...)
	alphabet := []byte("0123456789abcXYZ:=,.-_/ \n\r\t\x00\xff[]{}\"'#@<>~!")
	k := 1 + r.Intn(3)
	for ; k > 0; k-- {
		switch r.Intn(10) {
		case 8: // a line that is only white space, only a comment marker, or an indented comment
			if textual {
				ls := bytes.Split(b, []byte("\n"))
				i := r.Intn(len(ls) + 1)
				l := []byte(Pick(r, robustBlankLines))
				ls = append(ls[:i], append([][]byte{l}, ls[i:]...)...)
				b = bytes.Join(ls, []byte("\n"))
			}
		case 0: // truncate
			if len(b) > 0 {
				b = b[:r.Intn(len(b))]
			}
		case 1: // delete a byte
			if len(b) > 0 {
				i := r.Intn(len(b))
				b = append(b[:i], b[i+1:]...)
			}
		case 2: // insert a byte
			i := r.Intn(len(b) + 1)
			b = append(b[:i], append([]byte{alphabet[r.Intn(len(alphabet))]}, b[i:]...)...)
		case 3: // replace a byte
			if len(b) > 0 {
				if textual {
					b[r.Intn(len(b))] = alphabet[r.Intn(len(alphabet))]
				} else {
					b[r.Intn(len(b))] ^= byte(1 << r.Intn(8))
				}
			}
		case 4: // one-byte line / short line somewhere
			if textual {
				ls := bytes.Split(b, []byte("\n"))
				i := r.Intn(len(ls))
				ls[i] = []byte(Pick(r, []string{"P", ":", "M", "a:", "F", "x", "R:", "M:", "a:0", "M:0:0", "a:x:y:z", "M:1:2:999999999999999999999", "t:99999999999999999999", "S:-1", "I:abc"}))
				b = bytes.Join(ls, []byte("\n"))
			}
		case 5: // very long line
			if textual {
				ls := bytes.Split(b, []byte("\n"))
				i := r.Intn(len(ls))
				n := Pick(r, []int{70000, 1100000, 5000})
				ls[i] = append(append([]byte{}, ls[i]...), bytes.Repeat([]byte("y"), n)...)
				b = bytes.Join(ls, []byte("\n"))
			}
		case 6: // duplicate a chunk
			if len(b) > 1 {
				i := r.Intn(len(b))
				j := i + r.Intn(len(b)-i)
				b = append(b[:j], append(append([]byte{}, b[i:j]...), b[j:]...)...)
			}
		case 7: // drop the final newline / add blank lines
			if textual {
				if r.Bool() {
					b = bytes.TrimRight(b, "\n")
				} else {
					b = append([]byte("\n\n"), b...)
				}
			}
		default: // swap two lines
			if textual {
				ls := bytes.Split(b, []byte("\n"))
				if len(ls) > 2 {
					i, j := r.Intn(len(ls)), r.Intn(len(ls))
					ls[i], ls[j] = ls[j], ls[i]
					b = bytes.Join(ls, []byte("\n"))
				}
			}
		}
	}
	return b
}

// lines that carry nothing: white space of every kind unicode.IsSpace knows (also as UTF-8), comment markers, indented comments
var robustBlankLines = []string{" ", "\t", "\v", "\f", "\r", "  ", " \t ", "\xc2\xa0", "\xc2\x85", "\xe2\x80\xa8", "\xe2\x80\x83", "\xe3\x80\x80", " \xc2\xa0\t", "#", " #", "\t# comment", "# comment", "#\r", "   #", "\xc2\xa0#", ";", "//", "\x00", " \x00 "}

var robustDbLines = []string{"P:x", "P:y", "V:1.0-r0", "A:x86_64", "C:Q1p78yvTLG094tHE1+dToJGbmYzQE=", "D:a b", "p:c=1", "i:a", "F:usr", "F:usr/lib", "F:", "M:0:0:755", "M:0:0", "R:f", "R:../g", "R:", "a:0:0:644", "a:1000:1000:4755", "Z:Q1p78yvTLG094tHE1+dToJGbmYzQE=", "Z:Q1", "t:1700000000", "S:1", "I:2", "k:10", "", "", ""}

// robustLineSoup: a random sequence of well-formed db lines, in any order, over several stanzas
func robustLineSoup(r *Rng) []byte {
	n := r.Range(2, 14)
	var b strings.Builder
	for i := 0; i < n; i++ {
		b.WriteString(Pick(r, robustDbLines))
		b.WriteByte('\n')
	}
	if r.Bool() {
		b.WriteByte('\n')
	}
	return []byte(b.String())
}

// robustTarPatch rewrites one header of an uncompressed tar (size, name or type flag) and fixes its checksum
func robustTarPatch(r *Rng, t []byte) []byte {
	b := append([]byte(nil), t...)
	// header offsets: walk the archive by the recorded sizes
	var offs []int
	for off := 0; off+512 <= len(b); {
		if bytes.Equal(b[off:off+512], make([]byte, 512)) {
			break
		}
		offs = append(offs, off)
		var size int64
		fmt.Sscanf(strings.TrimRight(string(b[off+124:off+135]), " \x00"), "%o", &size)
		off += 512 + int((size+511)/512*512)
	}
	if len(offs) == 0 {
		return b
	}
	off := Pick(r, offs)
	switch r.Intn(5) {
	case 0:
		copy(b[off+124:off+136], "77777777777\x00") // 8 GiB - 1
	case 1:
		// base-256 size: 2^62
		copy(b[off+124:off+136], []byte{0x80, 0, 0, 0, 0x40, 0, 0, 0, 0, 0, 0, 0})
	case 2:
		// base-256 negative size
		copy(b[off+124:off+136], []byte{0xff, 0xff, 0xff, 0xff, 0xff, 0xff, 0xff, 0xff, 0xff, 0xff, 0xff, 0xfe})
	case 3:
		name := Pick(r, robustHostileNames)
		for i := 0; i < 100; i++ {
			b[off+i] = 0
		}
		copy(b[off:off+100], name)
	default:
		b[off+156] = Pick(r, []byte{'0', '1', '2', '3', '5', 'x', 'g', 'L', 'K', 0})
	}
	// checksum
	for i := 148; i < 156; i++ {
		b[off+i] = ' '
	}
	sum := 0
	for i := 0; i < 512; i++ {
		sum += int(b[off+i])
	}
	copy(b[off+148:off+156], fmt.Sprintf("%06o\x00 ", sum))
	if r.Chance(60) {
		// the stream ends shortly after the patched header
		end := off + 512 + r.Intn(600)
		if end < len(b) {
			b = b[:end]
		}
	}
	return b
}

// robustGunzipMembers splits a concatenation of gzip members into their decompressed payloads
func robustGunzipMembers(b []byte) [][]byte {
	var out [][]byte
	br := bytes.NewReader(b)
	for br.Len() > 0 {
		zr, err := gzip.NewReader(br)
		if err != nil {
			break
		}
		zr.Multistream(false)
		p, err := io.ReadAll(zr)
		if err != nil {
			break
		}
		out = append(out, p)
	}
	return out
}

var robustHostileNames = []string{"", ".", "./", "..", "../x", "a/..", "a/../..", "/", "//", "/abs", "a//b", "a/./b", "usr/../x", strings.Repeat("d/", 200) + "f", "a\x00b", "\xff\xfe", ".hidden", "./.", "a/", "lib/apk/db/installed"}

var robustBoundary = []string{"", "\n", "\x00", "a", ":", "\x1f\x8b", "\x1f\x8b\x08\x00\x00\x00\x00\x00\x00\xff", "\n\n\n", "=", "{", "[", "---", "P:", "C:Q1", "'", "K='", "K='x", "K=\"", "include: @SELF@\n"}

// Inputs that made fs.WalkDir run forever (or list entries named "." / "..") before the repairs F17g/F17h.
// One per case (cases 1..n): a hang costs the 10 s watchdog, and the engine's per-case limit is 20 s, so
// only one input per case may hang if the hang is to be attributed to its input.
var robustLinkApks = [][]SFile{
	// a link entry whose target is a directory, placed inside that directory: the node graph gets a
	// cycle and the layer writer's fs.WalkDir never returns (F17h)
	{{Path: "a", Type: "dir", Mode: 0o755}, {Path: "a/b", Type: "dir", Mode: 0o755}, {Path: "a/b/x", Type: "hardlink", Mode: 0o755, Link: "a"}},
	{{Path: "a", Type: "dir", Mode: 0o755}, {Path: "a/x", Type: "hardlink", Mode: 0o755, Link: "."}},
	// entries whose last element is "." or "..": they must not become children of that name (F17g)
	{{Path: "a", Type: "dir", Mode: 0o755}, {Path: "a/..", Type: "symlink", Mode: 0o777, Link: "x"}},
	{{Path: "a", Type: "dir", Mode: 0o755}, {Path: "a/b", Type: "dir", Mode: 0o755}, {Path: "a/b/..", Type: "file", Mode: 0o644, Content: "x"}, {Path: "a/.", Type: "file", Mode: 0o644, Content: "y"}},
	{{Path: "a", Type: "dir", Mode: 0o755}, {Path: "a/f", Type: "file", Mode: 0o644, Content: "x"}, {Path: "a/..", Type: "hardlink", Mode: 0o644, Link: "a/f"}},
}

var robustLinkPaths = [][]types.PathMutation{
	{{Path: "/usr/x", Type: "hardlink", Source: "/usr"}},
	{{Path: "/usr/lib/up", Type: "hardlink", Source: "/usr"}, {Path: "/usr", Type: "directory", Permissions: 0o755, Recursive: true}},
	{{Path: "/opt/loop", Type: "hardlink", Source: "/"}, {Path: "/opt", Type: "directory", Permissions: 0o755, Recursive: true}},
	{{Path: "/usr/..", Type: "symlink", Source: "x"}, {Path: "/usr/.", Type: "empty-file"}, {Path: "/usr/lib/..", Type: "hardlink", Source: "/usr/f"}},
	{{Path: "/usr/f2", Type: "hardlink", Source: "/usr/f"}, {Path: "/usr", Type: "directory", Permissions: 0o755, Recursive: true}},
}

// a whole build against a repository that is itself damaged or odd: the .apk a correct index points at is truncated,
// garbage, empty, missing, an error page; or the index entry carries provides / dependency texts the grammar rejects.
// One per case (a hang must be attributed to its input).
type robustHostileRepo struct {
	Damage   string   `json:"damage,omitempty"`
	Provides []string `json:"provides,omitempty"`
	Deps     []string `json:"deps,omitempty"`
	Archs    int      `json:"archs,omitempty"`
}

var robustHostileRepos = []robustHostileRepo{
	{Damage: "truncate-half"}, {Damage: "truncate-1"}, {Damage: "garbage"}, {Damage: "empty"}, {Damage: "missing"}, {Damage: "html"},
	{Damage: "gzip-header-only"}, {Damage: "drop-data-member"}, {Damage: "flip-control"}, {Damage: "flip-data"}, {Damage: "truncate-half", Archs: 2},
	{Provides: []string{"cmd:weird="}}, {Provides: []string{"=1.0"}}, {Provides: []string{"a@b@c"}}, {Provides: []string{"x", "", "y=1"}}, {Provides: []string{"so:libdemo.so.1=r5"}},
	{Provides: []string{"cmd:weird=", "ok=1"}, Archs: 2}, {Deps: []string{"so:libdemo.so.1=r5"}}, {Deps: []string{"g>"}}, {Deps: []string{"g@"}}, {Deps: []string{"!g", "g"}},
}

func robustHasBuild(c robustCase) bool {
	for _, in := range c.Inputs {
		if in.Reader == "hostile-apk" || in.Reader == "hostile-paths" || in.Reader == "hostile-repo" {
			return true
		}
	}
	return false
}

func (robustSuite) Gen(r *Rng, i int, tier string) any {
	var c robustCase
	add := func(reader string, data []byte) {
		c.Inputs = append(c.Inputs, robustInput{reader, hex.EncodeToString(data)})
	}
	if i == 0 {
		// boundary inputs for every reader: empty, one byte, a bare gzip header, an unterminated quote, a self-including configuration
		for _, rd := range []string{"version", "constraint", "index", "installed", "passwd", "group", "osrelease", "lock", "imageconfig", "indexarchive", "split", "expandapk"} {
			for _, b := range robustBoundary {
				add(rd, []byte(b))
			}
		}
		// every constraint name with every degenerate version text (release-suffix and separator scanners at their boundaries)
		for _, rd := range []string{"pkginfo", "perms", "world", "repos", "repoline", "resub-version", "resub-pin", "resub-alpine", "resub-signature"} {
			for _, b := range robustBoundary {
				add(rd, []byte(b))
			}
		}
		for _, rd := range []string{"passwd", "group", "osrelease", "index", "installed", "world", "repos", "pkginfo", "repoline"} {
			good := map[string]string{"passwd": "root:x:0:0:root:/root:/bin/sh", "group": "root:x:0:root", "osrelease": "ID=wolfi", "index": "P:a", "installed": "P:a",
				"world": "a", "repos": "https://r.test/main", "pkginfo": "datahash = ab", "repoline": "@e https://r.test/e"}[rd]
			for _, bl := range robustBlankLines {
				add(rd, []byte(bl+"\n"))
				add(rd, []byte(good+"\n"+bl+"\n"+good+"\n"))
			}
		}
		// .apk streams composed member by member: signed / unsigned, cut exactly at member boundaries, sections missing,
		// repeated or in the wrong order, an empty member, garbage after a member
		for _, comp := range robustApkCompositions {
			b := robustComposeApk(comp)
			add("split", b)
			add("expandapk", b)
		}
		for _, l := range robustRepoLines {
			add("repoline", []byte(l))
		}
		for _, l := range robustRegexSeeds() {
			add("regex", []byte(l))
		}
		for _, l := range robustAlpineRepos {
			add("resub-alpine", []byte(l))
		}
		for _, l := range robustSigNames {
			add("resub-signature", []byte(l))
		}
		for _, l := range []string{"=", "datahash", "datahash=", "=x", "datahash = a = b", "datahash = a\ndatahash = b", " datahash\t=\tx ", "triggers = a\ntriggers = b\n"} {
			add("pkginfo", []byte(l))
		}
		for _, l := range []string{"0:0", "0:0:755", "0:0:755:1", "::", "-1:+2:0777", "a:0:0", "0:0:8", "0:0:"} {
			add("perms", []byte(l))
		}
		for _, n := range conNames {
			for _, v := range conEdgeVers {
				add("constraint", []byte(n+"="+v))
			}
		}
		for _, g := range []string{
			"include: @F0@\n", "include: @P0@\n", "include: @F1@\n\n@@@\ninclude: @F0@\n", "include: @P1@\n\n@@@\ninclude: @P0@\n",
			"include: @F1@\n\n@@@\ninclude: @P0@\n", "include: @F1@\n\n@@@\ninclude: @F2@\n\n@@@\ninclude: @F1@\n",
			"include: @F1@\n\n@@@\ninclude: @F2@\n\n@@@\ninclude: @F3@\n\n@@@\ncontents:\n  packages: [a]\n",
			"include: ./@F1@\n\n@@@\ninclude: @F0@\n", "include: missing.yaml\n", "include: ''\n", "include: .\n", "include: /\n",
		} {
			add("imageconfig-inc", []byte(g))
		}
		for _, hostile := range [][]SFile{
			{{Path: "", Type: "file", Mode: 0o644, Content: "x"}},
			{{Path: "", Type: "dir", Mode: 0o755}},
			{{Path: ".", Type: "dir", Mode: 0o755}, {Path: "./", Type: "dir", Mode: 0o755}},
			{{Path: "a", Type: "dir", Mode: 0o755}, {Path: "a/../..", Type: "dir", Mode: 0o755}},
			{{Path: "usr", Type: "dir", Mode: 0o755}, {Path: "usr/f", Type: "hardlink", Mode: 0o644, Link: "usr/missing"}},
			{{Path: "l", Type: "symlink", Mode: 0o777, Link: ""}},
			// regular-file entries whose MODE FIELD carries file-type bits (archive/tar's FileInfo().Mode() decodes them):
			// a "file" that says it is a directory, a symlink, a device, a fifo, a socket — and entries below / through it
			{{Path: "f", Type: "file", Mode: 0o40644, Content: "x"}, {Path: "f/x", Type: "dir", Mode: 0o755}},
			{{Path: "f", Type: "file", Mode: 0o40644, Content: "x"}, {Path: "f/y", Type: "file", Mode: 0o644, Content: "y"}},
			{{Path: "f", Type: "file", Mode: 0o40755}, {Path: "f/l", Type: "symlink", Mode: 0o777, Link: "../f"}},
			{{Path: "f", Type: "file", Mode: 0o120644, Content: "x"}, {Path: "f/y", Type: "file", Mode: 0o644, Content: "y"}},
			{{Path: "f", Type: "file", Mode: 0o120777}, {Path: "g", Type: "hardlink", Mode: 0o644, Link: "f"}},
			{{Path: "f", Type: "file", Mode: 0o60644, Content: "x"}, {Path: "f/y", Type: "dir", Mode: 0o755}},
			{{Path: "f", Type: "file", Mode: 0o10644, Content: "x"}},
			{{Path: "f", Type: "file", Mode: 0o140644, Content: "x"}},
			{{Path: "d", Type: "dir", Mode: 0o100755}, {Path: "d/x", Type: "file", Mode: 0o644, Content: "x"}},
			{{Path: "d", Type: "dir", Mode: 0o120755}, {Path: "d/x", Type: "file", Mode: 0o644, Content: "x"}},
		} {
			b, _ := json.Marshal(hostile)
			add("hostile-apk", b)
		}
		return c
	}
	if i >= 1 && i <= len(robustLinkApks) {
		b, _ := json.Marshal(robustLinkApks[i-1])
		add("hostile-apk", b)
	} else if j := i - 1 - len(robustLinkApks); j >= 0 && j < len(robustLinkPaths) {
		b, _ := json.Marshal(robustLinkPaths[j])
		add("hostile-paths", b)
	} else if j := i - 1 - len(robustLinkApks) - len(robustLinkPaths); j >= 0 && j < len(robustHostileRepos) {
		b, _ := json.Marshal(robustHostileRepos[j])
		add("hostile-repo", b)
	}
	n := 60
	for k := 0; k < n; k++ {
		switch r.Intn(17) {
		case 0:
			add("version", []byte(mutateBytes(r, genVersion(r).String())))
		case 1:
			add("constraint", []byte(mutateBytes(r, genConstraint(r, genVersion(r).String()))))
		case 2, 3:
			add("index", robustMutate(r, []byte(robustIndexSeed), true))
		case 4, 5:
			if r.Chance(35) {
				add(Pick(r, []string{"installed", "installed", "index"}), robustLineSoup(r))
			} else {
				add("installed", robustMutate(r, []byte(robustInstalledSeed), true))
			}
		case 6:
			add("passwd", robustMutate(r, []byte(robustPasswdSeed), true))
		case 7:
			add("group", robustMutate(r, []byte(robustGroupSeed), true))
		case 8:
			seed := robustOsReleaseSeed
			if r.Chance(40) {
				seed = strings.Replace(seed, "\"Wolfi\"", Pick(r, []string{"'Wolfi'", "'Wolfi", "'", "\"", "'a\"", "\"a'"}), 1)
			}
			add("osrelease", robustMutate(r, []byte(seed), true))
		case 9:
			add("lock", robustMutate(r, []byte(robustLockSeed), true))
		case 10:
			add("imageconfig", robustMutate(r, []byte(robustYamlSeed), true))
			if r.Chance(50) {
				// include graphs: 1-4 files, each including a random file (by bare name through the include paths, by
				// absolute path, or with a ./ prefix), so chains, self-includes and cycles of every length occur
				n := r.Range(1, 4)
				var fs []string
				for k := 0; k < n; k++ {
					t := ""
					if r.Chance(85) {
						t = "include: " + Pick(r, []string{"@F%d@", "@P%d@", "./@F%d@", "@F%d@", "inc/../@F%d@"}) + "\n"
						t = fmt.Sprintf(t, r.Intn(n))
					}
					if r.Chance(60) {
						t += "contents:\n  packages: [p" + fmt.Sprint(k) + "]\n"
					}
					if r.Chance(10) {
						t = string(robustMutate(r, []byte(t), true))
					}
					fs = append(fs, t)
				}
				add("imageconfig-inc", []byte(strings.Join(fs, "\n@@@\n")))
			}
		case 11:
			if r.Chance(50) {
				// tar-level: one header of the (single-member) archive rewritten
				ms := robustGunzipMembers(robustIndexArchiveSeed())
				if len(ms) == 1 {
					add("indexarchive", gz(robustTarPatch(r, ms[0])))
					break
				}
			}
			add("indexarchive", robustMutate(r, robustIndexArchiveSeed(), false))
		case 12:
			rd := Pick(r, []string{"split", "expandapk"})
			if r.Chance(35) {
				n := r.Intn(5)
				comp := ""
				for k := 0; k < n; k++ {
					comp += Pick(r, []string{"s", "c", "d", "s", "c", "d", "e", "g", "t"})
				}
				add(rd, robustComposeApk(comp))
				break
			}
			if r.Chance(50) {
				ms := robustGunzipMembers(robustApkSeed())
				if len(ms) >= 2 {
					k := r.Intn(len(ms))
					var out []byte
					for i, m := range ms {
						if i == k {
							m = robustTarPatch(r, m)
						}
						out = append(out, gz(m)...)
					}
					add(rd, out)
					break
				}
			}
			add(rd, robustMutate(r, robustApkSeed(), false))
		case 14:
			switch r.Intn(6) {
			case 0:
				add("pkginfo", robustMutate(r, []byte(robustPkginfoSeed), true))
			case 1:
				add("perms", []byte(mutateBytes(r, Pick(r, []string{"0:0:755", "1000:1000:4755", "65534:65534:644", "0:0:0"}))))
			case 2:
				add("world", robustMutate(r, []byte(robustWorldSeed), true))
			case 3:
				b := robustMutate(r, []byte(robustReposSeed), true)
				add("repos", b)
				ls := strings.Split(string(b), "\n")
				if l := Pick(r, ls); len(l) < 4096 {
					add("repoline", []byte(l))
				}
			case 4:
				add("repoline", []byte(mutateBytes(r, Pick(r, robustRepoLines))))
			default:
				add("regex", []byte(robustRegexLiteral(r)))
			}
		case 15:
			switch r.Intn(4) {
			case 0:
				add("resub-version", []byte(mutateBytes(r, genVersion(r).String())))
			case 1:
				add("resub-pin", []byte(mutateBytes(r, genConstraint(r, genVersion(r).String()))))
			case 2:
				add("resub-alpine", []byte(mutateBytes(r, Pick(r, robustAlpineRepos))))
			default:
				add("resub-signature", []byte(mutateBytes(r, Pick(r, robustSigNames))))
			}
		default:
			// hostile tar entry names through the lazy in-memory file system and the installed-db writer
			names := []string{Pick(r, robustHostileNames), Pick(r, robustHostileNames)}
			add(Pick(r, []string{"tarfs-names", "idb-names"}), []byte(strings.Join(names, "\x01")))
			// in addition (drawn from a side stream, so that the inputs above are the ones this suite always
			// generated): hostile link entries / dotted names / hardlink mutations through a whole build, at
			// most one per case (see robustLinkApks)
			r2 := &Rng{r.s ^ 0x6c696e6b64697273}
			if i > len(robustLinkApks)+len(robustLinkPaths)+len(robustHostileRepos) && !robustHasBuild(c) && r2.Chance(20) {
				if r2.Chance(60) {
					files := []SFile{{Path: "a", Type: "dir", Mode: 0o755}, {Path: "a/b", Type: "dir", Mode: 0o755}, {Path: "a/f", Type: "file", Mode: 0o644, Content: "x"}}
					for k := r2.Range(1, 3); k > 0; k-- {
						files = append(files, SFile{Path: Pick(r2, []string{"a/x", "a/b/x", "a/..", "a/b/.", "a/b/..", "y", "a/b/y"}), Type: Pick(r2, []string{"hardlink", "hardlink", "symlink", "file"}),
							Mode: 0o644, Link: Pick(r2, []string{"a", "a/b", ".", "a/f", "/a", "a/b/x", "missing"}), Content: "z"})
					}
					b, _ := json.Marshal(files)
					add("hostile-apk", b)
				} else {
					paths := []types.PathMutation{{Path: Pick(r2, []string{"/usr/x", "/usr/lib/x", "/usr/..", "/usr/lib/.", "/x"}), Type: Pick(r2, []string{"hardlink", "hardlink", "symlink", "empty-file"}),
						Source: Pick(r2, []string{"/usr", "/", "/usr/lib", "/usr/f", "usr", "/missing"})},
						{Path: Pick(r2, []string{"/usr", "/", "/usr/lib"}), Type: "directory", Permissions: 0o755, Recursive: true}}
					b, _ := json.Marshal(paths)
					add("hostile-paths", b)
				}
			}
		}
	}
	return c
}

// ---------- parent side ----------

type robustProc struct {
	cmd *exec.Cmd
	in  io.WriteCloser
	out *bufio.Reader
	err *bytes.Buffer
}

func robustStart() *robustProc {
	self, _ := os.Executable()
	cmd := exec.Command(self, "robust-child")
	cmd.Env = append(os.Environ(), "GOMEMLIMIT=3GiB", "GOTRACEBACK=single")
	in, _ := cmd.StdinPipe()
	out, _ := cmd.StdoutPipe()
	var eb bytes.Buffer
	cmd.Stderr = &eb
	if err := cmd.Start(); err != nil {
		panic(err)
	}
	return &robustProc{cmd, in, bufio.NewReaderSize(out, 1<<22), &eb}
}

func (p *robustProc) kill() {
	p.in.Close()
	p.cmd.Process.Kill()
	p.cmd.Wait()
}

// ask returns the child's answer, or "crash: …" / "hang" (the child is dead afterwards)
func (p *robustProc) ask(in robustInput, timeout time.Duration) (string, bool) {
	fmt.Fprintf(p.in, "%s\t%s\n", in.Reader, in.Data)
	ch := make(chan string, 1)
	go func() {
		l, err := p.out.ReadString('\n')
		if err != nil {
			ch <- "\x00dead"
			return
		}
		ch <- strings.TrimRight(l, "\n")
	}()
	select {
	case l := <-ch:
		if l == "\x00dead" {
			p.cmd.Wait()
			st := p.err.String()
			what := "crash"
			if strings.Contains(st, "stack overflow") {
				what = "crash: stack overflow"
			} else if i := strings.Index(st, "panic:"); i >= 0 {
				what = "crash: " + firstLine(st[i:])
			} else if i := strings.Index(st, "fatal error:"); i >= 0 {
				what = "crash: " + firstLine(st[i:])
			}
			return what, false
		}
		return l, true
	case <-time.After(timeout):
		p.kill()
		return "hang", false
	}
}

// robustModelLine: the request for the model of a reader of robust_readers.go (aux = the input as the model sees it)
func robustModelLine(in robustInput, alive, panicked bool, aux string) (string, bool) {
	if !alive || panicked {
		return "", false
	}
	switch in.Reader {
	case "osrelease":
		return "x.osrel\t" + in.Data, true
	case "pkginfo":
		return "x.ctl\t" + in.Data, true
	case "perms":
		return "x.perms\t" + in.Data, true
	case "world":
		return "x.world\t" + in.Data, true
	case "repos":
		return "x.repos\t" + in.Data, true
	case "repoline":
		return "x.repoline\t" + in.Data, true
	case "regex":
		return "x.groups\t" + in.Data, true
	case "resub-version", "resub-alpine", "resub-signature":
		return "x.resub\t" + strings.TrimPrefix(in.Reader, "resub-") + "\t" + in.Data + "\t" + aux, true
	case "resub-pin":
		return "x.resub\tpin\t" + aux, true // aux = the text the expression saw, then the matches
	case "split":
		return "x.split\t" + aux, true
	case "expandapk":
		return "x.expand\t" + aux, true
	case "indexarchive":
		return "x.idxarch\t" + aux, true
	case "imageconfig-inc":
		return "x.inc\t" + aux, true
	}
	return "", false
}

func firstLine(s string) string {
	if i := strings.IndexByte(s, '\n'); i >= 0 {
		s = s[:i]
	}
	if len(s) > 200 {
		s = s[:200]
	}
	return s
}

func (robustSuite) Run(raw json.RawMessage) []Step {
	var c robustCase
	if err := json.Unmarshal(raw, &c); err != nil {
		panic(err)
	}
	p := robustStart()
	defer func() {
		if p != nil {
			p.kill()
		}
	}()
	var steps []Step
	for _, in := range c.Inputs {
		if p == nil {
			p = robustStart()
		}
		ans, alive := p.ask(in, 10*time.Second)
		if !alive {
			p = nil
		}
		aux := ""
		if alive {
			ans, aux, _ = strings.Cut(ans, "\t")
		}
		data, _ := hex.DecodeString(in.Data)
		desc := fmt.Sprintf("%s(%q)", in.Reader, short(string(data)))
		h := sha256.Sum256([]byte(in.Reader + in.Data))
		bad := !alive || strings.HasPrefix(ans, "panic")
		verdict := "pass"
		if bad {
			verdict = "fail:" + ans
		}
		kind := "ok"
		switch {
		case !alive:
			kind = strings.SplitN(ans, ":", 2)[0]
		case strings.HasPrefix(ans, "panic"):
			kind = "panic"
		case strings.HasPrefix(ans, "err") || ans == "verr":
			kind = "err"
		}
		// the property's oracle is "a result or an error, promptly"; for the readers that have a Lean model
		// the answer must additionally equal the model's (correspondence)
		st := Step{Desc: desc, Go: ans, Tags: []string{in.Reader + ":" + kind}, Mode: "oracle-go", GoSpec: verdict, Trivial: kind == "err"}
		switch in.Reader {
		case "version":
			st.Line = "v.parse\t" + in.Data
		case "constraint":
			st.Line = "v.con\t" + in.Data
		case "index":
			st.Line = "f.idx.r\t" + in.Data
		case "installed":
			st.Line = "f.idb.r\t" + in.Data
		case "passwd":
			st.Line = "f.pw.r\t" + in.Data
		case "group":
			st.Line = "f.gr.r\t" + in.Data
		default:
			if line, ok := robustModelLine(in, alive, strings.HasPrefix(ans, "panic"), aux); ok {
				st.Line = line
			} else {
				st.Line = "x.robust\t" + hex.EncodeToString(h[:8])
				st.NoImpl = true
			}
		}
		steps = append(steps, st)
		// the same input through the checked-accessor model of the reader (Model/Robust.lean)
		if alive && !strings.HasPrefix(ans, "panic") {
			switch in.Reader {
			case "passwd":
				st2 := st
				st2.Line = "x.pw\t" + in.Data
				st2.Tags = []string{"checked:passwd"}
				steps = append(steps, st2)
			case "group":
				st2 := st
				st2.Line = "x.gr\t" + in.Data
				st2.Tags = []string{"checked:group"}
				steps = append(steps, st2)
			}
		}
	}
	return steps
}

// ---------- child side ----------

func robustChild() {
	// hard address-space limit: a reader that allocates without bound dies instead of taking the box down
	syscall.Setrlimit(syscall.RLIMIT_AS, &syscall.Rlimit{Cur: 12 << 30, Max: 12 << 30})
	in := bufio.NewReaderSize(os.Stdin, 1<<22)
	out := bufio.NewWriter(os.Stdout)
	for {
		l, err := in.ReadString('\n')
		if err != nil {
			return
		}
		reader, hx, _ := strings.Cut(strings.TrimRight(l, "\n"), "\t")
		data, _ := hex.DecodeString(hx)
		ans := robustApply(reader, data)
		out.WriteString(strings.ReplaceAll(ans, "\n", " ") + "\n")
		out.Flush()
	}
}

func robustApply(reader string, data []byte) (ans string) {
	defer func() {
		if r := recover(); r != nil {
			ans = fmt.Sprintf("panic: %v", r)
		}
	}()
	okErr := func(err error) string {
		if err != nil {
			return "err"
		}
		return "ok"
	}
	ctx := context.Background()
	if a, ok := robustApply2(reader, data); ok {
		return a
	}
	switch reader {
	case "version":
		_, o := goParse(string(data))
		return o
	case "constraint":
		p := apk.ResolvePackageNameVersionPin(string(data))
		n, v, d, pin := apk.VerifConstraintFields(p)
		return fmt.Sprintf("%s|%s|%d|%s", hx(n), hx(v), d, hx(pin))
	case "index":
		return goIdxR(string(data))
	case "installed":
		return goIdbR(string(data))
	case "passwd":
		return goPwR(string(data))
	case "group":
		return goGrR(string(data))
	case "osrelease":
		fsys := fstest.MapFS{"etc/os-release": &fstest.MapFile{Data: data}}
		id, name, ver, err := build.VerifReadReleaseData(robustRootFS{fsys})
		if err != nil {
			return "err"
		}
		return fmt.Sprintf("ok %s|%s|%s", hx(id), hx(name), hx(ver))
	case "lock":
		dir, _ := os.MkdirTemp("", "verif-robust-")
		defer os.RemoveAll(dir)
		p := filepath.Join(dir, "lock.json")
		os.WriteFile(p, data, 0o644)
		_, err := lock.FromFile(p)
		return okErr(err)
	case "imageconfig":
		dir, _ := os.MkdirTemp("", "verif-robust-")
		defer os.RemoveAll(dir)
		p := filepath.Join(dir, "c.yaml")
		data = bytes.ReplaceAll(data, []byte("@SELF@"), []byte(p))
		os.WriteFile(p, data, 0o644)
		var ic types.ImageConfiguration
		if err := ic.Load(ctx, p, nil, sha256.New()); err != nil {
			return "err"
		}
		return "ok validate:" + okErr(ic.Validate())
	case "imageconfig-inc":
		// a small include graph: data = file texts separated by "\n@@@\n"; file k is written as inc/f<k>.yaml (and
		// also as f<k>.yaml in the working directory's stand-in, the first include path), `@F<k>@` in a text names file k
		// as an include would (bare name, found through the include paths), `@P<k>@` names it by its absolute path
		dir, _ := os.MkdirTemp("", "verif-robust-")
		defer os.RemoveAll(dir)
		inc := filepath.Join(dir, "inc")
		inc2 := filepath.Join(dir, "inc2")
		os.MkdirAll(inc, 0o755)
		os.MkdirAll(inc2, 0o755)
		files := bytes.Split(data, []byte("\n@@@\n"))
		if len(files) > 6 {
			files = files[:6]
		}
		for k, f := range files {
			for j := range files {
				f = bytes.ReplaceAll(f, []byte(fmt.Sprintf("@F%d@", j)), []byte(fmt.Sprintf("f%d.yaml", j)))
				f = bytes.ReplaceAll(f, []byte(fmt.Sprintf("@P%d@", j)), []byte(filepath.Join([]string{inc, inc2}[j%2], fmt.Sprintf("f%d.yaml", j))))
			}
			os.WriteFile(filepath.Join([]string{inc, inc2}[k%2], fmt.Sprintf("f%d.yaml", k)), f, 0o644)
		}
		// the working directory matters to paths.ResolvePath (a bare name is first looked up as it is): stand in the
		// scratch directory, where no f<k>.yaml exists, for the real reader and for the description of the graph alike
		if wd, err := os.Getwd(); err == nil {
			defer os.Chdir(wd)
		}
		os.Chdir(dir)
		graph := robustIncludeGraph("f0.yaml", []string{inc, inc2})
		var ic types.ImageConfiguration
		if err := ic.Load(ctx, "f0.yaml", []string{inc, inc2}, sha256.New()); err != nil {
			return "err\t" + graph
		}
		ic.Validate()
		return "ok\t" + graph
	case "indexarchive":
		_, err := apk.IndexFromArchive(io.NopCloser(bytes.NewReader(data)))
		return okErr(err) + "\t" + robustEntries(data)
	case "split":
		rs, err := expandapk.Split(bytes.NewReader(data))
		if err != nil {
			return "err\t" + robustMembers(data)
		}
		for _, r := range rs {
			io.Copy(io.Discard, r)
		}
		// and the control section ParsePackageInfo picks (split[0] / split[1]) — a result or an error, never a panic
		apk.ParsePackageInfo(bytes.NewReader(data))
		return fmt.Sprintf("ok %d control", len(rs)) + "\t" + robustMembers(data)
	case "expandapk":
		dir, _ := os.MkdirTemp("", "verif-robust-")
		defer os.RemoveAll(dir)
		e, err := expandapk.ExpandApk(ctx, bytes.NewReader(data), dir)
		if err != nil {
			return "err\t" + robustMembers(data)
		}
		signed := e.Signed
		e.Close()
		return fmt.Sprintf("ok signed=%v", signed) + "\t" + robustMembers(data)
	case "hostile-apk":
		// a whole build from a package whose data section carries hostile entries
		var files []SFile
		if err := json.Unmarshal(data, &files); err != nil {
			return "unknown-reader"
		}
		repo := BuildSynthRepo([]SPkg{{Name: "h", Version: "1.0-r0", Origin: "h", Files: files}}, []string{"x86_64"})
		var ic types.ImageConfiguration
		ic.Contents.Packages = []string{"h"}
		// an ordinary configuration that touches what the package laid out: accounts with home directories below the
		// package's paths, path mutations on and below them (every later build step meets the hostile nodes)
		ic.Accounts.Users = []types.User{{UserName: "u", UID: 1000, GID: types.GID(ptrU32(1000)), HomeDir: "/f/u"}, {UserName: "v", UID: 1001, GID: types.GID(ptrU32(1000)), HomeDir: "/d/x/v"}}
		ic.Accounts.Groups = []types.Group{{GroupName: "g", GID: 1000}}
		ic.Paths = []types.PathMutation{{Path: "/f/d", Type: "directory", UID: 0, GID: 0, Permissions: 0o755}, {Path: "/d", Type: "permissions", UID: 1, GID: 1, Permissions: 0o700, Recursive: true},
			{Path: "/f/e/f", Type: "empty-file", Permissions: 0o644}, {Path: "/l/s", Type: "symlink", Source: "/f"}}
		out := e2eBuild(ic, repo, E2EOpts{Archs: []string{"x86_64"}})
		if out.Err != nil {
			// and the bare configuration (a failing mutation must not hide what the installation alone does)
			var ic2 types.ImageConfiguration
			ic2.Contents.Packages = []string{"h"}
			out2 := e2eBuild(ic2, repo, E2EOpts{Archs: []string{"x86_64"}})
			return "err/" + okErr(out2.Err)
		}
		return okErr(out.Err)
	case "hostile-repo":
		var hr robustHostileRepo
		if err := json.Unmarshal(data, &hr); err != nil {
			return "unknown-reader"
		}
		archs := []string{"x86_64", "aarch64"}[:max(hr.Archs, 1)]
		pk := []SPkg{{Name: "h", Version: "1.0-r0", Origin: "h", Provides: hr.Provides, Deps: hr.Deps, Files: []SFile{{Path: "usr", Type: "dir", Mode: 0o755}, {Path: "usr/h", Type: "file", Mode: 0o644, Content: "h"}}},
			{Name: "g", Version: "1.0-r0", Origin: "g", Files: []SFile{{Path: "usr", Type: "dir", Mode: 0o755}, {Path: "usr/g", Type: "file", Mode: 0o644, Content: "g"}}}}
		repo := BuildSynthRepo(pk, archs)
		name := "x86_64/h-1.0-r0.apk"
		if b, ok := repo.Files[name]; ok && hr.Damage != "" {
			// offset at which the last gzip member (the data section) starts
			lastStart := -1
			for br := bytes.NewReader(b); br.Len() > 0; {
				start := len(b) - br.Len()
				zr, err := gzip.NewReader(br)
				if err != nil {
					break
				}
				zr.Multistream(false)
				if _, err := io.Copy(io.Discard, zr); err != nil {
					break
				}
				lastStart = start
			}
			switch hr.Damage {
			case "truncate-half":
				b = b[:len(b)/2]
			case "truncate-1":
				b = b[:len(b)-1]
			case "garbage":
				b = bytes.Repeat([]byte("not an apk at all\n"), 40)
			case "empty":
				b = nil
			case "missing":
				delete(repo.Files, name)
			case "html":
				b = []byte("<html><body>404 not found</body></html>")
			case "gzip-header-only":
				b = b[:10]
			case "drop-data-member":
				if lastStart > 0 {
					b = b[:lastStart]
				}
			case "flip-control":
				b = append([]byte{}, b...)
				b[len(b)/8] ^= 0x55
			case "flip-data":
				b = append([]byte{}, b...)
				b[len(b)-len(b)/8] ^= 0x55
			}
			if hr.Damage != "missing" {
				repo.Files[name] = b
			}
		}
		var ic types.ImageConfiguration
		ic.Contents.Packages = []string{"h", "g"}
		out := e2eBuild(ic, repo, E2EOpts{Archs: archs})
		return okErr(out.Err)
	case "hostile-paths":
		// a whole build whose image configuration carries hostile path mutations
		var paths []types.PathMutation
		if err := json.Unmarshal(data, &paths); err != nil {
			return "unknown-reader"
		}
		repo := BuildSynthRepo([]SPkg{{Name: "h", Version: "1.0-r0", Origin: "h", Files: []SFile{
			{Path: "usr", Type: "dir", Mode: 0o755}, {Path: "usr/lib", Type: "dir", Mode: 0o755}, {Path: "usr/f", Type: "file", Mode: 0o644, Content: "x"}}}}, []string{"x86_64"})
		var ic types.ImageConfiguration
		ic.Contents.Packages = []string{"h"}
		ic.Paths = paths
		out := e2eBuild(ic, repo, E2EOpts{Archs: []string{"x86_64"}})
		return okErr(out.Err)
	case "tarfs-names":
		names := strings.Split(string(data), "\x01")
		m := tarfs.New()
		res := []string{}
		for i, n := range names {
			h := &tar.Header{Name: n, Mode: 0o755, Typeflag: tar.TypeDir}
			if i%2 == 1 {
				h = &tar.Header{Name: n, Mode: 0o644, Typeflag: tar.TypeReg, Size: 1, PAXRecords: map[string]string{"APK-TOOLS.checksum.SHA1": "da39a3ee5e6b4b0d3255bfef95601890afd80709"}}
			}
			_, werr := m.WriteHeader(*h, nil, &apk.Package{Name: "p", Origin: "p"})
			res = append(res, okErr(werr))
		}
		// the walk must terminate and see finitely many entries
		count := 0
		err := fs.WalkDir(m, ".", func(p string, d fs.DirEntry, err error) error {
			count++
			if count > 100000 {
				return fmt.Errorf("walk does not terminate")
			}
			return nil
		})
		if err != nil && count > 100000 {
			return "hang: walk does not terminate"
		}
		return "ok " + strings.Join(res, ",")
	case "idb-names":
		names := strings.Split(string(data), "\x01")
		var hs []tar.Header
		for i, n := range names {
			if i%2 == 0 {
				hs = append(hs, tar.Header{Name: n, Mode: 0o755, Typeflag: tar.TypeDir})
			} else {
				hs = append(hs, tar.Header{Name: n, Mode: 0o644, Typeflag: tar.TypeReg, PAXRecords: map[string]string{"APK-TOOLS.checksum.SHA1": "da39a3ee5e6b4b0d3255bfef95601890afd80709"}})
			}
		}
		_, err := writeInstalled([]*apk.Package{{Name: "p", Version: "1", Arch: "x86_64"}}, [][]tar.Header{hs})
		return okErr(err)
	}
	return "unknown-reader"
}

// robustRootFS lets readReleaseData open "/etc/os-release" on an fstest.MapFS (which rejects rooted names)
type robustRootFS struct{ fs.FS }

func (r robustRootFS) Open(name string) (fs.File, error) {
	return r.FS.Open(strings.TrimPrefix(name, "/"))
}

var _ = gzip.BestSpeed

func ptrU32(v uint32) *uint32 { return &v }
