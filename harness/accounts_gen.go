package main

import (
	"archive/tar"
	"bytes"
	"compress/gzip"
	"encoding/json"
	"fmt"
	"io"
	"log/slog"
	"path"
	"sort"
	"strings"
)

// ---------------------------------------------------------------------------------------------
// generated trees (setup operations on a tarfs, reusing the op vocabulary of corr:fs)

func accountsWh(name string, mode int64, content, pkg string) fsOp {
	return fsOp{K: "wh", Hdr: &fsHdr{Typeflag: '0', Name: name, Mode: mode, Size: int64(len(content)), MTime: 1700000000,
		Sum: hx("sum-" + name), Content: content, Pkg: pkg, Origin: pkg}}
}

var accountsPermPool = []uint32{0o755, 0o755, 0o700, 0o644, 0o600, 0o777, 0o750, 0o555, 0, 0o4755, 0o2755, 0o1777, 0o4750, 0o6711}
var accountsIDPool = []uint32{0, 0, 1000, 1000, 65532, 4294967295, 2147483648, 10}

// accountsTree builds the pre-existing tree of a paths case and returns the interesting paths.
func accountsTree(r *Rng) (ops []fsOp, dirs, files, links, missing []string) {
	mk := func(p string, perm int) {
		ops = append(ops, fsOp{K: "mkdirall", P: p, N: perm})
		dirs = append(dirs, p)
	}
	mk("etc", 0o755)
	mk("usr/bin", 0o755)
	mk("srv/data/sub", Pick(r, []int{0o755, 0o750}))
	mk("opt", 0o755)
	deep := r.Chance(45)
	if deep {
		// a deep tree with links inside it (C13.recursive_subtree: every entry below a recursive root, to any depth)
		mk("srv/data/sub/deep/er/most", 0o755)
		ops = append(ops, fsOp{K: "writefile", P: "srv/data/sub/deep/er/leaf", D: "leaf", N: 0o640})
		ops = append(ops, accountsWh("srv/data/sub/deep/pkgleaf", 0o644, "pkg-leaf", "pb"))
	}
	ops = append(ops, accountsWh("usr/bin/tool", 0o755, "#!/bin/sh\n", "pa"))
	ops = append(ops, accountsWh("etc/conf", 0o644, "k=v\n", "pa"))
	ops = append(ops, accountsWh("srv/data/f1", 0o640, "data-one", "pb"))
	files = append(files, "usr/bin/tool", "etc/conf", "srv/data/f1")
	ops = append(ops, fsOp{K: "writefile", P: "srv/data/sub/f2", D: "mem", N: 0o600})
	files = append(files, "srv/data/sub/f2")
	if r.Chance(50) {
		ops = append(ops, accountsWh("srv/data/sub/empty", 0o644, "", "pb"))
		files = append(files, "srv/data/sub/empty")
	}
	sl := func(target, name string) {
		ops = append(ops, fsOp{K: "symlink", Q: target, P: name})
		links = append(links, name)
	}
	if r.Chance(80) {
		sl("srv/data", "lnk") // relative to the traversed prefix (the root)
	}
	if r.Chance(70) {
		sl("/srv/data", "alnk")
	}
	if r.Chance(70) {
		sl("etc/conf", "flnk")
	}
	if r.Chance(60) {
		sl("nowhere", "dang")
	}
	if r.Chance(60) {
		sl("/etc/conf", "srv/data/out") // inside a tree, pointing out of it
	}
	if r.Chance(40) {
		sl("f1", "srv/data/rel") // joined to the traversed prefix srv/data
	}
	if r.Chance(30) {
		sl("/opt", "srv/data/sub/dlink") // a directory link inside a tree
	}
	if deep && r.Chance(60) {
		sl("../../f2", "srv/data/sub/deep/er/uplink") // lexical dot-dot through the traversed prefix
	}
	if deep && r.Chance(60) {
		sl("/srv/data/sub/deep", "opt/deeplink") // a symlinked parent several levels above a deep tree
		missing = append(missing, "opt/deeplink/er/new/dir", "opt/deeplink/fresh")
	}
	if r.Chance(40) {
		ops = append(ops, fsOp{K: "link", Q: "etc/conf", P: "etc/conf.hl"})
		files = append(files, "etc/conf.hl")
	}
	if r.Chance(40) {
		ops = append(ops, fsOp{K: "chown", P: Pick(r, []string{"srv/data", "usr/bin/tool", "opt"}), O: 500, M: 500})
	}
	if r.Chance(30) {
		ops = append(ops, fsOp{K: "chmod", P: Pick(r, []string{"srv/data/f1", "opt", "etc/conf"}), N: Pick(r, []int{0o400, 0o711, 0o4755})})
	}
	missing = append(missing, "made", "made/a/b", "srv/data/new", "opt/x/y/z", "lnk/viarel", "alnk/sub/viaabs", "alnk/newdir/f", "etc/new.conf", "dang/x", "flnk/x", "usr/bin/tool/x")
	return
}

func accountsSpell(r *Rng, p string) string {
	switch k := r.Intn(100); {
	case k < 55:
		return "/" + p
	case k < 85:
		return p
	case k < 90:
		return "/" + p + "/"
	case k < 94:
		return "//" + strings.ReplaceAll(p, "/", "//")
	case k < 97:
		return "./" + p
	default:
		return "/" + path.Dir(p) + "/./" + path.Base(p)
	}
}

func accountsGenMut(r *Rng, dirs, files, links, missing []string) accountsMut {
	m := accountsMut{Perms: Pick(r, accountsPermPool), UID: Pick(r, accountsIDPool), GID: Pick(r, accountsIDPool)}
	if r.Chance(3) {
		m.Perms = Pick(r, []uint32{0o100644, 0o10755, 0o40755})
	}
	any := func(pools ...[]string) string {
		var all []string
		for _, p := range pools {
			all = append(all, p...)
		}
		return Pick(r, all)
	}
	switch k := r.Intn(100); {
	case k < 28:
		m.Type = "directory"
		m.Recursive = r.Chance(55)
		switch j := r.Intn(100); {
		case j < 45:
			m.Path = any(dirs, []string{"srv", "srv/data", "usr"})
		case j < 80:
			m.Path = any(missing)
		case j < 92:
			m.Path = any(links)
		default:
			m.Path = any(files)
		}
	case k < 46:
		m.Type = "empty-file"
		switch j := r.Intn(100); {
		case j < 45:
			m.Path = any(missing)
		case j < 80:
			m.Path = any(files)
		case j < 92:
			m.Path = any(links)
		default:
			m.Path = any(dirs)
		}
	case k < 62:
		m.Type = "symlink"
		m.Source = Pick(r, []string{"/usr/bin/tool", "/etc/conf", "/srv/data", "srv/data/f1", "/nowhere", "f1", "/opt", "tool"})
		switch j := r.Intn(100); {
		case j < 70:
			m.Path = any(missing, []string{"usr/bin/sh", "srv/data/sl", "opt/l"})
		case j < 85:
			m.Path = any(links)
		default:
			m.Path = any(files, dirs)
		}
	case k < 77:
		m.Type = "hardlink"
		m.Source = Pick(r, []string{"/usr/bin/tool", "/etc/conf", "srv/data/f1", "/srv/data/sub/f2", "/missing/src", "/flnk", "lnk/f1", "/dang"})
		switch j := r.Intn(100); {
		case j < 60:
			m.Path = any(missing, []string{"usr/bin/tool2", "srv/data/hl", "opt/h"})
		case j < 85:
			m.Path = any(files)
		default:
			m.Path = any(links)
		}
	case k < 98:
		m.Type = "permissions"
		switch j := r.Intn(100); {
		case j < 40:
			m.Path = any(files)
		case j < 65:
			m.Path = any(dirs)
		case j < 85:
			m.Path = any(links, []string{"lnk/f1", "alnk/sub/f2", "alnk/sub"})
		default:
			m.Path = any(missing)
		}
	default:
		m.Type = Pick(r, []string{"bogus", "", "Directory"})
		m.Path = any(files, missing)
	}
	if len(links) == 0 && m.Path == "" {
		m.Path = "made"
	}
	raw := m.Path
	m.Path = accountsSpell(r, raw)
	// a trailing slash says "directory" (POSIX): for the file-like kinds such a path is a contradictory
	// request (the code then makes the directory and puts the object inside it under its own name);
	// that spelling is kept for the directory and permissions kinds only
	if strings.HasSuffix(m.Path, "/") && m.Type != "directory" && m.Type != "permissions" {
		m.Path = "/" + raw
	}
	// tarfs.Link accepts directories: a hard link from inside a directory to that directory (or an ancestor,
	// possibly one that ensureParentDirectory is about to make) closes a cycle, and fs.WalkDir — the recursive
	// directory mutation and the layer writer alike — then never returns.  That is a hang (C15), not a C13
	// matter; such requests are not generated.
	if m.Type == "hardlink" && strings.HasPrefix(path.Clean("/"+raw)+"/", path.Clean("/"+m.Source)+"/") {
		m.Source = "/etc/conf"
	}
	return m
}

func accountsGenPaths(r *Rng, tier string) accountsCase {
	c := accountsCase{Kind: "paths"}
	ops, dirs, files, links, missing := accountsTree(r)
	if len(links) == 0 {
		ops = append(ops, fsOp{K: "symlink", Q: "srv/data", P: "lnk"})
		links = append(links, "lnk")
	}
	c.Setup = ops
	n := r.Range(1, 5)
	if tier == "thorough" {
		n = r.Range(1, 9)
	}
	for k := 0; k < n; k++ {
		c.Muts = append(c.Muts, accountsGenMut(r, dirs, files, links, missing))
	}
	// a declared list may repeat a mutation (A, B, A: re-own what was made in between); the list is applied as declared
	if len(c.Muts) >= 2 && r.Chance(25) {
		c.Muts = append(c.Muts, c.Muts[r.Intn(len(c.Muts)-1)])
	}
	c.IncMuts = r.Intn(len(c.Muts) + 1)
	return c
}

// ---------------------------------------------------------------------------------------------
// accounts

var accountsPasswdLines = []string{
	"root:x:0:0:root:/root:/bin/ash",
	"daemon:x:2:2:daemon:/sbin:/sbin/nologin",
	"nobody:x:65534:65534:nobody:/:/sbin/nologin",
	"www:x:82:82:www:/var/www:/sbin/nologin",
	"homeless:x:99:99::/dev/null:/sbin/nologin",
	"big:x:4294967295:4294967294:big ids:/srv/data:/bin/sh",
	"user0:x:500:500:collides:/home/olduser0:/bin/sh",
}

// shipped entries whose fields take edge values: an empty password field (password-less), `*` and `!` (locked), empty
// gecos / shell, a shell-less line.  mutateAccounts parses and rewrites the whole file: every such entry must come
// back exactly as it was shipped (accounts_append: old ++ configured).
var accountsPasswdEdgeLines = []string{
	"guest::405:100:guest:/dev/null:/sbin/nologin",
	"locked:*:406:406:locked:/dev/null:/sbin/nologin",
	"bang:!:407:407::/dev/null:",
	"nopw::408:408::/:/bin/sh",
	"star:*:409:0:,,,:/:/bin/false",
}

var accountsGroupEdgeLines = []string{
	"users::100:games",
	"lock:!:54:",
	"shadow:*:42:root,daemon",
	"nopass::101:",
}

var accountsGroupLines = []string{
	"root:x:0:root",
	"daemon:x:2:root,bin,daemon",
	"nogroup:x:65533:",
	"grp0:x:501:user0",
}

// accountsGenAlias: etc/group and etc/passwd are one node (a hard link, or a symbolic link from one name to the
// other).  The two goroutines of mutateAccounts then work on one file (C13.aliased_schedules_differ); what the real
// code does is observed and judged by the oracle alone.
func accountsGenAlias(r *Rng) accountsCase {
	c := accountsCase{Kind: "alias"}
	ops := []fsOp{{K: "mkdirall", P: "etc", N: 0o755}}
	content := ""
	if r.Chance(30) {
		content = "root:x:0:0:root:/root:/bin/ash\n"
	}
	first, second := "etc/passwd", "etc/group"
	if r.Bool() {
		first, second = second, first
	}
	ops = append(ops, fsOp{K: "writefile", P: first, D: content, N: 0o644})
	switch r.Intn(3) {
	case 0:
		ops = append(ops, fsOp{K: "link", Q: first, P: second})
	case 1:
		ops = append(ops, fsOp{K: "symlink", Q: path.Base(first), P: second}) // joined to the traversed prefix etc
	default:
		ops = append(ops, fsOp{K: "symlink", Q: "/" + first, P: second})
	}
	c.Setup = ops
	for k := 0; k < r.Range(1, 3); k++ {
		c.Users = append(c.Users, accountsUser{Name: fmt.Sprintf("al%d", k), UID: uint32(1000 + k), Home: Pick(r, []string{"/dev/null", "", "/home/shared"})})
	}
	for k := 0; k < r.Range(1, 2); k++ {
		c.Groups = append(c.Groups, accountsGroup{Name: fmt.Sprintf("ag%d", k), GID: uint32(2000 + k), Members: [][]string{nil, {"al0"}}[r.Intn(2)]})
	}
	return c
}

func accountsGenAccounts(r *Rng, tier string) accountsCase {
	if r.Chance(6) {
		return accountsGenAlias(r)
	}
	c := accountsCase{Kind: "accounts"}
	var ops []fsOp
	mk := func(p string, perm int) { ops = append(ops, fsOp{K: "mkdirall", P: p, N: perm}) }
	if !r.Chance(4) {
		mk("etc", 0o755)
	}
	mk("srv/data", 0o750)
	mk("sbin", 0o755)
	if r.Chance(50) {
		mk("root", 0o700)
	}
	if r.Chance(40) {
		mk("home", Pick(r, []int{0o755, 0o711}))
	}
	ops = append(ops, fsOp{K: "writefile", P: "srv/afile", D: "x", N: 0o644})
	ops = append(ops, fsOp{K: "symlink", Q: "/srv/data", P: "lnk"})
	ops = append(ops, fsOp{K: "symlink", Q: "nowhere", P: "dang"})
	// pre-existing passwd / group: shipped by a package, written in memory, or absent
	text := func(pool []string, bad string) string {
		var ls []string
		for _, l := range pool {
			if r.Chance(55) {
				ls = append(ls, l)
			}
		}
		s := strings.Join(ls, "\n")
		if len(ls) > 0 && !r.Chance(8) {
			s += "\n"
		}
		switch k := r.Intn(100); {
		case k < 3:
			s += bad + "\n"
		case k < 5:
			s += "\n"
		case k < 8 && len(ls) > 0:
			s = strings.Replace(s, "\n", " \n", 1)
		case k < 10 && len(ls) > 0:
			s = strings.Replace(s, "\n", "\r\n", 1)
		}
		return s
	}
	place := func(p, content string) {
		switch k := r.Intn(100); {
		case k < 50:
			ops = append(ops, accountsWh(p, 0o644, content, "baselayout"))
		case k < 80:
			ops = append(ops, fsOp{K: "writefile", P: p, D: content, N: 0o644})
		}
	}
	pwPool, grPool := accountsPasswdLines, accountsGroupLines
	if r.Chance(35) {
		pwPool = append(append([]string{}, pwPool...), accountsPasswdEdgeLines...)
		r.Shuffle(len(pwPool), func(i, j int) { pwPool[i], pwPool[j] = pwPool[j], pwPool[i] })
	}
	if r.Chance(35) {
		grPool = append(append([]string{}, grPool...), accountsGroupEdgeLines...)
		r.Shuffle(len(grPool), func(i, j int) { grPool[i], grPool[j] = grPool[j], grPool[i] })
	}
	place("etc/passwd", text(pwPool, "broken:x:notanumber:0::/:/bin/sh"))
	place("etc/group", text(grPool, "broken:x:0"))
	c.Setup = ops

	nu := r.Intn(4)
	if tier == "thorough" {
		nu = r.Intn(6)
	}
	if r.Chance(7) {
		nu = r.Range(8, 14) // a large account list
	}
	names := []string{"user0", "user1", "app", "nobody", "root", "svc-x", "u_2"}
	homes := []string{"", "", "/home/app", "/var/lib/app/deep/er", "/dev/null", "/srv/data", "/srv/afile", "/lnk", "/lnk/home1", "/dang", "/dang/x",
		"/home/shared", "/home/shared", "/home/shared/inner", "/home", "relhome", "/", "/opt/h/", "/home/a/./b"}
	for k := 0; k < nu; k++ {
		u := accountsUser{Name: Pick(r, names), UID: Pick(r, []uint32{1000, 1001, 65532, 10, 4294967295, 2147483648, 1})}
		if r.Chance(50) {
			g := Pick(r, []uint32{u.UID, 0, 4294967295, 100})
			u.GID = &g
		}
		if r.Chance(45) {
			u.Shell = Pick(r, []string{"/bin/sh", "/sbin/nologin", "/bin/bash"})
		}
		u.Home = Pick(r, homes)
		c.Users = append(c.Users, u)
	}
	ng := r.Intn(3)
	for k := 0; k < ng; k++ {
		g := accountsGroup{Name: Pick(r, []string{"grp0", "grp1", "root", "wheel"}), GID: Pick(r, []uint32{1000, 0, 4294967295, 501})}
		g.Members = [][]string{nil, {"user0"}, {"user0", "app"}, {"root", "user1", "svc-x"}}[r.Intn(4)]
		c.Groups = append(c.Groups, g)
	}
	if r.Chance(70) {
		c.RunAs = Pick(r, append([]string{"root", "nobody", "1000", "ghost", "65532", "big", "homeless"}, names...))
	}
	return c
}

// ---------------------------------------------------------------------------------------------
// end to end

func accountsGenE2E(r *Rng) accountsCase {
	c := accountsCase{Kind: "e2e"}
	base := SPkg{Name: "base", Version: "1.0-r0", Origin: "base"}
	add := func(f SFile) { base.Files = append(base.Files, f) }
	dir := func(p string) { add(SFile{Path: p, Type: "dir", Mode: 0o755}) }
	file := func(p string, mode int64, content string) { add(SFile{Path: p, Type: "file", Mode: mode, Content: content}) }
	dir("etc")
	file("etc/os-release", 0o644, "ID=synth\nVERSION_ID=1\n")
	if r.Chance(80) {
		var ls []string
		for _, l := range accountsPasswdLines[:5] {
			if r.Chance(60) {
				ls = append(ls, l)
			}
		}
		if r.Chance(30) {
			ls = append(ls, accountsPasswdLines[6])
		}
		if r.Chance(35) {
			for _, l := range accountsPasswdEdgeLines {
				if r.Chance(50) {
					ls = append(ls, l)
				}
			}
		}
		// the last line of a shipped account file need not end in a newline
		nl := "\n"
		if r.Chance(35) {
			nl = ""
		}
		file("etc/passwd", 0o644, strings.Join(ls, "\n")+nl)
	}
	if r.Chance(70) {
		nl := "\n"
		if r.Chance(35) {
			nl = ""
		}
		gl := append([]string{}, accountsGroupLines[:r.Range(1, 4)]...)
		if r.Chance(35) {
			for _, l := range accountsGroupEdgeLines {
				if r.Chance(50) {
					gl = append(gl, l)
				}
			}
		}
		file("etc/group", 0o644, strings.Join(gl, "\n")+nl)
	}
	dir("usr")
	dir("usr/bin")
	file("usr/bin/tool", 0o755, "#!/bin/sh\n")
	file("usr/bin/pkgfile", 0o644, "shipped non-empty\n")
	dir("opt")
	file("opt/t1", 0o644, "t1\n")
	file("opt/t2", 0o644, "t2\n")
	dir("srv")
	dir("srv/tree")
	file("srv/tree/a", 0o644, "a\n")
	dir("srv/tree/b")
	file("srv/tree/b/c", 0o600, "c\n")
	withLink := r.Chance(50)
	if withLink {
		add(SFile{Path: "srv/tree/lnk", Type: "symlink", Mode: 0o777, Link: "a"})
	}
	dir("sbin")
	if r.Chance(50) {
		dir("root")
	}
	c.Pkgs = []SPkg{base}

	nu := r.Intn(4)
	for k := 0; k < nu; k++ {
		u := accountsUser{Name: Pick(r, []string{fmt.Sprintf("user%d", k), "nobody", "app"}), UID: Pick(r, []uint32{1000, 1001, 65532, 4294967295, 7}) + uint32(0)}
		if r.Chance(50) {
			g := Pick(r, []uint32{u.UID, 100, 4294967295, 0, 0}) // an explicit gid 0 is a gid
			u.GID = &g
		}
		if r.Chance(40) {
			u.Shell = Pick(r, []string{"/bin/sh", "/sbin/nologin"})
		}
		u.Home = Pick(r, []string{"", "", fmt.Sprintf("/var/lib/u%d/deep", k), "/dev/null", "/srv/tree", "/home/shared", "/opt"})
		c.Users = append(c.Users, u)
	}
	ng := r.Intn(3)
	for k := 0; k < ng; k++ {
		c.Groups = append(c.Groups, accountsGroup{Name: Pick(r, []string{fmt.Sprintf("grp%d", k), "root"}), GID: Pick(r, []uint32{1000, 4294967295, 501}),
			Members: [][]string{nil, {"user0"}, {"user0", "app"}}[r.Intn(3)]})
	}
	if r.Chance(75) {
		c.RunAs = Pick(r, []string{"user0", "user1", "nobody", "root", "1000", "ghost", "app", "65532"})
	}
	// path mutations on pairwise unrelated targets
	kinds := []string{"newdir", "tree", "empty-new", "empty-pkg", "symlink", "hardlink", "perm-file", "perm-dir"}
	r.Shuffle(len(kinds), func(i, j int) { kinds[i], kinds[j] = kinds[j], kinds[i] })
	nm := r.Intn(5)
	for _, k := range kinds[:nm] {
		m := accountsMut{Perms: Pick(r, []uint32{0o755, 0o700, 0o750, 0o644, 0o4755, 0o1777, 0o2750}), UID: Pick(r, []uint32{0, 1000, 65532, 4294967295}), GID: Pick(r, []uint32{0, 1000, 4294967295})}
		switch k {
		case "newdir":
			m.Type, m.Path, m.Recursive = "directory", Pick(r, []string{"/made/dir", "/made/dir/sub/", "made/rel"}), r.Bool()
		case "tree":
			m.Type, m.Path, m.Recursive = "directory", "/srv/tree", true
		case "empty-new":
			m.Type, m.Path = "empty-file", Pick(r, []string{"/made2/empty", "/etc/empty.conf"})
		case "empty-pkg":
			m.Type, m.Path = "empty-file", "/usr/bin/pkgfile"
		case "symlink":
			m.Type, m.Path, m.Source = "symlink", Pick(r, []string{"/usr/bin/sl", "/made3/sl"}), "/opt/t1"
		case "hardlink":
			m.Type, m.Path, m.Source = "hardlink", Pick(r, []string{"/usr/bin/hl", "/made4/hl"}), "/opt/t2"
		case "perm-file":
			m.Type, m.Path = "permissions", "/usr/bin/tool"
		case "perm-dir":
			m.Type, m.Path = "permissions", "/sbin"
		}
		c.Muts = append(c.Muts, m)
	}
	c.Include = r.Chance(30)
	// REPEATED declarations: an interfering sequence A, B, A (the same mutation again after one that touches what it
	// set), accounts listed twice.  Every build passes the lists through ImageConfiguration.MergeInto (the copy per
	// architecture, the include): what arrives must be the declared list, and the layer the fold of all of it.
	if r.Chance(45) {
		c.Muts, c.Repeat = accountsGenRepeat(r)
		c.Include = r.Chance(50)
	}
	if c.Include {
		c.IncMuts = r.Intn(len(c.Muts) + 1)
		if c.Repeat != "" && r.Chance(50) {
			c.IncMuts = 1 + r.Intn(len(c.Muts)-1) // the first declaration in the included file, the repetition in the including one
		}
	}
	if len(c.Users) > 0 && r.Chance(15) {
		c.Users = append(c.Users, c.Users[0])
	}
	if len(c.Groups) > 0 && r.Chance(15) {
		c.Groups = append(c.Groups, c.Groups[0])
	}
	return c
}

// accountsGenRepeat: a path list A, B, A over the tree the base package ships: B changes something A set, the second A
// sets it again.  Optionally an unrelated mutation in front, in the middle or at the end.
func accountsGenRepeat(r *Rng) ([]accountsMut, string) {
	perms := []uint32{0o755, 0o700, 0o750, 0o644, 0o600, 0o4755, 0o1777, 0o2750}
	uids := []uint32{0, 1000, 65532, 4294967295}
	gids := []uint32{0, 1000, 4294967295}
	mk := func(typ, p string) accountsMut {
		return accountsMut{Type: typ, Path: p, Perms: Pick(r, perms), UID: Pick(r, uids), GID: Pick(r, gids)}
	}
	// b gets attributes that differ from a's in permissions and in owner
	differ := func(a accountsMut, b *accountsMut) {
		for b.Perms == a.Perms {
			b.Perms = Pick(r, perms)
		}
		for b.UID == a.UID {
			b.UID = Pick(r, uids)
		}
	}
	var a, b accountsMut
	kind := Pick(r, []string{"rec-child-rec", "rec-child-rec", "perm-flip", "perm-flip", "newdir-fill-rec", "empty-repeat", "hardlink-repeat", "symlink-repeat"})
	switch kind {
	case "rec-child-rec":
		a = mk("directory", Pick(r, []string{"/srv/tree", "/srv/tree/", "srv/tree", "/srv"}))
		a.Recursive = true
		switch r.Intn(4) {
		case 0:
			b = mk("permissions", "/srv/tree/a")
		case 1:
			b = mk("permissions", "/srv/tree/b/c")
		case 2:
			b = mk("directory", "/srv/tree/b")
			b.Recursive = r.Bool()
		default:
			b = mk("empty-file", "/srv/tree/b/new")
		}
	case "perm-flip":
		p := Pick(r, []string{"/usr/bin/tool", "/sbin", "/opt/t1", "/srv/tree/b/c"})
		a, b = mk("permissions", p), mk("permissions", p)
	case "newdir-fill-rec":
		a = mk("directory", "/made/dir")
		a.Recursive = true
		if r.Bool() {
			b = mk("empty-file", "/made/dir/f")
		} else {
			b = mk("directory", "/made/dir/sub/deeper")
		}
	case "empty-repeat":
		p := Pick(r, []string{"/made2/empty", "/etc/empty.conf"})
		a, b = mk("empty-file", p), mk("permissions", p)
	case "hardlink-repeat":
		a = mk("hardlink", Pick(r, []string{"/usr/bin/hl", "/made4/hl"}))
		a.Source = "/opt/t2"
		b = mk("permissions", Pick(r, []string{"/opt/t2", a.Path})) // one inode under both names
	case "symlink-repeat":
		a = mk("symlink", Pick(r, []string{"/usr/bin/sl", "/made3/sl"}))
		a.Source = "/opt/t1"
		b = mk("permissions", "/opt/t1")
	}
	differ(a, &b)
	other := func() accountsMut {
		if r.Bool() {
			return mk("permissions", "/opt/t2")
		}
		return mk("directory", "/made9/other")
	}
	var ms []accountsMut
	if r.Chance(25) {
		ms = append(ms, other())
	}
	ms = append(ms, a, b)
	if r.Chance(25) && kind != "hardlink-repeat" {
		ms = append(ms, mk("directory", "/made8/between"))
	}
	ms = append(ms, a)
	if r.Chance(25) {
		ms = append(ms, mk("directory", "/made7/after"))
	}
	return ms, kind
}

// accountsE2ESetup: what the packages of an end-to-end case ship, as setup operations on a tarfs (the vocabulary of the
// paths cases): the tree mutatePaths starts from in the build, as far as the path mutations can see it.
func accountsE2ESetup(pkgs []SPkg) []fsOp {
	var ops []fsOp
	for _, p := range pkgs {
		for _, f := range p.Files {
			switch f.Type {
			case "dir":
				ops = append(ops, fsOp{K: "mkdirall", P: f.Path, N: int(f.Mode)})
			case "file":
				ops = append(ops, accountsWh(f.Path, f.Mode, f.Content, p.Name))
			case "symlink":
				ops = append(ops, fsOp{K: "symlink", Q: f.Link, P: f.Path})
			}
		}
	}
	return ops
}

type accountsLayout struct {
	Manifests []struct {
		Digest string `json:"digest"`
	} `json:"manifests"`
}

type accountsManifest struct {
	Config struct {
		Digest string `json:"digest"`
	} `json:"config"`
	Layers []struct {
		Digest string `json:"digest"`
	} `json:"layers"`
}

func accountsBlob(files map[string][]byte, digest string) []byte {
	return files["layout/blobs/sha256/"+strings.TrimPrefix(digest, "sha256:")]
}

func accountsRunE2E(c accountsCase) []Step {
	slog.SetDefault(slog.New(slog.NewTextHandler(io.Discard, nil))) // the build logs through the default logger
	repo := BuildSynthRepo(c.Pkgs, []string{"x86_64"})
	ic := accountsIC(c)
	ic.Contents.Packages = []string{c.Pkgs[0].Name}
	var out E2EOut
	if c.Include {
		out = accountsGlueBuildIncluded(ic, repo, c.IncMuts)
	} else {
		out = e2eBuild(ic, repo, E2EOpts{Archs: []string{"x86_64"}})
	}
	toks := accountsTokens(c)
	var descs []string
	for _, m := range c.Muts {
		toks = append(toks, "m,"+m.token())
		descs = append(descs, m.desc())
	}
	tags := map[string]struct{}{"kind:e2e": {}}
	if c.Include {
		tags["e2e:via-include"] = struct{}{}
	}
	for _, u := range c.Users {
		if u.GID != nil && *u.GID == 0 {
			tags["e2e:user-gid-0"] = struct{}{}
		}
	}
	for _, m := range c.Muts {
		tags["e2e:mut:"+m.Type] = struct{}{}
	}
	var ud []string
	for _, u := range c.Users {
		g := "-"
		if u.GID != nil {
			g = fmt.Sprint(*u.GID)
		}
		ud = append(ud, fmt.Sprintf("%s uid=%d gid=%s home=%q", u.Name, u.UID, g, u.Home))
	}
	desc := fmt.Sprintf("apko build: users [%s], %d groups, run-as=%q, accounts-in-included-file=%v, paths[%s]", strings.Join(ud, "; "), len(c.Groups), c.RunAs, c.Include, strings.Join(descs, "; "))
	if out.Err != nil {
		// a failed build promises nothing; it is recorded so that the histogram shows how often it happens
		tags["e2e:build-failed"] = struct{}{}
		return []Step{{Line: "acc.e2e\tacc\tfailed", Go: "-", Desc: desc + " => build failed: " + firstLine(out.Err.Error()), Tags: accountsTags(tags), Mode: "verdict", NoImpl: true, Trivial: true}}
	}
	var idx accountsLayout
	var man accountsManifest
	var cfg struct {
		Config struct {
			User string `json:"User"`
		} `json:"config"`
	}
	if err := json.Unmarshal(out.Files["layout/index.json"], &idx); err != nil || len(idx.Manifests) == 0 {
		panic(fmt.Sprintf("accounts e2e: no index.json: %v", err))
	}
	if err := json.Unmarshal(accountsBlob(out.Files, idx.Manifests[0].Digest), &man); err != nil || len(man.Layers) != 1 {
		panic(fmt.Sprintf("accounts e2e: manifest: %v layers=%d", err, len(man.Layers)))
	}
	if err := json.Unmarshal(accountsBlob(out.Files, man.Config.Digest), &cfg); err != nil {
		panic(fmt.Sprintf("accounts e2e: config: %v", err))
	}
	zr, err := gzip.NewReader(bytes.NewReader(accountsBlob(out.Files, man.Layers[0].Digest)))
	if err != nil {
		panic(fmt.Sprintf("accounts e2e: layer: %v", err))
	}
	tr := tar.NewReader(zr)
	passwdText, groupText := "", ""
	apkoJSON := []byte(nil)
	for {
		h, err := tr.Next()
		if err == io.EOF {
			break
		}
		if err != nil {
			panic(fmt.Sprintf("accounts e2e: layer tar: %v", err))
		}
		name := strings.TrimSuffix(h.Name, "/")
		body, _ := io.ReadAll(tr)
		if name == "etc/passwd" {
			passwdText = string(body)
		}
		if name == "etc/group" {
			groupText = string(body)
		}
		if name == "etc/apko.json" {
			apkoJSON = body
		}
		// the observation is restricted to what the demands look at (keeps the line short)
		keep := strings.HasPrefix(name, "made") || strings.HasPrefix(name, "srv") || strings.HasPrefix(name, "usr") || strings.HasPrefix(name, "opt") ||
			strings.HasPrefix(name, "home") || strings.HasPrefix(name, "var/lib") || strings.HasPrefix(name, "etc/empty") || name == "sbin" || name == "root" || name == "etc"
		if keep {
			toks = append(toks, fmt.Sprintf("e,%s,%d,%d,%d,%d,%d,%s", hx(name), h.Typeflag, h.Mode, h.Uid, h.Gid, h.Size, hx(h.Linkname)))
		}
	}
	opw, ogr := "", ""
	var shipped []string
	for _, p := range c.Pkgs {
		for _, f := range p.Files {
			tf := map[string]int{"file": '0', "dir": '5', "symlink": '2', "hardlink": '1'}[f.Type]
			ne := 0
			if f.Content != "" {
				ne = 1
			}
			shipped = append(shipped, fmt.Sprintf("pre,%s,%d,%d", hx(f.Path), tf, ne))
			if f.Path == "etc/passwd" {
				opw = f.Content
			}
			if f.Path == "etc/group" {
				ogr = f.Content
			}
		}
	}
	sort.Strings(shipped)
	toks = append(toks, shipped...)
	if ra, ok := accountsGlueApkoJSONRunAs(apkoJSON); ok {
		toks = append(toks, "aj,"+hx(ra))
	} else {
		toks = append(toks, "ajbad,")
	}
	if opw != "" && !strings.HasSuffix(opw, "\n") {
		tags["e2e:shipped-passwd-no-final-newline"] = struct{}{}
	}
	if accountsEdgeFields(opw) || accountsEdgeFields(ogr) {
		tags["e2e:shipped-edge-fields"] = struct{}{}
	}
	if ogr != "" && !strings.HasSuffix(ogr, "\n") {
		tags["e2e:shipped-group-no-final-newline"] = struct{}{}
	}
	desc += fmt.Sprintf("; shipped passwd %q, shipped group %q", truncStr(opw, 200), truncStr(ogr, 120))
	toks = append(toks, "cu,"+hx(cfg.Config.User), "pw,"+hx(passwdText), "gr,"+hx(groupText), "opw,"+hx(opw), "ogr,"+hx(ogr))
	tags["e2e:built"] = struct{}{}
	obs := strings.Join(toks, "\t")
	steps := []Step{{
		Line:   "acc.e2e\tacc\t" + obs,
		Go:     "-",
		Desc:   desc + fmt.Sprintf(" => config.User=%q [accounts]", cfg.Config.User),
		Tags:   accountsTags(tags),
		Mode:   "verdict",
		NoImpl: true,
	}}
	// the layer against the FOLD of the whole declared list (Lean: mutatePaths over buildPaths included own, from the
	// tree the packages ship)
	foldTags := []string{"e2e:fold", fmt.Sprintf("e2e:fold:len:%d", len(c.Muts))}
	if c.Repeat != "" {
		foldTags = append(foldTags, "e2e:fold:repeat:"+c.Repeat)
		if c.Include {
			foldTags = append(foldTags, "e2e:fold:repeat-via-include")
		}
	}
	steps = append(steps, Step{
		Line:    fmt.Sprintf("acc.fold\t%s\t%d\t%s", accountsWorld(accountsE2ESetup(c.Pkgs)).dump(), c.IncMuts, obs),
		Go:      "-",
		Desc:    desc + fmt.Sprintf(" [layer = fold of the declared path list; the first %d declared in the included file]", c.IncMuts),
		Tags:    foldTags,
		Mode:    "verdict",
		NoImpl:  true,
		Trivial: len(c.Muts) == 0,
	})
	steps = append(steps, accountsMergeSteps(c)...)
	for k, m := range c.Muts {
		if c.Repeat != "" {
			break // the demands of one mutation hold right after it, not after the ones that follow on the same objects
		}
		steps = append(steps, Step{
			Line:   fmt.Sprintf("acc.e2e\t%d\t%s", k, obs),
			Go:     "-",
			Desc:   desc + " [layer entry of " + m.desc() + "]",
			Tags:   []string{"e2e:layer:" + m.Type},
			Mode:   "verdict",
			NoImpl: true,
		})
	}
	return steps
}

func (accountsSuite) Gen(r *Rng, i int, tier string) any {
	switch k := i % 10; {
	case k < 5:
		return accountsGenPaths(r, tier)
	case k < 8:
		return accountsGenAccounts(r, tier)
	default:
		return accountsGenE2E(r)
	}
}
