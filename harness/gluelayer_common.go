package main

// Shared by the end-to-end ("glue") parts of C06 / C10 / C11 / C12 / C13: an independent reader of what a whole
// `apko build` / `apko publish` emitted.  Nothing here goes through go-containerregistry or apko: the OCI layout
// (or a registry) is reduced to "digest -> bytes"; every descriptor is re-hashed, every layer is gunzipped and
// re-hashed against the config's diff-id, every image is flattened with archive/tar.

import (
	"archive/tar"
	"bytes"
	"compress/gzip"
	"crypto/sha256"
	"encoding/hex"
	"encoding/json"
	"fmt"
	"io"
	"os"
	"path"
	"sort"
	"strconv"
	"strings"
)

type gluelayerPlatform struct {
	Architecture string `json:"architecture"`
	OS           string `json:"os"`
	Variant      string `json:"variant,omitempty"`
}

type gluelayerDesc struct {
	MediaType   string             `json:"mediaType"`
	Digest      string             `json:"digest"`
	Size        int64              `json:"size"`
	Platform    *gluelayerPlatform `json:"platform,omitempty"`
	Annotations map[string]string  `json:"annotations,omitempty"`
}

type gluelayerIndex struct {
	MediaType   string            `json:"mediaType"`
	Manifests   []gluelayerDesc   `json:"manifests"`
	Annotations map[string]string `json:"annotations,omitempty"`
}

type gluelayerManifest struct {
	MediaType   string            `json:"mediaType"`
	Config      gluelayerDesc     `json:"config"`
	Layers      []gluelayerDesc   `json:"layers"`
	Annotations map[string]string `json:"annotations,omitempty"`
}

type gluelayerEntry struct {
	Type  byte
	Mode  int64
	UID   int
	GID   int
	Uname string
	Gname string
	Link  string
	MTime int64
	Body  []byte
	Layer int // index of the layer that wrote the entry last
}

// gluelayerImage is one image of an index, as the bytes say.
type gluelayerImage struct {
	Plat      string // amd64, arm/v7, ...
	Desc      gluelayerDesc
	Man       gluelayerManifest
	RawConfig []byte
	Cfg       ociRawConfig
	Blobs     [][]byte // compressed layers, in manifest order
	Problems  []string // byte-level disagreements between what is advertised and what is there
}

// apk's architecture names and the OCI platform (architecture[/variant]) each must be published under.  Written out
// here, not taken from pkg/build/types (that table is what C12 proves things about; this one is the demand).
var gluelayerPlatOf = map[string]string{
	"x86_64": "amd64", "aarch64": "arm64", "armv7": "arm/v7", "armhf": "arm/v6", "riscv64": "riscv64",
	"ppc64le": "ppc64le", "s390x": "s390x", "x86": "386", "loongarch64": "loong64",
}

func gluelayerSha(b []byte) string {
	s := sha256.Sum256(b)
	return "sha256:" + hex.EncodeToString(s[:])
}

// gluelayerLayoutBlob: blobs of an OCI layout directory collected by e2eBuild (Files["layout/..."]).
func gluelayerLayoutBlob(files map[string][]byte) func(string) ([]byte, bool) {
	return func(digest string) ([]byte, bool) {
		alg, hx, ok := strings.Cut(digest, ":")
		if !ok {
			return nil, false
		}
		b, ok := files["layout/blobs/"+alg+"/"+hx]
		return b, ok
	}
}

func gluelayerGunzip(b []byte) ([]byte, error) {
	zr, err := gzip.NewReader(bytes.NewReader(b))
	if err != nil {
		return nil, err
	}
	zr.Multistream(false) // one member: bytes behind it are not part of the layer a reader would accept silently
	out, err := io.ReadAll(zr)
	if err != nil {
		return nil, err
	}
	return out, nil
}

// gluelayerCheckDesc: the blob a descriptor names is there, has the advertised length and hashes to the advertised digest.
func gluelayerCheckDesc(what string, d gluelayerDesc, get func(string) ([]byte, bool)) ([]byte, []string) {
	b, ok := get(d.Digest)
	if !ok {
		return nil, []string{fmt.Sprintf("%s %s: blob missing", what, d.Digest)}
	}
	var probs []string
	if int64(len(b)) != d.Size {
		probs = append(probs, fmt.Sprintf("%s %s: descriptor says %d bytes, the blob has %d", what, d.Digest, d.Size, len(b)))
	}
	if got := gluelayerSha(b); got != d.Digest {
		probs = append(probs, fmt.Sprintf("%s: descriptor digest %s, the blob hashes to %s", what, d.Digest, got))
	}
	return b, probs
}

// gluelayerReadIndex reads every image an index lists.  Problems of the index itself are returned separately.
func gluelayerReadIndex(indexBytes []byte, get func(string) ([]byte, bool)) ([]*gluelayerImage, []string) {
	var idx gluelayerIndex
	if err := json.Unmarshal(indexBytes, &idx); err != nil {
		return nil, []string{"index unreadable: " + err.Error()}
	}
	var probs []string
	var imgs []*gluelayerImage
	for _, d := range idx.Manifests {
		if d.Platform == nil {
			probs = append(probs, "index entry "+d.Digest+" without platform")
			continue
		}
		im := &gluelayerImage{Desc: d, Plat: d.Platform.Architecture}
		if d.Platform.Variant != "" {
			im.Plat += "/" + d.Platform.Variant
		}
		if d.Platform.OS != "linux" {
			im.Problems = append(im.Problems, "platform os "+d.Platform.OS)
		}
		imgs = append(imgs, im)
		mb, p := gluelayerCheckDesc("manifest of "+im.Plat, d, get)
		im.Problems = append(im.Problems, p...)
		if mb == nil {
			continue
		}
		if err := json.Unmarshal(mb, &im.Man); err != nil {
			im.Problems = append(im.Problems, "manifest of "+im.Plat+" unreadable: "+err.Error())
			continue
		}
		cb, p := gluelayerCheckDesc("config of "+im.Plat, im.Man.Config, get)
		im.Problems = append(im.Problems, p...)
		if cb != nil {
			im.RawConfig = cb
			if err := json.Unmarshal(cb, &im.Cfg); err != nil {
				im.Problems = append(im.Problems, "config of "+im.Plat+" unreadable: "+err.Error())
			}
		}
		if cb != nil && len(im.Cfg.RootFS.DiffIDs) != len(im.Man.Layers) {
			im.Problems = append(im.Problems, fmt.Sprintf("%s: %d layers in the manifest, %d diff-ids in the config", im.Plat, len(im.Man.Layers), len(im.Cfg.RootFS.DiffIDs)))
		}
		for i, l := range im.Man.Layers {
			lb, p := gluelayerCheckDesc(fmt.Sprintf("layer %d of %s", i, im.Plat), l, get)
			im.Problems = append(im.Problems, p...)
			im.Blobs = append(im.Blobs, lb)
			if lb == nil {
				continue
			}
			raw, err := gluelayerGunzip(lb)
			if err != nil {
				im.Problems = append(im.Problems, fmt.Sprintf("layer %d of %s is not one gzip stream: %v", i, im.Plat, err))
				continue
			}
			if i < len(im.Cfg.RootFS.DiffIDs) {
				if got := gluelayerSha(raw); got != im.Cfg.RootFS.DiffIDs[i] {
					probs := fmt.Sprintf("layer %d of %s: config diff-id %s, the uncompressed blob hashes to %s", i, im.Plat, im.Cfg.RootFS.DiffIDs[i], got)
					im.Problems = append(im.Problems, probs)
				}
			}
		}
		if cb != nil {
			cp := im.Cfg.Architecture
			if im.Cfg.Variant != "" {
				cp += "/" + im.Cfg.Variant
			}
			if cp != im.Plat {
				im.Problems = append(im.Problems, fmt.Sprintf("index lists the image as %s, its config says %s", im.Plat, cp))
			}
			if im.Cfg.OS != "linux" {
				im.Problems = append(im.Problems, "config os "+im.Cfg.OS)
			}
		}
	}
	return imgs, probs
}

// gluelayerUntar applies one (compressed) layer on top of fs.
func gluelayerUntar(blob []byte, layer int, fs map[string]*gluelayerEntry) error {
	zr, err := gzip.NewReader(bytes.NewReader(blob))
	if err != nil {
		return err
	}
	tr := tar.NewReader(zr)
	for {
		h, err := tr.Next()
		if err == io.EOF {
			return nil
		}
		if err != nil {
			return err
		}
		name := path.Clean("/" + h.Name)[1:]
		if name == "" {
			continue
		}
		body, err := io.ReadAll(tr)
		if err != nil {
			return err
		}
		fs[name] = &gluelayerEntry{Type: h.Typeflag, Mode: h.Mode, UID: h.Uid, GID: h.Gid, Uname: h.Uname, Gname: h.Gname, Link: h.Linkname,
			MTime: h.ModTime.Unix(), Body: body, Layer: layer}
	}
}

// gluelayerFlatten extracts the layers of an image in order (apko writes no whiteouts).
func gluelayerFlatten(im *gluelayerImage) (map[string]*gluelayerEntry, error) {
	fs := map[string]*gluelayerEntry{}
	for i, b := range im.Blobs {
		if b == nil {
			return nil, fmt.Errorf("layer %d missing", i)
		}
		if err := gluelayerUntar(b, i, fs); err != nil {
			return nil, fmt.Errorf("layer %d: %w", i, err)
		}
	}
	return fs, nil
}

func gluelayerFile(fs map[string]*gluelayerEntry, name string) (string, bool) {
	e, ok := fs[name]
	if !ok || e.Type != tar.TypeReg {
		return "", false
	}
	return string(e.Body), true
}

// gluelayerCheckArchs: exactly one image per requested (apk) architecture under the platform that architecture has,
// and the file system inside is the one built for that architecture (/etc/apk/arch).
func gluelayerCheckArchs(imgs []*gluelayerImage, archs []string) []string {
	var probs []string
	seen := map[string]int{}
	for _, im := range imgs {
		seen[im.Plat]++
	}
	for _, a := range archs {
		p := gluelayerPlatOf[a]
		switch seen[p] {
		case 1:
		case 0:
			probs = append(probs, fmt.Sprintf("no image for %s (%s) in the index", a, p))
		default:
			probs = append(probs, fmt.Sprintf("%d images for %s (%s) in the index", seen[p], a, p))
		}
	}
	if len(imgs) != len(archs) {
		probs = append(probs, fmt.Sprintf("%d images in the index for %d requested architectures", len(imgs), len(archs)))
	}
	for _, im := range imgs {
		want := ""
		for _, a := range archs {
			if gluelayerPlatOf[a] == im.Plat {
				want = a
			}
		}
		if want == "" || len(im.Blobs) == 0 {
			continue
		}
		fs, err := gluelayerFlatten(im)
		if err != nil {
			probs = append(probs, fmt.Sprintf("image %s cannot be extracted: %v", im.Plat, err))
			continue
		}
		got, ok := gluelayerFile(fs, "etc/apk/arch")
		if !ok || strings.TrimSpace(got) != want {
			probs = append(probs, fmt.Sprintf("the image published as %s holds the file system of architecture %q (etc/apk/arch), wanted %q", im.Plat, strings.TrimSpace(got), want))
		}
	}
	return probs
}

func gluelayerImageOf(imgs []*gluelayerImage, apkArch string) *gluelayerImage {
	for _, im := range imgs {
		if im.Plat == gluelayerPlatOf[apkArch] {
			return im
		}
	}
	return nil
}

func gluelayerAllProblems(imgs []*gluelayerImage, idxProbs []string) []string {
	out := append([]string(nil), idxProbs...)
	for _, im := range imgs {
		out = append(out, im.Problems...)
	}
	return out
}

// ---- account files, read independently of pkg/passwd ----

type gluelayerUser struct {
	Name string
	UID  string
	GID  string
	Home string
}

// gluelayerPasswd: name and ids of every line of a passwd text (no validation: what a reader that splits on ':' sees).
func gluelayerPasswd(text string) []gluelayerUser {
	var out []gluelayerUser
	for _, l := range strings.Split(text, "\n") {
		l = strings.TrimSpace(l)
		if l == "" {
			continue
		}
		f := strings.Split(l, ":")
		if len(f) < 7 {
			continue
		}
		out = append(out, gluelayerUser{Name: f[0], UID: f[2], GID: f[3], Home: f[5]})
	}
	return out
}

// ---- installed database, read independently of pkg/apk ----

type gluelayerIPkg struct {
	Name, Version, Origin string
	Size                  uint64
	Replaces              []string
	Files                 []string // non-directory paths (F:/R: records)
	Dirs                  []string
}

func gluelayerInstalled(db string) []gluelayerIPkg {
	var out []gluelayerIPkg
	var cur *gluelayerIPkg
	dir := ""
	flush := func() {
		if cur != nil && cur.Name != "" {
			out = append(out, *cur)
		}
		cur, dir = nil, ""
	}
	for _, line := range strings.Split(db, "\n") {
		if line == "" {
			flush()
			continue
		}
		if len(line) < 2 || line[1] != ':' {
			continue
		}
		if cur == nil {
			cur = &gluelayerIPkg{}
		}
		v := line[2:]
		switch line[0] {
		case 'P':
			cur.Name = v
		case 'V':
			cur.Version = v
		case 'o':
			cur.Origin = v
		case 'I':
			cur.Size, _ = strconv.ParseUint(v, 10, 64)
		case 'r':
			cur.Replaces = strings.Fields(v)
		case 'F':
			dir = v
			cur.Dirs = append(cur.Dirs, v)
		case 'R':
			p := v
			if dir != "" {
				p = dir + "/" + v
			}
			cur.Files = append(cur.Files, p)
		}
	}
	flush()
	return out
}

// ---- process environment: the package cache is on unless neither a cache directory nor a home is known ----

// gluelayerWithoutUserCache runs f with HOME and XDG_CACHE_HOME unset, so that os.UserCacheDir() fails and build.New
// configures no package cache (a bare CI container).  Suites run their cases one at a time.
func gluelayerWithoutUserCache(f func()) {
	saved := map[string]*string{}
	for _, k := range []string{"HOME", "XDG_CACHE_HOME"} {
		if v, ok := os.LookupEnv(k); ok {
			v := v
			saved[k] = &v
		} else {
			saved[k] = nil
		}
		os.Unsetenv(k)
	}
	defer func() {
		for k, v := range saved {
			if v != nil {
				os.Setenv(k, *v)
			}
		}
	}()
	f()
}

func gluelayerSorted(m map[string]bool) []string {
	out := make([]string, 0, len(m))
	for k := range m {
		out = append(out, k)
	}
	sort.Strings(out)
	return out
}

func gluelayerFirst(probs []string, n int) string {
	if len(probs) > n {
		return strings.Join(probs[:n], "; ") + fmt.Sprintf("; … (%d more)", len(probs)-n)
	}
	return strings.Join(probs, "; ")
}
