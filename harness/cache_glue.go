package main

// corr:cache (C19) — the glue around the cache: histories of builds through the pkg/build library API in which
//   * one process runs SEVERAL builds (the HEAD/ETag memo of an *apk.Cache, options.Default.SharedCache and the
//     process-wide memo tables live as long as the process), mixed with fresh processes, over one cache
//     directory, while the repository publishes new index revisions in between;
//   * builds use the DEFAULT options (no build.WithCache: cache directory = os.UserCacheDir(), shared cache =
//     options.Default.SharedCache) or what the CLI passes (build.WithCache(dir, offline, apk.NewCache(true)));
//   * the keyring lists several http keys (distinct bytes) of one remote directory (all their cache entries
//     share one directory and are told apart by their ETag only);
//   * one connection is cut in the middle of the body of an index or key download (the etag path:
//     cacheTransport.retrieveAndSaveFile), with or without an announced Content-Length;
//   * offline builds follow.
// Oracle: every build over the cache equals the cache-less build of the repository state it was run against
// (layer digest, /etc/apk/keys/*, lib/apk/db/installed) or fails where a fault / missing entry allows it to;
// every advertised etag entry of the directory holds exactly the body the server serves under that etag for a
// URL of that directory; nothing is ever created in the working directory of the process.

import (
	"bytes"
	"context"
	"crypto/rand"
	"crypto/rsa"
	"crypto/sha256"
	"encoding/base32"
	"encoding/base64"
	"encoding/gob"
	"encoding/hex"
	"encoding/json"
	"flag"
	"fmt"
	"io"
	"io/fs"
	"math/big"
	"net/http"
	"os"
	"os/exec"
	"path/filepath"
	"sort"
	"strings"
	"sync"
	"time"

	"chainguard.dev/apko/pkg/apk/apk"
	"chainguard.dev/apko/pkg/build"
	"chainguard.dev/apko/pkg/build/types"
	"chainguard.dev/apko/pkg/tarfs"
)

type gluecacheKey struct {
	Name string // file name (last URL element, name under /etc/apk/keys)
	Dir  string // remote directory ("keys", "morekeys")
	Etag string
	PEM  []byte
}

type gluecacheWorld struct {
	Revs  []map[string][]byte // revision -> repository files
	Keys  []gluecacheKey      // Keys[0] is the key that signs the index
	World []string
	// a second repository (https://repob.test, same signing key): ONE index revision that offers a newer `app`
	RepoB map[string][]byte
	// the server dimension: the index of repository 0 is served WITHOUT an ETag, with Last-Modified only; LastMod[r] is
	// the second in which revision r was published (equal seconds: a republication within one second / with a clamped mtime)
	NoEtag  bool
	LastMod []int
	// key DISCOVERY: repository 0 publishes its keys through `apk-configuration` -> JWKS; Jwks[e] is the key set it
	// serves in key epoch e (a rotation / an added key = the next epoch)
	Jwks [][]byte
}

const (
	gluecacheConfPath = "apk-configuration"
	gluecacheJwksPath = "discovery/jwks.json"
)

func (w *gluecacheWorld) save(path string) error {
	var b bytes.Buffer
	if err := gob.NewEncoder(&b).Encode(w); err != nil {
		return err
	}
	return os.WriteFile(path, b.Bytes(), 0o644)
}

func gluecacheLoadWorld(path string) (*gluecacheWorld, error) {
	b, err := os.ReadFile(path)
	if err != nil {
		return nil, err
	}
	w := &gluecacheWorld{}
	return w, gob.NewDecoder(bytes.NewReader(b)).Decode(w)
}

type gluecacheFault struct {
	Target int  `json:"target"`          // -1: the index body, i >= 0: the body of key i
	Cut    int  `json:"cut"`             // per mille of the body that is delivered before the connection drops
	NoLen  bool `json:"nolen,omitempty"` // no Content-Length announced (chunked transfer): the drop is still evident
}

type gluecacheStep struct {
	Mode    string          `json:"mode"` // own: build.WithCache(dir, offline, apk.NewCache(true)) | default: no build.WithCache | none: no cache at all
	Offline bool            `json:"offline,omitempty"`
	Rev     int             `json:"rev"`  // the index revision the repository serves during this build
	Keys    []int           `json:"keys"` // keyring: indices into the world's keys (0 = the signing key), in this order
	Fault   *gluecacheFault `json:"fault,omitempty"`
	Reset   bool            `json:"reset,omitempty"` // reference builds only: empty the process-wide memo tables first
	Repos   []int           `json:"repos,omitempty"` // configured repositories (0 = repo.test, 1 = repob.test); absent: [0]
	Epoch   int             `json:"epoch,omitempty"` // key discovery: the key epoch repository 0 is in during this build
}

func (st gluecacheStep) repos() []int {
	if len(st.Repos) == 0 {
		return []int{0}
	}
	return st.Repos
}

func (st gluecacheStep) hasRepoB() bool {
	for _, r := range st.repos() {
		if r == 1 {
			return true
		}
	}
	return false
}

const gluecacheHostB = "repob.test"

var gluecacheRepoURL = []string{"https://repo.test", "https://" + gluecacheHostB}

type gluecacheProc struct {
	Steps []gluecacheStep `json:"steps"`
}

type gluecacheStepRes struct {
	Status string
	Digest string
	Keys   map[string][]byte // name under etc/apk/keys -> content
	Idb    []byte
	Reqs   []string
}

type gluecacheCutBody struct {
	data []byte
	pos  int
	cut  int
}

func (b *gluecacheCutBody) Read(p []byte) (int, error) {
	if b.pos >= b.cut {
		return 0, io.ErrUnexpectedEOF // what net/http reports when the connection drops before the announced end
	}
	n := copy(p, b.data[b.pos:b.cut])
	b.pos += n
	return n, nil
}
func (b *gluecacheCutBody) Close() error { return nil }

type gluecacheTransport struct {
	mu    sync.Mutex
	w     *gluecacheWorld
	rev   int
	epoch int
	fault *gluecacheFault // armed: consumed by the first GET of its target
	log   []string
}

func gluecacheIndexEtag(rev int, body []byte) string { return fmt.Sprintf("idx-%d-%s", rev, indexEtag(body)) }
func gluecacheIndexEtagB(body []byte) string          { return "idxb-" + indexEtag(body) }

func (t *gluecacheTransport) RoundTrip(req *http.Request) (*http.Response, error) {
	t.mu.Lock()
	defer t.mu.Unlock()
	path := strings.TrimPrefix(req.URL.Path, "/")
	t.log = append(t.log, req.Method+" "+path)
	mk := func(code int, b []byte) *http.Response {
		return &http.Response{StatusCode: code, Status: fmt.Sprintf("%d %s", code, http.StatusText(code)), Proto: "HTTP/1.1", ProtoMajor: 1, ProtoMinor: 1,
			Header: http.Header{}, Body: io.NopCloser(bytes.NewReader(b)), ContentLength: int64(len(b)), Request: req}
	}
	var body []byte
	etag := ""
	lastMod := ""
	target := -2
	switch {
	case req.URL.Host == gluecacheHostB:
		body = t.w.RepoB[path]
		if path == "x86_64/APKINDEX.tar.gz" && body != nil {
			etag = gluecacheIndexEtagB(body)
		}
	case path == "x86_64/APKINDEX.tar.gz":
		body = t.w.Revs[t.rev][path]
		etag = gluecacheIndexEtag(t.rev, body)
		target = -1
		if t.w.NoEtag {
			// a plain file server: no ETag, Last-Modified with one-second resolution
			etag = ""
			sec := 0
			if t.rev < len(t.w.LastMod) {
				sec = t.w.LastMod[t.rev]
			}
			lastMod = time.Unix(1700000000+int64(sec), 0).UTC().Format(http.TimeFormat)
		}
	case path == gluecacheConfPath && len(t.w.Jwks) > 0:
		// key discovery: neither document carries a validator
		body = []byte(fmt.Sprintf(`{"jwks_uri": %q}`, "https://repo.test/"+gluecacheJwksPath))
	case path == gluecacheJwksPath && len(t.w.Jwks) > 0:
		body = t.w.Jwks[t.epoch%len(t.w.Jwks)]
	case strings.HasSuffix(path, ".apk"):
		// every apk of every revision stays downloadable
		for _, files := range t.w.Revs {
			if b, ok := files[path]; ok {
				body = b
			}
		}
	default:
		for i, k := range t.w.Keys {
			if path == k.Dir+"/"+k.Name {
				body, etag, target = k.PEM, k.Etag, i
			}
		}
	}
	if body == nil {
		return mk(404, []byte("not found")), nil
	}
	resp := mk(200, body)
	if etag != "" {
		resp.Header.Set("ETag", `"`+etag+`"`)
	}
	if lastMod != "" {
		resp.Header.Set("Last-Modified", lastMod)
	}
	if req.Method == http.MethodHead {
		resp.Body = io.NopCloser(bytes.NewReader(nil))
		return resp, nil
	}
	if rg := req.Header.Get("Range"); rg != "" {
		// a resumed download (the range-retry reader of a build without the disk cache)
		var from int
		if _, err := fmt.Sscanf(rg, "bytes=%d-", &from); err == nil && from >= 0 && from <= len(body) {
			resp = mk(206, body[from:])
			resp.Header.Set("Content-Range", fmt.Sprintf("bytes %d-%d/%d", from, len(body)-1, len(body)))
			if etag != "" {
				resp.Header.Set("ETag", `"`+etag+`"`)
			}
			if lastMod != "" {
				resp.Header.Set("Last-Modified", lastMod)
			}
			return resp, nil
		}
	}
	if t.fault != nil && t.fault.Target == target {
		f := t.fault
		t.fault = nil
		cut := len(body) * f.Cut / 1000
		if cut >= len(body) {
			cut = len(body) - 1
		}
		resp.Body = &gluecacheCutBody{data: body, cut: cut}
		if f.NoLen {
			resp.ContentLength = -1
			resp.TransferEncoding = []string{"chunked"}
		}
		t.log = append(t.log, fmt.Sprintf("CUT %s at %d of %d", path, cut, len(body)))
	}
	return resp, nil
}

func gluecacheKeyURL(k gluecacheKey) string { return "https://repo.test/" + k.Dir + "/" + k.Name }

// gluecacheBuild: one build through pkg/build (the library API), single architecture
func gluecacheBuild(w *gluecacheWorld, t *gluecacheTransport, root string, st gluecacheStep) gluecacheStepRes {
	work, err := os.MkdirTemp("", "verif-gluecache-")
	if err != nil {
		return gluecacheStepRes{Status: "err mkdtemp: " + err.Error()}
	}
	defer os.RemoveAll(work)
	if st.Mode == "none" {
		// no cache directory can be determined: pkg/build then builds without the cache
		os.Unsetenv("XDG_CACHE_HOME")
		os.Unsetenv("HOME")
	} else {
		os.Unsetenv("HOME")
		os.Setenv("XDG_CACHE_HOME", root)
	}
	cacheDir := filepath.Join(root, "dev.chainguard.go-apk") // = what apk.WithCache("") derives from os.UserCacheDir()
	ic := types.ImageConfiguration{}
	ic.Contents.Packages = w.World
	ic.Contents.RuntimeRepositories = nil
	for _, r := range st.repos() {
		ic.Contents.RuntimeRepositories = append(ic.Contents.RuntimeRepositories, gluecacheRepoURL[r%len(gluecacheRepoURL)])
	}
	for _, i := range st.Keys {
		ic.Contents.Keyring = append(ic.Contents.Keyring, gluecacheKeyURL(w.Keys[i]))
	}
	ic.Archs = []types.Architecture{types.ParseArchitecture("x86_64")}
	t.mu.Lock()
	t.rev, t.epoch, t.fault, t.log = st.Rev, st.Epoch, st.Fault, nil
	t.mu.Unlock()
	opts := []build.Option{build.WithImageConfiguration(ic), build.WithArch(types.ParseArchitecture("x86_64")),
		build.WithSourceDateEpoch(time.Unix(1700000000, 0)), build.WithTempDir(work), build.WithTransport(t)}
	if st.Mode == "own" {
		opts = append(opts, build.WithCache(cacheDir, st.Offline, apk.NewCache(true)))
	}
	res := gluecacheStepRes{Keys: map[string][]byte{}}
	ctx := context.Background()
	fsys := tarfs.New()
	fail := func(err error) gluecacheStepRes {
		t.mu.Lock()
		res.Reqs = append([]string(nil), t.log...)
		t.mu.Unlock()
		res.Status = "err " + err.Error()
		return res
	}
	bc, err := build.New(ctx, fsys, opts...)
	if err != nil {
		return fail(err)
	}
	layers, err := bc.BuildLayers(ctx)
	if err != nil {
		return fail(err)
	}
	var ds []string
	for _, l := range layers {
		d, err := l.Digest()
		if err != nil {
			return fail(err)
		}
		ds = append(ds, d.String())
	}
	res.Digest = strings.Join(ds, "+")
	if des, err := fsys.ReadDir("etc/apk/keys"); err == nil {
		for _, de := range des {
			if b, err := fsys.ReadFile("etc/apk/keys/" + de.Name()); err == nil {
				res.Keys[de.Name()] = b
			}
		}
	}
	res.Idb, _ = fsys.ReadFile("lib/apk/db/installed")
	t.mu.Lock()
	res.Reqs = append([]string(nil), t.log...)
	t.mu.Unlock()
	res.Status = "ok"
	return res
}

func gluecacheChildMain(args []string) {
	fl := flag.NewFlagSet("gluecache-child", flag.ExitOnError)
	world := fl.String("world", "", "gob file with the repository revisions and keys")
	script := fl.String("script", "", "json file: the builds this process runs, one after the other")
	root := fl.String("root", "", "XDG_CACHE_HOME of the cached builds")
	out := fl.String("out", "", "result file (json)")
	fl.Parse(args)
	w, err := gluecacheLoadWorld(*world)
	if err != nil {
		fmt.Fprintln(os.Stderr, "gluecache-child:", err)
		os.Exit(2)
	}
	var p gluecacheProc
	b, err := os.ReadFile(*script)
	if err == nil {
		err = json.Unmarshal(b, &p)
	}
	if err != nil {
		fmt.Fprintln(os.Stderr, "gluecache-child:", err)
		os.Exit(2)
	}
	t := &gluecacheTransport{w: w}
	var res []gluecacheStepRes
	for _, st := range p.Steps {
		if st.Reset {
			apk.VerifResetGlobalCaches()
		}
		res = append(res, gluecacheBuild(w, t, *root, st))
	}
	ob, _ := json.Marshal(res)
	os.WriteFile(*out, ob, 0o644)
}

func init() {
	prev := extraCommand
	extraCommand = func(name string, args []string) bool {
		if name != "gluecache-child" {
			return prev(name, args)
		}
		gluecacheChildMain(args)
		return true
	}
}

// gluecacheRunProc runs one process of a history in a scratch working directory; returns the results of its
// builds and what the process left behind in its working directory (must be nothing).
func gluecacheRunProc(scratch string, id int, world, root string, p gluecacheProc) ([]gluecacheStepRes, []string, string) {
	sf := filepath.Join(scratch, fmt.Sprintf("script-%d.json", id))
	of := filepath.Join(scratch, fmt.Sprintf("gout-%d.json", id))
	cwd := filepath.Join(scratch, fmt.Sprintf("cwd-%d", id))
	os.MkdirAll(cwd, 0o755)
	b, _ := json.Marshal(p)
	os.WriteFile(sf, b, 0o644)
	exe, _ := os.Executable()
	cmd := exec.Command(exe, "gluecache-child", "--world", world, "--script", sf, "--root", root, "--out", of)
	cmd.Dir = cwd
	var stderr bytes.Buffer
	cmd.Stderr = &stderr
	cmd.Stdout = io.Discard
	if err := cmd.Start(); err != nil {
		return nil, nil, "start: " + err.Error()
	}
	done := make(chan error, 1)
	go func() { done <- cmd.Wait() }()
	select {
	case err := <-done:
		if err != nil {
			return nil, cacheListCwd(cwd), "exit: " + err.Error() + ": " + tailStr(stderr.String(), 400)
		}
	case <-time.After(40 * time.Second):
		cmd.Process.Kill()
		<-done
		return nil, cacheListCwd(cwd), "timeout: " + tailStr(stderr.String(), 400)
	}
	var res []gluecacheStepRes
	ob, err := os.ReadFile(of)
	if err == nil {
		err = json.Unmarshal(ob, &res)
	}
	if err != nil || len(res) != len(p.Steps) {
		return nil, cacheListCwd(cwd), "no result: " + tailStr(stderr.String(), 400)
	}
	return res, cacheListCwd(cwd), ""
}

// cacheListCwd: everything below the (scratch) working directory of a child process
func cacheListCwd(cwd string) []string {
	var out []string
	filepath.WalkDir(cwd, func(p string, d fs.DirEntry, err error) error {
		if err != nil || p == cwd {
			return nil
		}
		rel, _ := filepath.Rel(cwd, p)
		out = append(out, rel)
		return nil
	})
	sort.Strings(out)
	return out
}

// ---- the case ----

type cGlue struct {
	NKeys   int             `json:"nkeys"`              // keys of the world (key 0 signs the index)
	KeyDir  []int           `json:"key_dir,omitempty"`  // key i lives in remote directory keys (0) or morekeys (1)
	KeyEtag []int           `json:"key_etag,omitempty"` // key i is served with ETag number KeyEtag[i] (equal numbers: two URLs, one ETag value)
	Procs   []gluecacheProc `json:"procs"`
	RepoB   bool            `json:"repo_b,omitempty"`   // the world has the second repository (steps name it in `repos`)
	NoEtag  bool            `json:"no_etag,omitempty"`  // the index of repository 0 is served without an ETag (Last-Modified only)
	LastMod []int           `json:"last_mod,omitempty"` // the second in which revision r was published
	Disc    bool            `json:"disc,omitempty"`     // repository 0 publishes keys through key discovery (steps name the key epoch)
	NEpoch  int             `json:"nepoch,omitempty"`   // number of key epochs
	DiscAdd bool            `json:"disc_add,omitempty"` // a new epoch ADDS a key to the set (else: the key is rotated)
}

// gluecacheDiscKeys: the discovery key pool (kid disc-<i>), generated once per harness process
var (
	gluecacheDiscOnce sync.Once
	gluecacheDiscPool []*rsa.PublicKey
)

func gluecacheJwks(ids []int) []byte {
	gluecacheDiscOnce.Do(func() {
		for i := 0; i < 3; i++ {
			k, err := rsa.GenerateKey(rand.Reader, 1024)
			if err != nil {
				panic(err)
			}
			gluecacheDiscPool = append(gluecacheDiscPool, &k.PublicKey)
		}
	})
	type jwk struct {
		Kty string `json:"kty"`
		Kid string `json:"kid"`
		Alg string `json:"alg"`
		Use string `json:"use"`
		N   string `json:"n"`
		E   string `json:"e"`
	}
	var set struct {
		Keys []jwk `json:"keys"`
	}
	for _, i := range ids {
		pk := gluecacheDiscPool[i%len(gluecacheDiscPool)]
		set.Keys = append(set.Keys, jwk{Kty: "RSA", Kid: fmt.Sprintf("disc-%d", i), Alg: "RS256", Use: "sig",
			N: base64.RawURLEncoding.EncodeToString(pk.N.Bytes()), E: base64.RawURLEncoding.EncodeToString(big.NewInt(int64(pk.E)).Bytes())})
	}
	b, _ := json.Marshal(set)
	return b
}

var (
	gluecacheKeyOnce sync.Once
	gluecacheKeyPool [][]byte
)

// gluecacheExtraKeys: distinct valid public keys (generated once per harness process; their bytes are part of
// the world file the children read, so every build of a case sees the same keys)
func gluecacheExtraKeys() [][]byte {
	gluecacheKeyOnce.Do(func() {
		for i := 0; i < 3; i++ {
			k, err := rsa.GenerateKey(rand.Reader, 1024)
			if err != nil {
				panic(err)
			}
			gluecacheKeyPool = append(gluecacheKeyPool, pubKeyPEM(k))
		}
	})
	return gluecacheKeyPool
}

func gluecacheGen(r *Rng, c *cCase, i int, tier string) {
	g := &cGlue{NKeys: r.Range(1, 4)}
	if r.Chance(65) && g.NKeys < 2 {
		g.NKeys = r.Range(2, 4)
	}
	c.NRev = r.Range(1, 3)
	if r.Chance(60) && c.NRev < 2 {
		c.NRev = r.Range(2, 3)
	}
	c.Signed = nil
	c.Bumps = nil
	for k := 0; k < c.NRev; k++ {
		b := make([]bool, cacheNPkg)
		for j := range b {
			b[j] = r.Chance(50)
		}
		if k > 0 && !b[0] && !b[1] && !b[2] {
			b[r.Intn(cacheNPkg)] = true
		}
		c.Bumps = append(c.Bumps, b)
	}
	ownDirs := r.Chance(35) // every key in a remote directory of its own
	for k := 0; k < g.NKeys; k++ {
		d := 0
		if ownDirs {
			d = k
		} else if k > 0 && r.Chance(20) {
			d = 1
		}
		g.KeyDir = append(g.KeyDir, d)
		g.KeyEtag = append(g.KeyEtag, k)
	}
	if g.NKeys >= 2 && !ownDirs && r.Chance(12) {
		// a server whose ETags do not tell two files of one directory apart (size + mtime: equal for keys of one
		// length deployed in one go)
		a := r.Range(1, g.NKeys-1)
		g.KeyEtag[a] = g.KeyEtag[r.Intn(a)]
	}
	keyset := func() []int {
		ks := []int{0}
		for k := 1; k < g.NKeys; k++ {
			if r.Chance(80) {
				ks = append(ks, k)
			}
		}
		if r.Chance(30) {
			r.Shuffle(len(ks), func(a, b int) { ks[a], ks[b] = ks[b], ks[a] })
		}
		return ks
	}
	keys := keyset()
	rev := 0
	np := r.Range(1, 3)
	style := r.Intn(3) // 0: every build with default options, 1: every build the CLI way, 2: mixed
	// two more dimensions: the configured repositories change between builds (a second repository is added after
	// the cache was filled, or dropped again); the server sends no ETag for the index, only Last-Modified
	var repos []int
	switch x := r.Intn(100); {
	case x < 24:
		g.RepoB = true
		for k := 1; k < c.NRev; k++ {
			// (repository B's app shadows repository 0's: every revision must differ in something else as well, or two
			// repository states would have one and the same image)
			c.Bumps[k][0] = true
		}
		repos = []int{0}
		if r.Chance(30) {
			repos = []int{0, 1}
		}
	case x >= 40 && x < 64:
		// key discovery: the repository publishes its keys through apk-configuration -> JWKS and rotates (or adds) a key
		// between builds.  (Every key of the keyring in a directory of its own, one ETag each: the outcome of an offline
		// build is a function of the history.)
		g.Disc, g.NEpoch, g.DiscAdd = true, r.Range(2, 3), r.Chance(35)
		for k := range g.KeyDir {
			g.KeyDir[k], g.KeyEtag[k] = k, k
		}
	case x < 40:
		g.NoEtag = true
		if c.NRev < 2 {
			c.NRev = r.Range(2, 3)
			for len(c.Bumps) < c.NRev {
				b := make([]bool, cacheNPkg)
				b[r.Intn(cacheNPkg)] = true
				c.Bumps = append(c.Bumps, b)
			}
		}
		sec := 0
		for k := 0; k < c.NRev; k++ {
			if k > 0 && r.Chance(40) {
				sec += r.Range(1, 3)
			}
			g.LastMod = append(g.LastMod, sec) // (equal seconds: republished within one second / clamped mtime)
		}
	}
	flipRepos := func() {
		if g.RepoB && r.Chance(45) {
			if len(repos) == 1 {
				repos = []int{0, 1}
			} else {
				repos = []int{0}
			}
		}
	}
	discDirected := false
	if g.Disc && r.Chance(70) {
		// the directed shape: one build over the cache, a key rotation, a build in a fresh process
		discDirected = true
		g.Procs = append(g.Procs, gluecacheProc{Steps: []gluecacheStep{{Mode: Pick(r, []string{"own", "default"}), Rev: rev, Keys: keys, Repos: repos}}})
		g.Procs = append(g.Procs, gluecacheProc{Steps: []gluecacheStep{{Mode: "own", Rev: rev, Keys: keys, Repos: repos}}})
	}
	if g.RepoB && r.Chance(65) {
		// the directed shape: the cache is filled over repos, then a repository is added and the build is offline
		first := gluecacheStep{Mode: Pick(r, []string{"own", "default"}), Rev: rev, Keys: keys, Repos: repos}
		g.Procs = append(g.Procs, gluecacheProc{Steps: []gluecacheStep{first}})
		if len(repos) == 1 {
			repos = []int{0, 1}
		} else {
			repos = []int{0}
		}
		g.Procs = append(g.Procs, gluecacheProc{Steps: []gluecacheStep{{Mode: "own", Offline: true, Rev: rev, Keys: keys, Repos: repos}}})
	}
	for p := 0; p < np; p++ {
		var pr gluecacheProc
		ns := r.Range(1, 4)
		for s := 0; s < ns; s++ {
			if rev+1 < c.NRev && r.Chance(55) {
				rev++ // the repository publishes a new index revision
			}
			if r.Chance(15) {
				keys = keyset()
			}
			flipRepos()
			st := gluecacheStep{Mode: "own", Rev: rev, Keys: keys, Repos: repos}
			if style == 0 || (style == 2 && r.Chance(50)) {
				st.Mode = "default"
			}
			if r.Chance(6) {
				st.Mode = "none" // a cache-less build in between must not matter
			}
			switch x := r.Intn(100); {
			case x < 14 && st.Mode != "none" && !g.NoEtag:
				st.Fault = &gluecacheFault{Target: -1, Cut: Pick(r, []int{0, 1, 300, 500, 900, 999}), NoLen: r.Chance(35)}
			case x < 28 && st.Mode != "none":
				st.Fault = &gluecacheFault{Target: Pick(r, keys), Cut: Pick(r, []int{0, 300, 500, 900, 999}), NoLen: r.Chance(35)}
			case x < 40 && (p > 0 || s > 0):
				st = gluecacheStep{Mode: "own", Offline: true, Rev: rev, Keys: keys, Repos: repos}
			}
			pr.Steps = append(pr.Steps, st)
			if st.Fault != nil {
				// the same build again with a healthy network, then offline
				st2 := st
				st2.Fault = nil
				newProc := st.Fault.Target == -1 || r.Chance(50)
				// (a failed index download is remembered by the process-wide parsed-index table, with or without the
				// disk cache, until the ETag changes: the retry runs in a fresh process)
				if r.Chance(40) {
					// what is in the cache right after the failed build (an offline retry in the same or a new process)
					if r.Chance(50) {
						g.Procs = append(g.Procs, pr)
						pr = gluecacheProc{}
					}
					pr.Steps = append(pr.Steps, gluecacheStep{Mode: "own", Offline: true, Rev: rev, Keys: keys, Repos: repos})
				}
				if newProc {
					g.Procs = append(g.Procs, pr)
					pr = gluecacheProc{}
				}
				pr.Steps = append(pr.Steps, st2)
				if r.Chance(60) {
					pr.Steps = append(pr.Steps, gluecacheStep{Mode: "own", Offline: true, Rev: rev, Keys: keys, Repos: repos})
				}
			}
		}
		g.Procs = append(g.Procs, pr)
	}
	last := gluecacheProc{Steps: []gluecacheStep{{Mode: "own", Rev: rev, Keys: keys, Repos: repos}, {Mode: "own", Offline: true, Rev: rev, Keys: keys, Repos: repos}}}
	if g.RepoB && r.Chance(40) {
		// a repository is added right before the last offline build
		flipRepos()
		last.Steps[1].Repos = repos
	}
	if style == 0 {
		last.Steps[0].Mode = "default"
	}
	g.Procs = append(g.Procs, last)
	if g.Disc {
		// the key epochs: the repository moves on between builds (inside a process as well)
		epoch, n := 0, 0
		for pi := range g.Procs {
			for si := range g.Procs[pi].Steps {
				if n > 0 && epoch+1 < g.NEpoch && (r.Chance(40) || (discDirected && n == 1)) {
					epoch++
				}
				g.Procs[pi].Steps[si].Epoch = epoch
				n++
			}
		}
	}
	if g.RepoB {
		// globalApkCache remembers the outcome of a package fetch — also its ERROR — per URL for the rest of the
		// process (builds over the disk cache only): after an offline build that failed because a package of its image
		// is not in the cache, every later build of that process that needs the package fails with the remembered
		// error, online as well.  With two repositories such offline builds are common (an index revision is cached
		// by a build that installed the other repository's app); like after a cut index download the history
		// continues in a fresh process (recorded as an observation, not judged).
		var procs []gluecacheProc
		for _, p := range g.Procs {
			cur := gluecacheProc{}
			for _, st := range p.Steps {
				cur.Steps = append(cur.Steps, st)
				if st.Offline {
					procs = append(procs, cur)
					cur = gluecacheProc{}
				}
			}
			if len(cur.Steps) > 0 {
				procs = append(procs, cur)
			}
		}
		g.Procs = procs
	}
	c.Glue = g
}

// gluecachePkgs: the packages of revision rev (same shapes as cachePkgs, smaller bodies)
func gluecachePkgs(c *cCase, rev int) []SPkg {
	names := []string{"base", "lib", "app"}
	deps := [][]string{nil, {"base"}, {"lib"}}
	out := make([]SPkg, cacheNPkg)
	for j := 0; j < cacheNPkg; j++ {
		ver := 0
		for r := 1; r <= rev; r++ {
			if c.Bumps[r][j] {
				ver = r
			}
		}
		out[j] = SPkg{Name: names[j], Version: fmt.Sprintf("1.%d-r0", ver), Origin: names[j], Deps: deps[j],
			Files: []SFile{
				{Path: "usr", Type: "dir", Mode: 0o755},
				{Path: "usr/share", Type: "dir", Mode: 0o755},
				{Path: "usr/share/" + names[j], Type: "dir", Mode: 0o755},
				{Path: "usr/share/" + names[j] + "/version", Type: "file", Mode: 0o644, Content: fmt.Sprintf("%s %d %x\n", names[j], ver, c.Seed)},
			}}
	}
	return out
}

type gluecacheEnv struct {
	scratch string
	world   string
	root    string
	w       *gluecacheWorld
	nproc   int
	refs    map[string]gluecacheStepRes // "rev|k,k,k" -> cache-less build
	idbRev  map[[32]byte]gluecacheImg
	disc    bool
	discSet []map[string][]byte // key epoch -> the key files a cache-less build discovers (name -> content)
}

func gluecacheIsDisc(name string) bool { return strings.HasPrefix(name, "disc-") }

// gluecacheImg: which cache-less image an installed db belongs to: the index revision of repository 0 and whether
// repository B's index was part of the resolution
type gluecacheImg struct {
	rev int
	b   bool
}

func gluecacheRefKey(rev int, keys []int, repos []int, epoch int) string {
	b := ""
	for _, r := range repos {
		if r == 1 {
			b = "b"
		}
	}
	if epoch >= 0 {
		return fmt.Sprintf("%d%s|%v|e%d", rev, b, keys, epoch)
	}
	return fmt.Sprintf("%d%s|%v", rev, b, keys)
}

func gluecacheDirName(d int) string {
	if d <= 0 {
		return "keys"
	}
	return fmt.Sprintf("keys%d", d)
}

// gluecacheDirID: 1 + the number of the remote key directory (0 is the index directory)
func gluecacheDirID(name string) int {
	d := 0
	if name != "keys" {
		fmt.Sscanf(name, "keys%d", &d)
	}
	return d + 1
}

func gluecacheSetup(c *cCase) (*gluecacheEnv, string) {
	g := c.Glue
	scratch, err := os.MkdirTemp("", "verif-gluecache-case-")
	if err != nil {
		return nil, err.Error()
	}
	e := &gluecacheEnv{scratch: scratch, world: filepath.Join(scratch, "world.gob"), root: filepath.Join(scratch, "xdg"),
		refs: map[string]gluecacheStepRes{}, idbRev: map[[32]byte]gluecacheImg{}}
	w := &gluecacheWorld{World: []string{"app"}}
	var keyPEM []byte
	for r := 0; r < c.NRev; r++ {
		repo := BuildSynthRepo(gluecachePkgs(c, r), []string{"x86_64"})
		w.Revs = append(w.Revs, repo.Files)
		keyPEM = repo.KeyPEM
	}
	extra := gluecacheExtraKeys()
	for k := 0; k < g.NKeys; k++ {
		key := gluecacheKey{Name: synthKeyName, PEM: keyPEM, Dir: "keys", Etag: "key-etag-0"}
		if k > 0 {
			key = gluecacheKey{Name: fmt.Sprintf("extra-%d.rsa.pub", k), PEM: extra[(k-1)%len(extra)]}
		}
		if k < len(g.KeyDir) {
			key.Dir = gluecacheDirName(g.KeyDir[k])
		} else {
			key.Dir = "keys"
		}
		et := k
		if k < len(g.KeyEtag) {
			et = g.KeyEtag[k]
		}
		key.Etag = fmt.Sprintf("key-etag-%d", et)
		w.Keys = append(w.Keys, key)
	}
	if g.RepoB {
		// repository B: a newer app (depends on lib, which only repository 0 has), signed with the same key
		appB := SPkg{Name: "app", Version: "1.9-r0", Origin: "app", Deps: []string{"lib"},
			Files: []SFile{
				{Path: "usr", Type: "dir", Mode: 0o755},
				{Path: "usr/share", Type: "dir", Mode: 0o755},
				{Path: "usr/share/app", Type: "dir", Mode: 0o755},
				{Path: "usr/share/app/version", Type: "file", Mode: 0o644, Content: fmt.Sprintf("app from repository B %x\n", c.Seed)},
			}}
		w.RepoB = BuildSynthRepo([]SPkg{appB}, []string{"x86_64"}).Files
	}
	w.NoEtag, w.LastMod = g.NoEtag, g.LastMod
	if g.Disc {
		e.disc = true
		for ep := 0; ep < g.NEpoch; ep++ {
			ids := []int{ep}
			if g.DiscAdd {
				ids = nil
				for i := 0; i <= ep; i++ {
					ids = append(ids, i)
				}
			}
			w.Jwks = append(w.Jwks, gluecacheJwks(ids))
		}
		e.discSet = make([]map[string][]byte, g.NEpoch)
	}
	e.w = w
	if err := w.save(e.world); err != nil {
		return e, err.Error()
	}
	os.MkdirAll(e.root, 0o755)
	// references: the cache-less build of every (revision, keyring) a cached build of the history runs against
	var ref gluecacheProc
	seen := map[string]bool{}
	for _, p := range g.Procs {
		for _, st := range p.Steps {
			ep0, ep1 := -1, -1
			if g.Disc {
				ep0, ep1 = 0, st.Epoch // (… or the keys of an earlier epoch)
			}
			for r := 0; r <= st.Rev; r++ { // (an offline build may legitimately reproduce an earlier revision)
				for _, rp := range [][]int{{0}, {0, 1}} {
					if len(rp) == 2 && !g.RepoB {
						continue
					}
					for ep := ep0; ep <= ep1; ep++ {
						// (both repository sets: an image over FEWER repositories than configured must be recognised as such)
						k := gluecacheRefKey(r, st.Keys, rp, ep)
						if !seen[k] {
							seen[k] = true
							rs := gluecacheStep{Mode: "none", Rev: r, Keys: st.Keys, Reset: true, Repos: rp}
							if ep > 0 {
								rs.Epoch = ep
							}
							ref.Steps = append(ref.Steps, rs)
						}
					}
				}
			}
		}
	}
	// (one process, the process-wide memo tables emptied before each build: nothing leaks into a reference)
	e.nproc++
	res, cwd, why := gluecacheRunProc(scratch, e.nproc, e.world, filepath.Join(scratch, "unused-root"), ref)
	if why != "" {
		return e, "reference process: " + why
	}
	if len(cwd) > 0 {
		return e, "reference build wrote into its working directory: " + strings.Join(cwd, " ")
	}
	for i, st := range ref.Steps {
		if res[i].Status != "ok" {
			return e, "reference build failed: " + tailStr(res[i].Status, 300)
		}
		ep := -1
		if g.Disc {
			ep = st.Epoch
			// the key files the cache-less build discovers in this epoch: the same for every build of the epoch, another
			// set in every other epoch, never empty
			set := map[string][]byte{}
			for n, b := range res[i].Keys {
				if gluecacheIsDisc(n) {
					set[n] = b
				}
			}
			if len(set) == 0 {
				return e, fmt.Sprintf("reference build of key epoch %d discovered no keys", ep)
			}
			if e.discSet[ep] == nil {
				e.discSet[ep] = set
			} else if !gluecacheSameSet(e.discSet[ep], set) {
				return e, fmt.Sprintf("two reference builds of key epoch %d discovered different keys", ep)
			}
		}
		e.refs[gluecacheRefKey(st.Rev, st.Keys, st.repos(), ep)] = res[i]
		e.idbRev[sha256.Sum256(res[i].Idb)] = gluecacheImg{st.Rev, st.hasRepoB()}
	}
	for a := range e.discSet {
		for b := range e.discSet {
			if a < b && e.discSet[a] != nil && e.discSet[b] != nil && gluecacheSameSet(e.discSet[a], e.discSet[b]) {
				return e, fmt.Sprintf("key epochs %d and %d publish the same keys", a, b)
			}
		}
	}
	return e, ""
}

func gluecacheSameSet(a, b map[string][]byte) bool {
	if len(a) != len(b) {
		return false
	}
	for n, x := range a {
		if y, ok := b[n]; !ok || !bytes.Equal(x, y) {
			return false
		}
	}
	return true
}

// gluecacheOutcome: with key discovery the list ends in `d=<epoch>` (the discovered key files are exactly those of that
// epoch, byte for byte) | `d=-` (none) | `d=X`; `ok:<rev>:<k>=<content>+…` (k: key index by file name, content: key index | P (proper prefix
// of a key) | X), `ok:img?` (an image that is no cache-less image), `err`
func (e *gluecacheEnv) outcome(st gluecacheStep, r gluecacheStepRes) string {
	if r.Status != "ok" {
		return "err"
	}
	img, ok := e.idbRev[sha256.Sum256(r.Idb)]
	if !ok {
		return "ok:img?"
	}
	rev := img.rev
	imgRepos, revTok := []int{0}, fmt.Sprint(rev)
	if img.b {
		imgRepos, revTok = []int{0, 1}, fmt.Sprint(rev)+"b"
	}
	var names []string
	discFiles := map[string][]byte{}
	for n := range r.Keys {
		if e.disc && gluecacheIsDisc(n) {
			discFiles[n] = r.Keys[n]
			continue
		}
		names = append(names, n)
	}
	dtok, depoch := "", -1
	if e.disc {
		dtok = "X"
		if len(discFiles) == 0 {
			dtok = "-"
		}
		for ep, set := range e.discSet {
			if set != nil && gluecacheSameSet(set, discFiles) {
				dtok, depoch = fmt.Sprint(ep), ep
			}
		}
		if depoch < 0 {
			// (no cache-less image has these key files)
		}
	}
	keyIdx := func(n string) int {
		for i, k := range e.w.Keys {
			if k.Name == n {
				return i
			}
		}
		return -1
	}
	sort.Slice(names, func(a, b int) bool { return keyIdx(names[a]) < keyIdx(names[b]) })
	var parts []string
	identity := len(names) == len(st.Keys)
	for _, n := range names {
		ki := keyIdx(n)
		content := "X"
		for i, k := range e.w.Keys {
			if bytes.Equal(k.PEM, r.Keys[n]) {
				content = fmt.Sprint(i)
				break
			}
		}
		if content == "X" {
			for _, k := range e.w.Keys {
				if len(r.Keys[n]) < len(k.PEM) && bytes.Equal(k.PEM[:len(r.Keys[n])], r.Keys[n]) {
					content = "P"
				}
			}
		}
		if content != fmt.Sprint(ki) {
			identity = false
		}
		parts = append(parts, fmt.Sprintf("%d=%s", ki, content))
	}
	if e.disc {
		parts = append(parts, "d="+dtok)
		if depoch < 0 {
			identity = false
		}
	}
	if identity {
		if ref, ok := e.refs[gluecacheRefKey(rev, st.Keys, imgRepos, depoch)]; !ok || ref.Digest != r.Digest {
			return "ok:img?"
		}
	}
	return fmt.Sprintf("ok:%s:%s", revTok, strings.Join(parts, "+"))
}

// gluecacheAbstractDir: sorted tokens `E<dir>.<etag>=<L|R><body|P|X|D>` for every etag entry (dir: 0 = APKINDEX of
// x86_64, 1 = keys, 2 = morekeys; etag: 100+rev | key etag number | ?; body: 100+rev | key index), `T<dir>=<body|P|X>`
// for temp files, `U=<path>` for anything else below the cache root.
func (e *gluecacheEnv) abstractDir(g *cGlue) string {
	etagID := map[string]int{}
	bodies := map[int][]byte{}
	for r, files := range e.w.Revs {
		b := files["x86_64/APKINDEX.tar.gz"]
		etagID[base32.StdEncoding.EncodeToString([]byte(gluecacheIndexEtag(r, b)))] = 100 + r
		bodies[100+r] = b
	}
	for i, k := range e.w.Keys {
		var n int
		fmt.Sscanf(k.Etag, "key-etag-%d", &n)
		etagID[base32.StdEncoding.EncodeToString([]byte(k.Etag))] = n
		bodies[i] = k.PEM
	}
	if b := e.w.RepoB["x86_64/APKINDEX.tar.gz"]; b != nil {
		etagID[base32.StdEncoding.EncodeToString([]byte(gluecacheIndexEtagB(b)))] = 200
		bodies[200] = b
	}
	classify := func(b []byte) string {
		ids := make([]int, 0, len(bodies))
		for id := range bodies {
			ids = append(ids, id)
		}
		sort.Ints(ids)
		for _, id := range ids {
			if bytes.Equal(bodies[id], b) {
				return fmt.Sprint(id)
			}
		}
		for _, id := range ids {
			if len(b) < len(bodies[id]) && bytes.Equal(bodies[id][:len(b)], b) {
				return "P"
			}
		}
		return "X"
	}
	var toks []string
	filepath.WalkDir(e.root, func(p string, d fs.DirEntry, err error) error {
		if err != nil || d.IsDir() {
			return nil
		}
		rel, _ := filepath.Rel(e.root, p)
		parent := filepath.Base(filepath.Dir(p))
		base := filepath.Base(p)
		dir := -1
		switch {
		case parent == "APKINDEX" && strings.Contains(rel, gluecacheHostB):
			dir = 50 // the index entries of repository B
		case parent == "APKINDEX":
			dir = 0
		case strings.HasPrefix(parent, "keys"):
			dir = gluecacheDirID(parent)
		}
		if dir < 0 {
			// package sections (<pkg>/…): C19's other histories look at them
			if strings.Contains(rel, "/x86_64/") {
				return nil
			}
			toks = append(toks, "U="+rel)
			return nil
		}
		li, err := os.Lstat(p)
		if err != nil {
			return nil
		}
		kind := "R"
		if li.Mode()&os.ModeSymlink != 0 {
			kind = "L"
		}
		desc := "D"
		if b, err := os.ReadFile(p); err == nil {
			desc = classify(b)
		}
		switch {
		case strings.HasSuffix(base, ".tmp"):
			toks = append(toks, fmt.Sprintf("T%d=%s", dir, desc))
		case strings.HasSuffix(base, ".etag") || strings.HasSuffix(base, ".tar.gz"):
			name := strings.TrimSuffix(strings.TrimSuffix(base, ".etag"), ".tar.gz")
			id := "?"
			if n, ok := etagID[name]; ok {
				id = fmt.Sprint(n)
			}
			toks = append(toks, fmt.Sprintf("E%d.%s=%s%s", dir, id, kind, desc))
		default:
			toks = append(toks, "U="+rel)
		}
		return nil
	})
	sort.Strings(toks)
	return strings.Join(toks, ",")
}

func gluecacheStepToken(st gluecacheStep, disc bool) string {
	var ks []string
	for _, k := range st.Keys {
		ks = append(ks, fmt.Sprint(k))
	}
	f := "-"
	if st.Fault != nil {
		f = fmt.Sprintf("%d", st.Fault.Target)
		if st.Fault.Target < 0 {
			f = "i"
		}
	}
	mode := st.Mode
	if st.Offline {
		mode = "off"
	}
	tok := fmt.Sprintf("%s:%d:%s:%s", mode, st.Rev, strings.Join(ks, "+"), f)
	if len(st.Repos) > 0 || disc {
		var rs []string
		for _, r := range st.repos() {
			rs = append(rs, fmt.Sprint(r))
		}
		tok += ":" + strings.Join(rs, "+")
	}
	if disc {
		tok += fmt.Sprintf(":%d", st.Epoch)
	}
	return tok
}

// runGlue: line `cache-glue \t keys \t history \t goDir \t goOutcomes \t goCwd`
//   keys     `dir.etag,dir.etag,…` for key 0, 1, … (dir 1 = keys, 2 = morekeys)
//   history  `|`-separated processes, each a `;`-separated list of builds `mode:rev:k+k+k:fault`
func runGlue(c *cCase) []Step {
	g := c.Glue
	e, why := gluecacheSetup(c)
	if e != nil {
		defer os.RemoveAll(e.scratch)
	}
	if why != "" {
		return failStep("glue setup", why)
	}
	var procs, outs, canon, cwdAll, tags []string
	var descs []string
	noImpl := false
	seenRepoB, prevB, havePrev := false, false, false
	prevEp, havePrevEp := 0, false
	for _, p := range g.Procs {
		if len(p.Steps) == 0 {
			continue
		}
		e.nproc++
		res, cwd, why := gluecacheRunProc(e.scratch, e.nproc, e.world, e.root, p)
		if why != "" {
			return failStep("glue process", why)
		}
		for _, f := range cwd {
			cwdAll = append(cwdAll, "cwd:"+f)
		}
		var toks []string
		for i, st := range p.Steps {
			toks = append(toks, gluecacheStepToken(st, g.Disc))
			o := e.outcome(st, res[i])
			outs = append(outs, o)
			if gluecacheSchedDependent(e.w, st) {
				// which entry of a directory shared by several keys is the newest depends on the order in which the
				// concurrent key downloads of earlier builds finished: no prediction (finding F19d; the oracle still
				// judges the real outcome)
				canon = append(canon, "sched")
				tags = append(tags, "glue-offline-shared-key-directory")
			} else {
				canon = append(canon, o)
			}
			if gluecacheSameEtagPair(e.w, st) {
				noImpl = true
			}
			t := "glue-" + st.Mode
			if st.Offline {
				t = "glue-offline"
			}
			tags = append(tags, t+":"+strings.SplitN(o, ":", 2)[0])
			if st.Fault != nil {
				what := "key"
				if st.Fault.Target < 0 {
					what = "index"
				}
				tags = append(tags, fmt.Sprintf("glue-cut-%s", what))
				if st.Fault.NoLen {
					tags = append(tags, "glue-cut-without-content-length")
				}
			}
			if g.Disc {
				if havePrevEp && prevEp != st.Epoch {
					where := "between-processes"
					if i > 0 {
						where = "inside-process"
					}
					tags = append(tags, "glue-key-rotation-"+where+":"+st.Mode)
				}
				prevEp, havePrevEp = st.Epoch, true
				if k := strings.LastIndex(o, "d="); k >= 0 {
					tags = append(tags, "glue-discovered:"+map[bool]string{true: "current-epoch", false: "other"}[o[k+2:] == fmt.Sprint(st.Epoch)])
				}
			}
			if i > 0 && p.Steps[i-1].Rev != st.Rev {
				tags = append(tags, "glue-new-revision-inside-process:"+st.Mode)
			}
			if g.RepoB {
				if st.Offline && st.hasRepoB() && !seenRepoB {
					tags = append(tags, "glue-offline-over-a-never-cached-repository:"+strings.SplitN(o, ":", 2)[0])
				}
				if !st.Offline && st.Mode != "none" && st.hasRepoB() {
					seenRepoB = true
				}
				if havePrev && prevB != st.hasRepoB() {
					tags = append(tags, "glue-repositories-changed-between-builds")
				}
				prevB, havePrev = st.hasRepoB(), true
			}
			if o == "err" {
				descs = append(descs, fmt.Sprintf("%s → %s", gluecacheStepToken(st, g.Disc), tailStr(strings.ReplaceAll(res[i].Status, "\n", " "), 160)))
			}
		}
		if len(p.Steps) > 1 {
			tags = append(tags, "glue-several-builds-in-one-process")
		}
		procs = append(procs, strings.Join(toks, ";"))
	}
	var ks []string
	sameEtag := false
	for i, k := range e.w.Keys {
		var n int
		fmt.Sscanf(k.Etag, "key-etag-%d", &n)
		ks = append(ks, fmt.Sprintf("%d.%d", gluecacheDirID(k.Dir), n))
		if n != i {
			sameEtag = true
		}
	}
	tags = append(tags, fmt.Sprintf("glue-keys:%d", len(e.w.Keys)))
	if sameEtag {
		tags = append(tags, "glue-two-urls-one-etag")
	}
	dir := e.abstractDir(g)
	hist := strings.Join(procs, "|")
	fields := []string{"cache-glue", strings.Join(ks, ","), hist, dir, strings.Join(outs, ","), strings.Join(cwdAll, ",")}
	if g.NoEtag {
		fields = append(fields, "noetag")
		tags = append(tags, "glue-index-without-etag")
		for k := 1; k < len(g.LastMod); k++ {
			if g.LastMod[k] == g.LastMod[k-1] {
				tags = append(tags, "glue-republished-within-one-second")
			}
		}
	}
	if g.Disc {
		tags = append(tags, "glue-key-discovery")
		if g.DiscAdd {
			tags = append(tags, "glue-key-added")
		} else {
			tags = append(tags, "glue-key-rotated")
		}
	}
	if g.RepoB {
		tags = append(tags, "glue-two-repositories")
		// the versions of base, lib, app per revision of repository 0: with two repositories an index revision may be
		// in the cache without the packages of its image (an online build over both installs repository B's app)
		var vs []string
		for rev := 0; rev < c.NRev; rev++ {
			var t []string
			for j := 0; j < cacheNPkg; j++ {
				ver := 0
				for r := 1; r <= rev; r++ {
					if c.Bumps[r][j] {
						ver = r
					}
				}
				t = append(t, fmt.Sprint(ver))
			}
			vs = append(vs, strings.Join(t, "."))
		}
		fields = append(fields, "vers="+strings.Join(vs, "/"))
	}
	line := strings.Join(fields, "\t")
	desc := fmt.Sprintf("keys=%s history=%s → %s", strings.Join(ks, ","), hist, strings.Join(outs, ","))
	if len(descs) > 0 {
		desc += " [" + strings.Join(descs, "; ") + "]"
	}
	// (two keys of one directory under one ETag value in one keyring: which of them gets the entry is a race
	// between the concurrent key downloads — oracle only; finding F19d)
	return []Step{{Line: line, Go: dir + "|" + strings.Join(canon, ","), Mode: "verdict", Tags: tags, Desc: desc, NoImpl: noImpl}}
}

// gluecacheSchedDependent: an offline build that asks for a key whose entry directory is shared with another key
func gluecacheSchedDependent(w *gluecacheWorld, st gluecacheStep) bool {
	if !st.Offline {
		return false
	}
	for _, k := range st.Keys {
		for j := range w.Keys {
			if j != k && w.Keys[j].Dir == w.Keys[k].Dir {
				return true
			}
		}
	}
	return false
}

// gluecacheSameEtagPair: a keyring with two keys of one directory that are served under one ETag value
func gluecacheSameEtagPair(w *gluecacheWorld, st gluecacheStep) bool {
	if st.Mode == "none" {
		return false
	}
	for _, k := range st.Keys {
		for _, j := range st.Keys {
			if j != k && w.Keys[j].Dir == w.Keys[k].Dir && w.Keys[j].Etag == w.Keys[k].Etag {
				return true
			}
		}
	}
	return false
}

var _ = hex.EncodeToString

func init() {
	prev := extraCommand
	extraCommand = func(name string, args []string) bool {
		if name != "gluecache-try" {
			return prev(name, args)
		}
		// debugging aid: run one case file and print its steps
		b, err := os.ReadFile(args[0])
		if err != nil {
			fmt.Println(err)
			return true
		}
		for _, s := range (cacheSuite{}).Run(b) {
			fmt.Println("LINE", strings.ReplaceAll(s.Line, "\t", " | "))
			fmt.Println("DESC", s.Desc)
			fmt.Println("TAGS", s.Tags)
		}
		return true
	}
}
