package main

import (
	"context"
	"encoding/json"
	"fmt"
	"os"
	"strings"
	"sync"

	"chainguard.dev/apko/pkg/apk/apk"
)

// Concurrent first-touch histories of corr:purity (C08).
//
// The objects every resolver handed out for one index list shares — Package, RepositoryPackage, the
// repositoryPackage wrappers in the nameMap slices of the cached prototype, index wrappers — must be read-only
// after publication (AliasTable.shared_objects_never_written / shared_objects_have_no_lazy_fields).  A field on
// such an object that is filled on first use is invisible to every sequential history and to concurrent histories
// that start after a sequential one (the field is filled by then): it shows only when SEVERAL resolutions touch
// the same object for the first time at once.  So: per round, index objects nobody has looked at yet; G goroutines
// each obtain their resolver for these objects (a clone of the one prototype in the process-wide resolver cache),
// wait on a barrier, and resolve — the same world in most goroutines, so that they walk the same candidates in
// the same order — over a universe whose dependencies go through PROVIDED names (so: / cmd: / pc: / virtual) with
// 2-4 providers each: the comparator, the conflict test, the constraint filter and the version filter all read
// the providers' provides lists.  Every answer is compared with the fresh-state answer (caches reset, new
// objects, sequential), which is compared with Impl.resolve; under -race a report of the detector is the failing
// history (the history file names it, see noteHistory).  The process-wide parse caches are warm from round 1 on
// (their sync.Map loads then carry no happens-before edge from a sibling's recent store, which would otherwise
// order — and hide — an unsynchronised access that lags slightly behind).

type pConc struct {
	Archs  []rArch    `json:"archs"`
	Worlds [][]string `json:"worlds"`
	G      int        `json:"goroutines"`
	Rounds int        `json:"rounds"`
	Seed   uint64     `json:"seed"`
}

// noteHistory records the history that is about to run (suite, case, a description) in the file named by
// VERIF_HISTORY_FILE: when the race detector halts the process, ./check puts it into the replay so that the
// report names a concrete input (`harness-race replay --file <replay>` runs exactly this case again).
func noteHistory(raw json.RawMessage, format string, a ...any) {
	p := os.Getenv("VERIF_HISTORY_FILE")
	if p == "" {
		return
	}
	b, err := json.Marshal(map[string]any{"suite": "purity", "case": raw, "history": fmt.Sprintf(format, a...)})
	if err != nil {
		return
	}
	_ = os.WriteFile(p, b, 0o644)
}

var providedKinds = []string{"so:lib%d.so.1", "cmd:tool%d", "pc:z%d", "virt%d", "so:lib%d.so.1"}

// genProvided: n groups; group i = one provided name, 2-4 providers (different package names, package versions,
// provided versions, provider priorities, a second and third provides entry on some), one consumer `app<i>` that
// depends on the provided name (versioned in ~35%, and on the previous group's provided name in ~25%: chains).
func genProvided(r *Rng, tier string) *pConc {
	n := r.Range(10, 28)
	c := &pConc{G: r.Range(4, 8), Rounds: r.Range(3, 5), Seed: r.Next()}
	if tier == "thorough" {
		n = r.Range(16, 48)
		c.G, c.Rounds = r.Range(6, 12), r.Range(4, 8)
	}
	ix := rIndex{URI: "https://conc.test/main/x86_64"}
	var second *rIndex
	if r.Chance(35) {
		second = &rIndex{URI: "https://conc2.test/main/x86_64"}
		if r.Chance(40) {
			second.Pin = "edge"
		}
	}
	var apps, provided []string
	prev := ""
	for i := 0; i < n; i++ {
		name := fmt.Sprintf(Pick(r, providedKinds), i)
		provided = append(provided, name)
		np := r.Range(2, 4)
		var pvers []string
		for k := 0; k < np; k++ {
			p := rPkg{Name: fmt.Sprintf("p%d%c", i, 'a'+k), Version: Pick(r, verPool)}
			switch r.Intn(10) {
			case 0, 1: // unversioned: provides at its own package version
				p.Provides = []string{name}
			case 2, 3:
				p.Provides = []string{name + "=" + p.Version}
				pvers = append(pvers, p.Version)
			default:
				v := Pick(r, verPool)
				p.Provides = []string{name + "=" + v}
				pvers = append(pvers, v)
			}
			if r.Chance(45) {
				// more entries in front of / behind the one that is looked for
				extra := fmt.Sprintf("alt%d=%s", i, Pick(r, verPool))
				if r.Chance(50) {
					extra = fmt.Sprintf("cmd:alt%d", i)
				}
				if r.Bool() {
					p.Provides = append([]string{extra}, p.Provides...)
				} else {
					p.Provides = append(p.Provides, extra)
				}
			}
			if r.Chance(30) {
				p.Priority = uint64(Pick(r, []int{0, 5, 10, 20}))
			}
			if r.Chance(15) {
				p.Origin = fmt.Sprintf("o%d", i)
			}
			if second != nil && r.Chance(30) {
				second.Pkgs = append(second.Pkgs, p)
			} else {
				ix.Pkgs = append(ix.Pkgs, p)
			}
		}
		dep := name
		if len(pvers) > 0 && r.Chance(35) {
			// satisfiable by the provider the version was taken from
			dep = name + Pick(r, []string{">=", "=", "<=", "~"}) + Pick(r, pvers)
		}
		app := rPkg{Name: fmt.Sprintf("app%d", i), Version: Pick(r, verPool), Deps: []string{dep}}
		if prev != "" && r.Chance(25) {
			app.Deps = append(app.Deps, prev)
		}
		prev = ""
		if dep == name {
			prev = name // only unversioned names are chained (two requirements on one provided name mostly exclude each other)
		}
		if r.Chance(2) {
			app.Deps = append(app.Deps, "!"+fmt.Sprintf("p%d%c", i, 'a'+r.Intn(np)))
		}
		ix.Pkgs = append(ix.Pkgs, app)
		apps = append(apps, app.Name)
	}
	r.Shuffle(len(ix.Pkgs), func(a, b int) { ix.Pkgs[a], ix.Pkgs[b] = ix.Pkgs[b], ix.Pkgs[a] })
	base := []rIndex{ix}
	if second != nil {
		base = append(base, *second)
	}
	c.Archs = []rArch{{Arch: "x86_64", Indexes: base}}
	if r.Chance(35) {
		// a sibling architecture: a few providers missing or built at another version (the cross-architecture
		// disqualification then removes candidates, and the conflict test reads their provides)
		sib := rArch{Arch: "aarch64"}
		for _, b := range base {
			n := rIndex{Pin: b.Pin, URI: strings.Replace(b.URI, "x86_64", "aarch64", 1)}
			for _, p := range b.Pkgs {
				if strings.HasPrefix(p.Name, "p") && r.Chance(5) {
					continue
				}
				if strings.HasPrefix(p.Name, "p") && r.Chance(4) {
					p.Version = Pick(r, verPool)
				}
				n.Pkgs = append(n.Pkgs, p)
			}
			sib.Indexes = append(sib.Indexes, n)
		}
		c.Archs = append(c.Archs, sib)
	}
	// worlds: every consumer; the provided names themselves (some versioned / pinned); a mixed subset
	all := append([]string(nil), apps...)
	r.Shuffle(len(all), func(a, b int) { all[a], all[b] = all[b], all[a] })
	c.Worlds = append(c.Worlds, all)
	var direct []string
	for _, p := range provided {
		if r.Chance(70) {
			direct = append(direct, p)
		}
	}
	if len(direct) == 0 {
		direct = []string{provided[0]}
	}
	if second != nil && second.Pin != "" && r.Bool() {
		direct[0] += "@" + second.Pin
	}
	c.Worlds = append(c.Worlds, direct)
	if r.Chance(60) {
		var mixed []string
		for i := range apps {
			switch r.Intn(3) {
			case 0:
				mixed = append(mixed, apps[i])
			case 1:
				mixed = append(mixed, provided[i])
			}
		}
		if len(mixed) > 0 {
			c.Worlds = append(c.Worlds, mixed)
		}
	}
	return c
}

type pcKey struct {
	arch, world int
	multi       bool
}

func concSteps(raw json.RawMessage, c *pConc) []Step {
	if c == nil || len(c.Archs) == 0 || len(c.Worlds) == 0 {
		return nil
	}
	var steps []Step
	var keys []pcKey
	for a := range c.Archs {
		for w := range c.Worlds {
			keys = append(keys, pcKey{a, w, false})
			if len(c.Archs) > 1 {
				keys = append(keys, pcKey{a, w, true})
			}
		}
	}
	// the plans of every round first: what each goroutine will ask.  Most goroutines of a round ask the same question
	// (they walk the same candidates at the same time)
	r := &Rng{s: c.Seed}
	type pcRound struct {
		plans        []pcKey
		early, probe []bool
	}
	rounds := make([]pcRound, c.Rounds)
	used := map[pcKey]bool{}
	var usedKeys []pcKey
	for i := range rounds {
		rd := pcRound{plans: make([]pcKey, c.G), early: make([]bool, c.G), probe: make([]bool, c.G)}
		main := keys[r.Intn(len(keys))]
		for g := range rd.plans {
			rd.plans[g] = main
			if r.Chance(25) {
				rd.plans[g] = keys[r.Intn(len(keys))]
			}
			rd.early[g] = r.Chance(60) // resolver obtained before the barrier (otherwise the cache lookup is part of the race)
			rd.probe[g] = r.Chance(25) // ResolvePackage of the world's entries first (filter + in-place sort of the clone's list)
			if !used[rd.plans[g]] {
				used[rd.plans[g]] = true
				usedKeys = append(usedKeys, rd.plans[g])
			}
		}
		rounds[i] = rd
	}
	// fresh-state answers for the questions asked (caches reset, new objects, sequential); the one with the shortest world in
	// a sixth of the cases also against the model (Impl.resolve over ~100 packages is the expensive part)
	fresh := map[pcKey]string{}
	small := 0
	for i, k := range usedKeys {
		if len(c.Worlds[k.world]) < len(c.Worlds[usedKeys[small].world]) {
			small = i
		}
	}
	for i, k := range usedKeys {
		apk.VerifResetGlobalCaches()
		fresh[k] = resolveBuilt(buildFamily(c.Archs), k.arch, c.Worlds[k.world], k.multi)
		if i != small || c.Seed%6 != 0 {
			continue
		}
		archs := c.Archs
		if !k.multi {
			archs = []rArch{c.Archs[k.arch]}
		}
		fields := append([]string{"r.corr", xl(c.Worlds[k.world]), xs(c.Archs[k.arch].Arch)}, encodeArchs(archs)...)
		fields = append(fields, fresh[k])
		steps = append(steps, Step{Line: strings.Join(fields, "\t"), Go: fresh[k], Mode: "verdict", Trivial: fresh[k] == "err",
			Desc: "provided-name universe: " + describeCase(rCase{Archs: archs, World: c.Worlds[k.world]}, 0), Tags: []string{"conc-fresh:" + strings.SplitN(fresh[k], " ", 2)[0]}})
	}
	npk, nprov := 0, map[string]int{}
	for _, ix := range c.Archs[0].Indexes {
		npk += len(ix.Pkgs)
		for _, p := range ix.Pkgs {
			for _, pr := range p.Provides {
				if i := strings.IndexAny(pr, "=<>~"); i >= 0 {
					pr = pr[:i]
				}
				nprov[pr]++
			}
		}
	}
	multiProv := 0
	for _, k := range nprov {
		if k >= 2 {
			multiProv++
		}
	}
	ctx := context.Background()
	var diverged []string
	total := 0
	apk.VerifResetGlobalCaches()
	for round := 0; round < c.Rounds; round++ {
		built := buildFamily(c.Archs) // objects nobody has looked at yet
		plans, early, probe := rounds[round].plans, rounds[round].early, rounds[round].probe
		noteHistory(raw, "p.conc round %d of %d: %d goroutines start from a barrier over the same fresh index objects (%d packages, %d provided names with >= 2 providers, %d architectures); goroutine g resolves (arch, world, multi) = %+v, resolver obtained before the barrier: %v, ResolvePackage first: %v",
			round, c.Rounds, c.G, npk, multiProv, len(c.Archs), plans, early, probe)
		var (
			wg, ready sync.WaitGroup
			start     = make(chan struct{})
			got       = make([]string, c.G)
		)
		for g := 0; g < c.G; g++ {
			wg.Add(1)
			ready.Add(1)
			go func(g int) {
				defer wg.Done()
				k := plans[g]
				var res *apk.PkgResolver
				if early[g] {
					res = apk.NewPkgResolver(ctx, built[k.arch].indexes)
				}
				ready.Done()
				<-start
				if res == nil {
					res = apk.NewPkgResolver(ctx, built[k.arch].indexes)
				}
				if probe[g] {
					for _, e := range c.Worlds[k.world] {
						_, _ = res.ResolvePackage(e, map[*apk.RepositoryPackage]string{})
					}
				}
				got[g] = resolveWith(ctx, res, built, k.arch, c.Worlds[k.world], k.multi)
			}(g)
		}
		ready.Wait()
		close(start)
		wg.Wait()
		for g := range got {
			total++
			if got[g] != fresh[plans[g]] && len(diverged) < 5 {
				diverged = append(diverged, fmt.Sprintf("round %d goroutine %d of %d %+v: fresh=%s concurrent first touch=%s", round, g, c.G, plans[g], fresh[plans[g]], got[g]))
			}
		}
	}
	noteHistory(raw, "after the concurrent first-touch rounds")
	out := "consistent"
	if len(diverged) > 0 {
		out = "diverged: " + diverged[0]
	}
	steps = append(steps, Step{Line: "p.conc", Go: out,
		Desc: fmt.Sprintf("%d rounds x %d goroutines from a barrier over fresh shared index objects: %d packages, %d provided names with >= 2 providers, %d worlds, %d architectures", c.Rounds, c.G, npk, multiProv, len(c.Worlds), len(c.Archs)),
		Tags: []string{"conc:" + strings.SplitN(out, ":", 2)[0], fmt.Sprintf("conc-goroutines:%d", c.G), fmt.Sprintf("conc-provided-names:%d", multiProv/10*10), fmt.Sprintf("conc-resolutions:%d", total/10*10)}})
	return steps
}

// resolveWith: resolveBuiltCtx on a resolver the caller obtained
func resolveWith(ctx context.Context, res *apk.PkgResolver, built []builtArch, self int, world []string, multi bool) string {
	all := map[string][]apk.NamedIndex{}
	if multi {
		for _, b := range built {
			all[b.arch] = b.indexes
		}
	} else {
		all[built[self].arch] = built[self].indexes
	}
	inst, conflicts, err := res.GetPackagesWithDependencies(ctx, world, all)
	if err != nil {
		return "err"
	}
	ids := make([]string, len(inst))
	for i, p := range inst {
		id, ok := built[self].ids[p.Package]
		if !ok {
			id = 999999
		}
		ids[i] = fmt.Sprint(id)
	}
	return "ok " + strings.Join(ids, ",") + "|" + xl(conflicts)
}
