package main

// End-to-end part of corr:layers on whole `apko build` runs against a synthetic repository (C10), with the knob the
// direct cases cannot turn: whether a package cache is configured (none when neither a cache dir is given nor
// HOME / XDG_CACHE_HOME are set — the installer then takes another path).
//
// The same configuration is built twice through internal/cli.BuildCmd, without `layering` and with
// `layering: {strategy: origin, budget: b}`.  The oracle does not use tarfs' owner side channel: the packages (name,
// origin, version, installed size, replaces) and the owner of every non-directory path are read from
// lib/apk/db/installed of the single-layer image; the groups are the model's groupByOriginAndSize of those packages;
// the Lean driver (l.e2esplit) then demands of the emitted layers what it demands of splitLayers: every file exactly
// once, in the layer of its owner's group (top when unowned), well-formed layers, true directories on top, and the
// flattened image equal to the single-layer image.

import (
	"archive/tar"
	"bytes"
	"compress/gzip"
	"crypto/sha256"
	"fmt"
	"io"
	"os"
	"sort"
	"strings"

	"chainguard.dev/apko/pkg/build/types"
)

type gluelayerLayersCase struct {
	Img    ImgCase `json:"img"`
	Budget int     `json:"budget"`
	Cache  string  `json:"cache"` // user (the default user cache dir) | off (no cache can be determined) | dir (--cache-dir)
}

func genGluelayerLayers(r *Rng) *gluelayerLayersCase {
	img := genImageCase(r)
	gluelayerSetArchs(r, &img, []string{Pick(r, []string{"x86_64", "aarch64", "armv7"})})
	img.SBOM = false
	if r.Chance(50) {
		// account files shipped by a package and rewritten by the build keep their owner
		img.Pkgs = append(img.Pkgs, gluelayerAccountsPkg(true, true))
		img.IC.Contents.Packages = append(img.IC.Contents.Packages, "gl-accounts")
	}
	// every package in the world: more groups
	if r.Chance(50) {
		for _, p := range img.Pkgs {
			if !contains(img.IC.Contents.Packages, p.Name) && len(p.OnlyArch) == 0 {
				img.IC.Contents.Packages = append(img.IC.Contents.Packages, p.Name)
			}
		}
	}
	return &gluelayerLayersCase{Img: img, Budget: Pick(r, []int{1, 2, 3, 3, 5, 8, 12}), Cache: Pick(r, []string{"user", "off", "off", "dir"})}
}

// gluelayerReadLayerBlob: lReadLayer on the bytes of a blob.
func gluelayerReadLayerBlob(blob []byte) ([]lEntry, error) {
	zr, err := gzip.NewReader(bytes.NewReader(blob))
	if err != nil {
		return nil, err
	}
	tr := tar.NewReader(zr)
	var out []lEntry
	for {
		h, err := tr.Next()
		if err == io.EOF {
			break
		}
		if err != nil {
			return nil, err
		}
		body := sha256.New()
		if _, err := io.Copy(body, tr); err != nil {
			return nil, err
		}
		keys := make([]string, 0, len(h.PAXRecords))
		for k := range h.PAXRecords {
			if k == "mtime" || k == "atime" || k == "ctime" || k == "path" {
				continue
			}
			keys = append(keys, k)
		}
		sort.Strings(keys)
		var pax strings.Builder
		for _, k := range keys {
			fmt.Fprintf(&pax, "%s=%s;", k, h.PAXRecords[k])
		}
		name := strings.TrimSuffix(h.Name, "/")
		dig := fmt.Sprintf("%c|%o|%d|%d|%s|%s|%s|%d|%d|%d|%s|%x", h.Typeflag, h.Mode, h.Uid, h.Gid, h.Uname, h.Gname, h.Linkname, h.Size,
			h.Devmajor, h.Devminor, pax.String(), body.Sum(nil))
		if name == "etc/apko.json" {
			dig = "etc/apko.json" // the embedded copy of the configuration records the layering request
		}
		out = append(out, lEntry{path: name, isDir: h.Typeflag == tar.TypeDir, mtime: h.ModTime.Unix(), dig: dig})
	}
	if _, err := io.Copy(io.Discard, zr); err != nil {
		return nil, err
	}
	return out, nil
}

func runGluelayerLayers(g *gluelayerLayersCase) []Step {
	img := g.Img
	arch := img.Archs[0]
	repo := BuildSynthRepo(img.Pkgs, img.Archs)
	repoDir, err := os.MkdirTemp("", "gluelayer-repo-")
	if err != nil {
		panic(err)
	}
	defer os.RemoveAll(repoDir)
	repo.WriteTo(repoDir)
	opts := E2EOpts{Archs: img.Archs}
	if g.Cache == "dir" {
		cd, err := os.MkdirTemp("", "gluelayer-cache-")
		if err != nil {
			panic(err)
		}
		defer os.RemoveAll(cd)
		opts.CacheDir = cd
	}
	buildOne := func(layered bool) E2EOut {
		ic := img.IC
		ic.Layering = nil
		if layered {
			ic.Layering = &types.Layering{Strategy: "origin", Budget: g.Budget}
		}
		var out E2EOut
		if g.Cache == "off" {
			gluelayerWithoutUserCache(func() { out = e2eBuildAt(ic, repo, repoDir, opts) })
		} else {
			out = e2eBuildAt(ic, repo, repoDir, opts)
		}
		return out
	}
	desc := fmt.Sprintf("apko build arch=%s world=%v layering budget=%d package-cache=%s (%d packages in the repository)", arch, img.IC.Contents.Packages, g.Budget, g.Cache, len(img.Pkgs))
	tags := []string{"glue", "glue:cache:" + g.Cache, fmt.Sprintf("glue:budget:%d", g.Budget)}
	trivial := func(why string, err error) []Step {
		return []Step{{Line: "l.e2e\t-\t-\t-", Mode: "oracle-go", NoImpl: true, GoSpec: "pass", Trivial: true,
			Desc: desc + ": " + why + ": " + firstLine(err.Error()), Tags: append(tags, "glue:"+why)}}
	}
	single := buildOne(false)
	if single.Err != nil {
		return trivial("single-layer-build-error", single.Err)
	}
	multi := buildOne(true)
	fail := func(why string) []Step {
		return []Step{{Line: "l.e2e\t-\t-\t-", Mode: "oracle-go", NoImpl: true, GoSpec: "fail:" + why, Desc: desc, Tags: append(tags, "glue:unreadable")}}
	}
	if multi.Err != nil {
		return fail("the configuration builds without layering and fails with it: " + firstLine(multi.Err.Error()))
	}
	read := func(out E2EOut) (*gluelayerImage, [][]lEntry, string) {
		idx, ok := out.Files["layout/index.json"]
		if !ok {
			return nil, nil, "no index.json"
		}
		imgs, ip := gluelayerReadIndex(idx, gluelayerLayoutBlob(out.Files))
		im := gluelayerImageOf(imgs, arch)
		if im == nil {
			return nil, nil, "no image for " + arch
		}
		if p := append(ip, im.Problems...); len(p) > 0 {
			return nil, nil, gluelayerFirst(p, 3)
		}
		var ls [][]lEntry
		for i, b := range im.Blobs {
			es, err := gluelayerReadLayerBlob(b)
			if err != nil {
				return nil, nil, fmt.Sprintf("layer %d is not a valid tar: %v", i, err)
			}
			ls = append(ls, es)
		}
		return im, ls, ""
	}
	sim, sl, why := read(single)
	if why != "" {
		return fail("single-layer image: " + why)
	}
	if len(sl) != 1 {
		return fail(fmt.Sprintf("the build without layering has %d layers", len(sl)))
	}
	_, ml, why := read(multi)
	if why != "" {
		return fail("multi-layer image: " + why)
	}
	// packages and owners from the installed database of the single-layer image
	sfs, err := gluelayerFlatten(sim)
	if err != nil {
		return fail("single-layer image: " + err.Error())
	}
	db, _ := gluelayerFile(sfs, "lib/apk/db/installed")
	ipkgs := gluelayerInstalled(db)
	owner := map[string]string{}
	var pe []string
	for _, p := range ipkgs {
		for _, f := range p.Files {
			owner[f] = p.Name
		}
		reps := make([]string, len(p.Replaces))
		for j, r := range p.Replaces {
			reps[j] = hx(r)
		}
		pe = append(pe, fmt.Sprintf("%s,%s,%s,%d,%s", hx(p.Name), hx(p.Origin), hx(p.Version), p.Size, strings.Join(reps, ":")))
	}
	ids := map[string]int{}
	ws := make([]string, len(sl[0]))
	nOwned := 0
	for i, e := range sl[0] {
		if _, ok := ids[e.dig]; !ok {
			ids[e.dig] = len(ids)
		}
		k, o := "f", owner[e.path]
		if e.isDir {
			k, o = "d", ""
		}
		if o != "" {
			nOwned++
		}
		ws[i] = fmt.Sprintf("%s,%s,%d,%d,%s", hx(e.path), k, e.mtime, ids[e.dig], hx(o))
	}
	sout := "ok " + lEncLayers(ml, ids)
	var sizes []string
	for _, l := range ml {
		n := 0
		for _, e := range l {
			if !e.isDir {
				n++
			}
		}
		sizes = append(sizes, fmt.Sprint(n))
	}
	tags = append(tags, fmt.Sprintf("glue:layers:%d", len(ml)), fmt.Sprintf("glue:pkgs:%d", min(len(ipkgs), 10)))
	steps := []Step{{
		Line: fmt.Sprintf("l.e2esplit\t%d\t%s\t%s\t%s", g.Budget, strings.Join(pe, ";"), strings.Join(ws, ";"), sout), Go: sout, Mode: "verdict", NoImpl: true,
		Desc: fmt.Sprintf("%s: %d installed packages, %d of %d entries owned by a package (installed database); files per emitted layer %v", desc, len(ipkgs), nOwned, len(sl[0]), sizes),
		Tags: tags,
	}}
	// the count bound, on the bytes
	verdict := "pass"
	if g.Budget >= 1 && len(ml) > g.Budget+1 {
		verdict = fmt.Sprintf("fail:budget %d, %d layers", g.Budget, len(ml))
	}
	steps = append(steps, Step{Line: fmt.Sprintf("l.bytes\t%d\tglue", g.Budget), Mode: "oracle-go", NoImpl: true, GoSpec: verdict, Desc: desc + ": number of layers", Tags: []string{"glue:bytes:" + strings.SplitN(verdict, ":", 2)[0]}})
	return steps
}
