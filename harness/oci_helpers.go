package main

// helpers of the oci suite: synthetic layers, a lenient block-level tar parser, the standard
// reader, and the byte-level well-formedness oracles.

import (
	"archive/tar"
	"bytes"
	"compress/gzip"
	"crypto/sha256"
	"encoding/hex"
	"encoding/json"
	"fmt"
	"io"
	"os"
	"reflect"
	"strconv"
	"strings"
	"sync"

	"github.com/google/go-containerregistry/pkg/name"
	v1 "github.com/google/go-containerregistry/pkg/v1"
	"github.com/google/go-containerregistry/pkg/v1/layout"
	"github.com/google/go-containerregistry/pkg/v1/tarball"
	ggcrtypes "github.com/google/go-containerregistry/pkg/v1/types"
	"github.com/google/go-containerregistry/pkg/v1/validate"
	coci "github.com/sigstore/cosign/v2/pkg/oci"
)

var ociLayerCache sync.Map

// ociLayer builds a v1.Layer from a small deterministic tar archive (no package repository involved).
func ociLayer(seed int) v1.Layer {
	if l, ok := ociLayerCache.Load(seed); ok {
		return l.(v1.Layer)
	}
	var buf bytes.Buffer
	tw := tar.NewWriter(&buf)
	r := NewRng(uint64(seed), "oci-layer", 0)
	n := 1 + r.Intn(3)
	for i := 0; i < n; i++ {
		body := bytes.Repeat([]byte{byte('a' + r.Intn(26))}, r.Intn(3000))
		if r.Chance(30) {
			body = nil
		}
		_ = tw.WriteHeader(&tar.Header{Name: fmt.Sprintf("usr/share/l%d/f%d", seed, i), Mode: 0o644, Size: int64(len(body)), Typeflag: tar.TypeReg})
		_, _ = tw.Write(body)
	}
	_ = tw.Close()
	b := buf.Bytes()
	l, err := tarball.LayerFromOpener(func() (io.ReadCloser, error) { return io.NopCloser(bytes.NewReader(b)), nil }, tarball.WithMediaType(ggcrtypes.OCILayer))
	if err != nil {
		panic(err)
	}
	ociLayerCache.Store(seed, l)
	return l
}

type rawEntry struct {
	name string
	size int64
	off  int64 // offset of the data
	sum  string
}

// rawTar walks the file block by block without giving up: a block with a valid ustar checksum is a
// header (its data blocks are skipped), an all-zero block is Z, anything else is D.
func rawTar(b []byte) ([]rawEntry, []string) {
	var ents []rawEntry
	var blocks []string
	for off := 0; off+512 <= len(b); {
		blk := b[off : off+512]
		if bytes.Equal(blk, make([]byte, 512)) {
			blocks = append(blocks, "Z")
			off += 512
			continue
		}
		name, size, ok := parseHeader(blk)
		if !ok {
			blocks = append(blocks, "D")
			off += 512
			continue
		}
		blocks = append(blocks, fmt.Sprintf("H%s:%d", hx(name), size))
		nb := int((size + 511) / 512)
		e := rawEntry{name: name, size: size, off: int64(off + 512)}
		end := off + 512 + int(size)
		if end <= len(b) {
			h := sha256.Sum256(b[off+512 : end])
			e.sum = hex.EncodeToString(h[:])
		}
		ents = append(ents, e)
		off += 512
		for i := 0; i < nb && off+512 <= len(b); i++ {
			blocks = append(blocks, "D")
			off += 512
		}
	}
	if len(b)%512 != 0 {
		blocks = append(blocks, "D") // ragged tail
	}
	return ents, blocks
}

func parseHeader(blk []byte) (string, int64, bool) {
	var sum int64
	for i, c := range blk {
		if i >= 148 && i < 156 {
			c = ' '
		}
		sum += int64(c)
	}
	oct := func(f []byte) (int64, bool) {
		s := strings.Trim(string(f), " \x00")
		if s == "" {
			return 0, true
		}
		v, err := strconv.ParseInt(s, 8, 64)
		return v, err == nil
	}
	want, ok := oct(blk[148:156])
	if !ok || want != sum {
		return "", 0, false
	}
	size, ok := oct(blk[124:136])
	if !ok {
		return "", 0, false
	}
	nm := blk[0:100]
	if i := bytes.IndexByte(nm, 0); i >= 0 {
		nm = nm[:i]
	}
	name := string(nm)
	if string(blk[257:262]) == "ustar" {
		pf := blk[345:500]
		if i := bytes.IndexByte(pf, 0); i >= 0 {
			pf = pf[:i]
		}
		if len(pf) > 0 {
			name = string(pf) + "/" + name
		}
	}
	return name, size, true
}

// stdTar reads the archive to its end with archive/tar.
func stdTar(b []byte) ([]rawEntry, error) {
	tr := tar.NewReader(bytes.NewReader(b))
	var out []rawEntry
	for {
		h, err := tr.Next()
		if err == io.EOF {
			return out, nil
		}
		if err != nil {
			return out, err
		}
		hh := sha256.New()
		n, err := io.Copy(hh, tr)
		if err != nil {
			return out, err
		}
		if n != h.Size {
			return out, fmt.Errorf("short entry %s", h.Name)
		}
		out = append(out, rawEntry{name: h.Name, size: h.Size, sum: hex.EncodeToString(hh.Sum(nil))})
	}
}

func sha(b []byte) string {
	h := sha256.Sum256(b)
	return hex.EncodeToString(h[:])
}

// ociCheckImage recomputes every digest and size of an image from its blobs.
func ociCheckImage(img coci.SignedImage, rc *ociRawConfig, layers []v1.Layer, created string) []string {
	var p []string
	bad := func(f string, a ...any) { p = append(p, fmt.Sprintf(f, a...)) }
	rawM, err := img.RawManifest()
	if err != nil {
		return append(p, "RawManifest: "+err.Error())
	}
	var m v1.Manifest
	if err := json.Unmarshal(rawM, &m); err != nil {
		return append(p, "manifest json: "+err.Error())
	}
	rawC, _ := img.RawConfigFile()
	if m.Config.Digest.String() != "sha256:"+sha(rawC) || m.Config.Size != int64(len(rawC)) {
		bad("config descriptor %s/%d does not match the config blob sha256:%s/%d", m.Config.Digest, m.Config.Size, sha(rawC), len(rawC))
	}
	if m.MediaType != ggcrtypes.OCIManifestSchema1 || m.Config.MediaType != ggcrtypes.OCIConfigJSON || m.SchemaVersion != 2 {
		bad("media types %s / %s schema %d", m.MediaType, m.Config.MediaType, m.SchemaVersion)
	}
	if d, err := img.Digest(); err != nil || d.String() != "sha256:"+sha(rawM) {
		bad("image digest %v is not the hash of the manifest", d)
	}
	if sz, err := img.Size(); err != nil || sz != int64(len(rawM)) {
		bad("image size %d is not the manifest length %d", sz, len(rawM))
	}
	if len(m.Layers) != len(layers) || len(rc.RootFS.DiffIDs) != len(layers) || len(rc.History) != len(layers) {
		bad("%d layers in: %d layer descriptors, %d diff-ids, %d history entries", len(layers), len(m.Layers), len(rc.RootFS.DiffIDs), len(rc.History))
		return p
	}
	for i, l := range layers {
		rcz, err := l.Compressed()
		if err != nil {
			bad("layer %d: %v", i, err)
			continue
		}
		comp, _ := io.ReadAll(rcz)
		rcz.Close()
		if m.Layers[i].Digest.String() != "sha256:"+sha(comp) || m.Layers[i].Size != int64(len(comp)) {
			bad("layer %d descriptor %s/%d does not match the blob sha256:%s/%d", i, m.Layers[i].Digest, m.Layers[i].Size, sha(comp), len(comp))
		}
		if m.Layers[i].MediaType != ggcrtypes.OCILayer {
			bad("layer %d media type %s", i, m.Layers[i].MediaType)
		}
		zr, err := gzip.NewReader(bytes.NewReader(comp))
		if err != nil {
			bad("layer %d is not gzip: %v", i, err)
			continue
		}
		plain, _ := io.ReadAll(zr)
		if rc.RootFS.DiffIDs[i] != "sha256:"+sha(plain) {
			bad("diff-id %d %s is not the hash of the uncompressed layer sha256:%s", i, rc.RootFS.DiffIDs[i], sha(plain))
		}
	}
	for i, h := range rc.History {
		var he struct {
			Created string `json:"created"`
		}
		if err := json.Unmarshal(h, &he); err != nil || he.Created != created {
			bad("history %d created %q, want %q", i, he.Created, created)
		}
	}
	if rc.RootFS.Type != "layers" {
		bad("rootfs type %q", rc.RootFS.Type)
	}
	// the manifest annotations mirror the labels (declared annotations + vcs + created)
	ann := m.Annotations
	if ann == nil {
		ann = map[string]string{}
	}
	lab := rc.Config.Labels
	if lab == nil {
		lab = map[string]string{}
	}
	if !reflect.DeepEqual(ann, lab) {
		bad("manifest annotations %v differ from the config labels %v", ann, lab)
	}
	return p
}

func ociCheckIndex(idx coci.SignedImageIndex, im *v1.IndexManifest, labels map[string]string, get func(v1.Hash) (coci.SignedImage, bool)) []string {
	var p []string
	bad := func(f string, a ...any) { p = append(p, fmt.Sprintf(f, a...)) }
	// go-containerregistry's validator over the emitted bytes: write the OCI layout (what `apko build` does
	// for a directory output), load it back, validate the index and, recursively, every image and layer
	if dir, err := os.MkdirTemp("", "oci-layout-*"); err == nil {
		defer os.RemoveAll(dir)
		if _, err := layout.Write(dir, idx); err != nil {
			bad("layout.Write: %v", err)
		} else if li, err := layout.ImageIndexFromPath(dir); err != nil {
			bad("layout.ImageIndexFromPath: %v", err)
		} else if err := validate.Index(li); err != nil {
			bad("validate.Index(layout): %v", strings.ReplaceAll(err.Error(), "\n", " "))
		}
	}
	raw, err := idx.RawManifest()
	if err != nil {
		return append(p, "RawManifest: "+err.Error())
	}
	if d, err := idx.Digest(); err != nil || d.String() != "sha256:"+sha(raw) {
		bad("index digest %v is not the hash of index.json", d)
	}
	if im.MediaType != ggcrtypes.OCIImageIndex {
		bad("index media type %s", im.MediaType)
	}
	for _, m := range im.Manifests {
		img, ok := get(m.Digest)
		if !ok {
			bad("index entry %s is none of the images built", m.Digest)
			continue
		}
		rm, _ := img.RawManifest()
		if m.Digest.String() != "sha256:"+sha(rm) || m.Size != int64(len(rm)) {
			bad("index descriptor %s/%d does not match the manifest sha256:%s/%d", m.Digest, m.Size, sha(rm), len(rm))
		}
		if m.MediaType != ggcrtypes.OCIManifestSchema1 {
			bad("index entry media type %s", m.MediaType)
		}
		cf, err := img.ConfigFile()
		if err == nil && m.Platform != nil && (cf.Architecture != m.Platform.Architecture || cf.Variant != m.Platform.Variant || cf.OS != m.Platform.OS) {
			bad("index platform %v differs from the image config %s/%s/%s", m.Platform, cf.OS, cf.Architecture, cf.Variant)
		}
	}
	ann := im.Annotations
	if ann == nil {
		ann = map[string]string{}
	}
	if labels == nil {
		labels = map[string]string{}
	}
	if !reflect.DeepEqual(ann, labels) {
		bad("index annotations %v differ from the image labels %v", ann, labels)
	}
	return p
}

// ociCheckBundle: the bundle is readable to its end by archive/tar and holds index.json, every
// manifest of the index and, for every manifest, its config and layers — all with matching hashes.
func ociCheckBundle(data []byte, stdErr error, std []rawEntry, im *v1.IndexManifest, rawIdx []byte, get func(v1.Hash) (coci.SignedImage, bool)) []string {
	var p []string
	bad := func(f string, a ...any) { p = append(p, fmt.Sprintf(f, a...)) }
	if stdErr != nil {
		bad("archive/tar cannot read the bundle to its end: %v", stdErr)
	}
	byName := map[string]rawEntry{}
	for _, e := range std {
		byName[e.name] = e
	}
	if e, ok := byName["index.json"]; !ok {
		bad("index.json missing")
	} else if e.sum != sha(rawIdx) {
		bad("index.json differs from the index manifest")
	}
	if _, ok := byName["manifest.json"]; !ok {
		bad("manifest.json missing")
	}
	for _, m := range im.Manifests {
		e, ok := byName[m.Digest.String()]
		if !ok {
			bad("manifest %s missing", m.Digest)
			continue
		}
		if "sha256:"+e.sum != m.Digest.String() || e.size != m.Size {
			bad("manifest entry %s has hash %s size %d", m.Digest, e.sum, e.size)
		}
		img, ok := get(m.Digest)
		if !ok {
			continue
		}
		mf, err := img.Manifest()
		if err != nil {
			continue
		}
		if ce, ok := byName[mf.Config.Digest.String()]; !ok {
			bad("config %s of manifest %s (%v) missing from the bundle", mf.Config.Digest, m.Digest, m.Platform)
		} else if "sha256:"+ce.sum != mf.Config.Digest.String() || ce.size != mf.Config.Size {
			bad("config entry %s has hash %s size %d", mf.Config.Digest, ce.sum, ce.size)
		}
		for _, l := range mf.Layers {
			le, ok := byName[l.Digest.Hex+".tar.gz"]
			if !ok {
				bad("layer %s of manifest %s (%v) missing from the bundle", l.Digest, m.Digest, m.Platform)
			} else if le.sum != l.Digest.Hex || le.size != l.Size {
				bad("layer entry %s has hash %s size %d", l.Digest, le.sum, le.size)
			}
		}
	}
	// every file manifest.json names exists
	if e, ok := byName["manifest.json"]; ok {
		ents, _ := rawTar(data)
		for _, re := range ents {
			if re.name == "manifest.json" && re.size == e.size {
				var tm []struct {
					Config string
					Layers []string
				}
				if err := json.Unmarshal(data[re.off:re.off+re.size], &tm); err != nil {
					bad("manifest.json: %v", err)
				}
				for _, d := range tm {
					if _, ok := byName[d.Config]; !ok {
						bad("manifest.json names missing config %s", d.Config)
					}
					for _, l := range d.Layers {
						if _, ok := byName[l]; !ok {
							bad("manifest.json names missing layer %s", l)
						}
					}
				}
				break
			}
		}
	}
	return p
}

// ociCheckTarball: the single-image tarball is readable to its end and loads as the expected image.
func ociCheckTarball(b []byte, want coci.SignedImage, ref string) []string {
	var p []string
	bad := func(f string, a ...any) { p = append(p, fmt.Sprintf(f, a...)) }
	std, err := stdTar(b)
	if err != nil {
		return append(p, fmt.Sprintf("archive/tar cannot read the tarball to its end: %v", err))
	}
	byName := map[string]rawEntry{}
	for _, e := range std {
		byName[e.name] = e
	}
	tag, err := name.NewTag(ref)
	if err != nil {
		return append(p, "tag: "+err.Error())
	}
	got, err := tarball.Image(func() (io.ReadCloser, error) { return io.NopCloser(bytes.NewReader(b)), nil }, &tag)
	if err != nil {
		return append(p, "tarball.Image: "+err.Error())
	}
	wc, _ := want.RawConfigFile()
	gc, err := got.RawConfigFile()
	if err != nil || !bytes.Equal(wc, gc) {
		bad("config in the tarball differs from BuildImageFromLayer's config")
	}
	cn, _ := want.ConfigName()
	if e, ok := byName[cn.String()]; !ok || "sha256:"+e.sum != cn.String() {
		bad("config blob %s missing or wrong", cn)
	}
	wl, _ := want.Layers()
	for _, l := range wl {
		d, _ := l.Digest()
		sz, _ := l.Size()
		if e, ok := byName[d.Hex+".tar.gz"]; !ok || e.sum != d.Hex || e.size != sz {
			bad("layer blob %s missing or wrong", d)
		}
	}
	if err := validate.Image(got); err != nil {
		bad("validate.Image(tarball): %v", strings.ReplaceAll(err.Error(), "\n", " "))
	}
	return p
}
