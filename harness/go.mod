module verif/harness

go 1.23.4

require (
	chainguard.dev/apko v0.23.0
	github.com/chainguard-dev/clog v1.7.0
	github.com/google/go-containerregistry v0.20.3
	github.com/google/shlex v0.0.0-20191202100458-e7afc7fbc510
	github.com/klauspost/compress v1.18.0
	github.com/sigstore/cosign/v2 v2.4.3
	golang.org/x/sys v0.32.0
	gopkg.in/yaml.v3 v3.0.1
)

require (
	chainguard.dev/go-grpc-kit v0.17.7 // indirect
	chainguard.dev/sdk v0.1.31 // indirect
	cloud.google.com/go/auth v0.16.0 // indirect
	cloud.google.com/go/auth/oauth2adapt v0.2.8 // indirect
	cloud.google.com/go/compute/metadata v0.6.0 // indirect
	dario.cat/mergo v1.0.1 // indirect
	filippo.io/edwards25519 v1.1.0 // indirect
	github.com/ProtonMail/go-crypto v1.1.5 // indirect
	github.com/asaskevich/govalidator v0.0.0-20230301143203-a9d515a09cc2 // indirect
	github.com/aymanbagabas/go-osc52/v2 v2.0.1 // indirect
	github.com/beorn7/perks v1.0.1 // indirect
	github.com/blang/semver v3.5.1+incompatible // indirect
	github.com/cespare/xxhash/v2 v2.3.0 // indirect
	github.com/charmbracelet/lipgloss v1.0.0 // indirect
	github.com/charmbracelet/log v0.4.1 // indirect
	github.com/charmbracelet/x/ansi v0.4.2 // indirect
	github.com/cloudflare/circl v1.6.0 // indirect
	github.com/common-nighthawk/go-figure v0.0.0-20210622060536-734e95fb86be // indirect
	github.com/containerd/stargz-snapshotter/estargz v0.16.3 // indirect
	github.com/cyberphone/json-canonicalization v0.0.0-20231011164504-785e29786b46 // indirect
	github.com/cyphar/filepath-securejoin v0.4.1 // indirect
	github.com/distribution/reference v0.6.0 // indirect
	github.com/docker/cli v27.5.0+incompatible // indirect
	github.com/docker/distribution v2.8.3+incompatible // indirect
	github.com/docker/docker v27.5.0+incompatible // indirect
	github.com/docker/docker-credential-helpers v0.8.2 // indirect
	github.com/docker/go-connections v0.5.0 // indirect
	github.com/docker/go-units v0.5.0 // indirect
	github.com/dustin/go-humanize v1.0.1 // indirect
	github.com/emirpasic/gods v1.18.1 // indirect
	github.com/felixge/httpsnoop v1.0.4 // indirect
	github.com/go-chi/chi v4.1.2+incompatible // indirect
	github.com/go-git/gcfg v1.5.1-0.20230307220236-3a3c6141e376 // indirect
	github.com/go-git/go-billy/v5 v5.6.2 // indirect
	github.com/go-git/go-git/v5 v5.14.0 // indirect
	github.com/go-jose/go-jose/v3 v3.0.4 // indirect
	github.com/go-jose/go-jose/v4 v4.0.5 // indirect
	github.com/go-logfmt/logfmt v0.6.0 // indirect
	github.com/go-logr/logr v1.4.2 // indirect
	github.com/go-logr/stdr v1.2.2 // indirect
	github.com/go-openapi/analysis v0.23.0 // indirect
	github.com/go-openapi/errors v0.22.0 // indirect
	github.com/go-openapi/jsonpointer v0.21.0 // indirect
	github.com/go-openapi/jsonreference v0.21.0 // indirect
	github.com/go-openapi/loads v0.22.0 // indirect
	github.com/go-openapi/runtime v0.28.0 // indirect
	github.com/go-openapi/spec v0.21.0 // indirect
	github.com/go-openapi/strfmt v0.23.0 // indirect
	github.com/go-openapi/swag v0.23.0 // indirect
	github.com/go-openapi/validate v0.24.0 // indirect
	github.com/gogo/protobuf v1.3.2 // indirect
	github.com/golang/groupcache v0.0.0-20241129210726-2c02b8208cf8 // indirect
	github.com/google/go-cmp v0.7.0 // indirect
	github.com/google/s2a-go v0.1.9 // indirect
	github.com/google/uuid v1.6.0 // indirect
	github.com/googleapis/enterprise-certificate-proxy v0.3.6 // indirect
	github.com/googleapis/gax-go/v2 v2.14.1 // indirect
	github.com/grpc-ecosystem/go-grpc-middleware v1.4.0 // indirect
	github.com/grpc-ecosystem/go-grpc-prometheus v1.2.1-0.20210315223345-82c243799c99 // indirect
	github.com/grpc-ecosystem/grpc-gateway/v2 v2.24.0 // indirect
	github.com/hashicorp/go-cleanhttp v0.5.2 // indirect
	github.com/hashicorp/go-retryablehttp v0.7.7 // indirect
	github.com/jbenet/go-context v0.0.0-20150711004518-d14ea06fba99 // indirect
	github.com/jedisct1/go-minisign v0.0.0-20230811132847-661be99b8267 // indirect
	github.com/josharian/intern v1.0.0 // indirect
	github.com/kelseyhightower/envconfig v1.4.0 // indirect
	github.com/kevinburke/ssh_config v1.2.0 // indirect
	github.com/klauspost/pgzip v1.2.6 // indirect
	github.com/letsencrypt/boulder v0.0.0-20240722223108-48439e453245 // indirect
	github.com/lucasb-eyer/go-colorful v1.2.0 // indirect
	github.com/mailru/easyjson v0.7.7 // indirect
	github.com/mattn/go-isatty v0.0.20 // indirect
	github.com/mitchellh/go-homedir v1.1.0 // indirect
	github.com/mitchellh/mapstructure v1.5.1-0.20231216201459-8508981c8b6c // indirect
	github.com/moby/docker-image-spec v1.3.1 // indirect
	github.com/muesli/termenv v0.16.0 // indirect
	github.com/munnerz/goautoneg v0.0.0-20191010083416-a7dc8b61c822 // indirect
	github.com/oklog/ulid v1.3.1 // indirect
	github.com/opencontainers/go-digest v1.0.0 // indirect
	github.com/opencontainers/image-spec v1.1.0 // indirect
	github.com/package-url/packageurl-go v0.1.3 // indirect
	github.com/pierrec/lz4/v4 v4.1.21 // indirect
	github.com/pjbgf/sha1cd v0.3.2 // indirect
	github.com/pkg/errors v0.9.1 // indirect
	github.com/prometheus/client_golang v1.20.5 // indirect
	github.com/prometheus/client_model v0.6.1 // indirect
	github.com/prometheus/common v0.62.0 // indirect
	github.com/prometheus/procfs v0.15.1 // indirect
	github.com/rivo/uniseg v0.4.7 // indirect
	github.com/sassoftware/relic v7.2.1+incompatible // indirect
	github.com/secure-systems-lab/go-securesystemslib v0.9.0 // indirect
	github.com/sergi/go-diff v1.3.2-0.20230802210424-5b0b94c5c0d3 // indirect
	github.com/sigstore/protobuf-specs v0.4.0 // indirect
	github.com/sigstore/rekor v1.3.9 // indirect
	github.com/sigstore/sigstore v1.8.15 // indirect
	github.com/sirupsen/logrus v1.9.3 // indirect
	github.com/skeema/knownhosts v1.3.1 // indirect
	github.com/skratchdot/open-golang v0.0.0-20200116055534-eef842397966 // indirect
	github.com/spf13/cobra v1.9.1 // indirect
	github.com/spf13/pflag v1.0.6 // indirect
	github.com/theupdateframework/go-tuf v0.7.0 // indirect
	github.com/titanous/rocacheck v0.0.0-20171023193734-afe73141d399 // indirect
	github.com/tmc/dot v0.0.0-20210901225022-f9bc17da75c0 // indirect
	github.com/u-root/u-root v0.14.0 // indirect
	github.com/u-root/uio v0.0.0-20240209044354-b3d14b93376a // indirect
	github.com/vbatts/tar-split v0.11.6 // indirect
	github.com/xanzy/ssh-agent v0.3.3 // indirect
	go.lsp.dev/uri v0.3.0 // indirect
	go.mongodb.org/mongo-driver v1.14.0 // indirect
	go.opentelemetry.io/auto/sdk v1.1.0 // indirect
	go.opentelemetry.io/contrib/instrumentation/google.golang.org/grpc/otelgrpc v0.60.0 // indirect
	go.opentelemetry.io/contrib/instrumentation/net/http/otelhttp v0.60.0 // indirect
	go.opentelemetry.io/otel v1.35.0 // indirect
	go.opentelemetry.io/otel/metric v1.35.0 // indirect
	go.opentelemetry.io/otel/trace v1.35.0 // indirect
	go.step.sm/crypto v0.60.0 // indirect
	go.uber.org/multierr v1.11.0 // indirect
	go.uber.org/zap v1.27.0 // indirect
	golang.org/x/crypto v0.37.0 // indirect
	golang.org/x/exp v0.0.0-20241108190413-2d47ceb2692f // indirect
	golang.org/x/net v0.39.0 // indirect
	golang.org/x/oauth2 v0.29.0 // indirect
	golang.org/x/sync v0.13.0 // indirect
	golang.org/x/term v0.31.0 // indirect
	golang.org/x/text v0.24.0 // indirect
	golang.org/x/time v0.11.0 // indirect
	google.golang.org/api v0.229.0 // indirect
	google.golang.org/genproto/googleapis/api v0.0.0-20250303144028-a0af3efb3deb // indirect
	google.golang.org/genproto/googleapis/rpc v0.0.0-20250414145226-207652e42e2e // indirect
	google.golang.org/grpc v1.71.1 // indirect
	google.golang.org/protobuf v1.36.6 // indirect
	gopkg.in/ini.v1 v1.67.0 // indirect
	gopkg.in/warnings.v0 v0.1.2 // indirect
	k8s.io/apimachinery v0.32.3 // indirect
	sigs.k8s.io/release-utils v0.11.1 // indirect
)

replace chainguard.dev/apko => /repo
