module verif/harness

go 1.23.4

require chainguard.dev/apko v0.23.0

require (
	chainguard.dev/go-grpc-kit v0.17.7 // indirect
	chainguard.dev/sdk v0.1.31 // indirect
	cloud.google.com/go/auth v0.16.0 // indirect
	cloud.google.com/go/auth/oauth2adapt v0.2.8 // indirect
	cloud.google.com/go/compute/metadata v0.6.0 // indirect
	filippo.io/edwards25519 v1.1.0 // indirect
	github.com/beorn7/perks v1.0.1 // indirect
	github.com/cespare/xxhash/v2 v2.3.0 // indirect
	github.com/chainguard-dev/clog v1.7.0 // indirect
	github.com/felixge/httpsnoop v1.0.4 // indirect
	github.com/go-jose/go-jose/v3 v3.0.4 // indirect
	github.com/go-logr/logr v1.4.2 // indirect
	github.com/go-logr/stdr v1.2.2 // indirect
	github.com/google/s2a-go v0.1.9 // indirect
	github.com/googleapis/enterprise-certificate-proxy v0.3.6 // indirect
	github.com/googleapis/gax-go/v2 v2.14.1 // indirect
	github.com/grpc-ecosystem/go-grpc-middleware v1.4.0 // indirect
	github.com/grpc-ecosystem/go-grpc-prometheus v1.2.1-0.20210315223345-82c243799c99 // indirect
	github.com/grpc-ecosystem/grpc-gateway/v2 v2.24.0 // indirect
	github.com/hashicorp/go-cleanhttp v0.5.2 // indirect
	github.com/hashicorp/go-retryablehttp v0.7.7 // indirect
	github.com/kelseyhightower/envconfig v1.4.0 // indirect
	github.com/klauspost/compress v1.18.0 // indirect
	github.com/munnerz/goautoneg v0.0.0-20191010083416-a7dc8b61c822 // indirect
	github.com/pkg/errors v0.9.1 // indirect
	github.com/prometheus/client_golang v1.20.5 // indirect
	github.com/prometheus/client_model v0.6.1 // indirect
	github.com/prometheus/common v0.62.0 // indirect
	github.com/prometheus/procfs v0.15.1 // indirect
	go.lsp.dev/uri v0.3.0 // indirect
	go.opentelemetry.io/auto/sdk v1.1.0 // indirect
	go.opentelemetry.io/contrib/instrumentation/google.golang.org/grpc/otelgrpc v0.60.0 // indirect
	go.opentelemetry.io/contrib/instrumentation/net/http/otelhttp v0.60.0 // indirect
	go.opentelemetry.io/otel v1.35.0 // indirect
	go.opentelemetry.io/otel/metric v1.35.0 // indirect
	go.opentelemetry.io/otel/trace v1.35.0 // indirect
	go.step.sm/crypto v0.60.0 // indirect
	golang.org/x/crypto v0.37.0 // indirect
	golang.org/x/exp v0.0.0-20241108190413-2d47ceb2692f // indirect
	golang.org/x/net v0.39.0 // indirect
	golang.org/x/oauth2 v0.29.0 // indirect
	golang.org/x/sync v0.13.0 // indirect
	golang.org/x/sys v0.32.0 // indirect
	golang.org/x/text v0.24.0 // indirect
	golang.org/x/time v0.11.0 // indirect
	google.golang.org/api v0.229.0 // indirect
	google.golang.org/genproto/googleapis/api v0.0.0-20250303144028-a0af3efb3deb // indirect
	google.golang.org/genproto/googleapis/rpc v0.0.0-20250414145226-207652e42e2e // indirect
	google.golang.org/grpc v1.71.1 // indirect
	google.golang.org/protobuf v1.36.6 // indirect
	gopkg.in/ini.v1 v1.67.0 // indirect
)

replace chainguard.dev/apko => /repo
