package main

import (
	"archive/tar"
	"compress/gzip"
	"context"
	"crypto/sha1" //nolint:gosec
	"crypto/sha256"
	"encoding/hex"
	"encoding/json"
	"errors"
	"fmt"
	"io"
	"os"
	"sort"
	"strings"
	"testing/fstest"
	"time"

	"chainguard.dev/apko/pkg/apk/apk"
	apkfs "chainguard.dev/apko/pkg/apk/fs"
	"chainguard.dev/apko/pkg/build"
	"chainguard.dev/apko/pkg/tarfs"

	v1 "github.com/google/go-containerregistry/pkg/v1"
)

// corr:layers — C10: the real groupByOriginAndSize and splitLayers (and their composition, the tail of
// buildLayers) on a tarfs filesystem populated through WriteHeader with package ownership, against the
// Lean model (group membership and order; per-layer entry lists) and the property's oracles
// (partition, origin/replaces closure, count bound; file-once, layer well-formedness, top layer, flatten
// equality with the single-layer tar — at entry level in Lean, at byte level in Go).

type lPkg struct {
	Name     string   `json:"name"`
	Origin   string   `json:"origin"`
	Version  string   `json:"version"`
	Replaces []string `json:"replaces,omitempty"`
	Size     uint64   `json:"size"`
}

// lOp is one mutation of the filesystem, in order.
//
//	kind dir|file|symlink|link  written through WriteHeader on behalf of package Pkg (index, -1: see below)
//	kind mkdir|write|usymlink|chtimes|rewrite  configuration-time operations (no package)
type lOp struct {
	Kind   string `json:"kind"`
	Path   string `json:"path"`
	Pkg    int    `json:"pkg"`
	MTime  int64  `json:"mtime,omitempty"`
	Mode   int64  `json:"mode,omitempty"`
	Data   string `json:"data,omitempty"`
	Target string `json:"target,omitempty"`
}

type lCase struct {
	Pkgs    []lPkg `json:"pkgs"`
	Ops     []lOp  `json:"ops"`
	Budgets []int  `json:"budgets"`
	E2E     *lE2E  `json:"e2e,omitempty"` // end-to-end part (layers_e2e.go), present in a fraction of the cases
	Glue    *gluelayerLayersCase `json:"glue,omitempty"` // whole `apko build` against a synthetic repository (layers_glue.go)
}

type layersSuite struct{}

func init() { register(layersSuite{}) }

func (layersSuite) Name() string { return "layers" }

// ---------- generator ----------

var lNamePool = []string{"a", "a-doc", "a-dev", "b", "b10", "b9", "busybox", "c", "ca-certs", "glibc", "glibc-locale", "ld-linux",
	"libcrypt1", "libxcrypt", "z", "zz", "zlib", "openssl", "libssl3", "libcrypto3", "m", "m-x", "m.x", "A", "B0"}
var lVersions = []string{"1.0", "1.0-r0", "1.0-r1", "2.38-r14", "2.38-r16", "0.9", "3", "1.2.3_rc1", "1.0_p2-r3", "10.1"}
var lSizes = []uint64{0, 1, 5, 5, 7, 7, 100, 100, 4096, 235761, 6113087, 1 << 40, 1<<63 - 1, 1 << 63, 1<<64 - 1, 1<<64 - 5}
var lSharedDirs = []string{"usr", "usr/bin", "usr/lib", "usr/lib/x", "usr/share", "usr/share/doc", "etc", "etc/ssl", "etc/ssl/certs", "var", "var/lib", "lib", "opt"}
var lSegs = []string{"a", "b", "bin", "lib", "x", "y", "d-1", "d.1", "d", "zz", "A"}

func genLayersCase(r *Rng, tier string) lCase {
	var c lCase
	np := r.Range(1, 9)
	if r.Chance(12) {
		np = r.Range(9, 16)
	}
	if r.Chance(3) {
		np = 0
	}
	norig := 1 + r.Intn(max(1, np))
	if r.Chance(45) {
		norig = np // one origin per package
	}
	names := append([]string(nil), lNamePool...)
	r.Shuffle(len(names), func(i, j int) { names[i], names[j] = names[j], names[i] })
	equalSizes := r.Chance(30)
	eq := Pick(r, lSizes)
	for i := 0; i < np; i++ {
		p := lPkg{Name: names[i], Version: Pick(r, lVersions)}
		switch {
		case norig == np:
			p.Origin = p.Name
		case r.Chance(10):
			p.Origin = "" // empty origin is an origin like any other
		default:
			p.Origin = fmt.Sprintf("o%d", r.Intn(norig))
		}
		if equalSizes {
			p.Size = eq
		} else {
			p.Size = Pick(r, lSizes)
			if r.Chance(30) {
				p.Size = uint64(r.Intn(50))
			}
		}
		if r.Chance(1) {
			p.Version = Pick(r, []string{"abc", "", "1..2", "1.0-rX"})
		}
		c.Pkgs = append(c.Pkgs, p)
	}
	// replaces: chains i -> i+1 -> …, random edges, absent targets, version constraints that hold or not
	for i := range c.Pkgs {
		k := 0
		switch {
		case r.Chance(22):
			k = 1
		case r.Chance(10):
			k = 2 + r.Intn(2)
		}
		for ; k > 0; k-- {
			var tgt string
			var tver string
			switch {
			case r.Chance(15):
				tgt, tver = "ghost"+fmt.Sprint(r.Intn(3)), "1.0"
			case r.Chance(40) && i+1 < np:
				tgt, tver = c.Pkgs[i+1].Name, c.Pkgs[i+1].Version // chain
			default:
				j := r.Intn(np)
				tgt, tver = c.Pkgs[j].Name, c.Pkgs[j].Version // may be itself
			}
			rep := tgt
			switch r.Intn(8) {
			case 0, 1:
			case 2:
				rep += "<" + Pick(r, lVersions)
			case 3:
				rep += ">" + Pick(r, lVersions)
			case 4:
				rep += "=" + tver
			case 5:
				rep += "<=" + tver
			case 6:
				rep += "~" + Pick(r, []string{"1", "1.0", "2.38", "2"})
			default:
				rep += ">=" + Pick(r, lVersions)
			}
			if r.Chance(2) {
				rep = tgt + "<" + Pick(r, []string{"abc", "1..", "-r1"})
			}
			if r.Chance(5) {
				rep += "@pin"
			}
			c.Pkgs[i].Replaces = append(c.Pkgs[i].Replaces, rep)
		}
	}
	r.Shuffle(len(c.Pkgs), func(i, j int) { c.Pkgs[i], c.Pkgs[j] = c.Pkgs[j], c.Pkgs[i] })

	// files
	mt := func() int64 { return int64(1_600_000_000 + r.Intn(1000)) }
	deep := func() string {
		n := r.Range(1, 3)
		if r.Chance(15) {
			n = r.Range(4, 7)
		}
		segs := make([]string, n)
		for i := range segs {
			segs[i] = Pick(r, lSegs)
		}
		base := ""
		if r.Chance(60) {
			base = Pick(r, lSharedDirs) + "/"
		}
		return base + strings.Join(segs, "/")
	}
	fileNo := 0
	addPkgFiles := func(pi int) {
		nf := r.Range(0, 4)
		if r.Chance(10) {
			nf = r.Range(5, 9)
		}
		for k := 0; k < nf; k++ {
			var dir string
			if r.Chance(65) {
				dir = Pick(r, lSharedDirs)
			} else {
				dir = deep()
			}
			// apk data sections list directories before their contents, each with its own mtime
			parts := strings.Split(dir, "/")
			for j := 1; j <= len(parts); j++ {
				if j == len(parts) || r.Chance(70) {
					c.Ops = append(c.Ops, lOp{Kind: "dir", Path: strings.Join(parts[:j], "/"), Pkg: pi, MTime: mt(), Mode: 0o755})
				}
			}
			fileNo++
			name := fmt.Sprintf("%s/%s%d", dir, Pick(r, []string{"f", "lib", "a", "z", "-", "F"}), fileNo)
			if r.Chance(8) {
				name = dir + "/" + Pick(r, []string{"shared", "common.conf"}) // same path from several packages
			}
			switch {
			case r.Chance(15):
				c.Ops = append(c.Ops, lOp{Kind: "symlink", Path: name, Pkg: pi, MTime: mt(), Target: Pick(r, []string{"f1", "../lib", "/usr/bin/x", "nowhere"})})
			case r.Chance(6):
				c.Ops = append(c.Ops, lOp{Kind: "file", Path: name, Pkg: pi, MTime: mt(), Mode: 0o644, Data: ""})
			default:
				c.Ops = append(c.Ops, lOp{Kind: "file", Path: name, Pkg: pi, MTime: mt(), Mode: Pick(r, []int64{0o644, 0o755, 0o600}), Data: fmt.Sprintf("content-%d-%d", pi, r.Intn(3))})
				if r.Chance(8) {
					c.Ops = append(c.Ops, lOp{Kind: "link", Path: name + ".hl", Pkg: pi, Target: name})
				}
			}
			if r.Chance(10) {
				c.Ops = append(c.Ops, lOp{Kind: "dir", Path: deep(), Pkg: pi, MTime: mt(), Mode: 0o755}) // empty directory
			}
		}
	}
	for pi := range c.Pkgs {
		addPkgFiles(pi)
	}
	// configuration-time, unowned
	nu := r.Range(0, 5)
	for k := 0; k < nu; k++ {
		switch r.Intn(6) {
		case 0:
			c.Ops = append(c.Ops, lOp{Kind: "mkdir", Path: deep(), Mode: 0o755})
		case 1, 2:
			dir := Pick(r, lSharedDirs)
			if r.Chance(40) {
				dir = deep()
			}
			c.Ops = append(c.Ops, lOp{Kind: "write", Path: dir + "/" + Pick(r, []string{"apko.json", "passwd", "os-release", "conf", "0"}), Mode: 0o644, Data: fmt.Sprintf("cfg-%d", k)})
		case 3:
			c.Ops = append(c.Ops, lOp{Kind: "usymlink", Path: Pick(r, lSharedDirs) + "/" + Pick(r, []string{"sh", "link", "l0"}), Target: "/bin/busybox"})
		case 4:
			c.Ops = append(c.Ops, lOp{Kind: "chtimes", Path: Pick(r, lSharedDirs), MTime: mt()})
		default:
			c.Ops = append(c.Ops, lOp{Kind: "rewrite", Pkg: r.Intn(1 << 20), Data: fmt.Sprintf("rewritten-%d", k)}) // modify some owned file in place
		}
	}
	c.Budgets = []int{0, 1, 2, 3, 4, 5, 6, 7, 8}
	if r.Chance(8) {
		c.Budgets = append(c.Budgets, -1-r.Intn(3)) // outside the property's quantifier: must be rejected, not crash
	}
	if tier == "thorough" && r.Chance(20) {
		c.Budgets = append(c.Budgets, r.Range(9, 40))
	}
	return c
}

func (layersSuite) Gen(r *Rng, i int, tier string) any {
	c := genLayersCase(r, tier)
	if i%8 == 3 {
		c.E2E = genLayersE2E(r)
	}
	if i%8 == 6 {
		c.Glue = genGluelayerLayers(r)
	}
	return c
}

// ---------- running the real code ----------

func lApkPkgs(c lCase) []*apk.Package {
	out := make([]*apk.Package, len(c.Pkgs))
	for i, p := range c.Pkgs {
		out[i] = &apk.Package{Name: p.Name, Origin: p.Origin, Version: p.Version, Replaces: p.Replaces, InstalledSize: p.Size}
	}
	return out
}

func lEncPkgs(c lCase) string {
	ps := make([]string, len(c.Pkgs))
	for i, p := range c.Pkgs {
		reps := make([]string, len(p.Replaces))
		for j, r := range p.Replaces {
			reps[j] = hx(r)
		}
		ps[i] = fmt.Sprintf("%s,%s,%s,%d,%s", hx(p.Name), hx(p.Origin), hx(p.Version), p.Size, strings.Join(reps, ":"))
	}
	return strings.Join(ps, ";")
}

func lEncGroups(gs [][]*apk.Package) string {
	if len(gs) == 0 {
		return "-"
	}
	out := make([]string, len(gs))
	for i, g := range gs {
		ns := make([]string, len(g))
		for j, p := range g {
			ns[j] = hx(p.Name)
		}
		out[i] = strings.Join(ns, ",")
	}
	return strings.Join(out, "|")
}

type lEntry struct {
	path  string
	isDir bool
	mtime int64
	dig   string // everything else: typeflag, mode, ids, names, link, size, PAX, content
}

func lReadLayer(l v1.Layer) ([]lEntry, error) {
	rc, err := l.Compressed()
	if err != nil {
		return nil, err
	}
	defer rc.Close()
	zr, err := gzip.NewReader(rc)
	if err != nil {
		return nil, err
	}
	tr := tar.NewReader(zr)
	var out []lEntry
	for {
		h, err := tr.Next()
		if err == io.EOF {
			break
		}
		if err != nil {
			return nil, err
		}
		body := sha256.New()
		if _, err := io.Copy(body, tr); err != nil {
			return nil, err
		}
		keys := make([]string, 0, len(h.PAXRecords))
		for k := range h.PAXRecords {
			if k == "mtime" || k == "atime" || k == "ctime" || k == "path" {
				continue
			}
			keys = append(keys, k)
		}
		sort.Strings(keys)
		var pax strings.Builder
		for _, k := range keys {
			fmt.Fprintf(&pax, "%s=%s;", k, h.PAXRecords[k])
		}
		dig := fmt.Sprintf("%c|%o|%d|%d|%s|%s|%s|%d|%d|%d|%s|%x", h.Typeflag, h.Mode, h.Uid, h.Gid, h.Uname, h.Gname, h.Linkname, h.Size,
			h.Devmajor, h.Devminor, pax.String(), body.Sum(nil))
		out = append(out, lEntry{path: strings.TrimSuffix(h.Name, "/"), isDir: h.Typeflag == tar.TypeDir, mtime: h.ModTime.Unix(), dig: dig})
	}
	// a valid tar ends with the two zero blocks and nothing else of substance
	if _, err := io.Copy(io.Discard, zr); err != nil {
		return nil, err
	}
	return out, nil
}

func lEncLayers(ls [][]lEntry, ids map[string]int) string {
	out := make([]string, len(ls))
	for i, l := range ls {
		if len(l) == 0 {
			out[i] = "~"
			continue
		}
		es := make([]string, len(l))
		for j, e := range l {
			id, ok := ids[e.dig]
			if !ok {
				id = 999999
			}
			k := "f"
			if e.isDir {
				k = "d"
			}
			es[j] = fmt.Sprintf("%s,%s,%d,%d", hx(e.path), k, e.mtime, id)
		}
		out[i] = strings.Join(es, ";")
	}
	return strings.Join(out, "|")
}

func lExtract(ls [][]lEntry) map[string]string {
	m := map[string]string{}
	for _, l := range ls {
		for _, e := range l {
			k := "f"
			if e.isDir {
				k = "d"
			}
			m[e.path] = fmt.Sprintf("%s|%d|%s", k, e.mtime, e.dig)
		}
	}
	return m
}

func (layersSuite) Run(raw json.RawMessage) []Step {
	var c lCase
	if err := json.Unmarshal(raw, &c); err != nil {
		panic(err)
	}
	ctx := context.Background()
	tmp, err := os.MkdirTemp("", "layers-")
	if err != nil {
		panic(err)
	}
	defer os.RemoveAll(tmp)

	pkgs := lApkPkgs(c)
	pkgsEnc := lEncPkgs(c)
	var steps []Step
	shape := []string{fmt.Sprintf("pkgs:%d", min(len(c.Pkgs), 10))}
	origins := map[string]bool{}
	nrep := 0
	for _, p := range c.Pkgs {
		origins[p.Origin] = true
		nrep += len(p.Replaces)
	}
	shape = append(shape, fmt.Sprintf("origins:%d", min(len(origins), 8)), fmt.Sprintf("replaces:%d", min(nrep, 6)))

	// the filesystem (built once; splitLayers only reads it)
	fsys, ownerOf, ferr := lPopulate(c, pkgs)
	var walk []build.VerifWalkEntry
	var single []lEntry
	ids := map[string]int{}
	walkEnc := ""
	if ferr == nil {
		walk, err = build.VerifWalkFS(ctx, fsys)
		if err != nil {
			panic(fmt.Errorf("walkFS: %w", err))
		}
		sl, err := build.VerifSingleLayerOfFS(ctx, fsys, tmp)
		if err != nil {
			panic(fmt.Errorf("single layer: %w", err))
		}
		single, err = lReadLayer(sl)
		if err != nil {
			panic(fmt.Errorf("reading single layer: %w", err))
		}
		if len(single) != len(walk) {
			panic(fmt.Errorf("single layer has %d entries, walk %d", len(single), len(walk)))
		}
		ws := make([]string, len(walk))
		for i := range walk {
			if walk[i].ModTime == (time.Time{}).Unix() {
				walk[i].ModTime = 0 // archive/tar writes the zero time as the epoch
			}
			w := walk[i]
			if single[i].path != w.Path || single[i].mtime != w.ModTime || single[i].isDir != w.IsDir {
				panic(fmt.Errorf("single layer entry %d = %+v, walk %+v", i, single[i], w))
			}
			if _, ok := ids[single[i].dig]; !ok {
				ids[single[i].dig] = len(ids)
			}
			k := "f"
			if w.IsDir {
				k = "d"
			}
			ws[i] = fmt.Sprintf("%s,%s,%d,%d,%s", hx(w.Path), k, w.ModTime, ids[single[i].dig], hx(w.Owner))
		}
		walkEnc = strings.Join(ws, ";")
		nd, nown, depth := 0, 0, 0
		for _, w := range walk {
			if w.IsDir {
				nd++
			}
			if w.Owner != "" {
				nown++
			}
			depth = max(depth, strings.Count(w.Path, "/")+1)
		}
		shape = append(shape, fmt.Sprintf("walk:%d", min(len(walk)/10*10, 80)), fmt.Sprintf("depth:%d", min(depth, 9)),
			fmt.Sprintf("unowned-files:%d", min(len(walk)-nd-nown, 5)))
		// ownership as the layering sees it (tarfs' Package() side channel) against the harness's own record of which
		// package's entry was installed at the path last: a later rewrite of the file (configuration) keeps its owner
		verdict, nchk := "pass", 0
		for _, w := range walk {
			want, ok := ownerOf[w.Path]
			if !ok || w.IsDir {
				continue
			}
			if fi, e := fsys.Lstat(w.Path); e != nil || !fi.Mode().IsRegular() {
				continue
			}
			nchk++
			if w.Owner != want && verdict == "pass" {
				verdict = fmt.Sprintf("fail:%s was installed by package %q, the layering sees owner %q", w.Path, want, w.Owner)
			}
		}
		steps = append(steps, Step{Line: "x.robust\tlayers-owner-" + fmt.Sprint(len(raw)), Go: fmt.Sprintf("checked=%d", nchk), Mode: "oracle-go", GoSpec: verdict, NoImpl: true,
			Desc: fmt.Sprintf("owner of every package file after all operations: pkgs=%s ops=%s", lDescPkgs(c), lDescOps(c)), Tags: []string{fmt.Sprintf("owner-checked:%d", min(nchk, 5))},
			Trivial: nchk == 0})
	} else {
		shape = append(shape, "fs:conflict")
	}

	seenGroups := map[string]bool{}
	splitOn := func(b int, how string, groups [][]*apk.Package, layers []v1.Layer, err error) {
		sout := ""
		var read [][]lEntry
		if err != nil {
			sout = "err"
			if errors.Is(err, errLPanic) {
				sout = "panic"
			}
		} else {
			for _, l := range layers {
				es, err := lReadLayer(l)
				if err != nil {
					sout = "invalid-tar"
					break
				}
				read = append(read, es)
			}
			if sout == "" {
				sout = "ok " + lEncLayers(read, ids)
			}
		}
		steps = append(steps, Step{
			Line: fmt.Sprintf("l.split\t%s\t%s\t%s", lEncGroups(groups), walkEnc, sout), Go: sout, Mode: "verdict",
			Desc: fmt.Sprintf("splitLayers(fs of %d entries, %d groups; %s) pkgs=%s ops=%s", len(walk), len(groups), how, lDescPkgs(c), lDescOps(c)),
			Tags: []string{fmt.Sprintf("layers:%d", len(read))},
		})
		if !strings.HasPrefix(sout, "ok") {
			return
		}
		// byte-level oracle: every layer is a complete tar (read to the end above), the count bound,
		// and extracting the layers in order gives exactly what the single-layer tar gives
		verdict := "pass"
		got, want := lExtract(read), lExtract([][]lEntry{single})
		switch {
		case len(read) != len(groups)+1:
			verdict = "fail:layer-count"
		case b >= 1 && len(read) > b+1:
			verdict = "fail:budget"
		case len(got) != len(want):
			verdict = fmt.Sprintf("fail:flatten-paths %d vs %d", len(got), len(want))
		default:
			for p, w := range want {
				if got[p] != w {
					verdict = "fail:flatten " + p
					break
				}
			}
		}
		steps = append(steps, Step{
			Line: fmt.Sprintf("l.bytes\t%d\t%s", b, how), Mode: "oracle-go", NoImpl: true, GoSpec: verdict,
			Desc: fmt.Sprintf("flatten(layers; %s) = single layer; pkgs=%s ops=%s", how, lDescPkgs(c), lDescOps(c)),
			Tags: []string{"bytes:" + strings.SplitN(verdict, " ", 2)[0]},
		})
	}
	// splitLayers alone on the finest partition (one layer per package): the most interleaving
	if ferr == nil && len(pkgs) > 0 {
		byName := append([]*apk.Package(nil), pkgs...)
		sort.Slice(byName, func(i, j int) bool { return byName[i].Name < byName[j].Name })
		var fine [][]*apk.Package
		for _, p := range byName {
			fine = append(fine, []*apk.Package{p})
		}
		layers, err := lNoPanic(func() ([]v1.Layer, error) { return build.VerifSplitLayers(ctx, fsys, fine, tmp) })
		splitOn(0, "one group per package", fine, layers, err)
	}

	for _, b := range c.Budgets {
		// 1. grouping
		var groups [][]*apk.Package
		gout := func() (out string) {
			defer func() {
				if r := recover(); r != nil {
					out = "panic"
				}
			}()
			gs, err := build.VerifGroupByOriginAndSize(pkgs, b)
			if err != nil {
				return "err"
			}
			groups = gs
			return "ok " + lEncGroups(gs)
		}()
		tags := append([]string{fmt.Sprintf("budget:%d", max(min(b, 9), -1)), "group:" + gout[:2]}, shape...)
		if strings.HasPrefix(gout, "ok") {
			tags = append(tags, fmt.Sprintf("groups:%d", len(groups)))
		}
		steps = append(steps, Step{
			Line: fmt.Sprintf("l.group\t%d\t%s\t%s", b, pkgsEnc, gout), Go: gout, Mode: "verdict",
			Desc: fmt.Sprintf("groupByOriginAndSize(%s, budget=%d)", lDescPkgs(c), b), Tags: tags,
			Trivial: !strings.HasPrefix(gout, "ok"),
		})
		if !strings.HasPrefix(gout, "ok") || ferr != nil {
			continue
		}

		// 2. splitting: the real tail of buildLayers (grouping + splitLayers) on the filesystem; the result
		// depends on the budget only through the groups, so each distinct grouping is split once
		if ge := lEncGroups(groups); !seenGroups[ge] {
			seenGroups[ge] = true
			layers, err := lNoPanic(func() ([]v1.Layer, error) { return build.VerifLayersOfFS(ctx, fsys, pkgs, b, tmp) })
			splitOn(b, fmt.Sprintf("budget=%d", b), groups, layers, err)
		}
	}
	if c.E2E != nil {
		steps = append(steps, runLayersE2E(ctx, c.E2E, tmp)...)
	}
	if c.Glue != nil {
		steps = append(steps, runGluelayerLayers(c.Glue)...)
	}
	return steps
}

var errLPanic = errors.New("panic")

// lNoPanic turns a panic of the code under test (packageToWriter[..] missing) into an outcome of the step,
// so that the other steps of the case are still reported.
func lNoPanic(f func() ([]v1.Layer, error)) (ls []v1.Layer, err error) {
	defer func() {
		if r := recover(); r != nil {
			ls, err = nil, fmt.Errorf("%w: %v", errLPanic, r)
		}
	}()
	return f()
}

func lDescPkgs(c lCase) string {
	ps := make([]string, len(c.Pkgs))
	for i, p := range c.Pkgs {
		ps[i] = fmt.Sprintf("%s(o=%s v=%s s=%d r=%v)", p.Name, p.Origin, p.Version, p.Size, p.Replaces)
	}
	return "[" + strings.Join(ps, " ") + "]"
}

func lDescOps(c lCase) string {
	if len(c.Ops) > 40 {
		return fmt.Sprintf("<%d ops>", len(c.Ops))
	}
	os := make([]string, len(c.Ops))
	for i, o := range c.Ops {
		os[i] = fmt.Sprintf("%s:%s@%d", o.Kind, o.Path, o.Pkg)
	}
	return strings.Join(os, ",")
}

// lPopulate applies the ops to a fresh tarfs.  A file conflict between unrelated packages makes the
// whole case a grouping-only case (the build would fail before layering).
func lPopulate(c lCase, pkgs []*apk.Package) (fsys apkfs.FullFS, ownerOf map[string]string, err error) {
	m := tarfs.New()
	ownerOf = map[string]string{} // regular file -> package whose entry was installed there last (the harness's own record)
	content := fstest.MapFS{}
	var owned []string
	for _, op := range c.Ops {
		mt := time.Unix(op.MTime, 0)
		switch op.Kind {
		case "dir":
			_, err = m.WriteHeader(tar.Header{Typeflag: tar.TypeDir, Name: op.Path, Mode: op.Mode, ModTime: mt}, content, pkgs[op.Pkg])
		case "file":
			sum := sha1.Sum([]byte(op.Data)) //nolint:gosec
			// the installer hands tarfs the expanded package as backing fs; one backing fs per written file
			// keeps the contents of same-path files of different packages apart
			sub := fstest.MapFS{op.Path: &fstest.MapFile{Data: []byte(op.Data)}}
			hdr := tar.Header{Typeflag: tar.TypeReg, Name: op.Path, Mode: op.Mode, ModTime: mt, Size: int64(len(op.Data)),
				PAXRecords: map[string]string{"APK-TOOLS.checksum.SHA1": hex.EncodeToString(sum[:])}}
			var installed bool
			installed, err = m.WriteHeader(hdr, sub, pkgs[op.Pkg])
			if installed {
				owned = append(owned, op.Path)
				ownerOf[strings.TrimPrefix(op.Path, "/")] = pkgs[op.Pkg].Name
			}
		case "symlink":
			sum := sha1.Sum([]byte(op.Target)) //nolint:gosec
			hdr := tar.Header{Typeflag: tar.TypeSymlink, Name: op.Path, Linkname: op.Target, Mode: 0o777, ModTime: mt,
				PAXRecords: map[string]string{"APK-TOOLS.checksum.SHA1": hex.EncodeToString(sum[:])}}
			_, err = m.WriteHeader(hdr, content, pkgs[op.Pkg])
		case "link":
			_, err = m.WriteHeader(tar.Header{Typeflag: tar.TypeLink, Name: op.Path, Linkname: op.Target, Mode: 0o644}, content, pkgs[op.Pkg])
			if err != nil {
				err = nil // target replaced or link exists: the installer's concern (C07), skip
			}
		case "mkdir":
			err = m.MkdirAll(op.Path, 0o755)
			if err != nil {
				err = nil // a file is in the way: skip
			}
		case "write":
			if e := m.MkdirAll(parentDir(op.Path), 0o755); e == nil {
				if _, e := m.Lstat(op.Path); e != nil { // only create new files here
					err = m.WriteFile(op.Path, []byte(op.Data), 0o644)
				}
			}
		case "usymlink":
			if e := m.MkdirAll(parentDir(op.Path), 0o755); e == nil {
				_ = m.Symlink(op.Target, op.Path)
			}
		case "chtimes":
			_ = m.Chtimes(op.Path, mt, mt)
		case "rewrite":
			if len(owned) > 0 {
				p := owned[op.Pkg%len(owned)]
				if fi, e := m.Lstat(p); e == nil && fi.Mode().IsRegular() {
					err = m.WriteFile(p, []byte(op.Data), 0o644)
				}
			}
		}
		if err != nil {
			return nil, nil, err
		}
	}
	return m, ownerOf, nil
}

func parentDir(p string) string {
	if i := strings.LastIndex(p, "/"); i >= 0 {
		return p[:i]
	}
	return "."
}
