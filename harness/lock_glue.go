package main

// corr:lock (C09), the glue between `apko lock`, the lock file and `apko build --lockfile`, end to end:
//
//   lock-options   the lock of one configuration under {package cache off / cold / warm in the same process / warm in a
//                  fresh process} x {ignore-signatures on / off} x {file repository / in-process HTTP}: every variant's
//                  lock file describes the files at its URLs (ranges and checksums recomputed) and is byte-identical to
//                  the cache-off lock of the same inputs;
//   build-options  `build --lockfile` under the same matrix: the image lists exactly the locked packages and every
//                  output file equals the cache-off build's;
//   lock-faults    after a successful lock the repository changes under the lock (a locked .apk removed / damaged /
//                  replaced / dropped from the index, an architecture unreachable): `build --lockfile` with no package
//                  cache and fresh process-wide caches fails, or installs exactly what the lock lists.
//
// Every step sends what Go did to the Lean driver (`l.lockfile`, `l.lockbuild`): the Impl of Model/LockGlue.lean
// predicts it, the oracle (`fails or exact`, `ranges tile the file`) is evaluated in Lean on Go's output.

import (
	"archive/tar"
	"bytes"
	"compress/gzip"
	"context"
	"crypto/sha1"
	"crypto/sha256"
	"encoding/base64"
	"encoding/hex"
	"encoding/json"
	"fmt"
	"io"
	"os"
	"path/filepath"
	"sort"
	"strings"
	"time"

	"chainguard.dev/apko/pkg/apk/apk"
	"chainguard.dev/apko/pkg/build"
	"chainguard.dev/apko/pkg/build/types"
	"chainguard.dev/apko/pkg/verifapi"
)

type gluelockCombo struct {
	IgnoreSig bool `json:"ign,omitempty"`
	HTTP      bool `json:"http,omitempty"`
}

func (c gluelockCombo) String() string {
	t := "file"
	if c.HTTP {
		t = "http"
	}
	if c.IgnoreSig {
		return t + "+ignore-signatures"
	}
	return t
}

type gluelockPlan struct {
	Combos    []gluelockCombo `json:"combos,omitempty"`
	Faults    []string        `json:"faults,omitempty"`
	Victim    int             `json:"victim,omitempty"`     // which locked package the fault hits (modulo the number of locked packages)
	FaultHTTP bool            `json:"fault_http,omitempty"` // inject the faults into the HTTP repository instead of the directory
	Stale     bool            `json:"stale,omitempty"`      // re-sign a locked package between two runs that share a package cache
	Full      bool            `json:"full,omitempty"`       // run the option matrix also when the plain lock of the case fails
}

var gluelockFaultKinds = []string{"removed", "flip-data", "flip-control", "garbage", "truncated", "grown", "other-package", "resigned", "unlisted", "arch-down",
	"lock-no-checksum", "lock-other-checksum"}

var gluelockCacheStates = []string{"off", "cold", "warm", "fresh"}

func gluelockGenPlan(r *Rng, tier string) *gluelockPlan {
	p := &gluelockPlan{Victim: r.Range(0, 40), FaultHTTP: r.Chance(30), Stale: r.Chance(50)}
	if tier == "thorough" && r.Chance(25) {
		p.Full = true
		p.Stale = true
		p.Combos = []gluelockCombo{{false, false}, {true, false}, {false, true}, {true, true}}
		p.Faults = append([]string{}, gluelockFaultKinds...)
		return p
	}
	// one variant with and one without ignore-signatures, one per transport
	h := r.Bool()
	p.Combos = []gluelockCombo{{IgnoreSig: true, HTTP: h}, {IgnoreSig: false, HTTP: !h}}
	if r.Chance(50) {
		p.Combos = p.Combos[:1]
	}
	ks := append([]string{}, gluelockFaultKinds...)
	r.Shuffle(len(ks), func(i, j int) { ks[i], ks[j] = ks[j], ks[i] })
	p.Faults = ks[:3]
	return p
}

// ---------- environment of one case ----------

type gluelockEnv struct {
	work    string
	repoDir string
	c       lkCase
	archs   []types.Architecture
	icFile  types.ImageConfiguration
	icHTTP  types.ImageConfiguration
	tr      *SynthTransport
	pinned  bool
	seq     int
}

const gluelockHost = "https://repo.test"

// the error of build.unify (F09g makes it depend on the iteration order of a Go map)
const gluelockUnifyErr = "unable to lock packages to a consistent version"

func gluelockReadTree(dir string) map[string][]byte {
	m := map[string][]byte{}
	collectDir(dir, "", m)
	return m
}

func gluelockNewEnv(work string, c lkCase, icFile types.ImageConfiguration, archs []types.Architecture) *gluelockEnv {
	e := &gluelockEnv{work: work, repoDir: filepath.Join(work, "repo"), c: c, archs: archs, icFile: icFile}
	e.icHTTP = icFile
	e.icHTTP.Contents.RuntimeRepositories = nil
	for _, r := range icFile.Contents.RuntimeRepositories {
		if strings.HasPrefix(r, "@") {
			e.pinned = true
		}
		e.icHTTP.Contents.RuntimeRepositories = append(e.icHTTP.Contents.RuntimeRepositories, strings.Replace(r, e.repoDir, gluelockHost, 1))
	}
	e.icHTTP.Contents.Keyring = []string{gluelockHost + "/" + synthKeyName}
	e.tr = &SynthTransport{Repo: &SRepo{Files: gluelockReadTree(e.repoDir), KeyPEM: pubKeyPEM(synthRSAKey())}}
	return e
}

func (e *gluelockEnv) ic(c gluelockCombo) types.ImageConfiguration {
	if c.HTTP {
		return e.icHTTP
	}
	return e.icFile
}

func (e *gluelockEnv) opts(c gluelockCombo, cacheDir string) []build.Option {
	e.seq++
	tmp := filepath.Join(e.work, fmt.Sprintf("glue-tmp-%d", e.seq))
	os.MkdirAll(tmp, 0o755)
	o := []build.Option{build.WithImageConfiguration(e.ic(c)), build.WithTempDir(tmp), build.WithSBOMFormats(nil), build.WithIgnoreSignatures(c.IgnoreSig)}
	if c.HTTP {
		o = append(o, build.WithTransport(e.tr))
	}
	if cacheDir != "" {
		// a fresh apk.Cache per call, as every CLI invocation makes one
		o = append(o, build.WithCache(cacheDir, false, apk.NewCache(true)))
	}
	return o
}

// the file a lock URL points at
func (e *gluelockEnv) read(url string) ([]byte, error) {
	if strings.HasPrefix(url, gluelockHost+"/") {
		b, ok := e.tr.Repo.Files[strings.TrimPrefix(url, gluelockHost+"/")]
		if !ok {
			return nil, os.ErrNotExist
		}
		return b, nil
	}
	return os.ReadFile(url)
}

// lock text with the repository root replaced, for comparisons across the two transports
func (e *gluelockEnv) canonRoot(lock string) string {
	lock = strings.ReplaceAll(lock, e.repoDir, "ROOT")
	lock = strings.ReplaceAll(lock, gluelockHost, "ROOT")
	return strings.ReplaceAll(lock, strings.TrimPrefix(gluelockHost, "https://"), "ROOT")
}

func (e *gluelockEnv) lock(c gluelockCombo, cacheDir string) (string, error) {
	e.seq++
	out := filepath.Join(e.work, fmt.Sprintf("glue-%d.lock.json", e.seq))
	if err := verifapi.LockCmd(context.Background(), out, e.archs, e.opts(c, cacheDir)); err != nil {
		return "", err
	}
	b, err := os.ReadFile(out)
	return string(b), err
}

func (e *gluelockEnv) build(c gluelockCombo, cacheDir, lockText string) E2EOut {
	e.seq++
	lp := filepath.Join(e.work, fmt.Sprintf("glue-%d.in.lock.json", e.seq))
	os.WriteFile(lp, []byte(lockText), 0o644)
	out := filepath.Join(e.work, fmt.Sprintf("glue-out-%d", e.seq))
	sb := filepath.Join(e.work, fmt.Sprintf("glue-sbom-%d", e.seq))
	os.MkdirAll(out, 0o755)
	os.MkdirAll(sb, 0o755)
	defer os.RemoveAll(out)
	// `apko build` locks the configuration before it builds; with F09g (unify depends on the map order of the
	// architectures) that step fails or not from run to run on the same inputs. Such a refusal says nothing about the
	// variant under test, so the build is repeated.
	for attempt := 0; ; attempt++ {
		opts := append(e.opts(c, cacheDir), build.WithSourceDateEpoch(time.Unix(1700000000, 0)), build.WithLockFile(lp))
		err := verifapi.BuildCmd(context.Background(), "verif.test/img:latest", out, e.archs, nil, false, sb, opts...)
		if err == nil {
			break
		}
		if attempt >= 3 || !gluelockUnifyRefusal(err) {
			return E2EOut{Err: err}
		}
		os.RemoveAll(out)
		os.MkdirAll(out, 0o755)
	}
	files := map[string][]byte{}
	collectDir(out, "layout/", files)
	if os.Getenv("GLUELOCK_DEBUG") != "" {
		fmt.Fprintf(os.Stderr, "gluelock: build wrote %d files\n", len(files))
	}
	return E2EOut{Files: files}
}

// ---------- independent reading of package files and images ----------

// gluelockSections splits an .apk into its gzip members with a decoder of its own: sizes of the signature (0 = none),
// control and data sections. ok=false when the file is not two or three gzip members.
func gluelockSections(b []byte) (sizes []int, ok bool) {
	rest := b
	for len(rest) > 0 {
		br := bytes.NewReader(rest)
		zr, err := gzip.NewReader(br)
		if err != nil {
			return nil, false
		}
		zr.Multistream(false)
		if _, err := io.Copy(io.Discard, zr); err != nil {
			return nil, false
		}
		n := len(rest) - br.Len()
		sizes = append(sizes, n)
		rest = rest[n:]
		if len(sizes) > 3 {
			return nil, false
		}
	}
	switch len(sizes) {
	case 2:
		return append([]int{0}, sizes...), true
	case 3:
		return sizes, true
	}
	return nil, false
}

type gluelockIdbEntry struct{ P, V, A, C, S string }

// gluelockImages: the installed database of every image of the layout (one layer per image here), as parsed paragraphs.
func gluelockImages(o E2EOut) [][]gluelockIdbEntry {
	var names []string
	for n := range o.Files {
		names = append(names, n)
	}
	sort.Strings(names)
	var out [][]gluelockIdbEntry
	for _, name := range names {
		b := o.Files[name]
		if !strings.HasPrefix(name, "layout/blobs/") || len(b) < 2 || b[0] != 0x1f || b[1] != 0x8b {
			continue
		}
		zr, err := gzip.NewReader(bytes.NewReader(b))
		if err != nil {
			continue
		}
		// one layer per image here; an image without packages may carry no installed database at all
		tr := tar.NewReader(zr)
		img := []gluelockIdbEntry{}
		for {
			h, err := tr.Next()
			if err != nil {
				break
			}
			if strings.TrimPrefix(h.Name, "./") != "lib/apk/db/installed" {
				continue
			}
			data, _ := io.ReadAll(tr)
			for _, para := range strings.Split(string(data), "\n\n") {
				var en gluelockIdbEntry
				for _, l := range strings.Split(para, "\n") {
					if len(l) < 2 || l[1] != ':' {
						continue
					}
					switch l[0] {
					case 'P':
						en.P = l[2:]
					case 'V':
						en.V = l[2:]
					case 'A':
						en.A = l[2:]
					case 'C':
						en.C = l[2:]
					case 'S':
						en.S = l[2:]
					}
				}
				if en.P != "" {
					img = append(img, en)
				}
			}
		}
		out = append(out, img)
	}
	return out
}

// what the lock lists for one architecture, in file order: name, version, checksum
func gluelockListed(lf lkLockFile, arch string) []string {
	l := []string{}
	for _, p := range lf.Contents.Packages {
		if p.Architecture == arch {
			l = append(l, p.Name+" "+p.Version+" "+p.Checksum)
		}
	}
	return l
}

// gluelockShowImages: canonical text of what the images built from a lock hold: per image with packages
// `arch:entry,entry…` (arch from the A: lines), images sorted.
func gluelockShowImages(o E2EOut) string {
	var parts []string
	for _, img := range gluelockImages(o) {
		arch := "?"
		var l []string
		for _, e := range img {
			if arch == "?" {
				arch = e.A
			} else if arch != e.A {
				arch = "mixed"
			}
			l = append(l, e.P+" "+e.V+" "+e.C)
		}
		if len(l) == 0 {
			// a build for an empty package list emits an image without packages or no image at all: both hold nothing
			continue
		}
		parts = append(parts, xs(arch)+":"+xl(l))
	}
	sort.Strings(parts)
	return strings.Join(parts, ";")
}

// the same text derived from the lock file: what `exact` means
func gluelockShowListed(lf lkLockFile, archs []string) string {
	var parts []string
	for _, a := range archs {
		l := gluelockListed(lf, a)
		if len(l) == 0 {
			continue
		}
		parts = append(parts, xs(a)+":"+xl(l))
	}
	sort.Strings(parts)
	return strings.Join(parts, ";")
}

// S: lines of the images (total size of the three sections), for the diagnosis of build-options differences
func gluelockSizes(o E2EOut) string {
	var parts []string
	for _, img := range gluelockImages(o) {
		for _, e := range img {
			parts = append(parts, e.A+"/"+e.P+"="+e.S)
		}
	}
	sort.Strings(parts)
	return strings.Join(parts, ",")
}

// ---------- l.lockfile: one emitted lock against the files at its URLs ----------

// gluelockFileLine: per locked package the section sizes of the file at its URL (measured here), the digests of those
// sections and what the lock records; the driver rebuilds the entry from the sizes (Impl, expressions regenerated from
// LockCmd) and checks that Go's ranges tile the file (oracle).
// cachedFrom: the bytes the package cache was filled from, when that is not the file at the URL now (nil otherwise).
func (e *gluelockEnv) lockfileFields(lockText string, cachedFrom map[string][]byte) (fields []string, goOut string, bad string) {
	var lf lkLockFile
	if err := json.Unmarshal([]byte(lockText), &lf); err != nil {
		return nil, "bad:json", "bad:json"
	}
	var recs []string
	fields = append(fields, fmt.Sprint(len(lf.Contents.Packages)))
	b64 := base64.StdEncoding.EncodeToString
	for _, p := range lf.Contents.Packages {
		b, err := e.read(p.URL)
		if err != nil {
			return nil, "bad:url:" + p.Name, "bad:url:" + p.Name
		}
		sz, ok := gluelockSections(b)
		if !ok {
			return nil, "bad:file:" + p.Name, "bad:file:" + p.Name
		}
		s1 := sha1.Sum(b[:sz[0]])
		c1 := sha1.Sum(b[sz[0] : sz[0]+sz[1]])
		d2 := sha256.Sum256(b[sz[0]+sz[1]:])
		fields = append(fields, fmt.Sprint(sz[0]), fmt.Sprint(sz[1]), fmt.Sprint(sz[2]), xs("sha1-"+b64(s1[:])), xs("sha1-"+b64(c1[:])), xs("sha256-"+b64(d2[:])), xs("Q1"+b64(c1[:])))
		// the signature section the cache entry holds
		osz, osum := sz[0], s1
		if ob, ok := cachedFrom[p.URL]; ok {
			if o, ok := gluelockSections(ob); ok {
				osz, osum = o[0], sha1.Sum(ob[:o[0]])
			}
		}
		fields = append(fields, fmt.Sprint(osz), xs("sha1-"+b64(osum[:])))
		recs = append(recs, xl([]string{p.Signature.Range, p.Signature.Checksum, p.Control.Range, p.Control.Checksum, p.Data.Range, p.Data.Checksum, p.Checksum}))
	}
	return fields, strings.Join(recs, ";"), ""
}

// ---------- lock-options / build-options ----------

func (e *gluelockEnv) hash() string {
	var b strings.Builder
	fmt.Fprint(&b, e.c.World)
	for _, a := range e.c.Archs {
		fmt.Fprint(&b, a.Arch)
		for _, ix := range a.Indexes {
			fmt.Fprint(&b, ix.Pin, len(ix.Pkgs))
			for _, p := range ix.Pkgs {
				fmt.Fprint(&b, p.Name, p.Version)
			}
		}
	}
	if e.c.E2E != nil {
		fmt.Fprint(&b, e.c.E2E.Signed)
	}
	s := sha256.Sum256([]byte(b.String()))
	return hx(string(s[:5]))
}

// gluelockUnifyRefusal: `apko build` locks the configuration before it builds; with F09g (unify depends on the iteration
// order of a Go map of architectures) that step refuses or not from run to run on the same inputs. Such a refusal says
// nothing about the variant under test and is never counted as a difference between variants.
func gluelockUnifyRefusal(err error) bool {
	return err != nil && strings.Contains(err.Error(), gluelockUnifyErr)
}

func gluelockErrStr(err error) string {
	if err == nil {
		return "ok"
	}
	return "err"
}

// gluelockOptionSteps runs the four cache states of one combo for the lock and for `build --lockfile`.
// refLock / refBuild: the file-repository, signatures-on, cache-off lock text and build of the case (made by lkRunE2E).
func (e *gluelockEnv) optionSteps(c gluelockCombo, refLock string, refLockErr error, refBuild E2EOut) []Step {
	desc := describeCase(rCase{Archs: e.c.Archs, World: e.c.World}, 0)
	if e.c.E2E != nil {
		desc += fmt.Sprintf(" signed=%v", e.c.E2E.Signed)
	}
	cacheDir := filepath.Join(e.work, "glue-cache-"+c.String())
	os.MkdirAll(cacheDir, 0o755)
	locks := map[string]string{}
	errs := map[string]error{}
	for _, st := range gluelockCacheStates {
		dir := cacheDir
		switch st {
		case "off":
			apk.VerifResetGlobalCaches()
			dir = ""
		case "cold", "fresh":
			apk.VerifResetGlobalCaches()
		}
		locks[st], errs[st] = e.lock(c, dir)
	}
	var steps []Step
	var got []string
	verdict := "pass"
	fail := func(f string, a ...any) {
		if verdict == "pass" {
			verdict = "fail:" + fmt.Sprintf(f, a...)
		}
	}
	for _, st := range gluelockCacheStates {
		r := gluelockErrStr(errs[st])
		if errs[st] == nil {
			fields, goOut, bad := e.lockfileFields(locks[st], nil)
			if bad != "" {
				r = bad
				fail("apko lock (%s, package cache %s) records %s", c, st, bad)
			} else {
				ign := "0"
				if c.IgnoreSig {
					ign = "1"
				}
				line := append([]string{"l.lockfile", st, ign}, fields...)
				line = append(line, goOut)
				var lf lkLockFile
				json.Unmarshal([]byte(locks[st]), &lf)
				rc := lkCheckRangesWith(lf, e.read)
				if rc != "ok" {
					r = rc
					fail("apko lock (%s, package cache %s) records %s", c, st, rc)
				}
				steps = append(steps, Step{Line: strings.Join(line, "\t"), Go: goOut, Mode: "verdict", Desc: fmt.Sprintf("apko lock (%s, package cache %s): every recorded range and checksum against the file at its URL (recomputed by the harness: %s): ", c, st, rc) + desc,
					Tags: []string{"glue:lockfile:" + c.String() + ":" + st}})
			}
			if errs["off"] == nil && locks[st] != locks["off"] {
				r = "differs"
				fail("apko lock (%s) with package cache %s emits a different lock file than without a package cache: %s", c, st, gluelockFirstDiff(locks["off"], locks[st]))
			}
		}
		if (errs[st] == nil) != (errs["off"] == nil) {
			fail("apko lock (%s) is %s with package cache %s and %s without", c, gluelockErrStr(errs[st]), st, gluelockErrStr(errs["off"]))
		}
		got = append(got, st+"="+r)
	}
	steps = append(steps, e.staleStep(c, cacheDir, locks["off"], errs["off"], desc)...)
	// against the reference lock of the case: nothing in a lock file depends on ignore-signatures (the indexes here carry
	// valid signatures); across transports the repository root differs, and so does the order in which apko loads
	// pinned repositories ("@pin https://…" sorts before "https://…", "@pin /dir" after "/dir"), hence only without pins
	if (errs["off"] == nil) != (refLockErr == nil) && (!c.HTTP || !e.pinned) {
		fail("apko lock (%s) is %s, the plain lock of the same inputs is %s", c, gluelockErrStr(errs["off"]), gluelockErrStr(refLockErr))
	}
	if errs["off"] == nil && refLockErr == nil {
		switch {
		case !c.HTTP && locks["off"] != refLock:
			got = append(got, "ref=differs")
			fail("apko lock (%s) differs from the lock of the same inputs without that option: %s", c, gluelockFirstDiff(refLock, locks["off"]))
		case c.HTTP && !e.pinned && e.canonRoot(locks["off"]) != e.canonRoot(refLock):
			got = append(got, "ref=differs")
			fail("apko lock (%s) differs from the lock over the file repository beyond the repository root: %s", c, gluelockFirstDiff(e.canonRoot(refLock), e.canonRoot(locks["off"])))
		}
	}
	steps = append(steps, Step{Line: "x.robust\tlock-options-" + c.String() + "-" + e.hash(), Go: strings.Join(got, " "), Mode: "oracle-go", GoSpec: verdict, NoImpl: true,
		Desc: "apko lock under the option matrix: " + desc, Tags: []string{"glue:lock-options:" + c.String(), "glue:lock-options:" + strings.SplitN(verdict, ":", 2)[0]}, Trivial: errs["off"] != nil})
	if errs["off"] != nil {
		return steps
	}

	// build --lockfile from the cache-off lock of this combo
	var lf lkLockFile
	json.Unmarshal([]byte(locks["off"]), &lf)
	var apkArchs []string
	for _, a := range e.c.Archs {
		apkArchs = append(apkArchs, a.Arch)
	}
	listed := gluelockShowListed(lf, apkArchs)
	bdir := filepath.Join(e.work, "glue-bcache-"+c.String())
	os.MkdirAll(bdir, 0o755)
	builds := map[string]E2EOut{}
	for _, st := range gluelockCacheStates {
		dir := bdir
		switch st {
		case "off":
			apk.VerifResetGlobalCaches()
			dir = ""
		case "cold", "fresh":
			apk.VerifResetGlobalCaches()
		}
		builds[st] = e.build(c, dir, locks["off"])
		if builds[st].Err != nil && os.Getenv("GLUELOCK_DEBUG") != "" {
			fmt.Fprintf(os.Stderr, "gluelock: build --lockfile (%s, package cache %s): %v\n", c, st, builds[st].Err)
		}
	}
	got = nil
	verdict = "pass"
	for _, st := range gluelockCacheStates {
		o := builds[st]
		r := gluelockErrStr(o.Err)
		if o.Err == nil {
			if imgs := gluelockShowImages(o); imgs != listed {
				r = "inexact"
				fail("build --lockfile (%s, package cache %s) succeeds and does not install what the lock lists: %s", c, st, gluelockDescribeInexact(listed, imgs))
			} else if builds["off"].Err == nil && o.Summary() != builds["off"].Summary() {
				r = "differs"
				fail("build --lockfile (%s) with package cache %s differs from the build without a package cache: installed sizes %s vs %s", c, st, gluelockSizes(o), gluelockSizes(builds["off"]))
			}
		}
		if (o.Err == nil) != (builds["off"].Err == nil) && !gluelockUnifyRefusal(o.Err) && !gluelockUnifyRefusal(builds["off"].Err) {
			fail("build --lockfile (%s) is %s with package cache %s and %s without", c, gluelockErrStr(o.Err), st, gluelockErrStr(builds["off"].Err))
		}
		got = append(got, st+"="+r)
	}
	if !c.HTTP && locks["off"] == refLock {
		if gluelockUnifyRefusal(builds["off"].Err) || gluelockUnifyRefusal(refBuild.Err) {
			// no comparison possible
		} else if (builds["off"].Err == nil) != (refBuild.Err == nil) {
			fail("build --lockfile (%s) is %s, without that option %s", c, gluelockErrStr(builds["off"].Err), gluelockErrStr(refBuild.Err))
		} else if refBuild.Err == nil && builds["off"].Summary() != refBuild.Summary() {
			got = append(got, "ref=differs")
			fail("build --lockfile (%s) differs from the build of the same lock without that option: installed sizes %s vs %s", c, gluelockSizes(builds["off"]), gluelockSizes(refBuild))
		}
	}
	tags := []string{"glue:build-options:" + c.String(), "glue:build-options:" + strings.SplitN(verdict, ":", 2)[0]}
	for _, st := range gluelockCacheStates {
		if gluelockUnifyRefusal(builds[st].Err) {
			tags = append(tags, "glue:build-options:refused-by-unify(F09g)")
			break
		}
	}
	steps = append(steps, Step{Line: "x.robust\tbuild-options-" + c.String() + "-" + e.hash(), Go: strings.Join(got, " "), Mode: "oracle-go", GoSpec: verdict, NoImpl: true,
		Desc: "build --lockfile under the option matrix: " + desc, Tags: tags, Trivial: builds["off"].Err != nil})
	return steps
}

// staleStep: between two runs that share a package cache one locked package is published again under the same URL with
// the same control and data sections behind another signature section (a repository that re-signs its packages); the
// second run is a fresh process. Its lock must still describe the files that are at the recorded URLs.
func (e *gluelockEnv) staleStep(c gluelockCombo, cacheDir, lockOff string, lockErr error, desc string) []Step {
	plan := e.c.E2E.Glue
	var lf lkLockFile
	if !plan.Stale || lockErr != nil || json.Unmarshal([]byte(lockOff), &lf) != nil || len(lf.Contents.Packages) == 0 {
		return nil
	}
	victim := plan.Victim % len(lf.Contents.Packages)
	vp := lf.Contents.Packages[victim]
	old, err := e.read(vp.URL)
	if err != nil {
		return nil
	}
	change, _, _ := e.fault("resigned", lf, victim)
	restoreDisk := e.apply(change, false)
	restoreHTTP := e.apply(change, true)
	defer restoreDisk()
	defer restoreHTTP()
	apk.VerifResetGlobalCaches()
	text, err := e.lock(c, cacheDir)
	if err != nil {
		return nil
	}
	fields, goOut, bad := e.lockfileFields(text, map[string][]byte{vp.URL: old})
	if bad != "" {
		return nil
	}
	ign := "0"
	if c.IgnoreSig {
		ign = "1"
	}
	line := append([]string{"l.lockfile", "stale", ign}, fields...)
	line = append(line, goOut)
	var slf lkLockFile
	json.Unmarshal([]byte(text), &slf)
	rc := lkCheckRangesWith(slf, e.read)
	return []Step{{Line: strings.Join(line, "\t"), Go: goOut, Mode: "verdict",
		Desc: fmt.Sprintf("apko lock (%s) from a package cache filled before %s-%s (%s) was published again behind another signature section (recomputed by the harness: %s): ", c, vp.Name, vp.Version, vp.Architecture, rc) + desc,
		Tags: []string{"glue:lockfile:stale:" + strings.SplitN(rc, ":", 2)[0]}}}
}

func gluelockFirstDiff(a, b string) string {
	la, lb := strings.Split(a, "\n"), strings.Split(b, "\n")
	for i := 0; i < len(la) || i < len(lb); i++ {
		x, y := "<end>", "<end>"
		if i < len(la) {
			x = strings.TrimSpace(la[i])
		}
		if i < len(lb) {
			y = strings.TrimSpace(lb[i])
		}
		if x != y {
			return fmt.Sprintf("line %d: %s | %s", i+1, x, y)
		}
	}
	return "equal"
}

func gluelockDecode(s string) string {
	var parts []string
	for _, img := range strings.Split(s, ";") {
		kv := strings.SplitN(img, ":", 2)
		dec := func(x string) string {
			b, _ := hex.DecodeString(strings.TrimPrefix(x, "x"))
			return string(b)
		}
		var l []string
		if len(kv) == 2 && kv[1] != "" {
			for _, x := range strings.Split(kv[1], ",") {
				f := strings.Fields(dec(x))
				if len(f) >= 2 {
					l = append(l, f[0]+"="+f[1])
				}
			}
		}
		parts = append(parts, dec(kv[0])+":"+fmt.Sprint(l))
	}
	return strings.Join(parts, " ")
}

func gluelockDescribeInexact(listed, imgs string) string {
	return "locked {" + gluelockDecode(listed) + "} installed {" + gluelockDecode(imgs) + "}"
}

// ---------- lock-faults ----------

// gluelockFault computes the change of one fault kind as path -> new content (nil = the file is gone), paths relative
// to the repository root; status = what the change means for the victim: `intact` (the sections the lock's checksum and
// the control section's datahash speak about are unchanged and the file is still there) or `broken`.
func (e *gluelockEnv) fault(kind string, lf lkLockFile, victim int) (change map[string][]byte, broken map[string]bool, note string) {
	p := lf.Contents.Packages[victim]
	rel := strings.TrimPrefix(strings.TrimPrefix(p.URL, gluelockHost+"/"), e.repoDir+"/")
	files := gluelockReadTree(e.repoDir)
	orig := files[rel]
	change = map[string][]byte{}
	broken = map[string]bool{}
	key := func(arch, name string) string { return arch + "/" + name }
	note = fmt.Sprintf("%s of %s-%s (%s)", kind, p.Name, p.Version, p.Architecture)
	sz, _ := gluelockSections(orig)
	switch kind {
	case "removed":
		change[rel] = nil
		broken[key(p.Architecture, p.Name)] = true
	case "flip-data":
		b := append([]byte{}, orig...)
		b[len(b)-12] ^= 0x5a
		change[rel] = b
		broken[key(p.Architecture, p.Name)] = true
	case "flip-control":
		b := append([]byte{}, orig...)
		b[sz[0]+sz[1]/2] ^= 0x5a
		change[rel] = b
		broken[key(p.Architecture, p.Name)] = true
	case "garbage":
		b := make([]byte, len(orig))
		s := sha256.Sum256(orig)
		for i := range b {
			b[i] = s[i%32] ^ byte(i*7)
		}
		change[rel] = b
		broken[key(p.Architecture, p.Name)] = true
	case "truncated":
		change[rel] = append([]byte{}, orig[:sz[0]+sz[1]+sz[2]/2]...)
		broken[key(p.Architecture, p.Name)] = true
	case "grown":
		// a further gzip member behind the data section: no section the lock speaks about changes
		change[rel] = append(append([]byte{}, orig...), gz([]byte("trailing member"))...)
		note += " (an extra gzip member appended)"
		// apko may refuse the file or not: both are admissible, no prediction
		broken[key(p.Architecture, p.Name)] = true
		note += " [either outcome admissible]"
	case "other-package":
		// another .apk of the same architecture directory, else a package made up here
		var other []byte
		var names []string
		for n := range files {
			names = append(names, n)
		}
		sort.Strings(names)
		for _, n := range names {
			if filepath.Dir(n) == filepath.Dir(rel) && n != rel && strings.HasSuffix(n, ".apk") && !bytes.Equal(files[n], orig) {
				other = files[n]
				note += " by " + filepath.Base(n)
				break
			}
		}
		if other == nil {
			other = buildApk(SPkg{Name: "zz-intruder", Version: "9-r9", BuildTime: 1600000000, Files: []SFile{{Path: "intruder", Type: "file", Mode: 0o644, Content: "x"}}}, p.Architecture).bytes
			note += " by a made-up package"
		}
		change[rel] = other
		broken[key(p.Architecture, p.Name)] = true
	case "resigned":
		// the same control and data sections behind another (or no) signature section: the lock's checksum still holds
		var b []byte
		if sz[0] > 0 {
			b = append([]byte{}, orig[sz[0]:]...)
		} else {
			sig := gz(tarBytes(false, func(tw *tar.Writer) {
				body := []byte("another-signature")
				tw.WriteHeader(&tar.Header{Name: ".SIGN.RSA.other.rsa.pub", Mode: 0o644, Size: int64(len(body)), Typeflag: tar.TypeReg, ModTime: time.Unix(0, 0)})
				tw.Write(body)
			}))
			b = append(sig, orig...)
		}
		change[rel] = b
	case "unlisted":
		// the index no longer lists the package; the file stays
		ixRel := filepath.Join(filepath.Dir(rel), "APKINDEX.tar.gz")
		body, ok := gluelockIndexBody(files[ixRel])
		if !ok {
			return nil, nil, ""
		}
		var keep []string
		for _, para := range strings.Split(body, "\n\n") {
			if strings.Contains("\n"+para+"\n", "\nP:"+p.Name+"\n") && strings.Contains("\n"+para+"\n", "\nV:"+p.Version+"\n") {
				continue
			}
			if strings.TrimSpace(para) != "" {
				keep = append(keep, strings.Trim(para, "\n"))
			}
		}
		nb := ""
		if len(keep) > 0 {
			nb = strings.Join(keep, "\n\n") + "\n\n"
		}
		indexTar := tarBytes(true, func(tw *tar.Writer) {
			tw.WriteHeader(&tar.Header{Name: "APKINDEX", Mode: 0o644, Size: int64(len(nb)), Typeflag: tar.TypeReg, ModTime: time.Unix(0, 0)})
			tw.Write([]byte(nb))
		})
		change[ixRel] = signIndex(gz(indexTar), synthRSAKey())
		// `apko build --lockfile` still resolves the requested world against today's indexes (BuildCmd locks the
		// configuration before it builds), so it may refuse; if it builds, it installs from the lock
		note += " [either outcome admissible]"
	case "arch-down":
		// nothing below that architecture's directories can be fetched
		for n := range files {
			if filepath.Base(filepath.Dir(n)) == p.Architecture {
				change[n] = nil
			}
		}
		for _, q := range lf.Contents.Packages {
			if q.Architecture == p.Architecture {
				broken[key(q.Architecture, q.Name)] = true
			}
		}
		note = "repository unreachable for " + p.Architecture
	default:
		return nil, nil, ""
	}
	return change, broken, note
}

func gluelockIndexBody(b []byte) (string, bool) {
	zr, err := gzip.NewReader(bytes.NewReader(b))
	if err != nil {
		return "", false
	}
	tr := tar.NewReader(zr)
	for {
		h, err := tr.Next()
		if err != nil {
			return "", false
		}
		if h.Name == "APKINDEX" {
			d, err := io.ReadAll(tr)
			return string(d), err == nil
		}
	}
}

func (e *gluelockEnv) apply(change map[string][]byte, http bool) (restore func()) {
	if http {
		saved := map[string][]byte{}
		had := map[string]bool{}
		for n, b := range change {
			saved[n], had[n] = e.tr.Repo.Files[n]
			if b == nil {
				delete(e.tr.Repo.Files, n)
			} else {
				e.tr.Repo.Files[n] = b
			}
		}
		return func() {
			for n := range change {
				if had[n] {
					e.tr.Repo.Files[n] = saved[n]
				} else {
					delete(e.tr.Repo.Files, n)
				}
			}
		}
	}
	saved := map[string][]byte{}
	for n, b := range change {
		p := filepath.Join(e.repoDir, n)
		if old, err := os.ReadFile(p); err == nil {
			saved[n] = old
		}
		if b == nil {
			os.Remove(p)
		} else {
			os.WriteFile(p, b, 0o644)
		}
	}
	return func() {
		for n := range change {
			p := filepath.Join(e.repoDir, n)
			if old, ok := saved[n]; ok {
				os.WriteFile(p, old, 0o644)
			} else {
				os.Remove(p)
			}
		}
	}
}

// gluelockFaultSteps: one `l.lockbuild` step per fault kind.
// lockText: the cache-off lock over the transport the faults are injected into.
func (e *gluelockEnv) faultSteps(plan *gluelockPlan, lockText string) []Step {
	var lf lkLockFile
	if json.Unmarshal([]byte(lockText), &lf) != nil || len(lf.Contents.Packages) == 0 {
		return nil
	}
	desc := describeCase(rCase{Archs: e.c.Archs, World: e.c.World}, 0)
	victim := plan.Victim % len(lf.Contents.Packages)
	combo := gluelockCombo{HTTP: plan.FaultHTTP}
	var apkArchs []string
	for _, a := range e.c.Archs {
		apkArchs = append(apkArchs, a.Arch)
	}
	var steps []Step
	for _, kind := range plan.Faults {
		lockText, lf := lockText, lf
		var change map[string][]byte
		var broken map[string]bool
		var note string
		if strings.HasPrefix(kind, "lock-") {
			// the lock file itself is edited: the victim's checksum removed / replaced by another well-formed one
			var raw map[string]any
			if json.Unmarshal([]byte(lockText), &raw) != nil {
				continue
			}
			pk := raw["contents"].(map[string]any)["packages"].([]any)[victim].(map[string]any)
			vp := lf.Contents.Packages[victim]
			broken = map[string]bool{vp.Architecture + "/" + vp.Name: true}
			switch kind {
			case "lock-no-checksum":
				pk["checksum"] = ""
			case "lock-other-checksum":
				h := sha1.Sum([]byte(vp.Checksum))
				pk["checksum"] = "Q1" + base64.StdEncoding.EncodeToString(h[:])
			default:
				continue
			}
			b, _ := json.MarshalIndent(raw, "", "  ")
			lockText = string(b)
			lf = lkLockFile{}
			json.Unmarshal(b, &lf)
			note = fmt.Sprintf("%s of %s-%s (%s) in the lock file", kind, vp.Name, vp.Version, vp.Architecture)
			change = map[string][]byte{}
		} else {
			change, broken, note = e.fault(kind, lf, victim)
		}
		if change == nil {
			continue
		}
		restore := e.apply(change, plan.FaultHTTP)
		apk.VerifResetGlobalCaches()
		o := e.build(combo, "", lockText)
		restore()
		if gluelockUnifyRefusal(o.Err) {
			continue // refused before the lock was looked at (F09g): says nothing about the fault
		}
		goOut := "err"
		seen := "the build fails"
		if o.Err == nil {
			goOut = "ok " + gluelockShowImages(o)
			seen = "the build succeeds, installed {" + gluelockDecode(gluelockShowImages(o)) + "}, locked {" + gluelockDecode(gluelockShowListed(lf, apkArchs)) + "}"
		} else if os.Getenv("GLUELOCK_DEBUG") != "" {
			fmt.Fprintf(os.Stderr, "gluelock: %s: %v\n", note, o.Err)
		}
		// request: per architecture the locked list with the availability of every entry
		fields := []string{"l.lockbuild", fmt.Sprint(len(apkArchs))}
		for _, a := range apkArchs {
			var l []string
			for _, p := range lf.Contents.Packages {
				if p.Architecture != a {
					continue
				}
				st := "intact"
				if broken[a+"/"+p.Name] {
					st = "broken"
				}
				l = append(l, xs(p.Name+" "+p.Version+" "+p.Checksum)+"/"+st)
			}
			fields = append(fields, xs(a), strings.Join(l, ","))
		}
		pred := "predict"
		if strings.Contains(note, "[either outcome admissible]") {
			pred = "free"
		}
		fields = append(fields, pred, goOut)
		tr := "file"
		if plan.FaultHTTP {
			tr = "http"
		}
		steps = append(steps, Step{Line: strings.Join(fields, "\t"), Go: goOut, Mode: "verdict",
			Desc: fmt.Sprintf("lock, then %s [%s repository], then build --lockfile without package cache: %s: ", note, tr, seen) + desc,
			Tags: []string{"glue:fault:" + kind + ":" + strings.SplitN(goOut, " ", 2)[0], "glue:fault-transport:" + tr}})
	}
	return steps
}

// gluelockSteps is called by lkRunE2E after the plain lock / locked build of the case.
func gluelockSteps(work string, c lkCase, ic types.ImageConfiguration, archs []types.Architecture, refLock string, refLockErr error, refBuild E2EOut) []Step {
	if c.E2E == nil || c.E2E.Glue == nil {
		return nil
	}
	plan := c.E2E.Glue
	// "no package cache" needs more than leaving build.WithCache out: build.New falls back to os.UserCacheDir() whenever
	// that can be determined, so HOME and XDG_CACHE_HOME are taken away for the duration of these steps
	for _, k := range []string{"HOME", "XDG_CACHE_HOME"} {
		if v, ok := os.LookupEnv(k); ok {
			os.Unsetenv(k)
			defer os.Setenv(k, v)
		}
	}
	e := gluelockNewEnv(work, c, ic, archs)
	var steps []Step
	for i, combo := range plan.Combos {
		if refLockErr != nil && !plan.Full && i > 0 {
			break // quick tier: an unresolvable world is locked under one variant only
		}
		steps = append(steps, e.optionSteps(combo, refLock, refLockErr, refBuild)...)
	}
	if refLockErr == nil && refBuild.Err == nil && len(plan.Faults) > 0 {
		lockText := refLock
		if plan.FaultHTTP {
			apk.VerifResetGlobalCaches()
			t, err := e.lock(gluelockCombo{HTTP: true}, "")
			if err != nil {
				return steps
			}
			lockText = t
		}
		steps = append(steps, e.faultSteps(plan, lockText)...)
	}
	apk.VerifResetGlobalCaches()
	return steps
}
