package main

// corr:conflict (C07) — running one case through the REAL apk.InstallPackages on one backend and
// observing (error kind, final tree through the public FullFS API, lib/apk/db/installed).

import (
	"archive/tar"
	"bytes"
	"context"
	"crypto/sha1"
	"encoding/base64"
	"encoding/hex"
	"errors"
	"fmt"
	"io"
	"io/fs"
	"log/slog"
	"os"
	"path/filepath"
	"sort"
	"strings"
	"time"

	"chainguard.dev/apko/pkg/apk/apk"
	apkfs "chainguard.dev/apko/pkg/apk/fs"
	"chainguard.dev/apko/pkg/tarfs"
	"github.com/chainguard-dev/clog"
)

type conflictFile struct {
	Path    string `json:"path"`
	Type    string `json:"type"` // file | dir | symlink
	Mode    int64  `json:"mode"`
	UID     int    `json:"uid,omitempty"`
	GID     int    `json:"gid,omitempty"`
	Content string `json:"content,omitempty"`
	Link    string `json:"link,omitempty"`
}

type conflictPkg struct {
	Name     string         `json:"name"`
	Version  string         `json:"version"`
	Origin   string         `json:"origin,omitempty"`
	Replaces []string       `json:"replaces,omitempty"`
	Files    []conflictFile `json:"files"`
}

type conflictCase struct {
	Kind     string         `json:"kind,omitempty"`
	Base     []conflictFile `json:"base,omitempty"` // written through the FullFS API before the install (like InitDB's files)
	Pkgs     []conflictPkg  `json:"pkgs"`
	Backends []string       `json:"backends,omitempty"` // default: tarfs, memfs, dirfs
}

type conflictInstPkg struct {
	name, url, sum string
}

func (p conflictInstPkg) URL() string            { return p.url }
func (p conflictInstPkg) PackageName() string    { return p.name }
func (p conflictInstPkg) ChecksumString() string { return p.sum }

// one observed node of the final tree
type conflictNode struct {
	Path string
	Kind string // d | f | l
	Perm uint32
	UID  int
	GID  int
	Sum  string // hex sha1 of the content (f) ; link target (l)
}

type conflictObs struct {
	Outcome string // ok | conflict:<hexpath> | exists | error
	ErrText string
	Tree    []conflictNode
	DBText  string
	Parsed  []*apk.InstalledPackage
	ParseOK bool
}

const conflictDBDir = "lib/apk/db"

func conflictSha1Hex(s string) string {
	h := sha1.Sum([]byte(s))
	return hex.EncodeToString(h[:])
}

func conflictNewFS(backend string) (apkfs.FullFS, func()) {
	switch backend {
	case "tarfs":
		return tarfs.New(), func() {}
	case "memfs":
		return apkfs.NewMemFS(), func() {}
	case "dirfs":
		dir, err := os.MkdirTemp("", "conflict-dirfs")
		if err != nil {
			panic(err)
		}
		root := filepath.Join(dir, "root")
		return apkfs.DirFS(root, apkfs.WithCreateDir()), func() { os.RemoveAll(dir) }
	}
	panic("backend " + backend)
}

func conflictSPkg(p conflictPkg) SPkg {
	sp := SPkg{Name: p.Name, Version: p.Version, Origin: p.Origin, Replaces: p.Replaces}
	for _, f := range p.Files {
		sp.Files = append(sp.Files, SFile{Path: f.Path, Type: f.Type, Mode: f.Mode, UID: f.UID, GID: f.GID, Content: f.Content, Link: f.Link})
	}
	return sp
}

// conflictInstall runs the whole case on one backend.
func conflictInstall(c conflictCase, backend string) conflictObs {
	fsys, cleanup := conflictNewFS(backend)
	defer cleanup()
	must := func(err error) {
		if err != nil {
			panic(fmt.Sprintf("conflict setup (%s): %v", backend, err))
		}
	}
	must(fsys.MkdirAll(conflictDBDir, 0o755))
	for _, n := range []string{"installed", "scripts.tar", "triggers"} {
		must(fsys.WriteFile(conflictDBDir+"/"+n, []byte{}, 0o644))
	}
	for _, b := range c.Base {
		switch b.Type {
		case "dir":
			must(fsys.MkdirAll(b.Path, fs.FileMode(b.Mode)))
		case "symlink":
			must(fsys.Symlink(b.Link, b.Path))
		default:
			must(fsys.WriteFile(b.Path, []byte(b.Content), fs.FileMode(b.Mode)))
		}
	}
	dir, err := os.MkdirTemp("", "conflict-apks")
	must(err)
	defer os.RemoveAll(dir)
	var inst []apk.InstallablePackage
	for i, p := range c.Pkgs {
		b := buildApk(conflictSPkg(p), "x86_64")
		fn := filepath.Join(dir, fmt.Sprintf("%d-%s-%s.apk", i, p.Name, p.Version))
		must(os.WriteFile(fn, b.bytes, 0o644))
		inst = append(inst, conflictInstPkg{name: p.Name, url: fn, sum: "Q1" + base64.StdEncoding.EncodeToString(b.checksum)})
	}
	a, err := apk.New(apk.WithFS(fsys), apk.WithArch("x86_64"))
	must(err)
	epoch := time.Unix(0, 0).UTC()
	ctx := clog.WithLogger(context.Background(), clog.New(slog.NewTextHandler(io.Discard, nil)))
	_, ierr := a.InstallPackages(ctx, &epoch, inst)
	var o conflictObs
	var fce apk.FileConflictError
	var fee apk.FileExistsError
	switch {
	case ierr == nil:
		o.Outcome = "ok"
	case errors.As(ierr, &fce):
		o.Outcome = "conflict:" + hx(fce.Path)
	case errors.As(ierr, &fee):
		o.Outcome = "exists"
	default:
		o.Outcome = "error"
	}
	if ierr != nil {
		o.ErrText = ierr.Error()
		return o
	}
	o.Tree = conflictWalk(fsys)
	db, err := fsys.ReadFile(conflictDBDir + "/installed")
	must(err)
	o.DBText = string(db)
	o.Parsed, err = apk.ParseInstalled(bytes.NewReader(db))
	o.ParseOK = err == nil
	return o
}

func conflictWalk(fsys apkfs.FullFS) []conflictNode {
	var out []conflictNode
	var walk func(dir string, depth int)
	walk = func(dir string, depth int) {
		if depth > 12 {
			return
		}
		des, err := fsys.ReadDir(dir)
		if err != nil {
			out = append(out, conflictNode{Path: dir, Kind: "!readdir"})
			return
		}
		for _, de := range des {
			p := de.Name()
			if dir != "." {
				p = dir + "/" + de.Name()
			}
			if strings.HasPrefix(p, conflictDBDir+"/") {
				continue
			}
			n := conflictNode{Path: p}
			fi, err := de.Info()
			if err != nil {
				n.Kind = "!info"
				out = append(out, n)
				continue
			}
			n.Perm = uint32(fi.Mode().Perm())
			if h, ok := fi.Sys().(*tar.Header); ok && h != nil {
				n.UID, n.GID = h.Uid, h.Gid
			}
			switch {
			case de.Type()&fs.ModeSymlink != 0:
				n.Kind = "l"
				t, err := fsys.Readlink(p)
				if err != nil {
					n.Kind = "!readlink"
				}
				n.Sum = hx(t)
			case de.IsDir():
				n.Kind = "d"
			default:
				n.Kind = "f"
				b, err := fsys.ReadFile(p)
				if err != nil {
					n.Kind = "!read"
				}
				n.Sum = conflictSha1Hex(string(b))
			}
			out = append(out, n)
			if n.Kind == "d" {
				walk(p, depth+1)
			}
		}
	}
	walk(".", 0)
	sort.Slice(out, func(i, j int) bool { return out[i].Path < out[j].Path })
	return out
}

func (o conflictObs) treeText() string {
	var b strings.Builder
	for _, n := range o.Tree {
		fmt.Fprintf(&b, "%s %s %04o %d:%d %s\n", n.Path, n.Kind, n.Perm, n.UID, n.GID, n.Sum)
	}
	return b.String()
}

// the file-record projection of the db text: P:, F:, M:, R:, a:, Z: lines and the blank separators
func conflictDBProj(db string) string {
	var out []string
	for _, l := range strings.Split(db, "\n") {
		if l == "" {
			out = append(out, "")
			continue
		}
		if len(l) >= 2 && l[1] == ':' && strings.ContainsRune("PFMRaZ", rune(l[0])) {
			out = append(out, l)
		}
	}
	return strings.Join(out, "\n")
}

func init() {
	prev := extraCommand
	extraCommand = func(name string, args []string) bool {
		if name != "conflict-probe" {
			return prev(name, args)
		}
		conflictProbe(args)
		return true
	}
}
