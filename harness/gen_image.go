package main

// Generator of whole build inputs (package set with files + image configuration), shared by the
// end-to-end suites (C01 repro, and available to C06/C07/C10/C11/C13).

import (
	"fmt"
	"strings"

	"chainguard.dev/apko/pkg/build/types"
)

type ImgCase struct {
	Pkgs  []SPkg                   `json:"pkgs"`
	IC    types.ImageConfiguration `json:"ic"`
	Archs []string                 `json:"archs"`
	SBOM  bool                     `json:"sbom"`
}

var imgArchPool = []string{"x86_64", "aarch64", "riscv64"}

func genContent(r *Rng, name string, size int) string {
	var b strings.Builder
	for b.Len() < size {
		fmt.Fprintf(&b, "%s:%d\n", name, r.Intn(1000))
	}
	s := b.String()
	if len(s) > size {
		s = s[:size]
	}
	return s
}

// genImagePkgs: 3–10 packages in a few origins, with size ties, shared and deep directories, symlinks,
// hard links, empty dirs, xattrs, special mode bits, a simple dependency DAG.
func genImagePkgs(r *Rng) []SPkg {
	n := r.Range(3, 8)
	if r.Chance(15) {
		n = r.Range(8, 12)
	}
	origins := []string{"oa", "ob", "oc", ""}
	sizes := []int{0, 7, 64, 64, 64, 300, 1500}
	var pkgs []SPkg
	for i := 0; i < n; i++ {
		name := fmt.Sprintf("p%c", 'a'+i)
		if r.Chance(15) {
			name = fmt.Sprintf("p%c-x", 'a'+i) // names that sort differently with and without `=`
		}
		p := SPkg{Name: name, Version: Pick(r, verPool), License: Pick(r, []string{"MIT", "Apache-2.0", "GPL-2.0-only"}), Desc: "pkg " + name,
			URL: "https://example.test/" + name, BuildTime: int64(1600000000 + r.Intn(5)*86400)}
		if r.Chance(55) {
			p.Origin = Pick(r, origins)
		} else {
			p.Origin = name
		}
		// dependencies on earlier packages only (DAG)
		for j := 0; j < i; j++ {
			if r.Chance(25) {
				p.Deps = append(p.Deps, pkgs[j].Name)
			}
		}
		if r.Chance(20) {
			p.Provides = append(p.Provides, fmt.Sprintf("virt%d=%s", r.Intn(2), p.Version))
		}
		dirs := map[string]bool{}
		addDir := func(d string) {
			parts := strings.Split(d, "/")
			for k := 1; k <= len(parts); k++ {
				dd := strings.Join(parts[:k], "/")
				if !dirs[dd] {
					dirs[dd] = true
					p.Files = append(p.Files, SFile{Path: dd, Type: "dir", Mode: 0o755})
				}
			}
		}
		nf := r.Range(1, 5)
		var regs []string
		for f := 0; f < nf; f++ {
			dir := Pick(r, []string{"usr/bin", "usr/lib", "etc", "usr/share/" + name, "opt/" + name + "/deep/er/dir", "var/lib/" + name})
			addDir(dir)
			fn := fmt.Sprintf("%s/%s-f%d", dir, name, f)
			mode := Pick(r, []int64{0o644, 0o755, 0o600, 0o4755, 0o2755, 0o1777, 0o444})
			sf := SFile{Path: fn, Type: "file", Mode: mode, Content: genContent(r, fn, Pick(r, sizes)), UID: Pick(r, []int{0, 0, 0, 1000, 65532}), GID: Pick(r, []int{0, 0, 1000})}
			if r.Chance(12) {
				sf.Xattrs = map[string]string{"user.verif": "v" + fmt.Sprint(r.Intn(9))}
				if r.Chance(50) {
					sf.Xattrs["security.capability"] = "\x01\x00\x00\x02\x00\x04\x00\x00"
				}
			}
			p.Files = append(p.Files, sf)
			regs = append(regs, fn)
		}
		if r.Chance(35) && len(regs) > 0 {
			t := Pick(r, regs)
			p.Files = append(p.Files, SFile{Path: t + ".lnk", Type: "symlink", Mode: 0o777, Link: t[strings.LastIndex(t, "/")+1:]})
		}
		if r.Chance(12) {
			addDir("usr/lib")
			p.Files = append(p.Files, SFile{Path: "usr/lib/" + name + "-dangling", Type: "symlink", Mode: 0o777, Link: "/nonexistent/" + name})
		}
		if r.Chance(20) && len(regs) > 0 {
			t := Pick(r, regs)
			// hard link placed after its target in the archive, name sorting after the target's
			p.Files = append(p.Files, SFile{Path: t + ".zhard", Type: "hardlink", Mode: 0o644, Link: t})
		}
		if r.Chance(25) {
			addDir("var/empty/" + name)
		}
		pkgs = append(pkgs, p)
	}
	return pkgs
}

func genImageConfig(r *Rng, pkgs []SPkg) types.ImageConfiguration {
	var ic types.ImageConfiguration
	// world: the last package (most dependencies) plus up to two more
	ic.Contents.Packages = []string{pkgs[len(pkgs)-1].Name}
	for k := 0; k < 2; k++ {
		if r.Chance(50) {
			p := Pick(r, pkgs)
			if !contains(ic.Contents.Packages, p.Name) {
				ic.Contents.Packages = append(ic.Contents.Packages, p.Name)
			}
		}
	}
	if r.Chance(60) {
		ic.Environment = map[string]string{}
		for k := 0; k < r.Range(1, 5); k++ {
			ic.Environment[Pick(r, []string{"FOO", "BAR", "PATH", "LANG", "SSL_CERT_FILE", "ZED", "A_B"})] = Pick(r, []string{"1", "/usr/bin:/bin", "C.UTF-8", "", "x y"})
		}
	}
	if r.Chance(50) {
		ic.Annotations = map[string]string{}
		for k := 0; k < r.Range(1, 4); k++ {
			ic.Annotations[Pick(r, []string{"org.opencontainers.image.title", "a.b/c", "zz", "org.opencontainers.image.source"})] = Pick(r, []string{"t", "u v", "https://x.test"})
		}
	}
	if r.Chance(50) {
		switch r.Intn(3) {
		case 0:
			ic.Entrypoint.Command = Pick(r, []string{"/usr/bin/tool --flag", "/bin/sh -c 'echo hi'", "tool"})
		case 1:
			ic.Entrypoint.ShellFragment = "echo $FOO && exec tool"
		}
		if r.Chance(50) {
			ic.Cmd = Pick(r, []string{"--help", "a 'b c' d", ""})
		}
	}
	if r.Chance(30) {
		ic.WorkDir = Pick(r, []string{"/work", "/home/app"})
	}
	if r.Chance(20) {
		ic.StopSignal = Pick(r, []string{"SIGTERM", "SIGINT"})
	}
	if r.Chance(25) {
		ic.Volumes = []string{"/data", "/var/cache"}[:r.Range(1, 2)]
	}
	if r.Chance(55) {
		nu := r.Range(1, 3)
		for k := 0; k < nu; k++ {
			uid := uint32(Pick(r, []int{1000, 1001, 65532, 10, 4294967295}) + k)
			if uid < uint32(k) {
				uid = 4294967295
			}
			u := types.User{UserName: fmt.Sprintf("user%d", k), UID: uid}
			if r.Chance(50) {
				g := uid
				u.GID = &g
			}
			if r.Chance(40) {
				u.Shell = Pick(r, []string{"/bin/sh", "/sbin/nologin"})
			}
			if r.Chance(40) {
				u.HomeDir = Pick(r, []string{"/home/" + u.UserName, "/var/lib/" + u.UserName, "/dev/null"})
			}
			ic.Accounts.Users = append(ic.Accounts.Users, u)
			ic.Accounts.Groups = append(ic.Accounts.Groups, types.Group{GroupName: fmt.Sprintf("grp%d", k), GID: uid, Members: []string{u.UserName}[:r.Intn(2)]})
		}
		if r.Chance(60) {
			ic.Accounts.RunAs = Pick(r, []string{"user0", "1000", "65532", "root"})
		}
	}
	if r.Chance(45) {
		nm := r.Range(1, 4)
		for k := 0; k < nm; k++ {
			switch r.Intn(5) {
			case 0:
				ic.Paths = append(ic.Paths, types.PathMutation{Path: fmt.Sprintf("/made/dir%d/sub", k), Type: "directory", UID: 1000, GID: 1000, Permissions: Pick(r, []uint32{0o755, 0o700, 0o1777}), Recursive: r.Bool()})
			case 1:
				ic.Paths = append(ic.Paths, types.PathMutation{Path: fmt.Sprintf("/made/empty%d", k), Type: "empty-file", UID: uint32(r.Intn(2) * 1000), GID: 0, Permissions: 0o644})
			case 2:
				ic.Paths = append(ic.Paths, types.PathMutation{Path: fmt.Sprintf("/made/link%d", k), Type: "symlink", Source: "/usr/bin", Permissions: 0o777})
			case 3:
				ic.Paths = append(ic.Paths, types.PathMutation{Path: "/usr", Type: "permissions", UID: 0, GID: 0, Permissions: 0o755, Recursive: false})
			default:
				ic.Paths = append(ic.Paths, types.PathMutation{Path: fmt.Sprintf("/made/dirx%d", k), Type: "directory", UID: 0, GID: 0, Permissions: 0o755})
			}
		}
	}
	if r.Chance(45) {
		ic.Layering = &types.Layering{Strategy: "origin", Budget: r.Range(1, 5)}
	}
	return ic
}

func genImageCase(r *Rng) ImgCase {
	pkgs := genImagePkgs(r)
	c := ImgCase{Pkgs: pkgs, IC: genImageConfig(r, pkgs), SBOM: r.Chance(70)}
	n := 1
	if r.Chance(50) {
		n = r.Range(2, 3)
	}
	c.Archs = append([]string{}, imgArchPool[:n]...)
	if r.Chance(20) {
		// both 32-bit arm variants (they share the OCI architecture "arm" and differ only in the variant)
		c.Archs = []string{"x86_64", "armhf", "armv7", "aarch64"}[:r.Range(3, 4)]
		if r.Bool() {
			c.Archs = []string{"armv7", "armhf"}
		}
	}
	if len(c.Archs) >= 2 && r.Chance(60) {
		// the newest package differs per architecture (different build dates => different per-arch build date epochs)
		last := &c.Pkgs[len(c.Pkgs)-1]
		base := *last
		c.Pkgs = c.Pkgs[:len(c.Pkgs)-1]
		for i, a := range c.Archs {
			q := base
			q.BuildTime = base.BuildTime + int64(86400*(i+1)*(1+r.Intn(3)))
			q.OnlyArch = []string{a}
			c.Pkgs = append(c.Pkgs, q)
		}
	}
	if r.Chance(12) {
		// one file well above the parallel-gzip block size
		p := &c.Pkgs[0]
		var b strings.Builder
		seed := r.Intn(1000)
		for b.Len() < 3<<20 {
			fmt.Fprintf(&b, "%d:%d;", seed, b.Len()*7919%104729)
		}
		p.Files = append(p.Files, SFile{Path: "usr", Type: "dir", Mode: 0o755}, SFile{Path: "usr/big-" + p.Name, Type: "file", Mode: 0o644, Content: b.String()})
	}
	return c
}
