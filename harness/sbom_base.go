package main

// End-to-end base-image cases of corr:sbom (C11): the image is built ON TOP of a base image (`contents.baseimage` with
// the base's installed database as its apkindex, `--lockfile`).  buildImage copies every record of the base image's
// installed database into the new image's lib/apk/db/installed (AddInstalledPackage) and then installs the locked
// packages, so the installed database of the image that was built = base records ++ what this build unpacked, while
// the build's own file system (bc.fs) holds only the new layer.  The property speaks about the installed database of
// the IMAGE: the document must have one package element for every record of lib/apk/db/installed as a container
// runtime sees it (all layers flattened), base-image packages included.
//
// What the model is given for such a case (sbJudgeArtifacts):
//   apks       every record of lib/apk/db/installed of the flattened image            (the demand)
//   os version /etc/os-release of the layers THIS build produced, "unknown" without   (what GenerateImageSBOM reads: bc.fs;
//   sbom dir   /var/lib/db/sbom of the layers THIS build produced                      tie_glue_sbom_inputs)
// so a package list taken from anything but the image's database shows as a missing (or stray) apk element.

import (
	"context"
	"fmt"
	"os"
	"path/filepath"
	"strings"

	"chainguard.dev/apko/pkg/build"
	"chainguard.dev/apko/pkg/build/types"
	"chainguard.dev/apko/pkg/verifapi"
)

var sbBaseNames = []string{"bi-core", "bi+", "bi.lib", "bi_x", "libbi++", "bi-data", "b1", "bi-1"}

// sbGenBase turns e into a build on top of a base image: 1-4 packages of their own repository form the base image
// (some ship an SBOM, one may carry /etc/os-release), a package on top may depend on a base package (satisfied by the
// base image only), and now and then a base package's generated identifier collides with a top package's (F11a
// across the two halves of the installed database).
func sbGenBase(r *Rng, e *sbE2E) {
	e.Budget = 0 // layering on top of a base image is refused
	n := 1 + r.Intn(4)
	seen := map[string]bool{}
	for _, p := range e.Pkgs {
		seen[p.Name] = true
	}
	var base []SPkg
	var apks []sbApk
	for len(base) < n {
		nm := Pick(r, sbBaseNames)
		if seen[nm] {
			continue
		}
		seen[nm] = true
		v := fmt.Sprintf("%d.%d-r%d", r.Intn(3), r.Intn(10), r.Intn(5))
		if r.Chance(15) {
			v = fmt.Sprintf("%d", 1+r.Intn(3))
		}
		base = append(base, SPkg{Name: nm, Version: v, Origin: nm, Files: sbE2EFiles(nm)})
		apks = append(apks, sbApk{Name: nm, Version: v, Checksum: sbHex(r, 40)})
	}
	if r.Chance(10) && !seen["qC43"] && !seen["q+"] {
		// `q+ v` on top, `qC43 v` in the base image: one generated identifier for two records of the database
		v := fmt.Sprintf("%d.%d-r%d", r.Intn(3), r.Intn(10), r.Intn(5))
		base = append(base, SPkg{Name: "qC43", Version: v, Origin: "qC43", Files: sbE2EFiles("qC43")})
		e.Pkgs = append(e.Pkgs, SPkg{Name: "q+", Version: v, Origin: "q+", Files: sbE2EFiles("qplus")})
		e.World = append(e.World, "q+")
	}
	if r.Chance(50) {
		base[0].Files = append(base[0].Files, SFile{Path: "etc", Type: "dir", Mode: 0o755},
			SFile{Path: "etc/os-release", Type: "file", Mode: 0o644, Content: "ID=synthbase\nNAME=\"Synth Base\"\nVERSION_ID=" + Pick(r, []string{"7", "\"7.1\""}) + "\n"})
	}
	if r.Chance(40) {
		// SBOMs shipped by base-image packages: in the image, not in the file system GenerateImageSBOM looks at
		sbShipSBOMs(r, base, 0, sbGenFS(r, apks, 2))
	}
	sbDedupDirs(base)
	if r.Chance(50) {
		i := 1 + r.Intn(len(e.Pkgs)-1)
		e.Pkgs[i].Deps = append(e.Pkgs[i].Deps, base[r.Intn(len(base))].Name)
	}
	e.Base = base
}

type sbBasePrep struct {
	Work     string // scratch root (removed by the caller)
	BaseDir  string // OCI layout of the base image + metadata/<arch>/APKINDEX
	RepoDir  string // the repository of the packages on top, materialised (its path is in the lock file)
	LockPath string
	IC       types.ImageConfiguration
	Layers   map[string]int // apk architecture -> number of layers of the base image
}

// sbPrepareBase: the base image built by apko itself, its installed database as the auxiliary index, the
// configuration on top locked.  why != "" = the preparation failed (not the code under test).
func sbPrepareBase(e *sbE2E, ic types.ImageConfiguration, repo *SRepo) (prep sbBasePrep, why string) {
	work, err := os.MkdirTemp("", "verif-sbom-base-")
	if err != nil {
		panic(err)
	}
	prep.Work = work
	var baseIC types.ImageConfiguration
	for _, p := range e.Base {
		baseIC.Contents.Packages = append(baseIC.Contents.Packages, p.Name)
	}
	baseOut := e2eBuild(baseIC, BuildSynthRepo(e.Base, e.Archs), E2EOpts{Archs: e.Archs})
	if baseOut.Err != nil {
		return prep, "base-build-error: " + firstLine(baseOut.Err.Error())
	}
	prep.BaseDir = filepath.Join(work, "base")
	for n, b := range baseOut.Files {
		if rel, ok := strings.CutPrefix(n, "layout/"); ok {
			p := filepath.Join(prep.BaseDir, rel)
			os.MkdirAll(filepath.Dir(p), 0o755)
			if err := os.WriteFile(p, b, 0o644); err != nil {
				panic(err)
			}
		}
	}
	imgs, probs := gluelayerReadIndex(baseOut.Files["layout/index.json"], gluelayerLayoutBlob(baseOut.Files))
	if p := gluelayerAllProblems(imgs, probs); len(p) > 0 {
		return prep, "base-image-unreadable: " + p[0]
	}
	prep.Layers = map[string]int{}
	for _, a := range e.Archs {
		im := gluelayerImageOf(imgs, a)
		if im == nil {
			return prep, "base-image-lacks-" + a
		}
		fs, err := gluelayerFlatten(im)
		if err != nil {
			return prep, "base-image-unreadable: " + err.Error()
		}
		db, _ := gluelayerFile(fs, "lib/apk/db/installed")
		p := filepath.Join(prep.BaseDir, "metadata", a, "APKINDEX")
		os.MkdirAll(filepath.Dir(p), 0o755)
		if err := os.WriteFile(p, []byte(db), 0o644); err != nil {
			panic(err)
		}
		prep.Layers[a] = len(im.Man.Layers)
	}
	prep.RepoDir = filepath.Join(work, "toprepo")
	kp := repo.WriteTo(prep.RepoDir)
	ic.Contents.BaseImage = &types.BaseImageDescriptor{Image: prep.BaseDir, APKIndex: filepath.Join(prep.BaseDir, "metadata")}
	prep.IC = ic
	lic := ic
	lic.Contents.RuntimeRepositories = []string{prep.RepoDir}
	lic.Contents.Keyring = []string{kp}
	var as []types.Architecture
	for _, a := range e.Archs {
		as = append(as, types.ParseArchitecture(a))
	}
	ltmp := filepath.Join(work, "tmp-lock")
	os.MkdirAll(ltmp, 0o755)
	prep.LockPath = filepath.Join(work, "apko.lock.json")
	if err := verifapi.LockCmd(context.Background(), prep.LockPath, as, []build.Option{build.WithImageConfiguration(lic), build.WithTempDir(ltmp), build.WithSBOMFormats(nil)}); err != nil {
		return prep, "lock-error: " + firstLine(err.Error())
	}
	return prep, ""
}

func sbBaseDesc(e *sbE2E) string {
	if len(e.Base) == 0 {
		return ""
	}
	xs := make([]string, len(e.Base))
	for i, p := range e.Base {
		xs[i] = fmt.Sprintf("%q %q", p.Name, p.Version)
	}
	return fmt.Sprintf(" on top of contents.baseimage [%s] (built by apko, its installed database as apkindex; --lockfile)", strings.Join(xs, ", "))
}
