package main

// corr:confine (C18), package route of the cache and the files named after index / lock / configuration fields.
//
// Kinds:
//   pkgrec    cacheDirForPackage on hostile package RECORDS (URL, name, checksum as an index or a lock file may
//             state them): the model answers from the URL alone; the oracle (in Lean, on Go's answer) demands an
//             absolute path that reads within the cache root.
//   pkgcache  the records are installed for real: InstallPackages (expandPackage / cachedPackage / cachePackage /
//             PackageData) with a cache directory, against a transport that serves a package for any URL; the
//             package itself carries hostile .PKGINFO fields (name, version, arch, origin, datahash).  Run twice
//             (miss, then hit).  Oracle: canary diff (root, cache, tmp, out, repo are designated).
//   cmd       (confine_cmd.go) `apko build --lockfile` with hostile lock-file fields, `apko lock` / `apko build`
//             with a hostile architecture string.

import (
	"context"
	"encoding/base64"
	"fmt"
	"io"
	"net/http"
	"net/url"
	"os"
	"path/filepath"
	"strings"
	"time"

	"chainguard.dev/apko/pkg/apk/apk"
	apkfs "chainguard.dev/apko/pkg/apk/fs"
	"chainguard.dev/apko/pkg/build/types"
)

type confinePkgRec struct {
	URL      string `json:"url"`
	Name     string `json:"name"`
	Version  string `json:"version,omitempty"`  // index route only
	Checksum string `json:"checksum,omitempty"` // "" = the served package's own checksum
	Index    bool   `json:"index,omitempty"`    // an index entry: the URL is <URL>/<name>-<version>.apk as RepositoryPackage.URL() makes it
}

func (p confinePkgRec) String() string {
	return fmt.Sprintf("{url=%q name=%q version=%q checksum=%q index=%v}", p.URL, p.Name, p.Version, p.Checksum, p.Index)
}

// the InstallablePackage a lock file yields (pkg/build/installable_from_lock.go has the same three fields)
type confineLockPkg struct{ url, name, checksum string }

func (p confineLockPkg) URL() string            { return p.url }
func (p confineLockPkg) PackageName() string    { return p.name }
func (p confineLockPkg) ChecksumString() string { return p.checksum }

// hostile values for a field that might become a path component.  Depths: a cache entry sits at
// <top>/cache/<escaped repo>/<dir>/<entry>: three `..` from the entry's directory reach <top>.
var confineHostileFields = []string{
	"evil", "../evil", "../../evil", "../../../evil", "../../../w/canary2/evil", "../../../w/r/canary/evil", "../../../../evil",
	"../../../../../../../../../../../../../../{T}/w/r/canary/evil", "/{T}/w/r/canary/evil", "/evil", "/", "..", ".", "", "a/b", "a/../../../../w/canary2/evil",
	"../../../w/canary2", "../../../top-sentinel", "../../../w/r/root2/secret", "evil\x00/../../x", "e\nvil", " ", "-", "..%2f..%2f..%2fevil", `..\..\..\evil`,
	"../../../w/canary2/" + "AAAAAAAAAAAAAAAAAAAAAAAAAAAAAAAAAAAAAAAAAAAAAAAAAAAAAAAAAAAAAAAAAAAAAAAAAAAAAAAAAAAAAAAAAAAAAAAAAAAAAAAAAAAAAAAAAAAAAAAAAAAAAAAAAAAAAAAAAAAAAAAAAAAAAAAAAAAAAAAAAAAAAAAAAAAAAAAAAAAAAAAAAAAAAAAAAAAAAAAAAAAAAAAAAAAAAAAAAAAAAAAAAAAAAAAAAAAAAAAAAAAAAAAAAAAAAAAAAAAAAAAAAAAAAAAAAAAAAA",
}

// URLs a package may be served from (lock files record whatever URL the package was resolved from)
var confinePkgURLs = []string{
	"https://repo.test/os/x86_64/p-1.0-r0.apk", "https://repo.test/x86_64/p-1.0-r0.apk", "https://repo.test/p-1.0-r0.apk",
	"https://repo.test/os/x86_64/p-1.0-r0.apk?X-Signature=abc/../../..", "https://repo.test/os/x86_64/p-1.0-r0.apk#/../../..",
	// no .apk suffix: artifact stores, download endpoints
	"https://repo.test/api/download/x86_64/71243", "https://repo.test/dl/0", "https://repo.test/71243", "https://repo.test/blobs/sha256:0123456789abcdef",
	"https://repo.test/os/x86_64/p-1.0-r0.apk/", "https://repo.test/os/x86_64/p-1.0-r0.APK", "https://repo.test/os/x86_64/p.tar.gz", "https://repo.test/dl/p.apk.sig",
	// hostile paths
	"https://repo.test/os/x86_64/...apk", "https://repo.test/os/x86_64/..apk", "https://repo.test/os/x86_64/.apk", "https://repo.test/os/../../../../p.apk",
	"https://repo.test/os/x86_64/../../../../../w/canary2/evil.apk", "https://repo.test/os/x86_64/%2e%2e%2f%2e%2e%2f%2e%2e%2fevil.apk", "https://repo.test/...apk", "https://repo.test/..",
	"https://repo.test//...apk", "https://..%2f..%2f/x86_64/p.apk",
	// local repositories
	"{REPO}/x86_64/p-1.0-r0.apk", "{REPO}/dl/0", "{REPO}/x86_64/../../w/canary2/evil.apk", "file://{REPO}/x86_64/p-1.0-r0.apk", "../../p.apk", "x86_64/p.apk", "...apk",
}

var confinePkgChecksums = []string{"", "", "", "Q1../../../../evil", "../../../evil", "Q1", "Q", "Q1!!!!", "Q1Li4vLi4vLi4vZXZpbA==" /* base64("../../../evil") */, "Q2abc", "Q1/../../../w/canary2/evil",
	"Q1/../../../../../../w/canary2/evil", "../../../../../../evil", "Q1/../../../../../../../../../../../../../../../{T}/w/r/canary/evil"}

func confineGenRec(r *Rng) confinePkgRec {
	p := confinePkgRec{URL: Pick(r, confinePkgURLs), Name: Pick(r, confineHostileFields), Checksum: Pick(r, confinePkgChecksums)}
	if r.Chance(25) {
		p.Name = Pick(r, []string{"p", "alpine-baselayout", "evil"})
	}
	if r.Chance(30) {
		// an index entry: name and version make the file name
		p.Index = true
		p.URL = Pick(r, []string{"https://repo.test/os/x86_64", "https://repo.test/x86_64", "https://repo.test", "{REPO}/x86_64", "https://repo.test/os/x86_64/", "https://repo.test/os/.."})
		p.Version = Pick(r, []string{"1.0-r0", "1.0-r0", "../../../../evil", "/../..", "1/../../../../w/canary2/evil", "..", "", "1.0-r0.apk/../../../../w/canary2/x", "\x00"})
	}
	return p
}

func confineGenPkgRec(r *Rng) confineCase {
	return confineCase{Kind: "pkgrec", Root: Pick(r, []string{"/t/cache", "/t/cache", "/t/cache/", "/t", "/", "/t/c/../cache"}), Pkgs: []confinePkgRec{confineGenRec(r)}}
}

func confineGenPkgCache(r *Rng) confineCase {
	c := confineCase{Kind: "pkgcache"}
	n := r.Range(1, 2)
	for i := 0; i < n; i++ {
		c.Pkgs = append(c.Pkgs, confineGenRec(r))
	}
	if r.Chance(70) {
		// the ordinary miss path needs the right checksum
		for i := range c.Pkgs {
			c.Pkgs[i].Checksum = ""
		}
	}
	sp := SPkg{Name: "p", Version: "1.0-r0", Origin: "p", Files: []SFile{{Path: "usr", Type: "dir", Mode: 0o755}, {Path: "usr/p", Type: "file", Mode: 0o644, Content: "p"}}}
	if r.Chance(60) {
		// what the package says about itself is as untrusted as the record
		sp.Name, sp.Version, sp.Origin = Pick(r, confineHostileFields), Pick(r, []string{"1.0-r0", "../../../../evil", "/../.."}), Pick(r, confineHostileFields)
		sp.ArchOverride = Pick(r, []string{"", "../../../evil", "/", ".."})
		if strings.ContainsAny(sp.Name+sp.Origin, "\n\x00") {
			sp.Name, sp.Origin = "../../../evil", "../../../../evil"
		}
	}
	if r.Chance(20) {
		dh := Pick(r, []string{"", "../../../../evil", "../../../w/canary2/evil", "/{T}/w/r/canary/evil", "zz", "../../../w/r/root2/secret",
			// an existing data section outside the cache (confineRunPkgCache puts it there): a hit would regenerate its .dat.tar next to it
			"../../../../w/canary2/old", "../../../w/canary2/old", "../../../../../../../../../../../../../../{T}/w/canary2/old"})
		sp.DataHashOverride = &dh
	}
	c.SP = &sp
	return c
}

// architecture strings: configuration `archs:` / --arch values, known names in both styles, unknown plain names
var confineArchStrings = []string{"x86_64", "amd64", "aarch64", "arm64", "x86", "386", "armhf", "arm/v6", "armv7", "arm/v7", "loong64", "loongarch64", "riscv64", "ppc64le", "s390x", "mips64", "apples",
	"", ".", "..", "/", "a/b", "arm/v8", "arm/v6/", "/arm/v6", "arm//v6", "x86_64/", "../x86_64", "x86_64/..", "...", "..x", "a.b", "%2E%2E", "%2F", "a%2Fb", "a\\b", "a b", "all", "host"}

func confineGenArchName(r *Rng) confineCase {
	c := confineCase{Kind: "archname", Value: Pick(r, confineArchStrings)}
	if r.Chance(40) {
		c.Value = Pick(r, confineHostileArchs)
	}
	if r.Chance(20) {
		c.Value = Pick(r, confineHostileFields)
	}
	return c
}

func confineRunArchName(c confineCase) []Step {
	s := confineModelStr(c.Value)
	a := types.ParseArchitecture(s)
	got := a.ToAPK()
	// what is held may be parsed again at any time (ToAPK, ToOCIPlatform do): the name must not move
	again := types.ParseArchitecture(a.String()).ToAPK()
	tags := []string{"archname:known"}
	if got == s {
		tags = []string{"archname:unchanged"}
	} else if strings.Contains(got, "%2") {
		tags = []string{"archname:escaped"}
	}
	steps := []Step{{Line: "cf.archname\t" + hx(s), Go: hx(got), Desc: fmt.Sprintf("ParseArchitecture(%q).ToAPK() = %q", s, got), Tags: tags}}
	if again != got {
		steps = append(steps, Step{Line: "cf.effect\tarchname-not-stable\t0\t" + hx(again), Go: "-", Mode: "verdict", NoImpl: true, Desc: fmt.Sprintf("ParseArchitecture(%q).ToAPK() = %q but parsing the held value again gives %q", s, got, again)})
	}
	return steps
}

func confinePkgOf(t *confineTree, p confinePkgRec, validSum string) apk.InstallablePackage {
	sub := func(s string) string {
		if t != nil {
			s = strings.ReplaceAll(t.subst(s), "{REPO}", t.repo)
		}
		return s
	}
	sum := sub(p.Checksum)
	if sum == "" {
		sum = validSum
	}
	if p.Index {
		repo := apk.Repository{URI: sub(p.URL)}
		raw, _ := base64.StdEncoding.DecodeString(strings.TrimPrefix(sum, "Q1"))
		return apk.NewRepositoryPackage(&apk.Package{Name: sub(p.Name), Version: sub(p.Version), Checksum: raw}, repo.WithIndex(&apk.APKIndex{}))
	}
	return confineLockPkg{url: sub(p.URL), name: sub(p.Name), checksum: sum}
}

func confineRunPkgRec(c confineCase) []Step {
	var steps []Step
	for _, p := range c.Pkgs {
		// the model's tree lives under /T; local repositories under /T/repo
		p.URL, p.Name, p.Version = strings.ReplaceAll(confineModelStr(p.URL), "{REPO}", "/T/repo"), confineModelStr(p.Name), confineModelStr(p.Version)
		p.Checksum = confineModelStr(p.Checksum)
		pkg := confinePkgOf(nil, p, "Q1AAAAAAAAAAAAAAAAAAAAAAAAAAA=")
		path, esc, urlok := "", "", "0"
		tags := []string{}
		if u, err := apk.VerifPackageAsURL(pkg); err == nil {
			urlok = "1"
			u2 := *u
			u2.ForceQuery, u2.RawFragment, u2.RawQuery = false, "", ""
			u2.Path = filepath.Dir(filepath.Dir(u2.Path))
			path, esc = u.Path, url.QueryEscape(u2.String())
			if !strings.HasSuffix(filepath.Base(u.Path), ".apk") {
				tags = append(tags, "pkgrec:no-apk-suffix")
			}
			tags = append(tags, "pkgrec-scheme:"+u.Scheme)
		} else {
			tags = append(tags, "pkgrec:url-unparsable")
		}
		v, err := apk.VerifCacheDirForPackage(c.Root, pkg)
		g := confineOptS("err", v, err)
		tags = append(tags, "pkgrec:"+g[:2])
		if strings.Contains(pkg.PackageName(), "..") {
			tags = append(tags, "pkgrec:dotdot-name")
		}
		steps = append(steps, Step{Line: "cf.pkgdir\t" + hx(c.Root) + "\t" + hx(path) + "\t" + hx(esc) + "\t" + urlok + "\t" + hx(pkg.PackageName()) + "\t" + hx(pkg.ChecksumString()) + "\tGO=" + g, Go: g,
			Mode: "verdict", Desc: fmt.Sprintf("cacheDirForPackage(%q, url=%q name=%q checksum=%q) = %s %q", c.Root, pkg.URL(), pkg.PackageName(), pkg.ChecksumString(), g[:2], v), Tags: tags})
	}
	return steps
}

func confineRunPkgCache(c confineCase) []Step {
	t := confineNewTree()
	defer t.remove()
	sp := *c.SP
	sp.Name, sp.Origin = t.subst(sp.Name), t.subst(sp.Origin)
	if sp.DataHashOverride != nil {
		dh := t.subst(*sp.DataHashOverride)
		sp.DataHashOverride = &dh
	}
	a0 := buildApk(sp, "x86_64")
	validSum := "Q1" + base64.StdEncoding.EncodeToString(a0.checksum)
	// local copies for file-path URLs
	for _, rel := range []string{"x86_64/p-1.0-r0.apk", "dl/0"} {
		p := filepath.Join(t.repo, rel)
		confineMust(os.MkdirAll(filepath.Dir(p), 0o755))
		confineMust(os.WriteFile(p, a0.bytes, 0o644))
	}
	tr := &SynthTransport{Repo: &SRepo{Files: map[string][]byte{}}}
	tr.Hook = func(req *http.Request, _ []byte) (*http.Response, bool) {
		body := a0.bytes
		if req.Method == http.MethodHead {
			body = nil
		}
		return &http.Response{StatusCode: 200, Status: "200 OK", Proto: "HTTP/1.1", ProtoMajor: 1, ProtoMinor: 1, Header: http.Header{},
			Body: io.NopCloser(strings.NewReader(string(body))), ContentLength: int64(len(body)), Request: req}, true
	}
	var pkgs []apk.InstallablePackage
	var descs []string
	for _, p := range c.Pkgs {
		pkgs = append(pkgs, confinePkgOf(t, p, validSum))
		descs = append(descs, p.String())
	}
	// a data section that lies outside the cache (what a `datahash` string with separators could name)
	confineMust(os.WriteFile(filepath.Join(t.top, "w/canary2/old.dat.tar.gz"), a0.data, 0o644))
	des := t.designated()
	before := t.snapshot(des)
	var errs [2]error
	confineWithTmp(t, func() {
		for round := 0; round < 2; round++ {
			apk.VerifResetGlobalCaches()
			ctx := context.Background()
			root := t.root
			if round == 1 {
				// the second build finds the entries of the first one (cachedPackage, PackageData)
				root = filepath.Join(t.out, "root2")
				confineMust(os.MkdirAll(root, 0o755))
				// an old cache has no uncompressed data section: PackageData regenerates it next to the .dat.tar.gz
				filepath.WalkDir(t.cache, func(p string, d os.DirEntry, err error) error {
					if err == nil && strings.HasSuffix(p, ".dat.tar") {
						os.Remove(p)
					}
					return nil
				})
			}
			a, err := apk.New(apk.WithFS(apkfs.DirFS(root)), apk.WithArch("x86_64"), apk.WithIgnoreMknodErrors(true), apk.WithTransport(tr), apk.WithCache(t.cache, false, apk.NewCache(true)))
			confineMust(err)
			confineMust(a.InitDB(ctx))
			now := time.Unix(0, 0)
			_, errs[round] = a.InstallPackages(ctx, &now, pkgs)
		}
	})
	d := confineDiff(before, t.snapshot(des))
	entries := 0
	filepath.WalkDir(t.cache, func(p string, de os.DirEntry, err error) error {
		if err == nil && strings.HasSuffix(p, ".ctl.tar.gz") {
			entries++
		}
		return nil
	})
	tags := []string{"pkgcache:" + confineErrClass(errs[0]) + ":" + confineErrClass(errs[1]), fmt.Sprintf("pkgcache-entries:%d", entries)}
	if sp.DataHashOverride != nil {
		tags = append(tags, "pkgcache:datahash-override")
	}
	desc := fmt.Sprintf("InstallPackages twice with cache: records %s; package says name=%q version=%q origin=%q arch=%q", strings.Join(descs, " "), c.SP.Name, c.SP.Version, c.SP.Origin, c.SP.ArchOverride)
	if sp.DataHashOverride != nil {
		desc += fmt.Sprintf(" datahash=%q", *c.SP.DataHashOverride)
	}
	desc += " => " + confineErrClass(errs[0]) + confineErrText(errs[0]) + " / " + confineErrClass(errs[1]) + confineErrText(errs[1])
	return []Step{confineEffectStep("pkgcache", false, d, desc, tags)}
}
