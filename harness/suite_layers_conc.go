package main

// corr:layers-concurrent (C10, run from the -race build): several images are layered at the same time (what a
// multi-architecture build does: one BuildLayers -> splitLayers per architecture, in goroutines).  Every image's
// layers must be entry for entry the layers the same file system gives when layered alone.  Shared mutable state
// in splitLayers (package-level scratch buffers, pooled writers) shows up as a wrong byte or as a race report.

import (
	"context"
	"encoding/json"
	"fmt"
	"os"
	"strings"
	"sync"

	"chainguard.dev/apko/pkg/build"
)

type layersConcCase struct {
	Cases []lCase `json:"cases"`
	Reps  int     `json:"reps"`
}

type layersConcSuite struct{}

func init() { register(layersConcSuite{}) }

func (layersConcSuite) Name() string { return "layers-concurrent" }

func (layersConcSuite) Gen(r *Rng, i int, tier string) any {
	c := layersConcCase{Reps: r.Range(2, 3)}
	n := r.Range(2, 4)
	for k := 0; k < n; k++ {
		lc := genLayersCase(r, tier)
		// a few files larger than one copy chunk would need, with image-specific bytes
		for j := range lc.Ops {
			if lc.Ops[j].Kind == "file" && r.Chance(25) {
				lc.Ops[j].Data = strings.Repeat(fmt.Sprintf("%d:%d:%s|", k, j, lc.Ops[j].Path), r.Range(50, 4000))
			}
		}
		c.Cases = append(c.Cases, lc)
	}
	return c
}

func layersConcDigest(ctx context.Context, c lCase, tmp string) string {
	pkgs := lApkPkgs(c)
	fsys, _, err := lPopulate(c, pkgs)
	if err != nil {
		return "fs:conflict"
	}
	b := 3
	layers, err := build.VerifLayersOfFS(ctx, fsys, pkgs, b, tmp)
	if err != nil {
		return "err"
	}
	var parts []string
	for _, l := range layers {
		es, err := lReadLayer(l)
		if err != nil {
			return "invalid-tar"
		}
		var sb strings.Builder
		for _, e := range es {
			fmt.Fprintf(&sb, "%s,%v,%d,%s;", e.path, e.isDir, e.mtime, e.dig)
		}
		parts = append(parts, sb.String())
	}
	return strings.Join(parts, "\n")
}

func (layersConcSuite) Run(raw json.RawMessage) []Step {
	var c layersConcCase
	if err := json.Unmarshal(raw, &c); err != nil {
		panic(err)
	}
	ctx := context.Background()
	tmp, err := os.MkdirTemp("", "layers-conc-")
	if err != nil {
		panic(err)
	}
	defer os.RemoveAll(tmp)
	alone := make([]string, len(c.Cases))
	for i, lc := range c.Cases {
		d, _ := os.MkdirTemp(tmp, "a")
		alone[i] = layersConcDigest(ctx, lc, d)
	}
	var mu sync.Mutex
	var diverged []string
	var wg sync.WaitGroup
	for rep := 0; rep < c.Reps; rep++ {
		for i := range c.Cases {
			wg.Add(1)
			d, _ := os.MkdirTemp(tmp, "c")
			go func(i, rep int, d string) {
				defer wg.Done()
				if got := layersConcDigest(ctx, c.Cases[i], d); got != alone[i] {
					mu.Lock()
					diverged = append(diverged, fmt.Sprintf("image %d, repetition %d: layers differ from the layers of the same file system built alone", i, rep))
					mu.Unlock()
				}
			}(i, rep, d)
		}
	}
	wg.Wait()
	verdict, out := "pass", "identical"
	if len(diverged) > 0 {
		out = "diverged: " + diverged[0]
		verdict = "fail:" + out
	}
	return []Step{{Line: "x.robust\tlayers-conc-" + fmt.Sprint(len(raw)), Go: out, Mode: "oracle-go", GoSpec: verdict, NoImpl: true,
		Desc: fmt.Sprintf("%d images layered concurrently, %d repetitions each", len(c.Cases), c.Reps), Tags: []string{fmt.Sprintf("concurrent:%d", len(c.Cases)*c.Reps)}}}
}
