package main

import (
	"context"
	"fmt"
	"io"
	"log/slog"
	"os"
	"path/filepath"
	"sort"
	"strings"

	"chainguard.dev/apko/pkg/build"
	"chainguard.dev/apko/pkg/build/types"
	"chainguard.dev/apko/pkg/tarfs"

	v1 "github.com/google/go-containerregistry/pkg/v1"
)

// End-to-end part of corr:layers: the property's own statement on the real entry points.  The same image
// configuration is built twice through build.New + BuildLayers (what `apko build` calls): once without
// `layering` (single layer) and once with `layering: {strategy: origin, budget: b}`; the layers of the second
// build, extracted in order, must give exactly the filesystem of the first apart from etc/apko.json (the
// embedded copy of the configuration, which records the layering request).  Packages come from the signed
// fixture repository that ships with the tree under test (pkg/build/testdata/packages).

type lE2E struct {
	Packages   []string       `json:"packages"`
	Repos      string         `json:"repos"` // runtime | build | both : where the fixture repository is listed
	Users      []lUser        `json:"users,omitempty"`
	Groups     []lGroup       `json:"groups,omitempty"`
	Paths      []lPathMut     `json:"paths,omitempty"`
	Env        map[string]string `json:"env,omitempty"`
	Entrypoint string         `json:"entrypoint,omitempty"`
	Budgets    []int          `json:"budgets"`
}
type lUser struct {
	Name string `json:"name"`
	UID  uint32 `json:"uid"`
	GID  uint32 `json:"gid"`
	Home string `json:"home,omitempty"`
}
type lGroup struct {
	Name    string   `json:"name"`
	GID     uint32   `json:"gid"`
	Members []string `json:"members,omitempty"`
}
type lPathMut struct {
	Type   string `json:"type"`
	Path   string `json:"path"`
	Source string `json:"source,omitempty"`
	Perm   uint32 `json:"perm,omitempty"`
	UID    uint32 `json:"uid,omitempty"`
	GID    uint32 `json:"gid,omitempty"`
}

func init() { slog.SetDefault(slog.New(slog.NewTextHandler(io.Discard, nil))) } // apko logs every install

func genLayersE2E(r *Rng) *lE2E {
	e := &lE2E{}
	switch r.Intn(4) {
	case 0:
		e.Packages = []string{"replayout"}
	case 1:
		e.Packages = []string{"pretend-baselayout"}
	case 2:
		e.Packages = []string{"pretend-baselayout", "replayout"}
	default:
		e.Packages = []string{"replayout", "pretend-baselayout"}
	}
	// (a configuration with build repositories only fails in the single-layer build: SetRepositories([]))
	e.Repos = Pick(r, []string{"runtime", "runtime", "both"})
	nu := r.Intn(3)
	for i := 0; i < nu; i++ {
		e.Users = append(e.Users, lUser{Name: fmt.Sprintf("user%d", i), UID: uint32(1000 + i), GID: uint32(1000 + i), Home: Pick(r, []string{"", "/home/u", "/var/empty", "/srv/deep/home"})})
		e.Groups = append(e.Groups, lGroup{Name: fmt.Sprintf("user%d", i), GID: uint32(1000 + i)})
	}
	if r.Chance(40) {
		e.Groups = append(e.Groups, lGroup{Name: "extra", GID: 2000, Members: []string{"user0"}})
	}
	np := r.Intn(5)
	for i := 0; i < np; i++ {
		switch r.Intn(4) {
		case 0:
			e.Paths = append(e.Paths, lPathMut{Type: "directory", Path: Pick(r, []string{"/opt/app", "/usr/lib/deep/er/dir", "/etc/conf.d", "/data"}), Perm: 0o755, UID: uint32(r.Intn(2) * 1000)})
		case 1:
			e.Paths = append(e.Paths, lPathMut{Type: "empty-file", Path: Pick(r, []string{"/etc/marker", "/opt/empty", "/usr/lib/flag"}), Perm: 0o644})
		case 2:
			// the symlink mutation chmods through the link, so the source must exist: use an earlier creation
			var made []string
			for _, p := range e.Paths {
				if p.Type == "directory" || p.Type == "empty-file" {
					made = append(made, p.Path)
				}
			}
			if len(made) > 0 {
				e.Paths = append(e.Paths, lPathMut{Type: "symlink", Path: Pick(r, []string{"/usr/bin/app", "/opt/link", "/etc/l"}), Source: Pick(r, made)})
			}
		default:
			// only on something an earlier mutation created
			var made []string
			for _, p := range e.Paths {
				if p.Type == "directory" || p.Type == "empty-file" {
					made = append(made, p.Path)
				}
			}
			if len(made) > 0 {
				e.Paths = append(e.Paths, lPathMut{Type: "permissions", Path: Pick(r, made), Perm: Pick(r, []uint32{0o700, 0o750, 0o755}), UID: 1000})
			}
		}
	}
	if r.Chance(50) {
		e.Env = map[string]string{"FOO": "bar", "PATHX": "/opt/app/bin"}
	}
	if r.Chance(50) {
		e.Entrypoint = "/bin/sh -l"
	}
	e.Budgets = []int{r.Intn(3), 3 + r.Intn(6)}
	if r.Chance(30) {
		e.Budgets = []int{0, 1, 2, 3, 8}
	}
	return e
}

func lRepoRoot() string {
	if p := os.Getenv("VERIF_REPO"); p != "" {
		return p
	}
	return "/repo"
}

func (e *lE2E) config(alias string) types.ImageConfiguration {
	td := filepath.Join(lRepoRoot(), "pkg", "build", "testdata")
	repo := filepath.Join(td, "packages")
	var ic types.ImageConfiguration
	ic.Contents.Keyring = []string{filepath.Join(td, "melange.rsa.pub")}
	ic.Contents.Packages = e.Packages
	switch e.Repos {
	case "build":
		ic.Contents.BuildRepositories = []string{repo}
	case "both":
		ic.Contents.BuildRepositories = []string{alias}
		ic.Contents.RuntimeRepositories = []string{repo}
	default:
		ic.Contents.RuntimeRepositories = []string{repo}
	}
	for _, u := range e.Users {
		gid := u.GID
		ic.Accounts.Users = append(ic.Accounts.Users, types.User{UserName: u.Name, UID: u.UID, GID: types.GID(&gid), HomeDir: u.Home})
	}
	for _, g := range e.Groups {
		ic.Accounts.Groups = append(ic.Accounts.Groups, types.Group{GroupName: g.Name, GID: g.GID, Members: g.Members})
	}
	for _, p := range e.Paths {
		ic.Paths = append(ic.Paths, types.PathMutation{Type: p.Type, Path: p.Path, Source: p.Source, Permissions: p.Perm, UID: p.UID, GID: p.GID})
	}
	ic.Environment = e.Env
	ic.Entrypoint.Command = e.Entrypoint
	ic.Archs = []types.Architecture{types.ParseArchitecture("x86_64")}
	return ic
}

func lBuildE2E(ctx context.Context, ic types.ImageConfiguration, tmp string) ([]v1.Layer, error) {
	dir, err := os.MkdirTemp(tmp, "build-")
	if err != nil {
		return nil, err
	}
	bc, err := build.New(ctx, tarfs.New(),
		build.WithImageConfiguration(ic), build.WithArch(types.ParseArchitecture("x86_64")), build.WithTempDir(dir))
	if err != nil {
		return nil, fmt.Errorf("build.New: %w", err)
	}
	return bc.BuildLayers(ctx)
}

// runLayersE2E returns the steps of the end-to-end part.
func runLayersE2E(ctx context.Context, e *lE2E, tmp string) []Step {
	// a second spelling of the same repository directory, for build-only use
	alias := filepath.Join(tmp, "build-only-repo")
	_ = os.Symlink(filepath.Join(lRepoRoot(), "pkg", "build", "testdata", "packages"), alias)
	desc := fmt.Sprintf("packages=%v repos=%s users=%d paths=%v", e.Packages, e.Repos, len(e.Users), e.Paths)

	single, err := lBuildE2E(ctx, e.config(alias), tmp)
	if err != nil || len(single) != 1 {
		return []Step{{Line: "l.e2e\t-\t-\t-", Mode: "oracle-go", NoImpl: true, GoSpec: "pass", Trivial: true,
			Desc: "single-layer build fails: " + fmt.Sprint(err) + " " + desc, Tags: []string{"e2e:single-build-error"}}}
	}
	want, err := lReadLayer(single[0])
	if err != nil {
		panic(fmt.Errorf("reading single layer: %w", err))
	}
	wantFS := lExtract([][]lEntry{want})
	delete(wantFS, "etc/apko.json")

	var steps []Step
	for _, b := range e.Budgets {
		ic := e.config(alias)
		ic.Layering = &types.Layering{Strategy: "origin", Budget: b}
		layers, err := lBuildE2E(ctx, ic, tmp)
		verdict, where := "pass", ""
		var read [][]lEntry
		if err != nil {
			verdict = "fail:multi-layer build error: " + err.Error()
		} else {
			for _, l := range layers {
				es, err := lReadLayer(l)
				if err != nil {
					verdict = "fail:invalid-tar"
					break
				}
				read = append(read, es)
			}
		}
		if verdict == "pass" {
			got := lExtract(read)
			delete(got, "etc/apko.json")
			var diff []string
			for p, w := range wantFS {
				if got[p] != w {
					diff = append(diff, p)
				}
			}
			for p := range got {
				if _, ok := wantFS[p]; !ok {
					diff = append(diff, p)
				}
			}
			sort.Strings(diff)
			switch {
			case len(diff) > 0:
				where = strings.Join(diff, ",")
				verdict = "fail:flatten differs at " + where
			case b >= 1 && len(read) > b+1:
				verdict = "fail:budget"
			}
		}
		buildOnly := "0"
		if e.Repos != "runtime" {
			buildOnly = "1"
		}
		steps = append(steps, Step{
			Line: fmt.Sprintf("l.e2e\t%d\t%s\t%s", b, buildOnly, hx(where)), Mode: "oracle-go", NoImpl: true, GoSpec: verdict,
			Desc: fmt.Sprintf("BuildLayers(layering budget=%d) flattened vs BuildLayers(no layering); %s", b, desc),
			Tags: []string{"e2e:" + strings.SplitN(verdict, " ", 2)[0], fmt.Sprintf("e2e-layers:%d", len(read)), "e2e-repos:" + e.Repos},
		})
	}
	return steps
}
