package main

import (
	"fmt"
	"strings"

	"chainguard.dev/apko/pkg/apk/apk"
)

// Steps `t.*` / `tv.*`: the check on the Go → Lean translator (extract/trans.go).  The real function and its
// regenerated translation Generated.Trans.f run on the same input (driver: impl = translation, spec = the
// hand-written model the property theorems are about).  Inputs are drawn from the case's own universe with a
// generator state derived from the case, so the rest of the case's stream is unchanged.

type tPkg struct {
	p    rPkg
	repo string
	pin  string
}

func (t tPkg) enc() string {
	return strings.Join([]string{xs(t.p.Name), xs(t.p.Version), xs(t.p.Origin), xs(t.repo), xs(t.pin), fmt.Sprint(t.p.Priority), xl(t.p.Provides)}, ":")
}

func (t tPkg) real() *apk.RepositoryPackage {
	pk := &apk.Package{Name: t.p.Name, Version: t.p.Version, Origin: t.p.Origin, ProviderPriority: t.p.Priority, Provides: append([]string(nil), t.p.Provides...)}
	repo := apk.Repository{URI: t.repo}
	return apk.NewRepositoryPackage(pk, repo.WithIndex(&apk.APKIndex{}))
}

func (t tPkg) String() string {
	return fmt.Sprintf("%s-%s{origin=%q repo=%q pin=%q k=%d p=%v}", t.p.Name, t.p.Version, t.p.Origin, t.repo, t.pin, t.p.Priority, t.p.Provides)
}

func transResolverSteps(c rCase) []Step {
	if len(c.Archs) == 0 {
		return nil
	}
	var all []tPkg
	names := map[string]bool{"": true}
	for _, ix := range c.Archs[0].Indexes {
		for _, p := range ix.Pkgs {
			all = append(all, tPkg{p, ix.URI, ix.Pin})
			names[p.Name] = true
			for _, pr := range p.Provides {
				n, _, _, _ := apk.VerifConstraintFields(apk.ResolvePackageNameVersionPin(pr))
				names[n] = true
			}
		}
	}
	if len(all) < 2 {
		return nil
	}
	var nameList []string
	for _, ix := range c.Archs[0].Indexes { // deterministic order
		for _, p := range ix.Pkgs {
			for _, n := range append([]string{p.Name}, p.Provides...) {
				n, _, _, _ = apk.VerifConstraintFields(apk.ResolvePackageNameVersionPin(n))
				if names[n] {
					names[n] = false
					nameList = append(nameList, n)
				}
			}
		}
	}
	nameList = append(nameList, "")
	seed := uint64(len(all))*0x9e3779b97f4a7c15 ^ 0x7472616e73
	for _, w := range c.World {
		for i := 0; i < len(w); i++ {
			seed = seed*1099511628211 ^ uint64(w[i])
		}
	}
	r := &Rng{s: seed | 1}
	var steps []Step
	// comparator: pairs that can meet in one nameMap bucket (same name, or providers of one name) and arbitrary pairs
	for k := 0; k < 6; k++ {
		a := Pick(r, all)
		b := Pick(r, all)
		name := Pick(r, nameList)
		if r.Chance(70) {
			name = a.p.Name
			if len(a.p.Provides) > 0 && r.Chance(50) {
				name, _, _, _ = apk.VerifConstraintFields(apk.ResolvePackageNameVersionPin(Pick(r, a.p.Provides)))
			}
			// a partner that also carries the name
			var partners []tPkg
			for _, q := range all {
				if q.p.Name == name {
					partners = append(partners, q)
					continue
				}
				for _, pr := range q.p.Provides {
					if n, _, _, _ := apk.VerifConstraintFields(apk.ResolvePackageNameVersionPin(pr)); n == name {
						partners = append(partners, q)
						break
					}
				}
			}
			if len(partners) > 0 {
				b = Pick(r, partners)
			}
		}
		if r.Chance(8) {
			b.p.Version = Pick(r, []string{"abc", "", "1..2", a.p.Version})
		}
		if r.Chance(8) {
			a.p.Version = Pick(r, []string{"abc", "1.0-foo", b.p.Version})
		}
		if r.Chance(15) {
			b.p.Priority = a.p.Priority + uint64(r.Intn(3))
		}
		pin := ""
		if r.Chance(35) {
			pin = Pick(r, []string{a.pin, b.pin, "edge", "local"})
		}
		existing := map[string]*apk.RepositoryPackage{}
		var exEnc []string
		for _, q := range []tPkg{a, b, Pick(r, all)} {
			if r.Chance(35) {
				v := q.p.Version
				if r.Chance(30) {
					v = Pick(r, verPool)
				}
				if _, dup := existing[q.p.Name]; dup {
					continue
				}
				e := q
				e.p.Version = v
				existing[q.p.Name] = e.real()
				exEnc = append(exEnc, xs(q.p.Name)+":"+xs(v))
			}
		}
		origins := map[string]bool{}
		var ogList []string
		for _, q := range []tPkg{a, b} {
			if r.Chance(30) && !origins[q.p.Origin] {
				origins[q.p.Origin] = true
				ogList = append(ogList, q.p.Origin)
			}
		}
		var compare *apk.RepositoryPackage
		cmpEnc := ""
		if r.Chance(20) {
			cp := Pick(r, []tPkg{a, b, Pick(r, all)})
			if r.Chance(40) {
				cp.p.Origin = Pick(r, []string{a.p.Origin, b.p.Origin, "o9"})
			}
			compare = cp.real()
			cmpEnc = xs(cp.repo) + ":" + xs(cp.p.Origin)
		}
		out := fmt.Sprint(apk.VerifComparePackages(compare, name, existing, origins, pin, a.real(), b.real(), a.pin, b.pin))
		line := strings.Join([]string{"t.cmp", xs(name), xs(pin), strings.Join(exEnc, ","), xl(ogList), cmpEnc, a.enc(), b.enc()}, "\t")
		tag := "t.cmp:" + out
		if compare != nil {
			tag += ":compare"
		}
		steps = append(steps, Step{Line: line, Go: out, Tags: []string{tag},
			Desc: fmt.Sprintf("comparePackages(compare=%s, name=%q, existing=%v, existingOrigins=%v, pin=%q)(a=%v, b=%v)", cmpEnc, name, exEnc, ogList, pin, a, b)})
	}
	for k := 0; k < 3; k++ {
		a := Pick(r, all)
		name := Pick(r, nameList)
		if len(a.p.Provides) > 0 && r.Chance(60) {
			name, _, _, _ = apk.VerifConstraintFields(apk.ResolvePackageNameVersionPin(Pick(r, a.p.Provides)))
		}
		out := xs(apk.VerifGetDepVersionForName(a.real(), name))
		steps = append(steps, Step{Line: strings.Join([]string{"t.gdv", xs(name), a.enc()}, "\t"), Go: out, Tags: []string{"t.gdv"},
			Desc: fmt.Sprintf("getDepVersionForName(%v, %q)", a, name)})
	}
	for k := 0; k < 3; k++ {
		a := Pick(r, all)
		con := a.p.Name
		if len(a.p.Provides) > 0 && r.Chance(70) {
			con = Pick(r, a.p.Provides)
			if r.Chance(40) {
				con, _, _, _ = apk.VerifConstraintFields(apk.ResolvePackageNameVersionPin(con))
			}
		} else if r.Chance(30) {
			con += "=" + Pick(r, []string{a.p.Version, "9"})
		} else if r.Chance(15) {
			con = Pick(r, nameList)
		}
		res, panicked := apk.VerifConflictingVersion(con, a.real())
		out := fmt.Sprint(res)
		if panicked {
			out = "panic"
		}
		steps = append(steps, Step{Line: strings.Join([]string{"t.cv", xs(con), a.enc()}, "\t"), Go: out, Tags: []string{"t.cv:" + out},
			Desc: fmt.Sprintf("conflictingVersion(%q, %v)", con, a)})
	}
	// filterPackages on 2-6 candidates of the universe
	for k := 0; k < 2; k++ {
		n := r.Range(2, 6)
		var cands []tPkg
		for i := 0; i < n; i++ {
			c := Pick(r, all)
			if r.Chance(6) {
				c.p.Version = Pick(r, []string{"abc", "", "1..2"})
			}
			cands = append(cands, c)
		}
		var dq []int
		var dqS []string
		for i := range cands {
			if r.Chance(15) {
				dq = append(dq, i)
				dqS = append(dqS, fmt.Sprint(i))
			}
		}
		version, dep := "", 0
		if r.Chance(75) {
			dep = 1 + r.Intn(6)
			version = Pick(r, verPool)
			if r.Chance(50) {
				version = Pick(r, cands).p.Version
			}
			if r.Chance(4) {
				version = "zzz"
			}
		}
		allowPin, preferPin := "", ""
		if r.Chance(30) {
			allowPin = Pick(r, []string{"edge", "local", Pick(r, cands).pin})
		}
		if r.Chance(30) {
			preferPin = Pick(r, []string{"edge", "local", Pick(r, cands).pin})
		}
		var installed *apk.RepositoryPackage
		instEnc := ""
		if r.Chance(30) {
			ip := Pick(r, cands)
			if r.Chance(30) {
				ip = Pick(r, all)
			}
			installed = ip.real()
			instEnc = ip.enc()
		}
		reals := make([]*apk.RepositoryPackage, len(cands))
		pins := make([]string, len(cands))
		fields := []string{"t.fp", xs(version), fmt.Sprint(dep), xs(allowPin), xs(preferPin), instEnc, strings.Join(dqS, ",")}
		for i, c := range cands {
			reals[i], pins[i] = c.real(), c.pin
			fields = append(fields, c.enc())
		}
		kept := apk.VerifFilterPackages(reals, pins, dq, allowPin, preferPin, version, dep, installed)
		ks := make([]string, len(kept))
		for i, x := range kept {
			ks[i] = fmt.Sprint(x)
		}
		out := strings.Join(ks, ",")
		steps = append(steps, Step{Line: strings.Join(fields, "\t"), Go: out, Tags: []string{fmt.Sprintf("t.fp:dep%d:kept%d", dep, len(kept))},
			Desc: fmt.Sprintf("filterPackages(%v, dq=%v, version=%q, compare=%d, allowPin=%q, preferPin=%q, installed=%s)", cands, dq, version, dep, allowPin, preferPin, instEnc)})
	}
	return steps
}
