package main

// corr:repro (C01): the same configuration against the same repository contents with the same build
// date must give byte-identical outputs whatever the parallelism, working/temp directory, umask,
// time zone, environment and cache history.  Every variant is a CHILD process of this binary
// (`repro-child`), so GOMAXPROCS / TZ / umask / cwd / TMPDIR really differ and nothing is shared in
// memory; the repository is materialised once by the parent (same key, same bytes) and served to
// each child either from disk or through the in-process transport (for the cache variants).

import (
	"archive/tar"
	"bytes"
	"crypto/sha256"
	"encoding/hex"
	"io"
	"encoding/json"
	"fmt"
	"os"
	"os/exec"
	"path/filepath"
	"sort"
	"strings"
	"syscall"
	"time"

	"chainguard.dev/apko/pkg/apk/apk"
	"chainguard.dev/apko/pkg/build/types"
)

type reproVariant struct {
	Name       string `json:"name"`
	GOMAXPROCS int    `json:"gomaxprocs"`
	TZ         string `json:"tz"`
	Umask      int    `json:"umask"`
	Cwd        string `json:"cwd"`    // sub directory name to run in
	Tmp        string `json:"tmp"`    // sub directory name used as TMPDIR
	Cache      string `json:"cache"`  // none | cold | warm | offline
	HTTP       bool   `json:"http"`   // serve over the in-process transport
	Tarball    bool   `json:"tarball"`
	Reps       int    `json:"reps"` // builds inside the child (in-process repetition)
	EnvNoise   bool   `json:"env_noise"`
	SlowArch   string `json:"slow_arch,omitempty"` // HTTP only: requests for this architecture are delayed (controls which architecture finishes last)
	SlowRepo   string `json:"slow_repo,omitempty"` // HTTP only: the index of this repository answers late (controls which repository's index is ready last)
	// history: other configurations over the same repositories built earlier in the same process, the process-wide
	// memos of pkg/apk/apk kept (repro_history.go)
	After []reproOther `json:"after,omitempty"`
}

type reproCase struct {
	Img      ImgCase        `json:"img"`
	Variants []reproVariant `json:"variants"`
	// declared inputs shared by every variant: SOURCE_DATE_EPOCH in the environment (0 = unset; the build date then
	// comes from the environment, not from an option) and further keyring entries
	SDE       int64 `json:"sde,omitempty"`
	ExtraKeys int   `json:"extra_keys,omitempty"`
	// further repositories, some re-offering a (name, version) of the primary with other contents (repro_dims.go)
	Mirrors []reproMirror `json:"mirrors,omitempty"`
	// contents.baseimage + lock file (repro_dims.go)
	Base *reproBase `json:"base,omitempty"`
	// the real GetRepositoryIndexes under an imposed completion order, against the model (repro_dims.go)
	Collect *collectCase `json:"collect,omitempty"`
	// 2-3 providers of one virtual the world needs (repro_history.go)
	Prov *reproProv `json:"prov,omitempty"`
}

type reproSuite struct{}

func init() {
	register(reproSuite{})
	prev := extraCommand
	extraCommand = func(name string, args []string) bool {
		if name != "repro-child" {
			return prev(name, args)
		}
		reproChild(args)
		return true
	}
}

func (reproSuite) Name() string { return "repro" }

func (reproSuite) Gen(r *Rng, i int, tier string) any {
	c := reproCase{Img: genImageCase(r)}
	if r.Chance(40) {
		c.SDE = 1600000000 + int64(r.Intn(100000000))
	}
	if r.Chance(35) {
		c.ExtraKeys = 7
	}
	http := r.Chance(50)
	tarball := r.Chance(25)
	switch k := r.Intn(100); {
	case k < 30:
		c.Mirrors = genReproMirrors(r, &c.Img)
		http = r.Chance(70)
	case k < 45:
		c.Base = genReproBase(r)
		c.Img.IC.Layering = nil // unsupported on top of a base image
		c.Img.IC.Accounts = types.ImageAccounts{}
		c.ExtraKeys = 0
		if r.Bool() {
			last := &c.Img.Pkgs[len(c.Img.Pkgs)-1]
			last.Deps = append(append([]string{}, last.Deps...), c.Base.Pkgs[0].Name) // satisfied by the base image only
		}
	}
	base := reproVariant{Name: "base", GOMAXPROCS: 1, TZ: "UTC", Umask: 0o022, Cwd: "cwd-a", Tmp: "tmp-a", Cache: "none", HTTP: http, Tarball: tarball, Reps: 1}
	c.Variants = append(c.Variants, base)
	v2 := base
	v2.Name, v2.GOMAXPROCS, v2.TZ, v2.Umask, v2.Cwd, v2.Tmp, v2.EnvNoise, v2.Reps = "par16", 16, "Pacific/Kiritimati", 0o077, "cwd-b/deeper", "tmp-b-longer-name", true, 2
	c.Variants = append(c.Variants, v2)
	v3 := base
	v3.Name, v3.GOMAXPROCS, v3.TZ, v3.Umask = "par2", 2, "America/St_Johns", 0o002
	c.Variants = append(c.Variants, v3)
	if http && len(c.Img.Archs) >= 2 && len(c.Mirrors) == 0 { // (several repositories get the slow-repository variants instead: the per-case watchdog is 20 s)
		va, vb := base, base
		va.Name, va.SlowArch, va.GOMAXPROCS = "slow-first-arch", c.Img.Archs[0], 4
		vb.Name, vb.SlowArch, vb.GOMAXPROCS = "slow-last-arch", c.Img.Archs[len(c.Img.Archs)-1], 4
		c.Variants = append(c.Variants, va, vb)
	}
	if http && len(c.Mirrors) > 0 {
		// each repository in turn is the one whose index is ready last
		for _, n := range c.repoNames() {
			v := base
			v.Name, v.SlowRepo, v.GOMAXPROCS = "slow-repo-"+n, n, Pick(r, []int{2, 4, 16})
			c.Variants = append(c.Variants, v)
		}
	}
	if http && (len(c.Mirrors) == 0 || r.Chance(40)) {
		for _, cm := range []string{"cold", "warm", "offline"} {
			v := base
			v.Name, v.Cache, v.GOMAXPROCS = "cache-"+cm, cm, Pick(r, []int{1, 4, 16})
			c.Variants = append(c.Variants, v)
		}
	}
	c.Collect = genCollect(r)
	if tier == "thorough" {
		for k := 0; k < 3; k++ {
			v := base
			v.Name, v.GOMAXPROCS, v.Reps = fmt.Sprintf("rep%d", k), Pick(r, []int{1, 3, 8, 16}), 3
			c.Variants = append(c.Variants, v)
		}
	}
	// (drawn last: the cases of earlier rounds keep their other dimensions)
	if r.Chance(55) {
		c.Prov = genReproProviders(r, &c.Img)
	}
	if c.Base == nil {
		nh := 1
		if tier == "thorough" && r.Bool() {
			nh = 2
		}
		for k := 0; k < nh; k++ {
			v := base
			v.After = genReproOthers(r, &c)
			v.Name, v.GOMAXPROCS = fmt.Sprintf("after-%s", reproOtherKinds(v.After)), Pick(r, []int{1, 4, 16})
			if k > 0 {
				v.Name += "-again"
			}
			c.Variants = append(c.Variants, v)
		}
	}
	return c
}

func (reproSuite) Run(raw json.RawMessage) []Step {
	var c reproCase
	if err := json.Unmarshal(raw, &c); err != nil {
		panic(err)
	}
	steps := reproRunBuilds(c, raw)
	if c.Collect != nil {
		steps = append(steps, collectRun(c.Collect))
	}
	return steps
}

func reproRunBuilds(c reproCase, raw json.RawMessage) []Step {
	work, err := os.MkdirTemp("", "verif-repro-")
	if err != nil {
		panic(err)
	}
	keep := os.Getenv("VERIF_REPRO_KEEP") != "" // debugging aid: keep the scratch tree and dump every variant's outputs
	if keep {
		fmt.Fprintln(os.Stderr, "keeping", work)
	} else {
		defer os.RemoveAll(work)
	}
	// fixed location inside the scratch dir: repository path and cache path are part of the declared inputs
	repoDir := filepath.Join(work, "repo")
	repo := BuildSynthRepo(c.Img.Pkgs, c.Img.Archs)
	repo.WriteTo(repoDir)
	reproWriteRepos(&c, repoDir)
	caseFile := filepath.Join(work, "case.json")
	os.WriteFile(caseFile, raw, 0o644)
	dims := []string{fmt.Sprintf("repos:%d", 1+len(c.Mirrors)), fmt.Sprintf("base-image:%v", c.Base != nil)}
	if c.Prov != nil {
		dims = append(dims, "providers:"+c.Prov.Shape)
	} else {
		dims = append(dims, "providers:none")
	}
	for _, v := range c.Variants {
		for _, o := range v.After {
			dims = append(dims, "built-before:"+o.Kind)
		}
	}
	if c.Base != nil {
		if why := reproPrepareBase(&c, repoDir); why != "" {
			h := sha256.Sum256(raw)
			return []Step{{Line: "x.repro\t" + hex.EncodeToString(h[:8]), Go: "all-variants-failed", Mode: "oracle-go", GoSpec: "pass", NoImpl: true, Trivial: true,
				Desc: "contents.baseimage case that cannot be prepared: " + why, Tags: append(dims, "result:base-not-prepared")}}
		}
	}
	cacheDir := filepath.Join(work, "cache")
	self, _ := os.Executable()
	results := map[string]map[string]string{}
	var errs []string
	order := []string{}
	offlineFailed := false
	leak := "" // a variant's private scratch location found in an output
	for vi, v := range c.Variants {
		cwd := filepath.Join(work, v.Cwd)
		tmp := filepath.Join(work, v.Tmp)
		os.MkdirAll(cwd, 0o755)
		os.MkdirAll(tmp, 0o755)
		cmd := exec.Command(self, "repro-child", caseFile, fmt.Sprint(vi), repoDir, cacheDir)
		cmd.Dir = cwd
		env := []string{"TMPDIR=" + tmp, "HOME=" + filepath.Join(tmp, "home"), "XDG_CACHE_HOME=" + filepath.Join(tmp, "xdg"),
			"TZ=" + v.TZ, fmt.Sprintf("GOMAXPROCS=%d", v.GOMAXPROCS), "PATH=" + os.Getenv("PATH")}
		if c.SDE != 0 {
			env = append(env, fmt.Sprintf("SOURCE_DATE_EPOCH=%d", c.SDE))
		}
		if v.EnvNoise {
			env = append(env, "LANG=tr_TR.UTF-8", "LC_ALL=tr_TR.UTF-8", "USER=someone", "HOSTNAME=elsewhere", "FOO=bar", "GOFLAGS=")
		}
		if keep {
			env = append(env, "VERIF_DUMP="+filepath.Join(work, "dump-"+v.Name))
		}
		cmd.Env = env
		var out, stderr bytes.Buffer
		cmd.Stdout, cmd.Stderr = &out, &stderr
		done := make(chan error, 1)
		if err := cmd.Start(); err != nil {
			errs = append(errs, v.Name+": start: "+err.Error())
			continue
		}
		go func() { done <- cmd.Wait() }()
		select {
		case err := <-done:
			if err != nil {
				if v.Cache == "offline" {
					// an offline build may fail with an error (C19); it must not produce different bytes
					offlineFailed = true
					continue
				}
				errs = append(errs, fmt.Sprintf("%s: child failed: %v: %s", v.Name, err, tail(stderr.String(), 400)))
				continue
			}
		case <-time.After(120 * time.Second):
			cmd.Process.Kill()
			errs = append(errs, v.Name+": child timed out")
			continue
		}
		m := map[string]string{}
		for _, l := range strings.Split(out.String(), "\n") {
			if k, val, ok := strings.Cut(l, "\t"); ok && strings.HasPrefix(k, "out:") {
				m[strings.TrimPrefix(k, "out:")] = val
			} else if ok && k == "leak:" && leak == "" {
				leak = v.Name + ": " + val
			}
		}
		results[v.Name] = m
		order = append(order, v.Name)
	}
	goOut := "identical"
	verdict := "pass"
	nonOffline := 0
	for _, v := range c.Variants {
		if v.Cache != "offline" {
			nonOffline++
		}
	}
	if len(errs) > 0 {
		// a build error on this input is not a reproducibility violation by itself, but differing
		// success/failure between variants is
		if len(errs) == nonOffline {
			goOut = "all-variants-failed"
			if os.Getenv("VERIF_REPRO_DEBUG") != "" {
				fmt.Fprintln(os.Stderr, "all variants failed:", dims, errs[0])
			}
		} else {
			goOut = "diverged: some variants failed: " + strings.Join(errs, " | ")
			verdict = "fail:" + goOut
		}
	} else if len(order) > 0 {
		base := results[order[0]]
		for _, name := range order[1:] {
			if d := diffOutputs(base, results[name]); d != "" {
				goOut = fmt.Sprintf("diverged: %s vs %s: %s", order[0], name, d)
				verdict = "fail:" + goOut
				break
			}
		}
	}
	if leak != "" && goOut != "all-variants-failed" {
		// names the cause, so it goes first when the variants differ as well
		if verdict != "pass" {
			leak += " [and the variants differ: " + tail(goOut, 300) + "]"
		}
		goOut = "scratch-path: " + leak
		verdict = "fail:" + goOut
	}
	// F01b: a multi-arch bundle tarball whose entries are the same but in a different order
	// (go-containerregistry's tarball writer ranges over a map of images)
	goClass := ""
	if verdict != "pass" && leak == "" && len(errs) == 0 && len(c.Img.Archs) >= 2 && len(order) > 0 {
		only := true
		base := results[order[0]]
		for _, name := range order {
			m := results[name]
			for k := range m {
				if k == "out.tar" || k == "in-process-repetition" {
					continue
				}
				if m[k] != base[k] {
					only = false
				}
			}
			if rep, ok := m["in-process-repetition"]; ok && !strings.HasPrefix(rep, "out.tar:") {
				only = false
			}
		}
		if only {
			goClass = "F01b"
		}
	}
	nfiles := 0
	if len(order) > 0 {
		nfiles = len(results[order[0]])
	}
	layers := "single"
	if c.Img.IC.Layering != nil {
		layers = fmt.Sprintf("budget%d", c.Img.IC.Layering.Budget)
	}
	h := sha256.Sum256(raw)
	return []Step{{Line: "x.repro\t" + hex.EncodeToString(h[:8]), Go: goOut, Mode: "oracle-go", GoSpec: verdict, GoClass: goClass, NoImpl: true, Trivial: goOut == "all-variants-failed",
		Desc: fmt.Sprintf("%d pkgs, world %v, archs %v, %s, sbom=%v, %s%d variants %v, %d output files", len(c.Img.Pkgs), c.Img.IC.Contents.Packages, c.Img.Archs, layers, c.Img.SBOM, reproDimsDesc(&c)+reproHistoryDesc(&c), len(c.Variants), variantNames(c.Variants), nfiles),
		Tags: append(dims, "archs:" + fmt.Sprint(len(c.Img.Archs)), "layers:" + layers, "result:" + strings.SplitN(goOut, ":", 2)[0], fmt.Sprintf("variants:%d", len(c.Variants)), fmt.Sprintf("offline-failed:%v", offlineFailed))}}
}

func tail(s string, n int) string {
	if len(s) > n {
		return s[len(s)-n:]
	}
	return s
}

func diffOutputs(a, b map[string]string) string {
	keys := map[string]bool{}
	for k := range a {
		keys[k] = true
	}
	for k := range b {
		keys[k] = true
	}
	ks := make([]string, 0, len(keys))
	for k := range keys {
		ks = append(ks, k)
	}
	sort.Strings(ks)
	for _, k := range ks {
		if a[k] != b[k] {
			return fmt.Sprintf("%s: %q vs %q", k, a[k], b[k])
		}
	}
	return ""
}

// reproChild: one variant in its own process. Prints `out:<logical name>\t<sha256>` lines.
func reproChild(args []string) {
	raw, err := os.ReadFile(args[0])
	if err != nil {
		fmt.Fprintln(os.Stderr, err)
		os.Exit(2)
	}
	var c reproCase
	if err := json.Unmarshal(raw, &c); err != nil {
		fmt.Fprintln(os.Stderr, err)
		os.Exit(2)
	}
	var vi int
	fmt.Sscan(args[1], &vi)
	v := c.Variants[vi]
	repoDir, cacheDir := args[2], args[3]
	syscall.Umask(v.Umask)
	rr := reproLoadRepos(&c, repoDir)
	repo := rr.repos[reproPrimaryName]
	needles := scratchNeedles(cacheDir)
	ic := c.Img.IC
	var last map[string]string
	build1 := func(cache string) E2EOut {
		o := E2EOpts{Archs: c.Img.Archs, SBOM: c.Img.SBOM, Tarball: v.Tarball, ExtraKeys: c.ExtraKeys}
		reproOpts(&c, v, rr, &o)
		if c.Base != nil {
			ic = reproBaseIC(c.Img.IC, repoDir)
			_, o.LockFile = reproBasePaths(repoDir)
		}
		switch cache {
		case "cold", "warm":
			o.CacheDir = cacheDir
		case "offline":
			o.CacheDir, o.Offline = cacheDir, true
		}
		return e2eBuildAt(ic, repo, repoDir, o)
	}
	if v.Cache == "cold" {
		os.RemoveAll(cacheDir)
	}
	for rep := 0; rep < max(v.Reps, 1); rep++ {
		apk.VerifResetGlobalCaches()
		// the history of the process: earlier builds of other configurations, nothing reset in between (a build that
		// fails is history too)
		for _, other := range v.After {
			oo := E2EOpts{Archs: other.Archs, ExtraKeys: c.ExtraKeys}
			reproOpts(&c, v, rr, &oo)
			if prev := e2eBuildAt(reproOtherIC(other), repo, repoDir, oo); prev.Err != nil && os.Getenv("VERIF_REPRO_DEBUG") != "" {
				fmt.Fprintln(os.Stderr, "earlier build", other.Kind, other.World, "failed:", firstLine(prev.Err.Error()))
			}
		}
		out := build1(v.Cache)
		if out.Err != nil {
			fmt.Fprintln(os.Stderr, "build error:", out.Err)
			os.Exit(1)
		}
		d := logicalDigests(out)
		if l := scanOutputs(out, needles); l != "" {
			fmt.Printf("leak:\t%s\n", strings.ReplaceAll(l, "\n", " "))
		}
		if dump := os.Getenv("VERIF_DUMP"); dump != "" {
			for k, b := range out.Files {
				os.MkdirAll(filepath.Dir(filepath.Join(dump, k)), 0o755)
				os.WriteFile(filepath.Join(dump, k), b, 0o644)
			}
		}
		if last != nil {
			if df := diffOutputs(last, d); df != "" {
				fmt.Printf("out:in-process-repetition\t%s\n", df)
			}
		}
		last = d
	}
	keys := make([]string, 0, len(last))
	for k := range last {
		keys = append(keys, k)
	}
	sort.Strings(keys)
	for _, k := range keys {
		fmt.Printf("out:%s\t%s\n", k, last[k])
	}
}

// logicalDigests: file name → sha256; blob files of an OCI layout are named by their digest already.
func logicalDigests(o E2EOut) map[string]string {
	m := o.Digests()
	if b, ok := o.Files["out.tar"]; ok {
		// order-insensitive view of the bundle: sorted (entry name, content hash) pairs
		var ents []string
		tr := tar.NewReader(bytes.NewReader(b))
		for {
			h, err := tr.Next()
			if err != nil {
				if err != io.EOF {
					ents = append(ents, "read-error:"+err.Error())
				}
				break
			}
			c, _ := io.ReadAll(tr)
			s := sha256.Sum256(c)
			ents = append(ents, fmt.Sprintf("%s:%o:%x", h.Name, h.Mode, s[:8]))
		}
		sort.Strings(ents)
		s := sha256.Sum256([]byte(strings.Join(ents, "\n")))
		m["out.tar#sorted-entries"] = hex.EncodeToString(s[:])
	}
	return m
}

func loadRepoDir(dir string) *SRepo {
	r := &SRepo{Files: map[string][]byte{}, Apks: map[string]builtApk{}}
	files := map[string][]byte{}
	collectDir(dir, "", files)
	for k, v := range files {
		if k == synthKeyName {
			r.KeyPEM = v
			continue
		}
		r.Files[k] = v
	}
	return r
}
