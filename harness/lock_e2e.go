package main

type lkE2E struct{}

func lkGenCfg(r *Rng, tier string) lkCase { return lkGenFamily(r, tier) }
func lkGenE2E(r *Rng, tier string) lkCase { return lkGenFamily(r, tier) }
func lkRunCfg(c lkCase) []Step           { return nil }
func lkRunE2E(c lkCase) []Step           { return nil }
