package main

// corr:lock (C09), the steps that need real repositories: build.LockImageConfiguration against materialised
// per-architecture universe families, and `apko lock` + `apko build --lockfile` vs. the unlocked `apko build`.

import (
	apkfs "chainguard.dev/apko/pkg/apk/fs"
	"archive/tar"
	"bytes"
	"compress/gzip"
	"encoding/hex"
	"context"
	"crypto/sha1"
	"crypto/sha256"
	"encoding/base64"
	"encoding/json"
	"fmt"
	"io"
	"log/slog"
	"os"
	"path/filepath"
	"sort"
	"strings"
	"time"

	"chainguard.dev/apko/pkg/apk/apk"
	"chainguard.dev/apko/pkg/build"
	"chainguard.dev/apko/pkg/build/types"
	"chainguard.dev/apko/pkg/verifapi"
)

type lkE2E struct {
	Signed []string      `json:"signed,omitempty"` // package names whose .apk carries a (fake) signature member
	Glue   *gluelockPlan `json:"glue,omitempty"`   // option matrix and faults (lock_glue.go)
}

func lkSanitize(c *lkCase) {
	// /etc/apk/world is whitespace separated: entries that are empty or contain blanks / control bytes do not survive it
	var w []string
	for _, e := range c.World {
		ok := e != ""
		for i := 0; i < len(e); i++ {
			if e[i] <= 0x20 || e[i] >= 0x7f {
				ok = false
			}
		}
		if ok {
			w = append(w, e)
		}
	}
	c.World = w
	// the index format cannot carry an empty version
	// … and one repository directory cannot hold two different files <name>-<version>.apk
	for ai := range c.Archs {
		for ii := range c.Archs[ai].Indexes {
			px := c.Archs[ai].Indexes[ii].Pkgs
			seen := map[string]bool{}
			var keep []rPkg
			for pi := range px {
				if px[pi].Version == "" {
					px[pi].Version = "1.0-r0"
				}
				k := px[pi].Name + "-" + px[pi].Version
				if seen[k] {
					continue
				}
				seen[k] = true
				keep = append(keep, px[pi])
			}
			c.Archs[ai].Indexes[ii].Pkgs = keep
		}
	}
}

func lkGenCfg(r *Rng, tier string) lkCase {
	c := lkGenFamily(r, tier)
	c.Kind = "cfg"
	lkSanitize(&c)
	return c
}

func lkGenE2E(r *Rng, tier string) lkCase {
	c := lkGenFamily(r, tier)
	c.Kind = "e2e"
	lkSanitize(&c)
	if len(c.Archs) > 2 {
		c.Archs = c.Archs[:2]
	}
	e := &lkE2E{}
	for _, n := range []string{"a", "b", "c", "d", "e", "f", "g", "h"} {
		if r.Chance(35) {
			e.Signed = append(e.Signed, n)
		}
	}
	e.Glue = gluelockGenPlan(r, tier)
	c.E2E = e
	return c
}

// lkMaterialise writes one signed file repository per index position (all architectures below it) and returns
// the repository strings (with `@pin ` labels) in index order plus the key path.
func lkMaterialise(dir string, archs []rArch, signed []string, withFiles bool) ([]string, string) {
	k := synthRSAKey()
	var repos []string
	for ai, a := range archs {
		for ii, ix := range a.Indexes {
			rd := filepath.Join(dir, fmt.Sprintf("idx%02d", ii))
			if ai == 0 {
				s := rd
				if ix.Pin != "" {
					s = "@" + ix.Pin + " " + rd
				}
				repos = append(repos, s)
			}
			ad := filepath.Join(rd, a.Arch)
			os.MkdirAll(ad, 0o755)
			var idx strings.Builder
			for _, p := range ix.Pkgs {
				sp := SPkg{Name: p.Name, Version: p.Version, Origin: p.Origin, Deps: p.Deps, Provides: p.Provides, InstallIf: p.InstallIf, Priority: p.Priority,
					BuildTime: 1600000000}
				if withFiles {
					d := "usr/share/" + p.Name
					sp.Files = []SFile{{Path: "usr", Type: "dir", Mode: 0o755}, {Path: "usr/share", Type: "dir", Mode: 0o755}, {Path: d, Type: "dir", Mode: 0o755},
						{Path: d + "/id", Type: "file", Mode: 0o644, Content: fmt.Sprintf("%s-%s %s idx%d\n", p.Name, p.Version, a.Arch, ii)}}
				}
				b := buildApk(sp, a.Arch)
				if contains(signed, p.Name) {
					sig := gz(tarBytes(false, func(tw *tar.Writer) {
						body := []byte("not-a-real-signature:" + p.Name + "-" + p.Version)
						tw.WriteHeader(&tar.Header{Name: ".SIGN.RSA.fake.rsa.pub", Mode: 0o644, Size: int64(len(body)), Typeflag: tar.TypeReg, ModTime: time.Unix(0, 0)})
						tw.Write(body)
					}))
					b.bytes = append(append([]byte{}, sig...), b.bytes...)
				}
				os.WriteFile(filepath.Join(ad, fmt.Sprintf("%s-%s.apk", p.Name, p.Version)), b.bytes, 0o644)
				idx.WriteString(indexEntry(sp, a.Arch, b))
			}
			body := idx.String()
			indexTar := tarBytes(true, func(tw *tar.Writer) {
				tw.WriteHeader(&tar.Header{Name: "APKINDEX", Mode: 0o644, Size: int64(len(body)), Typeflag: tar.TypeReg, ModTime: time.Unix(0, 0)})
				tw.Write([]byte(body))
			})
			os.WriteFile(filepath.Join(ad, "APKINDEX.tar.gz"), signIndex(gz(indexTar), k), 0o644)
		}
	}
	kp := filepath.Join(dir, synthKeyName)
	os.WriteFile(kp, pubKeyPEM(k), 0o644)
	return repos, kp
}

// apko logs through slog's default logger; keep the harness output clean
func lkQuiet() { slog.SetDefault(slog.New(slog.NewTextHandler(io.Discard, nil))) }

func lkOCI(arch string) string { return types.ParseArchitecture(arch).String() }

func lkConfig(c lkCase, repos []string, key string) (types.ImageConfiguration, []types.Architecture) {
	ic := types.ImageConfiguration{}
	ic.Contents.RuntimeRepositories = repos
	ic.Contents.Keyring = []string{key}
	ic.Contents.Packages = c.World
	var archs []types.Architecture
	for _, a := range c.Archs {
		archs = append(archs, types.ParseArchitecture(a.Arch))
	}
	ic.Archs = archs
	return ic, archs
}

func lkRunCfg(c lkCase) []Step {
	lkQuiet()
	apk.VerifResetGlobalCaches()
	work, err := os.MkdirTemp("", "verif-lockcfg-")
	if err != nil {
		panic(err)
	}
	defer os.RemoveAll(work)
	repos, key := lkMaterialise(filepath.Join(work, "repo"), c.Archs, nil, false)
	ic, _ := lkConfig(c, repos, key)
	os.MkdirAll(filepath.Join(work, "tmp"), 0o755)
	ics, missing, err := build.LockImageConfiguration(context.Background(), ic, build.WithTempDir(filepath.Join(work, "tmp")), build.WithSBOMFormats(nil))
	var out string
	if err != nil {
		out = "err"
	} else {
		pls := map[string][]string{}
		var keys, as []string
		for k, v := range ics {
			pls[k] = v.Contents.Packages
			keys = append(keys, k)
		}
		sort.Strings(keys)
		for _, k := range keys {
			var l []string
			for _, a := range ics[k].Archs {
				l = append(l, a.String())
			}
			as = append(as, xs(k)+":"+xl(l))
		}
		out = lkShowUnify(pls, missing, nil) + "|A " + strings.Join(as, ";")
	}
	var labels []string
	for _, a := range c.Archs {
		labels = append(labels, lkOCI(a.Arch))
	}
	fields := append([]string{"l.lockall", xl(c.World), xl(labels)}, encodeArchs(c.Archs)...)
	fields = append(fields, out)
	tags := []string{"cfg:" + strings.SplitN(out, " ", 2)[0], fmt.Sprintf("cfg-archs:%d", len(c.Archs))}
	return []Step{{Line: strings.Join(fields, "\t"), Go: out, Desc: "LockImageConfiguration " + describeCase(rCase{Archs: c.Archs, World: c.World}, 0), Tags: tags, Mode: "verdict", Trivial: out == "err"}}
}

// ---------- end to end ----------

func lkBuild(work string, ic types.ImageConfiguration, archs []types.Architecture, lockFile string, tag string) E2EOut {
	tmp := filepath.Join(work, "tmp-"+tag)
	os.MkdirAll(tmp, 0o755)
	opts := []build.Option{build.WithImageConfiguration(ic), build.WithSourceDateEpoch(time.Unix(1700000000, 0)), build.WithTempDir(tmp), build.WithSBOMFormats(nil)}
	if lockFile != "" {
		opts = append(opts, build.WithLockFile(lockFile))
	}
	out := filepath.Join(work, "out-"+tag)
	sb := filepath.Join(work, "sbom-"+tag)
	os.MkdirAll(out, 0o755)
	os.MkdirAll(sb, 0o755)
	if err := verifapi.BuildCmd(context.Background(), "verif.test/img:latest", out, archs, nil, false, sb, opts...); err != nil {
		return E2EOut{Err: err}
	}
	files := map[string][]byte{}
	collectDir(out, "layout/", files)
	return E2EOut{Files: files}
}

type lkLockFile struct {
	Contents struct {
		Packages []struct {
			Name         string `json:"name"`
			URL          string `json:"url"`
			Version      string `json:"version"`
			Architecture string `json:"architecture"`
			Signature    struct{ Range, Checksum string }
			Control      struct{ Range, Checksum string }
			Data         struct{ Range, Checksum string }
			Checksum     string `json:"checksum"`
		} `json:"packages"`
	} `json:"contents"`
}

// lkCheckRanges recomputes every recorded range and checksum from the package file the URL points at.
func lkCheckRanges(l lkLockFile) string { return lkCheckRangesWith(l, os.ReadFile) }

// read: the file behind a recorded URL (a directory repository, or the in-process HTTP repository)
func lkCheckRangesWith(l lkLockFile, read func(url string) ([]byte, error)) string {
	for _, p := range l.Contents.Packages {
		b, err := read(p.URL)
		if err != nil {
			return "bad:url:" + p.Name
		}
		rng := func(s string) (int, int, bool) {
			var a, z int
			if _, err := fmt.Sscanf(s, "bytes=%d-%d", &a, &z); err != nil {
				return 0, 0, false
			}
			return a, z, true
		}
		next := 0
		if p.Signature.Range != "" {
			a, z, ok := rng(p.Signature.Range)
			if !ok || a != 0 || z < a || z >= len(b) {
				return "bad:sig-range:" + p.Name
			}
			h := sha1.Sum(b[a : z+1])
			if p.Signature.Checksum != "sha1-"+base64.StdEncoding.EncodeToString(h[:]) {
				return "bad:sig-checksum:" + p.Name
			}
			next = z + 1
		}
		a, z, ok := rng(p.Control.Range)
		if !ok || a != next || z < a || z >= len(b) {
			return "bad:control-range:" + p.Name
		}
		h := sha1.Sum(b[a : z+1])
		if p.Control.Checksum != "sha1-"+base64.StdEncoding.EncodeToString(h[:]) {
			return "bad:control-checksum:" + p.Name
		}
		if p.Checksum != "Q1"+base64.StdEncoding.EncodeToString(h[:]) {
			return "bad:q1-checksum:" + p.Name
		}
		// each range must be exactly one gzip member: the next one starts with the gzip magic
		if b[a] != 0x1f || b[a+1] != 0x8b {
			return "bad:control-not-gzip:" + p.Name
		}
		next = z + 1
		a, z, ok = rng(p.Data.Range)
		if !ok || a != next || z != len(b)-1 {
			return "bad:data-range:" + p.Name
		}
		if b[a] != 0x1f || b[a+1] != 0x8b {
			return "bad:data-not-gzip:" + p.Name
		}
		d := sha256.Sum256(b[a : z+1])
		if p.Data.Checksum != "sha256-"+base64.StdEncoding.EncodeToString(d[:]) {
			return "bad:data-checksum:" + p.Name
		}
	}
	return "ok"
}

func lkRunE2E(c lkCase) []Step {
	lkQuiet()
	apk.VerifResetGlobalCaches()
	work, err := os.MkdirTemp("", "verif-locke2e-")
	if err != nil {
		panic(err)
	}
	defer os.RemoveAll(work)
	var signed []string
	if c.E2E != nil {
		signed = c.E2E.Signed
	}
	repos, key := lkMaterialise(filepath.Join(work, "repo"), c.Archs, signed, true)
	ic, archs := lkConfig(c, repos, key)

	unlocked := lkBuild(work, ic, archs, "", "u")
	st := map[string]string{"build": "ok", "lock": "-", "pkgs": "-", "ranges": "-", "locked": "-", "same": "-", "samefs": "-"}
	if unlocked.Err != nil {
		st["build"] = "err"
	}
	lockPath := filepath.Join(work, "apko.lock.json")
	ltmp := filepath.Join(work, "tmp-l")
	os.MkdirAll(ltmp, 0o755)
	lerr := verifapi.LockCmd(context.Background(), lockPath, archs, []build.Option{build.WithImageConfiguration(ic), build.WithTempDir(ltmp), build.WithSBOMFormats(nil)})
	var locked E2EOut
	if lerr != nil {
		st["lock"] = "err"
	} else {
		st["lock"] = "ok"
		var lf lkLockFile
		b, _ := os.ReadFile(lockPath)
		if err := json.Unmarshal(b, &lf); err != nil {
			st["ranges"] = "bad:json"
		} else {
			st["ranges"] = lkCheckRanges(lf)
			// listed packages per architecture, in file order
			var parts []string
			for _, a := range c.Archs {
				var l []string
				for _, p := range lf.Contents.Packages {
					if p.Architecture == a.Arch {
						l = append(l, p.Name+"="+p.Version)
					}
				}
				sort.Strings(l)
				parts = append(parts, xs(a.Arch)+":"+xl(l))
			}
			st["pkgs"] = strings.Join(parts, ";")
		}
		locked = lkBuild(work, ic, archs, lockPath, "k")
		switch {
		case locked.Err != nil:
			st["locked"] = "err"
		default:
			st["locked"] = "ok"
			if unlocked.Err == nil {
				st["same"] = fmt.Sprint(locked.Summary() == unlocked.Summary())
				st["samefs"] = fmt.Sprint(lkCanonImage(locked) == lkCanonImage(unlocked))
			}
		}
	}
	// a lock made for a subset of the architectures, then `build --lockfile` for an architecture it does not cover:
	// building from a lock installs exactly the packages the lock lists for that architecture — here none
	var extra []Step
	if lerr == nil && len(archs) >= 2 {
		sub := filepath.Join(work, "apko.sub.lock.json")
		if err := verifapi.LockCmd(context.Background(), sub, archs[:1], []build.Option{build.WithImageConfiguration(ic), build.WithTempDir(ltmp), build.WithSBOMFormats(nil)}); err == nil {
			other := lkBuild(work, ic, archs[len(archs)-1:], sub, "s")
			got, verdict := "err", "pass" // refusing to build is an admissible answer
			if other.Err == nil {
				n := lkInstalledCount(other)
				got = fmt.Sprintf("ok installed=%d", n)
				if n != 0 {
					verdict = fmt.Sprintf("fail:the lock lists no package for %s but the image built from it has %d installed packages", archs[len(archs)-1], n)
				}
			}
			extra = append(extra, Step{Line: "x.robust\tlock-subset-" + hx(strings.Join(c.World, ",")+"............")[:12], Go: got, Mode: "oracle-go", GoSpec: verdict, NoImpl: true,
				Desc: fmt.Sprintf("lock for %v only, build --lockfile for %v: ", archs[:1], archs[len(archs)-1:]) + describeCase(rCase{Archs: c.Archs, World: c.World}, 0), Tags: []string{"e2e:lock-subset:" + strings.SplitN(got, " ", 2)[0]}})
		}
	}
	// the same packages published a second time with the signature sections swapped (signed <-> unsigned), locked in the
	// SAME process with a package cache configured (the CLI default): control and data sections are byte-identical across
	// the two repositories, the files are not, and every range and checksum a lock records is about the file at its URL
	if lerr == nil {
		var mirrorSigned []string
		for _, a := range c.Archs[:1] {
			for _, ix := range a.Indexes {
				for _, p := range ix.Pkgs {
					if !contains(signed, p.Name) && !contains(mirrorSigned, p.Name) {
						mirrorSigned = append(mirrorSigned, p.Name)
					}
				}
			}
		}
		repos2, key2 := lkMaterialise(filepath.Join(work, "mirror"), c.Archs, mirrorSigned, true)
		ic2, _ := lkConfig(c, repos2, key2)
		cacheDir := filepath.Join(work, "pkgcache")
		os.MkdirAll(cacheDir, 0o755)
		got := ""
		verdict := "pass"
		for i, cfg := range []types.ImageConfiguration{ic, ic2} {
			lp := filepath.Join(work, fmt.Sprintf("apko.mirror%d.lock.json", i))
			err := verifapi.LockCmd(context.Background(), lp, archs, []build.Option{build.WithImageConfiguration(cfg), build.WithTempDir(ltmp), build.WithSBOMFormats(nil),
				build.WithCache(cacheDir, false, apk.NewCache(true))})
			r := "err"
			if err == nil {
				var lf lkLockFile
				b, _ := os.ReadFile(lp)
				if json.Unmarshal(b, &lf) != nil {
					r = "bad:json"
				} else {
					r = lkCheckRanges(lf)
				}
			}
			got += fmt.Sprintf("lock%d=%s ", i, r)
			if r != "ok" && r != "err" && verdict == "pass" {
				verdict = fmt.Sprintf("fail:lock %d of one process (package cache on; repository %d = same packages, signature sections swapped) records %s", i, i, r)
			}
		}
		extra = append(extra, Step{Line: "x.robust\tlock-mirror-" + hx(strings.Join(c.World, ",")+"............")[:12], Go: strings.TrimSpace(got), Mode: "oracle-go", GoSpec: verdict, NoImpl: true,
			Desc: "two locks in one process over mirrored repositories: " + describeCase(rCase{Archs: c.Archs, World: c.World}, 0), Tags: []string{"e2e:lock-mirror"}})
	}
	// `build --lockfile` for a build context whose architecture is given in its apk spelling (x86_64, aarch64 …; a
	// types.Architecture is a plain string that every consumer re-parses): the image holds exactly what the lock lists
	if lerr == nil {
		var lf lkLockFile
		b, _ := os.ReadFile(lockPath)
		if json.Unmarshal(b, &lf) == nil {
			a0 := c.Archs[0].Arch
			want := 0
			for _, p := range lf.Contents.Packages {
				if p.Architecture == a0 {
					want++
				}
			}
			// the library entry point: `apko build` itself re-parses the architectures it is given
			got, verdict := "err", "pass"
			rtmp := filepath.Join(work, "tmp-r")
			os.MkdirAll(rtmp, 0o755)
			n, rerr := func() (int, error) {
				bc, err := build.New(context.Background(), apkfs.NewMemFS(), build.WithImageConfiguration(ic), build.WithArch(types.Architecture(a0)),
					build.WithSourceDateEpoch(time.Unix(1700000000, 0)), build.WithTempDir(rtmp), build.WithSBOMFormats(nil), build.WithLockFile(lockPath))
				if err != nil {
					return 0, err
				}
				if err := bc.BuildImage(context.Background()); err != nil {
					return 0, err
				}
				inst, err := bc.InstalledPackages()
				return len(inst), err
			}()
			if rerr == nil {
				got = fmt.Sprintf("ok installed=%d listed=%d", n, want)
				if n != want {
					verdict = fmt.Sprintf("fail:the lock lists %d packages for %s but the image built from it for types.Architecture(%q) has %d", want, a0, a0, n)
				}
			} else if st["locked"] == "ok" {
				verdict = fmt.Sprintf("fail:build --lockfile succeeds for %s and fails for the spelling %q: %v", lkOCI(a0), a0, rerr)
			}
			extra = append(extra, Step{Line: "x.robust\tlock-rawarch-" + hx(strings.Join(c.World, ",")+"............")[:12], Go: got, Mode: "oracle-go", GoSpec: verdict, NoImpl: true,
				Desc: fmt.Sprintf("build --lockfile with build.WithArch(%q): ", a0) + describeCase(rCase{Archs: c.Archs, World: c.World}, 0), Tags: []string{"e2e:lock-rawarch:" + strings.SplitN(got, " ", 2)[0]}})
		}
	}
	// the glue between lock, lock file and build --lockfile: option matrix and faults (lock_glue.go)
	{
		refLock, _ := os.ReadFile(lockPath)
		extra = append(extra, gluelockSteps(work, c, ic, archs, string(refLock), lerr, locked)...)
	}
	out := "build=" + st["build"] + " lock=" + st["lock"] + " ranges=" + st["ranges"] + " locked=" + st["locked"] + " same=" + st["same"] + " samefs=" + st["samefs"] + " pkgs=" + st["pkgs"]
	fields := append([]string{"l.e2e", xl(c.World)}, encodeArchs(c.Archs)...)
	fields = append(fields, out)
	tags := []string{"e2e:build=" + st["build"], "e2e:lock=" + st["lock"], "e2e:locked=" + st["locked"], "e2e:same=" + st["same"], "e2e:samefs=" + st["samefs"], fmt.Sprintf("e2e-archs:%d", len(c.Archs))}
	if len(signed) > 0 {
		tags = append(tags, "e2e:signed-apks")
	}
	return append([]Step{{Line: strings.Join(fields, "\t"), Go: out, Desc: "apko lock / build --lockfile " + describeCase(rCase{Archs: c.Archs, World: c.World}, 0), Tags: tags, Mode: "verdict",
		Trivial: st["lock"] != "ok"}}, extra...)
}

// lkInstalledCount: number of package paragraphs in lib/apk/db/installed over all layers of the layout
func lkInstalledCount(o E2EOut) int {
	n := 0
	for name, b := range o.Files {
		if !strings.HasPrefix(name, "layout/blobs/") {
			continue
		}
		zr, err := gzip.NewReader(bytes.NewReader(b))
		if err != nil {
			continue
		}
		tr := tar.NewReader(zr)
		for {
			h, err := tr.Next()
			if err != nil {
				break
			}
			if strings.TrimPrefix(h.Name, "./") == "lib/apk/db/installed" {
				data, _ := io.ReadAll(tr)
				for _, l := range strings.Split(string(data), "\n") {
					if strings.HasPrefix(l, "P:") {
						n++
					}
				}
			}
		}
	}
	return n
}

// lkCanonImage: every layer of the layout as a sorted list of (path, type, mode, owner, link, content hash), with the
// paragraphs of lib/apk/db/installed sorted (the install order is compared separately); layers sorted.
func lkCanonImage(o E2EOut) string {
	var layers []string
	for name, b := range o.Files {
		if !strings.HasPrefix(name, "layout/blobs/") || len(b) < 2 || b[0] != 0x1f || b[1] != 0x8b {
			continue
		}
		zr, err := gzip.NewReader(bytes.NewReader(b))
		if err != nil {
			continue
		}
		tr := tar.NewReader(zr)
		var lines []string
		for {
			h, err := tr.Next()
			if err != nil {
				break
			}
			body, _ := io.ReadAll(tr)
			if h.Name == "lib/apk/db/installed" {
				ps := strings.Split(string(body), "\n\n")
				sort.Strings(ps)
				body = []byte(strings.Join(ps, "\n\n"))
			}
			d := sha256.Sum256(body)
			lines = append(lines, fmt.Sprintf("%s|%d|%o|%d|%d|%s|%s", h.Name, h.Typeflag, h.Mode, h.Uid, h.Gid, h.Linkname, hex.EncodeToString(d[:8])))
		}
		sort.Strings(lines)
		d := sha256.Sum256([]byte(strings.Join(lines, "\n")))
		layers = append(layers, hex.EncodeToString(d[:]))
	}
	sort.Strings(layers)
	return strings.Join(layers, ",")
}
