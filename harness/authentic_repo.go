package main

// Package / repository builder of the `authentic` suite (C05).  Unlike synthrepo's buildApk it keeps the
// two (three) gzip members of every package apart, so that variants of a repository can serve any control
// member with any data member under any index checksum, and it knows the abstract description (entries,
// .PKGINFO text) of every member it built — the Lean model is fed with that description, never with
// anything apko computed.

import (
	"archive/tar"
	"bytes"
	"compress/gzip"
	"context"
	"crypto/sha1"
	"crypto/sha256"
	"encoding/base64"
	"encoding/hex"
	"fmt"
	"io"
	"os"
	"path"
	"path/filepath"
	"sort"
	"strings"
	"time"

	"chainguard.dev/apko/pkg/apk/apk"
	"chainguard.dev/apko/pkg/build"
	"chainguard.dev/apko/pkg/build/types"
	"chainguard.dev/apko/pkg/verifapi"
)

type aFile struct {
	Path string `json:"path"`
	// file | dir | rawdir (directory, name without trailing slash) | symlink | hardlink | cont (tar type '7', carries a body) | char | block | fifo.
	// A path may occur more than once in one data section (round 2: same-name entries).
	Type    string `json:"type"`
	Mode    int64  `json:"mode"`
	Content string `json:"content,omitempty"`
	Link    string `json:"link,omitempty"`
	// per-file record: "" good (hex) | q1 (Q1+base64, good) | bad (one byte flipped) | none | malformed
	Rec string `json:"rec,omitempty"`
	// RecOf: the record is the (good, hex) SHA-1 of this text instead of the entry's own body / link name
	// (a follower entry that copies the record of the regular file it shadows)
	RecOf *string `json:"rec_of,omitempty"`
}

// aAlt is one build of a package: alternative 0 is the one the repository is supposed to serve.
type aAlt struct {
	Desc  string  `json:"desc"`
	Files []aFile `json:"files"`
	// datahash line of .PKGINFO: "" good | empty | upper | absent | dup | spaced
	Datahash string `json:"datahash,omitempty"`
}

type aPkg struct {
	Name    string `json:"name"`
	Version string `json:"version"`
	Alts    []aAlt `json:"alts"`
}

type aRef struct {
	Pkg int `json:"pkg"`
	Alt int `json:"alt"`
}

// aServe says what the repository serves for one package in one variant.
type aServe struct {
	Ctl     aRef   `json:"ctl"`
	Dat     aRef   `json:"dat"`
	Index   string `json:"index,omitempty"` // "" = checksum of alternative 0's control | served | zero
	Signed  bool   `json:"signed,omitempty"`
	Missing bool   `json:"missing,omitempty"`
	Tamper  string `json:"tamper,omitempty"` // label only (tags)
}

type aEntry struct {
	Name string
	Kind string // r s d h o
	Body []byte
	Rec  string // "-" absent, "!" malformed, else digest text
	Link string // Linkname of a symlink / hard link
	// TarTarget: the name the lazy tar FS (pkg/apk/internal/tarfs.open) looks up when it is asked to open this link
	// entry: Linkname when absolute, else path.Join(path.Dir(Name), Linkname) — for hard links too
	TarTarget string
}

type aMember struct {
	Bytes   []byte
	Entries []aEntry // data members
	Info    string   // control members
}

func sha1hex(b []byte) string   { s := sha1.Sum(b); return hex.EncodeToString(s[:]) }
func sha256hex(b []byte) string { s := sha256.Sum256(b); return hex.EncodeToString(s[:]) }

func authDataMember(files []aFile) aMember {
	var m aMember
	raw := tarBytes(true, func(tw *tar.Writer) {
		for _, f := range files {
			h := &tar.Header{Name: f.Path, Mode: f.Mode, ModTime: time.Unix(1600000000, 0), Format: tar.FormatPAX, Uname: "root", Gname: "root"}
			e := aEntry{Name: f.Path, Rec: "-"}
			rec := func(b []byte) {
				if f.RecOf != nil {
					b = []byte(*f.RecOf)
				}
				s := sha1.Sum(b)
				switch f.Rec {
				case "none":
					return
				case "bad":
					s[3] ^= 0x5a
				case "malformed":
					h.PAXRecords = map[string]string{"APK-TOOLS.checksum.SHA1": "zz-not-hex"}
					e.Rec = "!"
					return
				case "blankq1":
					// a record that is present but carries no digest: must never count as "verified"
					h.PAXRecords = map[string]string{"APK-TOOLS.checksum.SHA1": "Q1"}
					e.Rec = ""
					return
				case "q1":
					h.PAXRecords = map[string]string{"APK-TOOLS.checksum.SHA1": "Q1" + base64.StdEncoding.EncodeToString(s[:])}
					e.Rec = hex.EncodeToString(s[:])
					return
				}
				h.PAXRecords = map[string]string{"APK-TOOLS.checksum.SHA1": hex.EncodeToString(s[:])}
				e.Rec = hex.EncodeToString(s[:])
			}
			switch f.Type {
			case "dir":
				h.Typeflag = tar.TypeDir
				h.Name += "/"
				e.Name, e.Kind = h.Name, "d"
			case "rawdir":
				// a directory entry whose name is spelled without the trailing slash (archive/tar keeps it that way)
				h.Typeflag = tar.TypeDir
				e.Kind = "d"
			case "symlink":
				h.Typeflag = tar.TypeSymlink
				h.Linkname = f.Link
				e.Kind, e.Link, e.TarTarget = "s", f.Link, authTarTarget(f.Path, f.Link)
				rec([]byte(f.Link))
			case "hardlink":
				h.Typeflag = tar.TypeLink
				h.Linkname = f.Link
				e.Kind, e.Link, e.TarTarget = "h", f.Link, authTarTarget(f.Path, f.Link)
			case "cont":
				// a "contiguous file": archive/tar reads and writes a body for it, checkSums does not hash it
				h.Typeflag = tar.TypeCont
				h.Size = int64(len(f.Content))
				e.Kind = "o"
				e.Body = []byte(f.Content)
				if f.Rec != "none" || f.RecOf != nil {
					rec([]byte(f.Content))
				}
			case "char", "block", "fifo":
				h.Typeflag = map[string]byte{"char": tar.TypeChar, "block": tar.TypeBlock, "fifo": tar.TypeFifo}[f.Type]
				if f.Type != "fifo" {
					h.Devmajor, h.Devminor = 1, 3
				}
				e.Kind = "o"
				if f.RecOf != nil {
					rec(nil)
				}
			default:
				h.Typeflag = tar.TypeReg
				h.Size = int64(len(f.Content))
				e.Kind = "r"
				e.Body = []byte(f.Content)
				rec([]byte(f.Content))
			}
			if err := tw.WriteHeader(h); err != nil {
				panic(fmt.Sprintf("authentic: tar header %q: %v", f.Path, err))
			}
			if h.Typeflag == tar.TypeReg || h.Typeflag == tar.TypeCont {
				tw.Write([]byte(f.Content))
			}
			m.Entries = append(m.Entries, e)
		}
	})
	m.Bytes = gzShaped(raw, true)
	return m
}

// authTarTarget: see aEntry.TarTarget
func authTarTarget(name, link string) string {
	if path.IsAbs(link) {
		return link
	}
	return path.Join(path.Dir(name), link)
}

func authControlMember(p aPkg, a aAlt, data []byte) aMember {
	var size int
	for _, f := range a.Files {
		if f.Type == "file" {
			size += len(f.Content)
		}
	}
	dh := sha256hex(data)
	var b strings.Builder
	w := func(k, v string) { fmt.Fprintf(&b, "%s = %s\n", k, v) }
	w("pkgname", p.Name)
	w("pkgver", p.Version)
	w("arch", "x86_64")
	w("size", fmt.Sprint(size))
	w("origin", p.Name)
	w("pkgdesc", a.Desc)
	w("url", "https://example.test/"+p.Name)
	w("builddate", "1600000000")
	w("license", "MIT")
	switch a.Datahash {
	case "empty":
		b.WriteString("datahash = \n")
	case "upper":
		w("datahash", strings.ToUpper(dh))
	case "absent":
	case "dup":
		w("datahash", dh)
		w("datahash", dh)
	case "spaced":
		b.WriteString("  datahash\t=   " + dh + " \t\n")
	default:
		w("datahash", dh)
	}
	info := b.String()
	raw := tarBytes(false, func(tw *tar.Writer) {
		tw.WriteHeader(&tar.Header{Name: ".PKGINFO", Mode: 0o644, Size: int64(len(info)), Typeflag: tar.TypeReg, ModTime: time.Unix(0, 0)})
		tw.Write([]byte(info))
	})
	return aMember{Bytes: gzShaped(raw, false), Info: info}
}

// gzShaped compresses a section the way one of several packers would: the choice is a function of the content, so a
// case replays identically.  Levels, header fields (FNAME, FEXTRA, FCOMMENT, mtime), several deflate blocks — and, for a
// data section only (multi = true), TWO gzip members (the tar cut at a block boundary): `ExpandApk` hashes and unpacks
// everything after the control member whatever the number of members is.
func gzShaped(raw []byte, multi bool) []byte {
	d := sha1.Sum(raw) //nolint:gosec
	one := func(b []byte, v byte) []byte {
		var o bytes.Buffer
		lv := []int{gzip.BestSpeed, gzip.NoCompression, gzip.BestCompression, gzip.HuffmanOnly, gzip.DefaultCompression}[int(v)%5]
		zw, _ := gzip.NewWriterLevel(&o, lv)
		if v&8 != 0 {
			zw.Name = "section.tar"
		}
		if v&16 != 0 {
			zw.Extra = []byte{'A', 'P', 4, 0, 1, 2, 3, 4}
		}
		if v&32 != 0 {
			zw.Comment = "packed by the harness"
			zw.ModTime = time.Unix(1600000000+int64(v), 0)
		}
		if v&64 != 0 && len(b) > 1024 {
			zw.Write(b[:512])
			zw.Flush()
			b = b[512:]
		}
		zw.Write(b)
		zw.Close()
		return o.Bytes()
	}
	if multi && d[1]%3 == 0 && len(raw) >= 1024 {
		k := (len(raw) / 1024) * 512
		return append(one(raw[:k], d[0]), one(raw[k:], d[2])...)
	}
	return one(raw, d[0])
}

func authSigMember() []byte {
	sig := []byte("not-a-real-signature: apko does not verify package signatures")
	return gz(tarBytes(false, func(tw *tar.Writer) {
		tw.WriteHeader(&tar.Header{Name: ".SIGN.RSA." + synthKeyName, Mode: 0o644, Size: int64(len(sig)), Typeflag: tar.TypeReg, ModTime: time.Unix(0, 0)})
		tw.Write(sig)
	}))
}

// aWorld: every member of every alternative, built once per case.
type aWorld struct {
	Pkgs []aPkg
	Ctl  [][]aMember
	Dat  [][]aMember
	Sig  []byte
	// token table: distinct byte strings -> id
	ids   map[string]int
	bytes [][]byte
}

func newAWorld(pkgs []aPkg) *aWorld {
	w := &aWorld{Pkgs: pkgs, Sig: authSigMember(), ids: map[string]int{}}
	for _, p := range pkgs {
		var cs, ds []aMember
		for _, a := range p.Alts {
			d := authDataMember(a.Files)
			ds = append(ds, d)
			cs = append(cs, authControlMember(p, a, d.Bytes))
		}
		w.Ctl = append(w.Ctl, cs)
		w.Dat = append(w.Dat, ds)
	}
	return w
}

func (w *aWorld) tok(b []byte) int {
	if id, ok := w.ids[string(b)]; ok {
		return id
	}
	id := len(w.bytes) + 1
	w.ids[string(b)] = id
	w.bytes = append(w.bytes, b)
	return id
}

// tables renders the library tables H, C, D of the driver protocol for every member of the world.
func (w *aWorld) tables() (h, c, d string) {
	var cs, ds []string
	w.tok(w.Sig)
	for i := range w.Pkgs {
		for k := range w.Pkgs[i].Alts {
			cm, dm := w.Ctl[i][k], w.Dat[i][k]
			cs = append(cs, fmt.Sprintf("%d:%s", w.tok(cm.Bytes), hx(cm.Info)))
			var es []string
			for _, e := range dm.Entries {
				body := 0
				if e.Kind == "r" || (e.Kind == "o" && e.Body != nil) {
					body = w.tok(e.Body)
				}
				es = append(es, fmt.Sprintf("%s.%s.%d.%s.%s.%s", hx(e.Name), e.Kind, body, e.Rec, hx(e.Link), hx(e.TarTarget)))
			}
			ds = append(ds, fmt.Sprintf("%d:%s", w.tok(dm.Bytes), strings.Join(es, "|")))
		}
	}
	var hs []string
	for i, b := range w.bytes {
		hs = append(hs, fmt.Sprintf("%d:%s:%s", i+1, sha1hex(b), sha256hex(b)))
	}
	return strings.Join(hs, ","), strings.Join(dedup(cs), ","), strings.Join(dedup(ds), ",")
}

func dedup(l []string) []string {
	seen := map[string]bool{}
	var out []string
	for _, s := range l {
		if !seen[s] {
			seen[s] = true
			out = append(out, s)
		}
	}
	return out
}

func (w *aWorld) apkBytes(s aServe) []byte {
	var b []byte
	if s.Signed {
		b = append(b, w.Sig...)
	}
	b = append(b, w.Ctl[s.Ctl.Pkg][s.Ctl.Alt].Bytes...)
	return append(b, w.Dat[s.Dat.Pkg][s.Dat.Alt].Bytes...)
}

// indexChecksum: what the repository index records for package i in this variant (raw bytes)
func (w *aWorld) indexChecksum(i int, s aServe) []byte {
	switch s.Index {
	case "none", "q2":
		return []byte{}
	case "zero":
		return make([]byte, 20)
	case "served":
		x := sha1.Sum(w.Ctl[s.Ctl.Pkg][s.Ctl.Alt].Bytes)
		return x[:]
	case "caseflip", "bitflip":
		// near misses of the right checksum: one base64 letter in the other case / one bit of the digest flipped
		x := sha1.Sum(w.Ctl[i][0].Bytes)
		return authNearMiss(x[:], s.Index)
	default:
		x := sha1.Sum(w.Ctl[i][0].Bytes)
		return x[:]
	}
}

// authNearMiss returns a 20-byte value that differs from the digest but is close to it in the encoded form:
// caseflip = the Q1+base64 text differs in the case of exactly one letter; bitflip = one bit of the digest.
func authNearMiss(digest []byte, mode string) []byte {
	out := append([]byte(nil), digest...)
	if mode == "caseflip" {
		t := []byte(base64.StdEncoding.EncodeToString(digest))
		for i := 0; i < 26; i++ { // the first 26 characters carry 6 full bits each
			c := t[i]
			if c >= 'a' && c <= 'z' {
				t[i] = c - 32
			} else if c >= 'A' && c <= 'Z' {
				t[i] = c + 32
			} else {
				continue
			}
			if b, err := base64.StdEncoding.DecodeString(string(t)); err == nil && len(b) == 20 && !bytes.Equal(b, digest) {
				return b
			}
			t[i] = c
		}
	}
	out[7] ^= 0x10
	return out
}

// authNonCanonical re-encodes a `Q1`+base64 checksum of 20 bytes with the two unused bits of the last symbol set:
// another text for the same digest (encoding/base64 does not insist on zero padding bits).
func authNonCanonical(chk string) string {
	const alpha = "ABCDEFGHIJKLMNOPQRSTUVWXYZabcdefghijklmnopqrstuvwxyz0123456789+/"
	body := strings.TrimPrefix(chk, "Q1")
	if len(body) != 28 || body[27] != '=' {
		return chk
	}
	k := strings.IndexByte(alpha, body[26])
	if k < 0 {
		return chk
	}
	alt := "Q1" + body[:26] + string(alpha[k|1]) + "="
	if alt == chk {
		alt = "Q1" + body[:26] + string(alpha[k|2]) + "="
	}
	a, err1 := base64.StdEncoding.DecodeString(alt[2:])
	b, err2 := base64.StdEncoding.DecodeString(body)
	if err1 != nil || err2 != nil || !bytes.Equal(a, b) {
		return chk
	}
	return alt
}

// repo builds the signed repository of one variant (x86_64 only).
func (w *aWorld) repo(v []aServe) *SRepo {
	k := synthRSAKey()
	r := &SRepo{Files: map[string][]byte{}, Apks: map[string]builtApk{}, KeyPEM: pubKeyPEM(k)}
	var idx strings.Builder
	for i, p := range w.Pkgs {
		s := v[i]
		b := w.apkBytes(s)
		if !s.Missing {
			r.Files[fmt.Sprintf("x86_64/%s-%s.apk", p.Name, p.Version)] = b
		}
		sp := SPkg{Name: p.Name, Version: p.Version, Origin: p.Name, Desc: p.Alts[0].Desc, License: "MIT", BuildTime: 1600000000}
		entry := indexEntry(sp, "x86_64", builtApk{bytes: b, checksum: w.indexChecksum(i, s), instSize: 1})
		switch s.Index {
		case "none":
			// no C: line at all: the handle records no checksum
			entry = entry[strings.IndexByte(entry, '\n')+1:]
		case "q2":
			// a C: value that is not a Q1 SHA-1 (the index parser ignores it): again no usable checksum
			entry = "C:Q2" + base64.StdEncoding.EncodeToString(sha1Bytes(b)) + entry[strings.IndexByte(entry, '\n'):]
		}
		idx.WriteString(entry)
	}
	body := idx.String()
	indexTar := tarBytes(true, func(tw *tar.Writer) {
		tw.WriteHeader(&tar.Header{Name: "APKINDEX", Mode: 0o644, Size: int64(len(body)), Typeflag: tar.TypeReg, ModTime: time.Unix(0, 0)})
		tw.Write([]byte(body))
	})
	r.Files["x86_64/APKINDEX.tar.gz"] = signIndex(gz(indexTar), k)
	return r
}

// ---- running the real commands ----

func authOpts(work string, ic *types.ImageConfiguration, tr *SynthTransport, cacheDir string) []build.Option {
	repo := tr.Repo
	ic.Contents.RuntimeRepositories = []string{"https://repo.test"}
	kp := filepath.Join(work, synthKeyName)
	os.WriteFile(kp, repo.KeyPEM, 0o644)
	ic.Contents.Keyring = []string{kp}
	tmp := filepath.Join(work, "tmp")
	os.MkdirAll(tmp, 0o755)
	opts := []build.Option{build.WithImageConfiguration(*ic), build.WithSourceDateEpoch(time.Unix(1700000000, 0)), build.WithTempDir(tmp),
		build.WithSBOMFormats(nil), build.WithTransport(tr)}
	if cacheDir != "" {
		opts = append(opts, build.WithCache(cacheDir, false, apk.NewCache(true)))
	}
	return opts
}

// authLock runs the real `apko lock`; returns the lock file content.
// fresh = the command runs in a new process (every process-wide cache of pkg/apk/apk starts empty); otherwise it
// runs in the process of the previous command (a long-lived caller of the library).
func authLock(world []string, repo *SynthTransport, cacheDir string, fresh bool) ([]byte, error) {
	work, err := os.MkdirTemp("", "verif-auth-lock-")
	if err != nil {
		return nil, err
	}
	defer os.RemoveAll(work)
	if fresh {
		apk.VerifResetGlobalCaches()
	}
	ic := types.ImageConfiguration{}
	ic.Contents.Packages = world
	out := filepath.Join(work, "apko.lock.json")
	if err := verifapi.LockCmd(context.Background(), out, []types.Architecture{types.ParseArchitecture("x86_64")}, authOpts(work, &ic, repo, cacheDir)); err != nil {
		return nil, err
	}
	return os.ReadFile(out)
}

// authBuild runs the real `apko build` (optionally --lockfile) and returns the OCI layout files.
func authBuild(world []string, repo *SynthTransport, cacheDir string, lock []byte, fresh bool) (map[string][]byte, error) {
	work, err := os.MkdirTemp("", "verif-auth-build-")
	if err != nil {
		return nil, err
	}
	defer os.RemoveAll(work)
	if fresh {
		apk.VerifResetGlobalCaches()
	}
	ic := types.ImageConfiguration{}
	ic.Contents.Packages = world
	opts := authOpts(work, &ic, repo, cacheDir)
	if lock != nil {
		lf := filepath.Join(work, "apko.lock.json")
		os.WriteFile(lf, lock, 0o644)
		opts = append(opts, build.WithLockFile(lf))
	}
	out := filepath.Join(work, "out")
	os.MkdirAll(out, 0o755)
	if err := verifapi.BuildCmd(context.Background(), "verif.test/img:latest", out, []types.Architecture{types.ParseArchitecture("x86_64")}, nil, false, filepath.Join(work, "sbom"), opts...); err != nil {
		return nil, err
	}
	files := map[string][]byte{}
	collectDir(out, "", files)
	return files, nil
}

// imageFiles untars every gzip blob of an OCI layout: path -> content of regular files.
func imageFiles(layout map[string][]byte) map[string][]byte {
	out := map[string][]byte{}
	for name, b := range layout {
		if !strings.HasPrefix(name, "blobs/") || len(b) < 2 || b[0] != 0x1f || b[1] != 0x8b {
			continue
		}
		zr, err := gzip.NewReader(bytes.NewReader(b))
		if err != nil {
			continue
		}
		tr := tar.NewReader(zr)
		for {
			h, err := tr.Next()
			if err != nil {
				break
			}
			if h.Typeflag == tar.TypeReg {
				c, _ := io.ReadAll(tr)
				out[strings.TrimPrefix(h.Name, "./")] = c
			}
		}
	}
	return out
}

// installedChecksums parses lib/apk/db/installed: package name -> hex of the recorded control checksum.
func installedChecksums(db []byte) map[string]string {
	out := map[string]string{}
	for _, block := range strings.Split(string(db), "\n\n") {
		var c, p string
		for _, l := range strings.Split(block, "\n") {
			if strings.HasPrefix(l, "C:Q1") {
				if b, err := base64.StdEncoding.DecodeString(l[4:]); err == nil {
					c = hex.EncodeToString(b)
				}
			}
			if strings.HasPrefix(l, "P:") {
				p = l[2:]
			}
		}
		if p != "" {
			out[p] = c
		}
	}
	return out
}

// cacheListing: advertised names below the cache root as `<hex(dir base)>/<name>.<ctl|sig|dat>`, sorted.
func cacheListing(root string) string {
	var names []string
	filepath.Walk(root, func(p string, info os.FileInfo, err error) error {
		if err != nil || info.IsDir() {
			return nil
		}
		base := filepath.Base(p)
		for _, suf := range []string{"ctl", "sig", "dat"} {
			if strings.HasSuffix(base, "."+suf+".tar.gz") && !strings.HasPrefix(filepath.Base(filepath.Dir(p)), "expand-apk") {
				names = append(names, hx(filepath.Base(filepath.Dir(p)))+"/"+strings.TrimSuffix(base, "."+suf+".tar.gz")+"."+suf)
			}
		}
		return nil
	})
	sort.Strings(names)
	return strings.Join(names, ",")
}

func sha1Bytes(b []byte) []byte { x := sha1.Sum(b); return x[:] } //nolint:gosec
