// Harness engine: generates cases from one PRNG state, runs the real apko code on them in-process,
// pipes the same inputs to the Lean driver (executable Impl and Spec models) and classifies.
package main

import (
	"bufio"
	"encoding/hex"
	"encoding/json"
	"flag"
	"fmt"
	"io"
	"os"
	"os/exec"
	"path/filepath"
	"runtime"
	"sort"
	"strconv"
	"strings"
	"time"
)

// Step is one protocol request together with what the real code answered.
type Step struct {
	Line string   `json:"line"`           // request sent to the Lean driver
	Go   string   `json:"go"`             // canonicalised answer of the real code
	Desc string   `json:"desc,omitempty"` // human readable form of the input
	Tags []string `json:"tags,omitempty"` // branch / shape tags for the input distribution
	// Mode "value": driver answers impl \t spec \t class, all compared with Go.
	// Mode "verdict": driver answers impl \t pass|fail:<why> \t class (oracle evaluated on Go's output, which is part of Line).
	// Mode "oracle-go": the oracle was evaluated by the harness itself (byte comparisons); Spec holds pass|fail.
	Mode    string `json:"mode,omitempty"`
	Trivial bool   `json:"trivial,omitempty"`
	GoSpec  string `json:"gospec,omitempty"`  // for oracle-go: verdict computed in Go
	GoClass string `json:"goclass,omitempty"` // for oracle-go: known-finding class decided by the harness (byte-level predicates)
	NoImpl  bool   `json:"noimpl,omitempty"`  // no Impl model for this step: only the oracle is checked
}

type Suite interface {
	Name() string
	// Gen derives case i from the rng (already seeded with (seed, suite, i)).
	Gen(r *Rng, i int, tier string) any
	// Run executes the real code on a case and returns the protocol steps.
	Run(c json.RawMessage) []Step
}

type Failure struct {
	Kind  string          `json:"kind"` // violation | impl-eq-spec-ne | corr-only | moved-to-spec | crash | hang
	Class string          `json:"class"`
	Suite string          `json:"suite"`
	Index int             `json:"case_index"`
	Seed  uint64          `json:"seed"`
	Case  json.RawMessage `json:"case"`
	StepI int             `json:"step_index"`
	Line  string          `json:"line"`
	Desc  string          `json:"desc"`
	Go    string          `json:"go"`
	Impl  string          `json:"impl"`
	Spec  string          `json:"spec"`
}

type Result struct {
	Suite       string            `json:"suite"`
	Seed        uint64            `json:"seed"`
	Tier        string            `json:"tier"`
	Cases       int               `json:"cases"`
	Evaluations int               `json:"evaluations"`
	Distinct    int               `json:"distinct_nontrivial"`
	Rule        string            `json:"rule"`
	Histogram   map[string]int    `json:"histogram"`
	Samples     []json.RawMessage `json:"samples"`
	SampleSteps []Step            `json:"sample_steps"`
	Failures    []Failure         `json:"failures"`
	KindCounts  map[string]int    `json:"kind_counts"`
	ClassCounts map[string]int    `json:"class_counts"`
	WallS       float64           `json:"wall_s"`
}

type Driver struct {
	cmd *exec.Cmd
	in  io.WriteCloser
	out *bufio.Reader
}

func StartDriver(path string) (*Driver, error) {
	cmd := exec.Command(path)
	in, err := cmd.StdinPipe()
	if err != nil {
		return nil, err
	}
	out, err := cmd.StdoutPipe()
	if err != nil {
		return nil, err
	}
	cmd.Stderr = os.Stderr
	if err := cmd.Start(); err != nil {
		return nil, err
	}
	return &Driver{cmd, in, bufio.NewReaderSize(out, 1<<20)}, nil
}

// Ask sends a batch of lines and reads as many responses.
func (d *Driver) Ask(lines []string) ([]string, error) {
	errc := make(chan error, 1)
	go func() {
		w := bufio.NewWriterSize(d.in, 1<<20)
		for _, l := range lines {
			w.WriteString(l)
			w.WriteByte('\n')
		}
		w.WriteString("flush\n")
		errc <- w.Flush()
	}()
	out := make([]string, 0, len(lines))
	for k := 0; k <= len(lines); k++ {
		type rd struct {
			s   string
			err error
		}
		ch := make(chan rd, 1)
		go func() {
			s, err := d.out.ReadString('\n')
			ch <- rd{s, err}
		}()
		select {
		case r := <-ch:
			if r.err != nil {
				return out, fmt.Errorf("driver read: %w", r.err)
			}
			if k < len(lines) {
				out = append(out, strings.TrimRight(r.s, "\n"))
			}
		case <-time.After(120 * time.Second):
			return out, fmt.Errorf("driver timeout")
		}
	}
	if err := <-errc; err != nil {
		return out, err
	}
	return out, nil
}

func (d *Driver) Close() {
	d.in.Close()
	d.cmd.Wait()
}

func hx(s string) string { return hex.EncodeToString([]byte(s)) }

var suites = map[string]Suite{}

func register(s Suite) { suites[s.Name()] = s }

// runCase executes Run with panic recovery and a watchdog.
func runCase(s Suite, raw json.RawMessage, timeout time.Duration) (steps []Step, crash string) {
	type res struct {
		steps []Step
		crash string
	}
	ch := make(chan res, 1)
	go func() {
		defer func() {
			if r := recover(); r != nil {
				ch <- res{nil, fmt.Sprintf("panic: %v", r)}
			}
		}()
		ch <- res{s.Run(raw), ""}
	}()
	select {
	case r := <-ch:
		return r.steps, r.crash
	case <-time.After(timeout):
		// The limit is wall-clock time. On an overloaded machine (several sweeps at once) an ordinary case can exceed it;
		// such a "hang" replays in a second when run alone, and its abandoned goroutine would go on running next to the
		// following cases. Under overload the case gets five more limits before it is given up; on a quiet machine the
		// limit is what it always was.
		if overloaded() {
			select {
			case r := <-ch:
				return r.steps, r.crash
			case <-time.After(5 * timeout):
			}
		}
		return nil, "hang"
	}
}

// overloaded: the 1-minute load average exceeds 70% of the CPUs
func overloaded() bool {
	b, err := os.ReadFile("/proc/loadavg")
	if err != nil {
		return false
	}
	f := strings.Fields(string(b))
	if len(f) == 0 {
		return false
	}
	l, err := strconv.ParseFloat(f[0], 64)
	return err == nil && l > 0.7*float64(runtime.NumCPU())
}

func classify(st Step, resp string) (kind, class, impl, spec string) {
	parts := strings.SplitN(resp, "\t", 3)
	for len(parts) < 3 {
		parts = append(parts, "")
	}
	impl, spec, class = parts[0], parts[1], parts[2]
	goEqImpl := st.NoImpl || st.Go == impl
	var specOK bool
	switch st.Mode {
	case "verdict":
		specOK = spec == "pass"
	case "oracle-go":
		spec = st.GoSpec
		specOK = st.GoSpec == "pass"
		if st.GoClass != "" {
			class = st.GoClass
		}
	default:
		specOK = st.Go == spec
	}
	switch {
	case goEqImpl && specOK:
		return "ok", class, impl, spec
	case goEqImpl && !specOK:
		return "impl-eq-spec-ne", class, impl, spec
	case !goEqImpl && specOK:
		if st.Mode == "" || st.Mode == "value" {
			return "moved-to-spec", class, impl, spec
		}
		return "corr-only", class, impl, spec
	default:
		return "violation", class, impl, spec
	}
}

func main() {
	if len(os.Args) < 2 {
		fmt.Fprintln(os.Stderr, "usage: harness run|replay|list ...")
		os.Exit(2)
	}
	switch os.Args[1] {
	case "list":
		var names []string
		for n := range suites {
			names = append(names, n)
		}
		sort.Strings(names)
		fmt.Println(strings.Join(names, "\n"))
	case "run":
		cmdRun(os.Args[2:])
	case "replay":
		cmdReplay(os.Args[2:])
	default:
		if !extraCommand(os.Args[1], os.Args[2:]) {
			fmt.Fprintln(os.Stderr, "unknown command")
			os.Exit(2)
		}
	}
}

func cmdRun(args []string) {
	fs := flag.NewFlagSet("run", flag.ExitOnError)
	suiteName := fs.String("suite", "", "suite")
	seed := fs.Uint64("seed", 1, "seed")
	n := fs.Int("n", 100, "number of generated cases")
	tier := fs.String("tier", "quick", "tier")
	driver := fs.String("driver", "/verif/lean/.lake/build/bin/driver", "lean driver")
	out := fs.String("out", "", "result json")
	corpus := fs.String("corpus", "", "corpus dir (json cases run first)")
	maxFail := fs.Int("maxfail", 20, "stop after this many failing cases")
	budget := fs.Duration("budget", 10*time.Minute, "wall budget")
	caseTimeout := fs.Duration("case-timeout", 20*time.Second, "per case watchdog")
	fs.Parse(args)
	s, ok := suites[*suiteName]
	if !ok {
		fmt.Fprintln(os.Stderr, "unknown suite", *suiteName)
		os.Exit(2)
	}
	start := time.Now()
	d, err := StartDriver(*driver)
	if err != nil {
		fmt.Fprintln(os.Stderr, "driver:", err)
		os.Exit(2)
	}
	defer d.Close()
	res := &Result{Suite: s.Name(), Seed: *seed, Tier: *tier, Histogram: map[string]int{}, KindCounts: map[string]int{}, ClassCounts: map[string]int{}}
	distinct := map[string]struct{}{}
	failing := 0

	process := func(idx int, raw json.RawMessage) {
		steps, crash := runCase(s, raw, *caseTimeout)
		res.Cases++
		if crash != "" {
			kind := "crash"
			if crash == "hang" {
				kind = "hang"
			}
			res.Failures = append(res.Failures, Failure{Kind: kind, Class: "unlisted", Suite: s.Name(), Index: idx, Seed: *seed, Case: raw, Go: crash})
			res.KindCounts[kind]++
			failing++
			return
		}
		lines := make([]string, len(steps))
		for i, st := range steps {
			lines[i] = st.Line
		}
		resps, err := d.Ask(lines)
		if err != nil {
			fmt.Fprintln(os.Stderr, "driver error:", err)
			res.Failures = append(res.Failures, Failure{Kind: "driver-error", Class: "unlisted", Suite: s.Name(), Index: idx, Seed: *seed, Case: raw, Go: err.Error()})
			res.KindCounts["driver-error"]++
			writeResult(res, *out, start)
			os.Exit(3)
		}
		caseFailed := false
		for i, st := range steps {
			res.Evaluations++
			for _, t := range st.Tags {
				res.Histogram[t]++
			}
			if !st.Trivial {
				distinct[st.Line] = struct{}{}
			}
			kind, class, impl, spec := classify(st, resps[i])
			res.KindCounts[kind]++
			if kind == "ok" {
				continue
			}
			res.ClassCounts[kind+":"+class]++
			// keep at most 3 examples per (kind,class) for listed classes, all for violations up to maxfail
			if kind == "violation" || kind == "corr-only" || class == "unlisted" || class == "-" || class == "" || res.ClassCounts[kind+":"+class] <= 3 {
				if !caseFailed || kind == "violation" {
					res.Failures = append(res.Failures, Failure{Kind: kind, Class: class, Suite: s.Name(), Index: idx, Seed: *seed, Case: raw, StepI: i, Line: st.Line, Desc: st.Desc, Go: st.Go, Impl: impl, Spec: spec})
				}
			}
			if kind == "violation" || kind == "corr-only" || (kind == "impl-eq-spec-ne" && (class == "unlisted" || class == "-" || class == "")) {
				caseFailed = true
			}
		}
		if caseFailed {
			failing++
		}
		if len(res.Samples) < 3 && len(steps) > 0 {
			res.Samples = append(res.Samples, raw)
			k := len(steps)
			if k > 4 {
				k = 4
			}
			res.SampleSteps = append(res.SampleSteps, steps[:k]...)
		}
	}

	if *corpus != "" {
		files, _ := filepath.Glob(filepath.Join(*corpus, "*.json"))
		sort.Strings(files)
		for i, f := range files {
			b, err := os.ReadFile(f)
			if err != nil {
				continue
			}
			var wrap struct {
				Case json.RawMessage `json:"case"`
			}
			if json.Unmarshal(b, &wrap) == nil && wrap.Case != nil {
				b = wrap.Case
			}
			process(-1-i, b)
		}
	}
	for i := 0; i < *n; i++ {
		if failing >= *maxFail || time.Since(start) > *budget {
			break
		}
		r := NewRng(*seed, s.Name(), uint64(i))
		c := s.Gen(r, i, *tier)
		raw, err := json.Marshal(c)
		if err != nil {
			panic(err)
		}
		process(i, raw)
	}
	res.Distinct = len(distinct)
	writeResult(res, *out, start)
}

func writeResult(res *Result, out string, start time.Time) {
	res.WallS = time.Since(start).Seconds()
	b, _ := json.MarshalIndent(res, "", " ")
	if out == "" {
		os.Stdout.Write(b)
		fmt.Println()
		return
	}
	if err := os.WriteFile(out, b, 0o644); err != nil {
		fmt.Fprintln(os.Stderr, err)
		os.Exit(2)
	}
}

func cmdReplay(args []string) {
	fs := flag.NewFlagSet("replay", flag.ExitOnError)
	file := fs.String("file", "", "replay file")
	driver := fs.String("driver", "/verif/lean/.lake/build/bin/driver", "lean driver")
	fs.Parse(args)
	b, err := os.ReadFile(*file)
	if err != nil {
		fmt.Fprintln(os.Stderr, err)
		os.Exit(2)
	}
	var f Failure
	if err := json.Unmarshal(b, &f); err != nil {
		fmt.Fprintln(os.Stderr, err)
		os.Exit(2)
	}
	s, ok := suites[f.Suite]
	if !ok {
		fmt.Fprintln(os.Stderr, "unknown suite", f.Suite)
		os.Exit(2)
	}
	d, err := StartDriver(*driver)
	if err != nil {
		fmt.Fprintln(os.Stderr, err)
		os.Exit(2)
	}
	defer d.Close()
	steps, crash := runCase(s, f.Case, 60*time.Second)
	if crash != "" {
		fmt.Printf("REPLAY %s: %s\n", f.Suite, crash)
		os.Exit(1)
	}
	lines := make([]string, len(steps))
	for i, st := range steps {
		lines[i] = st.Line
	}
	resps, err := d.Ask(lines)
	if err != nil {
		fmt.Fprintln(os.Stderr, err)
		os.Exit(2)
	}
	bad := 0
	for i, st := range steps {
		kind, class, impl, spec := classify(st, resps[i])
		if kind != "ok" {
			fmt.Printf("step %d %s class=%s\n  input: %s\n  go:   %s\n  impl: %s\n  spec: %s\n", i, kind, class, st.Desc, st.Go, impl, spec)
			if kind != "moved-to-spec" {
				bad++
			}
		}
	}
	if bad > 0 {
		os.Exit(1)
	}
	fmt.Println("REPLAY ok: no step fails")
}

var extraCommand = func(name string, args []string) bool { return false }
