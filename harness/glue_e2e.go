package main

// Resolution through the REAL glue of pkg/build (C02, C03, C08, C14): build.New + BuildPackageList,
// build.NewMultiArch + BuildPackageLists and build.LockImageConfiguration over repositories that are
// materialised from per-architecture universes — file repositories and repositories served by an
// in-process http.RoundTripper (with ETag, without ETag, behind basic auth, offline over a warm cache
// directory).  Only indexes are materialised (a resolution never fetches a package).
//
// What pkg/build is given is the configuration AS WRITTEN (package entries with duplicates and ranges
// written as two entries, --package-append entries, build / runtime / extra repositories in the order
// written); what the model is given is the same: the driver ops `g.*` (Driver/Resolver.lean) derive the
// resolver's world and index order from it (Model/Glue.lean) and evaluate the oracles against the
// entries as written.

import (
	"archive/tar"
	"bytes"
	"context"
	"crypto/sha1"
	"encoding/base64"
	"encoding/hex"
	"fmt"
	"io"
	"net/http"
	"os"
	"path/filepath"
	"sort"
	"strings"
	"sync"
	"time"

	"chainguard.dev/apko/pkg/apk/apk"
	"chainguard.dev/apko/pkg/apk/auth"
	"chainguard.dev/apko/pkg/build"
	"chainguard.dev/apko/pkg/build/types"
	"chainguard.dev/apko/pkg/tarfs"
)

// glueRepo: how the repository at one index position is published and where its line is written
type glueRepo struct {
	HTTP  bool   `json:"http,omitempty"`
	NoTag bool   `json:"no_etag,omitempty"` // the server sends no ETag header
	Creds string `json:"creds,omitempty"`   // "" | "url" (user:pass@ in the repository URL) | "auth" (build.WithAuthenticator)
	Place string `json:"place"`             // "runtime" | "build" | "xbuild" | "xruntime"
	Twice string `json:"twice,omitempty"`   // a second place in which the identical line is written as well
}

type glueCase struct {
	Archs    []rArch    `json:"archs"` // Archs[k].Indexes[i] is what Repos[i] holds for that architecture
	Repos    []glueRepo `json:"repos"`
	Packages []string   `json:"packages"`        // contents.packages as written
	Extra    []string   `json:"extra,omitempty"` // build.WithExtraPackages (--package-append)
	Mode     string     `json:"mode"`            // "single" | "multi" | "lock" | "hist"
	Cache    string     `json:"cache,omitempty"` // "" (cache dir, shared HEAD cache) | "noshare" | "offline" (first invocation warms the directory, the others run offline)
	// one entry per invocation in this process (fresh build contexts every time): true = all process-wide caches
	// are emptied first (cold), false = whatever the earlier invocations left is still there (warm)
	Cold []bool `json:"cold"`
	// pad the index of repository 0 of architecture BigArch with this many unrelated packages (a cold cache then
	// takes noticeably longer to fill for that architecture than for its siblings).  The padding is inert — names
	// nothing refers to, no dependencies, provides or install_if — and is NOT shown to the model (which only
	// follows names reachable from the world); a padding package in Go's answer has no id and is a mismatch.
	Big     int `json:"big,omitempty"`
	BigArch int `json:"big_arch,omitempty"`
	// mode "hist": rounds on ONE NewMultiArch value, repository updates between the rounds (glue_history.go);
	// Hist[0] is the first round (no updates before it)
	Hist []glueRound `json:"hist,omitempty"`
}

const (
	glueUser = "builder"
	gluePass = "s3cret"
)

// ---- index bytes ----

func glueGz(b []byte) []byte { return gz(b) }

func glueIndexBytes(arch string, repoNo int, pkgs []rPkg, fillers int) []byte {
	var b strings.Builder
	entry := func(p rPkg) {
		s := sha1.Sum([]byte(fmt.Sprintf("%d/%s/%s-%s", repoNo, arch, p.Name, p.Version)))
		fmt.Fprintf(&b, "C:Q1%s\nP:%s\nV:%s\n", base64.StdEncoding.EncodeToString(s[:]), p.Name, p.Version)
		if af := p.archField(arch); af != "" || p.A == "" {
			fmt.Fprintf(&b, "A:%s\n", af)
		} // an empty field: no A: line at all
		b.WriteString("S:1\nI:1\nT:\nU:\nL:\n")
		if p.Origin != "" {
			fmt.Fprintf(&b, "o:%s\n", p.Origin)
		}
		b.WriteString("t:0\n")
		if len(p.Deps) > 0 {
			fmt.Fprintf(&b, "D:%s\n", strings.Join(p.Deps, " "))
		}
		if len(p.Provides) > 0 {
			fmt.Fprintf(&b, "p:%s\n", strings.Join(p.Provides, " "))
		}
		if len(p.InstallIf) > 0 {
			fmt.Fprintf(&b, "i:%s\n", strings.Join(p.InstallIf, " "))
		}
		if p.Priority != 0 {
			fmt.Fprintf(&b, "k:%d\n", p.Priority)
		}
		b.WriteString("\n")
	}
	for _, p := range pkgs {
		entry(p)
	}
	for _, p := range glueFillers(fillers) {
		entry(p)
	}
	body := b.String()
	indexTar := tarBytes(true, func(tw *tar.Writer) {
		tw.WriteHeader(&tar.Header{Name: "APKINDEX", Mode: 0o644, Size: int64(len(body)), Typeflag: tar.TypeReg, ModTime: time.Unix(0, 0)})
		tw.Write([]byte(body))
	})
	return signIndex(glueGz(indexTar), synthRSAKey())
}

// glueFillers: n packages nobody asks for (ascending names, behind every generated name)
func glueFillers(n int) []rPkg {
	out := make([]rPkg, n)
	for i := range out {
		out[i] = rPkg{Name: fmt.Sprintf("zz-filler%05d", i), Version: "1.0-r0"}
	}
	return out
}

// ---- in-process HTTP ----

type glueHost struct {
	files map[string][]byte // URL path -> body
	noTag bool
	user  string // non-empty: every request must carry these basic-auth credentials
}

type glueTransport struct {
	mu      sync.Mutex
	hosts   map[string]*glueHost
	offline bool // every request fails (the build is supposed to run from the cache directory)
	reqs    int
	refused int
}

func (t *glueTransport) setOffline(v bool) { t.mu.Lock(); t.offline = v; t.mu.Unlock() }

func (t *glueTransport) RoundTrip(req *http.Request) (*http.Response, error) {
	t.mu.Lock()
	t.reqs++
	off := t.offline
	h := t.hosts[req.URL.Host]
	t.mu.Unlock()
	if off {
		return nil, fmt.Errorf("glue transport: network is down (%s %s)", req.Method, req.URL.Redacted())
	}
	mk := func(code int, b []byte) *http.Response {
		return &http.Response{StatusCode: code, Status: fmt.Sprintf("%d %s", code, http.StatusText(code)), Proto: "HTTP/1.1", ProtoMajor: 1, ProtoMinor: 1,
			Header: http.Header{}, Body: io.NopCloser(bytes.NewReader(b)), ContentLength: int64(len(b)), Request: req}
	}
	if h == nil {
		return mk(404, []byte("no such host")), nil
	}
	if h.user != "" {
		if u, p, ok := req.BasicAuth(); !ok || u != h.user || p != gluePass {
			t.mu.Lock()
			t.refused++
			t.mu.Unlock()
			r := mk(401, []byte("unauthorized"))
			r.Header.Set("WWW-Authenticate", `Basic realm="apk"`)
			return r, nil
		}
	}
	body, ok := h.files[req.URL.Path]
	if !ok {
		return mk(404, []byte("not found")), nil
	}
	resp := mk(200, body)
	if !h.noTag {
		s := sha1.Sum(body)
		resp.Header.Set("ETag", `"`+hex.EncodeToString(s[:8])+`"`)
	}
	if req.Method == http.MethodHead {
		resp.Body = io.NopCloser(bytes.NewReader(nil))
	}
	return resp, nil
}

// ---- materialised configuration ----

type glueWritten struct {
	line string // the repository line as written in the configuration / option
	norm string // the same with the scratch directory replaced (what the model is told; order-preserving)
	repo int    // index position
}

type glueEnv struct {
	work    string
	key     string
	tr      *glueTransport // nil when no repository is served over HTTP
	auths   []auth.Authenticator
	written []glueWritten             // every repository line in the order written: build, runtime, extra build, extra runtime
	byPlace map[string][]string       // place -> lines
	uri     map[string]map[int]string // arch -> repo -> Repository().URI of its packages
	cache   string
}

func glueLine(c glueCase, work string, i int) string {
	r := c.Repos[i]
	var loc string
	switch {
	case !r.HTTP:
		loc = filepath.Join(work, fmt.Sprintf("r%02d", i))
	case r.Creds == "url":
		loc = fmt.Sprintf("https://%s:%s@r%02d.test/repo", glueUser, gluePass, i)
	default:
		loc = fmt.Sprintf("https://r%02d.test/repo", i)
	}
	if pin := c.Archs[0].Indexes[i].Pin; pin != "" {
		return "@" + pin + " " + loc
	}
	return loc
}

func glueMaterialise(c glueCase) (*glueEnv, error) {
	work, err := os.MkdirTemp("", "verif-glue-")
	if err != nil {
		return nil, err
	}
	e := &glueEnv{work: work, byPlace: map[string][]string{}, uri: map[string]map[int]string{}, cache: filepath.Join(work, "cache")}
	os.MkdirAll(filepath.Join(work, "tmp"), 0o755)
	os.MkdirAll(e.cache, 0o755)
	e.key = filepath.Join(work, synthKeyName)
	if err := os.WriteFile(e.key, pubKeyPEM(synthRSAKey()), 0o644); err != nil {
		return nil, err
	}
	for i, r := range c.Repos {
		var host *glueHost
		if r.HTTP {
			if e.tr == nil {
				e.tr = &glueTransport{hosts: map[string]*glueHost{}}
			}
			host = &glueHost{files: map[string][]byte{}, noTag: r.NoTag}
			if r.Creds != "" {
				host.user = glueUser
			}
			hn := fmt.Sprintf("r%02d.test", i)
			e.tr.hosts[hn] = host
			if r.Creds == "auth" {
				e.auths = append(e.auths, auth.StaticAuth(hn, glueUser, gluePass))
			}
		}
		line := glueLine(c, work, i)
		loc := line[strings.LastIndex(line, " ")+1:]
		for k, a := range c.Archs {
			if i >= len(a.Indexes) {
				continue
			}
			fill := 0
			if c.Big > 0 && k == c.BigArch && i == 0 {
				fill = c.Big
			}
			b := glueIndexBytes(a.Arch, i, a.Indexes[i].Pkgs, fill)
			if host != nil {
				host.files["/repo/"+a.Arch+"/APKINDEX.tar.gz"] = b
			} else {
				d := filepath.Join(loc, a.Arch)
				os.MkdirAll(d, 0o755)
				if err := os.WriteFile(filepath.Join(d, "APKINDEX.tar.gz"), b, 0o644); err != nil {
					return nil, err
				}
			}
			if e.uri[a.Arch] == nil {
				e.uri[a.Arch] = map[int]string{}
			}
			e.uri[a.Arch][i] = loc + "/" + a.Arch
		}
	}
	for _, place := range []string{"build", "runtime", "xbuild", "xruntime"} {
		for i, r := range c.Repos {
			if r.Place == place || r.Twice == place {
				line := glueLine(c, work, i)
				e.byPlace[place] = append(e.byPlace[place], line)
				e.written = append(e.written, glueWritten{line: line, norm: strings.ReplaceAll(line, work, "/W"), repo: i})
			}
		}
	}
	return e, nil
}

func (e *glueEnv) close() { os.RemoveAll(e.work) }

func (e *glueEnv) config(c glueCase) (types.ImageConfiguration, []types.Architecture) {
	var ic types.ImageConfiguration
	ic.Contents.BuildRepositories = e.byPlace["build"]
	ic.Contents.RuntimeRepositories = e.byPlace["runtime"]
	ic.Contents.Keyring = []string{e.key}
	ic.Contents.Packages = append([]string(nil), c.Packages...)
	var archs []types.Architecture
	for _, a := range c.Archs {
		archs = append(archs, types.ParseArchitecture(a.Arch))
	}
	ic.Archs = archs
	return ic, archs
}

func (e *glueEnv) options(c glueCase, offline bool) []build.Option {
	opts := []build.Option{build.WithTempDir(filepath.Join(e.work, "tmp")), build.WithSBOMFormats(nil)}
	if l := e.byPlace["xbuild"]; len(l) > 0 {
		opts = append(opts, build.WithExtraBuildRepos(l))
	}
	if l := e.byPlace["xruntime"]; len(l) > 0 {
		opts = append(opts, build.WithExtraRuntimeRepos(l))
	}
	if len(c.Extra) > 0 {
		opts = append(opts, build.WithExtraPackages(append([]string(nil), c.Extra...)))
	}
	if e.tr != nil {
		opts = append(opts, build.WithTransport(e.tr))
	}
	// always an explicit cache directory (never the user's)
	opts = append(opts, build.WithCache(e.cache, offline, apk.NewCache(c.Cache != "noshare")))
	if len(e.auths) > 0 {
		opts = append(opts, build.WithAuthenticator(auth.MultiAuthenticator(e.auths...)))
	} else {
		// the default authenticators consult the environment and may run `chainctl`
		opts = append(opts, build.WithAuthenticator(auth.StaticAuth("nowhere.invalid", "x", "y")))
	}
	return opts
}

// position of every repository in the list as written (first occurrence) and the id of its first package there
func (e *glueEnv) idBase(c glueCase, k int) map[int]int {
	a := c.Archs[k]
	base := map[int]int{}
	id := 0
	for _, w := range e.written {
		if _, ok := base[w.repo]; !ok {
			base[w.repo] = id
		}
		id += len(a.Indexes[w.repo].Pkgs)
	}
	return base
}

func (e *glueEnv) idOf(c glueCase, k int, base map[int]int, p *apk.RepositoryPackage) int {
	a := c.Archs[k]
	uri := p.Repository().URI
	for i, ix := range a.Indexes {
		if e.uri[a.Arch][i] != uri {
			continue
		}
		for j, q := range ix.Pkgs {
			if q.Name == p.Name && q.Version == p.Version {
				return base[i] + j
			}
		}
	}
	return 999999
}

func (e *glueEnv) showList(c glueCase, k int, pkgs []*apk.RepositoryPackage, conflicts []string) string {
	base := e.idBase(c, k)
	ids := make([]string, len(pkgs))
	for i, p := range pkgs {
		ids[i] = fmt.Sprint(e.idOf(c, k, base, p))
	}
	return "ok " + strings.Join(ids, ",") + "|" + xl(conflicts)
}

// glueInvoke: one invocation with fresh build contexts; the answer per architecture position
func (e *glueEnv) invoke(c glueCase, offline bool) []string {
	ctx := context.Background()
	ic, archs := e.config(c)
	opts := e.options(c, offline)
	out := make([]string, len(c.Archs))
	all := func(s string) []string {
		for i := range out {
			out[i] = s
		}
		return out
	}
	switch c.Mode {
	case "single":
		for k, arch := range archs {
			bc, err := build.New(ctx, tarfs.New(), append(append([]build.Option{build.WithImageConfiguration(ic)}, opts...), build.WithArch(arch))...)
			if err != nil {
				out[k] = "err"
				continue
			}
			pkgs, conflicts, err := bc.BuildPackageList(ctx)
			if err != nil {
				out[k] = "err"
				continue
			}
			out[k] = e.showList(c, k, pkgs, conflicts)
		}
	case "multi":
		mc, err := build.NewMultiArch(ctx, archs, append([]build.Option{build.WithImageConfiguration(ic)}, opts...)...)
		if err != nil {
			return all("err*")
		}
		lists, err := mc.BuildPackageLists(ctx)
		if err != nil {
			return all("err*")
		}
		for k, arch := range archs {
			pkgs, ok := lists[arch]
			if !ok {
				out[k] = "missing-architecture"
				continue
			}
			out[k] = e.showList(c, k, pkgs, nil)
		}
	case "lock":
		ics, _, err := build.LockImageConfiguration(ctx, ic, opts...)
		if err != nil {
			// the lock also fails when the architectures cannot be unified (C09's business): tell the two apart
			mc, err2 := build.NewMultiArch(ctx, archs, append([]build.Option{build.WithImageConfiguration(ic)}, opts...)...)
			if err2 == nil {
				if _, err2 = mc.BuildPackageLists(ctx); err2 == nil {
					return all("unify-error")
				}
			}
			return all("err*")
		}
		for k, arch := range archs {
			cfg, ok := ics[arch.String()]
			if !ok {
				out[k] = "missing-architecture"
				continue
			}
			l := make([]string, 0, len(cfg.Contents.Packages))
			for _, s := range cfg.Contents.Packages {
				if i := strings.IndexByte(s, '@'); i >= 0 {
					s = s[:i]
				}
				l = append(l, s)
			}
			sort.Strings(l)
			out[k] = "lk " + xl(l)
		}
	default:
		panic("glue: unknown mode " + c.Mode)
	}
	return out
}
