package main

// corr:lock (C09): build.unify (through the verif hook, fed with real resolver outputs and with raw
// adversarial `resolved` values), re-resolution of every per-architecture locked list with the real resolver,
// the real build.LockImageConfiguration against materialised synthetic repositories, and `apko lock` +
// `apko build --lockfile` end to end (lock_e2e.go).

import (
	"encoding/json"
	"fmt"
	"strings"

	"chainguard.dev/apko/pkg/build"
)

type lkRawPkg struct {
	Name     string   `json:"n"`
	Version  string   `json:"v"`
	Provided []string `json:"p,omitempty"`
	HasProv  bool     `json:"hp,omitempty"` // key present in the `provided` map
}
type lkRawArch struct {
	Arch string     `json:"arch"`
	Pkgs []lkRawPkg `json:"pkgs"`
}

type lkCase struct {
	Kind  string      `json:"kind"` // family | raw | cfg | e2e
	Archs []rArch     `json:"archs,omitempty"`
	World []string    `json:"world,omitempty"`
	Raw   []lkRawArch `json:"raw,omitempty"`
	E2E   *lkE2E      `json:"e2e,omitempty"`
}

type lockSuite struct{}

func init() { register(lockSuite{}) }

func (lockSuite) Name() string { return "lock" }

var lkArchNames = []string{"x86_64", "aarch64", "riscv64", "ppc64le"}

// ---------- generators ----------

// genFamily: per-architecture universe family; clean = no install_if, no provides of real names, parsable
// versions, no duplicates across indexes (the region of relock_fixpoint_partial)
func lkGenFamily(r *Rng, tier string) lkCase {
	g, indexes := genUniverse(r, tier == "thorough" && r.Chance(30))
	clean := r.Chance(45)
	if clean {
		real := map[string]bool{}
		for _, n := range g.names {
			real[n] = true
		}
		seen := map[string]bool{}
		for i := range indexes {
			var keep []rPkg
			for _, p := range indexes[i].Pkgs {
				p.InstallIf = nil
				var pv []string
				for _, pr := range p.Provides {
					if n, _ := lkProvidedName(pr); !real[n] {
						pv = append(pv, pr)
					}
				}
				p.Provides = pv
				switch p.Version {
				case "abc", "1.0-foo", "", "1..2":
					p.Version = "1.0-r0"
				}
				if seen[p.Name+"="+p.Version] {
					continue
				}
				seen[p.Name+"="+p.Version] = true
				keep = append(keep, p)
			}
			indexes[i].Pkgs = keep
		}
	}
	world := genWorld(g, indexes)
	if r.Chance(30) {
		// request a virtual by its provided name / pin an entry to an existing pinned index
		if len(g.virts) > 0 && r.Bool() {
			world = append(world, Pick(r, g.virts))
		}
		for _, ix := range indexes {
			if ix.Pin != "" && len(ix.Pkgs) > 0 && r.Chance(60) {
				world = append(world, Pick(r, ix.Pkgs).Name+"@"+ix.Pin)
				break
			}
		}
	}
	// indexes in the order apko loads them (repository strings are sorted: unpinned paths before "@pin path")
	indexes = lkSortIndexes(indexes)
	c := lkCase{Kind: "family", World: world}
	n := 1
	switch {
	case r.Chance(35):
		n = 2
	case r.Chance(25):
		n = 3
	case r.Chance(5):
		n = 4
	}
	for k := 0; k < n; k++ {
		if k == 0 || r.Chance(25) {
			a := rArch{Arch: lkArchNames[k]}
			for _, ix := range indexes {
				ix.URI += "/" + lkArchNames[k]
				a.Indexes = append(a.Indexes, ix)
			}
			c.Archs = append(c.Archs, a)
			continue
		}
		c.Archs = append(c.Archs, deriveArch(r, indexes, lkArchNames[k]))
	}
	return c
}

func lkSortIndexes(indexes []rIndex) []rIndex {
	var un, pinned []rIndex
	for _, ix := range indexes {
		if ix.Pin == "" {
			un = append(un, ix)
		} else {
			pinned = append(pinned, ix)
		}
	}
	// pinned ones sort by "@pin uri"; the generator's URIs are already ascending, so order by pin name (stable)
	for i := 1; i < len(pinned); i++ {
		for j := i; j > 0 && pinned[j].Pin < pinned[j-1].Pin; j-- {
			pinned[j], pinned[j-1] = pinned[j-1], pinned[j]
		}
	}
	return append(un, pinned...)
}

// genRaw: adversarial `resolved` values straight into unify (well-formed: packages = keys of versions)
func lkGenRaw(r *Rng) lkCase {
	names := []string{"a", "b", "c", "foo", "foo-bar", "d"}
	virts := []string{"virt", "so:libz.so.1", "cmd:sh"}
	vers := []string{"1.0-r0", "1.0-r1", "2.0-r0"}
	n := r.Range(1, 4)
	c := lkCase{Kind: "raw"}
	base := map[string]lkRawPkg{}
	for _, nm := range names {
		if r.Chance(70) {
			p := lkRawPkg{Name: nm, Version: Pick(r, vers)}
			if r.Chance(45) {
				p.HasProv = true
				k := r.Range(0, 2)
				for j := 0; j < k; j++ {
					v := Pick(r, virts)
					if !contains(p.Provided, v) {
						p.Provided = append(p.Provided, v)
					}
				}
			}
			base[nm] = p
		}
	}
	for k := 0; k < n; k++ {
		a := lkRawArch{Arch: lkArchNames[k]}
		for _, nm := range names {
			p, ok := base[nm]
			if !ok {
				if r.Chance(8) {
					a.Pkgs = append(a.Pkgs, lkRawPkg{Name: nm, Version: Pick(r, vers)})
				}
				continue
			}
			if r.Chance(12) {
				continue
			}
			if r.Chance(12) {
				p.Version = Pick(r, vers)
			}
			if r.Chance(15) {
				p.HasProv = r.Bool()
				p.Provided = nil
				if p.HasProv && r.Bool() {
					p.Provided = []string{Pick(r, virts)}
				}
			}
			a.Pkgs = append(a.Pkgs, p)
		}
		r.Shuffle(len(a.Pkgs), func(i, j int) { a.Pkgs[i], a.Pkgs[j] = a.Pkgs[j], a.Pkgs[i] })
		c.Raw = append(c.Raw, a)
	}
	nw := r.Range(0, 4)
	if r.Chance(90) && nw == 0 {
		nw = 1
	}
	for i := 0; i < nw; i++ {
		s := Pick(r, names)
		if r.Chance(30) {
			s = Pick(r, virts)
		}
		if r.Chance(30) {
			s += Pick(r, []string{"=", ">=", "<", "~", ">"}) + Pick(r, vers)
		}
		if r.Chance(25) {
			s += "@" + Pick(r, []string{"edge", "local"})
		}
		if r.Chance(3) {
			s = Pick(r, []string{"a@edge=1.0-r0", "@edge", "=1", "a@x@y", "foo~", "a=1.0-r0@edge@edge"})
		}
		c.World = append(c.World, s)
	}
	return c
}

// genProvides: the territory the fixpoint theorems do not cover yet (relock_exact_partial stops at provides):
// provides chains (a -> v0, the provider of v0 -> v1, ...), one virtual name provided by two or three packages
// (unversioned, versioned, with the provider's own version), version-constrained dependencies and world entries
// on virtual names, dependencies whose operator run is no operator (`==`, `><`: class F09l), packages that provide
// their own name or one name twice (F09m), `!x` dependencies on virtual names (F09n).  One or two
// indexes (the second sometimes pinned), mostly one architecture.  Every failing round trip must fall into a
// listed class: this is the search for holes in the class list where relock_unlisted_exact_partial does not reach.
func lkGenProvides(r *Rng, tier string) lkCase {
	vers := []string{"1.0-r0", "1.1-r0", "2.0-r0"}
	nN := r.Range(3, 6)
	var names []string
	for i := 0; i < nN; i++ {
		names = append(names, string(rune('a'+i)))
	}
	nV := r.Range(1, 3)
	var virts []string
	for i := 0; i < nV; i++ {
		virts = append(virts, Pick(r, []string{"virt", "so:libx.so.", "cmd:sh"})+fmt.Sprint(i))
	}
	verOf := map[string][]string{}
	for _, n := range names {
		verOf[n] = []string{Pick(r, vers)}
		if r.Chance(40) {
			v := Pick(r, vers)
			if v != verOf[n][0] {
				verOf[n] = append(verOf[n], v)
			}
		}
	}
	// providers: virtual k is provided by 1-3 names; a chain links the first provider of virtual k to virtual k+1
	provOf := map[string][]string{} // name -> provides (a form is chosen per version below)
	chain := map[string]string{}    // name -> virtual it depends on
	for k, v := range virts {
		np := 1
		switch {
		case r.Chance(45):
			np = 2
		case r.Chance(15):
			np = 3
		}
		for j := 0; j < np; j++ {
			n := Pick(r, names)
			if !contains(provOf[n], v) {
				provOf[n] = append(provOf[n], v)
			}
			if j == 0 && k+1 < len(virts) && r.Chance(60) {
				chain[n] = virts[k+1]
			}
		}
	}
	op := func(target string, virtual bool) string {
		switch {
		case r.Chance(45):
			return target
		case r.Chance(3):
			return target + Pick(r, []string{"==1.0-r0", "==junk", "><1.0", "=="}) // no operator: any version, text kept
		}
		v := Pick(r, vers)
		if virtual && r.Bool() {
			v = Pick(r, []string{"1.0", "2.0", "1.0-r0"})
		}
		return target + Pick(r, []string{"=", ">=", "<", ">", "<=", "~"}) + v
	}
	indexes := []rIndex{{Pin: "", URI: "https://r0.test/main"}}
	if r.Chance(25) {
		ix := rIndex{Pin: "", URI: "https://r1.test/main"}
		if r.Chance(60) {
			ix.Pin = "edge"
		}
		indexes = append(indexes, ix)
	}
	for _, n := range names {
		for _, v := range verOf[n] {
			p := rPkg{Name: n, Version: v}
			for _, vt := range provOf[n] {
				switch r.Intn(5) {
				case 0, 1:
					p.Provides = append(p.Provides, vt)
				case 2:
					p.Provides = append(p.Provides, vt+"="+v)
				default:
					p.Provides = append(p.Provides, vt+"="+Pick(r, []string{"1.0", "2.0", "1.0-r0"}))
				}
			}
			// shapes of the classes F09m / F09n: a package that provides its own name, or one name twice; a `!x`
			// dependency on a virtual name (the candidate filter of disqualifyProviders tests the provider's own version)
			if r.Chance(4) {
				if r.Bool() {
					p.Provides = append(p.Provides, n+"="+v)
				} else {
					p.Provides = append(p.Provides, n)
				}
			}
			if len(p.Provides) > 0 && r.Chance(4) {
				nm, _ := lkProvidedName(p.Provides[0])
				p.Provides = append(p.Provides, nm+"="+Pick(r, []string{"1.0", "2.0"}))
			}
			if r.Chance(6) {
				t := Pick(r, virts)
				if r.Chance(30) {
					t = Pick(r, names)
				}
				if t != n && !contains(provOf[n], t) {
					switch r.Intn(3) {
					case 0:
						p.Deps = append(p.Deps, "!"+t)
					default:
						p.Deps = append(p.Deps, "!"+t+Pick(r, []string{">=", "<", "=", ">"})+Pick(r, []string{"1.0", "2.0", "1.0-r0", "1.1-r0"}))
					}
				}
			}
			if vt, ok := chain[n]; ok {
				p.Deps = append(p.Deps, op(vt, true))
			}
			nd := r.Range(0, 2)
			for j := 0; j < nd; j++ {
				if r.Chance(55) {
					p.Deps = append(p.Deps, op(Pick(r, virts), true))
				} else if o := Pick(r, names); o != n {
					p.Deps = append(p.Deps, op(o, false))
				}
			}
			i := 0
			if len(indexes) > 1 && r.Chance(30) {
				i = 1
			}
			indexes[i].Pkgs = append(indexes[i].Pkgs, p)
		}
	}
	var world []string
	nw := r.Range(1, 3)
	for i := 0; i < nw; i++ {
		switch {
		case r.Chance(40):
			world = append(world, op(Pick(r, virts), true))
		default:
			world = append(world, op(Pick(r, names), false))
		}
	}
	if len(indexes) > 1 && indexes[1].Pin != "" && len(indexes[1].Pkgs) > 0 && r.Chance(50) {
		world = append(world, Pick(r, indexes[1].Pkgs).Name+"@"+indexes[1].Pin)
	}
	indexes = lkSortIndexes(indexes)
	c := lkCase{Kind: "family", World: world}
	n := 1
	if r.Chance(20) {
		n = 2
	}
	for k := 0; k < n; k++ {
		if k == 0 || r.Chance(40) {
			a := rArch{Arch: lkArchNames[k]}
			for _, ix := range indexes {
				ix.URI += "/" + lkArchNames[k]
				a.Indexes = append(a.Indexes, ix)
			}
			c.Archs = append(c.Archs, a)
			continue
		}
		c.Archs = append(c.Archs, deriveArch(r, indexes, lkArchNames[k]))
	}
	return c
}

// lkShapeTags: which of the shapes outside the proved territory a resolved set exhibits
func lkShapeTags(world []string, set []lkPkg) []string {
	var tags []string
	provided := map[string][]lkPkg{}
	versioned := false
	for _, p := range set {
		for _, pr := range p.Provides {
			if n, ok := lkProvidedName(pr); ok {
				provided[n] = append(provided[n], p)
				if strings.ContainsAny(pr, "=<>~") {
					versioned = true
				}
			}
		}
	}
	if len(provided) == 0 {
		return []string{"relock-set:no-provides"}
	}
	tags = append(tags, "relock-set:provides")
	if versioned {
		tags = append(tags, "relock-set:versioned-provide")
	}
	for _, ps := range provided {
		if len(ps) > 1 {
			tags = append(tags, "relock-set:virtual-provided-by-two-members")
			break
		}
	}
	for _, w := range world {
		if n, ok := lkProvidedName(w); ok && len(provided[n]) > 0 {
			tags = append(tags, "relock-set:virtual-requested")
			if strings.ContainsAny(w, "=<>~") {
				tags = append(tags, "relock-set:virtual-requested-with-version")
			}
			break
		}
	}
	return tags
}

func (lockSuite) Gen(r *Rng, i int, tier string) any {
	switch {
	case i%10 == 3 || i%10 == 7:
		return lkGenRaw(r)
	case i%10 == 1 || i%10 == 5:
		return lkGenProvides(r, tier)
	case i%25 == 9:
		return lkGenCfg(r, tier)
	case i%25 == 19:
		return lkGenE2E(r, tier)
	}
	return lkGenFamily(r, tier)
}

// ---------- running ----------

func lkRawInputs(raw []lkRawArch, order []int) ([]build.VerifResolved, []string) {
	var in []build.VerifResolved
	var f []string
	f = append(f, fmt.Sprint(len(raw)))
	for _, k := range order {
		a := raw[k]
		v := build.VerifResolved{Arch: a.Arch, Versions: map[string]string{}, Provided: map[string][]string{}}
		f = append(f, xs(a.Arch), fmt.Sprint(len(a.Pkgs)))
		for _, p := range a.Pkgs {
			v.Packages = append(v.Packages, p.Name)
			v.Versions[p.Name] = p.Version
			pf := "-"
			if p.HasProv || len(p.Provided) > 0 {
				v.Provided[p.Name] = p.Provided
				pf = xl(p.Provided)
			}
			f = append(f, xs(p.Name), xs(p.Version), pf)
		}
		in = append(in, v)
	}
	return in, f
}

func lkRawFromResolved(arch string, pkgs []lkPkg) lkRawArch {
	a := lkRawArch{Arch: arch}
	for _, p := range pkgs {
		q := lkRawPkg{Name: p.Name, Version: p.Version}
		for _, pr := range p.Provides {
			if n, ok := lkProvidedName(pr); ok {
				q.HasProv = true
				if !contains(q.Provided, n) {
					q.Provided = append(q.Provided, n)
				}
			}
		}
		a.Pkgs = append(a.Pkgs, q)
	}
	return a
}

func lkPerms(n int) [][]int {
	if n == 0 {
		return [][]int{{}}
	}
	var out [][]int
	for _, p := range lkPerms(n - 1) {
		for i := 0; i <= len(p); i++ {
			q := append(append(append([]int{}, p[:i]...), n-1), p[i:]...)
			out = append(out, q)
		}
	}
	return out
}

// unify steps for one list of raw inputs: the given order, one other order, and order independence
func lkUnifySteps(world []string, raw []lkRawArch, desc string) []Step {
	var steps []Step
	ident := make([]int, len(raw))
	for i := range ident {
		ident[i] = i
	}
	orders := [][]int{ident}
	if len(raw) > 1 {
		rot := append(append([]int{}, ident[1:]...), 0)
		orders = append(orders, rot)
	}
	for _, ord := range orders {
		in, f := lkRawInputs(raw, ord)
		out := lkShowUnify(build.VerifUnify(world, in))
		fields := append([]string{"l.unify", xl(world)}, f...)
		fields = append(fields, out)
		tags := []string{"unify:" + strings.SplitN(out, " ", 2)[0], fmt.Sprintf("unify-archs:%d", len(raw))}
		if strings.HasPrefix(out, "ok ") && !strings.HasSuffix(out, "|") {
			tags = append(tags, "unify:missing-by-arch")
		}
		steps = append(steps, Step{Line: strings.Join(fields, "\t"), Go: out, Desc: "unify " + desc, Tags: tags, Mode: "verdict", Trivial: out == "err"})
	}
	if len(raw) > 1 && len(raw) <= 4 {
		first := ""
		verdict := "same"
		for i, ord := range lkPerms(len(raw)) {
			in, _ := lkRawInputs(raw, ord)
			out := lkShowUnify(build.VerifUnify(world, in))
			if i == 0 {
				first = out
			} else if out != first {
				verdict = "differs"
			}
		}
		_, f := lkRawInputs(raw, ident)
		fields := append([]string{"l.unifyperm", xl(world)}, f...)
		fields = append(fields, verdict)
		steps = append(steps, Step{Line: strings.Join(fields, "\t"), Go: verdict, Desc: "unify over every architecture order " + desc, Tags: []string{"perm:" + verdict}, Mode: "verdict"})
	}
	return steps
}

func lkDescRaw(world []string, raw []lkRawArch) string {
	var b strings.Builder
	fmt.Fprintf(&b, "originals=%q", world)
	for _, a := range raw {
		fmt.Fprintf(&b, " [%s:", a.Arch)
		for _, p := range a.Pkgs {
			fmt.Fprintf(&b, " %s=%s", p.Name, p.Version)
			if p.HasProv || len(p.Provided) > 0 {
				fmt.Fprintf(&b, "p%v", p.Provided)
			}
		}
		b.WriteString("]")
	}
	return b.String()
}

func (lockSuite) Run(rawJSON json.RawMessage) []Step {
	var c lkCase
	if err := json.Unmarshal(rawJSON, &c); err != nil {
		panic(err)
	}
	switch c.Kind {
	case "raw":
		return lkUnifySteps(c.World, c.Raw, lkDescRaw(c.World, c.Raw))
	case "cfg":
		return lkRunCfg(c)
	case "e2e":
		return lkRunE2E(c)
	}
	return lkRunFamily(c)
}

func lkRunFamily(c lkCase) []Step {
	var steps []Step
	rc := rCase{Archs: c.Archs, World: c.World, Multi: true}
	enc := encodeArchs(c.Archs)
	res := make([][]lkPkg, len(c.Archs))
	oks := make([]bool, len(c.Archs))
	allOK := true
	for self := range c.Archs {
		res[self], oks[self] = lockResolve(c.Archs, self, c.World, true)
		if !oks[self] {
			allOK = false
		}
	}
	var pls map[string][]string
	var uerr error
	if allOK {
		var raw []lkRawArch
		for k, a := range c.Archs {
			raw = append(raw, lkRawFromResolved(a.Arch, res[k]))
		}
		steps = append(steps, lkUnifySteps(c.World, raw, describeCase(rc, 0))...)
		var in []build.VerifResolved
		for k, a := range c.Archs {
			in = append(in, lkResolvedOf(a.Arch, res[k]))
		}
		pls, _, uerr = build.VerifUnify(c.World, in)
	}
	for self, a := range c.Archs {
		var out string
		tags := []string{}
		switch {
		case !oks[self]:
			out = "orig=err"
			tags = append(tags, "relock:orig-err")
		case !allOK:
			out = "orig=sibling-err"
			tags = append(tags, "relock:sibling-err")
		case uerr != nil:
			out = "orig=" + lkOrdered(res[self]) + ";lock=err"
			tags = append(tags, "relock:unify-err")
		default:
			l := pls[a.Arch]
			re, ok := lockResolve(c.Archs, self, l, false)
			rs := "err"
			if ok {
				rs = lkOrdered(re)
			}
			out = "orig=" + lkOrdered(res[self]) + ";lock=" + xl(l) + ";re=" + rs
			switch {
			case !ok:
				tags = append(tags, "relock:error")
			case lkIDs(re) == lkIDs(res[self]):
				tags = append(tags, "relock:fixpoint", fmt.Sprintf("lock-size:%d", min(len(l), 8)))
				for _, t := range lkShapeTags(c.World, res[self]) {
					tags = append(tags, "fixpoint/"+t)
				}
				for _, p := range res[self] {
					if p.Pin != "" {
						tags = append(tags, "relock:fixpoint-with-pinned-member")
						break
					}
				}
			default:
				tags = append(tags, "relock:differs")
			}
		}
		fields := append([]string{"l.relock", xl(c.World), xs(a.Arch)}, enc...)
		fields = append(fields, out)
		steps = append(steps, Step{Line: strings.Join(fields, "\t"), Go: out, Desc: describeCase(rc, self), Tags: tags, Mode: "verdict",
			Trivial: !strings.Contains(out, ";re=")})
	}
	return steps
}

func lkOrdered(p []lkPkg) string {
	s := make([]string, len(p))
	for i, x := range p {
		s[i] = fmt.Sprint(x.ID)
	}
	if len(s) == 0 {
		return "ok"
	}
	return "ok " + strings.Join(s, ",")
}
