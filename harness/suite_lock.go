package main

// corr:lock (C09): build.unify (through the verif hook, fed with real resolver outputs and with raw
// adversarial `resolved` values), re-resolution of every per-architecture locked list with the real resolver,
// the real build.LockImageConfiguration against materialised synthetic repositories, and `apko lock` +
// `apko build --lockfile` end to end (lock_e2e.go).

import (
	"encoding/json"
	"fmt"
	"strings"

	"chainguard.dev/apko/pkg/build"
)

type lkRawPkg struct {
	Name     string   `json:"n"`
	Version  string   `json:"v"`
	Provided []string `json:"p,omitempty"`
	HasProv  bool     `json:"hp,omitempty"` // key present in the `provided` map
}
type lkRawArch struct {
	Arch string     `json:"arch"`
	Pkgs []lkRawPkg `json:"pkgs"`
}

type lkCase struct {
	Kind  string      `json:"kind"` // family | raw | cfg | e2e
	Archs []rArch     `json:"archs,omitempty"`
	World []string    `json:"world,omitempty"`
	Raw   []lkRawArch `json:"raw,omitempty"`
	E2E   *lkE2E      `json:"e2e,omitempty"`
}

type lockSuite struct{}

func init() { register(lockSuite{}) }

func (lockSuite) Name() string { return "lock" }

var lkArchNames = []string{"x86_64", "aarch64", "riscv64", "ppc64le"}

// ---------- generators ----------

// genFamily: per-architecture universe family; clean = no install_if, no provides of real names, parsable
// versions, no duplicates across indexes (the region of relock_fixpoint_partial)
func lkGenFamily(r *Rng, tier string) lkCase {
	g, indexes := genUniverse(r, tier == "thorough" && r.Chance(30))
	clean := r.Chance(45)
	if clean {
		real := map[string]bool{}
		for _, n := range g.names {
			real[n] = true
		}
		seen := map[string]bool{}
		for i := range indexes {
			var keep []rPkg
			for _, p := range indexes[i].Pkgs {
				p.InstallIf = nil
				var pv []string
				for _, pr := range p.Provides {
					if n, _ := lkProvidedName(pr); !real[n] {
						pv = append(pv, pr)
					}
				}
				p.Provides = pv
				switch p.Version {
				case "abc", "1.0-foo", "", "1..2":
					p.Version = "1.0-r0"
				}
				if seen[p.Name+"="+p.Version] {
					continue
				}
				seen[p.Name+"="+p.Version] = true
				keep = append(keep, p)
			}
			indexes[i].Pkgs = keep
		}
	}
	world := genWorld(g, indexes)
	if r.Chance(30) {
		// request a virtual by its provided name / pin an entry to an existing pinned index
		if len(g.virts) > 0 && r.Bool() {
			world = append(world, Pick(r, g.virts))
		}
		for _, ix := range indexes {
			if ix.Pin != "" && len(ix.Pkgs) > 0 && r.Chance(60) {
				world = append(world, Pick(r, ix.Pkgs).Name+"@"+ix.Pin)
				break
			}
		}
	}
	// indexes in the order apko loads them (repository strings are sorted: unpinned paths before "@pin path")
	indexes = lkSortIndexes(indexes)
	c := lkCase{Kind: "family", World: world}
	n := 1
	switch {
	case r.Chance(35):
		n = 2
	case r.Chance(25):
		n = 3
	case r.Chance(5):
		n = 4
	}
	for k := 0; k < n; k++ {
		if k == 0 || r.Chance(25) {
			a := rArch{Arch: lkArchNames[k]}
			for _, ix := range indexes {
				ix.URI += "/" + lkArchNames[k]
				a.Indexes = append(a.Indexes, ix)
			}
			c.Archs = append(c.Archs, a)
			continue
		}
		c.Archs = append(c.Archs, deriveArch(r, indexes, lkArchNames[k]))
	}
	return c
}

func lkSortIndexes(indexes []rIndex) []rIndex {
	var un, pinned []rIndex
	for _, ix := range indexes {
		if ix.Pin == "" {
			un = append(un, ix)
		} else {
			pinned = append(pinned, ix)
		}
	}
	// pinned ones sort by "@pin uri"; the generator's URIs are already ascending, so order by pin name (stable)
	for i := 1; i < len(pinned); i++ {
		for j := i; j > 0 && pinned[j].Pin < pinned[j-1].Pin; j-- {
			pinned[j], pinned[j-1] = pinned[j-1], pinned[j]
		}
	}
	return append(un, pinned...)
}

// genRaw: adversarial `resolved` values straight into unify (well-formed: packages = keys of versions)
func lkGenRaw(r *Rng) lkCase {
	names := []string{"a", "b", "c", "foo", "foo-bar", "d"}
	virts := []string{"virt", "so:libz.so.1", "cmd:sh"}
	vers := []string{"1.0-r0", "1.0-r1", "2.0-r0"}
	n := r.Range(1, 4)
	c := lkCase{Kind: "raw"}
	base := map[string]lkRawPkg{}
	for _, nm := range names {
		if r.Chance(70) {
			p := lkRawPkg{Name: nm, Version: Pick(r, vers)}
			if r.Chance(45) {
				p.HasProv = true
				k := r.Range(0, 2)
				for j := 0; j < k; j++ {
					v := Pick(r, virts)
					if !contains(p.Provided, v) {
						p.Provided = append(p.Provided, v)
					}
				}
			}
			base[nm] = p
		}
	}
	for k := 0; k < n; k++ {
		a := lkRawArch{Arch: lkArchNames[k]}
		for _, nm := range names {
			p, ok := base[nm]
			if !ok {
				if r.Chance(8) {
					a.Pkgs = append(a.Pkgs, lkRawPkg{Name: nm, Version: Pick(r, vers)})
				}
				continue
			}
			if r.Chance(12) {
				continue
			}
			if r.Chance(12) {
				p.Version = Pick(r, vers)
			}
			if r.Chance(15) {
				p.HasProv = r.Bool()
				p.Provided = nil
				if p.HasProv && r.Bool() {
					p.Provided = []string{Pick(r, virts)}
				}
			}
			a.Pkgs = append(a.Pkgs, p)
		}
		r.Shuffle(len(a.Pkgs), func(i, j int) { a.Pkgs[i], a.Pkgs[j] = a.Pkgs[j], a.Pkgs[i] })
		c.Raw = append(c.Raw, a)
	}
	nw := r.Range(0, 4)
	if r.Chance(90) && nw == 0 {
		nw = 1
	}
	for i := 0; i < nw; i++ {
		s := Pick(r, names)
		if r.Chance(30) {
			s = Pick(r, virts)
		}
		if r.Chance(30) {
			s += Pick(r, []string{"=", ">=", "<", "~", ">"}) + Pick(r, vers)
		}
		if r.Chance(25) {
			s += "@" + Pick(r, []string{"edge", "local"})
		}
		if r.Chance(3) {
			s = Pick(r, []string{"a@edge=1.0-r0", "@edge", "=1", "a@x@y", "foo~", "a=1.0-r0@edge@edge"})
		}
		c.World = append(c.World, s)
	}
	return c
}

func (lockSuite) Gen(r *Rng, i int, tier string) any {
	switch {
	case i%10 == 3 || i%10 == 7:
		return lkGenRaw(r)
	case i%25 == 9:
		return lkGenCfg(r, tier)
	case i%25 == 19:
		return lkGenE2E(r, tier)
	}
	return lkGenFamily(r, tier)
}

// ---------- running ----------

func lkRawInputs(raw []lkRawArch, order []int) ([]build.VerifResolved, []string) {
	var in []build.VerifResolved
	var f []string
	f = append(f, fmt.Sprint(len(raw)))
	for _, k := range order {
		a := raw[k]
		v := build.VerifResolved{Arch: a.Arch, Versions: map[string]string{}, Provided: map[string][]string{}}
		f = append(f, xs(a.Arch), fmt.Sprint(len(a.Pkgs)))
		for _, p := range a.Pkgs {
			v.Packages = append(v.Packages, p.Name)
			v.Versions[p.Name] = p.Version
			pf := "-"
			if p.HasProv || len(p.Provided) > 0 {
				v.Provided[p.Name] = p.Provided
				pf = xl(p.Provided)
			}
			f = append(f, xs(p.Name), xs(p.Version), pf)
		}
		in = append(in, v)
	}
	return in, f
}

func lkRawFromResolved(arch string, pkgs []lkPkg) lkRawArch {
	a := lkRawArch{Arch: arch}
	for _, p := range pkgs {
		q := lkRawPkg{Name: p.Name, Version: p.Version}
		for _, pr := range p.Provides {
			if n, ok := lkProvidedName(pr); ok {
				q.HasProv = true
				if !contains(q.Provided, n) {
					q.Provided = append(q.Provided, n)
				}
			}
		}
		a.Pkgs = append(a.Pkgs, q)
	}
	return a
}

func lkPerms(n int) [][]int {
	if n == 0 {
		return [][]int{{}}
	}
	var out [][]int
	for _, p := range lkPerms(n - 1) {
		for i := 0; i <= len(p); i++ {
			q := append(append(append([]int{}, p[:i]...), n-1), p[i:]...)
			out = append(out, q)
		}
	}
	return out
}

// unify steps for one list of raw inputs: the given order, one other order, and order independence
func lkUnifySteps(world []string, raw []lkRawArch, desc string) []Step {
	var steps []Step
	ident := make([]int, len(raw))
	for i := range ident {
		ident[i] = i
	}
	orders := [][]int{ident}
	if len(raw) > 1 {
		rot := append(append([]int{}, ident[1:]...), 0)
		orders = append(orders, rot)
	}
	for _, ord := range orders {
		in, f := lkRawInputs(raw, ord)
		out := lkShowUnify(build.VerifUnify(world, in))
		fields := append([]string{"l.unify", xl(world)}, f...)
		fields = append(fields, out)
		tags := []string{"unify:" + strings.SplitN(out, " ", 2)[0], fmt.Sprintf("unify-archs:%d", len(raw))}
		if strings.HasPrefix(out, "ok ") && !strings.HasSuffix(out, "|") {
			tags = append(tags, "unify:missing-by-arch")
		}
		steps = append(steps, Step{Line: strings.Join(fields, "\t"), Go: out, Desc: "unify " + desc, Tags: tags, Mode: "verdict", Trivial: out == "err"})
	}
	if len(raw) > 1 && len(raw) <= 4 {
		first := ""
		verdict := "same"
		for i, ord := range lkPerms(len(raw)) {
			in, _ := lkRawInputs(raw, ord)
			out := lkShowUnify(build.VerifUnify(world, in))
			if i == 0 {
				first = out
			} else if out != first {
				verdict = "differs"
			}
		}
		_, f := lkRawInputs(raw, ident)
		fields := append([]string{"l.unifyperm", xl(world)}, f...)
		fields = append(fields, verdict)
		steps = append(steps, Step{Line: strings.Join(fields, "\t"), Go: verdict, Desc: "unify over every architecture order " + desc, Tags: []string{"perm:" + verdict}, Mode: "verdict"})
	}
	return steps
}

func lkDescRaw(world []string, raw []lkRawArch) string {
	var b strings.Builder
	fmt.Fprintf(&b, "originals=%q", world)
	for _, a := range raw {
		fmt.Fprintf(&b, " [%s:", a.Arch)
		for _, p := range a.Pkgs {
			fmt.Fprintf(&b, " %s=%s", p.Name, p.Version)
			if p.HasProv || len(p.Provided) > 0 {
				fmt.Fprintf(&b, "p%v", p.Provided)
			}
		}
		b.WriteString("]")
	}
	return b.String()
}

func (lockSuite) Run(rawJSON json.RawMessage) []Step {
	var c lkCase
	if err := json.Unmarshal(rawJSON, &c); err != nil {
		panic(err)
	}
	switch c.Kind {
	case "raw":
		return lkUnifySteps(c.World, c.Raw, lkDescRaw(c.World, c.Raw))
	case "cfg":
		return lkRunCfg(c)
	case "e2e":
		return lkRunE2E(c)
	}
	return lkRunFamily(c)
}

func lkRunFamily(c lkCase) []Step {
	var steps []Step
	rc := rCase{Archs: c.Archs, World: c.World, Multi: true}
	enc := encodeArchs(c.Archs)
	res := make([][]lkPkg, len(c.Archs))
	oks := make([]bool, len(c.Archs))
	allOK := true
	for self := range c.Archs {
		res[self], oks[self] = lockResolve(c.Archs, self, c.World, true)
		if !oks[self] {
			allOK = false
		}
	}
	var pls map[string][]string
	var uerr error
	if allOK {
		var raw []lkRawArch
		for k, a := range c.Archs {
			raw = append(raw, lkRawFromResolved(a.Arch, res[k]))
		}
		steps = append(steps, lkUnifySteps(c.World, raw, describeCase(rc, 0))...)
		var in []build.VerifResolved
		for k, a := range c.Archs {
			in = append(in, lkResolvedOf(a.Arch, res[k]))
		}
		pls, _, uerr = build.VerifUnify(c.World, in)
	}
	for self, a := range c.Archs {
		var out string
		tags := []string{}
		switch {
		case !oks[self]:
			out = "orig=err"
			tags = append(tags, "relock:orig-err")
		case !allOK:
			out = "orig=sibling-err"
			tags = append(tags, "relock:sibling-err")
		case uerr != nil:
			out = "orig=" + lkOrdered(res[self]) + ";lock=err"
			tags = append(tags, "relock:unify-err")
		default:
			l := pls[a.Arch]
			re, ok := lockResolve(c.Archs, self, l, false)
			rs := "err"
			if ok {
				rs = lkOrdered(re)
			}
			out = "orig=" + lkOrdered(res[self]) + ";lock=" + xl(l) + ";re=" + rs
			switch {
			case !ok:
				tags = append(tags, "relock:error")
			case lkIDs(re) == lkIDs(res[self]):
				tags = append(tags, "relock:fixpoint", fmt.Sprintf("lock-size:%d", min(len(l), 8)))
				for _, p := range res[self] {
					if p.Pin != "" {
						tags = append(tags, "relock:fixpoint-with-pinned-member")
						break
					}
				}
			default:
				tags = append(tags, "relock:differs")
			}
		}
		fields := append([]string{"l.relock", xl(c.World), xs(a.Arch)}, enc...)
		fields = append(fields, out)
		steps = append(steps, Step{Line: strings.Join(fields, "\t"), Go: out, Desc: describeCase(rc, self), Tags: tags, Mode: "verdict",
			Trivial: !strings.Contains(out, ";re=")})
	}
	return steps
}

func lkOrdered(p []lkPkg) string {
	s := make([]string, len(p))
	for i, x := range p {
		s[i] = fmt.Sprint(x.ID)
	}
	if len(s) == 0 {
		return "ok"
	}
	return "ok " + strings.Join(s, ",")
}
