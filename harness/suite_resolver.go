package main

import (
	"context"
	"encoding/json"
	"fmt"
	"sort"
	"strings"

	"chainguard.dev/apko/pkg/apk/apk"
)

// corr:resolver (C02), corr:multiarch (C14), corr:purity (C08): the real PkgResolver against
// Impl.resolve, with the verified validator / availability oracle evaluated in Lean on Go's output.

type rPkg struct {
	Name      string   `json:"n"`
	Version   string   `json:"v"`
	Origin    string   `json:"o,omitempty"`
	Priority  uint64   `json:"k,omitempty"`
	Deps      []string `json:"d,omitempty"`
	Provides  []string `json:"p,omitempty"`
	InstallIf []string `json:"i,omitempty"`
	// the architecture FIELD of the record (`A:` in the index text, Package.Arch), independent of which
	// per-architecture index lists the record: "" = the architecture of the index (the usual case), "-" = an
	// empty field, anything else verbatim ("noarch", "all", another architecture's name).  Not shown to the
	// model: availability is (name, version) membership per architecture index and nothing else of the record
	// (C14.dq_ignores_other_fields, tie_dqPkgReads).
	A string `json:"a,omitempty"`
}

// archField: the value of Package.Arch for a record listed in an index of architecture indexArch
func (p rPkg) archField(indexArch string) string {
	switch p.A {
	case "":
		return indexArch
	case "-":
		return ""
	}
	return p.A
}

// archFields: the architecture-field dimension of a family.  55% of the families keep the usual labelling (every
// record carries the architecture of its index).  Otherwise every package NAME gets a label — the index's own
// architecture, "noarch", "all", the name of another (requested or foreign) architecture, empty — used on every
// architecture, and single records drift from it (12%: a rebuild that changed the field on one architecture).
// Which versions an architecture lists is decided before and independently (deriveArch / glueDerive).
func archFields(r *Rng, archs []rArch) {
	if !r.Chance(45) {
		return
	}
	pool := []string{"", "noarch", "noarch", "noarch", "all", "-", "s390x"}
	for _, a := range archs {
		pool = append(pool, a.Arch)
	}
	label := map[string]string{}
	for ai := range archs {
		for ii := range archs[ai].Indexes {
			px := append([]rPkg(nil), archs[ai].Indexes[ii].Pkgs...)
			for pi := range px {
				l, ok := label[px[pi].Name]
				if !ok {
					l = ""
					if r.Chance(55) {
						l = Pick(r, pool)
					}
					label[px[pi].Name] = l
				}
				if r.Chance(12) {
					l = Pick(r, pool)
				}
				if l == archs[ai].Arch {
					l = ""
				}
				px[pi].A = l
			}
			archs[ai].Indexes[ii].Pkgs = px
		}
	}
}

// archFieldTags: which labellings a family carries (input distribution)
func archFieldTags(archs []rArch) []string {
	seen := map[string]bool{}
	drift := false
	by := map[string]string{}
	for _, a := range archs {
		for _, ix := range a.Indexes {
			for _, p := range ix.Pkgs {
				switch p.A {
				case "":
				case "-":
					seen["A:empty"] = true
				case "noarch", "all":
					seen["A:"+p.A] = true
				default:
					seen["A:other-arch"] = true
				}
				if l, ok := by[p.Name]; ok && l != p.A {
					drift = true
				}
				by[p.Name] = p.A
			}
		}
	}
	var out []string
	for k := range seen {
		out = append(out, k)
	}
	sort.Strings(out)
	if drift {
		out = append(out, "A:drift")
	}
	return out
}
type rIndex struct {
	Pin  string `json:"pin"`
	URI  string `json:"uri"`
	Pkgs []rPkg `json:"pkgs"`
}
type rArch struct {
	Arch    string   `json:"arch"`
	Indexes []rIndex `json:"indexes"`
}
type rCase struct {
	Archs []rArch  `json:"archs"`
	World []string `json:"world"`
	Multi bool     `json:"multi,omitempty"` // resolve every arch with all archs as siblings
	// further worlds resolved afterwards over the SAME index objects (each through a fresh NewPkgResolver, i.e.
	// a clone from the process-wide resolver cache): a resolution must not depend on what was resolved before
	Extra [][]string `json:"extra,omitempty"`
}

func xs(s string) string { return "x" + hx(s) }
func xl(l []string) string {
	o := make([]string, len(l))
	for i, s := range l {
		o[i] = xs(s)
	}
	return strings.Join(o, ",")
}

func (c rCase) payload() []string {
	f := []string{xl(c.World)}
	return f
}

func encodeArchs(archs []rArch) []string {
	var f []string
	f = append(f, fmt.Sprint(len(archs)))
	for _, a := range archs {
		f = append(f, xs(a.Arch), fmt.Sprint(len(a.Indexes)))
		for _, ix := range a.Indexes {
			f = append(f, xs(ix.Pin), xs(ix.URI), fmt.Sprint(len(ix.Pkgs)))
			for _, p := range ix.Pkgs {
				f = append(f, xs(p.Name), xs(p.Version), xs(p.Origin), fmt.Sprint(p.Priority), xl(p.Deps), xl(p.Provides), xl(p.InstallIf))
			}
		}
	}
	return f
}

// built universe: real index objects plus pointer → model id
type builtArch struct {
	arch    string
	indexes []apk.NamedIndex
	ids     map[*apk.Package]int
}

func buildArch(a rArch) builtArch {
	b := builtArch{arch: a.Arch, ids: map[*apk.Package]int{}}
	id := 0
	for _, ix := range a.Indexes {
		idx := &apk.APKIndex{}
		for _, p := range ix.Pkgs {
			pk := &apk.Package{Name: p.Name, Version: p.Version, Arch: p.archField(a.Arch), Origin: p.Origin, ProviderPriority: p.Priority,
				Dependencies: append([]string(nil), p.Deps...), Provides: append([]string(nil), p.Provides...), InstallIf: append([]string(nil), p.InstallIf...)}
			idx.Packages = append(idx.Packages, pk)
			b.ids[pk] = id
			id++
		}
		repo := apk.Repository{URI: ix.URI}
		b.indexes = append(b.indexes, apk.NewNamedRepositoryWithIndex(ix.Pin, repo.WithIndex(idx)))
	}
	return b
}

func goResolve(archs []rArch, self int, world []string, multi bool) string {
	built := make([]builtArch, len(archs))
	for i, a := range archs {
		built[i] = buildArch(a)
	}
	all := map[string][]apk.NamedIndex{}
	if multi {
		for _, b := range built {
			all[b.arch] = b.indexes
		}
	} else {
		all[built[self].arch] = built[self].indexes
	}
	ctx := context.Background()
	res := apk.NewPkgResolver(ctx, built[self].indexes)
	inst, conflicts, err := res.GetPackagesWithDependencies(ctx, world, all)
	if err != nil {
		return "err"
	}
	ids := make([]string, len(inst))
	for i, p := range inst {
		id, ok := built[self].ids[p.Package]
		if !ok {
			id = 999999
		}
		ids[i] = fmt.Sprint(id)
	}
	return "ok " + strings.Join(ids, ",") + "|" + xl(conflicts)
}

// goResolveOne: PkgResolver.ResolvePackage(constraint, no disqualifications) on one architecture — the
// candidates the constraint accepts, as a sorted id list (the preference order among them is the business
// of the full resolution steps)
func goResolveOne(a rArch, constraint string) string {
	b := buildArch(a)
	res := apk.NewPkgResolver(context.Background(), b.indexes)
	pkgs, err := res.ResolvePackage(constraint, map[*apk.RepositoryPackage]string{})
	if err != nil {
		return "err"
	}
	var ids []int
	for _, p := range pkgs {
		id, ok := b.ids[p.Package]
		if !ok {
			id = 999999
		}
		ids = append(ids, id)
	}
	sort.Ints(ids)
	out := make([]string, len(ids))
	for i, id := range ids {
		out[i] = fmt.Sprint(id)
	}
	return "ok " + strings.Join(out, ",")
}

// goResolveStable runs the resolution on `reps` freshly built universes (fresh pointers, fresh map
// orders); differing answers are reported as such (C08: resolution is a pure function of its inputs).
func goResolveStable(archs []rArch, self int, world []string, multi bool, reps int) string {
	first := goResolve(archs, self, world, multi)
	for i := 1; i < reps; i++ {
		if o := goResolve(archs, self, world, multi); o != first {
			return "nondeterministic: " + first + " / " + o
		}
	}
	return first
}

var verPool = []string{"1.0-r0", "1.0-r1", "1.1-r0", "2.0-r0", "0.9_rc1-r0", "1.0_p1-r0", "3-r2", "1.0.1-r0"}
var opPool = []string{"=", ">", "<", ">=", "<=", "~", ">=", "="}

type rgen struct {
	r      *Rng
	names  []string
	virts  []string
	vers   map[string][]string
	origin map[string]string
	twin   string // a versioned constraint on the virtual of the twin providers ("" = none)
}

func (g *rgen) depString(allowNeg bool, self string) string {
	r := g.r
	var target string
	if r.Chance(25) && len(g.virts) > 0 {
		target = Pick(r, g.virts)
	} else {
		target = Pick(r, g.names)
		if target == self && r.Chance(85) {
			target = Pick(r, g.names)
		}
	}
	if allowNeg && r.Chance(2) {
		return "!" + target
	}
	if r.Chance(28) {
		vs := g.vers[target]
		v := Pick(r, verPool)
		if len(vs) > 0 && r.Chance(85) {
			v = Pick(r, vs)
		}
		op := Pick(r, opPool)
		if r.Chance(50) {
			op = Pick(r, []string{">=", "<=", "=", "~"})
		}
		if op == "~" {
			// fuzzy: usually a prefix without the revision
			if i := strings.Index(v, "-r"); i > 0 && r.Chance(70) {
				v = v[:i]
			}
		}
		return target + op + v
	}
	return target
}

func genUniverse(r *Rng, big bool) (*rgen, []rIndex) {
	g := &rgen{r: r, vers: map[string][]string{}, origin: map[string]string{}}
	nNames := r.Range(4, 9)
	if big {
		nNames = r.Range(8, 14)
	}
	for i := 0; i < nNames; i++ {
		g.names = append(g.names, string(rune('a'+i)))
	}
	nv := r.Range(1, 3)
	for i := 0; i < nv; i++ {
		g.virts = append(g.virts, Pick(r, []string{"virt", "so:libx.so.1", "cmd:sh", "pc:z"})+fmt.Sprint(i))
	}
	origins := []string{"", "o1", "o2"}
	nIdx := r.Range(1, 3)
	indexes := make([]rIndex, nIdx)
	for i := range indexes {
		indexes[i] = rIndex{Pin: "", URI: fmt.Sprintf("https://r%d.test/main", i)}
		if i > 0 && r.Chance(50) {
			indexes[i].Pin = Pick(r, []string{"edge", "local"})
		}
	}
	// versions per name
	for _, n := range g.names {
		k := 1
		switch {
		case r.Chance(45):
			k = 2
		case r.Chance(25):
			k = 3
		case r.Chance(10):
			k = 4
		}
		seen := map[string]bool{}
		for j := 0; j < k; j++ {
			v := Pick(r, verPool)
			if r.Chance(1) {
				v = Pick(r, []string{"abc", "1.0-foo", "", "1..2"})
			}
			if !seen[v] {
				seen[v] = true
				g.vers[n] = append(g.vers[n], v)
			}
		}
		if r.Chance(60) {
			g.origin[n] = n
		} else {
			g.origin[n] = Pick(r, origins)
		}
	}
	// virtual versions (for versioned provides)
	for _, v := range g.virts {
		g.vers[v] = []string{Pick(r, verPool), Pick(r, verPool)}
	}
	for _, n := range g.names {
		for _, v := range g.vers[n] {
			p := rPkg{Name: n, Version: v, Origin: g.origin[n]}
			nd := 0
			switch {
			case r.Chance(35):
				nd = 1
			case r.Chance(30):
				nd = 2
			case r.Chance(12):
				nd = 3
			}
			for j := 0; j < nd; j++ {
				p.Deps = append(p.Deps, g.depString(true, n))
			}
			if r.Chance(30) {
				vt := Pick(r, g.virts)
				switch r.Intn(4) {
				case 0:
					p.Provides = append(p.Provides, vt)
				case 1:
					p.Provides = append(p.Provides, vt+"="+Pick(r, g.vers[vt]))
				case 2:
					p.Provides = append(p.Provides, vt+"="+v)
				default:
					p.Provides = append(p.Provides, vt+"="+Pick(r, verPool))
				}
				if r.Chance(40) {
					p.Priority = uint64(Pick(r, []int{0, 10, 20}))
				}
			}
			if r.Chance(6) {
				// provides another real package's name
				o := Pick(r, g.names)
				if o != n {
					if r.Bool() {
						p.Provides = append(p.Provides, o+"="+Pick(r, verPool))
					} else {
						p.Provides = append(p.Provides, o)
					}
				}
			}
			if r.Chance(4) {
				a := Pick(r, g.names)
				if a != n {
					if r.Bool() {
						p.InstallIf = []string{a}
					} else if len(g.vers[a]) > 0 {
						p.InstallIf = []string{a + "=" + Pick(r, g.vers[a])}
					}
					if r.Chance(40) {
						b := Pick(r, g.names)
						if b != n && b != a {
							p.InstallIf = append(p.InstallIf, b)
						}
					}
				}
			}
			// place into an index (sometimes duplicated in a second one)
			i := r.Intn(len(indexes))
			if r.Chance(70) {
				i = 0
			}
			indexes[i].Pkgs = append(indexes[i].Pkgs, p)
			if len(indexes) > 1 && r.Chance(8) {
				j := (i + 1) % len(indexes)
				indexes[j].Pkgs = append(indexes[j].Pkgs, p)
			}
		}
	}
	// twin providers: two different packages with the SAME package version provide one virtual name at
	// different versions, so a versioned constraint on the virtual separates them only through their provides
	if r.Chance(18) && len(g.names) >= 2 {
		vt := Pick(r, g.virts)
		v := Pick(r, verPool)
		a := r.Intn(len(g.names))
		b := (a + 1 + r.Intn(len(g.names)-1)) % len(g.names)
		pv := []string{g.vers[vt][0], g.vers[vt][1]}
		if pv[0] == pv[1] {
			pv[1] = Pick(r, verPool)
		}
		for k, ni := range []int{a, b} {
			n := g.names[ni]
			placed := false
			for i := range indexes {
				for j := range indexes[i].Pkgs {
					if q := &indexes[i].Pkgs[j]; q.Name == n && q.Version == v {
						q.Provides = append(q.Provides, vt+"="+pv[k])
						placed = true
					}
				}
			}
			if !placed {
				g.vers[n] = append(g.vers[n], v)
				indexes[0].Pkgs = append(indexes[0].Pkgs, rPkg{Name: n, Version: v, Origin: g.origin[n], Provides: []string{vt + "=" + pv[k]}})
			}
		}
		g.twin = vt + Pick(r, []string{">=", ">", "<=", "<", "="}) + Pick(r, []string{pv[0], pv[1], Pick(r, verPool)})
	}
	// every virtual name has at least one provider (otherwise most universes fail with "nothing provides")
	for _, vt := range g.virts {
		provided := false
		for _, ix := range indexes {
			for _, p := range ix.Pkgs {
				for _, pr := range p.Provides {
					if pr == vt || strings.HasPrefix(pr, vt+"=") {
						provided = true
					}
				}
			}
		}
		if !provided && r.Chance(90) {
			ix := &indexes[0]
			if len(ix.Pkgs) > 0 {
				k := r.Intn(len(ix.Pkgs))
				pr := vt
				if r.Chance(60) {
					pr = vt + "=" + Pick(r, g.vers[vt])
				}
				ix.Pkgs[k].Provides = append(ix.Pkgs[k].Provides, pr)
			}
		}
	}
	// shuffle package order inside each index
	for i := range indexes {
		pk := indexes[i].Pkgs
		r.Shuffle(len(pk), func(a, b int) { pk[a], pk[b] = pk[b], pk[a] })
	}
	return g, indexes
}

func genWorld(g *rgen, indexes []rIndex) []string {
	r := g.r
	n := r.Range(1, 4)
	var w []string
	for i := 0; i < n; i++ {
		s := g.depString(false, "")
		if r.Chance(3) {
			s = "!" + Pick(r, g.names)
		}
		if r.Chance(12) {
			pin := "edge"
			for _, ix := range indexes {
				if ix.Pin != "" && r.Bool() {
					pin = ix.Pin
				}
			}
			s += "@" + pin
		}
		if r.Chance(3) {
			s = mutateBytes(r, s)
		}
		w = append(w, s)
	}
	if r.Chance(5) && len(w) > 0 {
		w = append(w, w[0])
	}
	if g.twin != "" && r.Chance(70) {
		w = append(w, g.twin)
	}
	return w
}

// deriveArch: a sibling architecture — versions dropped / added / provides changed
func deriveArch(r *Rng, base []rIndex, arch string) rArch {
	a := rArch{Arch: arch}
	for _, ix := range base {
		n := rIndex{Pin: ix.Pin, URI: ix.URI + "/" + arch}
		for _, p := range ix.Pkgs {
			if r.Chance(12) {
				continue // missing on this arch
			}
			q := p
			if r.Chance(6) {
				q.Version = Pick(r, verPool) // a different build on this arch
			}
			if r.Chance(4) && len(q.Provides) > 0 {
				q.Provides = nil
			}
			n.Pkgs = append(n.Pkgs, q)
			if r.Chance(5) {
				q2 := p
				q2.Version = "9.9-r" + fmt.Sprint(r.Intn(3)) // newer build on one arch only
				n.Pkgs = append(n.Pkgs, q2)
			}
		}
		a.Indexes = append(a.Indexes, n)
	}
	return a
}

type resolverSuite struct{ name string }

func init() {
	register(resolverSuite{"resolver"})
	register(resolverSuite{"multiarch"})
	register(resolverSuite{"resolver-pure"}) // C08: same generator, correspondence + repeatability only
}

func (s resolverSuite) Name() string { return s.name }

// strictBoundary: a dependency with a STRICT operator whose version text is byte-identical to an existing version
// of its target (`foo>1.0-r0` next to foo-1.0-r0), the target having dependencies of its own (so that it is
// "selected" when chosen earlier in the walk) and something else depending on the target without a version —
// the boundary where `>`/`<` and `>=`/`<=` part ways on the already-selected path of getPackageDependencies.
// Uses its own generator state: the stream of the rest of the case is the same with and without it.
func strictBoundary(r *Rng, g *rgen, indexes []rIndex) (ask []string) {
	rr := &Rng{s: r.s ^ 0x5bd1e9955bd1e995}
	if !rr.Chance(22) || len(g.names) < 3 {
		return nil
	}
	type at struct{ i, j int }
	var all []at
	for i := range indexes {
		for j := range indexes[i].Pkgs {
			all = append(all, at{i, j})
		}
	}
	if len(all) < 3 {
		return nil
	}
	t := Pick(rr, all)
	target := &indexes[t.i].Pkgs[t.j]
	if len(target.Deps) == 0 {
		o := Pick(rr, g.names)
		if o != target.Name {
			target.Deps = append(target.Deps, o)
		}
	}
	a, b := Pick(rr, all), Pick(rr, all)
	pa, pb := &indexes[a.i].Pkgs[a.j], &indexes[b.i].Pkgs[b.j]
	if pa.Name == target.Name || pb.Name == target.Name {
		return nil
	}
	pa.Deps = append(pa.Deps, target.Name)
	pb.Deps = append(pb.Deps, target.Name+Pick(rr, []string{">", "<", ">", "<", ">=", "<="})+target.Version)
	if rr.Chance(50) && pa.Name != pb.Name {
		// one package pulls in both, the plain request first or second
		pa.Deps = append(pa.Deps, pb.Name)
		if rr.Chance(60) {
			return []string{pa.Name}
		}
		return nil
	}
	if rr.Chance(60) {
		// both requested by the world: the plain request is met first (the build path sorts the world)
		if pa.Name < pb.Name || rr.Chance(30) {
			return []string{pa.Name, pb.Name}
		}
		return []string{pb.Name, pa.Name}
	}
	return nil
}

func (s resolverSuite) Gen(r *Rng, i int, tier string) any {
	g, indexes := genUniverse(r, tier == "thorough" && r.Chance(40))
	ask := strictBoundary(r, g, indexes)
	world := genWorld(g, indexes)
	if len(ask) > 0 {
		if len(world) > 2 {
			world = world[:2]
		}
		world = append(world, ask...)
	}
	if s.name != "multiarch" {
		c := rCase{Archs: []rArch{{Arch: "x86_64", Indexes: indexes}}, World: world}
		for k := r.Intn(3); k > 0; k-- {
			c.Extra = append(c.Extra, genWorld(g, indexes))
		}
		return c
	}
	n := r.Range(2, 3)
	if r.Chance(10) {
		n = 4
	}
	names := []string{"x86_64", "aarch64", "riscv64", "ppc64le"}
	if r.Chance(40) {
		// architectures whose apk and OCI spellings coincide first
		names = []string{"riscv64", "x86_64", "ppc64le", "aarch64"}
	}
	c := rCase{World: world, Multi: true}
	if r.Chance(50) {
		c.Extra = append(c.Extra, genWorld(g, indexes))
	}
	for k := 0; k < n; k++ {
		if k == 0 && r.Chance(50) {
			a := rArch{Arch: names[0]}
			for _, ix := range indexes {
				ix.URI += "/" + names[0]
				a.Indexes = append(a.Indexes, ix)
			}
			c.Archs = append(c.Archs, a)
			continue
		}
		c.Archs = append(c.Archs, deriveArch(r, indexes, names[k]))
	}
	archFields(r, c.Archs)
	return c
}

func (s resolverSuite) Run(raw json.RawMessage) []Step {
	var c rCase
	if err := json.Unmarshal(raw, &c); err != nil {
		panic(err)
	}
	var steps []Step
	enc := encodeArchs(c.Archs)
	steps = append(steps, s.sharedSequence(c, enc)...)
	if s.name == "multiarch" && c.Multi && resolverE2EEligible(c) && len(raw)%3 == 0 {
		steps = append(steps, s.e2eStep(c, enc)...)
	}
	if s.name == "resolver" {
		steps = append(steps, transResolverSteps(c)...)
		// every constraint of the world and of every package, asked of ResolvePackage on its own
		seen := map[string]bool{}
		ask := func(con string) {
			if seen[con] || strings.HasPrefix(con, "!") || len(seen) >= 12 {
				return
			}
			seen[con] = true
			out := goResolveOne(c.Archs[0], con)
			fields := append([]string{"r.one", xs(con), xs(c.Archs[0].Arch)}, encodeArchs(c.Archs[:1])...)
			fields = append(fields, out)
			steps = append(steps, Step{Line: strings.Join(fields, "\t"), Go: out, Desc: fmt.Sprintf("ResolvePackage(%q) %s", con, describeCase(c, 0)),
				Tags: []string{"one:" + strings.SplitN(out, " ", 2)[0]}, Mode: "verdict", Trivial: out == "err"})
		}
		for _, w := range c.World {
			ask(w)
		}
		for _, ix := range c.Archs[0].Indexes {
			for _, p := range ix.Pkgs {
				for _, d := range p.Deps {
					ask(d)
				}
			}
		}
	}
	for self := range c.Archs {
		out := goResolveStable(c.Archs, self, c.World, c.Multi, 2)
		fields := append([]string{"r.resolve", xl(c.World), xs(c.Archs[self].Arch)}, enc...)
		fields = append(fields, out)
		tags := []string{"result:" + strings.SplitN(out, " ", 2)[0]}
		if strings.HasPrefix(out, "ok ") {
			n := strings.Count(strings.SplitN(out[3:], "|", 2)[0], ",") + 1
			tags = append(tags, fmt.Sprintf("install-size:%d", min(n, 8)))
		}
		desc := describeCase(c, self)
		if s.name == "resolver-pure" {
			out = goResolveStable(c.Archs, self, c.World, c.Multi, 4)
			fields[0], fields[len(fields)-1] = "r.corr", out
			steps = append(steps, Step{Line: strings.Join(fields, "\t"), Go: out, Desc: desc, Tags: tags, Mode: "verdict", Trivial: out == "err"})
		} else if s.name == "resolver" {
			steps = append(steps, Step{Line: strings.Join(fields, "\t"), Go: out, Desc: desc, Tags: tags, Mode: "verdict", Trivial: out == "err"})
		} else {
			fields[0] = "r.avail"
			steps = append(steps, Step{Line: strings.Join(fields, "\t"), Go: out, Desc: desc, Tags: append(append(tags, fmt.Sprintf("archs:%d", len(c.Archs))), archFieldTags(c.Archs)...), Mode: "verdict", Trivial: out == "err"})
			// single-arch resolution must be unaffected by the filtering: resolve alone, compare with the model fed one arch
			if !c.Multi {
				continue
			}
			alone := goResolveStable([]rArch{c.Archs[self]}, 0, c.World, false, 1)
			f2 := append([]string{"r.avail", xl(c.World), xs(c.Archs[self].Arch)}, encodeArchs([]rArch{c.Archs[self]})...)
			f2 = append(f2, alone)
			steps = append(steps, Step{Line: strings.Join(f2, "\t"), Go: alone, Desc: "single-arch " + desc, Tags: []string{"alone:" + strings.SplitN(alone, " ", 2)[0]}, Mode: "verdict", Trivial: alone == "err"})
		}
	}
	return steps
}

// sharedSequence: one set of index objects for the whole sequence (so the process-wide resolver and
// disqualification caches are hit): every architecture alone, then with its siblings, then the extra
// worlds, then alone again.  Each answer must equal the model's answer for that call in isolation.
func (s resolverSuite) sharedSequence(c rCase, enc []string) []Step {
	if len(c.Extra) == 0 && !c.Multi {
		return nil
	}
	apk.VerifResetGlobalCaches()
	built := make([]builtArch, len(c.Archs))
	for i, a := range c.Archs {
		built[i] = buildArch(a)
	}
	type call struct {
		self  int
		world []string
		multi bool
	}
	var calls []call
	for self := range c.Archs {
		if c.Multi {
			calls = append(calls, call{self, c.World, false}, call{self, c.World, true})
		} else {
			calls = append(calls, call{self, c.World, false})
		}
		for _, w := range c.Extra {
			calls = append(calls, call{self, w, c.Multi})
		}
		calls = append(calls, call{self, c.World, false})
	}
	var steps []Step
	for k, cl := range calls {
		if (k+len(cl.world))%3 == 0 {
			// an abandoned resolution of the same request first (context cancelled at its n-th consultation): whatever
			// it leaves in the process-wide caches must not change the answer that follows
			_ = resolveBuiltCtx(newPCountCtx([]int{0, 1, 2, 3, 5, 8, 13, 21}[(k/3+len(c.Archs))%8]), built, cl.self, cl.world, cl.multi)
		}
		out := resolveBuilt(built, cl.self, cl.world, cl.multi)
		archs, e := c.Archs, enc
		if !cl.multi {
			archs = []rArch{c.Archs[cl.self]}
			e = encodeArchs(archs)
		}
		op := "r.corr"
		if s.name == "resolver" {
			op = "r.resolve"
		} else if s.name == "multiarch" {
			op = "r.avail"
		}
		fields := append([]string{op, xl(cl.world), xs(c.Archs[cl.self].Arch)}, e...)
		fields = append(fields, out)
		steps = append(steps, Step{Line: strings.Join(fields, "\t"), Go: out, Mode: "verdict", Trivial: out == "err",
			Desc: fmt.Sprintf("call %d of a sequence over shared index objects (multi=%v): %s", k, cl.multi, describeCase(rCase{Archs: archs, World: cl.world}, 0)),
			Tags: []string{"sequence:" + strings.SplitN(out, " ", 2)[0]}})
	}
	return steps
}

// e2eStep: the same family through build.NewMultiArch + MultiArch.BuildPackageLists
func (s resolverSuite) e2eStep(c rCase, enc []string) []Step {
	// the world file is written sorted (SetWorld) and read back line by line (GetWorld)
	// … after build.initializeApk passed it through sets.List(sets.New(...)): sorted and de-duplicated
	uniq := map[string]bool{}
	var w []string
	for _, x := range c.World {
		if !uniq[x] {
			uniq[x] = true
			w = append(w, x)
		}
	}
	sort.Strings(w)
	c.World = w
	res, r2, err := resolverE2E(c, true, len(c.World)%2 == 0)
	if err != nil {
		return []Step{{Line: "x.robust\te2e", Go: "setup-error: " + err.Error(), Mode: "oracle-go", GoSpec: "pass", NoImpl: true, Trivial: true, Desc: "multi-arch e2e setup failed", Tags: []string{"e2e:setup-error"}}}
	}
	// BuildPackageLists fails as a whole when one architecture fails: compare only when the model says all succeed
	// or Go succeeded (then every architecture must match)
	var steps []Step
	round := func(fam []rArch, enc []string, res map[int]string, wholeCall bool, how, tag string) {
		allOK := true
		for i := range fam {
			if res[i] == "err" {
				allOK = false
			}
		}
		for self := range fam {
			out := res[self]
			op := "r.avail"
			if !allOK && wholeCall {
				op = "r.corr-any-err" // Go reported an error for the whole call: accepted iff the model errors for SOME architecture
			}
			fields := append([]string{op, xl(c.World), xs(fam[self].Arch)}, enc...)
			fields = append(fields, out)
			steps = append(steps, Step{Line: strings.Join(fields, "\t"), Go: out, Mode: "verdict", Trivial: out == "err",
				Desc: how + ": " + describeCase(rCase{Archs: fam, World: c.World}, self), Tags: []string{tag + strings.SplitN(out, " ", 2)[0]}})
		}
	}
	round(c.Archs, enc, res, true, "MultiArch.BuildPackageLists", "e2e:")
	if r2 != nil {
		// the second round is judged against the family AS PUBLISHED THEN (history-free: Lemmas/GlueRounds.lean)
		tag := "e2e-history-goroutines:"
		if r2.Seq {
			tag = "e2e-history-arch-after-arch:"
		}
		round(r2.Archs, encodeArchs(r2.Archs), r2.Out, !r2.Seq, "HISTORY, "+r2.How, tag)
	}
	return steps
}

func describeCase(c rCase, self int) string {
	var b strings.Builder
	fmt.Fprintf(&b, "world=%q arch=%s", c.World, c.Archs[self].Arch)
	for _, a := range c.Archs {
		fmt.Fprintf(&b, " [%s:", a.Arch)
		for _, ix := range a.Indexes {
			fmt.Fprintf(&b, " {pin=%q", ix.Pin)
			for _, p := range ix.Pkgs {
				fmt.Fprintf(&b, " %s-%s", p.Name, p.Version)
				if p.A != "" {
					fmt.Fprintf(&b, " A:%s", p.archField(a.Arch))
				}
				if len(p.Deps) > 0 {
					fmt.Fprintf(&b, " D%v", p.Deps)
				}
				if len(p.Provides) > 0 {
					fmt.Fprintf(&b, " p%v", p.Provides)
				}
				if len(p.InstallIf) > 0 {
					fmt.Fprintf(&b, " i%v", p.InstallIf)
				}
				if p.Priority != 0 {
					fmt.Fprintf(&b, " k%d", p.Priority)
				}
			}
			b.WriteString("}")
		}
		b.WriteString("]")
	}
	s := b.String()
	if len(s) > 1500 {
		s = s[:1500] + "…"
	}
	return s
}

var _ = sort.Strings
