package main

import (
	"context"
	"encoding/json"
	"fmt"
	"io"
	"io/fs"
	"net/http"
	"net/url"
	"os"
	"path/filepath"
	"strings"
	"time"

	"chainguard.dev/apko/pkg/apk/apk"
	apkfs "chainguard.dev/apko/pkg/apk/fs"
	"golang.org/x/sys/unix"
)

// corr:confine — C18 "nothing is written outside the designated roots".
//
// Kinds of cases (all hostile input comes from the Rng; every case that touches the disk runs inside a
// fresh canary tree, see confine_tree.go):
//   lex        sanitizePath / sanitizeArchivePath / dirFS.Link target test on hostile (base, name) pairs
//   dirfs      a short sequence of real dirFS method calls with hostile names and link targets
//              ('..', absolute, symlink-then-write, hard links to outside files); per call the result
//              class and the canary diff are compared with the model (overlay = memfs model, host = POSIX
//              tree with symlink following)
//   url        cachePathFromURL / cacheDirForPackage on hostile URLs
//   etag       etagFromResponse / cacheFileFromEtag / cacheDirFromFile on hostile header values
//   key        key names: parseRepositoryIndex's '/' test
//   install    a synthetic .apk with hostile entries installed onto DirFS through the real
//              InitDB/InitKeyring/FixateWorld path (oracle: canary diff)
//   transport  the cache transport (etag path) against a repository that answers with hostile ETags /
//              is asked for hostile URL paths (oracle: canary diff, cache dir is designated)
//   keyring    InitKeyring with hostile key file names, chainguard key discovery with hostile `kid`s
//              (oracle: canary diff + the file the key lands in)
//   pkgrec / pkgcache   hostile package records (index / lock-file fields) through cacheDirForPackage and through
//              InstallPackages with a cache directory (confine_pkg.go)
//   cmd        whole commands: lock / build with base image, suffix-less URLs, hostile lock-file fields, hostile
//              architecture strings (confine_cmd.go)

type confineOp struct {
	M     string `json:"m"`
	Name  string `json:"name"`
	Old   string `json:"old,omitempty"`
	Data  string `json:"data,omitempty"`
	Flag  int    `json:"flag,omitempty"`
	Perm  int    `json:"perm,omitempty"`
	Mtime int64  `json:"mtime,omitempty"`
	UID   int    `json:"uid,omitempty"`
	GID   int    `json:"gid,omitempty"`
	Dev   int    `json:"dev,omitempty"`
}

type confineCase struct {
	Kind string `json:"kind"`
	// lex
	Base string `json:"base,omitempty"`
	P    string `json:"p,omitempty"`
	// dirfs
	Ops []confineOp `json:"ops,omitempty"`
	// url / etag / key
	Root  string   `json:"root,omitempty"`
	URL   string   `json:"url,omitempty"`
	Hdr   string   `json:"hdr,omitempty"` // none | empty | val
	Value string   `json:"value,omitempty"`
	File  string   `json:"file,omitempty"`
	Names []string `json:"names,omitempty"`
	// install
	Files []SFile `json:"files,omitempty"`
	// pkgrec / pkgcache: package records as an index or a lock file states them; the package served for them
	Pkgs []confinePkgRec `json:"pkgs,omitempty"`
	SP   *SPkg           `json:"sp,omitempty"`
}

type confineSuite struct{}

func init() { register(confineSuite{}) }

func (confineSuite) Name() string { return "confine" }

// ---------- generators ----------

var confineUps = []string{"", "../", "../../", "../../../"}

// tails relative to a directory `ups` levels above the root (depth 0 = inside the root)
var confineTails = [][]string{
	{"a", "a/b", "f", "etc/passwd", "x/../y", "./a", "a/./b", "..x", "...", "a/..b", "root2", "a//b", "a/", ""},
	{"canary/x", "canary/sentinel", "canary", "canary/sub/dir", "root2/secret", "root2/new", "root2", "rootx", "root/../canary/x", "newdir", "newdir/sub", "", "root", "root/a"},
	{"canary2/s2", "canary2/x", "canary2", "r/canary/x", "r/root2/secret", "new2"},
	{"top-sentinel", "cache/x", "w/canary2/s2", "w/r/canary/x", "new3", "out/x"},
}

// a name relative to the root that is lexically hostile (or, 1 in 4, benign)
func confineName(r *Rng) string {
	switch k := r.Intn(20); {
	case k < 4:
		return Pick(r, confineTails[0])
	case k < 14:
		d := r.Range(1, 3)
		pre := Pick(r, []string{"", "", "a/../", "./", "a/b/../../", "/", "//"})
		return pre + confineUps[d] + Pick(r, confineTails[d])
	case k < 16:
		// all the way up to "/" and down again through the real absolute path of the tree
		return strings.Repeat("../", 16) + "{T}/" + Pick(r, []string{"w/r/canary/x", "w/r/canary/sentinel", "w/r/root2/secret", "top-sentinel", "w/r/root/a", "newtop"})
	case k < 18:
		// absolute names are joined below the root
		return "/" + Pick(r, []string{"{T}/w/r/canary/x", "etc/passwd", "a", "../canary/x", "..", ""})
	default:
		return Pick(r, []string{"..", "../", ".", "/", "../.", "a/../..", "../root", "../root/", "../root/a", "../root2", "../rootx/y", "../root/../canary/x"})
	}
}

// symlink targets that lead out of the root but stay inside the canary tree
var confineTargets = []string{"/{T}/w/r/canary", "../canary", "../../canary2", "../root2", "/{T}/w/r/root2", "../canary/sentinel", "/{T}/w/r/root2/secret",
	// (no absolute link to the top directory ITSELF: the model's top is one component below "/", the real scratch
	// directory lies deeper, and whether the in-memory overlay can create a node THROUGH such a link depends on that depth)
	"../../../top-sentinel", "..", "../..", "/{T}/w", "../../../cache", "/{T}/w/r/root/a", "a", ".", "a/../../canary", "/{T}/w/r/newdir", "../newdir"}

var confineWriteMethods = []string{"writefile", "mkdirall", "mkdir", "create", "openfile-create", "openfile", "chmod", "chown", "chtimes", "remove", "symlink", "link", "mknod"}
var confineReadMethods = []string{"open", "openreaderat", "stat", "lstat", "readdir", "readfile", "readnod", "readlink", "setxattr", "getxattr", "listxattrs", "removexattr"}

func confineMkOp(r *Rng, m, name string) confineOp {
	o := confineOp{M: m, Name: name}
	switch m {
	case "writefile":
		o.Data, o.Perm = Pick(r, []string{"data", "", "sentinel", "x"}), Pick(r, []int{0o644, 0o600, 0o755})
	case "mkdirall", "mkdir":
		o.Perm = Pick(r, []int{0o755, 0o700})
	case "create":
		o.Data = Pick(r, []string{"created", ""})
	case "openfile-create":
		o.Flag = os.O_CREATE | Pick(r, []int{os.O_WRONLY, os.O_WRONLY | os.O_TRUNC, os.O_WRONLY | os.O_EXCL, os.O_RDWR | os.O_TRUNC})
		o.Data, o.Perm = Pick(r, []string{"opened", "", "zz"}), 0o644
	case "openfile":
		o.Flag = Pick(r, []int{os.O_WRONLY, os.O_WRONLY | os.O_TRUNC, os.O_RDWR, os.O_RDONLY, os.O_RDWR | os.O_TRUNC})
		o.Data, o.Perm = Pick(r, []string{"ov", "", "overwrite-longer-than-before"}), 0o644
	case "chmod":
		o.Perm = Pick(r, []int{0o600, 0o755, 0o777, 0o400})
	case "chown":
		o.UID, o.GID = Pick(r, []int{1, 1000}), Pick(r, []int{2, 1000})
	case "chtimes":
		o.Mtime = Pick(r, []int64{1234567890, 86400, 1700000000})
	case "symlink":
		o.Old = Pick(r, confineTargets)
	case "link":
		o.Old = name
		o.Name = Pick(r, []string{"h", "a/h", "h2"})
		if r.Chance(30) {
			o.Old, o.Name = Pick(r, []string{"f", "a/f", "h"}), name
		}
	case "mknod":
		o.Perm, o.Dev = 0o644, int(unix.Mkdev(1, 3))
	case "setxattr":
		o.Data = "v"
	}
	return o
}

func confineGenDirfs(r *Rng) confineCase {
	c := confineCase{Kind: "dirfs"}
	add := func(o confineOp) { c.Ops = append(c.Ops, o) }
	if r.Chance(50) {
		add(confineOp{M: "mkdirall", Name: "a", Perm: 0o755})
		if r.Chance(50) {
			add(confineOp{M: "writefile", Name: Pick(r, []string{"f", "a/f"}), Data: "inside", Perm: 0o644})
		}
	}
	switch k := r.Intn(10); {
	case k < 5:
		// hostile names straight into the methods
		n := r.Range(1, 3)
		for i := 0; i < n; i++ {
			m := Pick(r, confineWriteMethods)
			if r.Chance(25) {
				m = Pick(r, confineReadMethods)
			}
			add(confineMkOp(r, m, confineName(r)))
		}
	case k < 9:
		// symlink (or hard link) first, then an operation through it
		link := Pick(r, []string{"L", "a/L", "L"})
		target := Pick(r, confineTargets)
		if r.Chance(30) {
			// make the target exist in the overlay as well (an image that contains the same path as the host)
			if strings.HasPrefix(target, "/") && !strings.Contains(target, "secret") {
				add(confineOp{M: "mkdirall", Name: target, Perm: 0o755})
			}
		}
		add(confineOp{M: "symlink", Name: link, Old: target})
		n := r.Range(1, 3)
		for i := 0; i < n; i++ {
			sub := Pick(r, []string{"/f", "/sentinel", "", "/sub/dir", "/secret", "/x", "/s2", "/.."})
			m := Pick(r, confineWriteMethods)
			if r.Chance(15) {
				m = Pick(r, confineReadMethods)
			}
			o := confineMkOp(r, m, link+sub)
			add(o)
			if m == "link" && r.Chance(70) {
				add(confineMkOp(r, Pick(r, []string{"writefile", "chmod", "openfile", "chtimes", "remove"}), o.Name))
			}
		}
	default:
		// hard links to outside files, then writes through them
		add(confineOp{M: "link", Old: Pick(r, []string{"../root2/secret", "../canary/sentinel", "../../canary2/s2", "/../root2/secret", "a/../../root2/secret", "../root/f", "f"}), Name: Pick(r, []string{"h", "a/h"})})
		add(confineMkOp(r, Pick(r, []string{"writefile", "chmod", "openfile", "chtimes", "remove", "chown"}), Pick(r, []string{"h", "a/h"})))
	}
	return c
}

var confineBases = []string{"/t/root", "/t/root/", "/t", "/", "/t/a b", "/t/root//", "/t/./root", "/t/x/../root", "t/root", ".", "", "..", "/t/ro"}

func confineGenLex(r *Rng) confineCase {
	c := confineCase{Kind: "lex", Base: Pick(r, confineBases)}
	if r.Chance(75) {
		c.Base = "/t/root"
	}
	c.P = strings.ReplaceAll(confineName(r), "{T}", "t")
	if r.Chance(15) {
		c.P = Pick(r, []string{"../root2/secret", "../rootx", "../root", "../root/x", "../ro", "..", "../../t/root/x", "../../t/root2", "a/../../root2", "/..", "../roo", "../root/"})
	}
	return c
}

var confineHosts = []string{"repo.test", "packages.wolfi.dev", "a.b:8080", "[::1]", "user:pw@repo.test", "..", "%2e%2e", "x"}
var confineURLPaths = []string{"/os/x86_64/APKINDEX.tar.gz", "/os/x86_64/pkg-1.0-r0.apk", "/x86_64/p.apk", "/p.apk", "/", "", "/a/b/c/d/e.apk",
	"/os/x86_64/../../../../etc/passwd", "/os/../../x86_64/p.apk", "/../../../p.apk", "/os/x86_64/..", "/os/x86_64/.", "/os/../..", "/..", "/../..", "/../../..",
	"/os/x86_64/%2e%2e%2fp.apk", "/os/%2e%2e/%2e%2e/p.apk", "/os/x86_64//p.apk", "//os//x86_64//p.apk", "/os/x86_64/p.apk/", "/os/x86_64/..%2f..%2f..%2fp.apk",
	"/os/x86_64/a b.apk", "/os/x86_64/.apk", "/./././p.apk", "/os/x86_64/APKINDEX.tar.gz/../../../../../x"}

func confineGenURL(r *Rng) confineCase {
	c := confineCase{Kind: "url", Root: Pick(r, []string{"/t/cache", "/t/cache/", "/t", "/", "/t/c/../cache", "/t/cache2"})}
	scheme := Pick(r, []string{"https", "http", "file", "https"})
	u := scheme + "://" + Pick(r, confineHosts) + Pick(r, confineURLPaths)
	if scheme == "file" {
		u = "file://" + Pick(r, []string{"/t/repo/x86_64/p.apk", "/../../p.apk", "/t/repo/../../../x/y.apk", "/p.apk", "/"})
	}
	if r.Chance(25) {
		u += Pick(r, []string{"?a=b/../../c", "#frag/../..", "?", "#", "?x=%2f..%2f"})
	}
	if r.Chance(8) {
		// no scheme, no host: QueryEscape's stated property does not hold for these (never produced by apko itself)
		u = Pick(r, []string{"../../p.apk", "../cache2/x/p.apk", "..", "a/b/c.apk", "../../../etc/x.apk", "x86_64/p.apk"})
	}
	c.URL = u
	return c
}

var confineEtags = []string{`"abc"`, `abc`, `W/"abc"`, `"../../../x"`, `../../../../w/r/canary/pwn`, `/etc/passwd`, `"/{T}/w/r/canary/pwn"`, `""`, `"`, `"a"b"`, `..`, `.`, `"..""`,
	"a/b", "a\x00b", "\xff\xfe", `"` + strings.Repeat("A", 300) + `"`, " ", "\t", `"x" `, "é", "a\\b", "%2e%2e%2f", "CON", `""""`, "=", "a=b"}

func confineGenEtag(r *Rng) confineCase {
	c := confineCase{Kind: "etag", Hdr: "val", Value: Pick(r, confineEtags)}
	if r.Chance(30) {
		n := r.Range(0, 12)
		b := make([]byte, n)
		for i := range b {
			b[i] = Pick(r, []byte{'.', '/', '"', 'a', 'Z', '0', 0, 0xff, ' ', '=', '\\', '7'})
		}
		c.Value = string(b)
	}
	switch r.Intn(12) {
	case 0:
		c.Hdr = "none"
	case 1:
		c.Hdr = "empty"
	}
	c.File = Pick(r, []string{"/t/cache/https%3A%2F%2Frepo.test%2Fos/x86_64/APKINDEX.tar.gz", "/t/cache/r/x86_64/key.rsa.pub", "/t/cache/r/x86_64/p.apk", "/APKINDEX.tar.gz", "/t/cache/r/x86_64/XAPKINDEX.tar.gz", "/t/cache/r/APKINDEX/APKINDEX.tar.gz"})
	return c
}

var confineKeyNames = []string{"key.rsa.pub", "../key.rsa.pub", "a/b.rsa.pub", "/etc/passwd", "..", ".", "", "k\\..\\x", "https://x/y.rsa.pub", "k", "a b", "..%2f", "x/", "/"}

func confineGenKey(r *Rng) confineCase {
	return confineCase{Kind: "key", Names: []string{Pick(r, confineKeyNames), Pick(r, confineKeyNames)}[:r.Range(1, 2)]}
}

func confineGenInstall(r *Rng) confineCase {
	c := confineCase{Kind: "install"}
	add := func(f SFile) { c.Files = append(c.Files, f) }
	add(SFile{Path: "usr", Type: "dir", Mode: 0o755})
	add(SFile{Path: "usr/ok", Type: "file", Mode: 0o644, Content: "ok"})
	switch k := r.Intn(10); {
	case k < 4:
		// lexically hostile entry names
		n := r.Range(1, 3)
		for i := 0; i < n; i++ {
			name := confineName(r)
			if name == "" || strings.HasPrefix(name, ".") && !strings.Contains(name, "/") {
				name = "usr/" + name
			}
			switch r.Intn(4) {
			case 0:
				add(SFile{Path: name, Type: "dir", Mode: 0o755})
			case 1:
				add(SFile{Path: name, Type: "symlink", Mode: 0o777, Link: Pick(r, confineTargets)})
			case 2:
				add(SFile{Path: Pick(r, []string{"usr/h", "h"}), Type: "hardlink", Mode: 0o644, Link: name})
			default:
				add(SFile{Path: name, Type: "file", Mode: 0o644, Content: "hostile"})
			}
		}
	case k < 9:
		// a symlink entry that leads out, then entries beneath it
		link := Pick(r, []string{"usr/L", "L", "usr/lib"})
		target := Pick(r, confineTargets)
		if r.Chance(40) && strings.HasPrefix(target, "/") {
			add(SFile{Path: strings.TrimPrefix(target, "/"), Type: "dir", Mode: 0o755})
		}
		add(SFile{Path: link, Type: "symlink", Mode: 0o777, Link: target})
		n := r.Range(1, 2)
		for i := 0; i < n; i++ {
			sub := Pick(r, []string{"/f", "/sentinel", "/sub", "/secret", "/x/y"})
			switch r.Intn(4) {
			case 0:
				add(SFile{Path: link + sub, Type: "dir", Mode: 0o700})
			case 1:
				add(SFile{Path: link + sub, Type: "symlink", Mode: 0o777, Link: "whatever"})
			case 2:
				add(SFile{Path: "usr/h", Type: "hardlink", Mode: 0o644, Link: link + sub})
			default:
				add(SFile{Path: link + sub, Type: "file", Mode: 0o644, Content: "through-link", Mtime: 1234567890})
			}
		}
	default:
		add(SFile{Path: "usr/h", Type: "hardlink", Mode: 0o644, Link: Pick(r, []string{"../root2/secret", "../canary/sentinel", "usr/ok", "/../root2/secret"})})
	}
	return c
}

func confineGenTransport(r *Rng) confineCase {
	c := confineCase{Kind: "transport", Value: Pick(r, confineEtags), URL: Pick(r, []string{"/x86_64/APKINDEX.tar.gz", "/os/x86_64/APKINDEX.tar.gz", "/keys/k.rsa.pub",
		"/../../../w/r/canary/APKINDEX.tar.gz", "/os/../../../x86_64/APKINDEX.tar.gz", "/x86_64/..", "/x86_64/%2e%2e/%2e%2e/APKINDEX.tar.gz", "/..", "/x86_64/../../../../../../../{T}/w/r/canary/APKINDEX.tar.gz",
		// the query is not part of the vetted path: whatever is derived from it must not name a place either
		"/keys/k.rsa.pub?/../../../../canary/pwn/x", "/x86_64/APKINDEX.tar.gz?/../../../../../../../../../../{T}/w/r/canary/q/x", "/x86_64/APKINDEX.tar.gz?a=/../../../../canary/x",
		"/keys/k.rsa.pub?/../../../../../../../../../../{T}/w/r/canary/pwn/x", "/x86_64/APKINDEX.tar.gz?..", "/x86_64/APKINDEX.tar.gz?%2f..%2f..%2f..%2fcanary%2fx"})}
	c.Hdr = Pick(r, []string{"etag", "etag", "etag", "noetag"})
	return c
}

func confineGenKeyring(r *Rng) confineCase {
	c := confineCase{Kind: "keyring"}
	if r.Chance(50) {
		// chainguard discovery: the repository's JWKS names the key files
		c.Hdr = "discover"
		c.Names = []string{Pick(r, []string{"good", "../../../../canary/pwn", "../pwn", "../../../../../../w/canary2/pwn", "a/b", "/abs", "..", ".", "../../../../root2/secret", "x/../../../../../canary/pwn",
			strings.Repeat("../", 16) + "{T}/w/r/canary/pwn"})}
	} else {
		c.Hdr = "initkeyring"
		c.Names = []string{Pick(r, []string{"https://repo.test/keys/k.rsa.pub", "https://repo.test/keys/..", "https://repo.test/keys/.", "https://repo.test/keys/%2e%2e%2f%2e%2e%2fx", "https://repo.test/",
			"https://repo.test/keys/..%2f..%2f..%2f..%2f..%2fcanary%2fpwn", "{REPO}/k.rsa.pub", "{REPO}/sub/..", "{REPO}/../w/r/canary/sentinel", "https://repo.test/keys/a%20b", "https://repo.test/keys/k.rsa.pub?x=../../y",
			"https://repo.test/keys/k.rsa.pub?/../../../../../canary/pwn/x", "https://repo.test/keys/k.rsa.pub?/../../../../../../../../../../{T}/w/r/canary/pwn/x"})}
	}
	return c
}

func (confineSuite) Gen(r *Rng, i int, tier string) any {
	if i < len(confineCmdKinds) {
		return confineGenCmdKind(r, confineCmdKinds[i])
	}
	if r.Chance(2) {
		return confineGenCmd(r)
	}
	switch k := r.Intn(100); {
	case k < 11:
		return confineGenLex(r)
	case k < 49:
		return confineGenDirfs(r)
	case k < 51:
		return confineGenArchName(r)
	case k < 57:
		return confineGenPkgRec(r)
	case k < 62:
		return confineGenPkgCache(r)
	case k < 72:
		return confineGenURL(r)
	case k < 80:
		return confineGenEtag(r)
	case k < 83:
		return confineGenKey(r)
	case k < 92:
		return confineGenInstall(r)
	case k < 96:
		return confineGenTransport(r)
	default:
		return confineGenKeyring(r)
	}
}

// ---------- running ----------

func confineErrClass(err error) string {
	switch {
	case err == nil:
		return "ok"
	case strings.Contains(err.Error(), "content filepath is tainted"):
		return "tainted"
	case strings.Contains(err.Error(), "is outside of the filesystem"):
		return "outside"
	default:
		return "err"
	}
}

func confineOptS(tag, v string, err error) string {
	if err != nil {
		return tag
	}
	return "ok " + hx(v)
}

func (o confineOp) line() string {
	return strings.Join([]string{o.M, hx(confineModelStr(o.Name)), hx(confineModelStr(o.Old)), hx(o.Data), fmt.Sprint(o.Flag), fmt.Sprint(o.Perm), fmt.Sprint(o.Mtime),
		fmt.Sprint(o.UID), fmt.Sprint(o.GID), fmt.Sprint(o.Dev)}, ",")
}

func (o confineOp) desc() string {
	s := o.M + "(" + fmt.Sprintf("%q", o.Name)
	if o.Old != "" {
		s += fmt.Sprintf(" old=%q", o.Old)
	}
	if o.Flag != 0 {
		s += fmt.Sprintf(" flag=%#x", o.Flag)
	}
	return s + ")"
}

func confineWriteClose(f apkfs.File, err error, data string, writable bool) error {
	if err != nil {
		return err
	}
	if writable && data != "" {
		if _, werr := f.Write([]byte(data)); werr != nil {
			f.Close()
			return werr
		}
	}
	return f.Close()
}

func confineApply(t *confineTree, f apkfs.FullFS, o confineOp) error {
	name, old := t.subst(o.Name), t.subst(o.Old)
	switch o.M {
	case "readlink":
		_, err := f.Readlink(name)
		return err
	case "open":
		fl, err := f.Open(name)
		if err == nil {
			fl.Close()
		}
		return err
	case "openreaderat":
		fl, err := f.OpenReaderAt(name)
		if err == nil {
			fl.Close()
		}
		return err
	case "openfile", "openfile-create":
		fl, err := f.OpenFile(name, o.Flag, fs.FileMode(o.Perm))
		return confineWriteClose(fl, err, o.Data, o.Flag&(os.O_WRONLY|os.O_RDWR) != 0)
	case "create":
		fl, err := f.Create(name)
		return confineWriteClose(fl, err, o.Data, true)
	case "stat":
		_, err := f.Stat(name)
		return err
	case "lstat":
		_, err := f.Lstat(name)
		return err
	case "remove":
		return f.Remove(name)
	case "readdir":
		_, err := f.ReadDir(name)
		return err
	case "readfile":
		_, err := f.ReadFile(name)
		return err
	case "writefile":
		return f.WriteFile(name, []byte(o.Data), fs.FileMode(o.Perm))
	case "readnod":
		_, err := f.Readnod(name)
		return err
	case "link":
		return f.Link(old, name)
	case "symlink":
		return f.Symlink(old, name)
	case "mkdirall":
		return f.MkdirAll(name, fs.FileMode(o.Perm))
	case "mkdir":
		return f.Mkdir(name, fs.FileMode(o.Perm))
	case "chmod":
		return f.Chmod(name, fs.FileMode(o.Perm))
	case "chown":
		return f.Chown(name, o.UID, o.GID)
	case "chtimes":
		return f.Chtimes(name, time.Unix(o.Mtime, 0), time.Unix(o.Mtime, 0))
	case "mknod":
		return f.Mknod(name, uint32(o.Perm), o.Dev)
	case "setxattr":
		return f.SetXattr(name, "user.x", []byte(o.Data))
	case "getxattr":
		_, err := f.GetXattr(name, "user.x")
		return err
	case "removexattr":
		return f.RemoveXattr(name, "user.x")
	case "listxattrs":
		_, err := f.ListXattrs(name)
		return err
	}
	panic("confine: unknown method " + o.M)
}

func confineRunDirfs(c confineCase) []Step {
	t := confineNewTree()
	defer t.remove()
	f := apkfs.DirFS(t.root)
	if f == nil {
		panic("confine: DirFS returned nil")
	}
	des := []string{t.root}
	var res, descs, lines []string
	tags := []string{}
	before := t.snapshot(des)
	anyEffect := false
	for _, o := range c.Ops {
		err := confineApply(t, f, o)
		after := t.snapshot(des)
		d := confineDiff(before, after)
		before = after
		cl := confineErrClass(err)
		res = append(res, cl+"/"+strings.Join(d, ","))
		descs = append(descs, o.desc()+"="+cl+fmt.Sprint(d))
		lines = append(lines, o.line())
		tags = append(tags, "dirfs:"+o.M+":"+cl)
		if len(d) > 0 {
			anyEffect = true
			tags = append(tags, "dirfs-escape:"+o.M)
		}
	}
	goOut := strings.Join(res, ";")
	if anyEffect {
		tags = append(tags, "dirfs:outside-effect")
	}
	return []Step{{Line: "cf.dirfs\t" + strings.Join(lines, "\t") + "\tGO=" + goOut, Go: goOut, Desc: "dirfs(root=<top>/w/r/root): " + strings.Join(descs, "; "), Tags: tags, Mode: "verdict"}}
}

func confineRunLex(c confineCase) []Step {
	var steps []Step
	v, err := apkfs.VerifSanitizePath(c.Base, c.P)
	g := confineOptS("tainted", v, err)
	steps = append(steps, Step{Line: "cf.san\t" + hx(c.Base) + "\t" + hx(c.P), Go: g, Desc: fmt.Sprintf("sanitizePath(%q, %q) = %s %q", c.Base, c.P, g[:2], v), Tags: []string{"san:" + g[:2]}})
	// tc.*: the same call against the regenerated translation of the Go function (extract/trans.go)
	steps = append(steps, Step{Line: "tc.san\t" + hx(c.Base) + "\t" + hx(c.P), Go: g, Desc: fmt.Sprintf("translated sanitizePath(%q, %q) = %s %q", c.Base, c.P, g[:2], v), Tags: []string{"tc.san:" + g[:2]}})
	v, err = apk.VerifSanitizeArchivePath(c.Base, c.P)
	g = confineOptS("tainted", v, err)
	steps = append(steps, Step{Line: "cf.arch\t" + hx(c.Base) + "\t" + hx(c.P), Go: g, Desc: fmt.Sprintf("sanitizeArchivePath(%q, %q) = %s %q", c.Base, c.P, g[:2], v), Tags: []string{"arch:" + g[:2]}})
	steps = append(steps, Step{Line: "tc.arch\t" + hx(c.Base) + "\t" + hx(c.P), Go: g, Desc: fmt.Sprintf("translated sanitizeArchivePath(%q, %q) = %s %q", c.Base, c.P, g[:2], v), Tags: []string{"tc.arch:" + g[:2]}})
	return steps
}

func confineRunURL(c confineCase) []Step {
	u, err := url.Parse(c.URL)
	if err != nil {
		return []Step{{Line: "cf.keyname\t" + hx("x"), Go: "ok", Desc: "unparsable url " + c.URL, Trivial: true, Tags: []string{"url:unparsable"}}}
	}
	// esc = url.QueryEscape(u2.String()) as cachePathFromURL computes it (the URL library is a parameter of the model)
	u2 := *u
	u2.ForceQuery, u2.RawFragment, u2.RawQuery = false, "", ""
	u2.Path = filepath.Dir(filepath.Dir(u2.Path))
	esc := url.QueryEscape(u2.String())
	escSafe := esc != "" && !strings.Contains(esc, "/") && esc != "." && esc != ".."
	v, err := apk.VerifCachePathFromURL(c.Root, *u)
	g := confineOptS("err", v, err)
	tags := []string{"url:" + g[:2], fmt.Sprintf("url-esc-safe:%v", escSafe)}
	steps := []Step{{Line: "cf.url\t" + hx(c.Root) + "\t" + hx(u.Path) + "\t" + hx(esc), Go: g, Desc: fmt.Sprintf("cachePathFromURL(%q, %q) = %s %q", c.Root, c.URL, g[:2], v), Tags: tags}}
	if u.Scheme != "" && !escSafe {
		// the stated property of QueryEscape on a URL with a scheme
		steps = append(steps, Step{Line: "cf.effect\tqueryescape-unsafe\t0\t" + hx(esc), Go: "-", Mode: "verdict", NoImpl: true, Desc: fmt.Sprintf("QueryEscape(%q) = %q is not a safe single path component", u2.String(), esc)})
	}
	return steps
}

func confineRunEtag(c confineCase) []Step {
	resp := &http.Response{Header: http.Header{}}
	switch c.Hdr {
	case "empty":
		resp.Header["Etag"] = []string{}
	case "val":
		resp.Header["Etag"] = []string{c.Value}
	}
	e, ok := apk.VerifEtagFromResponse(resp)
	g := "none"
	if ok {
		g = "ok " + hx(e)
	}
	steps := []Step{{Line: "cf.etag\t" + c.Hdr + "\t" + hx(c.Value), Go: g, Desc: fmt.Sprintf("etagFromResponse(%s %q) = %q", c.Hdr, c.Value, e), Tags: []string{"etag:" + g[:2]}}}
	// the file name derived from it, and from the raw value (what a missing encoding step would use)
	for _, et := range []string{e, c.Value} {
		v, err := apk.VerifCacheFileFromEtag(c.File, et)
		g := confineOptS("err", v, err)
		steps = append(steps, Step{Line: "cf.etagfile\t" + hx(c.File) + "\t" + hx(et), Go: g, Desc: fmt.Sprintf("cacheFileFromEtag(%q, %q) = %s %q", c.File, et, g[:2], v), Tags: []string{"etagfile:" + g[:2]}})
		steps = append(steps, Step{Line: "tc.etagfile\t" + hx(c.File) + "\t" + hx(et), Go: g, Desc: fmt.Sprintf("translated cacheFileFromEtag(%q, %q) = %s %q", c.File, et, g[:2], v), Tags: []string{"tc.etagfile:" + g[:2]}})
	}
	return steps
}

func confineRunKey(c confineCase) []Step {
	var steps []Step
	for _, n := range c.Names {
		_, err := apk.VerifParseRepositoryIndex(context.Background(), "https://repo.test/x86_64/APKINDEX.tar.gz", map[string][]byte{n: []byte("k")}, "x86_64", []byte("not an index"), false, nil)
		g := "ok"
		if err != nil && strings.Contains(err.Error(), "invalid keyname") {
			g = "reject"
		}
		steps = append(steps, Step{Line: "cf.keyname\t" + hx(n), Go: g, Desc: fmt.Sprintf("parseRepositoryIndex key name %q: %s", n, g), Tags: []string{"keyname:" + g}})
	}
	return steps
}

// confineWithTmp points TMPDIR at the tree's designated tmp directory while fn runs
func confineWithTmp(t *confineTree, fn func()) {
	old, had := os.LookupEnv("TMPDIR")
	os.Setenv("TMPDIR", t.tmp)
	defer func() {
		if had {
			os.Setenv("TMPDIR", old)
		} else {
			os.Unsetenv("TMPDIR")
		}
	}()
	fn()
}

func confineEffectStep(why string, lexical bool, d []string, desc string, tags []string) Step {
	lx := "0"
	if lexical {
		lx = "1"
	}
	v := "pass"
	if len(d) > 0 {
		v = "fail:" + why
		tags = append(tags, why+":outside-effect")
	}
	return Step{Line: "cf.effect\t" + why + "\t" + lx + "\t" + strings.Join(d, ","), Go: v, Desc: desc + " outside-effects=" + fmt.Sprint(d), Tags: tags, Mode: "verdict", NoImpl: true}
}

// lexically clean = the name stays inside the root when joined to it
func confineLexOK(base, name string) bool {
	v := filepath.Join(base, name)
	return v == base || strings.HasPrefix(v, base+"/")
}

func confineRunInstall(c confineCase) []Step {
	t := confineNewTree()
	defer t.remove()
	files := make([]SFile, len(c.Files))
	lexical := true
	var names []string
	for i, f := range c.Files {
		f.Path, f.Link = t.subst(f.Path), t.subst(f.Link)
		files[i] = f
		names = append(names, fmt.Sprintf("%s %q->%q", f.Type, c.Files[i].Path, c.Files[i].Link))
		if !confineLexOK(t.root, f.Path) || (f.Type == "hardlink" && !confineLexOK(t.root, f.Link)) {
			lexical = false
		}
	}
	var repo *SRepo
	func() {
		// archive/tar refuses a few names outright (trailing slash on a file, empty name): nothing to install then
		defer func() { recover() }()
		repo = BuildSynthRepo([]SPkg{{Name: "hostile", Version: "1.0-r0", Files: files}}, []string{"x86_64"})
	}()
	if repo == nil {
		return []Step{{Line: "cf.effect\tinstall\t0\t", Go: "pass", Mode: "verdict", NoImpl: true, Trivial: true, Desc: "archive/tar cannot encode: " + strings.Join(names, ", "), Tags: []string{"install:unencodable"}}}
	}
	keyPath := repo.WriteTo(t.repo)
	des := t.designated()
	before := t.snapshot(des)
	var ierr error
	confineWithTmp(t, func() {
		apk.VerifResetGlobalCaches()
		ctx := context.Background()
		fsys := apkfs.DirFS(t.root)
		a, err := apk.New(apk.WithFS(fsys), apk.WithArch("x86_64"), apk.WithIgnoreMknodErrors(true))
		confineMust(err)
		confineMust(a.InitDB(ctx))
		confineMust(a.InitKeyring(ctx, []string{keyPath}, nil))
		confineMust(a.SetRepositories(ctx, []string{t.repo}))
		confineMust(a.SetWorld(ctx, []string{"hostile"}))
		now := time.Unix(0, 0)
		_, ierr = a.FixateWorld(ctx, &now)
	})
	d := confineDiff(before, t.snapshot(des))
	tags := []string{"install:" + confineErrClass(ierr), fmt.Sprintf("install-lexical:%v", lexical)}
	return []Step{confineEffectStep("install", lexical, d, "install onto DirFS: "+strings.Join(names, ", ")+" => "+confineErrClass(ierr), tags)}
}

func confineRunTransport(c confineCase) []Step {
	t := confineNewTree()
	defer t.remove()
	repo := BuildSynthRepo([]SPkg{{Name: "p", Version: "1.0-r0"}}, []string{"x86_64"})
	body := repo.Files["x86_64/APKINDEX.tar.gz"]
	st := &SynthTransport{Repo: repo, NoTag: c.Hdr == "noetag"}
	st.Hook = func(req *http.Request, _ []byte) (*http.Response, bool) {
		resp := &http.Response{StatusCode: 200, Status: "200 OK", Proto: "HTTP/1.1", ProtoMajor: 1, ProtoMinor: 1, Header: http.Header{},
			Body: io.NopCloser(strings.NewReader(string(body))), ContentLength: int64(len(body)), Request: req}
		if c.Hdr != "noetag" {
			resp.Header["Etag"] = []string{t.subst(c.Value)}
		}
		if req.Method == http.MethodHead {
			resp.Body = io.NopCloser(strings.NewReader(""))
		}
		return resp, true
	}
	des := t.designated()
	before := t.snapshot(des)
	var gerr error
	got := ""
	confineWithTmp(t, func() {
		cl := apk.VerifCacheClient(t.cache, false, apk.NewCache(true), &http.Client{Transport: st}, true)
		req, err := http.NewRequest(http.MethodGet, "https://repo.test"+t.subst(c.URL), nil)
		if err != nil {
			gerr = err
			return
		}
		resp, err := cl.Do(req)
		gerr = err
		if err == nil {
			b, _ := io.ReadAll(resp.Body)
			resp.Body.Close()
			if string(b) == string(body) {
				got = "body-ok"
			} else {
				got = "body-differs"
			}
		}
	})
	d := confineDiff(before, t.snapshot(des))
	tags := []string{"transport:" + confineErrClass(gerr) + ":" + got}
	steps := []Step{confineEffectStep("transport", false, d, fmt.Sprintf("cache transport GET %q etag %s %q => %s %s", c.URL, c.Hdr, c.Value, confineErrClass(gerr), got), tags)}
	if gerr == nil && got != "body-ok" {
		steps = append(steps, Step{Line: "cf.effect\ttransport-body\t0\tbody", Go: "fail:transport-body", Mode: "verdict", NoImpl: true, Desc: "cached response differs from the served body"})
	}
	return steps
}

func confineRunKeyring(c confineCase) []Step {
	t := confineNewTree()
	defer t.remove()
	repo := BuildSynthRepo([]SPkg{{Name: "p", Version: "1.0-r0"}}, []string{"x86_64"})
	repo.WriteTo(t.repo)
	os.MkdirAll(filepath.Join(t.repo, "sub"), 0o755)
	st := &SynthTransport{Repo: repo}
	name := t.subst(c.Names[0])
	name = strings.ReplaceAll(name, "{REPO}", t.repo)
	jwk := confineJWKS(name)
	st.Hook = func(req *http.Request, _ []byte) (*http.Response, bool) {
		mk := func(code int, b string) *http.Response {
			return &http.Response{StatusCode: code, Status: fmt.Sprintf("%d %s", code, http.StatusText(code)), Proto: "HTTP/1.1", ProtoMajor: 1, ProtoMinor: 1, Header: http.Header{"Etag": []string{`"k1"`}},
				Body: io.NopCloser(strings.NewReader(b)), ContentLength: int64(len(b)), Request: req}
		}
		switch {
		case strings.HasSuffix(req.URL.Path, "/apk-configuration"):
			return mk(200, `{"jwks_uri":"https://repo.test/jwks"}`), true
		case req.URL.Path == "/jwks":
			return mk(200, jwk), true
		case strings.HasPrefix(req.URL.Path, "/keys/") || req.URL.Path == "/":
			if req.Method == http.MethodHead {
				return mk(200, ""), true
			}
			return mk(200, string(repo.KeyPEM)), true
		}
		return mk(404, "not found"), true
	}
	des := t.designated()
	before := t.snapshot(des)
	var kerr error
	confineWithTmp(t, func() {
		apk.VerifResetGlobalCaches()
		ctx := context.Background()
		fsys := apkfs.DirFS(t.root)
		a, err := apk.New(apk.WithFS(fsys), apk.WithArch("x86_64"), apk.WithIgnoreMknodErrors(true), apk.WithTransport(st), apk.WithCache(t.cache, false, apk.NewCache(true)))
		confineMust(err)
		if c.Hdr == "discover" {
			kerr = a.InitDB(ctx, "https://repo.test/r")
		} else {
			confineMust(a.InitDB(ctx))
			kerr = a.InitKeyring(ctx, []string{name}, nil)
		}
	})
	d := confineDiff(before, t.snapshot(des))
	lexical := true
	if c.Hdr == "discover" {
		lexical = confineLexOK(t.root, filepath.Join("etc/apk/keys", name+".rsa.pub"))
	}
	tags := []string{"keyring:" + c.Hdr + ":" + confineErrClass(kerr)}
	steps := []Step{confineEffectStep("keyring", lexical, d, fmt.Sprintf("%s key name %q => %s", c.Hdr, c.Names[0], confineErrClass(kerr)), tags)}
	// which file did the key land in?  (the model's naming function against the real tree)
	var landed []string
	filepath.WalkDir(t.root, func(p string, de fs.DirEntry, err error) error {
		if err == nil && de.Type().IsRegular() {
			if b, err := os.ReadFile(p); err == nil && strings.Contains(string(b), "PUBLIC KEY") {
				rel, _ := filepath.Rel(t.root, p)
				landed = append(landed, rel)
			}
		}
		return nil
	})
	if c.Hdr == "initkeyring" && kerr == nil && len(landed) == 1 {
		steps = append(steps, Step{Line: "cf.keyfile\t" + hx(confineModelStr(strings.ReplaceAll(c.Names[0], "{REPO}", "/T/repo"))), Go: hx(landed[0]), Desc: fmt.Sprintf("InitKeyring(%q) stored the key in %q", c.Names[0], landed[0]), Tags: []string{"keyfile:landed"}})
	}
	if c.Hdr == "discover" && kerr == nil && len(landed) == 1 {
		steps = append(steps, Step{Line: "cf.cgkey\t" + hx(confineModelStr(c.Names[0])), Go: hx(landed[0]), Desc: fmt.Sprintf("discovered key kid=%q stored in %q", c.Names[0], landed[0]), Tags: []string{"cgkey:landed"}})
	}
	return steps
}

func (confineSuite) Run(raw json.RawMessage) []Step {
	var c confineCase
	if err := json.Unmarshal(raw, &c); err != nil {
		panic(err)
	}
	switch c.Kind {
	case "lex":
		return confineRunLex(c)
	case "dirfs":
		return confineRunDirfs(c)
	case "url":
		return confineRunURL(c)
	case "etag":
		return confineRunEtag(c)
	case "key":
		return confineRunKey(c)
	case "install":
		return confineRunInstall(c)
	case "transport":
		return confineRunTransport(c)
	case "keyring":
		return confineRunKeyring(c)
	case "cmd":
		return confineRunCmd(c)
	case "archname":
		return confineRunArchName(c)
	case "pkgrec":
		return confineRunPkgRec(c)
	case "pkgcache":
		return confineRunPkgCache(c)
	}
	panic("confine: unknown kind " + c.Kind)
}
