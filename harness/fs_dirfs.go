package main

import (
	"fmt"
	"io/fs"
	"os"
	"path/filepath"
	"sort"
	"strings"

	apkfs "chainguard.dev/apko/pkg/apk/fs"
)

// DirFS (directory on disk + in-memory overlay) is checked against the property's own oracles
// rather than against a model of the host file system: after every operation
//   - atomic:  an operation that reported failure left the observable tree unchanged,
//   - echo:    what was just set reads back (content, link target, permission bits, xattr, kind),
//   - listing: ReadDir is sorted, duplicate-free and agrees with Lstat of every entry.
// The alphabet stays inside the envelope in which disk and overlay resolve names alike (relative
// link targets without dot-dot, clean relative paths).

var dfDirs = []string{"a", "a/b", "c", "a/b/c"}
var dfFiles = []string{"f", "a/f", "a/b/g", "c/f", "c/h"}
var dfLinks = []string{"l", "a/l", "c/k"}
var dfTargets = []string{"a", "f", "a/b", "b", "g", "x", "c/f", "l"}

func dfPath(r *Rng) string {
	switch k := r.Intn(10); {
	case k < 3:
		return Pick(r, dfDirs)
	case k < 7:
		return Pick(r, dfFiles)
	case k < 9:
		return Pick(r, dfLinks)
	default:
		return Pick(r, []string{"l/f", "l/b/g", "a/l/g", "c/k/f"})
	}
}

func genDirfsCase(r *Rng) fsCase {
	c := fsCase{Backend: "dirfs", Kind: "dirfs"}
	c.Ops = append(c.Ops, fsOp{K: "mkdirall", P: "a/b", N: 0o755})
	n := r.Range(6, 30)
	for len(c.Ops) < n {
		p := dfPath(r)
		switch k := r.Intn(100); {
		case k < 12:
			c.Ops = append(c.Ops, fsOp{K: "mkdir", P: Pick(r, dfDirs), N: Pick(r, []int{0o755, 0o700})})
		case k < 20:
			c.Ops = append(c.Ops, fsOp{K: "mkdirall", P: Pick(r, append(append([]string{}, dfDirs...), p)), N: 0o755})
		case k < 40:
			c.Ops = append(c.Ops, fsOp{K: "writefile", P: Pick(r, append(append([]string{}, dfFiles...), p)), D: Pick(r, fsData), N: Pick(r, []int{0o644, 0o600, 0o755})})
		case k < 50:
			c.Ops = append(c.Ops, fsOp{K: "symlink", P: Pick(r, dfLinks), Q: Pick(r, dfTargets)})
		case k < 56:
			c.Ops = append(c.Ops, fsOp{K: "link", P: Pick(r, dfFiles), Q: Pick(r, dfFiles)})
		case k < 68:
			c.Ops = append(c.Ops, fsOp{K: "remove", P: p})
		case k < 76:
			c.Ops = append(c.Ops, fsOp{K: "chmod", P: p, N: Pick(r, []int{0o644, 0o600, 0o755, 0o700, 1<<23 | 0o755, 1<<22 | 0o775, 1<<20 | 0o777, 1<<23 | 1<<22 | 0o750})})
		case k < 82:
			c.Ops = append(c.Ops, fsOp{K: "setxattr", P: p, Q: Pick(r, fsAttrs), D: Pick(r, fsData)})
		case k < 88:
			c.Ops = append(c.Ops, fsOp{K: "readfile", P: p})
		case k < 94:
			c.Ops = append(c.Ops, fsOp{K: "readdir", P: Pick(r, append(append([]string{}, dfDirs...), ".", p))})
		default:
			c.Ops = append(c.Ops, fsOp{K: "stat", P: p})
		}
	}
	return c
}

// snapshot of everything observable through the public API
func dfSnapshot(f apkfs.FullFS) string {
	var out []string
	var walk func(dir string, depth int)
	walk = func(dir string, depth int) {
		if depth > 8 {
			return
		}
		des, err := f.ReadDir(dir)
		if err != nil {
			out = append(out, dir+"!readdir:"+fsErr(err))
			return
		}
		for _, de := range des {
			p := de.Name()
			if dir != "." {
				p = dir + "/" + de.Name()
			}
			line := p + " type=" + fmt.Sprint(uint32(de.Type()))
			if fi, err := de.Info(); err == nil {
				line += fmt.Sprintf(" perm=%o", fi.Mode().Perm())
			} else {
				line += " info!" + fsErr(err)
			}
			switch {
			case de.Type()&fs.ModeSymlink != 0:
				t, err := f.Readlink(p)
				line += " -> " + t + " " + fsErr(err)
			case de.IsDir():
			default:
				b, err := f.ReadFile(p)
				line += " data=" + hx(string(b)) + " " + fsErr(err)
			}
			if m, err := f.ListXattrs(p); err == nil && de.Type()&fs.ModeSymlink == 0 {
				line += " x=" + fsKV(m)
			}
			out = append(out, line)
			if de.IsDir() && de.Type()&fs.ModeSymlink == 0 {
				walk(p, depth+1)
			}
		}
	}
	walk(".", 0)
	return strings.Join(out, "\n")
}

func runDirfsCase(c fsCase) []Step {
	w := newWorld("dirfs")
	defer os.RemoveAll(filepath.Dir(w.dir))
	var steps []Step
	var descs []string
	f := w.base
	for _, o := range c.Ops {
		before := dfSnapshot(f)
		r := w.apply(o)
		after := dfSnapshot(f)
		descs = append(descs, o.desc()+"="+r)
		verdict := "pass"
		failed := len(r) > 0 && r[0] >= 'A' && r[0] <= 'Z'
		switch {
		case failed && before != after:
			verdict = "fail:atomic"
		case failed:
		case o.K == "writefile":
			if b, err := f.ReadFile(o.P); err != nil || string(b) != o.D {
				verdict = "fail:echo-content"
			}
		case o.K == "symlink":
			if t, err := f.Readlink(o.P); err != nil || t != o.Q {
				verdict = "fail:echo-link"
			}
		case o.K == "mkdir" || o.K == "mkdirall":
			if fi, err := f.Stat(o.P); err != nil || !fi.IsDir() {
				verdict = "fail:echo-dir"
			}
		case o.K == "chmod":
			// permission bits and set-user-ID / set-group-ID / sticky, through Stat and through the directory listing
			const keep = fs.ModePerm | fs.ModeSetuid | fs.ModeSetgid | fs.ModeSticky
			if fi, err := f.Stat(o.P); err != nil || fi.Mode()&keep != fs.FileMode(o.N)&keep {
				verdict = "fail:echo-mode"
			} else if des, err := f.ReadDir(filepath.Dir(o.P)); err == nil {
				for _, de := range des {
					if de.Name() == filepath.Base(o.P) {
						if i2, err := de.Info(); err != nil || (i2.Mode()&fs.ModeSymlink == 0 && i2.Mode()&keep != fs.FileMode(o.N)&keep) {
							verdict = "fail:echo-mode-readdir"
						}
					}
				}
			}
		case o.K == "setxattr":
			if b, err := f.GetXattr(o.P, o.Q); err != nil || string(b) != o.D {
				verdict = "fail:echo-xattr"
			}
		case o.K == "remove":
			if _, err := f.Readlink(o.P); err == nil {
				verdict = "fail:echo-remove"
			} else if _, err := f.ReadDir(o.P); err == nil {
				verdict = "fail:echo-remove"
			}
		case o.K == "link":
			a, e1 := f.ReadFile(o.P)
			b, e2 := f.ReadFile(o.Q)
			if e1 != nil || e2 != nil || string(a) != string(b) {
				verdict = "fail:echo-hardlink"
			}
		case o.K == "readdir":
			des, _ := f.ReadDir(o.P)
			names := make([]string, len(des))
			for i, de := range des {
				names[i] = de.Name()
			}
			if !sort.StringsAreSorted(names) {
				verdict = "fail:listing-order"
			}
			for i := 1; i < len(names); i++ {
				if names[i] == names[i-1] {
					verdict = "fail:listing-dup"
				}
			}
		}
		why := strings.TrimPrefix(verdict, "fail:")
		steps = append(steps, Step{
			Line:   "fs.dirfs\t" + o.K + "\t" + why + "\t" + r,
			Go:     verdict,
			Desc:   "dirfs: " + strings.Join(descs, "; "),
			Tags:   []string{"dirfs:" + o.K + ":" + dfShort(r), "backend:dirfs"},
			Mode:   "oracle-go",
			GoSpec: verdict,
			NoImpl: true,
		})
		if verdict == "fail:atomic" {
			// overlay and disk have diverged (F17f): what follows is a consequence, not a new observation
			break
		}
	}
	return steps
}

func dfShort(r string) string {
	if len(r) > 0 && r[0] >= 'A' && r[0] <= 'Z' {
		if i := strings.IndexByte(r, ':'); i >= 0 {
			return r[:i]
		}
		return r
	}
	if len(r) > 1 {
		return r[:1]
	}
	return r
}
