package main

import (
	"fmt"
	"io/fs"
	"os"
	"path/filepath"
	"sort"
	"strings"
	"syscall"

	apkfs "chainguard.dev/apko/pkg/apk/fs"
)

// DirFS (directory on disk + in-memory overlay) is checked against the property's own oracles
// rather than against a model of the host file system: after every operation
//   - atomic:  an operation that reported failure left the observable tree unchanged,
//   - echo:    what was just set reads back (content, link target, permission bits, xattr, kind),
//   - listing: ReadDir is sorted, duplicate-free and agrees with Lstat of every entry.
// The alphabet stays inside the envelope in which disk and overlay resolve names alike (relative
// link targets without dot-dot, clean relative paths).

var dfDirs = []string{"a", "a/b", "c", "a/b/c"}
var dfFiles = []string{"f", "a/f", "a/b/g", "c/f", "c/h"}
var dfLinks = []string{"l", "a/l", "c/k"}
var dfTargets = []string{"a", "f", "a/b", "b", "g", "x", "c/f", "l"}

func dfPath(r *Rng) string {
	switch k := r.Intn(10); {
	case k < 3:
		return Pick(r, dfDirs)
	case k < 7:
		return Pick(r, dfFiles)
	case k < 9:
		return Pick(r, dfLinks)
	default:
		return Pick(r, []string{"l/f", "l/b/g", "a/l/g", "c/k/f"})
	}
}

func genDirfsCase(r *Rng) fsCase {
	c := fsCase{Backend: "dirfs", Kind: "dirfs"}
	c.Ops = append(c.Ops, fsOp{K: "mkdirall", P: "a/b", N: 0o755})
	n := r.Range(6, 30)
	for len(c.Ops) < n {
		p := dfPath(r)
		switch k := r.Intn(100); {
		case k < 12:
			c.Ops = append(c.Ops, fsOp{K: "mkdir", P: Pick(r, dfDirs), N: Pick(r, []int{0o755, 0o700})})
		case k < 20:
			c.Ops = append(c.Ops, fsOp{K: "mkdirall", P: Pick(r, append(append([]string{}, dfDirs...), p)), N: 0o755})
		case k < 40:
			c.Ops = append(c.Ops, fsOp{K: "writefile", P: Pick(r, append(append([]string{}, dfFiles...), p)), D: Pick(r, fsData), N: Pick(r, []int{0o644, 0o600, 0o755})})
		case k < 50:
			c.Ops = append(c.Ops, fsOp{K: "symlink", P: Pick(r, dfLinks), Q: Pick(r, dfTargets)})
		case k < 56:
			c.Ops = append(c.Ops, fsOp{K: "link", P: Pick(r, dfFiles), Q: Pick(r, dfFiles)})
		case k < 68:
			c.Ops = append(c.Ops, fsOp{K: "remove", P: p})
		case k < 76:
			c.Ops = append(c.Ops, fsOp{K: "chmod", P: p, N: Pick(r, []int{0o644, 0o600, 0o755, 0o700, 1<<23 | 0o755, 1<<22 | 0o775, 1<<20 | 0o777, 1<<23 | 1<<22 | 0o750})})
		case k < 82:
			c.Ops = append(c.Ops, fsOp{K: "setxattr", P: p, Q: Pick(r, fsAttrs), D: Pick(r, fsData)})
		case k < 88:
			c.Ops = append(c.Ops, fsOp{K: "readfile", P: p})
		case k < 94:
			c.Ops = append(c.Ops, fsOp{K: "readdir", P: Pick(r, append(append([]string{}, dfDirs...), ".", p))})
		default:
			c.Ops = append(c.Ops, fsOp{K: "stat", P: p})
		}
	}
	return c
}

// snapshot of everything observable through the public API
func dfSnapshot(f apkfs.FullFS) string {
	var out []string
	var walk func(dir string, depth int)
	walk = func(dir string, depth int) {
		if depth > 8 {
			return
		}
		des, err := f.ReadDir(dir)
		if err != nil {
			out = append(out, dir+"!readdir:"+fsErr(err))
			return
		}
		for _, de := range des {
			p := de.Name()
			if dir != "." {
				p = dir + "/" + de.Name()
			}
			line := p + " type=" + fmt.Sprint(uint32(de.Type()))
			if fi, err := de.Info(); err == nil {
				line += fmt.Sprintf(" perm=%o", fi.Mode().Perm())
			} else {
				line += " info!" + fsErr(err)
			}
			switch {
			case de.Type()&fs.ModeSymlink != 0:
				t, err := f.Readlink(p)
				line += " -> " + t + " " + fsErr(err)
			case de.IsDir():
			default:
				b, err := f.ReadFile(p)
				line += " data=" + hx(string(b)) + " " + fsErr(err)
			}
			if m, err := f.ListXattrs(p); err == nil && de.Type()&fs.ModeSymlink == 0 {
				line += " x=" + fsKV(m)
			}
			out = append(out, line)
			if de.IsDir() && de.Type()&fs.ModeSymlink == 0 {
				walk(p, depth+1)
			}
		}
	}
	walk(".", 0)
	return strings.Join(out, "\n")
}

func runDirfsCase(c fsCase) []Step {
	w := newWorld("dirfs")
	defer os.RemoveAll(filepath.Dir(w.dir))
	var steps []Step
	var descs []string
	f := w.base
	for _, o := range c.Ops {
		before := dfSnapshot(f)
		r := w.apply(o)
		after := dfSnapshot(f)
		descs = append(descs, o.desc()+"="+r)
		verdict := "pass"
		failed := len(r) > 0 && r[0] >= 'A' && r[0] <= 'Z'
		switch {
		case failed && before != after:
			verdict = "fail:atomic"
		case failed:
		case o.K == "writefile":
			if b, err := f.ReadFile(o.P); err != nil || string(b) != o.D {
				verdict = "fail:echo-content"
			}
		case o.K == "symlink":
			if t, err := f.Readlink(o.P); err != nil || t != o.Q {
				verdict = "fail:echo-link"
			}
		case o.K == "mkdir" || o.K == "mkdirall":
			if fi, err := f.Stat(o.P); err != nil || !fi.IsDir() {
				verdict = "fail:echo-dir"
			}
		case o.K == "chmod":
			// permission bits and set-user-ID / set-group-ID / sticky, through Stat and through the directory listing
			const keep = fs.ModePerm | fs.ModeSetuid | fs.ModeSetgid | fs.ModeSticky
			if fi, err := f.Stat(o.P); err != nil || fi.Mode()&keep != fs.FileMode(o.N)&keep {
				verdict = "fail:echo-mode"
			} else if des, err := f.ReadDir(filepath.Dir(o.P)); err == nil {
				for _, de := range des {
					if de.Name() == filepath.Base(o.P) {
						if i2, err := de.Info(); err != nil || (i2.Mode()&fs.ModeSymlink == 0 && i2.Mode()&keep != fs.FileMode(o.N)&keep) {
							verdict = "fail:echo-mode-readdir"
						}
					}
				}
			}
		case o.K == "setxattr":
			if b, err := f.GetXattr(o.P, o.Q); err != nil || string(b) != o.D {
				verdict = "fail:echo-xattr"
			}
		case o.K == "remove":
			if _, err := f.Readlink(o.P); err == nil {
				verdict = "fail:echo-remove"
			} else if _, err := f.ReadDir(o.P); err == nil {
				verdict = "fail:echo-remove"
			}
		case o.K == "link":
			a, e1 := f.ReadFile(o.P)
			b, e2 := f.ReadFile(o.Q)
			if e1 != nil || e2 != nil || string(a) != string(b) {
				verdict = "fail:echo-hardlink"
			}
		case o.K == "readdir":
			des, _ := f.ReadDir(o.P)
			names := make([]string, len(des))
			for i, de := range des {
				names[i] = de.Name()
			}
			if !sort.StringsAreSorted(names) {
				verdict = "fail:listing-order"
			}
			for i := 1; i < len(names); i++ {
				if names[i] == names[i-1] {
					verdict = "fail:listing-dup"
				}
			}
		}
		why := strings.TrimPrefix(verdict, "fail:")
		steps = append(steps, Step{
			Line:   "fs.dirfs\t" + o.K + "\t" + why + "\t" + r,
			Go:     verdict,
			Desc:   "dirfs: " + strings.Join(descs, "; "),
			Tags:   []string{"dirfs:" + o.K + ":" + dfShort(r), "backend:dirfs"},
			Mode:   "oracle-go",
			GoSpec: verdict,
			NoImpl: true,
		})
		if verdict == "fail:atomic" {
			// overlay and disk have diverged (F17f): what follows is a consequence, not a new observation
			break
		}
	}
	return steps
}

func dfShort(r string) string {
	if len(r) > 0 && r[0] >= 'A' && r[0] <= 'Z' {
		if i := strings.IndexByte(r, ':'); i >= 0 {
			return r[:i]
		}
		return r
	}
	if len(r) > 1 {
		return r[:1]
	}
	return r
}

// ---------------------------------------------------------------------------------------------
// kind dirfs-hl: hard-link groups on DirFS against the Lean file-system model.
//
// Inside the envelope below DirFS must be observationally the model's memfs (which keeps content in the
// inode, so every name of an inode reads what was last written through any of them): directories and
// regular files only (no symbolic links, no dotted names, no directory is removed), permissions that
// leave the files readable, at most one open handle at a time (opened, written sequentially, closed).
// Every write path is exercised on names that have other names: WriteFile on an existing name,
// OpenFile + Write (with and without O_TRUNC / O_APPEND), Create.  After every group of operations
//   - hl:       the view ON DISK of every name of the alphabet (os.Lstat / os.SameFile / Nlink / os.ReadFile
//               of the disk paths) must be the model's link structure: which names share an inode, how many
//               names the inode has, its size and bytes;
//   - readfile / stat of every name through the FS interface must be the model's answer.
// Results are compared as values (Go = Impl = Spec); errors are compared as "failed" (the host's errno for
// a failed call is not modelled), which makes failure atomicity part of the comparison: the model's failed
// operations change nothing, and everything observable is read back after them.

var hlFiles = []string{"f", "a/f", "a/b/g", "c/f", "c/h"}
var hlExtra = []string{"h1", "a/h2", "c/h3", "a/b/h4"}
var hlNames = append(append([]string{}, hlFiles...), hlExtra...)
var hlWriteFlags = []int{os.O_WRONLY, os.O_RDWR, os.O_WRONLY | os.O_TRUNC, os.O_RDWR | os.O_TRUNC, os.O_RDWR | os.O_CREATE,
	os.O_WRONLY | os.O_CREATE | os.O_TRUNC, os.O_WRONLY | os.O_APPEND, os.O_RDWR | os.O_APPEND | os.O_CREATE}

func genDirfsHLCase(r *Rng) fsCase {
	c := fsCase{Backend: "dirfs", Kind: "dirfs-hl"}
	c.Ops = append(c.Ops, fsOp{K: "mkdirall", P: "a/b", N: 0o755})
	if r.Chance(80) {
		c.Ops = append(c.Ops, fsOp{K: "mkdir", P: "c", N: 0o755})
	}
	probe := func() {
		c.Ops = append(c.Ops, fsOp{K: "hl", D: strings.Join(hlNames, ",")})
		for _, p := range hlNames {
			c.Ops = append(c.Ops, fsOp{K: "readfile", P: p}, fsOp{K: "stat", P: p})
		}
	}
	// most sequences start with a file that has a second name
	if r.Chance(70) {
		old := Pick(r, hlFiles)
		c.Ops = append(c.Ops, fsOp{K: "writefile", P: old, D: Pick(r, fsData), N: 0o644}, fsOp{K: "link", P: Pick(r, hlExtra), Q: old})
		probe()
	}
	groups := r.Range(4, 14)
	for g := 0; g < groups; g++ {
		p := Pick(r, hlNames)
		switch k := r.Intn(100); {
		case k < 30:
			c.Ops = append(c.Ops, fsOp{K: "writefile", P: p, D: Pick(r, fsData), N: Pick(r, []int{0o644, 0o600, 0o755})})
		case k < 50:
			c.Ops = append(c.Ops, fsOp{K: "link", P: Pick(r, hlNames), Q: Pick(r, append(append([]string{}, hlNames...), "a", "nope"))})
		case k < 72:
			h := countOpens(c.Ops)
			c.Ops = append(c.Ops, fsOp{K: "open", P: p, M: Pick(r, hlWriteFlags), N: Pick(r, []int{0o644, 0o600})})
			for j := r.Range(0, 2); j > 0; j-- {
				c.Ops = append(c.Ops, fsOp{K: "write", H: h, D: Pick(r, fsData)})
			}
			c.Ops = append(c.Ops, fsOp{K: "close", H: h})
		case k < 80:
			h := countOpens(c.Ops)
			c.Ops = append(c.Ops, fsOp{K: "create", P: p})
			if r.Bool() {
				c.Ops = append(c.Ops, fsOp{K: "write", H: h, D: Pick(r, fsData)})
			}
			c.Ops = append(c.Ops, fsOp{K: "close", H: h})
		case k < 86:
			h := countOpens(c.Ops)
			c.Ops = append(c.Ops, fsOp{K: "open", P: p, M: os.O_RDONLY, N: 0o644}, fsOp{K: "read", H: h, N: 100}, fsOp{K: "close", H: h})
		case k < 94:
			c.Ops = append(c.Ops, fsOp{K: "remove", P: p})
		case k < 97:
			c.Ops = append(c.Ops, fsOp{K: "chmod", P: p, N: Pick(r, []int{0o644, 0o600, 0o755, 1<<23 | 0o755})})
		default:
			c.Ops = append(c.Ops, fsOp{K: "readdir", P: Pick(r, []string{".", "a", "a/b", "c"})})
		}
		probe()
	}
	return c
}

// hlDiskView: what the host file system says about the disk paths of the names
func hlDiskView(base string, names []string) string {
	infos := make([]fs.FileInfo, len(names))
	parts := make([]string, len(names))
	for i, n := range names {
		fi, err := os.Lstat(filepath.Join(base, n))
		if err != nil || !fi.Mode().IsRegular() {
			parts[i] = "-"
			continue
		}
		infos[i] = fi
		first := i
		for j := 0; j < i; j++ {
			if infos[j] != nil && os.SameFile(infos[j], fi) {
				first = j
				break
			}
		}
		nlink := uint64(0)
		if st, ok := fi.Sys().(*syscall.Stat_t); ok {
			nlink = uint64(st.Nlink)
		}
		b, err := os.ReadFile(filepath.Join(base, n))
		if err != nil {
			parts[i] = "!" + fsErr(err)
			continue
		}
		parts[i] = fmt.Sprintf("%d:%d:%d:%s", first, nlink, fi.Size(), hx(string(b)))
	}
	return "g" + strings.Join(parts, "+")
}

func hlStat(fi fs.FileInfo, withName bool) string {
	d := "0"
	if fi.IsDir() {
		d = "1"
	}
	size := fi.Size()
	if fi.IsDir() {
		size = 0 // the size of a directory is the host's business
	}
	s := fmt.Sprintf("%d/%d/%s", size, uint32(fi.Mode()), d)
	if withName {
		s = hx(fi.Name()) + "/" + s
	}
	return s
}

func runDirfsHLCase(c fsCase) []Step {
	w := newWorld("dirfs")
	defer os.RemoveAll(filepath.Dir(w.dir))
	f := w.base
	toks := make([]string, 0, len(c.Ops))
	outs := make([]string, 0, len(c.Ops))
	var descs []string
	tags := map[string]struct{}{"backend:dirfs": {}, "kind:dirfs-hl": {}}
	shared := false // some inode has two names right now
	for _, o := range c.Ops {
		toks = append(toks, o.token())
		var r string
		switch o.K {
		case "hl":
			r = hlDiskView(w.dir, strings.Split(o.D, ","))
			shared = false
			for _, part := range strings.Split(strings.TrimPrefix(r, "g"), "+") {
				if f := strings.Split(part, ":"); len(f) == 4 && f[1] != "1" && f[1] != "0" {
					shared = true
				}
			}
		case "stat":
			if fi, err := f.Stat(o.P); err != nil {
				r = "E"
			} else {
				r = "s" + hlStat(fi, false)
			}
		case "readdir":
			if des, err := f.ReadDir(o.P); err != nil {
				r = "E"
			} else {
				var parts []string
				for _, de := range des {
					fi, err := de.Info()
					if err != nil {
						parts = append(parts, hx(de.Name())+"!")
						continue
					}
					parts = append(parts, hlStat(fi, true))
				}
				r = "e" + strings.Join(parts, "+")
			}
		default:
			r = w.apply(o)
			if len(r) > 0 && r[0] >= 'A' && r[0] <= 'Z' {
				r = "E"
			}
		}
		outs = append(outs, r)
		if o.K != "hl" && !(len(descs) > 0 && (o.K == "readfile" || o.K == "stat") && len(c.Ops) > 40 && r == "E") {
			descs = append(descs, o.desc()+"="+r)
		}
		if shared && r != "E" {
			switch o.K {
			case "writefile", "create", "remove", "link":
				tags["hl-shared:"+o.K] = struct{}{}
			case "open":
				tags[fmt.Sprintf("hl-shared:open:%#x", o.M)] = struct{}{}
			case "write":
				tags["hl-shared:write"] = struct{}{}
			}
		}
	}
	var tl []string
	for t := range tags {
		tl = append(tl, t)
	}
	sort.Strings(tl)
	desc := "dirfs (hard-link groups): " + strings.Join(descs, "; ")
	if len(desc) > 6000 {
		desc = desc[:6000] + "…"
	}
	return []Step{{
		Line: "fs.dirhl\t" + strings.Join(toks, "\t"),
		Go:   strings.Join(outs, ";"),
		Desc: desc,
		Tags: tl,
	}}
}

// ---------------------------------------------------------------------------------------------
// kind dirfs-reopen: RE-OPEN histories.  A work directory is used more than once: what one DirFS value put there
// is what the next DirFS value over the same directory must show.  The case populates the directory through one
// value (session 1), then opens a NEW DirFS over it — named by its real path, through a symbolic link to it, with
// a trailing slash, as dir/., through x/.., relative to another working directory, relative through the link —
// and observes everything: ReadDir of every directory, the disk view, ReadFile / Stat of every file name,
// Readlink / Lstat / Stat / ReadFile of every link name, Stat / Lstat of every directory; then goes on operating
// through the new value (and re-opens again in a third of the cases).  The Lean models are carried over the
// re-open (fs.dirre): the directory's content is the file system's.  Envelope: that of dirfs-hl plus symbolic links
// with relative dot-free targets at three names that no other name passes through; permissions are the nine
// permission bits only (the constructor's walk restores mode.Perm()), no xattrs / chown (kept in memory only);
// after a re-open Chmod goes to directories only (the names of one disk inode come back as separate overlay nodes).

var reDirs = []string{".", "a", "a/b", "c", "a/b/c", "d"}
var reLinks = []string{"l", "a/l", "c/k"}
var reTargets = []string{"a", "f", "a/b", "b", "g", "x", "c/f", "l", "h1", "b/g"}
var reHows = []string{"link", "link", "link", "link", "link", "rellink", "rellink", "linkslash", "real", "real", "real",
	"slash", "slash", "dot", "dot", "dotdot", "dotdot", "rel", "rel", "reldot"}

func genDirfsReopenCase(r *Rng) fsCase {
	c := fsCase{Backend: "dirfs", Kind: "dirfs-reopen"}
	c.Ops = append(c.Ops, fsOp{K: "mkdirall", P: "a/b", N: 0o755})
	if r.Chance(80) {
		c.Ops = append(c.Ops, fsOp{K: "mkdir", P: "c", N: 0o755})
	}
	light := func() {
		c.Ops = append(c.Ops, fsOp{K: "hl", D: strings.Join(hlNames, ",")})
		for _, p := range hlNames {
			c.Ops = append(c.Ops, fsOp{K: "readfile", P: p}, fsOp{K: "stat", P: p})
		}
		for _, p := range reLinks {
			c.Ops = append(c.Ops, fsOp{K: "readlink", P: p})
		}
		c.Ops = append(c.Ops, fsOp{K: "readdir", P: Pick(r, reDirs)})
	}
	full := func() {
		for _, d := range reDirs {
			c.Ops = append(c.Ops, fsOp{K: "readdir", P: d})
		}
		c.Ops = append(c.Ops, fsOp{K: "hl", D: strings.Join(hlNames, ",")})
		for _, p := range hlNames {
			c.Ops = append(c.Ops, fsOp{K: "readfile", P: p}, fsOp{K: "stat", P: p})
		}
		for _, p := range reLinks {
			c.Ops = append(c.Ops, fsOp{K: "readlink", P: p}, fsOp{K: "lstat", P: p}, fsOp{K: "stat", P: p}, fsOp{K: "readfile", P: p})
		}
		for _, d := range reDirs {
			c.Ops = append(c.Ops, fsOp{K: "stat", P: d}, fsOp{K: "lstat", P: d})
		}
	}
	group := func(session int) {
		p := Pick(r, hlNames)
		switch k := r.Intn(100); {
		case k < 22:
			c.Ops = append(c.Ops, fsOp{K: "writefile", P: p, D: Pick(r, fsData), N: Pick(r, []int{0o644, 0o600, 0o755})})
		case k < 36:
			c.Ops = append(c.Ops, fsOp{K: "link", P: Pick(r, hlNames), Q: Pick(r, append(append([]string{}, hlNames...), "a", "nope"))})
		case k < 50:
			c.Ops = append(c.Ops, fsOp{K: "symlink", P: Pick(r, reLinks), Q: Pick(r, reTargets)})
		case k < 62:
			h := countOpens(c.Ops)
			c.Ops = append(c.Ops, fsOp{K: "open", P: p, M: Pick(r, hlWriteFlags), N: Pick(r, []int{0o644, 0o600})})
			for j := r.Range(0, 2); j > 0; j-- {
				c.Ops = append(c.Ops, fsOp{K: "write", H: h, D: Pick(r, fsData)})
			}
			c.Ops = append(c.Ops, fsOp{K: "close", H: h})
		case k < 67:
			h := countOpens(c.Ops)
			c.Ops = append(c.Ops, fsOp{K: "create", P: p})
			if r.Bool() {
				c.Ops = append(c.Ops, fsOp{K: "write", H: h, D: Pick(r, fsData)})
			}
			c.Ops = append(c.Ops, fsOp{K: "close", H: h})
		case k < 71:
			h := countOpens(c.Ops)
			c.Ops = append(c.Ops, fsOp{K: "open", P: p, M: os.O_RDONLY, N: 0o644}, fsOp{K: "read", H: h, N: 100}, fsOp{K: "close", H: h})
		case k < 82:
			c.Ops = append(c.Ops, fsOp{K: "remove", P: Pick(r, append(append([]string{}, hlNames...), reLinks...))})
		case k < 90:
			if session == 0 && r.Bool() {
				c.Ops = append(c.Ops, fsOp{K: "chmod", P: p, N: Pick(r, []int{0o644, 0o600, 0o755})})
			} else {
				c.Ops = append(c.Ops, fsOp{K: "chmod", P: Pick(r, []string{"a", "a/b", "c", "d"}), N: Pick(r, []int{0o755, 0o700, 0o750})})
			}
		case k < 96:
			c.Ops = append(c.Ops, fsOp{K: "mkdir", P: Pick(r, []string{"c", "a/b/c", "d", "a"}), N: Pick(r, []int{0o755, 0o700})})
		default:
			c.Ops = append(c.Ops, fsOp{K: "readdir", P: Pick(r, reDirs)})
		}
	}
	// session 1: populate (most directories get a file with a second name and a link early)
	if r.Chance(70) {
		old := Pick(r, hlFiles)
		c.Ops = append(c.Ops, fsOp{K: "writefile", P: old, D: Pick(r, fsData), N: 0o644}, fsOp{K: "link", P: Pick(r, hlExtra), Q: old})
	}
	if r.Chance(70) {
		c.Ops = append(c.Ops, fsOp{K: "symlink", P: Pick(r, reLinks), Q: Pick(r, reTargets)})
	}
	for g := r.Range(3, 8); g > 0; g-- {
		group(0)
		if r.Chance(30) {
			light()
		}
	}
	full()
	sessions := 1
	if r.Chance(35) {
		sessions = 2
	}
	for s := 1; s <= sessions; s++ {
		c.Ops = append(c.Ops, fsOp{K: "reopen", P: Pick(r, reHows), N: r.Intn(2)})
		full()
		for g := r.Range(1, 5); g > 0; g-- {
			group(s)
			light()
		}
		full()
	}
	return c
}

// reopenDirFS: a new DirFS value over the directory of the world, named as `how` says; the working directory of the
// process is moved for the relative spellings (and stays there: a relative base is resolved on every call)
func (w *fsWorld) reopenDirFS(how string, caseOpt bool) string {
	parent := filepath.Dir(w.dir)
	link := filepath.Join(parent, "cur")
	if _, err := os.Lstat(link); err != nil {
		if err := os.Symlink("root", link); err != nil {
			return "EHARNESS"
		}
	}
	_ = os.MkdirAll(filepath.Join(parent, "x"), 0o755)
	dir := w.dir
	switch how {
	case "real":
	case "link":
		dir = link
	case "linkslash":
		dir = link + "/"
	case "slash":
		dir = w.dir + "/"
	case "dot":
		dir = w.dir + "/."
	case "dotdot":
		dir = parent + "/x/../root"
	case "rel":
		if os.Chdir(parent) != nil {
			return "EHARNESS"
		}
		dir = "root"
	case "reldot":
		if os.Chdir(filepath.Join(parent, "x")) != nil {
			return "EHARNESS"
		}
		dir = "../root"
	case "rellink":
		if os.Chdir(parent) != nil {
			return "EHARNESS"
		}
		dir = "cur"
	default:
		return "EHARNESS"
	}
	var f apkfs.FullFS
	if caseOpt {
		f = apkfs.DirFS(dir, apkfs.DirFSWithCaseSensitive(true))
	} else {
		f = apkfs.DirFS(dir)
	}
	if f == nil {
		return "NIL"
	}
	w.base, w.cur = f, f
	return "ok"
}

func reStat(fi fs.FileInfo, withName, noSize bool) string {
	d := "0"
	if fi.IsDir() {
		d = "1"
	}
	size := fi.Size()
	if fi.IsDir() || noSize {
		size = 0
	}
	s := fmt.Sprintf("%d/%d/%s", size, uint32(fi.Mode()), d)
	if withName {
		s = hx(fi.Name()) + "/" + s
	}
	return s
}

func runDirfsReopenCase(c fsCase) []Step {
	cwd, cwdErr := os.Getwd()
	// umask 0: the overlay keeps the permission bits a caller asked for, the host creates with perm &^ umask; a
	// re-opened overlay has the host's bits.  The comparison is made where the two are the same.
	old := syscall.Umask(0)
	w := newWorld("dirfs")
	defer func() {
		if cwdErr == nil {
			_ = os.Chdir(cwd)
		}
		syscall.Umask(old)
		os.RemoveAll(filepath.Dir(w.dir))
	}()
	toks := make([]string, 0, len(c.Ops))
	outs := make([]string, 0, len(c.Ops))
	var descs []string
	tags := map[string]struct{}{"backend:dirfs": {}, "kind:dirfs-reopen": {}}
	session := 0
	dead := false
	for _, o := range c.Ops {
		f := w.base
		toks = append(toks, o.token())
		var r string
		switch {
		case dead:
			r = "NIL"
		case o.K == "reopen":
			if cwdErr == nil {
				_ = os.Chdir(cwd)
			}
			r = w.reopenDirFS(o.P, o.N == 1)
			dead = r != "ok"
			session++
			tags["reopen:"+o.P] = struct{}{}
		case o.K == "hl":
			r = hlDiskView(w.dir, strings.Split(o.D, ","))
		case o.K == "stat" || o.K == "lstat":
			var fi fs.FileInfo
			var err error
			if o.K == "stat" {
				fi, err = f.Stat(o.P)
			} else {
				fi, err = f.Lstat(o.P)
			}
			if err != nil {
				r = "E"
			} else {
				r = "s" + reStat(fi, false, o.K == "lstat")
			}
		case o.K == "readdir":
			if des, err := f.ReadDir(o.P); err != nil {
				r = "E"
			} else {
				var parts []string
				for _, de := range des {
					fi, err := de.Info()
					if err != nil {
						parts = append(parts, hx(de.Name())+"!")
						continue
					}
					parts = append(parts, reStat(fi, true, fi.Mode()&fs.ModeSymlink != 0))
				}
				r = "e" + strings.Join(parts, "+")
			}
		default:
			r = w.apply(o)
			if len(r) > 0 && r[0] >= 'A' && r[0] <= 'Z' {
				r = "E"
			}
		}
		outs = append(outs, r)
		probe := o.K == "hl" || o.K == "readfile" || o.K == "stat" || o.K == "lstat" || o.K == "readlink" || o.K == "readdir"
		if !probe || (session > 0 && r != "E" && len(descs) < 400) {
			descs = append(descs, o.desc()+"="+r)
		}
		if session > 0 && r != "E" {
			tags[fmt.Sprintf("re%d:%s", min(session, 2), o.K)] = struct{}{}
		}
	}
	var tl []string
	for t := range tags {
		tl = append(tl, t)
	}
	sort.Strings(tl)
	desc := "dirfs (re-open): " + strings.Join(descs, "; ")
	if len(desc) > 8000 {
		desc = desc[:8000] + "…"
	}
	return []Step{{
		Line: "fs.dirre\t" + strings.Join(toks, "\t"),
		Go:   strings.Join(outs, ";"),
		Desc: desc,
		Tags: tl,
	}}
}
