package main

// corr:cache (C19) — request coalescing: N concurrent requests for the same ETag-cached resource (a
// repository index, a key) through the real cacheTransport, all clients sharing one *apk.Cache and one
// cache directory (= concurrent builds in one process).  The "server" holds its answer to the first GET
// until the other requests have joined the download in flight (singleflight), so that the coalesced
// path is really taken; every caller's response body must be the served bytes, as must a later (warm)
// request and an offline one.

import (
	"bytes"
	"crypto/sha256"
	"encoding/hex"
	"fmt"
	"io"
	"net/http"
	"os"
	"runtime"
	"strings"
	"sync"
	"time"

	"chainguard.dev/apko/pkg/apk/apk"
)

type cFlight struct {
	N    int    `json:"n"`    // concurrent requests
	Kind string `json:"kind"` // "index" | "key"
	Size int    `json:"size"` // body size
	Etag bool   `json:"etag"` // apk.NewCache(etag): with or without the in-memory ETag table
	Slow bool   `json:"slow"` // callers read their body in small pieces, yielding in between
}

// cacheFlightWaiters: goroutines blocked in singleflight.Do waiting for somebody else's call
func cacheFlightWaiters() int {
	buf := make([]byte, 4<<20)
	n := runtime.Stack(buf, true)
	count := 0
	for _, g := range strings.Split(string(buf[:n]), "\n\n") {
		if strings.Contains(g, "singleflight.(*Group).Do") && strings.Contains(g, "sync.(*WaitGroup).Wait") && !strings.Contains(g, "doCall") {
			count++
		}
	}
	return count
}

type cacheFlightTransport struct {
	body    []byte
	etag    string
	want    int // waiters to wait for before the first GET is answered
	mu      sync.Mutex
	gets    int
	heads   int
	joined  int
	started chan struct{}
	once    sync.Once
}

func (t *cacheFlightTransport) RoundTrip(req *http.Request) (*http.Response, error) {
	hdr := http.Header{}
	hdr.Set("ETag", `"`+t.etag+`"`)
	mk := func(b []byte) *http.Response {
		return &http.Response{StatusCode: 200, Status: "200 OK", Proto: "HTTP/1.1", ProtoMajor: 1, ProtoMinor: 1, Header: hdr,
			Body: io.NopCloser(bytes.NewReader(b)), ContentLength: int64(len(b)), Request: req}
	}
	if req.Method == http.MethodHead {
		t.mu.Lock()
		t.heads++
		t.mu.Unlock()
		return mk(nil), nil
	}
	t.mu.Lock()
	t.gets++
	first := t.gets == 1
	t.mu.Unlock()
	if first {
		t.once.Do(func() { close(t.started) })
		// hold the answer until the other requests have joined the flight (at most 0.6 s)
		for i := 0; i < 600; i++ {
			if j := cacheFlightWaiters(); j >= t.want {
				t.mu.Lock()
				t.joined = j
				t.mu.Unlock()
				break
			}
			time.Sleep(time.Millisecond)
		}
	}
	return mk(t.body), nil
}

func runFlight(c *cCase) []Step {
	f := c.Flight
	dir, err := os.MkdirTemp("", "verif-flight-")
	if err != nil {
		return failStep("flight", err.Error())
	}
	defer os.RemoveAll(dir)
	rr := NewRng(c.Seed, "flight", 0)
	body := make([]byte, f.Size)
	for i := range body {
		body[i] = byte(rr.Next())
	}
	url := "https://repo.test/x86_64/APKINDEX.tar.gz"
	if f.Kind == "key" {
		url = "https://repo.test/keys/verif-signing.rsa.pub"
	}
	tr := &cacheFlightTransport{body: body, etag: fmt.Sprintf("%016x", rr.Next()), want: f.N - 1, started: make(chan struct{})}
	shared := apk.NewCache(f.Etag)
	digest := func(b []byte) string { s := sha256.Sum256(b); return hex.EncodeToString(s[:6]) + fmt.Sprintf("/%d", len(b)) }
	fetch := func(offline bool) string {
		cl := apk.VerifCacheClient(dir, offline, shared, &http.Client{Transport: tr}, true)
		resp, err := cl.Get(url)
		if err != nil {
			return "err"
		}
		defer resp.Body.Close()
		var got []byte
		if f.Slow {
			buf := make([]byte, 997)
			for {
				n, err := resp.Body.Read(buf)
				got = append(got, buf[:n]...)
				if err != nil {
					if err != io.EOF {
						return "err"
					}
					break
				}
				runtime.Gosched()
			}
		} else if got, err = io.ReadAll(resp.Body); err != nil {
			return "err"
		}
		return "ok:" + digest(got)
	}
	res := make([]string, f.N)
	var wg sync.WaitGroup
	wg.Add(1)
	go func() { defer wg.Done(); res[0] = fetch(false) }()
	select {
	case <-tr.started:
	case <-time.After(5 * time.Second):
	}
	for i := 1; i < f.N; i++ {
		wg.Add(1)
		go func(i int) { defer wg.Done(); res[i] = fetch(false) }(i)
	}
	done := make(chan struct{})
	go func() { wg.Wait(); close(done) }()
	select {
	case <-done:
	case <-time.After(10 * time.Second):
		return failStep("flight", "concurrent requests did not finish")
	}
	res = append(res, fetch(false)) // warm
	res = append(res, fetch(true))  // offline
	tags := []string{"flight:" + f.Kind, fmt.Sprintf("flight-gets:%d", tr.gets)}
	if tr.joined >= f.N-1 {
		tags = append(tags, "flight-coalesced")
	} else {
		tags = append(tags, "flight-not-coalesced")
	}
	return []Step{{Line: strings.Join([]string{"cache-flight", "ok:" + digest(body), strings.Join(res, ",")}, "\t"), Go: "-", Mode: "verdict", NoImpl: true, Tags: tags,
		Desc: fmt.Sprintf("%d concurrent requests for one %s (%d bytes, etag table %v, %d GET, %d joined the flight) + warm + offline → %s", f.N, f.Kind, f.Size, f.Etag, tr.gets, tr.joined, strings.Join(res, ","))}}
}
