package main

// `apko publish` in-process and offline (C11): internal/cli.PublishCmd (through pkg/verifapi) pushes to
// go-containerregistry's in-memory registry, served by an http.RoundTripper without any socket.  Afterwards the
// registry is read back over the same handler: the index under the tag, every manifest and blob, and for every
// manifest digest D the SBOM image cosign attaches under the tag sha256-<D>.sbom.

import (
	"context"
	"encoding/json"
	"fmt"
	"io"
	"log"
	"net/http"
	"net/http/httptest"
	"os"
	"path/filepath"
	"strings"
	"sync"

	"github.com/google/go-containerregistry/pkg/registry"
	"github.com/google/go-containerregistry/pkg/v1/remote"

	"chainguard.dev/apko/pkg/build"
	"chainguard.dev/apko/pkg/build/types"
	"chainguard.dev/apko/pkg/verifapi"
)

const gluelayerRegHost = "registry.test"
const gluelayerRegRepo = "verif/img"

type gluelayerRegistry struct {
	h http.Handler
}

func gluelayerNewRegistry() *gluelayerRegistry {
	return &gluelayerRegistry{h: registry.New(registry.Logger(log.New(io.Discard, "", 0)))}
}

func (g *gluelayerRegistry) RoundTrip(req *http.Request) (*http.Response, error) {
	rec := httptest.NewRecorder()
	sreq := req.Clone(req.Context())
	if sreq.Body == nil {
		sreq.Body = http.NoBody // a server always sees a body
	}
	g.h.ServeHTTP(rec, sreq)
	resp := rec.Result()
	resp.Request = req
	return resp, nil
}

func (g *gluelayerRegistry) get(path string) ([]byte, bool) {
	req := httptest.NewRequest(http.MethodGet, "https://"+gluelayerRegHost+path, nil)
	req.Header.Set("Accept", "*/*")
	rec := httptest.NewRecorder()
	g.h.ServeHTTP(rec, req)
	if rec.Code != http.StatusOK {
		return nil, false
	}
	return rec.Body.Bytes(), true
}

func (g *gluelayerRegistry) manifest(ref string) ([]byte, bool) {
	return g.get("/v2/" + gluelayerRegRepo + "/manifests/" + ref)
}

// blob: by digest, whether it was pushed as a blob or as a manifest
func (g *gluelayerRegistry) blob(digest string) ([]byte, bool) {
	if b, ok := g.get("/v2/" + gluelayerRegRepo + "/blobs/" + digest); ok {
		return b, true
	}
	return g.manifest(digest)
}

// attachedSBOM: the document cosign attached to the manifest with the given digest.
func (g *gluelayerRegistry) attachedSBOM(digest string) ([]byte, bool) {
	mb, ok := g.manifest(strings.ReplaceAll(digest, ":", "-") + ".sbom")
	if !ok {
		return nil, false
	}
	var m gluelayerManifest
	if err := json.Unmarshal(mb, &m); err != nil || len(m.Layers) == 0 {
		return nil, false
	}
	b, ok := g.get("/v2/" + gluelayerRegRepo + "/blobs/" + m.Layers[0].Digest)
	if !ok || gluelayerSha(b) != m.Layers[0].Digest {
		return nil, false
	}
	return b, true
}

type gluelayerPublished struct {
	Err   error
	Reg   *gluelayerRegistry
	Files map[string][]byte // sbom/<name> as left in --sbom-path
}

var gluelayerStdoutMu sync.Mutex

// gluelayerPublish runs one `apko publish` with SBOMs against a fresh registry.
func gluelayerPublish(ic types.ImageConfiguration, repo *SRepo, archs []string) gluelayerPublished {
	return gluelayerPublishAt(ic, repo, "", archs)
}

// gluelayerPublishAt: like gluelayerPublish, but a repository already materialised at repoDir is used as is (a lock
// file names its packages by their location) and further build options (the lock file) are passed on.
func gluelayerPublishAt(ic types.ImageConfiguration, repo *SRepo, repoDir string, archs []string, extra ...build.Option) gluelayerPublished {
	work, err := os.MkdirTemp("", "verif-publish-")
	if err != nil {
		return gluelayerPublished{Err: err}
	}
	defer os.RemoveAll(work)
	if repoDir != "" {
		ic.Contents.RuntimeRepositories = []string{repoDir}
		ic.Contents.Keyring = []string{filepath.Join(repoDir, synthKeyName)}
	} else {
		rd := filepath.Join(work, "repo")
		kp := repo.WriteTo(rd)
		ic.Contents.RuntimeRepositories = []string{rd}
		ic.Contents.Keyring = []string{kp}
	}
	var as []types.Architecture
	for _, a := range archs {
		as = append(as, types.ParseArchitecture(a))
	}
	os.MkdirAll(filepath.Join(work, "tmp"), 0o755)
	sbomDir := filepath.Join(work, "sbom")
	os.MkdirAll(sbomDir, 0o755)
	dst := gluelayerRegHost + "/" + gluelayerRegRepo + ":latest"
	opts := []build.Option{build.WithImageConfiguration(ic), build.WithBuildDate(""), build.WithTempDir(filepath.Join(work, "tmp")),
		build.WithSBOMFormats([]string{"spdx"}), build.WithTags(dst)}
	opts = append(opts, extra...)
	reg := gluelayerNewRegistry()
	// the command prints the digest of what it published
	gluelayerStdoutMu.Lock()
	saved := os.Stdout
	if dn, err := os.OpenFile(os.DevNull, os.O_WRONLY, 0); err == nil {
		os.Stdout = dn
		defer dn.Close()
	}
	err = verifapi.PublishCmdWithTags(context.Background(), "", as, []remote.Option{remote.WithTransport(reg)}, sbomDir, opts, []string{dst})
	os.Stdout = saved
	gluelayerStdoutMu.Unlock()
	if err != nil {
		return gluelayerPublished{Err: err}
	}
	files := map[string][]byte{}
	collectDir(sbomDir, "sbom/", files)
	return gluelayerPublished{Reg: reg, Files: files}
}

func (p gluelayerPublished) index() []byte {
	b, _ := p.Reg.manifest("latest")
	return b
}

func (p gluelayerPublished) attached() sbArtifacts {
	return sbArtifacts{Index: p.index(), Get: p.Reg.blob,
		ArchSBOM:  func(_, digest string) ([]byte, bool) { return p.Reg.attachedSBOM(digest) },
		IndexSBOM: func(digest string) ([]byte, bool) { return p.Reg.attachedSBOM(digest) }}
}

func (p gluelayerPublished) files() sbArtifacts {
	return sbArtifacts{Index: p.index(), Get: p.Reg.blob,
		ArchSBOM: func(a, _ string) ([]byte, bool) {
			b, ok := p.Files["sbom/sbom-"+a+".spdx.json"]
			return b, ok
		},
		IndexSBOM: func(string) ([]byte, bool) {
			b, ok := p.Files["sbom/sbom-index.spdx.json"]
			return b, ok
		}}
}

func init() {
	prev := extraCommand
	extraCommand = func(name string, args []string) bool {
		if name != "gluelayer-publish-smoke" {
			return prev(name, args)
		}
		pkgs := []SPkg{{Name: "base", Version: "1.0-r0", Origin: "base", Files: []SFile{{Path: "etc", Type: "dir", Mode: 0o755}, {Path: "etc/os-release", Type: "file", Mode: 0o644, Content: "ID=synth\nVERSION_ID=1\n"}}}}
		archs := []string{"armv7", "armhf"}
		repo := BuildSynthRepo(pkgs, archs)
		ic := types.ImageConfiguration{}
		ic.Contents.Packages = []string{"base"}
		p := gluelayerPublish(ic, repo, archs)
		fmt.Println("err:", p.Err)
		if p.Err == nil {
			fmt.Println("index:", string(p.index()))
			for k := range p.Files {
				fmt.Println("file:", k)
			}
			imgs, probs := gluelayerReadIndex(p.index(), p.Reg.blob)
			fmt.Println("problems:", gluelayerAllProblems(imgs, probs))
			for _, im := range imgs {
				sb, ok := p.Reg.attachedSBOM(im.Desc.Digest)
				fmt.Println(im.Plat, im.Desc.Digest, "attached sbom:", ok, len(sb), "mentions own digest:", strings.Contains(string(sb), strings.TrimPrefix(im.Desc.Digest, "sha256:")))
			}
		}
		return true
	}
}
