package main

// corr:indexsigglue — C04 end to end: the option plumbing between the command line / library entry points
// and parseRepositoryIndex.  Real code: build.New, build.NewMultiArch + Context.BuildPackageList /
// MultiArch.BuildPackageLists, verifapi.LockCmd, verifapi.BuildCmd, and apk.New + APK.ByArch + APK.ResolveWorld,
// over synthetic repositories (local directories and an in-process HTTP transport with ETag control) whose
// per-architecture indexes are well signed / signed by another key / forged under a trusted key's name /
// unsigned / tampered / spliced, over histories of runs that share a cache directory (online, offline, failed
// runs) and, within a process, the memo of parsed indexes.
// Model: Lean `IndexSig.Glue.runAll` (Model/IndexSigGlue.lean) fed with the abstract description of every
// archive; oracle: Lean, history- and memo-blind (Driver/IndexSig.lean, section glue).

import (
	"archive/tar"
	"bytes"
	"context"
	"crypto/sha1"
	"crypto/sha256"
	"encoding/base64"
	"encoding/hex"
	"encoding/json"
	"fmt"
	"io"
	"log/slog"
	"net/http"
	"os"
	"path/filepath"
	"sort"
	"strings"
	"sync"
	"time"

	"chainguard.dev/apko/pkg/apk/apk"
	apkfs "chainguard.dev/apko/pkg/apk/fs"
	"chainguard.dev/apko/pkg/build"
	"chainguard.dev/apko/pkg/build/types"
	"chainguard.dev/apko/pkg/tarfs"
	"chainguard.dev/apko/pkg/verifapi"
)

// ---------------------------------------------------------------- the package universe (real .apk files)

type gluesigPkgDef struct {
	Name, Version string
	Deps          []string
}

// repository 0 ("os") and repository 1 ("os2": shares a prefix with "os")
var gluesigUniverse = [][]gluesigPkgDef{
	{{"lib", "1.0-r0", nil}, {"lib", "1.1-r0", nil}, {"hello", "1.0-r0", []string{"lib"}}, {"hello", "2.0-r0", []string{"lib"}}, {"hello", "3.0-r0", []string{"lib"}}},
	{{"tool", "1.0-r0", nil}, {"tool", "2.0-r0", nil}},
}

var gluesigRepoNames = []string{"os", "os2"}
var gluesigArchs = []string{"x86_64", "aarch64", "armv7"} // the third one only in single-run families (see Gen)

type gluesigApkFile struct {
	bytes    []byte
	checksum []byte // sha1 of the control member
	instSize int
}

var (
	gluesigApkOnce sync.Once
	gluesigApks    map[string]gluesigApkFile // "<repo>/<arch>/<name>-<version>"
)

func gluesigGz(b []byte) []byte { return isGz(1, b) }

// a minimal package: control member (.PKGINFO, unterminated tar) ++ data member (one file with its checksum record)
func gluesigBuildApk(p gluesigPkgDef, arch string) gluesigApkFile {
	content := "file of " + p.Name + "-" + p.Version + " for " + arch + "\n"
	data := tarBytes(true, func(tw *tar.Writer) {
		tw.WriteHeader(&tar.Header{Name: "usr/", Typeflag: tar.TypeDir, Mode: 0o755, ModTime: time.Unix(0, 0), Format: tar.FormatPAX, Uname: "root", Gname: "root"})
		tw.WriteHeader(&tar.Header{Name: "usr/share/", Typeflag: tar.TypeDir, Mode: 0o755, ModTime: time.Unix(0, 0), Format: tar.FormatPAX, Uname: "root", Gname: "root"})
		s := sha1.Sum([]byte(content))
		tw.WriteHeader(&tar.Header{Name: "usr/share/" + p.Name, Typeflag: tar.TypeReg, Mode: 0o644, Size: int64(len(content)), ModTime: time.Unix(0, 0), Format: tar.FormatPAX,
			Uname: "root", Gname: "root", PAXRecords: map[string]string{"APK-TOOLS.checksum.SHA1": hex.EncodeToString(s[:])}})
		tw.Write([]byte(content))
	})
	dataGz := gluesigGz(data)
	dh := sha256.Sum256(dataGz)
	var info strings.Builder
	w := func(k, v string) { fmt.Fprintf(&info, "%s = %s\n", k, v) }
	w("pkgname", p.Name)
	w("pkgver", p.Version)
	w("arch", arch)
	w("size", fmt.Sprint(len(content)))
	w("origin", p.Name)
	w("pkgdesc", "synthetic "+p.Name)
	w("url", "https://example.test")
	w("builddate", "1700000000")
	w("license", "MIT")
	for _, d := range p.Deps {
		w("depend", d)
	}
	w("datahash", hex.EncodeToString(dh[:]))
	ctl := tarBytes(false, func(tw *tar.Writer) {
		tw.WriteHeader(&tar.Header{Name: ".PKGINFO", Mode: 0o644, Size: int64(info.Len()), Typeflag: tar.TypeReg, ModTime: time.Unix(0, 0)})
		tw.Write([]byte(info.String()))
	})
	ctlGz := gluesigGz(ctl)
	cs := sha1.Sum(ctlGz)
	return gluesigApkFile{bytes: append(append([]byte{}, ctlGz...), dataGz...), checksum: cs[:], instSize: len(content)}
}

func gluesigGetApks() map[string]gluesigApkFile {
	gluesigApkOnce.Do(func() {
		gluesigApks = map[string]gluesigApkFile{}
		for ri, defs := range gluesigUniverse {
			for _, arch := range gluesigArchs {
				for _, p := range defs {
					gluesigApks[fmt.Sprintf("%s/%s/%s-%s", gluesigRepoNames[ri], arch, p.Name, p.Version)] = gluesigBuildApk(p, arch)
				}
			}
		}
	})
	return gluesigApks
}

// the APKINDEX entry of a real package, stamped with the revision that lists it (a provides nobody asks for):
// the answer of a package-list operation thereby names the very index revision each package was taken from
func gluesigIndexEntry(repo int, arch string, p gluesigPkgDef, stamp string) string {
	a := gluesigGetApks()[fmt.Sprintf("%s/%s/%s-%s", gluesigRepoNames[repo], arch, p.Name, p.Version)]
	var b strings.Builder
	w := func(k, v string) { fmt.Fprintf(&b, "%s:%s\n", k, v) }
	w("C", "Q1"+base64.StdEncoding.EncodeToString(a.checksum))
	w("P", p.Name)
	w("V", p.Version)
	w("A", arch)
	w("S", fmt.Sprint(len(a.bytes)))
	w("I", fmt.Sprint(a.instSize))
	w("T", "synthetic "+p.Name)
	w("U", "https://example.test")
	w("L", "MIT")
	w("o", p.Name)
	w("t", "1700000000")
	if len(p.Deps) > 0 {
		w("D", strings.Join(p.Deps, " "))
	}
	w("p", stamp+"."+p.Name+"=1")
	b.WriteString("\n")
	return b.String()
}

// ---------------------------------------------------------------- case description

// one index revision: an archive that is offered for (repo, arch) during some runs
type gluesigRev struct {
	Repo int      `json:"repo"`
	Arch string   `json:"arch"`
	View []string `json:"view"` // listed "<name>-<version>" of the repository's universe
	Sign string   `json:"sign"` // good | good-rsa | two | pax | keyb | forged | unknown | unsigned | splice | tampered | corrupt
}

type gluesigRepo struct {
	HTTP bool   `json:"http"`
	Etag string `json:"etag,omitempty"` // hash (ETag = content hash) | sticky (one ETag whatever the content) | none
}

type gluesigApkCfg struct {
	Arch   string     `json:"arch"`
	Keys   []isKeyCfg `json:"keys"`
	Ignore bool       `json:"ignore,omitempty"`
	NoSig  []string   `json:"nosig,omitempty"` // repository names (or near misses) below the scenario's root / host
	Repos  []int      `json:"repos"`
	// what the root file system already holds besides the configured keyring: key files in key-like places that are
	// NOT the keys directory (package content of an earlier installation, a base root, a reused working directory)
	Root []gluesigRootKey `json:"root,omitempty"`
}

// a public key file somewhere in the root file system; Dir may contain <arch>
type gluesigRootKey struct {
	Dir string   `json:"dir"`
	Key isKeyCfg `json:"key"`
}

// key-like places of a root file system that are not the keys directory etc/apk/keys itself
var gluesigRootKeyDirs = []string{"usr/share/apk/keys/<arch>", "usr/share/apk/keys/<arch>", "usr/share/apk/keys", "etc/apk/keys.d",
	"etc/apk/keys/<arch>", "etc/apk/keys/extra", "usr/share/apk/keys/<arch>/old", "lib/apk/keys", "etc/apk/trusted.d", "usr/lib/apk/keys/<arch>", "etc/keys"}

type gluesigRun struct {
	NewProcess bool   `json:"new_process"`
	Offline    bool   `json:"offline,omitempty"`
	Serve      []int  `json:"serve"` // revisions offered during this run (at most one per repo and arch)
	Op         string `json:"op"`    // apk | pl1 | plseq | plall | lock | build
	// build-level operations: one option set for all architectures
	Archs  []string   `json:"archs,omitempty"`
	Keys   []isKeyCfg `json:"keys,omitempty"`
	Ignore bool       `json:"ignore,omitempty"`
	Repos  []int      `json:"repos,omitempty"`
	// apk-level operation: one apk.APK per entry, resolved in this order; ByArch wired between all of them when Sibs
	Apks []gluesigApkCfg `json:"apks,omitempty"`
	Sibs bool            `json:"sibs,omitempty"`
	// the operations of this run are started one goroutine each, in listing order: the first one (the leader) runs
	// until its first download of an index is in flight, the transport holds that download until every other operation
	// has asked for the same index (HEAD seen, then a short grace period or its own download), then lets everything go
	Conc bool `json:"conc,omitempty"`
	// build-level pl1: key files the root file system holds before build.New (same places as gluesigApkCfg.Root)
	Root []gluesigRootKey `json:"root,omitempty"`
}

type gluesigCase struct {
	Shape string        `json:"shape"`
	Repos []gluesigRepo `json:"repos"`
	Revs  []gluesigRev  `json:"revs"`
	Cache bool          `json:"cache"` // apk-level operations get a cache directory too
	Runs  []gluesigRun  `json:"runs"`
}

type gluesigSuite struct{}

func init() { register(gluesigSuite{}) }

func (gluesigSuite) Name() string { return "indexsigglue" }

// ---------------------------------------------------------------- generation

var gluesigGoodSigns = []string{"good", "good", "good", "good-rsa", "two", "pax"}
var gluesigBadSigns = []string{"forged", "forged", "unknown", "unsigned", "unsigned", "splice", "tampered", "corrupt", "keyb"}

var gluesigKeyA = []isKeyCfg{{isKeyNames[0], 0, 0}}

func gluesigGenView(r *Rng, repo int) []string {
	defs := gluesigUniverse[repo]
	byName := map[string][]string{}
	var names []string
	for _, d := range defs {
		if _, ok := byName[d.Name]; !ok {
			names = append(names, d.Name)
		}
		byName[d.Name] = append(byName[d.Name], d.Name+"-"+d.Version)
	}
	var view []string
	for _, n := range names {
		vs := byName[n]
		keep := []string{}
		for _, v := range vs {
			if r.Chance(60) {
				keep = append(keep, v)
			}
		}
		if len(keep) == 0 {
			keep = []string{Pick(r, vs)}
		}
		view = append(view, keep...)
	}
	return view
}

func gluesigGenKeys(r *Rng) []isKeyCfg {
	switch x := r.Intn(100); {
	case x < 55:
		return []isKeyCfg{{isKeyNames[0], 0, 0}}
	case x < 75:
		return []isKeyCfg{{isKeyNames[0], 0, 0}, {isKeyNames[1], 1, 0}}
	case x < 82:
		return []isKeyCfg{{isKeyNames[1], 1, 0}}
	case x < 88:
		return []isKeyCfg{{isKeyNames[0], 2, 0}} // the trusted name over another key's material
	case x < 92:
		return []isKeyCfg{}
	case x < 96:
		return []isKeyCfg{{isKeyNames[0], 0, 0}, {isKeyNames[2], 2, 0}}
	default:
		return []isKeyCfg{{isKeyNames[0], -1, 0}, {isKeyNames[1], 1, 0}}
	}
}

type gluesigGen struct {
	r *Rng
	c *gluesigCase
}

func (g *gluesigGen) rev(repo int, arch, sign string) int {
	g.c.Revs = append(g.c.Revs, gluesigRev{Repo: repo, Arch: arch, View: gluesigGenView(g.r, repo), Sign: sign})
	return len(g.c.Revs) - 1
}

func (g *gluesigGen) sign(good bool) string {
	if good {
		return Pick(g.r, gluesigGoodSigns)
	}
	return Pick(g.r, gluesigBadSigns)
}

func gluesigRepoKind(r *Rng) gluesigRepo {
	switch x := r.Intn(100); {
	case x < 35:
		return gluesigRepo{HTTP: false}
	case x < 80:
		return gluesigRepo{HTTP: true, Etag: "hash"}
	case x < 90:
		return gluesigRepo{HTTP: true, Etag: "sticky"}
	default:
		return gluesigRepo{HTTP: true, Etag: "none"}
	}
}

var gluesigBuildOps = []string{"pl1", "plseq", "plseq", "plall", "lock", "build"}

// a build-level run over `archs` with the given served revisions
func (g *gluesigGen) buildRun(op string, archs []string, serve []int, repos []int, keys []isKeyCfg) gluesigRun {
	run := gluesigRun{NewProcess: true, Serve: serve, Op: op, Archs: archs, Keys: keys, Repos: repos}
	if op == "pl1" && len(archs) > 0 && g.r.Chance(30) {
		run.Root = g.rootKeys(archs[0], serve)
	}
	return run
}

func (gluesigSuite) Gen(r *Rng, i int, tier string) any {
	c := &gluesigCase{Repos: []gluesigRepo{gluesigRepoKind(r), gluesigRepoKind(r)}, Cache: r.Chance(70)}
	g := &gluesigGen{r, c}
	both := []string{"x86_64", "aarch64"}
	if r.Bool() {
		both = []string{"aarch64", "x86_64"}
	}
	repos := []int{0}
	if r.Chance(25) {
		repos = []int{0, 1}
	}
	// one revision per (repo, arch) of a family; `bad` names the (repo, arch) pairs whose index is not acceptable
	family := func(badArch string, badRepo int) []int {
		var out []int
		for _, rp := range repos {
			for _, a := range both {
				out = append(out, g.rev(rp, a, g.sign(!(a == badArch && rp == badRepo))))
			}
		}
		return out
	}
	switch shape := r.Intn(100); {
	case shape < 19:
		// (a) sibling: a multi-architecture family in which one architecture's index is bad (or all are good);
		// every kind of operation, both resolution orders
		c.Shape = "sibling"
		bad := ""
		if r.Chance(75) {
			bad = Pick(r, both)
		}
		serve := family(bad, Pick(r, repos))
		keys := gluesigKeyA
		if r.Chance(25) {
			keys = gluesigGenKeys(r)
		}
		nruns := 1 + r.Intn(2)
		for k := 0; k < nruns; k++ {
			op := Pick(r, []string{"plseq", "plseq", "plseq", "plall", "build", "lock", "apk"})
			archs := both
			if k > 0 || r.Bool() {
				archs = []string{both[1], both[0]}
			}
			run := g.buildRun(op, archs, serve, repos, keys)
			run.Ignore = r.Chance(8)
			if op == "apk" {
				run = g.apkRun(archs, serve, repos, keys, true)
			}
			run.NewProcess = k == 0 || r.Chance(70)
			c.Runs = append(c.Runs, run)
		}
	case shape < 39:
		// (b) offline after a rejected (or accepted) online run over the same cache directory
		c.Shape = "offline"
		c.Repos[0] = gluesigRepo{HTTP: true, Etag: Pick(r, []string{"hash", "hash", "hash", "sticky"})}
		c.Cache = true
		archs := both[:1]
		if r.Chance(35) {
			archs = both
		}
		keys := gluesigKeyA
		if r.Chance(20) {
			keys = gluesigGenKeys(r)
		}
		mk := func(goodAll bool) []int {
			var out []int
			badArch := Pick(r, archs)
			for _, rp := range repos {
				for _, a := range archs {
					out = append(out, g.rev(rp, a, g.sign(goodAll || a != badArch || rp != 0)))
				}
			}
			return out
		}
		onlineOp := func() string {
			if len(archs) == 1 {
				return Pick(r, []string{"pl1", "pl1", "build", "lock"})
			}
			return Pick(r, []string{"plseq", "plall", "build", "lock"})
		}
		offlineOp := func() string {
			if len(archs) == 1 {
				return Pick(r, []string{"pl1", "pl1", "pl1", "build", "lock"})
			}
			return Pick(r, []string{"plseq", "plseq", "plall", "build"})
		}
		if r.Chance(70) { // an earlier good run fills the cache (indexes and packages)
			c.Runs = append(c.Runs, g.buildRun(Pick(r, []string{"build", "build", onlineOp()}), archs, mk(true), repos, keys))
		}
		nbad := 1
		if r.Chance(25) {
			nbad = 2
		}
		for k := 0; k < nbad; k++ {
			c.Runs = append(c.Runs, g.buildRun(onlineOp(), archs, mk(r.Chance(15)), repos, keys))
		}
		noff := 1 + r.Intn(2)
		for k := 0; k < noff; k++ {
			run := g.buildRun(offlineOp(), archs, nil, repos, keys)
			run.Offline = true
			run.NewProcess = k == 0 || r.Bool()
			if r.Chance(8) {
				run.Ignore = true
			}
			c.Runs = append(c.Runs, run)
		}
		if r.Chance(30) { // back online
			c.Runs = append(c.Runs, g.buildRun(onlineOp(), archs, mk(r.Bool()), repos, keys))
		}
	case shape < 55:
		// (c) one process, several option sets: verification off then on, one keyring then another
		c.Shape = "modes"
		archs := both[:1]
		if r.Chance(40) {
			archs = both
		}
		var serve []int
		for _, rp := range repos {
			for _, a := range archs {
				serve = append(serve, g.rev(rp, a, Pick(r, []string{"forged", "unsigned", "keyb", "keyb", "good", "unknown", "splice"})))
			}
		}
		nruns := 2 + r.Intn(2)
		for k := 0; k < nruns; k++ {
			op := "pl1"
			if len(archs) > 1 {
				op = Pick(r, []string{"plseq", "plall", "apk"})
			} else if r.Chance(30) {
				op = "apk"
			}
			keys := Pick(r, [][]isKeyCfg{gluesigKeyA, {{isKeyNames[1], 1, 0}}, {{isKeyNames[0], 0, 0}, {isKeyNames[1], 1, 0}}, {{isKeyNames[0], 2, 0}}, {}})
			run := g.buildRun(op, archs, serve, repos, keys)
			run.Ignore = (k == 0 && r.Chance(60)) || r.Chance(15)
			if op == "apk" {
				run = g.apkRun(archs, serve, repos, keys, r.Chance(70))
				for j := range run.Apks {
					run.Apks[j].Ignore = run.Apks[j].Ignore || (k == 0 && r.Chance(50))
				}
			}
			run.NewProcess = k == 0 || r.Chance(12)
			if k > 0 && r.Chance(20) { // the repository moves on in between
				serve = nil
				for _, rp := range repos {
					for _, a := range archs {
						serve = append(serve, g.rev(rp, a, g.sign(r.Bool())))
					}
				}
				run.Serve = serve
			}
			c.Runs = append(c.Runs, run)
		}
	case shape < 67:
		// (d) apk level: per-architecture keyrings, switches and exemptions that differ between siblings
		c.Shape = "apk"
		repos = []int{0, 1}
		var serve []int
		for _, rp := range repos {
			for _, a := range both {
				serve = append(serve, g.rev(rp, a, g.sign(r.Chance(55))))
			}
		}
		nruns := 1 + r.Intn(2)
		for k := 0; k < nruns; k++ {
			run := g.apkRun(both, serve, repos, nil, r.Chance(85))
			for j := range run.Apks {
				a := &run.Apks[j]
				a.Keys = gluesigGenKeys(r)
				a.Ignore = r.Chance(15)
				if r.Chance(60) {
					a.Repos = []int{0, 1}
				} else {
					a.Repos = []int{Pick(r, repos)}
				}
				for _, nm := range gluesigRepoNames {
					switch r.Intn(9) {
					case 0, 1:
						a.NoSig = append(a.NoSig, nm)
					case 2:
						a.NoSig = append(a.NoSig, nm+"2")
					case 3:
						a.NoSig = append(a.NoSig, nm[:len(nm)-1])
					case 4:
						a.NoSig = append(a.NoSig, nm+"/")
					}
				}
			}
			run.NewProcess = k == 0 || r.Chance(40)
			c.Runs = append(c.Runs, run)
		}
	case shape < 74:
		// (a3) three architectures, one run (with more than one sibling, which sibling is read before a failing one
		// depends on Go's map order; that shows only in what a *later* run finds in memo and cache directory)
		c.Shape = "sibling3"
		three := []string{"x86_64", "aarch64", "armv7"}
		r.Shuffle(3, func(i, j int) { three[i], three[j] = three[j], three[i] })
		bad := map[string]bool{}
		if r.Chance(80) {
			bad[Pick(r, three)] = true
			if r.Chance(20) {
				bad[Pick(r, three)] = true
			}
		}
		var serve []int
		for _, rp := range repos {
			for _, a := range three {
				serve = append(serve, g.rev(rp, a, g.sign(!(bad[a] && (rp == 0 || r.Bool())))))
			}
		}
		keys := gluesigKeyA
		if r.Chance(20) {
			keys = gluesigGenKeys(r)
		}
		op := Pick(r, []string{"plseq", "plseq", "plall", "build", "apk", "apk"})
		run := g.buildRun(op, three, serve, repos, keys)
		run.Ignore = r.Chance(6)
		if op == "apk" {
			run = g.apkRun(three, serve, repos, keys, true)
			for j := range run.Apks {
				if r.Chance(30) {
					run.Apks[j].Keys = gluesigGenKeys(r)
				}
				run.Apks[j].Ignore = r.Chance(10)
			}
		}
		c.Runs = append(c.Runs, run)
	case shape < 88:
		// (f) concurrent reads of one index in one process under different verification settings: whatever indexCache.get
		// shares between reads that are in flight at the same time (a per-key sync.Once, an in-flight request table, ...)
		// must be keyed by the verification mode.  The first operation is the one whose download is held by the
		// transport until the others have asked for the same index
		c.Shape = "conc"
		c.Repos[0] = gluesigRepo{HTTP: true, Etag: Pick(r, []string{"none", "none", "none", "hash", "sticky"})}
		if r.Chance(8) {
			c.Repos[0] = gluesigRepo{HTTP: false}
		}
		archs := both[:1]
		if r.Chance(20) {
			archs = both
		}
		var serve []int
		for _, rp := range repos {
			for _, a := range archs {
				serve = append(serve, g.rev(rp, a, Pick(r, []string{"unsigned", "unsigned", "forged", "keyb", "keyb", "unknown", "good", "splice", "tampered"})))
			}
		}
		lenient := func(a *gluesigApkCfg) {
			switch r.Intn(5) {
			case 0, 1:
				a.Ignore = true
			case 2:
				a.NoSig = []string{gluesigRepoNames[0]}
				if len(repos) > 1 {
					a.NoSig = append(a.NoSig, gluesigRepoNames[1])
				}
			case 3:
				a.Keys = []isKeyCfg{{isKeyNames[1], 1, 0}}
			default:
				a.Keys = []isKeyCfg{{isKeyNames[0], 0, 0}, {isKeyNames[1], 1, 0}, {isKeyNames[2], 2, 0}}
			}
		}
		nruns := 1
		if r.Chance(30) {
			nruns = 2
		}
		for k := 0; k < nruns; k++ {
			n := 2
			if r.Chance(30) {
				n = 3
			}
			var as []string
			for j := 0; j < n; j++ {
				a := archs[0]
				if j > 0 && len(archs) > 1 && r.Chance(35) {
					a = archs[1]
				}
				as = append(as, a)
			}
			run := g.apkRun(as, serve, repos, gluesigKeyA, r.Chance(30))
			leaderLenient := r.Chance(70)
			for j := range run.Apks {
				if (j == 0) == leaderLenient || r.Chance(15) {
					lenient(&run.Apks[j])
				} else if r.Chance(15) {
					run.Apks[j].Keys = gluesigGenKeys(r)
				}
			}
			run.Conc = k == 0 || r.Chance(60)
			run.NewProcess = k == 0 || r.Chance(25)
			c.Runs = append(c.Runs, run)
		}
	default:
		// (e) free mix: the repositories move on between runs, any operation, online / offline
		c.Shape = "mix"
		c.Cache = true
		archs := both[:1]
		if r.Chance(55) {
			archs = both
		}
		cur := map[[2]int]int{} // (repo, arch index) -> revision
		var serveList func() []int
		serveList = func() []int {
			var out []int
			for _, rp := range repos {
				for ai := range archs {
					if v, ok := cur[[2]int{rp, ai}]; ok {
						out = append(out, v)
					}
				}
			}
			return out
		}
		for _, rp := range repos {
			for ai, a := range archs {
				cur[[2]int{rp, ai}] = g.rev(rp, a, g.sign(r.Chance(70)))
			}
		}
		nruns := 2 + r.Intn(3)
		online := 0
		for k := 0; k < nruns; k++ {
			if k > 0 {
				for _, rp := range repos {
					for ai, a := range archs {
						switch x := r.Intn(100); {
						case x < 35:
							cur[[2]int{rp, ai}] = g.rev(rp, a, g.sign(r.Chance(55)))
						case x < 40:
							delete(cur, [2]int{rp, ai}) // the index disappears
						case x < 50 && len(g.c.Revs) > 0:
							// an earlier revision of the same place comes back
							for tries := 0; tries < 4; tries++ {
								j := r.Intn(len(g.c.Revs))
								if g.c.Revs[j].Repo == rp && g.c.Revs[j].Arch == a {
									cur[[2]int{rp, ai}] = j
									break
								}
							}
						}
					}
				}
			}
			keys := gluesigKeyA
			if r.Chance(25) {
				keys = gluesigGenKeys(r)
			}
			op := Pick(r, gluesigBuildOps)
			if len(archs) == 1 && (op == "plseq" || op == "plall") {
				op = "pl1"
			}
			if len(archs) > 1 && op == "pl1" {
				op = "plseq"
			}
			run := g.buildRun(op, archs, serveList(), repos, keys)
			run.Ignore = r.Chance(10)
			run.NewProcess = k == 0 || r.Chance(65)
			if online > 0 && r.Chance(35) {
				run.Offline = true
				if op == "lock" && len(archs) > 1 {
					run.Op = "plall"
				}
			} else {
				online++
			}
			if r.Chance(12) {
				run = g.apkRun(archs, run.Serve, repos, keys, true)
				run.NewProcess = k == 0 || r.Chance(65)
			}
			c.Runs = append(c.Runs, run)
		}
	}
	return *c
}

func (g *gluesigGen) apkRun(archs []string, serve []int, repos []int, keys []isKeyCfg, sibs bool) gluesigRun {
	run := gluesigRun{NewProcess: true, Serve: serve, Op: "apk", Sibs: sibs}
	for _, a := range archs {
		cfg := gluesigApkCfg{Arch: a, Keys: keys, Repos: append([]int{}, repos...)}
		if g.r.Chance(30) {
			cfg.Root = g.rootKeys(a, serve)
		}
		run.Apks = append(run.Apks, cfg)
	}
	return run
}

// the root file system already holds one or two public keys in key-like places other than the keys directory; most
// of the time one of the served indexes of that architecture is (re)signed by exactly the first of them — under the
// configured keyring alone such an index is acceptable only if the same key is configured too
func (g *gluesigGen) rootKeys(arch string, serve []int) []gluesigRootKey {
	r := g.r
	n := 1
	if r.Chance(25) {
		n = 2
	}
	var out []gluesigRootKey
	for i := 0; i < n; i++ {
		k := Pick(r, []isKeyCfg{{isKeyNames[1], 1, 0}, {isKeyNames[1], 1, 0}, {isKeyNames[2], 2, 0}, {isKeyNames[2], 2, 0}, {isKeyNames[0], 0, 0}, {isKeyNames[0], 2, 0}})
		out = append(out, gluesigRootKey{Dir: Pick(r, gluesigRootKeyDirs), Key: k})
	}
	if r.Chance(75) {
		sign := "good"
		switch k := out[0].Key; {
		case k.Pem == 1:
			sign = "keyb"
		case k.Pem == 2 && k.Name == isKeyNames[0]:
			sign = "forged"
		case k.Pem == 2:
			sign = "unknown"
		}
		var cand []int
		for _, id := range serve {
			if g.c.Revs[id].Arch == arch {
				cand = append(cand, id)
			}
		}
		if len(cand) > 0 {
			g.c.Revs[Pick(r, cand)].Sign = sign
		}
	}
	return out
}

// ---------------------------------------------------------------- archives

func gluesigRevArchive(id int, rv gluesigRev) []byte {
	stamp := fmt.Sprintf("rev%d", id)
	var text strings.Builder
	for _, d := range gluesigUniverse[rv.Repo] {
		for _, v := range rv.View {
			if v == d.Name+"-"+d.Version {
				text.WriteString(gluesigIndexEntry(rv.Repo, rv.Arch, d, stamp))
			}
		}
	}
	a := isArchive{Level: 1, Desc: stamp, RawIndex: text.String()}
	if a.RawIndex == "" {
		a.RawIndex = "\n"
	}
	sig := func(typ, name string, key int, alg string) isSig {
		return isSig{Type: typ, KeyName: name, SignKey: key, SignAlg: alg, Over: "rest"}
	}
	switch rv.Sign {
	case "good":
		a.Sigs = []isSig{sig("RSA256", isKeyNames[0], 0, "256")}
	case "good-rsa":
		a.Sigs = []isSig{sig("RSA", isKeyNames[0], 0, "1")}
	case "two":
		a.Sigs = []isSig{sig("RSA256", isKeyNames[2], 2, "256"), sig("RSA256", isKeyNames[0], 0, "256")}
	case "pax":
		a.Sigs = []isSig{sig("RSA256", isKeyNames[0], 0, "256")}
		a.PaxEnd = map[string]string{"path": "APKINDEX.hidden"}
	case "keyb":
		a.Sigs = []isSig{sig("RSA256", isKeyNames[1], 1, "256")}
	case "forged":
		a.Sigs = []isSig{sig("RSA256", isKeyNames[0], 2, "256")}
	case "unknown":
		a.Sigs = []isSig{sig("RSA256", isKeyNames[2], 2, "256")}
	case "unsigned":
		a.NoSigMember = true
	case "splice":
		a.Sigs = []isSig{sig("RSA256", isKeyNames[0], 0, "256")}
		a.SpliceOther = []isPkg{{Name: "hello", Version: "1.0-r0"}}
	case "corrupt":
		s := sig("RSA256", isKeyNames[0], 0, "256")
		s.Corrupt = true
		a.Sigs = []isSig{s}
	case "tampered":
		a.Sigs = []isSig{sig("RSA256", isKeyNames[0], 0, "256")}
		n := len(isBuild(a))
		a.Muts = []isMut{{Op: "flip", Off: n - 40, Val: 2}}
	default:
		panic("gluesig: unknown sign kind " + rv.Sign)
	}
	return isBuild(a)
}

// the key material universe: token K<i> of the abstract description ↔ pem id
var gluesigPemIDs = []int{0, 1, 2, -1, -2}

func gluesigPemTok(pem int) string {
	for i, p := range gluesigPemIDs {
		if p == pem {
			return fmt.Sprintf("K%d", i)
		}
	}
	return "K3"
}

func gluesigUniverseKeys() []isKeyCfg {
	out := make([]isKeyCfg, len(gluesigPemIDs))
	for i, p := range gluesigPemIDs {
		out[i] = isKeyCfg{Name: fmt.Sprintf("u%d", i), Pem: p}
	}
	return out
}

func gluesigEncKeys(keys []isKeyCfg) string {
	out := make([]string, len(keys))
	for i, k := range keys {
		out[i] = "x" + hx(k.Name) + ":" + gluesigPemTok(k.Pem)
	}
	return strings.Join(out, ",")
}

// ---------------------------------------------------------------- transport

type gluesigRT struct {
	mu    sync.Mutex
	index map[string][]byte // URL path of an APKINDEX.tar.gz -> body (this run)
	etag  map[string]string // URL path -> ETag ("" = none)
	files map[string][]byte // URL path of a package -> body
	gate  *gluesigGate      // non-nil during a concurrent run
}

// the operation a request belongs to (context value set by the harness for concurrent runs)
type gluesigOpKey struct{}

// gluesigGate arranges the interleaving of a concurrent run: the FIRST download of every index by the leader
// (operation 0) is held until every other operation that is going to read that index has asked for it (its HEAD was
// answered) and then either sent its own download or let a short grace period pass (a reader that joins something
// the leader has in flight sends no request of its own).  Everything is bounded by wall-clock caps: on an overloaded
// machine the interleaving may not happen, the answers stay correct.
type gluesigGate struct {
	mu        sync.Mutex
	expect    map[string]map[int]bool // index path -> operations (other than the leader) expected to read it
	heads     map[string]map[int]bool // index path -> operations whose HEAD was answered
	gets      map[string]map[int]bool // index path -> operations that sent a download
	held      map[string]bool         // index path -> the leader's first download was (is being) held
	firstHeld chan struct{}           // closed when the leader's first download arrives
	once      sync.Once
	joined    int // downloads that were released after every expected reader had asked (interleaving achieved)
	// the run has a cache directory (later HEADs do not reach this transport)
	headsCached bool
}

func (g *gluesigGate) request(req *http.Request) {
	op, ok := req.Context().Value(gluesigOpKey{}).(int)
	if !ok {
		return
	}
	p := req.URL.Path
	set := func(m map[string]map[int]bool) {
		if m[p] == nil {
			m[p] = map[int]bool{}
		}
		m[p][op] = true
	}
	g.mu.Lock()
	if req.Method == http.MethodHead {
		set(g.heads)
		g.mu.Unlock()
		return
	}
	set(g.gets)
	if op != 0 || g.held[p] {
		g.mu.Unlock()
		return
	}
	g.held[p] = true
	g.mu.Unlock()
	g.once.Do(func() { close(g.firstHeld) })
	covered := func(m map[string]map[int]bool) bool {
		for o := range g.expect[p] {
			if !m[p][o] {
				return false
			}
		}
		return true
	}
	// with a cache directory the transport in front of this one answers later HEADs for the same URL from its own
	// per-run HEAD cache: they are never seen here, so do not wait long for them
	wait := 400 * time.Millisecond
	if g.headsCached {
		wait = 60 * time.Millisecond
	}
	deadline := time.Now().Add(wait)
	for {
		g.mu.Lock()
		ok := covered(g.heads)
		g.mu.Unlock()
		if ok || time.Now().After(deadline) {
			if ok {
				g.mu.Lock()
				g.joined++
				g.mu.Unlock()
			}
			break
		}
		time.Sleep(200 * time.Microsecond)
	}
	grace := time.Now().Add(30 * time.Millisecond)
	for {
		g.mu.Lock()
		ok := covered(g.gets)
		g.mu.Unlock()
		if ok || time.Now().After(grace) {
			return
		}
		time.Sleep(200 * time.Microsecond)
	}
}

func (t *gluesigRT) RoundTrip(req *http.Request) (*http.Response, error) {
	t.mu.Lock()
	gate := t.gate
	_, isIndex := t.index[req.URL.Path]
	t.mu.Unlock()
	if gate != nil && isIndex {
		if req.Method == http.MethodHead {
			defer gate.request(req) // counted once the answer is on its way
		} else {
			gate.request(req)
		}
	}
	mk := func(code int, b []byte) *http.Response {
		return &http.Response{StatusCode: code, Status: fmt.Sprintf("%d %s", code, http.StatusText(code)), Proto: "HTTP/1.1", ProtoMajor: 1, ProtoMinor: 1,
			Header: http.Header{}, Body: io.NopCloser(bytes.NewReader(b)), ContentLength: int64(len(b)), Request: req}
	}
	t.mu.Lock()
	body, ok := t.index[req.URL.Path]
	et := t.etag[req.URL.Path]
	t.mu.Unlock()
	if !ok {
		if body, ok = t.files[req.URL.Path]; ok {
			s := sha1.Sum(body)
			et = hex.EncodeToString(s[:8])
		}
	}
	if !ok {
		return mk(404, []byte("not found")), nil
	}
	resp := mk(200, body)
	if et != "" {
		resp.Header.Set("ETag", `"`+et+`"`)
	}
	if req.Method == http.MethodHead {
		resp.Body = io.NopCloser(bytes.NewReader(nil))
	}
	return resp, nil
}

// ---------------------------------------------------------------- running

type gluesigEnv struct {
	c        gluesigCase
	root     string
	cacheDir string
	rt       *gluesigRT
	arch     [][]byte // archive bytes per revision
	seenIdx  map[string]bool
	localRev map[string]int    // local index path -> revision currently written (-1 none)
	localTok map[string]string // local index path -> version token
	joined   int               // concurrent runs: held downloads released after every expected reader had asked
}

// key files the root file system holds besides the configured keyring
func gluesigWriteRoot(fsys apkfs.FullFS, arch string, root []gluesigRootKey) {
	for _, rk := range root {
		d := strings.ReplaceAll(rk.Dir, "<arch>", arch)
		gluesigMust(fsys.MkdirAll(d, 0o755))
		gluesigMust(fsys.WriteFile(d+"/"+rk.Key.Name, isPem(rk.Key), 0o644))
	}
}

func (e *gluesigEnv) repoURL(repo int) string {
	if e.c.Repos[repo].HTTP {
		return "https://repo.test/" + gluesigRepoNames[repo]
	}
	return filepath.Join(e.root, "repos", gluesigRepoNames[repo])
}

// a name below every kind of root the case uses (exemption lists name repositories that exist and near misses)
func (e *gluesigEnv) nosigURLs(name string) []string {
	var out []string
	seen := map[bool]bool{}
	for _, rp := range e.c.Repos {
		if seen[rp.HTTP] {
			continue
		}
		seen[rp.HTTP] = true
		if rp.HTTP {
			out = append(out, "https://repo.test/"+name)
		} else {
			out = append(out, filepath.Join(e.root, "repos")+"/"+name)
		}
	}
	return out
}

func gluesigMust(err error) {
	if err != nil {
		panic(err)
	}
}

var gluesigT0 = time.Unix(1_700_000_000, 0)

// make the world of run k: what the transport serves, what the local repositories hold; returns the `net` field
func (e *gluesigEnv) setWorld(k int, run gluesigRun) string {
	served := map[[2]string]int{}
	for _, id := range run.Serve {
		rv := e.c.Revs[id]
		served[[2]string{gluesigRepoNames[rv.Repo], rv.Arch}] = id
	}
	e.rt.mu.Lock()
	e.rt.index = map[string][]byte{}
	e.rt.etag = map[string]string{}
	e.rt.mu.Unlock()
	var net []string
	for ri, rp := range e.c.Repos {
		for _, arch := range gluesigArchs {
			id, ok := served[[2]string{gluesigRepoNames[ri], arch}]
			url := apk.IndexURL(e.repoURL(ri), arch)
			if rp.HTTP {
				if !ok || run.Offline {
					continue
				}
				p := "/" + gluesigRepoNames[ri] + "/" + arch + "/APKINDEX.tar.gz"
				kind, tok := "E", ""
				switch rp.Etag {
				case "sticky":
					tok = "sticky-" + gluesigRepoNames[ri] + "-" + arch
				case "none":
					kind, tok = "N", "-"
				default:
					tok = "h" + isBodyID(e.arch[id])
				}
				e.rt.mu.Lock()
				e.rt.index[p] = e.arch[id]
				if kind == "E" {
					e.rt.etag[p] = tok
				}
				e.rt.mu.Unlock()
				net = append(net, fmt.Sprintf("%s:x%s:%s:%d", kind, hx(url), tok, id))
				continue
			}
			// local repository: rewrite the index only when the revision changes; mtimes strictly increase
			prev, had := e.localRev[url]
			if !ok {
				if had && prev >= 0 {
					os.Remove(url)
				}
				e.localRev[url] = -1
				continue
			}
			if !had || prev != id {
				gluesigMust(os.MkdirAll(filepath.Dir(url), 0o755))
				gluesigMust(os.WriteFile(url, e.arch[id], 0o644))
				mt := gluesigT0.Add(time.Duration(k+1) * 10 * time.Second)
				gluesigMust(os.Chtimes(url, mt, mt))
				e.localRev[url] = id
				e.localTok[url] = fmt.Sprintf("m%d", k+1)
			}
			net = append(net, fmt.Sprintf("F:x%s:%s:%d", hx(url), e.localTok[url], id))
		}
	}
	return strings.Join(net, ",")
}

// after a run: give the index files that appeared in the cache directory the time of the run (offline mode picks the
// newest file; a run stores at most one file per index directory)
func (e *gluesigEnv) stampCache(k int) {
	filepath.Walk(e.cacheDir, func(p string, fi os.FileInfo, err error) error {
		if err != nil || fi.IsDir() || filepath.Base(filepath.Dir(p)) != "APKINDEX" {
			return nil
		}
		if !e.seenIdx[p] {
			e.seenIdx[p] = true
			mt := gluesigT0.Add(time.Duration(k+1) * 10 * time.Second)
			os.Chtimes(p, mt, mt)
		}
		return nil
	})
}

func gluesigErrClass(err error) byte {
	if err == nil {
		return 'L'
	}
	m := err.Error()
	if strings.Contains(m, "error getting repository indexes") || strings.Contains(m, "getting indexes for") {
		return 'E'
	}
	return 'L'
}

func gluesigRecs(pkgs []*apk.RepositoryPackage) string {
	recs := make([]string, 0, len(pkgs))
	for _, p := range pkgs {
		recs = append(recs, isPkgRec(p.Name, p.Version, p.Dependencies, p.Provides))
	}
	sort.Strings(recs)
	return "f" + strings.Join(recs, ",")
}

func gluesigOCIArch(apkArch string) types.Architecture { return types.ParseArchitecture(apkArch) }

type gluesigOpOut struct {
	class   byte
	answers []string // "<resn>=<f|n>recs"
	errs    []string
}

// the apks / ops fields of a run, and the execution of the real code
func (e *gluesigEnv) execRun(k int, run gluesigRun) (apksField, opsField string, outs []gluesigOpOut) {
	ctx := isCtx()
	work := filepath.Join(e.root, fmt.Sprintf("work%d", k))
	gluesigMust(os.MkdirAll(filepath.Join(work, "tmp"), 0o755))
	shared := apk.NewCache(true)
	encApk := func(arch string, ignore bool, nosig []string, keys []isKeyCfg, repos []string, root []gluesigRootKey) string {
		fields := []string{"x" + hx(arch), isBoolS(ignore), isEncList(nosig), gluesigEncKeys(keys), isEncList(repos)}
		if len(root) > 0 {
			// the model derives the key set from the root's files (Glue.keysOfRoot): configured keys + these
			var rf []string
			for _, rk := range root {
				rf = append(rf, "x"+hx(strings.ReplaceAll(rk.Dir, "<arch>", arch))+":x"+hx(rk.Key.Name)+":"+gluesigPemTok(rk.Key.Pem))
			}
			fields = append(fields, strings.Join(rf, ","))
		}
		return strings.Join(fields, "/")
	}
	if run.Op == "apk" {
		var apks []*apk.APK
		var enc []string
		for _, a := range run.Apks {
			src := apkfs.NewMemFS()
			gluesigMust(src.MkdirAll("etc/apk/keys", 0o755))
			gluesigMust(src.WriteFile("etc/apk/arch", []byte(a.Arch+"\n"), 0o644))
			for _, kc := range a.Keys {
				gluesigMust(src.WriteFile("etc/apk/keys/"+kc.Name, isPem(kc), 0o644))
			}
			gluesigWriteRoot(src, a.Arch, a.Root)
			var repos, nosig []string
			world := []string{}
			for _, rp := range a.Repos {
				repos = append(repos, e.repoURL(rp))
				if rp == 0 {
					world = append(world, "hello")
				} else {
					world = append(world, "tool")
				}
			}
			for _, n := range a.NoSig {
				nosig = append(nosig, e.nosigURLs(n)...)
			}
			gluesigMust(src.WriteFile("etc/apk/repositories", []byte(strings.Join(repos, "\n")+"\n"), 0o644))
			gluesigMust(src.WriteFile("etc/apk/world", []byte(strings.Join(world, "\n")+"\n"), 0o644))
			opts := []apk.Option{apk.WithFS(src), apk.WithArch(a.Arch), apk.WithIgnoreIndexSignatures(a.Ignore), apk.WithNoSignatureIndexes(nosig...), apk.WithTransport(e.rt)}
			if e.c.Cache {
				opts = append(opts, apk.WithCache(e.cacheDir, run.Offline, shared))
			}
			x, err := apk.New(opts...)
			gluesigMust(err)
			apks = append(apks, x)
			enc = append(enc, encApk(a.Arch, a.Ignore, nosig, a.Keys, repos, a.Root))
		}
		sibs := ""
		if run.Sibs {
			by := map[string]*apk.APK{}
			var idx []string
			for j, x := range apks {
				by[fmt.Sprintf("%d-%s", j, run.Apks[j].Arch)] = x
				idx = append(idx, fmt.Sprint(j))
			}
			for _, x := range apks {
				x.ByArch = by
			}
			sibs = strings.Join(idx, ".")
		}
		var ops []string
		resolve := func(ctx context.Context, j int) (o gluesigOpOut) {
			pkgs, _, err := apks[j].ResolveWorld(ctx)
			o = gluesigOpOut{class: gluesigErrClass(err)}
			if err == nil {
				o.answers = []string{"0=" + gluesigRecs(pkgs)}
			} else {
				o.errs = []string{err.Error()}
			}
			return o
		}
		outs = make([]gluesigOpOut, len(apks))
		for j := range apks {
			ops = append(ops, fmt.Sprintf("0!%d>%s", j, sibs))
		}
		if !run.Conc {
			for j := range apks {
				outs[j] = resolve(ctx, j)
			}
			return strings.Join(enc, "|"), strings.Join(ops, "|"), outs
		}
		// concurrent: which operation (other than the leader) is going to read which remote index
		gate := &gluesigGate{expect: map[string]map[int]bool{}, heads: map[string]map[int]bool{}, gets: map[string]map[int]bool{},
			held: map[string]bool{}, firstHeld: make(chan struct{}), headsCached: e.c.Cache}
		for j := 1; j < len(run.Apks); j++ {
			owners := []int{j}
			if run.Sibs {
				owners = nil
				for o := range run.Apks {
					owners = append(owners, o)
				}
			}
			for _, o := range owners {
				for _, rp := range run.Apks[o].Repos {
					if !e.c.Repos[rp].HTTP {
						continue
					}
					p := "/" + gluesigRepoNames[rp] + "/" + run.Apks[o].Arch + "/APKINDEX.tar.gz"
					if gate.expect[p] == nil {
						gate.expect[p] = map[int]bool{}
					}
					gate.expect[p][j] = true
				}
			}
		}
		e.rt.mu.Lock()
		e.rt.gate = gate
		e.rt.mu.Unlock()
		var wg sync.WaitGroup
		panics := make([]any, len(apks))
		start := func(j int, done chan struct{}) {
			wg.Add(1)
			go func() {
				defer wg.Done()
				if done != nil {
					defer close(done)
				}
				defer func() { panics[j] = recover() }()
				outs[j] = resolve(context.WithValue(ctx, gluesigOpKey{}, j), j)
			}()
		}
		leaderDone := make(chan struct{})
		start(0, leaderDone)
		select {
		case <-gate.firstHeld:
		case <-leaderDone:
		}
		for j := 1; j < len(apks); j++ {
			start(j, nil)
		}
		wg.Wait()
		e.rt.mu.Lock()
		e.rt.gate = nil
		e.rt.mu.Unlock()
		for _, p := range panics {
			if p != nil {
				panic(p)
			}
		}
		e.joined += gate.joined
		return strings.Join(enc, "|"), strings.Join(ops, "|"), outs
	}

	// build-level operations
	var repos, keyring, world []string
	for _, rp := range run.Repos {
		repos = append(repos, e.repoURL(rp))
		if rp == 0 {
			world = append(world, "hello")
		} else {
			world = append(world, "tool")
		}
	}
	for j, kc := range run.Keys {
		d := filepath.Join(work, "keys", fmt.Sprint(j))
		gluesigMust(os.MkdirAll(d, 0o755))
		p := filepath.Join(d, kc.Name)
		gluesigMust(os.WriteFile(p, isPem(kc), 0o644))
		keyring = append(keyring, p)
	}
	ic := types.ImageConfiguration{}
	ic.Contents.RuntimeRepositories = repos
	ic.Contents.Keyring = keyring
	ic.Contents.Packages = world
	opts := []build.Option{build.WithImageConfiguration(ic), build.WithTempDir(filepath.Join(work, "tmp")), build.WithSBOMFormats(nil),
		build.WithTransport(e.rt), build.WithCache(e.cacheDir, run.Offline, shared), build.WithIgnoreSignatures(run.Ignore)}
	sortedRepos := append([]string{}, repos...)
	sort.Strings(sortedRepos)
	var enc, all []string
	var archs []types.Architecture
	for j, a := range run.Archs {
		var root []gluesigRootKey
		if run.Op == "pl1" {
			root = run.Root
		}
		enc = append(enc, encApk(a, run.Ignore, nil, run.Keys, sortedRepos, root))
		all = append(all, fmt.Sprint(j))
		archs = append(archs, gluesigOCIArch(a))
	}
	sibs := strings.Join(all, ".")
	one := func(err error, answers ...string) gluesigOpOut {
		o := gluesigOpOut{class: gluesigErrClass(err)}
		if err == nil {
			o.answers = answers
		} else {
			o.errs = []string{err.Error()}
		}
		return o
	}
	switch run.Op {
	case "pl1":
		var ops []string
		for j := range run.Archs {
			fsys := tarfs.New()
			gluesigWriteRoot(fsys, run.Archs[j], run.Root)
			bc, err := build.New(ctx, fsys, append(append([]build.Option{}, opts...), build.WithArch(archs[j]))...)
			gluesigMust(err)
			pkgs, _, err := bc.BuildPackageList(ctx)
			outs = append(outs, one(err, "0="+gluesigRecs(pkgs)))
			ops = append(ops, fmt.Sprintf("0!%d>", j))
		}
		return strings.Join(enc, "|"), strings.Join(ops, "|"), outs
	case "plseq", "plall":
		mc, err := build.NewMultiArch(ctx, archs, opts...)
		gluesigMust(err)
		if run.Op == "plseq" {
			var ops []string
			for j := range run.Archs {
				pkgs, _, err := mc.Contexts[archs[j]].BuildPackageList(ctx)
				outs = append(outs, one(err, "0="+gluesigRecs(pkgs)))
				ops = append(ops, fmt.Sprintf("0!%d>%s", j, sibs))
			}
			return strings.Join(enc, "|"), strings.Join(ops, "|"), outs
		}
		lists, err := mc.BuildPackageLists(ctx)
		var answers, resns []string
		for j := range run.Archs {
			resns = append(resns, fmt.Sprintf("%d>%s", j, sibs))
			if err == nil {
				answers = append(answers, fmt.Sprintf("%d=%s", j, gluesigRecs(lists[archs[j]])))
			}
		}
		outs = append(outs, one(err, answers...))
		return strings.Join(enc, "|"), "0!" + strings.Join(resns, "&"), outs
	case "lock":
		// LockCmd resolves one architecture after the other and returns at the first error of any kind. The model only
		// knows index-loading errors, so one LockCmd call covers several architectures only when nothing else can go
		// wrong before the last one (online, every index of the family served: the views always resolve); otherwise
		// one call per architecture
		whole := !run.Offline
		for _, rp := range run.Repos {
			for _, a := range run.Archs {
				found := false
				for _, id := range run.Serve {
					if e.c.Revs[id].Repo == rp && e.c.Revs[id].Arch == a {
						found = true
					}
				}
				whole = whole && found
			}
		}
		lockOnce := func(tag string, js []int) (gluesigOpOut, string) {
			out := filepath.Join(work, "apko.lock."+tag+".json")
			var as []types.Architecture
			var resns []string
			for _, j := range js {
				as = append(as, archs[j])
				resns = append(resns, fmt.Sprintf("%d>", j))
			}
			err := verifapi.LockCmd(ctx, out, as, opts)
			var answers []string
			if err == nil {
				var lock struct {
					Contents struct {
						Packages []struct {
							Name, Version, Architecture string
						} `json:"packages"`
					} `json:"contents"`
				}
				b, rerr := os.ReadFile(out)
				gluesigMust(rerr)
				gluesigMust(json.Unmarshal(b, &lock))
				for k, j := range js {
					var recs []string
					for _, p := range lock.Contents.Packages {
						if p.Architecture == run.Archs[j] {
							recs = append(recs, isPkgRec(p.Name, p.Version, nil, nil))
						}
					}
					sort.Strings(recs)
					answers = append(answers, fmt.Sprintf("%d=n%s", k, strings.Join(recs, ",")))
				}
			}
			gluesigMust(os.MkdirAll(filepath.Join(work, "tmp"), 0o755)) // LockCmd removes the temp dir it was given
			return one(err, answers...), "1!" + strings.Join(resns, "&")
		}
		var ops []string
		if whole {
			var js []int
			for j := range run.Archs {
				js = append(js, j)
			}
			o, op := lockOnce("all", js)
			outs = append(outs, o)
			ops = append(ops, op)
		} else {
			for j := range run.Archs {
				o, op := lockOnce(fmt.Sprint(j), []int{j})
				outs = append(outs, o)
				ops = append(ops, op)
			}
		}
		return strings.Join(enc, "|"), strings.Join(ops, "|"), outs
	case "build":
		outDir := filepath.Join(work, "out")
		gluesigMust(os.MkdirAll(outDir, 0o755))
		gluesigMust(os.MkdirAll(filepath.Join(work, "sbom"), 0o755))
		err := verifapi.BuildCmd(ctx, "verif.test/img:latest", outDir, archs, nil, false, filepath.Join(work, "sbom"), opts...)
		var resns []string
		for j := range run.Archs {
			resns = append(resns, fmt.Sprintf("%d>%s", j, sibs))
		}
		for j := range run.Archs {
			resns = append(resns, fmt.Sprintf("%d>", j))
		}
		outs = append(outs, one(err))
		return strings.Join(enc, "|"), "0!" + strings.Join(resns, "&"), outs
	}
	panic("gluesig: unknown op " + run.Op)
}

var gluesigLogOnce sync.Once

func gluesigRootDesc(root []gluesigRootKey) string {
	if len(root) == 0 {
		return ""
	}
	var out []string
	for _, rk := range root {
		out = append(out, rk.Dir+"/"+isKeysDesc([]isKeyCfg{rk.Key}))
	}
	return " root-also-holds=" + strings.Join(out, ",")
}

func (gluesigSuite) Run(raw json.RawMessage) []Step {
	var c gluesigCase
	if err := json.Unmarshal(raw, &c); err != nil {
		panic(err)
	}
	gluesigLogOnce.Do(func() { slog.SetDefault(slog.New(slog.NewTextHandler(io.Discard, nil))) })
	root, err := os.MkdirTemp("", "verif-gluesig-")
	gluesigMust(err)
	defer os.RemoveAll(root)
	root, _ = filepath.EvalSymlinks(root)
	e := &gluesigEnv{c: c, root: root, cacheDir: filepath.Join(root, "cache"), rt: &gluesigRT{files: map[string][]byte{}},
		seenIdx: map[string]bool{}, localRev: map[string]int{}, localTok: map[string]string{}}
	gluesigMust(os.MkdirAll(e.cacheDir, 0o755))
	// packages: served by the transport, and laid out in the local repositories
	for name, a := range gluesigGetApks() {
		parts := strings.SplitN(name, "/", 2)
		ri := 0
		if parts[0] == gluesigRepoNames[1] {
			ri = 1
		}
		if c.Repos[ri].HTTP {
			e.rt.files["/"+name+".apk"] = a.bytes
		} else {
			p := filepath.Join(root, "repos", name+".apk")
			gluesigMust(os.MkdirAll(filepath.Dir(p), 0o755))
			gluesigMust(os.WriteFile(p, a.bytes, 0o644))
		}
	}
	// archives and their abstract descriptions
	ukeys := gluesigUniverseKeys()
	var archFields []string
	tagset := map[string]bool{"shape:" + c.Shape: true}
	for id, rv := range c.Revs {
		b := gluesigRevArchive(id, rv)
		e.arch = append(e.arch, b)
		f, verif, pRest, pWhole := isAbstract(b, ukeys)
		archFields = append(archFields, f.encode(), verif, pRest, pWhole)
		tagset["sign:"+rv.Sign] = true
	}
	var runFields, classes, answers, desc []string
	for k, run := range c.Runs {
		if run.NewProcess || k == 0 {
			apk.VerifResetGlobalCaches()
		}
		net := e.setWorld(k, run)
		apksF, opsF, outs := e.execRun(k, run)
		e.stampCache(k)
		cacheOn := run.Op != "apk" || c.Cache
		runFields = append(runFields, strings.Join([]string{isBoolS(run.NewProcess || k == 0), isBoolS(run.Offline), isBoolS(cacheOn), net, apksF, opsF}, ";"))
		var cl []byte
		var an []string
		for _, o := range outs {
			cl = append(cl, o.class)
			if len(o.answers) == 0 {
				an = append(an, "-")
			} else {
				an = append(an, strings.Join(o.answers, "&"))
			}
			tagset[fmt.Sprintf("op:%s:%c", run.Op, o.class)] = true
			if run.Offline {
				tagset[fmt.Sprintf("offline:%c", o.class)] = true
			}
			if !(run.NewProcess || k == 0) {
				tagset[fmt.Sprintf("same-process:%c", o.class)] = true
			}
			if run.Conc {
				tagset[fmt.Sprintf("conc:%c", o.class)] = true
			}
			for _, m := range o.errs {
				if o.class == 'L' {
					tagset["other-error"] = true
					_ = m
				}
			}
		}
		classes = append(classes, string(cl))
		an2 := strings.Join(an, "|")
		answers = append(answers, an2)
		var served []string
		for _, id := range run.Serve {
			rv := c.Revs[id]
			served = append(served, fmt.Sprintf("%s/%s=rev%d(%s %v)", gluesigRepoNames[rv.Repo], rv.Arch, id, rv.Sign, rv.View))
		}
		d := fmt.Sprintf("run %d: op=%s newprocess=%v offline=%v ignore=%v", k, run.Op, run.NewProcess || k == 0, run.Offline, run.Ignore)
		if run.Op == "apk" {
			for _, a := range run.Apks {
				d += fmt.Sprintf(" apk[%s keys=%s ignore=%v nosig=%q repos=%v%s]", a.Arch, isKeysDesc(a.Keys), a.Ignore, a.NoSig, a.Repos, gluesigRootDesc(a.Root))
				for _, rk := range a.Root {
					tagset["rootkey:"+rk.Dir] = true
				}
			}
			d += fmt.Sprintf(" sibs=%v concurrent=%v", run.Sibs, run.Conc)
		} else {
			d += fmt.Sprintf(" archs=%v keys=%s repos=%v%s", run.Archs, isKeysDesc(run.Keys), run.Repos, gluesigRootDesc(run.Root))
			for _, rk := range run.Root {
				tagset["rootkey:"+rk.Dir] = true
			}
		}
		d += " serves " + strings.Join(served, " ") + " -> " + string(cl)
		for _, o := range outs {
			for _, m := range o.errs {
				if len(m) > 160 {
					m = m[:160]
				}
				d += " {" + m + "}"
			}
		}
		desc = append(desc, d)
	}
	if e.joined > 0 {
		tagset["conc:interleaved"] = true
	}
	goClasses := strings.Join(classes, "/")
	line := strings.Join(append(append([]string{"is.glue", goClasses, strings.Join(answers, "/"), fmt.Sprint(len(c.Revs))}, archFields...), runFields...), "\t")
	var tags []string
	for t := range tagset {
		tags = append(tags, t)
	}
	sort.Strings(tags)
	kinds := fmt.Sprintf("repos=%+v cache=%v", c.Repos, c.Cache)
	return []Step{{Line: line, Go: goClasses, Desc: kinds + " | " + strings.Join(desc, " | "), Tags: tags, Mode: "verdict"}}
}
