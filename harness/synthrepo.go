package main

// Synthetic signed apk repository (DESIGN.md §2.2a), shared by the end-to-end suites.
// Hand-rolled (does not use apko's own writers): per architecture `<name>-<ver>.apk` =
// [gzip(tar .SIGN…)] ++ gzip(unterminated tar with .PKGINFO) ++ gzip(PAX tar, regular files and
// symlinks carry APK-TOOLS.checksum.SHA1), and `APKINDEX.tar.gz` = gzip(unterminated tar with
// .SIGN.RSA256.<key>) ++ gzip(tar APKINDEX, DESCRIPTION), signed over the second member's raw bytes.

import (
	"archive/tar"
	"bytes"
	"compress/gzip"
	"crypto"
	"crypto/rand"
	"crypto/rsa"
	"crypto/sha1"
	"crypto/sha256"
	"crypto/x509"
	"encoding/base64"
	"encoding/hex"
	"encoding/pem"
	"fmt"
	"io"
	"net/http"
	"os"
	"path/filepath"
	"sort"
	"strings"
	"sync"
	"time"
)

type SFile struct {
	Path    string            `json:"path"`
	Type    string            `json:"type"` // file | dir | symlink | hardlink | char
	Mode    int64             `json:"mode"`
	UID     int               `json:"uid,omitempty"`
	GID     int               `json:"gid,omitempty"`
	Content string            `json:"content,omitempty"` // raw bytes (latin-1 safe in generators)
	Link    string            `json:"link,omitempty"`
	Xattrs  map[string]string `json:"xattrs,omitempty"`
	Mtime   int64             `json:"mtime,omitempty"`
	Major   int64             `json:"major,omitempty"`
	Minor   int64             `json:"minor,omitempty"`
	// tampering knobs (C05): override / drop the recorded per-file checksum
	BadChecksum bool `json:"bad_checksum,omitempty"`
	NoChecksum  bool `json:"no_checksum,omitempty"`
}

type SPkg struct {
	Name      string   `json:"name"`
	Version   string   `json:"version"`
	Origin    string   `json:"origin,omitempty"`
	Deps      []string `json:"deps,omitempty"`
	Provides  []string `json:"provides,omitempty"`
	Replaces  []string `json:"replaces,omitempty"`
	InstallIf []string `json:"install_if,omitempty"`
	Priority  uint64   `json:"priority,omitempty"`
	License   string   `json:"license,omitempty"`
	Desc      string   `json:"desc,omitempty"`
	URL       string   `json:"url,omitempty"`
	Commit    string   `json:"commit,omitempty"`
	BuildTime int64    `json:"build_time,omitempty"`
	Files     []SFile  `json:"files,omitempty"`
	// only on these architectures (empty = all)
	OnlyArch []string `json:"only_arch,omitempty"`
	// the .apk starts with a signature member (apko keeps it as the package's signature section; it is not verified)
	Signed bool `json:"signed,omitempty"`
	// the datahash line of .PKGINFO, verbatim, instead of the hex digest of the data section (C18: a string, not a digest)
	DataHashOverride *string `json:"datahash_override,omitempty"`
	// the arch line of .PKGINFO / the A: line of the index, verbatim (C18)
	ArchOverride string `json:"arch_override,omitempty"`
}

type builtApk struct {
	bytes    []byte
	control  []byte // gz member
	data     []byte // gz member
	checksum []byte // sha1(control member)
	dataHash []byte // sha256(data member)
	instSize int64
}

var (
	synthKeyOnce sync.Once
	synthKey     *rsa.PrivateKey
)

// the key is generated once per process (RSA keygen is the slowest part of a case)
func synthRSAKey() *rsa.PrivateKey {
	synthKeyOnce.Do(func() {
		k, err := rsa.GenerateKey(rand.Reader, 2048)
		if err != nil {
			panic(err)
		}
		synthKey = k
	})
	return synthKey
}

func pubKeyPEM(k *rsa.PrivateKey) []byte {
	b, err := x509.MarshalPKIXPublicKey(&k.PublicKey)
	if err != nil {
		panic(err)
	}
	return pem.EncodeToMemory(&pem.Block{Type: "PUBLIC KEY", Bytes: b})
}

func gz(b []byte) []byte {
	var o bytes.Buffer
	w, _ := gzip.NewWriterLevel(&o, gzip.BestSpeed)
	w.Write(b)
	w.Close()
	return o.Bytes()
}

// tarBytes writes entries; terminate=false leaves out the end-of-archive blocks (apk stream members)
func tarBytes(terminate bool, write func(tw *tar.Writer)) []byte {
	var o bytes.Buffer
	tw := tar.NewWriter(&o)
	write(tw)
	if terminate {
		tw.Close()
	} else {
		tw.Flush()
	}
	return o.Bytes()
}

func pkginfo(p SPkg, arch string, size int64, dataHash []byte) string {
	var b strings.Builder
	w := func(k, v string) { fmt.Fprintf(&b, "%s = %s\n", k, v) }
	w("pkgname", p.Name)
	w("pkgver", p.Version)
	if p.ArchOverride != "" {
		w("arch", p.ArchOverride)
	} else {
		w("arch", arch)
	}
	w("size", fmt.Sprint(size))
	if p.Origin != "" {
		w("origin", p.Origin)
	}
	w("pkgdesc", p.Desc)
	w("url", p.URL)
	w("commit", p.Commit)
	w("builddate", fmt.Sprint(p.BuildTime))
	w("license", p.License)
	for _, d := range p.Deps {
		w("depend", d)
	}
	for _, d := range p.Provides {
		w("provides", d)
	}
	for _, d := range p.Replaces {
		w("replaces", d)
	}
	for _, d := range p.InstallIf {
		w("install_if", d)
	}
	if p.Priority != 0 {
		w("provider_priority", fmt.Sprint(p.Priority))
	}
	if p.DataHashOverride != nil {
		w("datahash", *p.DataHashOverride)
	} else {
		w("datahash", hex.EncodeToString(dataHash))
	}
	return b.String()
}

func buildApk(p SPkg, arch string) builtApk {
	var inst int64
	data := tarBytes(true, func(tw *tar.Writer) {
		for _, f := range p.Files {
			h := &tar.Header{Name: f.Path, Mode: f.Mode, Uid: f.UID, Gid: f.GID, ModTime: time.Unix(f.Mtime, 0), Format: tar.FormatPAX,
				Uname: "root", Gname: "root"}
			pax := map[string]string{}
			for k, v := range f.Xattrs {
				pax["SCHILY.xattr."+k] = v
			}
			sum := func(b []byte) {
				if f.NoChecksum {
					return
				}
				s := sha1.Sum(b)
				if f.BadChecksum {
					s[0] ^= 0xff
				}
				pax["APK-TOOLS.checksum.SHA1"] = hex.EncodeToString(s[:])
			}
			switch f.Type {
			case "dir":
				h.Typeflag = tar.TypeDir
				if !strings.HasSuffix(h.Name, "/") {
					h.Name += "/"
				}
			case "symlink":
				h.Typeflag = tar.TypeSymlink
				h.Linkname = f.Link
				sum([]byte(f.Link))
			case "hardlink":
				h.Typeflag = tar.TypeLink
				h.Linkname = f.Link
			case "char":
				h.Typeflag = tar.TypeChar
				h.Devmajor, h.Devminor = f.Major, f.Minor
			default:
				h.Typeflag = tar.TypeReg
				h.Size = int64(len(f.Content))
				inst += h.Size
				sum([]byte(f.Content))
			}
			if len(pax) > 0 {
				h.PAXRecords = pax
			}
			if err := tw.WriteHeader(h); err != nil {
				panic(fmt.Sprintf("synthrepo: tar header %q: %v", f.Path, err))
			}
			if h.Typeflag == tar.TypeReg {
				tw.Write([]byte(f.Content))
			}
		}
	})
	dataGz := gz(data)
	dh := sha256.Sum256(dataGz)
	info := pkginfo(p, arch, inst, dh[:])
	ctl := tarBytes(false, func(tw *tar.Writer) {
		tw.WriteHeader(&tar.Header{Name: ".PKGINFO", Mode: 0o644, Size: int64(len(info)), Typeflag: tar.TypeReg, ModTime: time.Unix(0, 0)})
		tw.Write([]byte(info))
	})
	ctlGz := gz(ctl)
	cs := sha1.Sum(ctlGz)
	if p.Signed {
		sig := gz(tarBytes(false, func(tw *tar.Writer) {
			body := []byte("not-a-real-signature:" + p.Name + "-" + p.Version + strings.Repeat("#", 600))
			tw.WriteHeader(&tar.Header{Name: ".SIGN.RSA.fake.rsa.pub", Mode: 0o644, Size: int64(len(body)), Typeflag: tar.TypeReg, ModTime: time.Unix(0, 0)})
			tw.Write(body)
		}))
		return builtApk{bytes: append(append(append([]byte{}, sig...), ctlGz...), dataGz...), control: ctlGz, data: dataGz, checksum: cs[:], dataHash: dh[:], instSize: inst}
	}
	return builtApk{bytes: append(append([]byte{}, ctlGz...), dataGz...), control: ctlGz, data: dataGz, checksum: cs[:], dataHash: dh[:], instSize: inst}
}

func indexEntry(p SPkg, arch string, a builtApk) string {
	var b strings.Builder
	w := func(k, v string) { fmt.Fprintf(&b, "%s:%s\n", k, v) }
	w("C", "Q1"+base64.StdEncoding.EncodeToString(a.checksum))
	w("P", p.Name)
	w("V", p.Version)
	w("A", arch)
	w("S", fmt.Sprint(len(a.bytes)))
	w("I", fmt.Sprint(a.instSize))
	w("T", p.Desc)
	w("U", p.URL)
	w("L", p.License)
	if p.Origin != "" {
		w("o", p.Origin)
	}
	w("t", fmt.Sprint(p.BuildTime))
	if p.Commit != "" {
		w("c", p.Commit)
	}
	if len(p.Deps) > 0 {
		w("D", strings.Join(p.Deps, " "))
	}
	if len(p.Provides) > 0 {
		w("p", strings.Join(p.Provides, " "))
	}
	if len(p.Replaces) > 0 {
		w("r", strings.Join(p.Replaces, " "))
	}
	if len(p.InstallIf) > 0 {
		w("i", strings.Join(p.InstallIf, " "))
	}
	if p.Priority != 0 {
		w("k", fmt.Sprint(p.Priority))
	}
	b.WriteString("\n")
	return b.String()
}

const synthKeyName = "verif@synth.rsa.pub"

func signIndex(indexGz []byte, k *rsa.PrivateKey) []byte {
	d := sha256.Sum256(indexGz)
	sig, err := rsa.SignPKCS1v15(rand.Reader, k, crypto.SHA256, d[:])
	if err != nil {
		panic(err)
	}
	sigTar := tarBytes(false, func(tw *tar.Writer) {
		tw.WriteHeader(&tar.Header{Name: ".SIGN.RSA256." + synthKeyName, Mode: 0o644, Size: int64(len(sig)), Typeflag: tar.TypeReg, ModTime: time.Unix(0, 0)})
		tw.Write(sig)
	})
	return append(gz(sigTar), indexGz...)
}

// SRepo is a built repository: URL path (relative to the repository root) → bytes.
type SRepo struct {
	Files  map[string][]byte
	Apks   map[string]builtApk // "<arch>/<name>-<ver>.apk"
	KeyPEM []byte
}

func BuildSynthRepo(pkgs []SPkg, archs []string) *SRepo {
	k := synthRSAKey()
	r := &SRepo{Files: map[string][]byte{}, Apks: map[string]builtApk{}, KeyPEM: pubKeyPEM(k)}
	for _, arch := range archs {
		var idx strings.Builder
		for _, p := range pkgs {
			if len(p.OnlyArch) > 0 && !contains(p.OnlyArch, arch) {
				continue
			}
			a := buildApk(p, arch)
			name := fmt.Sprintf("%s/%s-%s.apk", arch, p.Name, p.Version)
			r.Files[name] = a.bytes
			r.Apks[name] = a
			idx.WriteString(indexEntry(p, arch, a))
		}
		body := idx.String()
		indexTar := tarBytes(true, func(tw *tar.Writer) {
			desc := "synthetic"
			tw.WriteHeader(&tar.Header{Name: "DESCRIPTION", Mode: 0o644, Size: int64(len(desc)), Typeflag: tar.TypeReg, ModTime: time.Unix(0, 0)})
			tw.Write([]byte(desc))
			tw.WriteHeader(&tar.Header{Name: "APKINDEX", Mode: 0o644, Size: int64(len(body)), Typeflag: tar.TypeReg, ModTime: time.Unix(0, 0)})
			tw.Write([]byte(body))
		})
		r.Files[arch+"/APKINDEX.tar.gz"] = signIndex(gz(indexTar), k)
	}
	return r
}

func contains(l []string, s string) bool {
	for _, x := range l {
		if x == s {
			return true
		}
	}
	return false
}

// WriteTo lays the repository out under dir (for file-path repositories) and returns the key path.
func (r *SRepo) WriteTo(dir string) string {
	names := make([]string, 0, len(r.Files))
	for n := range r.Files {
		names = append(names, n)
	}
	sort.Strings(names)
	for _, n := range names {
		p := filepath.Join(dir, n)
		os.MkdirAll(filepath.Dir(p), 0o755)
		if err := os.WriteFile(p, r.Files[n], 0o644); err != nil {
			panic(err)
		}
	}
	kp := filepath.Join(dir, synthKeyName)
	if err := os.WriteFile(kp, r.KeyPEM, 0o644); err != nil {
		panic(err)
	}
	return kp
}

// ---- in-process HTTP serving (no sockets): https://repo.test/<path> ----

type SRequest struct {
	Method string
	Path   string
	Range  string
}

type SynthTransport struct {
	mu    sync.Mutex
	Repo  *SRepo
	Etag  map[string]string // path -> etag (default: sha1 of content)
	Log   []SRequest
	Hook  func(req *http.Request, body []byte) (*http.Response, bool) // optional interception
	NoTag bool
}

func (t *SynthTransport) RoundTrip(req *http.Request) (*http.Response, error) {
	t.mu.Lock()
	t.Log = append(t.Log, SRequest{req.Method, req.URL.Path, req.Header.Get("Range")})
	t.mu.Unlock()
	path := strings.TrimPrefix(req.URL.Path, "/")
	var body []byte
	var ok bool
	if path == synthKeyName || path == "keys/"+synthKeyName || (strings.HasPrefix(path, "keys/extra-") && strings.HasSuffix(path, ".rsa.pub")) {
		body, ok = t.Repo.KeyPEM, true
	} else {
		body, ok = t.Repo.Files[path]
	}
	if t.Hook != nil {
		if resp, handled := t.Hook(req, body); handled {
			return resp, nil
		}
	}
	mk := func(code int, b []byte) *http.Response {
		return &http.Response{StatusCode: code, Status: fmt.Sprintf("%d %s", code, http.StatusText(code)), Proto: "HTTP/1.1", ProtoMajor: 1, ProtoMinor: 1,
			Header: http.Header{}, Body: io.NopCloser(bytes.NewReader(b)), ContentLength: int64(len(b)), Request: req}
	}
	if !ok {
		return mk(404, []byte("not found")), nil
	}
	resp := mk(200, body)
	if !t.NoTag {
		et := t.Etag[path]
		if et == "" {
			s := sha1.Sum(body)
			et = `"` + hex.EncodeToString(s[:8]) + `"`
		}
		resp.Header.Set("ETag", et)
	}
	if req.Method == http.MethodHead {
		resp.Body = io.NopCloser(bytes.NewReader(nil))
	}
	return resp, nil
}
