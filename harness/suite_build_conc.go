package main

// corr:build-concurrent (C12, run from the -race build): whole multi-architecture `apko build` runs (3-4
// architectures, each built in its own goroutine by internal/cli) under the race detector.  The hand-over of the
// per-architecture images, SBOMs and layers to the index writer is shared mutable state of the command itself;
// a lost map insert shows up as an index without one of the requested architectures, an unsynchronised one as a
// race report.  Oracle on the output: the index lists exactly one manifest per requested architecture.

import (
	"encoding/json"
	"fmt"
	"sort"
	"strings"
	"time"
)

type buildConcSuite struct{}

func init() { register(buildConcSuite{}) }

func (buildConcSuite) Name() string { return "build-concurrent" }

func (buildConcSuite) Gen(r *Rng, i int, tier string) any {
	c := genImageCase(r)
	c.Archs = []string{"x86_64", "aarch64", "riscv64", "ppc64le"}[:r.Range(3, 4)]
	// per-architecture variants of one package (made for the generator's own architecture list): keep the first
	var pk []SPkg
	seen := map[string]bool{}
	for _, p := range c.Pkgs {
		if len(p.OnlyArch) > 0 {
			if seen[p.Name+"-"+p.Version] {
				continue
			}
			seen[p.Name+"-"+p.Version] = true
			p.OnlyArch = nil
		}
		pk = append(pk, p)
	}
	c.Pkgs = pk
	c.SBOM = r.Chance(50)
	return c
}

func (buildConcSuite) Run(raw json.RawMessage) []Step {
	var c ImgCase
	if err := json.Unmarshal(raw, &c); err != nil {
		panic(err)
	}
	repo := BuildSynthRepo(c.Pkgs, c.Archs)
	o := e2eBuild(c.IC, repo, E2EOpts{Archs: c.Archs, SBOM: c.SBOM, BuildDate: time.Unix(1700000000, 0).UTC().Format(time.RFC3339)})
	got, verdict := "err", "pass" // a failing build is the business of other suites
	if o.Err != nil {
		got = "err " + truncStr(o.Err.Error(), 160)
	}
	if o.Err == nil {
		var idx struct {
			Manifests []struct {
				Platform struct {
					Architecture string `json:"architecture"`
					Variant      string `json:"variant"`
				} `json:"platform"`
			} `json:"manifests"`
		}
		var plats []string
		read := func(b []byte) bool {
			idx.Manifests = nil
			if json.Unmarshal(b, &idx) != nil {
				return false
			}
			plats = nil
			for _, m := range idx.Manifests {
				if m.Platform.Architecture != "" {
					plats = append(plats, m.Platform.Architecture+m.Platform.Variant)
				}
			}
			return len(plats) > 0
		}
		if !read(o.Files["layout/index.json"]) {
			// index.json names the image index blob
			for name, b := range o.Files {
				if strings.HasPrefix(name, "layout/blobs/") && len(b) < 1<<20 && read(b) {
					break
				}
			}
		}
		sort.Strings(plats)
		got = fmt.Sprintf("ok platforms=%v", plats)
		if len(plats) != len(c.Archs) {
			verdict = fmt.Sprintf("fail:the build for %v produced an index with the platforms %v", c.Archs, plats)
		}
	}
	return []Step{{Line: "x.robust\tbuild-conc-" + fmt.Sprint(len(raw)), Go: got, Mode: "oracle-go", GoSpec: verdict, NoImpl: true,
		Desc: fmt.Sprintf("multi-architecture build for %v (sbom=%v)", c.Archs, c.SBOM), Tags: []string{fmt.Sprintf("archs:%d", len(c.Archs)), "build:" + strings.SplitN(got, " ", 2)[0]}, Trivial: o.Err != nil}}
}
